(* C06 — proofs.
   Part A: the transcription Model/Discovery.v computes, for every operation, exactly
           what [spec_step recorded] computes (refinement), on states satisfying [Inv].
   Part B: [spec_step ideal] and [spec_step recorded] differ only in entity types and
           entity contents of the acting peer (addresses, events, registries, other
           peers always coincide).
   Part C: every trace of the model is accepted by the monitor modulo the excuses. *)
From Verif Require Import Base.Prelude Model.Discovery Spec.DiscoverySpec.
Open Scope N_scope.

(* ---------------------------------------------------------------- basics *)

Lemma addr_eqb_refl a : addr_eqb a a = true.
Proof. induction a as [|x a IH]; simpl; [reflexivity|]. rewrite N.eqb_refl. exact IH. Qed.

Lemma addr_eqb_eq a b : addr_eqb a b = true <-> a = b.
Proof.
  split.
  - revert b. induction a as [|x a IH]; intros [|y b] H; simpl in H; try discriminate; [reflexivity|].
    apply andb_true_iff in H. destruct H as [H1 H2]. apply N.eqb_eq in H1. apply IH in H2. congruence.
  - intros ->. apply addr_eqb_refl.
Qed.

Lemma addr_eqb_sym a b : addr_eqb a b = addr_eqb b a.
Proof.
  destruct (addr_eqb a b) eqn:E.
  - apply addr_eqb_eq in E. subst. symmetry. apply addr_eqb_refl.
  - destruct (addr_eqb b a) eqn:E2; [|reflexivity]. apply addr_eqb_eq in E2. subst.
    rewrite addr_eqb_refl in E. discriminate.
Qed.

Definition addrs (t : tree) : list addr := map e_addr t.

Lemma known_addrs a t : known a t = mem_addr a (addrs t).
Proof. unfold known, mem_addr, addrs. induction t as [|e t IH]; simpl; [reflexivity|]. rewrite IH. reflexivity. Qed.

Lemma mem_addr_In a l : mem_addr a l = true <-> In a l.
Proof.
  unfold mem_addr. rewrite existsb_exists. split.
  - intros [x [Hx He]]. apply addr_eqb_eq in He. subst. exact Hx.
  - intros H. exists a. split; [exact H|apply addr_eqb_refl].
Qed.

Lemma mem_addr_app a l1 l2 : mem_addr a (l1 ++ l2) = mem_addr a l1 || mem_addr a l2.
Proof. unfold mem_addr. apply existsb_app. Qed.

Lemma filter_filter {A} (f g : A -> bool) l : filter f (filter g l) = filter (fun x => g x && f x) l.
Proof.
  induction l as [|x l IH]; simpl; [reflexivity|].
  destruct (g x); simpl; [destruct (f x)|]; rewrite IH; reflexivity.
Qed.

Lemma filter_all {A} (f : A -> bool) l : (forall x, In x l -> f x = true) -> filter f l = l.
Proof.
  induction l as [|x l IH]; simpl; intros H; [reflexivity|].
  rewrite (H x (or_introl eq_refl)). f_equal. apply IH. intros y Hy. apply H. right. exact Hy.
Qed.

Lemma filter_none {A} (f : A -> bool) l : (forall x, In x l -> f x = false) -> filter f l = [].
Proof.
  induction l as [|x l IH]; simpl; intros H; [reflexivity|].
  rewrite (H x (or_introl eq_refl)). apply IH. intros y Hy. apply H. right. exact Hy.
Qed.

Lemma map_filter_comm {A B} (g : A -> B) (f : B -> bool) l :
  map g (filter (fun x => f (g x)) l) = filter f (map g l).
Proof. induction l as [|x l IH]; simpl; [reflexivity|]. destruct (f (g x)); simpl; rewrite IH; reflexivity. Qed.

(* ---------------------------------------------------------------- trees *)

Lemma delete_unknown a t : known a t = false -> delete a t = t.
Proof.
  unfold known, delete. intros H. apply filter_all. intros x Hx.
  destruct (addr_eqb (e_addr x) a) eqn:E; [|reflexivity].
  assert (existsb (fun e => addr_eqb (e_addr e) a) t = true) by (apply existsb_exists; exists x; auto).
  congruence.
Qed.

Lemma addrs_replace_first n k t : addrs (replace_first n k t) = addrs t.
Proof.
  unfold addrs. induction t as [|x t IH]; simpl; [reflexivity|].
  destruct (addr_eqb (e_addr x) (e_addr n)); simpl; [reflexivity|]. rewrite IH. reflexivity.
Qed.

Lemma addrs_upsert d t n :
  addrs (upsert d t n) = if known (e_addr n) t then addrs t else addrs t ++ [e_addr n].
Proof.
  unfold upsert. destruct (known (e_addr n) t).
  - apply addrs_replace_first.
  - unfold addrs. rewrite map_app. reflexivity.
Qed.

Lemma addrs_delete a t : addrs (delete a t) = filter (fun x => negb (addr_eqb x a)) (addrs t).
Proof. unfold addrs, delete. apply (map_filter_comm e_addr (fun x => negb (addr_eqb x a))). Qed.

Lemma update_entity_replace a ty d fs t :
  update_entity a d fs t = replace_first {| e_addr := a; e_type := ty; e_descr := d; e_feats := fs |} true t.
Proof.
  induction t as [|x t IH]; simpl; [reflexivity|].
  destruct (addr_eqb (e_addr x) a); [reflexivity|]. rewrite IH. reflexivity.
Qed.

(* ---------------------------------------------------------------- changes *)

Definition appeared (c : list change) : list addr :=
  flat_map (fun x => match x with Appeared a => [a] | Disappeared _ => [] end) c.

Definition all_appeared (c : list change) : Prop :=
  forall x, In x c -> exists a, x = Appeared a.

Lemma appeared_app c1 c2 : appeared (c1 ++ c2) = appeared c1 ++ appeared c2.
Proof. unfold appeared. apply flat_map_app. Qed.

Lemma gone_app c1 c2 : gone (c1 ++ c2) = gone c1 ++ gone c2.
Proof. unfold gone. apply flat_map_app. Qed.

Lemma all_appeared_gone c : all_appeared c -> gone c = [].
Proof.
  induction c as [|x c IH]; intros H; [reflexivity|].
  destruct (H x (or_introl eq_refl)) as [a ->]. simpl. apply IH. intros y Hy. apply H. right. exact Hy.
Qed.

Lemma all_appeared_events p c : all_appeared c -> map (EvEntity p true) (appeared c) = map (ev_of p) c.
Proof.
  induction c as [|x c IH]; intros H; [reflexivity|].
  destruct (H x (or_introl eq_refl)) as [a ->]. simpl. f_equal. apply IH. intros y Hy. apply H. right. exact Hy.
Qed.

Lemma all_appeared_app c1 c2 : all_appeared c1 -> all_appeared c2 -> all_appeared (c1 ++ c2).
Proof. intros H1 H2 x Hx. apply in_app_or in Hx. destruct Hx; auto. Qed.

Lemma announce_changes d fis t e : all_appeared (snd (announce d fis t e)).
Proof.
  unfold announce. simpl. destruct (known (me_addr e) t); intros x Hx; simpl in Hx; [contradiction|].
  destruct Hx as [<-|[]]. eauto.
Qed.

Lemma announce_all_cons d fis t e r :
  announce_all d fis t (e :: r) =
  (fst (announce_all d fis (upsert d t (announced fis e)) r),
   (if known (me_addr e) t then [] else [Appeared (me_addr e)]) ++
   snd (announce_all d fis (upsert d t (announced fis e)) r)).
Proof.
  simpl. unfold announce. destruct (announce_all d fis (upsert d t (announced fis e)) r). reflexivity.
Qed.

Lemma retract_all_cons t a r :
  retract_all t (a :: r) =
  (fst (retract_all (delete a t) r),
   (if known a t then [Disappeared a] else []) ++ snd (retract_all (delete a t) r)).
Proof. simpl. unfold retract. destruct (retract_all (delete a t) r). reflexivity. Qed.

Lemma announce_all_changes d fis es : forall t, all_appeared (snd (announce_all d fis t es)).
Proof.
  induction es as [|e es IH]; intros t.
  - intros x [].
  - rewrite announce_all_cons. simpl. apply all_appeared_app; [|apply IH].
    destruct (known (me_addr e) t); intros x Hx; simpl in Hx; [contradiction|].
    destruct Hx as [<-|[]]. eauto.
Qed.

(* ---------------------------------------------------------------- Part A: refinement *)

(* AddEntityAndFeatures *)
Lemma aef_spec fis es : forall t,
  add_entity_and_features t es fis =
  (fst (announce_all recorded fis t es), appeared (snd (announce_all recorded fis t es))).
Proof.
  induction es as [|e es IH]; intros t; [reflexivity|].
  rewrite announce_all_cons. cbn [add_entity_and_features fst snd].
  unfold upsert. cbn [announced e_addr keep_type recorded].
  destruct (known (me_addr e) t) eqn:K.
  - rewrite IH. cbn [app].
    rewrite (update_entity_replace (me_addr e) (me_type e)). reflexivity.
  - rewrite IH. cbn [fst snd]. rewrite appeared_app. reflexivity.
Qed.

Definition cascades (p : N) (dk : bool) (l : list addr) (r : list rentry) : list rentry :=
  fold_left (fun r a => cascade p dk a r) l r.

Lemma apply_partial_step d fis t e r :
  apply_partial d fis t (e :: r) =
  match me_state e with
  | None => (t, [])
  | Some s =>
      if N.eqb s ST_ADDED then
        (fst (apply_partial d fis (upsert d t (announced fis e)) r),
         (if known (me_addr e) t then [] else [Appeared (me_addr e)]) ++
         snd (apply_partial d fis (upsert d t (announced fis e)) r))
      else if N.eqb s ST_REMOVED then
        if is_devinfo (me_addr e) then (t, [])
        else
        (fst (apply_partial d fis (delete (me_addr e) t) r),
         (if known (me_addr e) t then [Disappeared (me_addr e)] else []) ++
         snd (apply_partial d fis (delete (me_addr e) t) r))
      else apply_partial d fis t r
  end.
Proof.
  cbn [apply_partial]. destruct (me_state e) as [s|]; [|reflexivity].
  destruct (N.eqb s ST_ADDED).
  - unfold announce. destruct (apply_partial d fis (upsert d t (announced fis e)) r). reflexivity.
  - destruct (N.eqb s ST_REMOVED); [|reflexivity].
    destruct (is_devinfo (me_addr e)); [reflexivity|].
    unfold retract. destruct (apply_partial d fis (delete (me_addr e) t) r). reflexivity.
Qed.

(* processNotifyDetailedDiscoveryData, the loop *)
Lemma process_entries_spec p dk fis es : forall t r,
  process_entries p dk t r es fis =
  (fst (apply_partial recorded fis t es),
   cascades p dk (gone (snd (apply_partial recorded fis t es))) r,
   map (ev_of p) (snd (apply_partial recorded fis t es))).
Proof.
  induction es as [|e es IH]; intros t r; [reflexivity|].
  rewrite apply_partial_step. cbn [process_entries].
  destruct (me_state e) as [s|]; [|reflexivity].
  destruct (N.eqb s ST_ADDED).
  - rewrite aef_spec. rewrite announce_all_cons. cbn [announce_all fst snd].
    rewrite IH. cbn [fst snd].
    rewrite app_nil_r.
    destruct (known (me_addr e) t); cbn [app appeared flat_map map gone]; reflexivity.
  - destruct (N.eqb s ST_REMOVED); [|apply IH].
    destruct (is_devinfo (me_addr e)); [reflexivity|].
    unfold remove_entity_by_address. destruct (known (me_addr e) t) eqn:K.
    + fold (delete (me_addr e) t). rewrite IH. cbn [fst snd app gone flat_map map cascades fold_left ev_of].
      reflexivity.
    + rewrite (delete_unknown _ _ K). rewrite IH. reflexivity.
Qed.

(* ---- the cascade of the code is [forget] on well-formed registries *)

Definition reg_ok (r : list rentry) : Prop := forall x, In x r -> r_kind x <= 4.
(* while the device address of p is unknown, no client-side cache refers to p *)
Definition reg_quiet (p : N) (dk : bool) (r : list rentry) : Prop :=
  dk = false -> forall x, In x r -> r_peer x = p -> r_kind x < 2.

Lemma In_forget p a r x : In x (forget p a r) -> In x r.
Proof. unfold forget. intros H. apply filter_In in H. tauto. Qed.

Lemma cascade_forget p dk a r : reg_ok r -> reg_quiet p dk r -> cascade p dk a r = forget p a r.
Proof.
  intros Hok Hq. unfold cascade, drop, forget.
  assert (E : forall x, In x r ->
    negb (of_entity p K_SUB a x) && negb (of_entity p K_BIND a x) &&
    (if dk then negb (of_entity p K_CSUB a x) && negb (of_entity p K_CBIND a x) && negb (of_entity p K_NMSUB a x) else true)
    = negb (N.eqb (r_peer x) p && addr_eqb (r_addr x) a)).
  { intros x Hx. specialize (Hok x Hx). unfold of_entity, K_SUB, K_BIND, K_CSUB, K_CBIND, K_NMSUB.
    destruct (N.eqb (r_peer x) p) eqn:Ep; [|rewrite !andb_false_r; destruct dk; reflexivity].
    destruct (addr_eqb (r_addr x) a); [|rewrite !andb_false_r; destruct dk; reflexivity].
    rewrite !andb_true_r.
    destruct dk.
    - assert (H5 : r_kind x = 0 \/ r_kind x = 1 \/ r_kind x = 2 \/ r_kind x = 3 \/ r_kind x = 4) by lia.
      destruct H5 as [->|[->|[->|[->| ->]]]]; reflexivity.
    - apply N.eqb_eq in Ep. specialize (Hq eq_refl x Hx Ep).
      assert (H2 : r_kind x = 0 \/ r_kind x = 1) by lia.
      destruct H2 as [->| ->]; reflexivity. }
  destruct dk.
  - rewrite !filter_filter. apply filter_ext_in. intros x Hx. rewrite <- (E x Hx).
    rewrite !andb_assoc. reflexivity.
  - rewrite !filter_filter. apply filter_ext_in. intros x Hx. rewrite <- (E x Hx).
    rewrite andb_true_r. reflexivity.
Qed.

Lemma reg_ok_forget p a r : reg_ok r -> reg_ok (forget p a r).
Proof. intros H x Hx. apply H. eapply In_forget. exact Hx. Qed.

Lemma reg_quiet_forget p dk q a r : reg_quiet p dk r -> reg_quiet p dk (forget q a r).
Proof. intros H E x Hx. apply (H E). eapply In_forget. exact Hx. Qed.

Lemma cascades_forget_all p dk l : forall r, reg_ok r -> reg_quiet p dk r -> cascades p dk l r = forget_all p l r.
Proof.
  induction l as [|a l IH]; intros r Hok Hq; [reflexivity|].
  unfold cascades, forget_all. simpl. rewrite (cascade_forget p dk a r Hok Hq).
  apply IH; [apply reg_ok_forget|apply reg_quiet_forget]; assumption.
Qed.

(* ---- full notification: provideDetailedDiscoveryDiffForFullNotify followed by the loop *)

Lemma apply_partial_app d fis es1 : forall t es2,
  (forall e, In e es1 -> me_state e = Some ST_ADDED) ->
  apply_partial d fis t (es1 ++ es2) =
  (fst (apply_partial d fis (fst (apply_partial d fis t es1)) es2),
   snd (apply_partial d fis t es1) ++ snd (apply_partial d fis (fst (apply_partial d fis t es1)) es2)).
Proof.
  induction es1 as [|e es1 IH]; intros t es2 H.
  - simpl. destruct (apply_partial d fis t es2). reflexivity.
  - change ((e :: es1) ++ es2) with (e :: (es1 ++ es2)). rewrite !apply_partial_step.
    assert (He : me_state e = Some ST_ADDED) by (apply H; left; reflexivity).
    assert (H' : forall e0, In e0 es1 -> me_state e0 = Some ST_ADDED) by (intros; apply H; right; assumption).
    rewrite He. change (N.eqb ST_ADDED ST_ADDED) with true. cbv iota.
    rewrite (IH _ _ H'). cbn [fst snd]. rewrite app_assoc. reflexivity.
Qed.

Definition mark_added (ei : ment) : ment :=
  {| me_addr := me_addr ei; me_type := me_type ei; me_descr := me_descr ei; me_state := Some ST_ADDED |}.
Definition mark_removed (e : ent) : ment :=
  {| me_addr := e_addr e; me_type := e_type e; me_descr := None; me_state := Some ST_REMOVED |}.

Lemma apply_partial_added d fis es : forall t,
  apply_partial d fis t (map mark_added es) = announce_all d fis t es.
Proof.
  induction es as [|e es IH]; intros t; [reflexivity|].
  cbn [map]. rewrite apply_partial_step, announce_all_cons. cbn [mark_added me_state me_addr].
  change (N.eqb ST_ADDED ST_ADDED) with true. cbv iota.
  change (announced fis (mark_added e)) with (announced fis e).
  rewrite IH. reflexivity.
Qed.

Lemma apply_partial_removed d fis xs : forall t,
  (forall x, In x xs -> is_devinfo (e_addr x) = false) ->
  apply_partial d fis t (map mark_removed xs) = retract_all t (map e_addr xs).
Proof.
  induction xs as [|x xs IH]; intros t H; [reflexivity|].
  cbn [map]. rewrite apply_partial_step, retract_all_cons. cbn [mark_removed me_state me_addr].
  change (N.eqb ST_REMOVED ST_ADDED) with false. change (N.eqb ST_REMOVED ST_REMOVED) with true. cbv iota.
  rewrite (H x (or_introl eq_refl)).
  rewrite IH; [reflexivity|]. intros y Hy. apply H. right. exact Hy.
Qed.

Lemma announce_all_feats_ext d fis1 fis2 es : forall t,
  (forall e, In e es -> features_for (me_addr e) fis1 = features_for (me_addr e) fis2) ->
  announce_all d fis1 t es = announce_all d fis2 t es.
Proof.
  induction es as [|e es IH]; intros t H; [reflexivity|].
  rewrite !announce_all_cons.
  assert (E : announced fis1 e = announced fis2 e).
  { unfold announced. rewrite (H e (or_introl eq_refl)). reflexivity. }
  rewrite E. rewrite IH; [reflexivity|]. intros e0 H0. apply H. right. exact H0.
Qed.

Lemma features_for_filter a L fis :
  mem_addr a L = true ->
  features_for a (filter (fun fi => mem_addr (mf_ent fi) L) fis) = features_for a fis.
Proof.
  intros H. unfold features_for.
  assert (E : filter (fun fi => addr_eqb (mf_ent fi) a) (filter (fun fi => mem_addr (mf_ent fi) L) fis)
              = filter (fun fi => addr_eqb (mf_ent fi) a) fis).
  { rewrite filter_filter. apply filter_ext. intros fi.
    destruct (addr_eqb (mf_ent fi) a) eqn:E; [|apply andb_false_r].
    apply addr_eqb_eq in E. rewrite E, H. reflexivity. }
  rewrite E. reflexivity.
Qed.

Lemma existing_mem es t x :
  In x t ->
  mem_addr (e_addr x) (map me_addr (filter (fun ei => known (me_addr ei) t) es)) =
  mem_addr (e_addr x) (map me_addr es).
Proof.
  intros Hx. induction es as [|e es IH]; [reflexivity|]. cbn [filter map].
  destruct (known (me_addr e) t) eqn:K.
  - cbn [map]. unfold mem_addr in *. cbn [existsb]. rewrite IH. reflexivity.
  - unfold mem_addr in *. cbn [existsb]. rewrite IH.
    destruct (addr_eqb (me_addr e) (e_addr x)) eqn:E; [|reflexivity].
    apply addr_eqb_eq in E. exfalso.
    assert (known (me_addr e) t = true); [|congruence].
    unfold known. apply existsb_exists. exists x. split; [exact Hx|]. rewrite E. apply addr_eqb_refl.
Qed.

Lemma full_refines p dk t r m :
  process_entries p dk t r (d_ents (provide_diff t m)) (d_feats (provide_diff t m)) =
  (fst (apply recorded KFull t m),
   cascades p dk (gone (snd (apply recorded KFull t m))) r,
   map (ev_of p) (snd (apply recorded KFull t m))).
Proof.
  rewrite process_entries_spec.
  set (U := filter (fun ei => negb (known (me_addr ei) t)) (d_ents m)).
  set (fis' := d_feats (provide_diff t m)).
  assert (E : apply_partial recorded fis' t (d_ents (provide_diff t m)) = apply recorded KFull t m).
  { unfold provide_diff. cbn [d_ents].
    fold U. fold mark_added. fold mark_removed.
    rewrite apply_partial_app.
    2:{ intros e He. apply in_map_iff in He. destruct He as [e0 [<- _]]. reflexivity. }
    rewrite apply_partial_added, apply_partial_removed.
    2:{ intros x Hx. apply filter_In in Hx. destruct Hx as [_ Hx]. apply andb_true_iff in Hx.
        destruct Hx as [_ Hx]. destruct (is_devinfo (e_addr x)); [discriminate|reflexivity]. }
    unfold apply, apply_complete. cbn [full_ignores_known recorded]. fold U.
    assert (EU : announce_all recorded fis' t U = announce_all recorded (d_feats m) t U).
    { apply announce_all_feats_ext. intros e He. unfold fis', provide_diff. cbn [d_feats]. fold U.
      apply features_for_filter. apply mem_addr_In. apply in_map. exact He. }
    rewrite EU.
    assert (EX : map e_addr (filter (fun e => negb (mem_addr (e_addr e)
                   (map me_addr (filter (fun ei => known (me_addr ei) t) (d_ents m)))) && negb (is_devinfo (e_addr e))) t)
                 = unlisted (d_ents m) t).
    { unfold unlisted. f_equal. apply filter_ext_in. intros x Hx. rewrite existing_mem by exact Hx. reflexivity. }
    rewrite EX.
    destruct (announce_all recorded (d_feats m) t U) as [t1 c1]. cbn [fst snd].
    destruct (retract_all t1 (unlisted (d_ents m) t)) as [t2 c2]. reflexivity. }
  rewrite E. reflexivity.
Qed.

(* ---- reply: AddEntityAndFeatures on everything, then the removal of what is not listed *)

Lemma remove_unlisted_spec p dk listed l : forall t r,
  remove_unlisted p dk listed l t r =
  (fst (retract_all t (filter (fun a => negb (mem_addr a listed) && negb (is_devinfo a)) l)),
   cascades p dk (gone (snd (retract_all t (filter (fun a => negb (mem_addr a listed) && negb (is_devinfo a)) l)))) r,
   map (ev_of p) (snd (retract_all t (filter (fun a => negb (mem_addr a listed) && negb (is_devinfo a)) l)))).
Proof.
  induction l as [|a l IH]; intros t r; [reflexivity|].
  cbn [remove_unlisted filter]. destruct (mem_addr a listed); cbn [negb orb andb]; [apply IH|].
  destruct (is_devinfo a); cbn [negb]; [apply IH|].
  rewrite retract_all_cons. unfold remove_entity_by_address.
  destruct (known a t) eqn:K.
  - fold (delete a t). rewrite IH. cbn [fst snd app gone flat_map map cascades fold_left ev_of]. reflexivity.
  - rewrite (delete_unknown _ _ K). rewrite IH. reflexivity.
Qed.

Lemma addrs_announce_all d fis es : forall t,
  addrs (fst (announce_all d fis t es)) = addrs t ++ appeared (snd (announce_all d fis t es)).
Proof.
  induction es as [|e es IH]; intros t.
  - simpl. rewrite app_nil_r. reflexivity.
  - rewrite announce_all_cons. cbn [fst snd]. rewrite IH, addrs_upsert. cbn [announced e_addr].
    rewrite appeared_app.
    destruct (known (me_addr e) t); cbn [appeared flat_map app]; [reflexivity|].
    rewrite <- app_assoc. reflexivity.
Qed.

Lemma appeared_listed d fis es : forall t a,
  In a (appeared (snd (announce_all d fis t es))) -> In a (map me_addr es).
Proof.
  induction es as [|e es IH]; intros t a H; [contradiction|].
  rewrite announce_all_cons in H. cbn [snd] in H. rewrite appeared_app in H. apply in_app_or in H.
  destruct H as [H|H].
  - destruct (known (me_addr e) t); simpl in H; [contradiction|]. destruct H as [<-|[]]. left. reflexivity.
  - right. eapply IH. exact H.
Qed.

Lemma unlisted_after_announce d fis es t :
  filter (fun a => negb (mem_addr a (map me_addr es)) && negb (is_devinfo a)) (addrs (fst (announce_all d fis t es)))
  = unlisted es t.
Proof.
  rewrite addrs_announce_all, filter_app.
  rewrite (filter_none _ (appeared _)).
  - rewrite app_nil_r. unfold unlisted, addrs.
    symmetry. apply (map_filter_comm e_addr (fun a => negb (mem_addr a (map me_addr es)) && negb (is_devinfo a))).
  - intros a Ha. apply appeared_listed in Ha. apply mem_addr_In in Ha. rewrite Ha. reflexivity.
Qed.

(* ---------------------------------------------------------------- states *)

Lemma get_peer_some s p pr : get_peer s p = Some pr -> p = 0 \/ p = 1 \/ p = 2.
Proof.
  destruct p as [|q]; [auto|].
  destruct q as [q|q|]; [destruct q|destruct q|]; simpl; intros H; try discriminate; auto.
Qed.

Lemma get_peer_none s p : get_peer s p = None -> p <> 0 /\ p <> 1 /\ p <> 2.
Proof. intros H. repeat split; intros ->; discriminate. Qed.

Definition Inv (s : st) : Prop :=
  reg_ok (s_reg s) /\
  forall x, In x (s_reg s) -> 2 <= r_kind x ->
            exists pr, get_peer s (r_peer x) = Some pr /\ p_known pr = true.

Lemma Inv_quiet s p pr : Inv s -> get_peer s p = Some pr -> reg_quiet p (p_known pr) (s_reg s).
Proof.
  intros [_ H] G E x Hx Hp.
  destruct (N.ltb_spec (r_kind x) 2) as [L|L]; [exact L|].
  destruct (H x Hx L) as [pr' [G' K']]. rewrite Hp, G in G'. injection G' as <-. congruence.
Qed.

Lemma Inv_init : Inv init.
Proof. split; intros x []. Qed.

Lemma In_forget_all p l : forall r x, In x (forget_all p l r) -> In x r.
Proof.
  induction l as [|a l IH]; intros r x H; [exact H|].
  unfold forget_all in H. simpl in H. apply IH in H. eapply In_forget. exact H.
Qed.

Lemma In_reg_insert e r x : In x (reg_insert e r) -> x = e \/ In x r.
Proof.
  induction r as [|y r IH]; simpl; intros H.
  - destruct H as [<-|[]]. left. reflexivity.
  - destruct (rentry_eqb e y); [right; exact H|].
    destruct (rentry_cmp e y).
    + destruct H as [<-|H]; [left; reflexivity|right; exact H].
    + destruct H as [<-|H]; [left; reflexivity|right; exact H].
    + destruct H as [<-|H]; [right; left; reflexivity|].
      apply IH in H. destruct H; [left|right; right]; assumption.
Qed.

Lemma get_set_peer s p x q :
  (p = 0 \/ p = 1 \/ p = 2) ->
  get_peer (set_reg (set_peer s p x) (s_reg s)) q = get_peer (set_peer s p x) q.
Proof. intros _. destruct q as [|[[]|[]|]]; reflexivity. Qed.

Lemma get_peer_set_reg s r q : get_peer (set_reg s r) q = get_peer s q.
Proof. destruct q as [|[[]|[]|]]; reflexivity. Qed.

Lemma get_peer_set_same s p x : (p = 0 \/ p = 1 \/ p = 2) -> get_peer (set_peer s p x) p = Some x.
Proof. intros [->|[->| ->]]; reflexivity. Qed.

Lemma get_peer_set_other s p x q : p <> q -> get_peer (set_peer s p x) q = get_peer s q.
Proof.
  intros H. destruct p as [|[[]|[]|]]; destruct q as [|[[]|[]|]]; try reflexivity; congruence.
Qed.

Lemma s_reg_set_peer s p x : s_reg (set_peer s p x) = s_reg s.
Proof. destruct p as [|[[]|[]|]]; reflexivity. Qed.

(* ---- one message *)

Lemma handle_msg_refines s p k m : Inv s -> handle_msg s p k m = spec_msg recorded s p k m.
Proof.
  intros HI. unfold handle_msg, spec_msg.
  destruct (get_peer s p) as [pr|] eqn:G; [|reflexivity].
  destruct (negb (source_resolves (p_tree pr))); [reflexivity|].
  pose proof (Inv_quiet s p pr HI G) as Hq. destruct HI as [Hok Hkn].
  destruct k.
  - (* reply *)
    rewrite aef_spec. rewrite remove_unlisted_spec.
    fold (addrs (fst (announce_all recorded (d_feats m) (p_tree pr) (d_ents m)))).
    rewrite unlisted_after_announce.
    unfold apply, apply_complete.
    pose proof (announce_all_changes recorded (d_feats m) (d_ents m) (p_tree pr)) as Hc.
    destruct (announce_all recorded (d_feats m) (p_tree pr) (d_ents m)) as [t1 c1]. cbn [fst snd] in *.
    destruct (retract_all t1 (unlisted (d_ents m) (p_tree pr))) as [t2 c2]. cbn [fst snd].
    rewrite orb_true_r. rewrite gone_app, (all_appeared_gone _ Hc). cbn [app].
    rewrite cascades_forget_all.
    + rewrite map_app, (all_appeared_events p _ Hc). reflexivity.
    + intros x Hx. apply In_reg_insert in Hx. destruct Hx as [->|Hx]; [unfold nm_entry, K_NMSUB; cbn; lia|apply Hok; exact Hx].
    + intros E. discriminate.
  - (* partial *)
    rewrite process_entries_spec. unfold apply.
    destruct (apply_partial recorded (d_feats m) (p_tree pr) (d_ents m)) as [t2 c2]. cbn [fst snd].
    rewrite orb_false_r. rewrite cascades_forget_all by assumption. reflexivity.
  - (* full *)
    rewrite full_refines.
    destruct (apply recorded KFull (p_tree pr) m) as [t2 c2]. cbn [fst snd].
    rewrite orb_false_r. rewrite cascades_forget_all by assumption. reflexivity.
Qed.

Theorem step_refines s o : Inv s -> step s o = spec_step recorded s o.
Proof.
  intros HI. destruct o as [p k m|p kd a fid|p k m p' kd a fid]; [|reflexivity|].
  - unfold step, spec_step. rewrite handle_msg_refines by exact HI. reflexivity.
  - unfold step, spec_step. rewrite handle_msg_refines by exact HI. reflexivity.
Qed.

(* ---- the invariant is kept *)

Lemma Inv_spec_msg d s p k m : Inv s -> Inv (fst (spec_msg d s p k m)).
Proof.
  intros HI. unfold spec_msg.
  destruct (get_peer s p) as [pr|] eqn:G; [|exact HI].
  destruct (negb (source_resolves (p_tree pr))); [exact HI|].
  destruct (apply d k (p_tree pr) m) as [t' c]. cbn [fst].
  set (isr := match k with KReply => true | _ => false end).
  set (r0 := if isr then reg_insert (nm_entry p) (s_reg s) else s_reg s).
  pose proof (get_peer_some _ _ _ G) as Hp.
  destruct HI as [Hok Hkn].
  assert (Hr0 : forall x, In x r0 -> (x = nm_entry p /\ isr = true) \/ In x (s_reg s)).
  { intros x Hx. unfold r0 in Hx. destruct isr; [|right; exact Hx].
    apply In_reg_insert in Hx. destruct Hx; [left; split; auto|right; assumption]. }
  split.
  - intros x Hx. cbn [set_reg s_reg] in Hx. apply In_forget_all in Hx. apply Hr0 in Hx.
    destruct Hx as [[-> _]|Hx]; [unfold nm_entry, K_NMSUB; cbn; lia|apply Hok; exact Hx].
  - intros x Hx Hk. cbn [set_reg s_reg] in Hx. apply In_forget_all in Hx. apply Hr0 in Hx.
    rewrite get_peer_set_reg.
    destruct (N.eq_dec p (r_peer x)) as [E|E].
    + rewrite <- E. rewrite get_peer_set_same by exact Hp. eexists. split; [reflexivity|]. cbn [p_known].
      destruct Hx as [[_ ->]|Hx]; [apply orb_true_r|].
      destruct (Hkn x Hx Hk) as [pr' [G' K']]. rewrite <- E, G in G'. injection G' as <-.
      rewrite K'. reflexivity.
    + rewrite get_peer_set_other by exact E.
      destruct Hx as [[-> _]|Hx]; [cbn in E; congruence|]. apply Hkn; assumption.
Qed.

Lemma Inv_reg_add s p kd a fid : Inv s -> Inv (fst (reg_add s p kd a fid)).
Proof.
  intros HI. unfold reg_add.
  destruct (get_peer s p) as [pr|] eqn:G; [|exact HI].
  set (e := {| r_peer := p; r_kind := kd; r_addr := a; r_fid := fid |}).
  match goal with |- Inv (fst (if ?c then _ else _)) => destruct c eqn:C end; [|exact HI].
  cbn [fst]. apply andb_true_iff in C. destruct C as [C _].
  destruct HI as [Hok Hkn]. split.
  - intros x Hx. cbn [set_reg s_reg] in Hx. apply In_reg_insert in Hx. destruct Hx as [->|Hx]; [|apply Hok; exact Hx].
    cbn [e r_kind]. unfold K_SUB, K_BIND, K_CSUB, K_CBIND in C.
    destruct (N.eqb kd 0) eqn:E0; [apply N.eqb_eq in E0; lia|].
    destruct (N.eqb kd 1) eqn:E1; [apply N.eqb_eq in E1; lia|].
    destruct (N.eqb kd 2) eqn:E2; [apply N.eqb_eq in E2; lia|].
    destruct (N.eqb kd 3) eqn:E3; [apply N.eqb_eq in E3; lia|]. simpl in C. discriminate.
  - intros x Hx Hk. cbn [set_reg s_reg] in Hx. rewrite get_peer_set_reg.
    apply In_reg_insert in Hx. destruct Hx as [->|Hx]; [|apply Hkn; assumption].
    cbn [e r_peer r_kind] in *. exists pr. split; [exact G|].
    unfold K_SUB, K_BIND, K_CSUB, K_CBIND in C.
    destruct (N.eqb kd 0) eqn:E0; [apply N.eqb_eq in E0; lia|].
    destruct (N.eqb kd 1) eqn:E1; [apply N.eqb_eq in E1; lia|].
    simpl in C. destruct (N.eqb kd 2 || N.eqb kd 3); [exact C|discriminate].
Qed.

Lemma Inv_call_after s p p' kd a fid : Inv s -> Inv (fst (call_after s p p' kd a fid)).
Proof.
  intros HI. unfold call_after. destruct (N.eqb p p' || negb (N.eqb kd K_SUB || N.eqb kd K_BIND)); [exact HI|].
  apply Inv_reg_add. exact HI.
Qed.

Lemma Inv_spec_step d s o : Inv s -> Inv (fst (spec_step d s o)).
Proof.
  intros HI. destruct o as [p k m|p kd a fid|p k m p' kd a fid]; unfold spec_step.
  - pose proof (Inv_spec_msg d s p k m HI) as H. destruct (spec_msg d s p k m). exact H.
  - pose proof (Inv_reg_add s p kd a fid HI) as H. destruct (reg_add s p kd a fid). exact H.
  - pose proof (Inv_spec_msg d s p k m HI) as H. destruct (spec_msg d s p k m) as [s1 evs]. cbn [fst] in H.
    pose proof (Inv_call_after s1 p p' kd a fid H) as H2. destruct (call_after s1 p p' kd a fid). exact H2.
Qed.

Lemma Inv_step s o : Inv s -> Inv (fst (step s o)).
Proof. intros HI. rewrite step_refines by exact HI. apply Inv_spec_step. exact HI. Qed.

(* ---------------------------------------------------------------- Part B: what the recorded deviations can change *)

Lemma known_same a t1 t2 : addrs t1 = addrs t2 -> known a t1 = known a t2.
Proof. intros H. rewrite !known_addrs, H. reflexivity. Qed.

Lemma announce_all_sim d1 d2 fis1 fis2 es : forall t1 t2, addrs t1 = addrs t2 ->
  addrs (fst (announce_all d1 fis1 t1 es)) = addrs (fst (announce_all d2 fis2 t2 es)) /\
  snd (announce_all d1 fis1 t1 es) = snd (announce_all d2 fis2 t2 es).
Proof.
  induction es as [|e es IH]; intros t1 t2 H; [split; [exact H|reflexivity]|].
  rewrite !announce_all_cons. cbn [fst snd].
  rewrite (known_same (me_addr e) t1 t2 H).
  destruct (IH (upsert d1 t1 (announced fis1 e)) (upsert d2 t2 (announced fis2 e))) as [A B].
  { rewrite !addrs_upsert. cbn [announced e_addr]. rewrite (known_same _ _ _ H), H. reflexivity. }
  split; [exact A|]. rewrite B. reflexivity.
Qed.

Lemma retract_all_sim l : forall t1 t2, addrs t1 = addrs t2 ->
  addrs (fst (retract_all t1 l)) = addrs (fst (retract_all t2 l)) /\
  snd (retract_all t1 l) = snd (retract_all t2 l).
Proof.
  induction l as [|a l IH]; intros t1 t2 H; [split; [exact H|reflexivity]|].
  rewrite !retract_all_cons. cbn [fst snd]. rewrite (known_same a t1 t2 H).
  destruct (IH (delete a t1) (delete a t2)) as [A B].
  { rewrite !addrs_delete, H. reflexivity. }
  split; [exact A|]. rewrite B. reflexivity.
Qed.

Lemma apply_partial_sim d1 d2 fis es : forall t1 t2, addrs t1 = addrs t2 ->
  addrs (fst (apply_partial d1 fis t1 es)) = addrs (fst (apply_partial d2 fis t2 es)) /\
  snd (apply_partial d1 fis t1 es) = snd (apply_partial d2 fis t2 es).
Proof.
  induction es as [|e es IH]; intros t1 t2 H; [split; [exact H|reflexivity]|].
  rewrite !apply_partial_step.
  destruct (me_state e) as [s|]; [|split; [exact H|reflexivity]].
  rewrite (known_same (me_addr e) t1 t2 H).
  destruct (N.eqb s ST_ADDED).
  - destruct (IH (upsert d1 t1 (announced fis e)) (upsert d2 t2 (announced fis e))) as [A B].
    { rewrite !addrs_upsert. cbn [announced e_addr]. rewrite (known_same _ _ _ H), H. reflexivity. }
    cbn [fst snd]. split; [exact A|]. rewrite B. reflexivity.
  - destruct (N.eqb s ST_REMOVED); [|apply IH; exact H].
    destruct (is_devinfo (me_addr e)); [split; [exact H|reflexivity]|].
    destruct (IH (delete (me_addr e) t1) (delete (me_addr e) t2)) as [A B].
    { rewrite !addrs_delete, H. reflexivity. }
    cbn [fst snd]. split; [exact A|]. rewrite B. reflexivity.
Qed.

(* upserting an entity that is already known changes neither the addresses nor produces a change:
   the entries of known entities can be skipped *)
Lemma announce_all_skip d1 d2 fis t0 es : forall t1 t2, addrs t1 = addrs t2 ->
  (forall a, known a t0 = true -> known a t1 = true) ->
  addrs (fst (announce_all d1 fis t1 es)) =
    addrs (fst (announce_all d2 fis t2 (filter (fun e => negb (known (me_addr e) t0)) es))) /\
  snd (announce_all d1 fis t1 es) =
    snd (announce_all d2 fis t2 (filter (fun e => negb (known (me_addr e) t0)) es)).
Proof.
  induction es as [|e es IH]; intros t1 t2 H Hm; [split; [exact H|reflexivity]|].
  assert (Hm' : forall a, known a t0 = true -> known a (upsert d1 t1 (announced fis e)) = true).
  { intros a Ha. specialize (Hm a Ha). rewrite known_addrs in *. rewrite addrs_upsert.
    destruct (known (e_addr (announced fis e)) t1); [exact Hm|]. rewrite mem_addr_app, Hm. reflexivity. }
  cbn [filter]. rewrite announce_all_cons. cbn [fst snd].
  destruct (known (me_addr e) t0) eqn:K0; cbn [negb].
  - rewrite (Hm _ K0). cbn [app].
    apply IH; [|exact Hm'].
    rewrite addrs_upsert. cbn [announced e_addr]. rewrite (Hm _ K0). exact H.
  - rewrite announce_all_cons. cbn [fst snd]. rewrite (known_same (me_addr e) t1 t2 H).
    destruct (IH (upsert d1 t1 (announced fis e)) (upsert d2 t2 (announced fis e))) as [A B]; [|exact Hm'|].
    { rewrite !addrs_upsert. cbn [announced e_addr]. rewrite (known_same _ _ _ H), H. reflexivity. }
    split; [exact A|]. rewrite B. reflexivity.
Qed.

Lemma apply_sim k t m :
  addrs (fst (apply ideal k t m)) = addrs (fst (apply recorded k t m)) /\
  snd (apply ideal k t m) = snd (apply recorded k t m).
Proof.
  destruct k; unfold apply.
  - unfold apply_complete.
    destruct (announce_all_sim ideal recorded (d_feats m) (d_feats m) (d_ents m) t t eq_refl) as [A B].
    destruct (announce_all ideal (d_feats m) t (d_ents m)) as [t1 c1].
    destruct (announce_all recorded (d_feats m) t (d_ents m)) as [t1' c1']. cbn [fst snd] in *.
    destruct (retract_all_sim (unlisted (d_ents m) t) t1 t1' A) as [A2 B2].
    destruct (retract_all t1 (unlisted (d_ents m) t)) as [t2 c2].
    destruct (retract_all t1' (unlisted (d_ents m) t)) as [t2' c2']. cbn [fst snd] in *.
    split; [exact A2|]. rewrite B, B2. reflexivity.
  - apply apply_partial_sim. reflexivity.
  - unfold apply_complete. cbn [full_ignores_known ideal recorded].
    destruct (announce_all_skip ideal recorded (d_feats m) t (d_ents m) t t eq_refl (fun a H => H)) as [A B].
    destruct (announce_all ideal (d_feats m) t (d_ents m)) as [t1 c1].
    destruct (announce_all recorded (d_feats m) t (filter (fun e => negb (known (me_addr e) t)) (d_ents m))) as [t1' c1'].
    cbn [fst snd] in *.
    destruct (retract_all_sim (unlisted (d_ents m) t) t1 t1' A) as [A2 B2].
    destruct (retract_all t1 (unlisted (d_ents m) t)) as [t2 c2].
    destruct (retract_all t1' (unlisted (d_ents m) t)) as [t2' c2']. cbn [fst snd] in *.
    split; [exact A2|]. rewrite B, B2. reflexivity.
Qed.

(* ---- reflexivity of the boolean equalities *)

Lemma list_eqb_refl {A} (eqb : A -> A -> bool) : (forall x, eqb x x = true) -> forall l, list_eqb eqb l l = true.
Proof. intros H l. induction l as [|x l IH]; simpl; [reflexivity|]. rewrite H, IH. reflexivity. Qed.

Lemma opt_eqb_refl o : opt_eqb o o = true.
Proof. destruct o; simpl; [apply N.eqb_refl|reflexivity]. Qed.

Lemma pair_eqb_refl x : pair_eqb x x = true.
Proof. unfold pair_eqb. rewrite !N.eqb_refl. reflexivity. Qed.

Lemma feat_eqb_refl f : feat_eqb f f = true.
Proof. unfold feat_eqb. rewrite !N.eqb_refl, opt_eqb_refl, (list_eqb_refl _ pair_eqb_refl). reflexivity. Qed.

Lemma content_eqb_refl e : content_eqb e e = true.
Proof. unfold content_eqb. rewrite opt_eqb_refl, (list_eqb_refl _ feat_eqb_refl). reflexivity. Qed.

Lemma ent_eqb_refl e : ent_eqb e e = true.
Proof. unfold ent_eqb. rewrite addr_eqb_refl, N.eqb_refl, content_eqb_refl. reflexivity. Qed.

Lemma peer_eqb_refl x : peer_eqb x x = true.
Proof. unfold peer_eqb. rewrite Bool.eqb_reflx, (list_eqb_refl _ ent_eqb_refl). reflexivity. Qed.

Lemma rentry_eqb_refl x : rentry_eqb x x = true.
Proof. unfold rentry_eqb. rewrite !N.eqb_refl, addr_eqb_refl. reflexivity. Qed.

Lemma st_eqb_refl s : st_eqb s s = true.
Proof. unfold st_eqb. rewrite !peer_eqb_refl, (list_eqb_refl _ rentry_eqb_refl). reflexivity. Qed.

Lemma obs_eqb_refl o : obs_eqb o o = true.
Proof.
  destruct o; simpl.
  - apply st_eqb_refl.
  - apply N.eqb_refl.
  - rewrite N.eqb_refl, Bool.eqb_reflx, addr_eqb_refl. reflexivity.
  - apply Bool.eqb_reflx.
Qed.

Lemma judge_peer_same act x : judge_peer act x x = [].
Proof.
  unfold judge_peer. destruct act.
  - cbv zeta. rewrite (list_eqb_refl _ addr_eqb_refl), (list_eqb_refl _ N.eqb_refl), (list_eqb_refl _ content_eqb_refl),
      Bool.eqb_reflx. reflexivity.
  - rewrite peer_eqb_refl. reflexivity.
Qed.

Lemma judge_peer_addrs kn t1 t2 c :
  addrs t1 = addrs t2 ->
  In c (judge_peer true {| p_known := kn; p_tree := t1 |} {| p_known := kn; p_tree := t2 |}) ->
  excusable c = true.
Proof.
  intros H. unfold judge_peer. cbn [p_tree p_known]. unfold addrs in H. rewrite H.
  cbv zeta. rewrite (list_eqb_refl _ addr_eqb_refl), Bool.eqb_reflx. cbn [flag app]. rewrite app_nil_r.
  intros Hc. apply in_app_or in Hc. unfold flag in Hc.
  destruct Hc as [Hc|Hc].
  - destruct (list_eqb N.eqb _ _); [contradiction|]. destruct Hc as [<-|[]]. reflexivity.
  - destruct (list_eqb content_eqb _ _); [contradiction|]. destruct Hc as [<-|[]]. reflexivity.
Qed.

Lemma judge_out_same o s evs : judge_out o (OSnap s :: evs) (OSnap s :: evs) = [].
Proof.
  unfold judge_out. rewrite !judge_peer_same, (list_eqb_refl _ rentry_eqb_refl), (list_eqb_refl _ obs_eqb_refl).
  reflexivity.
Qed.

(* states that differ at most in the types and contents of the entities of peer p *)
Definition peer_sim (act : bool) (x y : peer) : Prop :=
  if act then p_known x = p_known y /\ addrs (p_tree x) = addrs (p_tree y) else x = y.

Definition st_sim (p : N) (a b : st) : Prop :=
  peer_sim (N.eqb p 0) (s0 a) (s0 b) /\ peer_sim (N.eqb p 1) (s1 a) (s1 b) /\
  peer_sim (N.eqb p 2) (s2 a) (s2 b) /\ s_reg a = s_reg b.

Lemma peer_sim_refl act x : peer_sim act x x.
Proof. destruct act; simpl; auto. Qed.

Lemma st_sim_refl p s : st_sim p s s.
Proof. repeat split; apply peer_sim_refl. Qed.

Lemma judge_peer_sim act x y c : peer_sim act x y -> In c (judge_peer act x y) -> excusable c = true.
Proof.
  destruct act; unfold peer_sim; intros H Hc.
  - destruct x as [kx tx], y as [ky ty]. cbn [p_known p_tree] in H. destruct H as [-> H].
    eapply judge_peer_addrs; eauto.
  - subst y. rewrite (judge_peer_same false x) in Hc. destruct Hc.
Qed.

Lemma judge_out_sim o p sa sb rest c :
  (forall i, acts o i = N.eqb p i) -> st_sim p sa sb ->
  In c (judge_out o (OSnap sa :: rest) (OSnap sb :: rest)) -> excusable c = true.
Proof.
  intros Ha [H0 [H1 [H2 Hr]]]. unfold judge_out. rewrite !Ha, Hr.
  rewrite (list_eqb_refl _ rentry_eqb_refl), (list_eqb_refl _ obs_eqb_refl). cbn [flag app]. rewrite !app_nil_r.
  intros Hc. apply in_app_or in Hc. destruct Hc as [Hc|Hc]; [exact (judge_peer_sim _ _ _ _ H0 Hc)|].
  apply in_app_or in Hc. destruct Hc as [Hc|Hc]; [exact (judge_peer_sim _ _ _ _ H1 Hc)|exact (judge_peer_sim _ _ _ _ H2 Hc)].
Qed.

Lemma spec_msg_sim s p k m :
  st_sim p (fst (spec_msg ideal s p k m)) (fst (spec_msg recorded s p k m)) /\
  snd (spec_msg ideal s p k m) = snd (spec_msg recorded s p k m).
Proof.
  unfold spec_msg.
  destruct (get_peer s p) as [pr|] eqn:G; [|split; [apply st_sim_refl|reflexivity]].
  destruct (negb (source_resolves (p_tree pr))); [split; [apply st_sim_refl|reflexivity]|].
  destruct (apply_sim k (p_tree pr) m) as [A B].
  destruct (apply ideal k (p_tree pr) m) as [ti ci].
  destruct (apply recorded k (p_tree pr) m) as [tr cr]. cbn [fst snd] in A, B. subst cr.
  cbn [fst snd]. split; [|reflexivity].
  destruct (get_peer_some _ _ _ G) as [->|[->| ->]]; unfold st_sim;
    cbn [set_peer set_reg s0 s1 s2 s_reg N.eqb Pos.eqb peer_sim p_known p_tree]; repeat split; auto.
Qed.

Lemma call_after_sim p sa sb p' kd a fid :
  st_sim p sa sb ->
  snd (call_after sa p p' kd a fid) = snd (call_after sb p p' kd a fid) /\
  st_sim p (fst (call_after sa p p' kd a fid)) (fst (call_after sb p p' kd a fid)).
Proof.
  intros H. unfold call_after.
  destruct (N.eqb p p') eqn:E; cbn [orb]; [split; [reflexivity|exact H]|].
  destruct (negb (N.eqb kd K_SUB || N.eqb kd K_BIND)); [split; [reflexivity|exact H]|].
  destruct H as [H0 [H1 [H2 Hr]]].
  assert (G : get_peer sa p' = get_peer sb p').
  { destruct p' as [|[[]|[]|]]; cbn [get_peer]; try reflexivity.
    - rewrite E in H0. simpl in H0. rewrite H0. reflexivity.
    - rewrite E in H2. simpl in H2. rewrite H2. reflexivity.
    - rewrite E in H1. simpl in H1. rewrite H1. reflexivity. }
  unfold reg_add. rewrite G, Hr. destruct (get_peer sb p') as [pr|]; [|split; [reflexivity|repeat split; assumption]].
  match goal with |- snd (if ?c then _ else _) = _ /\ _ => destruct c end;
    (split; [reflexivity|]); cbn [fst]; unfold st_sim; cbn [set_reg s0 s1 s2 s_reg]; repeat split; assumption.
Qed.

Theorem ideal_vs_recorded s o c :
  In c (judge_out o (snd (spec_step ideal s o)) (snd (spec_step recorded s o))) -> excusable c = true.
Proof.
  destruct o as [p k m|p kd a fid|p k m p' kd a fid]; unfold spec_step.
  - destruct (spec_msg_sim s p k m) as [A B].
    destruct (spec_msg ideal s p k m) as [si ei]. destruct (spec_msg recorded s p k m) as [sr er].
    cbn [fst snd] in *. subst er. apply (judge_out_sim _ p); [reflexivity|exact A].
  - destruct (reg_add s p kd a fid) as [s1 ok]. cbn [snd]. rewrite judge_out_same. intros [].
  - destruct (spec_msg_sim s p k m) as [A B].
    destruct (spec_msg ideal s p k m) as [si ei]. destruct (spec_msg recorded s p k m) as [sr er].
    cbn [fst snd] in A, B. subst er.
    destruct (call_after_sim p si sr p' kd a fid A) as [C D].
    destruct (call_after si p p' kd a fid) as [si2 oki]. destruct (call_after sr p p' kd a fid) as [sr2 okr].
    cbn [fst snd] in *. subst okr. apply (judge_out_sim _ p); [reflexivity|exact D].
Qed.

(* ---------------------------------------------------------------- Part C: every trace is accepted *)

Fixpoint spec_run (d : deviations) (s : st) (ops : list op) : st * list (op * list obs) :=
  match ops with
  | [] => (s, [])
  | o :: r =>
      let '(s1, out) := spec_step d s o in
      let '(s2, tr) := spec_run d s1 r in
      (s2, (o, out) :: tr)
  end.

Lemma run_refines ops : forall s, Inv s -> run s ops = spec_run recorded s ops.
Proof.
  induction ops as [|o ops IH]; intros s HI; [reflexivity|].
  cbn [run spec_run]. rewrite (step_refines s o HI).
  pose proof (Inv_spec_step recorded s o HI) as HI'.
  destruct (spec_step recorded s o) as [s1 out]. cbn [fst] in HI'. rewrite (IH s1 HI'). reflexivity.
Qed.

Lemma Inv_run ops : forall s, Inv s -> Inv (fst (run s ops)).
Proof.
  induction ops as [|o ops IH]; intros s HI; [exact HI|].
  cbn [run]. pose proof (Inv_step s o HI) as HI'. destruct (step s o) as [s1 out]. cbn [fst] in HI'.
  specialize (IH s1 HI'). destruct (run s1 ops). exact IH.
Qed.

Lemma spec_step_shape d s o : exists evs, snd (spec_step d s o) = OSnap (fst (spec_step d s o)) :: evs.
Proof.
  destruct o as [p k m|p kd a fid|p k m p' kd a fid]; unfold spec_step.
  - destruct (spec_msg d s p k m) as [s1 evs]. eexists. reflexivity.
  - destruct (reg_add s p kd a fid) as [s1 ok]. eexists. reflexivity.
  - destruct (spec_msg d s p k m) as [s1 evs]. destruct (call_after s1 p p' kd a fid) as [s2 ok]. eexists. reflexivity.
Qed.

Lemma judge_accepted ops : forall s ex, Inv s ->
  accepted (judge s {| sc_st := s; sc_ex := ex |} (snd (run s ops))) = true.
Proof.
  induction ops as [|o ops IH]; intros s ex HI; [reflexivity|].
  cbn [run]. rewrite (step_refines s o HI).
  pose proof (Inv_spec_step recorded s o HI) as HI'.
  destruct (spec_step_shape recorded s o) as [evs Hs].
  destruct (spec_step recorded s o) as [s1 out] eqn:E. cbn [fst snd] in *. subst out.
  destruct (run s1 ops) as [s2 tr] eqn:ER. cbn [snd judge].
  unfold mon. cbn [fst snd]. unfold scope. cbn [sc_st]. rewrite E. cbn [fst snd].
  unfold accepted. cbn [forallb fst snd excuses sc_ex].
  apply andb_true_iff. split.
  - unfold excused. apply forallb_forall. intros c Hc. apply memZ_In. apply filter_In. split; [exact Hc|].
    apply (ideal_vs_recorded s o c). rewrite E. exact Hc.
  - specialize (IH s1 (filter excusable
        (judge_out o (snd (spec_step ideal s o)) (OSnap s1 :: evs))) HI').
    rewrite ER in IH. exact IH.
Qed.

Theorem run_accepted ops : accepted (judge minit sinit (snd (run init ops))) = true.
Proof. apply judge_accepted. apply Inv_init. Qed.

(* ---------------------------------------------------------------- explicit corollaries *)

Lemma In_forget_iff p a r x : In x (forget p a r) <-> In x r /\ ~ (r_peer x = p /\ r_addr x = a).
Proof.
  unfold forget. rewrite filter_In. split; intros [H1 H2]; split; auto.
  - intros [Hp Ha]. subst. rewrite N.eqb_refl, addr_eqb_refl in H2. discriminate.
  - destruct (N.eqb (r_peer x) p) eqn:Ep; [|reflexivity].
    destruct (addr_eqb (r_addr x) a) eqn:Ea; [|reflexivity].
    exfalso. apply H2. apply N.eqb_eq in Ep. apply addr_eqb_eq in Ea. auto.
Qed.

(* removing entities removes exactly that peer's entries for those entities *)
Lemma In_forget_all_iff p l : forall r x,
  In x (forget_all p l r) <-> In x r /\ ~ (r_peer x = p /\ In (r_addr x) l).
Proof.
  induction l as [|a l IH]; intros r x.
  - simpl. tauto.
  - unfold forget_all. cbn [fold_left]. fold (forget_all p l (forget p a r)).
    rewrite IH, In_forget_iff. cbn [In]. intuition congruence.
Qed.

(* one entity per address *)
Lemma NoDup_snoc {A} (l : list A) a : NoDup l -> ~ In a l -> NoDup (l ++ [a]).
Proof.
  intros H Ha. induction H as [|x l Hx Hl IH]; simpl.
  - constructor; [intros []|constructor].
  - constructor.
    + intros Hi. apply in_app_or in Hi. destruct Hi as [Hi|[<-|[]]]; [contradiction|]. apply Ha. left. reflexivity.
    + apply IH. intros Hi. apply Ha. right. exact Hi.
Qed.

Lemma NoDup_filter {A} (f : A -> bool) l : NoDup l -> NoDup (filter f l).
Proof.
  induction 1 as [|x l Hx Hl IH]; simpl; [constructor|].
  destruct (f x); [|exact IH]. constructor; [|exact IH]. intros Hi. apply filter_In in Hi. tauto.
Qed.

Lemma nodup_upsert d t n : NoDup (addrs t) -> NoDup (addrs (upsert d t n)).
Proof.
  intros H. rewrite addrs_upsert. destruct (known (e_addr n) t) eqn:K; [exact H|].
  apply NoDup_snoc; [exact H|]. intros Hi. apply mem_addr_In in Hi. rewrite <- known_addrs in Hi. congruence.
Qed.

Lemma nodup_delete a t : NoDup (addrs t) -> NoDup (addrs (delete a t)).
Proof. intros H. rewrite addrs_delete. apply NoDup_filter. exact H. Qed.

Lemma nodup_announce_all d fis es : forall t, NoDup (addrs t) -> NoDup (addrs (fst (announce_all d fis t es))).
Proof.
  induction es as [|e es IH]; intros t H; [exact H|].
  rewrite announce_all_cons. cbn [fst]. apply IH. apply nodup_upsert. exact H.
Qed.

Lemma nodup_retract_all l : forall t, NoDup (addrs t) -> NoDup (addrs (fst (retract_all t l))).
Proof.
  induction l as [|a l IH]; intros t H; [exact H|].
  rewrite retract_all_cons. cbn [fst]. apply IH. apply nodup_delete. exact H.
Qed.

Lemma nodup_apply_partial d fis es : forall t, NoDup (addrs t) -> NoDup (addrs (fst (apply_partial d fis t es))).
Proof.
  induction es as [|e es IH]; intros t H; [exact H|].
  rewrite apply_partial_step. destruct (me_state e) as [s|]; [|exact H].
  destruct (N.eqb s ST_ADDED); [cbn [fst]; apply IH; apply nodup_upsert; exact H|].
  destruct (N.eqb s ST_REMOVED); [|apply IH; exact H].
  destruct (is_devinfo (me_addr e)); [exact H|]. cbn [fst]. apply IH. apply nodup_delete. exact H.
Qed.

Lemma nodup_apply d k t m : NoDup (addrs t) -> NoDup (addrs (fst (apply d k t m))).
Proof.
  intros H. destruct k; unfold apply, apply_complete.
  - pose proof (nodup_announce_all d (d_feats m) (d_ents m) t H) as H1.
    destruct (announce_all d (d_feats m) t (d_ents m)) as [t1 c1]. cbn [fst] in H1.
    pose proof (nodup_retract_all (unlisted (d_ents m) t) t1 H1) as H2.
    destruct (retract_all t1 (unlisted (d_ents m) t)) as [t2 c2]. exact H2.
  - apply nodup_apply_partial. exact H.
  - set (ups := if full_ignores_known d then _ else _).
    pose proof (nodup_announce_all d (d_feats m) ups t H) as H1.
    destruct (announce_all d (d_feats m) t ups) as [t1 c1]. cbn [fst] in H1.
    pose proof (nodup_retract_all (unlisted (d_ents m) t) t1 H1) as H2.
    destruct (retract_all t1 (unlisted (d_ents m) t)) as [t2 c2]. exact H2.
Qed.

Definition unique_addresses (s : st) : Prop :=
  NoDup (addrs (p_tree (s0 s))) /\ NoDup (addrs (p_tree (s1 s))) /\ NoDup (addrs (p_tree (s2 s))).

Lemma unique_spec_step_msg d s p k m : unique_addresses s -> unique_addresses (fst (spec_msg d s p k m)).
Proof.
  intros HU. unfold spec_msg. destruct (get_peer s p) as [pr|] eqn:G; [|exact HU].
  destruct (negb (source_resolves (p_tree pr))); [exact HU|].
  assert (Hpr : NoDup (addrs (p_tree pr))).
  { destruct HU as [U0 [U1 U2]]. destruct (get_peer_some _ _ _ G) as [->|[->| ->]];
      cbn in G; injection G as <-; assumption. }
  pose proof (nodup_apply d k (p_tree pr) m Hpr) as Ha.
  destruct (apply d k (p_tree pr) m) as [t' c]. cbn [fst] in *.
  destruct HU as [U0 [U1 U2]].
  destruct (get_peer_some _ _ _ G) as [->|[->| ->]]; repeat split; cbn; assumption.
Qed.

Lemma unique_reg_add s p kd a fid : unique_addresses s -> unique_addresses (fst (reg_add s p kd a fid)).
Proof.
  intros HU. unfold reg_add. destruct (get_peer s p); [|exact HU].
  match goal with |- unique_addresses (fst (if ?c then _ else _)) => destruct c end; exact HU.
Qed.

Lemma unique_call_after s p p' kd a fid : unique_addresses s -> unique_addresses (fst (call_after s p p' kd a fid)).
Proof.
  intros HU. unfold call_after. destruct (N.eqb p p' || negb (N.eqb kd K_SUB || N.eqb kd K_BIND)); [exact HU|].
  apply unique_reg_add. exact HU.
Qed.

Lemma unique_spec_step d s o : unique_addresses s -> unique_addresses (fst (spec_step d s o)).
Proof.
  intros HU. destruct o as [p k m|p kd a fid|p k m p' kd a fid]; unfold spec_step.
  - pose proof (unique_spec_step_msg d s p k m HU) as H1. destruct (spec_msg d s p k m). exact H1.
  - pose proof (unique_reg_add s p kd a fid HU) as H1. destruct (reg_add s p kd a fid). exact H1.
  - pose proof (unique_spec_step_msg d s p k m HU) as H1. destruct (spec_msg d s p k m) as [s1 evs]. cbn [fst] in H1.
    pose proof (unique_call_after s1 p p' kd a fid H1) as H2. destruct (call_after s1 p p' kd a fid). exact H2.
Qed.

Lemma unique_run ops : forall s, Inv s -> unique_addresses s -> unique_addresses (fst (run s ops)).
Proof.
  induction ops as [|o ops IH]; intros s HI HU; [exact HU|].
  cbn [run]. pose proof (Inv_step s o HI) as HI'.
  pose proof (unique_spec_step recorded s o HU) as HU'. rewrite <- (step_refines s o HI) in HU'.
  destruct (step s o) as [s1 out]. cbn [fst] in *.
  specialize (IH s1 HI' HU'). destruct (run s1 ops). exact IH.
Qed.

Lemma unique_init : unique_addresses init.
Proof. repeat split; cbn; (constructor; [intros []|constructor]). Qed.

(* ---- only entity types and entity contents are ever excused *)

Lemma judge_only_excusable ops : forall s ex, Inv s ->
  Forall (fun ve => forall c, In c (fst ve) -> excusable c = true)
         (judge s {| sc_st := s; sc_ex := ex |} (snd (run s ops))).
Proof.
  induction ops as [|o ops IH]; intros s ex HI; [constructor|].
  cbn [run]. rewrite (step_refines s o HI).
  pose proof (Inv_spec_step recorded s o HI) as HI'.
  destruct (spec_step_shape recorded s o) as [evs Hs].
  destruct (spec_step recorded s o) as [s1 out] eqn:E. cbn [fst snd] in *. subst out.
  destruct (run s1 ops) as [s2 tr] eqn:ER. cbn [snd judge].
  unfold mon. cbn [fst snd]. unfold scope. cbn [sc_st]. rewrite E. cbn [fst snd].
  constructor.
  - cbn [fst]. intros c Hc. apply (ideal_vs_recorded s o c). rewrite E. exact Hc.
  - specialize (IH s1 (filter excusable
        (judge_out o (snd (spec_step ideal s o)) (OSnap s1 :: evs))) HI').
    rewrite ER in IH. exact IH.
Qed.

Lemma excusable_cases c : excusable c = true -> c = CL_TYPE \/ c = CL_CONTENT.
Proof.
  unfold excusable. intros H. apply orb_true_iff in H. destruct H as [H|H]; apply Z.eqb_eq in H; auto.
Qed.

(* ---- one message, spelled out *)

Lemma rentry_eqb_eq x y : rentry_eqb x y = true -> x = y.
Proof.
  unfold rentry_eqb. intros H. repeat (apply andb_true_iff in H; destruct H as [H ?]).
  apply N.eqb_eq in H. apply N.eqb_eq in H2. apply addr_eqb_eq in H1. apply N.eqb_eq in H0.
  destruct x, y. cbn in *. congruence.
Qed.

Lemma In_reg_insert_iff e r x : In x (reg_insert e r) <-> x = e \/ In x r.
Proof.
  split; [apply In_reg_insert|].
  induction r as [|y r IH]; simpl; intros H.
  - destruct H as [->|[]]. left. reflexivity.
  - destruct (rentry_eqb e y) eqn:E.
    + apply rentry_eqb_eq in E. subst y. destruct H as [->|H]; [left; reflexivity|exact H].
    + destruct (rentry_cmp e y).
      * destruct H as [->|H]; [left; reflexivity|right; exact H].
      * destruct H as [->|H]; [left; reflexivity|right; exact H].
      * destruct H as [->|[->|H]]; [right; apply IH; left; reflexivity|left; reflexivity|right; apply IH; right; exact H].
Qed.

Definition is_reply (k : kind) : bool := match k with KReply => true | _ => false end.

Theorem message_step_exact s p k m pr :
  Inv s -> get_peer s p = Some pr -> source_resolves (p_tree pr) = true ->
  let s' := fst (step s (Msg p k m)) in
  let tc := apply ideal k (p_tree pr) m in
  exists pr',
    get_peer s' p = Some pr' /\
    p_tree pr' = fst (apply recorded k (p_tree pr) m) /\
    map e_addr (p_tree pr') = map e_addr (fst tc) /\
    p_known pr' = (p_known pr || is_reply k)%bool /\
    snd (step s (Msg p k m)) = OSnap s' :: (if is_reply k then [EvDevice p] else []) ++ map (ev_of p) (snd tc) /\
    (forall x, In x (s_reg s') <->
               (In x (s_reg s) \/ (k = KReply /\ x = nm_entry p)) /\
               ~ (r_peer x = p /\ In (r_addr x) (gone (snd tc)))) /\
    (forall q, q <> p -> get_peer s' q = get_peer s q).
Proof.
  intros HI G Hs. cbv zeta. rewrite (step_refines s _ HI). unfold spec_step, spec_msg. rewrite G, Hs. cbn [negb].
  destruct (apply_sim k (p_tree pr) m) as [A B].
  destruct (apply recorded k (p_tree pr) m) as [t' c]. cbn [fst snd] in *.
  pose proof (get_peer_some _ _ _ G) as Hp.
  fold (is_reply k).
  eexists. split; [|split; [|split; [|split; [|split; [|split]]]]].
  - rewrite get_peer_set_reg. apply get_peer_set_same. exact Hp.
  - reflexivity.
  - cbn [p_tree]. symmetry. exact A.
  - reflexivity.
  - rewrite B. reflexivity.
  - intros x. cbn [set_reg s_reg]. rewrite In_forget_all_iff, B.
    destruct k; cbn [is_reply].
    + rewrite In_reg_insert_iff. intuition congruence.
    + intuition congruence.
    + intuition congruence.
  - intros q Hq. rewrite get_peer_set_reg. apply get_peer_set_other. congruence.
Qed.

(* a message whose source does not resolve, or of an unknown peer, changes nothing *)
Theorem message_dropped s p k m :
  Inv s ->
  (get_peer s p = None \/ exists pr, get_peer s p = Some pr /\ source_resolves (p_tree pr) = false) ->
  step s (Msg p k m) = (s, [OSnap s]).
Proof.
  intros HI H. rewrite (step_refines s _ HI). unfold spec_step, spec_msg.
  destruct H as [->|[pr [-> ->]]]; reflexivity.
Qed.

(* ---------------------------------------------------------------- the content clause can only fail on a full notification *)

Definition strip (e : ent) : addr * option N * list feat := (e_addr e, e_descr e, e_feats e).

Lemma cons_eq_inv {A} (a b : A) l l' : a :: l = b :: l' -> a = b /\ l = l'.
Proof. intros H. injection H. auto. Qed.

Lemma strip_addrs t1 t2 : map strip t1 = map strip t2 -> addrs t1 = addrs t2.
Proof.
  intros H. unfold addrs.
  assert (E : forall t, map e_addr t = map (fun x => fst (fst x)) (map strip t)).
  { intros t. rewrite map_map. reflexivity. }
  rewrite !E, H. reflexivity.
Qed.

Lemma strip_replace_first n k1 k2 : forall t1 t2, map strip t1 = map strip t2 ->
  map strip (replace_first n k1 t1) = map strip (replace_first n k2 t2).
Proof.
  induction t1 as [|x1 t1 IH]; intros [|x2 t2] H; cbn [map] in H; try discriminate; [reflexivity|].
  apply cons_eq_inv in H. destruct H as [Hx Ht]. cbn [replace_first].
  assert (Ea : e_addr x1 = e_addr x2) by (unfold strip in Hx; congruence).
  rewrite Ea. destruct (addr_eqb (e_addr x2) (e_addr n)).
  - cbn [map]. rewrite Ht. unfold strip. cbn. rewrite ?Ea. reflexivity.
  - cbn [map]. f_equal; [exact Hx|]. apply IH. exact Ht.
Qed.

Lemma strip_upsert d1 d2 n t1 t2 : map strip t1 = map strip t2 ->
  map strip (upsert d1 t1 n) = map strip (upsert d2 t2 n).
Proof.
  intros H. unfold upsert. rewrite (known_same _ t1 t2 (strip_addrs _ _ H)).
  destruct (known (e_addr n) t2).
  - apply strip_replace_first. exact H.
  - rewrite !map_app, H. reflexivity.
Qed.

Lemma strip_delete a : forall t1 t2, map strip t1 = map strip t2 ->
  map strip (delete a t1) = map strip (delete a t2).
Proof.
  induction t1 as [|x1 t1 IH]; intros [|x2 t2] H; cbn [map] in H; try discriminate; [reflexivity|].
  apply cons_eq_inv in H. destruct H as [Hx Ht]. unfold delete. cbn [filter].
  assert (Ea : e_addr x1 = e_addr x2) by (unfold strip in Hx; congruence).
  rewrite Ea. destruct (addr_eqb (e_addr x2) a); cbn [negb map].
  - apply IH. exact Ht.
  - f_equal; [exact Hx|]. apply IH. exact Ht.
Qed.

Lemma strip_announce_all d1 d2 fis es : forall t1 t2, map strip t1 = map strip t2 ->
  map strip (fst (announce_all d1 fis t1 es)) = map strip (fst (announce_all d2 fis t2 es)).
Proof.
  induction es as [|e es IH]; intros t1 t2 H; [exact H|].
  rewrite !announce_all_cons. cbn [fst]. apply IH. apply strip_upsert. exact H.
Qed.

Lemma strip_retract_all l : forall t1 t2, map strip t1 = map strip t2 ->
  map strip (fst (retract_all t1 l)) = map strip (fst (retract_all t2 l)).
Proof.
  induction l as [|a l IH]; intros t1 t2 H; [exact H|].
  rewrite !retract_all_cons. cbn [fst]. apply IH. apply strip_delete. exact H.
Qed.

Lemma strip_apply_partial d1 d2 fis es : forall t1 t2, map strip t1 = map strip t2 ->
  map strip (fst (apply_partial d1 fis t1 es)) = map strip (fst (apply_partial d2 fis t2 es)).
Proof.
  induction es as [|e es IH]; intros t1 t2 H; [exact H|].
  rewrite !apply_partial_step. destruct (me_state e) as [s|]; [|exact H].
  destruct (N.eqb s ST_ADDED); [cbn [fst]; apply IH; apply strip_upsert; exact H|].
  destruct (N.eqb s ST_REMOVED); [|apply IH; exact H].
  destruct (is_devinfo (me_addr e)); [exact H|]. cbn [fst]. apply IH. apply strip_delete. exact H.
Qed.

Lemma strip_apply k t m : k <> KFull ->
  map strip (fst (apply ideal k t m)) = map strip (fst (apply recorded k t m)).
Proof.
  intros Hk. destruct k; [| |congruence]; unfold apply.
  - unfold apply_complete.
    pose proof (strip_announce_all ideal recorded (d_feats m) (d_ents m) t t eq_refl) as H1.
    destruct (announce_all ideal (d_feats m) t (d_ents m)) as [t1 c1].
    destruct (announce_all recorded (d_feats m) t (d_ents m)) as [t1' c1']. cbn [fst] in H1.
    pose proof (strip_retract_all (unlisted (d_ents m) t) t1 t1' H1) as H2.
    destruct (retract_all t1 (unlisted (d_ents m) t)) as [t2 c2].
    destruct (retract_all t1' (unlisted (d_ents m) t)) as [t2' c2']. exact H2.
  - apply strip_apply_partial. reflexivity.
Qed.

Lemma strip_content : forall t1 t2, map strip t1 = map strip t2 -> list_eqb content_eqb t1 t2 = true.
Proof.
  induction t1 as [|x1 t1 IH]; intros [|x2 t2] H; cbn [map] in H; try discriminate; [reflexivity|].
  apply cons_eq_inv in H. destruct H as [Hx Ht]. cbn [list_eqb]. rewrite (IH _ Ht), andb_true_r.
  unfold strip in Hx. injection Hx as _ Hd Hf. unfold content_eqb. rewrite Hd, Hf.
  rewrite opt_eqb_refl, (list_eqb_refl _ feat_eqb_refl). reflexivity.
Qed.

Theorem content_excused_only_on_full s p k m :
  k <> KFull ->
  ~ In CL_CONTENT (judge_out (Msg p k m) (snd (spec_step ideal s (Msg p k m))) (snd (spec_step recorded s (Msg p k m)))).
Proof.
  intros Hk. unfold spec_step, spec_msg.
  destruct (get_peer s p) as [pr|] eqn:G.
  2:{ cbn [snd]. rewrite judge_out_same. intros []. }
  destruct (negb (source_resolves (p_tree pr))).
  { cbn [snd]. rewrite judge_out_same. intros []. }
  destruct (apply_sim k (p_tree pr) m) as [A B].
  pose proof (strip_content _ _ (strip_apply k (p_tree pr) m Hk)) as C.
  destruct (apply ideal k (p_tree pr) m) as [ti ci].
  destruct (apply recorded k (p_tree pr) m) as [tr cr]. cbn [fst snd] in A, B, C. subst cr.
  cbn [snd]. unfold judge_out.
  rewrite (list_eqb_refl _ obs_eqb_refl). cbn [flag app].
  pose proof (get_peer_some _ _ _ G) as Hp. unfold addrs in A.
  destruct Hp as [->|[->| ->]]; cbn [set_peer set_reg s0 s1 s2 s_reg acts N.eqb Pos.eqb];
    rewrite ?judge_peer_same, (list_eqb_refl _ rentry_eqb_refl); cbn [flag app]; rewrite ?app_nil_r;
    unfold judge_peer; cbn [p_tree p_known]; cbv zeta; rewrite A, (list_eqb_refl _ addr_eqb_refl), C, Bool.eqb_reflx;
    cbn [flag app]; rewrite ?app_nil_r; unfold flag;
    destruct (list_eqb N.eqb (map e_type ti) (map e_type tr)); cbn; intros H; repeat destruct H as [H|H]; try discriminate; try contradiction.
Qed.

(* ---------------------------------------------------------------- events balance: one event per actual flip of membership *)

Definition is_app (a : addr) (c : change) : bool := match c with Appeared b => addr_eqb b a | Disappeared _ => false end.
Definition is_dis (a : addr) (c : change) : bool := match c with Disappeared b => addr_eqb b a | Appeared _ => false end.
Definition b2n (b : bool) : nat := if b then 1%nat else 0%nat.
Definition cnt (f : change -> bool) (c : list change) : nat := length (filter f c).

Lemma cnt_app f c1 c2 : cnt f (c1 ++ c2) = (cnt f c1 + cnt f c2)%nat.
Proof. unfold cnt. rewrite filter_app, app_length. reflexivity. Qed.

Lemma known_upsert d t n a :
  known a (upsert d t n) = (addr_eqb (e_addr n) a || known a t)%bool.
Proof.
  rewrite !known_addrs, addrs_upsert. destruct (known (e_addr n) t) eqn:K.
  - destruct (addr_eqb (e_addr n) a) eqn:E; [|reflexivity].
    apply addr_eqb_eq in E. subst a. rewrite <- known_addrs, K. reflexivity.
  - rewrite mem_addr_app. unfold mem_addr at 2. cbn [existsb]. rewrite orb_false_r. apply orb_comm.
Qed.

Lemma known_delete b t a : known a (delete b t) = (negb (addr_eqb b a) && known a t)%bool.
Proof.
  rewrite !known_addrs, addrs_delete. unfold mem_addr. induction (addrs t) as [|x l IH]; cbn [filter existsb].
  - rewrite andb_false_r. reflexivity.
  - destruct (addr_eqb x b) eqn:E; cbn [negb].
    + apply addr_eqb_eq in E. subst x. rewrite IH. destruct (addr_eqb b a); reflexivity.
    + cbn [existsb]. rewrite IH. destruct (addr_eqb x a) eqn:E2; [|reflexivity].
      apply addr_eqb_eq in E2. subst x. rewrite (addr_eqb_sym b a), E. reflexivity.
Qed.

Definition balanced (a : addr) (t t' : tree) (c : list change) : Prop :=
  (b2n (known a t) + cnt (is_app a) c = b2n (known a t') + cnt (is_dis a) c)%nat.

Lemma balanced_announce d fis t e a :
  balanced a t (upsert d t (announced fis e)) (if known (me_addr e) t then [] else [Appeared (me_addr e)]).
Proof.
  unfold balanced. rewrite known_upsert. cbn [announced e_addr].
  destruct (addr_eqb (me_addr e) a) eqn:E.
  - apply addr_eqb_eq in E. subst a. destruct (known (me_addr e) t); cbn; [reflexivity|].
    unfold cnt. cbn. rewrite addr_eqb_refl. reflexivity.
  - cbn [orb]. destruct (known (me_addr e) t); unfold cnt; cbn; [reflexivity|]. rewrite E. reflexivity.
Qed.

Lemma balanced_retract t b a :
  balanced a t (delete b t) (if known b t then [Disappeared b] else []).
Proof.
  unfold balanced. rewrite known_delete.
  destruct (addr_eqb b a) eqn:E.
  - apply addr_eqb_eq in E. subst a. cbn [negb andb]. destruct (known b t); unfold cnt; cbn; [|reflexivity].
    rewrite addr_eqb_refl. reflexivity.
  - cbn [negb andb]. destruct (known b t); unfold cnt; cbn; [|reflexivity]. rewrite E. cbn. reflexivity.
Qed.

Lemma balanced_trans a t1 t2 t3 c1 c2 :
  balanced a t1 t2 c1 -> balanced a t2 t3 c2 -> balanced a t1 t3 (c1 ++ c2).
Proof. unfold balanced. rewrite !cnt_app. lia. Qed.

Lemma balanced_refl a t : balanced a t t [].
Proof. unfold balanced. reflexivity. Qed.

Lemma balanced_announce_all d fis a es : forall t,
  balanced a t (fst (announce_all d fis t es)) (snd (announce_all d fis t es)).
Proof.
  induction es as [|e es IH]; intros t; [apply balanced_refl|].
  rewrite announce_all_cons. cbn [fst snd]. eapply balanced_trans; [apply balanced_announce|apply IH].
Qed.

Lemma balanced_retract_all a l : forall t,
  balanced a t (fst (retract_all t l)) (snd (retract_all t l)).
Proof.
  induction l as [|b l IH]; intros t; [apply balanced_refl|].
  rewrite retract_all_cons. cbn [fst snd]. eapply balanced_trans; [apply balanced_retract|apply IH].
Qed.

Lemma balanced_apply_partial d fis a es : forall t,
  balanced a t (fst (apply_partial d fis t es)) (snd (apply_partial d fis t es)).
Proof.
  induction es as [|e es IH]; intros t; [apply balanced_refl|].
  rewrite apply_partial_step. destruct (me_state e) as [s|]; [|apply balanced_refl].
  destruct (N.eqb s ST_ADDED).
  - cbn [fst snd]. eapply balanced_trans; [apply balanced_announce|apply IH].
  - destruct (N.eqb s ST_REMOVED); [|apply IH].
    destruct (is_devinfo (me_addr e)); [apply balanced_refl|].
    cbn [fst snd]. eapply balanced_trans; [apply balanced_retract|apply IH].
Qed.

(* for every address: #appeared - #disappeared = (is in the new tree) - (was in the previous tree) *)
Theorem balanced_apply d k t m a : balanced a t (fst (apply d k t m)) (snd (apply d k t m)).
Proof.
  destruct k; unfold apply, apply_complete.
  - pose proof (balanced_announce_all d (d_feats m) a (d_ents m) t) as H1.
    destruct (announce_all d (d_feats m) t (d_ents m)) as [t1 c1]. cbn [fst snd] in H1.
    pose proof (balanced_retract_all a (unlisted (d_ents m) t) t1) as H2.
    destruct (retract_all t1 (unlisted (d_ents m) t)) as [t2 c2]. cbn [fst snd] in *.
    eapply balanced_trans; eassumption.
  - apply balanced_apply_partial.
  - set (ups := if full_ignores_known d then _ else _).
    pose proof (balanced_announce_all d (d_feats m) a ups t) as H1.
    destruct (announce_all d (d_feats m) t ups) as [t1 c1]. cbn [fst snd] in H1.
    pose proof (balanced_retract_all a (unlisted (d_ents m) t) t1) as H2.
    destruct (retract_all t1 (unlisted (d_ents m) t)) as [t2 c2]. cbn [fst snd] in *.
    eapply balanced_trans; eassumption.
Qed.
