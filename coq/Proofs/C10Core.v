(* C10 — core part: the registries, the connection set, the teardown events, silence,
   listings, fan-out and Resolve of every trace of Model/Stack.v satisfy Spec/C10Spec.v
   unconditionally (everything but the client-bookkeeping clause). *)
From Coq Require Import Sorting.Permutation.
From Verif Require Import Base.Prelude Model.Stack Spec.StackObs Spec.C10Spec
  Proofs.StackLemmas Proofs.StackInv Proofs.C10Events.

(* ================================================================ small facts *)
Lemma eqb_obs_notify_refl o : is_notify o = true -> eqb_obs_notify o o = true.
Proof.
  destruct o; simpl; try discriminate. intros _.
  rewrite !N.eqb_refl, !eqb_faddr_refl. reflexivity.
Qed.

Lemma same_multiset_refl {A} (eqb : A -> A -> bool) l :
  (forall x, In x l -> eqb x x = true) -> same_multiset eqb l l = true.
Proof.
  induction l as [|x l IH]; simpl; intros H; [reflexivity|].
  rewrite (H x (or_introl eq_refl)). apply IH. intros y Hy. apply H. now right.
Qed.

Lemma eqb_sentry_refl x : eqb_sentry x x = true.
Proof.
  unfold eqb_sentry, eqb_srv. rewrite eqb_eaddr_refl, !N.eqb_refl, eqb_faddr_refl. reflexivity.
Qed.

Lemma memN_without q p l : memN q (without p l) = negb (N.eqb q p) && memN q l.
Proof.
  unfold memN, without. induction l as [|x l IH]; simpl; [rewrite andb_false_r; reflexivity|].
  destruct (N.eqb_spec x p) as [E|E]; simpl.
  - rewrite IH. destruct (N.eqb_spec q x) as [E2|E2]; simpl.
    + subst. rewrite N.eqb_refl. reflexivity.
    + reflexivity.
  - rewrite IH. destruct (N.eqb_spec q x) as [E2|E2]; simpl.
    + subst. destruct (N.eqb_spec x p); [contradiction | reflexivity].
    + reflexivity.
Qed.

Definition isconn (s : st) (q : N) : bool := match find_peer s q with Some _ => true | None => false end.

Lemma find_peer_In s q pe : find_peer s q = Some pe -> In pe (peers s).
Proof. unfold find_peer. intros H. apply find_some in H. tauto. Qed.

Lemma In_isconn s pe : In pe (peers s) -> isconn s (p_ski pe) = true.
Proof.
  intros H. unfold isconn, find_peer. destruct (find _ (peers s)) eqn:E; [reflexivity|].
  pose proof (find_none _ _ E pe H) as Hn. simpl in Hn. rewrite N.eqb_refl in Hn. discriminate.
Qed.

Lemma srv_of_lf_addr sf : srv_of (lf_addr sf) = (lf_ent sf, lf_id sf).
Proof. reflexivity. Qed.

Lemma drop_conn_abs p l : drop_conn s_ski p (abs l) = abs (not_of p l).
Proof. unfold drop_conn, not_of. apply filter_abs. intros x. reflexivity. Qed.

Lemma own_abs p l : filter (own p) (abs l) = abs (filter (fun x => N.eqb (e_ski x) p) l).
Proof. apply filter_abs. intros x. reflexivity. Qed.

Lemma of_entity_abs p g l : filter (of_entity p g) (abs l) = abs (filter (hitE p g) l).
Proof. apply filter_abs. intros x. reflexivity. Qed.

Lemma not_of_entity_abs p g l : filter (fun x => negb (of_entity p g x)) (abs l) = abs (drop p g l).
Proof. unfold drop. apply filter_abs. intros x. reflexivity. Qed.

Lemma gone_ents_eq out : gone_ents out = gone_of out.
Proof. reflexivity. Qed.

(* ================================================================ silence *)
Definition to_connected (s : st) (out : list obs) : Prop :=
  forall o q, In o out -> dgram_to o = Some q -> isconn s q = true.

Lemma silent_ok s cn out :
  (forall q, memN q cn = isconn s q) -> to_connected s out -> silent cn out = [].
Proof.
  intros Hc Ht. unfold silent, check.
  replace (forallb _ out) with true; [reflexivity|]. symmetry. apply forallb_forall. intros o Ho.
  destruct (dgram_to o) as [q|] eqn:E; [|reflexivity]. rewrite Hc. exact (Ht o q Ho E).
Qed.

Lemma silent_events cn out : Forall (fun o => is_event o = true) out -> silent cn out = [].
Proof.
  intros H. unfold silent, check. replace (forallb _ out) with true; [reflexivity|].
  symmetry. apply forallb_forall. intros o Ho. rewrite Forall_forall in H. specialize (H o Ho).
  destruct o; try discriminate. reflexivity.
Qed.

Lemma to_connected_app s a b : to_connected s a -> to_connected s b -> to_connected s (a ++ b).
Proof. intros Ha Hb o q Ho. apply in_app_or in Ho. destruct Ho; [apply Ha | apply Hb]; assumption. Qed.

Lemma to_connected_events s out : Forall (fun o => is_event o = true) out -> to_connected s out.
Proof.
  intros H o q Ho Hd. rewrite Forall_forall in H. specialize (H o Ho). destruct o; discriminate.
Qed.

Lemma to_connected_nil s : to_connected s [].
Proof. intros o q []. Qed.

Lemma to_connected_call s p ctr ack err src dst :
  isconn s p = true -> to_connected s (call_result p ctr ack err src dst).
Proof.
  intros Hp o q Ho Hd. unfold call_result in Ho.
  destruct err; [|destruct ack]; simpl in Ho; try tauto;
    destruct Ho as [<-|[]]; simpl in Hd; inversion Hd; subst; exact Hp.
Qed.

Lemma to_connected_notify s sf fn v : RegOK s -> to_connected s (notify_subscribers s sf fn v).
Proof.
  intros [HokS _] o q Ho Hd. unfold notify_subscribers in Ho. apply in_map_iff in Ho.
  destruct Ho as [x [<- Hx]]. apply filter_In in Hx. destruct Hx as [Hx _].
  simpl in Hd. inversion Hd; subst. destruct (HokS x Hx) as [pe [en [Hf _]]].
  unfold isconn. rewrite Hf. reflexivity.
Qed.

(* ================================================================ the core invariant *)
Record Inv (s : st) (m : mst) : Prop := {
  inv_w : w m = s;
  inv_s : SInv s;
  inv_sreg : sreg m = abs (subs s);
  inv_breg : breg m = abs (binds s);
  inv_conn : forall q, memN q (conn m) = isconn s q
}.

Lemma inv_init : Inv init minit.
Proof. constructor; try reflexivity. exact sinv_init. Qed.

(* ================================================================ registry calls and their events *)
Lemma added_app k a b : added k (a ++ b) = added k a ++ added k b.
Proof. unfold added. apply flat_map_app. Qed.

Lemma deleted_on_app k a b : deleted_on k (a ++ b) = deleted_on k a ++ deleted_on k b.
Proof. unfold deleted_on. apply flat_map_app. Qed.

Lemma added_call k p ctr ack err src dst : added k (call_result p ctr ack err src dst) = [].
Proof. unfold call_result. destruct err; [|destruct ack]; reflexivity. Qed.

Lemma deleted_call k p ctr ack err src dst : deleted_on k (call_result p ctr ack err src dst) = [].
Proof. unfold call_result. destruct err; [|destruct ack]; reflexivity. Qed.

Definition reg_events (evs : list obs) : Prop := Forall (fun o => is_event o = true) evs.

Lemma add_subscription_events s pe c :
  let '(s1, evs, err) := add_subscription s pe c in
  binds s1 = binds s /\ peers s1 = peers s /\ lfeats s1 = lfeats s /\ lents s1 = lents s /\ reg_events evs /\
  abs (subs s1) = abs (subs s) ++ added EvSub evs /\ added EvBind evs = [].
Proof.
  unfold add_subscription.
  destruct (local_feature s (rc_srv c)) as [sf|]; [|simpl; rewrite app_nil_r; repeat split; constructor].
  destruct (rc_type c) as [t|]; [|simpl; rewrite app_nil_r; repeat split; constructor].
  destruct (negb (role_type_ok (lf_role sf) (lf_type sf) RServer t)); [simpl; rewrite app_nil_r; repeat split; constructor|].
  destruct (remote_feature pe (rc_cli c)) as [[en rf]|]; [|simpl; rewrite app_nil_r; repeat split; constructor].
  destruct (negb (role_type_ok (rf_role rf) (rf_type rf) RClient t)); [simpl; rewrite app_nil_r; repeat split; constructor|].
  cbv zeta. destruct (existsb _ (subs s)); simpl.
  - rewrite app_nil_r. repeat split; constructor.
  - repeat split; try (constructor; [reflexivity | constructor]).
    unfold abs. rewrite map_app. reflexivity.
Qed.

Lemma add_binding_events s pe c :
  let '(s1, evs, err) := add_binding s pe c in
  subs s1 = subs s /\ peers s1 = peers s /\ lfeats s1 = lfeats s /\ lents s1 = lents s /\ reg_events evs /\
  abs (binds s1) = abs (binds s) ++ added EvBind evs /\ added EvSub evs = [].
Proof.
  unfold add_binding.
  destruct (local_feature s (rc_srv c)) as [sf|]; [|simpl; rewrite app_nil_r; repeat split; constructor].
  destruct (rc_type c) as [t|]; [|simpl; rewrite app_nil_r; repeat split; constructor].
  destruct (negb (role_type_ok (lf_role sf) (lf_type sf) RServer t)); [simpl; rewrite app_nil_r; repeat split; constructor|].
  destruct (bindings_on s sf); [|simpl; rewrite app_nil_r; repeat split; constructor].
  destruct (remote_feature pe (rc_cli c)) as [[en rf]|]; [|simpl; rewrite app_nil_r; repeat split; constructor].
  destruct (negb (role_type_ok (rf_role rf) (rf_type rf) RClient t)); simpl.
  - rewrite app_nil_r. repeat split; constructor.
  - repeat split; try (constructor; [reflexivity | constructor]).
    unfold abs. rewrite map_app. reflexivity.
Qed.

Definition del_filter (p : N) (ca : faddr) (dl : list (eaddr * N)) (x : sentry) : bool :=
  negb (N.eqb (s_ski x) p && eqb_faddr (s_cli x) ca && existsb (eqb_srv (s_srv x)) dl).

Lemma del_filter_nil p ca l : filter (del_filter p ca []) l = l.
Proof. apply filter_all. intros x _. unfold del_filter. simpl. rewrite andb_false_r. reflexivity. Qed.

Lemma remove_subscription_events s pe c :
  let '(s1, evs, err) := remove_subscription s pe c in
  binds s1 = binds s /\ peers s1 = peers s /\ lfeats s1 = lfeats s /\ lents s1 = lents s /\ reg_events evs /\
  abs (subs s1) = filter (del_filter (p_ski pe) (default_dev pe (rc_cli c)) (deleted_on EvSub evs)) (abs (subs s)) /\
  deleted_on EvBind evs = [].
Proof.
  unfold remove_subscription.
  destruct (remote_feature pe (rc_cli c)) as [[en rf]|]; [|simpl; rewrite del_filter_nil; repeat split; constructor].
  destruct (local_feature s (rc_srv c)) as [sf|]; [|simpl; rewrite del_filter_nil; repeat split; constructor].
  cbv zeta. destruct (Nat.eqb _ _); simpl.
  - rewrite del_filter_nil. repeat split; constructor.
  - repeat split; try (constructor; [reflexivity | constructor]).
    symmetry. apply filter_abs. intros x. unfold del_filter, same_srv, eqb_srv. simpl. rewrite orb_false_r. reflexivity.
Qed.

Lemma remove_binding_events s pe c :
  let '(s1, evs, err) := remove_binding s pe c in
  subs s1 = subs s /\ peers s1 = peers s /\ lfeats s1 = lfeats s /\ lents s1 = lents s /\ reg_events evs /\
  abs (binds s1) = filter (del_filter (p_ski pe) (default_dev pe (rc_cli c)) (deleted_on EvBind evs)) (abs (binds s)) /\
  deleted_on EvSub evs = [].
Proof.
  unfold remove_binding.
  destruct (remote_feature pe (rc_cli c)) as [[en rf]|]; [|simpl; rewrite del_filter_nil; repeat split; constructor].
  destruct (local_feature s (rc_srv c)) as [sf|]; [|simpl; rewrite del_filter_nil; repeat split; constructor].
  destruct (negb (role_type_ok (lf_role sf) (lf_type sf) RServer (lf_type sf))); [simpl; rewrite del_filter_nil; repeat split; constructor|].
  destruct (negb (has_binding s sf (rf_addr en rf))); [simpl; rewrite del_filter_nil; repeat split; constructor|].
  cbv zeta. destruct (Nat.eqb _ _); simpl.
  - rewrite del_filter_nil. repeat split; constructor.
  - repeat split; try (constructor; [reflexivity | constructor]).
    symmetry. apply filter_abs. intros x. unfold del_filter, same_srv, eqb_srv. simpl. rewrite orb_false_r. reflexivity.
Qed.

(* ================================================================ connections are preserved *)
Definition skis (s : st) : list N := map p_ski (peers s).

Definition addr_pres (s s' : st) : Prop :=
  (forall q, match find_peer s q, find_peer s' q with
             | Some a, Some b => p_addr a = p_addr b
             | None, None => True
             | _, _ => False
             end) /\ skis s' = skis s.

Lemma addr_pres_refl s : addr_pres s s.
Proof. split; [|reflexivity]. intros q. destruct (find_peer s q); auto. Qed.

Lemma addr_pres_trans a b c : addr_pres a b -> addr_pres b c -> addr_pres a c.
Proof.
  intros [H1 K1] [H2 K2]. split; [|congruence]. intros q. specialize (H1 q). specialize (H2 q).
  destruct (find_peer a q), (find_peer b q), (find_peer c q); try tauto; congruence.
Qed.

Lemma addr_pres_peers s s' : peers s' = peers s -> addr_pres s s'.
Proof. intros H. split; [|unfold skis; rewrite H; reflexivity]. intros q. unfold find_peer. rewrite H. destruct (find _ (peers s)); auto. Qed.

Lemma skis_set_peer s pe : skis (set_peer s pe) = skis s.
Proof.
  unfold skis, set_peer. simpl. rewrite map_map. apply map_ext_in. intros x _.
  destruct (N.eqb_spec (p_ski x) (p_ski pe)); [symmetry; assumption | reflexivity].
Qed.

Lemma addr_pres_set_peer s pe pe1 :
  find_peer s (p_ski pe1) = Some pe -> p_addr pe1 = p_addr pe -> addr_pres s (set_peer s pe1).
Proof.
  intros Hf Ha. split; [|apply skis_set_peer]. intros q. rewrite find_peer_set_peer. destruct (find_peer s q) as [x|] eqn:E; [|exact I].
  destruct (N.eqb_spec q (p_ski pe1)) as [E2|E2]; [|reflexivity].
  subst q. rewrite Hf in E. inversion E; subst. symmetry. exact Ha.
Qed.

Lemma addr_pres_isconn s s' q : addr_pres s s' -> isconn s' q = isconn s q.
Proof. intros [H _]. specialize (H q). unfold isconn. destruct (find_peer s q), (find_peer s' q); tauto. Qed.

Lemma remove_entity_addr s p a s' evs : remove_entity s p a = (s', evs) -> addr_pres s s'.
Proof.
  intros H. rewrite remove_entity_unfold in H.
  destruct (find_peer s p) as [pe|] eqn:Ep; [|inversion H; subst; apply addr_pres_refl].
  destruct (find_rent pe a) as [en|]; [|inversion H; subst; apply addr_pres_refl].
  cbv zeta in H.
  set (pe1 := {| p_ski := p_ski pe; p_addr := p_addr pe;
                 p_ents := filter (fun x => negb (eqb_eaddr (re_addr x) a)) (p_ents pe) |}) in *.
  pose proof (remove_for_entity_spec (set_peer s pe1) pe1 en) as Hr.
  destruct (remove_for_entity (set_peer s pe1) pe1 en) as [s2 evs1].
  destruct Hr as [_ [Hp2 _]].
  destruct (clean_entity_caches_frame s2 (p_addr pe) a) as [_ Hp3].
  injection H as H1 H2. subst s' evs.
  eapply addr_pres_trans; [apply (addr_pres_set_peer s pe pe1); [simpl; rewrite (find_peer_ski _ _ _ Ep); exact Ep | reflexivity]|].
  apply addr_pres_peers. rewrite Hp3, Hp2. reflexivity.
Qed.

Lemma remove_unlisted_addr listed es : forall s p s' evs, remove_unlisted s p listed es = (s', evs) -> addr_pres s s'.
Proof.
  induction es as [|a r IH]; intros s p s' evs H.
  - simpl in H. inversion H; subst. apply addr_pres_refl.
  - simpl in H. destruct (existsb (eqb_eaddr a) listed || eqb_eaddr a [0%N]); [exact (IH _ _ _ _ H)|].
    destruct (remove_entity s p a) as [s1 evs1] eqn:E1.
    destruct (remove_unlisted s1 p listed r) as [s2 evs2] eqn:E2.
    injection H as H1 H2. subst s' evs.
    eapply addr_pres_trans; [exact (remove_entity_addr _ _ _ _ _ E1) | exact (IH _ _ _ _ E2)].
Qed.

Lemma addr_pres_add_entities s p pe m l :
  find_peer s p = Some pe -> addr_pres s (set_peer s (fst (add_entities pe m l))).
Proof.
  intros Ep. apply (addr_pres_set_peer s pe).
  - rewrite add_entities_ski, (find_peer_ski _ _ _ Ep). exact Ep.
  - apply add_entities_addr.
Qed.

Lemma notify_entries_addr l : forall s p m s' evs err, notify_entries s p m l = (s', evs, err) -> addr_pres s s'.
Proof.
  induction l as [|de r IH]; intros s p m s' evs err H.
  - simpl in H. inversion H; subst. apply addr_pres_refl.
  - rewrite notify_entries_cons in H. destruct (de_state de) as [[|]|]; [| |inversion H; subst; apply addr_pres_refl].
    + destruct (find_peer s p) as [pe|] eqn:Ep; [|inversion H; subst; apply addr_pres_refl].
      destruct (check_entity pe de); cbn [negb] in H; [|inversion H; subst; apply addr_pres_refl].
      pose proof (addr_pres_add_entities s p pe m [de] Ep) as Ha.
      destruct (add_entities pe m [de]) as [pe1 created]. simpl fst in Ha.
      destruct (notify_entries (set_peer s pe1) p m r) as [[s2 evs2] err2] eqn:Er.
      injection H as H1 H2 H3. subst s' evs err.
      eapply addr_pres_trans; [exact Ha | exact (IH _ _ _ _ _ _ Er)].
    + destruct (find_peer s p) as [pe|] eqn:Ep; [|inversion H; subst; apply addr_pres_refl].
      destruct (check_removed pe de); cbn [negb] in H; [|inversion H; subst; apply addr_pres_refl].
      destruct (remove_entity s p (de_addr de)) as [s1 evs1] eqn:E1.
      destruct (notify_entries s1 p m r) as [[s2 evs2] err2] eqn:Er.
      injection H as H1 H2 H3. subst s' evs err.
      eapply addr_pres_trans; [exact (remove_entity_addr _ _ _ _ _ E1) | exact (IH _ _ _ _ _ _ Er)].
Qed.

(* ---------- a discovery reply: the replying connection gets its announced address, everything
   else about the connections stays ---------- *)
Lemma handle_device_added_addr s1 p pe pe1 l0 :
  find_peer s1 p = Some pe1 -> p_ski pe1 = p -> RegOK s1 -> addr_pres s1 (handle_device_added s1 p pe pe1 l0).
Proof.
  intros Ep Hski Hok.
  destruct (handle_device_added_spec s1 p pe pe1 l0 Ep Hski Hok) as [_ [_ [_ [_ [_ Hfp]]]]].
  split.
  - intros q. specialize (Hfp q). destruct (find_peer s1 q), (find_peer _ q); try tauto. destruct Hfp; congruence.
  - unfold handle_device_added.
    set (s1a := if reply_completes pe pe1 then _ else s1).
    assert (H1a : skis s1a = skis s1).
    { unfold s1a. destruct (reply_completes pe pe1); [|reflexivity].
      destruct l0; [reflexivity|]. rewrite skis_set_peer. reflexivity. }
    destruct (match remote_feature pe (nm_addr None) with Some (_, rf) => rf_dev rf | None => None end) as [d0|].
    + destruct (peer_by_addr s1a d0); exact H1a.
    + destruct (p_addr pe1) as [d1|]; [|exact H1a]. destruct (peer_by_addr s1a d1); exact H1a.
Qed.

Lemma reply_step_peers s p m : RegOK s ->
  fst (step s (DiscoveryReply p m)) = s /\ snd (step s (DiscoveryReply p m)) = [] \/
  exists pe pe1, find_peer s p = Some pe /\ remote_feature pe (nm_addr None) <> None /\
    p_ski pe1 = p /\ p_addr pe1 = reply_addr pe m /\
    addr_pres (set_peer s pe1) (fst (step s (DiscoveryReply p m))).
Proof.
  intros Hok. cbn [step]. unfold with_source.
  destruct (find_peer s p) as [pe|] eqn:Ep; [|left; auto].
  destruct (remote_feature pe (nm_addr None)) eqn:Esrc; [|left; auto].
  right.
  set (pe0 := {| p_ski := p_ski pe; p_addr := match dm_dev m with Some d => Some d | None => p_addr pe end; p_ents := p_ents pe |}).
  pose proof (RegOK_set_peer_add' s p pe pe0 m (dm_ents m) Ep eq_refl eq_refl Hok) as Hok1.
  pose proof (add_entities_ski pe0 m (dm_ents m)) as Hski.
  pose proof (add_entities_addr pe0 m (dm_ents m)) as Haddr.
  destruct (add_entities pe0 m (dm_ents m)) as [pe1 created]. simpl fst in Hok1, Hski, Haddr.
  pose proof (find_peer_ski _ _ _ Ep) as Hp.
  assert (Hski1 : p_ski pe1 = p) by (rewrite Hski; simpl; exact Hp).
  assert (Ep1 : find_peer (set_peer s pe1) p = Some pe1).
  { rewrite find_peer_set_peer, Ep, Hski1, N.eqb_refl. reflexivity. }
  pose proof (handle_device_added_addr (set_peer s pe1) p pe pe1
                (existsb (fun de => eqb_eaddr (de_addr de) [0%N]) (dm_ents m)) Ep1 Hski1 Hok1) as Ha2.
  destruct (remove_unlisted _ p (map de_addr (dm_ents m)) (map re_addr (p_ents pe1))) as [s3 evs] eqn:Eu.
  pose proof (remove_unlisted_addr _ _ _ _ _ _ Eu) as Ha3. cbn [fst].
  exists pe, pe1. split; [reflexivity|]. split; [rewrite Esrc; discriminate|]. split; [exact Hski1|]. split; [exact Haddr|].
  eapply addr_pres_trans; eassumption.
Qed.

Lemma isconn_set_peer s pe q : isconn (set_peer s pe) q = isconn s q.
Proof.
  unfold isconn. rewrite find_peer_set_peer. destruct (find_peer s q); [|reflexivity].
  destruct (N.eqb q (p_ski pe)); reflexivity.
Qed.

Lemma reply_isconn s p m q : RegOK s -> isconn (fst (step s (DiscoveryReply p m))) q = isconn s q.
Proof.
  intros Hok. destruct (reply_step_peers s p m Hok) as [[H _]|[pe [pe1 [_ [_ [_ [_ Ha]]]]]]].
  - rewrite H. reflexivity.
  - rewrite (addr_pres_isconn _ _ q Ha). apply isconn_set_peer.
Qed.

Lemma reply_skis s p m : RegOK s -> skis (fst (step s (DiscoveryReply p m))) = skis s.
Proof.
  intros Hok. destruct (reply_step_peers s p m Hok) as [[H _]|[pe [pe1 [_ [_ [_ [_ [_ Ha]]]]]]]].
  - rewrite H. reflexivity.
  - rewrite Ha. apply skis_set_peer.
Qed.

(* ================================================================ what one step writes, and to whom *)
Lemma listing_no_dgram p l : Forall (fun o => dgram_to o = None) (listing p l).
Proof. unfold listing. apply Forall_forall. intros o Ho. apply in_map_iff in Ho. destruct Ho as [x [<- _]]. reflexivity. Qed.

Lemma to_connected_nodgram s out : Forall (fun o => dgram_to o = None) out -> to_connected s out.
Proof. intros H o q Ho Hd. rewrite Forall_forall in H. rewrite (H o Ho) in Hd. discriminate. Qed.

Lemma registry_call_out s p ctr ack c (f : st -> peer -> reg_call -> st * list obs * bool) :
  (forall pe, reg_events (snd (fst (f s pe c)))) ->
  to_connected s (snd (registry_call s p ctr ack c f)).
Proof.
  intros Hf. unfold registry_call, with_source.
  destruct (find_peer s p) as [pe|] eqn:Ep; [|apply to_connected_nil].
  destruct (remote_feature pe (nm_addr None)); [|apply to_connected_nil].
  specialize (Hf pe). destruct (f s pe c) as [[s1 evs] err]. simpl in *.
  apply to_connected_app; [apply to_connected_events; exact Hf|].
  apply to_connected_call. unfold isconn. rewrite Ep. reflexivity.
Qed.

Lemma out_connected s o : RegOK s -> to_connected s (snd (step s o)).
Proof.
  intros Hok. destruct o; cbn [step].
  - destruct (existsb _ (lents s)); apply to_connected_nil.
  - destruct (find _ (lents s)); simpl; apply to_connected_nodgram; repeat constructor.
  - apply to_connected_nil.
  - (* Connect *)
    destruct (find_peer s p) as [pe|] eqn:Ep; [|apply to_connected_nil].
    destruct (disconnect_events s p Hok) as [EV [He [Hall _]]].
    destruct (disconnect s p) as [s0 evs]. simpl in *. subst evs.
    apply to_connected_events. apply Forall_app. split; [exact Hall | repeat constructor].
  - (* DiscoveryReply *)
    apply to_connected_events. exact (proj2 (reply_events s p m Hok)).
  - (* DiscoveryNotify *)
    unfold with_source. destruct (find_peer s p) as [pe|] eqn:Ep; [|apply to_connected_nil].
    destruct (remote_feature pe (nm_addr None)); [|apply to_connected_nil].
    assert (Hp : isconn s p = true) by (unfold isconn; rewrite Ep; reflexivity).
    destruct (dm_ents m) as [|d0 dr] eqn:Edm; [apply to_connected_call; exact Hp|].
    rewrite <- Edm. destruct (notify_entries s p m (dm_ents m)) as [[s1 evs] err] eqn:En.
    destruct (notify_entries_events _ _ _ _ _ _ _ Hok En) as [_ [_ Hall]]. simpl.
    apply to_connected_app; [apply to_connected_events; exact Hall | apply to_connected_call; exact Hp].
  - apply registry_call_out. intros pe. pose proof (add_subscription_events s pe c) as H.
    destruct (add_subscription s pe c) as [[s1 evs] err]. simpl. tauto.
  - apply registry_call_out. intros pe. pose proof (remove_subscription_events s pe c) as H.
    destruct (remove_subscription s pe c) as [[s1 evs] err]. simpl. tauto.
  - apply registry_call_out. intros pe. pose proof (add_binding_events s pe c) as H.
    destruct (add_binding s pe c) as [[s1 evs] err]. simpl. tauto.
  - apply registry_call_out. intros pe. pose proof (remove_binding_events s pe c) as H.
    destruct (remove_binding s pe c) as [[s1 evs] err]. simpl. tauto.
  - (* SetData *)
    destruct (find_lfeat s e (Some f)) as [lf|]; [|apply to_connected_nodgram; repeat constructor].
    destruct (fn_registered (lf_type lf) fn); [apply to_connected_notify; exact Hok | apply to_connected_nil].
  - (* Write *)
    unfold with_source. destruct (find_peer s p) as [pe|] eqn:Ep; [|apply to_connected_nil].
    assert (Hp : isconn s p = true) by (unfold isconn; rewrite Ep; reflexivity).
    assert (Hr : forall err a b d, to_connected s [result_to p ctr err a b d]).
    { intros err a b d o q [<-|[]] Hd. simpl in Hd. inversion Hd; subst. exact Hp. }
    destruct (remote_feature pe src) as [[en rf]|]; [|apply to_connected_nil].
    destruct (local_feature s dst) as [lf|]; [|apply Hr].
    destruct (assoc_N fn (lf_ops lf)) as [[rd [|]]|]; try apply Hr.
    destruct (negb (has_binding s lf (rf_addr en rf))); [apply Hr|].
    destruct (negb (fn_registered (lf_type lf) fn)); [apply Hr|]. cbn [snd].
    apply to_connected_app; [apply to_connected_notify; exact Hok|].
    apply to_connected_app; [apply to_connected_nodgram; repeat constructor|].
    destruct ack; [apply Hr | apply to_connected_nil].
  - (* Disconnect *)
    destruct (disconnect_events s p Hok) as [EV [He [Hall _]]]. rewrite He.
    apply to_connected_events. apply Forall_app. split; [exact Hall | repeat constructor].
  - apply to_connected_nodgram. apply listing_no_dgram.
  - apply to_connected_nodgram. apply listing_no_dgram.
  - (* LocalSubscribe *)
    unfold local_request. destruct (find_lfeat s e (Some f)) as [lf|]; [|apply to_connected_nodgram; repeat constructor].
    destruct (fa_dev r); [|apply to_connected_nodgram; repeat constructor].
    destruct (peer_by_addr s n) as [pe|] eqn:Ea; [|apply to_connected_nodgram; repeat constructor].
    destruct (eqb_role (lf_role lf) RServer); [apply to_connected_nodgram; repeat constructor|].
    intros o q Ho Hd. simpl in Ho. destruct Ho as [<-|[<-|[]]]; simpl in Hd; inversion Hd; subst.
    apply In_isconn. unfold peer_by_addr in Ea. apply find_some in Ea. tauto.
  - unfold local_request. destruct (find_lfeat s e (Some f)) as [lf|]; [|apply to_connected_nodgram; repeat constructor].
    destruct (fa_dev r); [|apply to_connected_nodgram; repeat constructor].
    destruct (peer_by_addr s n) as [pe|] eqn:Ea; [|apply to_connected_nodgram; repeat constructor].
    destruct (eqb_role (lf_role lf) RServer); [apply to_connected_nodgram; repeat constructor|].
    intros o q Ho Hd. simpl in Ho. destruct Ho as [<-|[<-|[]]]; simpl in Hd; inversion Hd; subst.
    apply In_isconn. unfold peer_by_addr in Ea. apply find_some in Ea. tauto.
  - destruct (find_lfeat s e (Some f)); apply to_connected_nodgram; repeat constructor.
  - destruct (find_lfeat s e (Some f)); apply to_connected_nodgram; repeat constructor.
  - destruct (find_lfeat s e (Some f)) as [lf|]; [destruct (assoc_N fn (lf_data lf))|]; apply to_connected_nodgram; repeat constructor.
  - apply to_connected_nodgram. repeat constructor.
  - (* LocalUnsubscribe *)
    unfold local_unrequest. destruct (find_lfeat s e (Some f)) as [lf|]; [|apply to_connected_nodgram; repeat constructor].
    destruct (fa_dev r); [|apply to_connected_nodgram; repeat constructor].
    destruct (peer_by_addr s n) as [pe|] eqn:Ea; [|apply to_connected_nodgram; repeat constructor].
    intros o q Ho Hd. simpl in Ho. destruct Ho as [<-|[<-|[]]]; simpl in Hd; inversion Hd; subst.
    apply In_isconn. unfold peer_by_addr in Ea. apply find_some in Ea. tauto.
  - (* LocalUnbind *)
    unfold local_unrequest. destruct (find_lfeat s e (Some f)) as [lf|]; [|apply to_connected_nodgram; repeat constructor].
    destruct (fa_dev r); [|apply to_connected_nodgram; repeat constructor].
    destruct (peer_by_addr s n) as [pe|] eqn:Ea; [|apply to_connected_nodgram; repeat constructor].
    intros o q Ho Hd. simpl in Ho. destruct Ho as [<-|[<-|[]]]; simpl in Hd; inversion Hd; subst.
    apply In_isconn. unfold peer_by_addr in Ea. apply find_some in Ea. tauto.
Qed.

(* ================================================================ operations that leave registries and connections alone *)
Definition is_frame (o : op) : bool :=
  match o with
  | AddLocalEntity _ | AddLocalFeature _ _ _ | AddFunction _ _ _ _ _
  | SetData _ _ _ _ | Write _ _ _ _ _ _ _ | ListSubs _ | ListBinds _ | LocalSubscribe _ _ _ | LocalBind _ _ _
  | HasLocalSub _ _ _ | HasLocalBind _ _ _ | ReadData _ _ _ | Resolve _ _
  | LocalUnsubscribe _ _ _ | LocalUnbind _ _ _ => true
  | _ => false
  end.

Lemma frame_step s o : is_frame o = true ->
  subs (fst (step s o)) = subs s /\ binds (fst (step s o)) = binds s /\
  (forall q, isconn (fst (step s o)) q = isconn s q) /\ skis (fst (step s o)) = skis s.
Proof.
  destruct o; simpl is_frame; try discriminate; intros _; cbn [step].
  - destruct (existsb _ (lents s)); repeat split; reflexivity.
  - destruct (find _ (lents s)); repeat split; reflexivity.
  - repeat split; reflexivity.
  - destruct (find_lfeat s e (Some f)) as [lf|]; [|repeat split; reflexivity].
    destruct (fn_registered (lf_type lf) fn); repeat split; reflexivity.
  - unfold with_source. destruct (find_peer s p) as [pe|]; [|repeat split; reflexivity].
    destruct (remote_feature pe src) as [[en rf]|]; [|repeat split; reflexivity].
    destruct (local_feature s dst) as [lf|]; [|repeat split; reflexivity].
    destruct (assoc_N fn (lf_ops lf)) as [[rd [|]]|]; try (repeat split; reflexivity).
    destruct (negb (has_binding s lf (rf_addr en rf))); [repeat split; reflexivity|].
    destruct (negb (fn_registered (lf_type lf) fn)); repeat split; reflexivity.
  - repeat split; reflexivity.
  - repeat split; reflexivity.
  - unfold local_request. destruct (find_lfeat s e (Some f)) as [lf|]; [|repeat split; reflexivity].
    destruct (fa_dev r); [|repeat split; reflexivity].
    destruct (peer_by_addr s n); [|repeat split; reflexivity].
    destruct (eqb_role (lf_role lf) RServer); repeat split; reflexivity.
  - unfold local_request. destruct (find_lfeat s e (Some f)) as [lf|]; [|repeat split; reflexivity].
    destruct (fa_dev r); [|repeat split; reflexivity].
    destruct (peer_by_addr s n); [|repeat split; reflexivity].
    destruct (eqb_role (lf_role lf) RServer); repeat split; reflexivity.
  - destruct (find_lfeat s e (Some f)); repeat split; reflexivity.
  - destruct (find_lfeat s e (Some f)); repeat split; reflexivity.
  - destruct (find_lfeat s e (Some f)) as [lf|]; [destruct (assoc_N fn (lf_data lf))|]; repeat split; reflexivity.
  - repeat split; reflexivity.
  - unfold local_unrequest. destruct (find_lfeat s e (Some f)) as [lf|]; [|repeat split; reflexivity].
    destruct (fa_dev r); [|repeat split; reflexivity].
    destruct (peer_by_addr s n); repeat split; reflexivity.
  - unfold local_unrequest. destruct (find_lfeat s e (Some f)) as [lf|]; [|repeat split; reflexivity].
    destruct (fa_dev r); [|repeat split; reflexivity].
    destruct (peer_by_addr s n); repeat split; reflexivity.
Qed.

Lemma Inv_build s m o cn sr br cr :
  Inv s m -> sr = abs (subs (fst (step s o))) -> br = abs (binds (fst (step s o))) ->
  (forall q, memN q cn = isconn (fst (step s o)) q) ->
  Inv (fst (step s o)) (set_accounts m o cn sr br cr).
Proof.
  intros I Hs Hb Hc. constructor; simpl.
  - rewrite (inv_w _ _ I). reflexivity.
  - apply sinv_step. exact (inv_s _ _ I).
  - exact Hs.
  - exact Hb.
  - exact Hc.
Qed.

Lemma Inv_frame s m o cr : Inv s m -> is_frame o = true ->
  Inv (fst (step s o)) (set_accounts m o (conn m) (sreg m) (breg m) cr).
Proof.
  intros I Hf. destruct (frame_step s o Hf) as [H1 [H2 [H3 _]]]. apply Inv_build; [exact I | | |].
  - rewrite H1. apply (inv_sreg _ _ I).
  - rewrite H2. apply (inv_breg _ _ I).
  - intros q. rewrite H3. apply (inv_conn _ _ I).
Qed.

Lemma silent_step s m o : Inv s m -> silent (conn m) (snd (step s o)) = [].
Proof.
  intros I. apply (silent_ok s); [apply (inv_conn _ _ I) | apply out_connected; exact (si_ok _ (inv_s _ _ I))].
Qed.

Lemma only_client_nil : forall c : Z, In c [] -> c = CL_CLIENT.
Proof. intros c []. Qed.

Lemma only_client_check b : forall c : Z, In c (check b CL_CLIENT) -> c = CL_CLIENT.
Proof. unfold check. destruct b; intros c []; [auto | contradiction]. Qed.

(* ---------- fan-out, listings ---------- *)
Lemma fanout_eq s m sf fn v : sreg m = abs (subs s) -> fanout m sf fn v = notify_subscribers s sf fn v.
Proof.
  intros H. unfold fanout, notify_subscribers. rewrite H.
  rewrite (filter_abs _ (fun x => same_srv x sf)); [|intros x; reflexivity].
  unfold abs. rewrite map_map. reflexivity.
Qed.

Lemma notify_all_notify s sf fn v : forall o, In o (notify_subscribers s sf fn v) -> is_notify o = true.
Proof. unfold notify_subscribers. intros o H. apply in_map_iff in H. destruct H as [x [<- _]]. reflexivity. Qed.

Lemma fanout_check s sf fn v :
  same_multiset eqb_obs_notify (notify_subscribers s sf fn v) (notify_subscribers s sf fn v) = true.
Proof. apply same_multiset_refl. intros x Hx. apply eqb_obs_notify_refl. exact (notify_all_notify _ _ _ _ _ Hx). Qed.

Lemma write_shape s p ctr ack src dst fn v :
  let out := snd (step s (Write p ctr ack src dst fn v)) in
  (existsb is_ev_data out = true /\ exists sf, local_feature s dst = Some sf /\ filter is_notify out = notify_subscribers s sf fn v) \/
  (existsb is_ev_data out = false /\ filter is_notify out = []).
Proof.
  cbn [step]. unfold with_source.
  destruct (find_peer s p) as [pe|]; [|right; split; reflexivity].
  destruct (remote_feature pe src) as [[en rf]|]; [|right; split; reflexivity].
  destruct (local_feature s dst) as [lf|]; [|right; split; reflexivity].
  destruct (assoc_N fn (lf_ops lf)) as [[rd [|]]|]; try solve [right; split; reflexivity].
  destruct (negb (has_binding s lf (rf_addr en rf))); [right; split; reflexivity|].
  destruct (negb (fn_registered (lf_type lf) fn)); [right; split; reflexivity|].
  left. cbn [snd]. split.
  - rewrite existsb_app. simpl. rewrite orb_true_r. reflexivity.
  - exists lf. split; [reflexivity|]. rewrite filter_app.
    rewrite (filter_all is_notify) by apply notify_all_notify.
    destruct ack; simpl; rewrite app_nil_r; reflexivity.
Qed.

Lemma seen_listing p l : entries_seen p (listing p l) = abs (filter (fun x => N.eqb (e_ski x) p) l).
Proof.
  unfold listing, entries_seen. induction l as [|x l IH]; simpl; [reflexivity|].
  destruct (N.eqb_spec (e_ski x) p) as [E|E]; simpl; [|exact IH].
  rewrite IH. unfold strip at 1, srv_of. simpl. rewrite E. destruct (e_srv x); reflexivity.
Qed.

Lemma listing_check p l : listing_ok p (abs l) (listing p l) = true.
Proof.
  unfold listing_ok. rewrite seen_listing, own_abs.
  rewrite same_multiset_refl by (intros; apply eqb_sentry_refl).
  unfold listing, abs. rewrite !map_length, Nat.eqb_refl. reflexivity.
Qed.

Lemma find_existsb {A} (P : A -> bool) l : (match find P l with Some _ => true | None => false end) = existsb P l.
Proof. induction l as [|x l IH]; simpl; [reflexivity|]. destruct (P x); [reflexivity | exact IH]. Qed.

Lemma existsb_ext_in {A} (P Q : A -> bool) l : (forall x, In x l -> P x = Q x) -> existsb P l = existsb Q l.
Proof.
  induction l as [|x l IH]; simpl; intros H; [reflexivity|].
  rewrite (H x (or_introl eq_refl)), IH; [reflexivity|]. intros y Hy. apply H. now right.
Qed.

(* ---------- teardown checks ---------- *)
Lemma device_teardown_check s m p : Inv s m ->
  same_multiset eqb_obs_event (device_teardown_events m p) (map norm_event (filter is_event (snd (disconnect s p)))) = true.
Proof.
  intros I. destruct (disconnect_events s p (si_ok _ (inv_s _ _ I))) as [EV [He [Hall Hp]]].
  rewrite He. unfold device_teardown_events. rewrite (inv_w _ _ I), (inv_sreg _ _ I), (inv_breg _ _ I).
  rewrite !own_abs, !map_ev_abs.
  rewrite (filter_all is_event).
  2:{ intros x Hx. apply in_app_or in Hx. destruct Hx as [Hx|[<-|[]]]; [|reflexivity].
      rewrite Forall_forall in Hall. exact (Hall x Hx). }
  rewrite map_app. simpl map at 3. rewrite app_assoc.
  apply events_multiset.
  - apply Forall_app. split; [|repeat constructor].
    apply Forall_app. split; apply Forall_forall; intros o Ho; apply in_map_iff in Ho; destruct Ho as [x [<- _]]; reflexivity.
  - apply Permutation_app_tail. apply Permutation_sym. exact Hp.
Qed.

(* ================================================================ the core step lemma *)
Lemma registry_call_unknown s p ctr ack c f :
  (match find_peer s p with
   | Some pe => match remote_feature pe (nm_addr None) with Some _ => false | None => true end
   | None => true
   end) = true ->
  registry_call s p ctr ack c f = (s, []).
Proof.
  unfold registry_call, with_source. destruct (find_peer s p) as [pe|]; [|reflexivity].
  destruct (remote_feature pe (nm_addr None)); [discriminate | reflexivity].
Qed.

Lemma abs_complete p d l : map (complete_entry p d) (abs l) = abs (complete_nm_addr p (Some d) l).
Proof.
  unfold abs, complete_nm_addr. rewrite !map_map. apply map_ext. intros x.
  unfold complete_one, complete_entry, complete_cli, strip. simpl.
  destruct (N.eqb (e_ski x) p); simpl; [|reflexivity].
  destruct (eqb_faddr (e_cli x) (nm_addr None)); reflexivity.
Qed.

Lemma after_delete_eq m p c k out l :
  after_delete m p c k out l =
  filter (del_filter p (match find_peer (w m) p with Some pe => default_dev pe (rc_cli c) | None => rc_cli c end) (deleted_on k out)) l.
Proof. reflexivity. Qed.

(* the only part of a verdict that is not always empty *)
Definition client_part (m : mst) (o : op) (out : list obs) : verdict :=
  match o with
  | HasLocalSub e f r => check (answers (has_ref m true e f r) out) CL_CLIENT
  | HasLocalBind e f r => check (answers (has_ref m false e f r) out) CL_CLIENT
  | _ => []
  end.

Lemma core_step s m o : Inv s m ->
  let '(m1, v) := mon m o (snd (step s o)) in
  Inv (fst (step s o)) m1 /\ v = client_part m o (snd (step s o)).
Proof.
  intros I. pose proof (inv_w _ _ I) as Hw. pose proof (si_ok _ (inv_s _ _ I)) as Hok.
  pose proof (silent_step s m o I) as Hsil.
  destruct o; cbn [mon].
  - (* AddLocalEntity *) rewrite Hsil. split; [apply Inv_frame; auto | reflexivity].
  - (* AddLocalFeature *) rewrite Hsil. split; [apply Inv_frame; auto | reflexivity].
  - (* AddFunction *) rewrite Hsil. split; [apply Inv_frame; auto | reflexivity].
  - (* Connect *)
    pose proof (disconnect_spec s p Hok) as Hd.
    pose proof (device_teardown_check s m p I) as Hev.
    pose proof (disconnect_events s p Hok) as Hde.
    assert (Hc : memN p (conn m) = isconn s p) by apply (inv_conn _ _ I).
    cbn [step] in *. unfold isconn in Hc.
    destruct (find_peer s p) as [pe|] eqn:Ep.
    + destruct (disconnect s p) as [s0 evs] eqn:Ed. cbn [fst snd] in *.
      destruct Hd as [[H1 H2 H3 H4] [Hok0 [Hnone [Hother _]]]].
      destruct Hde as [EV [He [Hall _]]].
      rewrite Hc, Hev. cbn [app].
      rewrite silent_events by (rewrite He; apply Forall_app; split; [exact Hall | repeat constructor]).
      split; [|reflexivity].
      pose proof (Inv_build s m (Connect p) (p :: without p (conn m)) (drop_conn s_ski p (sreg m)) (drop_conn s_ski p (breg m))
                    (drop_conn c_ski p (cref m)) I) as HB.
      cbn [step] in HB. rewrite Ep, Ed in HB. cbn [fst] in HB. apply HB.
      * simpl. rewrite (inv_sreg _ _ I), drop_conn_abs, H1. reflexivity.
      * simpl. rewrite (inv_breg _ _ I), drop_conn_abs, H3. reflexivity.
      * intros q. unfold isconn, find_peer. simpl peers. rewrite find_app'. fold (find_peer s0 q).
        change (memN q (p :: without p (conn m))) with (N.eqb q p || memN q (without p (conn m))).
        rewrite memN_without, (inv_conn _ _ I).
        destruct (N.eqb_spec q p) as [E|E].
        -- subst q. rewrite Hnone. simpl. rewrite N.eqb_refl. reflexivity.
        -- rewrite (Hother q E). unfold isconn. simpl. destruct (find_peer s q); [reflexivity|].
           destruct (N.eqb_spec p q); [congruence | reflexivity].
    + cbn [fst snd] in *. rewrite Hc. simpl. split; [|reflexivity].
      unfold disconnect in Hd. rewrite Ep in Hd. destruct Hd as [[H1 H2 H3 H4] _].
      pose proof (Inv_build s m (Connect p) (p :: without p (conn m)) (drop_conn s_ski p (sreg m)) (drop_conn s_ski p (breg m))
                    (drop_conn c_ski p (cref m)) I) as HB.
      cbn [step] in HB. rewrite Ep in HB. cbn [fst] in HB. apply HB.
      * simpl. rewrite (inv_sreg _ _ I), drop_conn_abs, <- H1. reflexivity.
      * simpl. rewrite (inv_breg _ _ I), drop_conn_abs, <- H3. reflexivity.
      * intros q. unfold isconn, find_peer. simpl peers. rewrite find_app'. fold (find_peer s q).
        change (memN q (p :: without p (conn m))) with (N.eqb q p || memN q (without p (conn m))).
        rewrite memN_without, (inv_conn _ _ I).
        destruct (N.eqb_spec q p) as [E|E].
        -- subst q. rewrite Ep. simpl. rewrite N.eqb_refl. reflexivity.
        -- unfold isconn. simpl. destruct (find_peer s q); [reflexivity|].
           destruct (N.eqb_spec p q); [congruence | reflexivity].
  - (* DiscoveryReply *)
    rewrite Hsil, app_nil_r, Hw, nm_completion_model, gone_ents_eq.
    destruct (reply_step_spec s p m0 Hok) as [_ [Hs [Hb _]]].
    destruct (reply_events s p m0 Hok) as [Hperm _].
    assert (Hsr : match model_completion s p m0 with Some d => map (complete_entry p d) (sreg m) | None => sreg m end =
                  abs (completed s p m0 (subs s))).
    { rewrite (inv_sreg _ _ I). unfold completed. destruct (model_completion s p m0) as [d|]; [|reflexivity]. apply abs_complete. }
    assert (Hbr : match model_completion s p m0 with Some d => map (complete_entry p d) (breg m) | None => breg m end =
                  abs (completed s p m0 (binds s))).
    { rewrite (inv_breg _ _ I). unfold completed. destruct (model_completion s p m0) as [d|]; [|reflexivity]. apply abs_complete. }
    rewrite Hsr, Hbr. split.
    + apply Inv_build; [exact I | | |].
      * rewrite not_of_entity_abs, Hs. reflexivity.
      * rewrite not_of_entity_abs, Hb. reflexivity.
      * intros q. rewrite (reply_isconn s p m0 q Hok). apply (inv_conn _ _ I).
    + replace (same_multiset eqb_obs_event _ _) with true; [reflexivity|]. symmetry.
      unfold entity_teardown_events. rewrite !of_entity_abs, !map_ev_abs.
      apply events_multiset.
      * apply Forall_app. split; apply Forall_forall; intros o Ho; apply in_map_iff in Ho; destruct Ho as [x [<- _]]; reflexivity.
      * apply Permutation_sym. exact Hperm.
  - (* DiscoveryNotify *)
    rewrite Hsil, app_nil_r.
    assert (H : subs (fst (step s (DiscoveryNotify p ctr ack m0))) = drop p (gone_of (snd (step s (DiscoveryNotify p ctr ack m0)))) (subs s) /\
                binds (fst (step s (DiscoveryNotify p ctr ack m0))) = drop p (gone_of (snd (step s (DiscoveryNotify p ctr ack m0)))) (binds s) /\
                addr_pres s (fst (step s (DiscoveryNotify p ctr ack m0))) /\
                Permutation (map norm_event (filter is_reg_event (snd (step s (DiscoveryNotify p ctr ack m0)))))
                  (map (ev_of s EvSub) (filter (hitE p (gone_of (snd (step s (DiscoveryNotify p ctr ack m0))))) (subs s)) ++
                   map (ev_of s EvBind) (filter (hitE p (gone_of (snd (step s (DiscoveryNotify p ctr ack m0))))) (binds s)))).
    { cbn [step]. unfold with_source.
      destruct (find_peer s p) as [pe|] eqn:Ep;
        [|simpl; rewrite !drop_nil, !hit_nil; repeat split; try apply addr_pres_refl; constructor].
      destruct (remote_feature pe (nm_addr None));
        [|simpl; rewrite !drop_nil, !hit_nil; repeat split; try apply addr_pres_refl; constructor].
      destruct (dm_ents m0) as [|d0 dr] eqn:Edm.
      - assert (G : forall err, gone_of (call_result p ctr ack err (nm_addr (p_addr pe)) (nm_addr (Some LOCAL_DEV))) = [] /\
                                filter is_reg_event (call_result p ctr ack err (nm_addr (p_addr pe)) (nm_addr (Some LOCAL_DEV))) = [])
          by (intros err; unfold call_result; destruct err; [|destruct ack]; split; reflexivity).
        destruct (G true) as [G1 G2]. cbn [fst snd]. rewrite G1, G2, !drop_nil, !hit_nil.
        repeat split; try apply addr_pres_refl; constructor.
      - rewrite <- Edm. destruct (notify_entries s p m0 (dm_ents m0)) as [[s1 evs] err] eqn:En.
        destruct (notify_entries_spec _ _ _ _ _ _ _ Hok En) as [_ [[Hs1 _ Hb1 _] _]].
        destruct (notify_entries_events _ _ _ _ _ _ _ Hok En) as [Hperm _].
        pose proof (notify_entries_addr _ _ _ _ _ _ _ En) as Ha.
        assert (G : gone_of (call_result p ctr ack err (nm_addr (p_addr pe)) (nm_addr (Some LOCAL_DEV))) = [] /\
                    filter is_reg_event (call_result p ctr ack err (nm_addr (p_addr pe)) (nm_addr (Some LOCAL_DEV))) = [])
          by (unfold call_result; destruct err; [|destruct ack]; split; reflexivity).
        destruct G as [G1 G2]. cbn [fst snd].
        rewrite gone_of_app, G1, app_nil_r, filter_app, G2, app_nil_r.
        split; [exact Hs1 | split; [exact Hb1 | split; [exact Ha | exact Hperm]]]. }
    destruct H as [Hs [Hb [Ha Hperm]]].
    split.
    + apply Inv_build; [exact I | | |].
      * rewrite (inv_sreg _ _ I), gone_ents_eq, not_of_entity_abs, Hs. reflexivity.
      * rewrite (inv_breg _ _ I), gone_ents_eq, not_of_entity_abs, Hb. reflexivity.
      * intros q. rewrite (addr_pres_isconn _ _ q Ha). apply (inv_conn _ _ I).
    + replace (same_multiset eqb_obs_event _ _) with true; [reflexivity|]. symmetry.
      unfold entity_teardown_events. rewrite Hw, (inv_sreg _ _ I), (inv_breg _ _ I), gone_ents_eq.
      rewrite !of_entity_abs, !map_ev_abs.
      apply events_multiset.
      * apply Forall_app. split; apply Forall_forall; intros o Ho; apply in_map_iff in Ho; destruct Ho as [x [<- _]]; reflexivity.
      * apply Permutation_sym. exact Hperm.
  - (* SubCall *)
    rewrite Hsil. split; [|reflexivity].
    apply Inv_build; [exact I | | |]; cbn [step]; unfold registry_call, with_source.
    + destruct (find_peer s p) as [pe|]; [|simpl; rewrite app_nil_r; apply (inv_sreg _ _ I)].
      destruct (remote_feature pe (nm_addr None)); [|simpl; rewrite app_nil_r; apply (inv_sreg _ _ I)].
      pose proof (add_subscription_events s pe c) as H. destruct (add_subscription s pe c) as [[s1 evs] err].
      destruct H as [_ [_ [_ [_ [_ [H _]]]]]]. cbn [fst snd]. rewrite added_app, added_call, app_nil_r, H, (inv_sreg _ _ I). reflexivity.
    + destruct (find_peer s p) as [pe|]; [|apply (inv_breg _ _ I)].
      destruct (remote_feature pe (nm_addr None)); [|apply (inv_breg _ _ I)].
      pose proof (add_subscription_events s pe c) as H. destruct (add_subscription s pe c) as [[s1 evs] err].
      destruct H as [H _]. cbn [fst]. rewrite H. apply (inv_breg _ _ I).
    + intros q. rewrite (inv_conn _ _ I). symmetry.
      destruct (find_peer s p) as [pe|]; [|reflexivity].
      destruct (remote_feature pe (nm_addr None)); [|reflexivity].
      pose proof (add_subscription_events s pe c) as H. destruct (add_subscription s pe c) as [[s1 evs] err].
      destruct H as [_ [H _]]. cbn [fst]. apply addr_pres_isconn. apply addr_pres_peers. exact H.
  - (* SubDelete *)
    rewrite Hsil. split; [|reflexivity].
    apply Inv_build; [exact I | | |]; rewrite ?after_delete_eq, ?Hw; cbn [step]; unfold registry_call, with_source.
    + destruct (find_peer s p) as [pe|] eqn:Ep; [|cbn [fst snd]; change (deleted_on EvSub []) with (@nil (eaddr * N)); rewrite del_filter_nil; apply (inv_sreg _ _ I)].
      rewrite <- (find_peer_ski _ _ _ Ep).
      destruct (remote_feature pe (nm_addr None));
        [|cbn [fst snd]; change (deleted_on EvSub []) with (@nil (eaddr * N)); rewrite del_filter_nil; apply (inv_sreg _ _ I)].
      pose proof (remove_subscription_events s pe c) as H. destruct (remove_subscription s pe c) as [[s1 evs] err].
      destruct H as [_ [_ [_ [_ [_ [H _]]]]]]. cbn [fst snd]. rewrite deleted_on_app, deleted_call, app_nil_r, H, (inv_sreg _ _ I). reflexivity.
    + destruct (find_peer s p) as [pe|]; [|apply (inv_breg _ _ I)].
      destruct (remote_feature pe (nm_addr None)); [|apply (inv_breg _ _ I)].
      pose proof (remove_subscription_events s pe c) as H. destruct (remove_subscription s pe c) as [[s1 evs] err].
      destruct H as [H _]. cbn [fst]. rewrite H. apply (inv_breg _ _ I).
    + intros q. rewrite (inv_conn _ _ I). symmetry.
      destruct (find_peer s p) as [pe|]; [|reflexivity].
      destruct (remote_feature pe (nm_addr None)); [|reflexivity].
      pose proof (remove_subscription_events s pe c) as H. destruct (remove_subscription s pe c) as [[s1 evs] err].
      destruct H as [_ [H _]]. cbn [fst]. apply addr_pres_isconn. apply addr_pres_peers. exact H.
  - (* BindCall *)
    rewrite Hsil. split; [|reflexivity].
    apply Inv_build; [exact I | | |]; cbn [step]; unfold registry_call, with_source.
    + destruct (find_peer s p) as [pe|]; [|apply (inv_sreg _ _ I)].
      destruct (remote_feature pe (nm_addr None)); [|apply (inv_sreg _ _ I)].
      pose proof (add_binding_events s pe c) as H. destruct (add_binding s pe c) as [[s1 evs] err].
      destruct H as [H _]. cbn [fst]. rewrite H. apply (inv_sreg _ _ I).
    + destruct (find_peer s p) as [pe|]; [|simpl; rewrite app_nil_r; apply (inv_breg _ _ I)].
      destruct (remote_feature pe (nm_addr None)); [|simpl; rewrite app_nil_r; apply (inv_breg _ _ I)].
      pose proof (add_binding_events s pe c) as H. destruct (add_binding s pe c) as [[s1 evs] err].
      destruct H as [_ [_ [_ [_ [_ [H _]]]]]]. cbn [fst snd]. rewrite added_app, added_call, app_nil_r, H, (inv_breg _ _ I). reflexivity.
    + intros q. rewrite (inv_conn _ _ I). symmetry.
      destruct (find_peer s p) as [pe|]; [|reflexivity].
      destruct (remote_feature pe (nm_addr None)); [|reflexivity].
      pose proof (add_binding_events s pe c) as H. destruct (add_binding s pe c) as [[s1 evs] err].
      destruct H as [_ [H _]]. cbn [fst]. apply addr_pres_isconn. apply addr_pres_peers. exact H.
  - (* BindDelete *)
    rewrite Hsil. split; [|reflexivity].
    apply Inv_build; [exact I | | |]; rewrite ?after_delete_eq, ?Hw; cbn [step]; unfold registry_call, with_source.
    + destruct (find_peer s p) as [pe|]; [|apply (inv_sreg _ _ I)].
      destruct (remote_feature pe (nm_addr None)); [|apply (inv_sreg _ _ I)].
      pose proof (remove_binding_events s pe c) as H. destruct (remove_binding s pe c) as [[s1 evs] err].
      destruct H as [H _]. cbn [fst]. rewrite H. apply (inv_sreg _ _ I).
    + destruct (find_peer s p) as [pe|] eqn:Ep; [|cbn [fst snd]; change (deleted_on EvBind []) with (@nil (eaddr * N)); rewrite del_filter_nil; apply (inv_breg _ _ I)].
      rewrite <- (find_peer_ski _ _ _ Ep).
      destruct (remote_feature pe (nm_addr None));
        [|cbn [fst snd]; change (deleted_on EvBind []) with (@nil (eaddr * N)); rewrite del_filter_nil; apply (inv_breg _ _ I)].
      pose proof (remove_binding_events s pe c) as H. destruct (remove_binding s pe c) as [[s1 evs] err].
      destruct H as [_ [_ [_ [_ [_ [H _]]]]]]. cbn [fst snd]. rewrite deleted_on_app, deleted_call, app_nil_r, H, (inv_breg _ _ I). reflexivity.
    + intros q. rewrite (inv_conn _ _ I). symmetry.
      destruct (find_peer s p) as [pe|]; [|reflexivity].
      destruct (remote_feature pe (nm_addr None)); [|reflexivity].
      pose proof (remove_binding_events s pe c) as H. destruct (remove_binding s pe c) as [[s1 evs] err].
      destruct H as [_ [H _]]. cbn [fst]. apply addr_pres_isconn. apply addr_pres_peers. exact H.
  - (* SetData *)
    rewrite Hsil, app_nil_r. split; [apply Inv_frame; auto|].
    replace (same_multiset eqb_obs_notify _ _) with true; [reflexivity|]. symmetry.
    rewrite Hw. cbn [step]. destruct (find_lfeat s e (Some f)) as [sf|]; [|reflexivity].
    destruct (fn_registered (lf_type sf) fn); [|reflexivity]. cbn [snd].
    rewrite (fanout_eq s m sf fn v (inv_sreg _ _ I)).
    rewrite (filter_all is_notify) by apply notify_all_notify. apply fanout_check.
  - (* Write *)
    rewrite Hw. pose proof (write_shape s p ctr ack src dst fn v) as Hws.
    destruct (step s (Write p ctr ack src dst fn v)) as [s1 out] eqn:Es. cbn [fst snd] in *.
    rewrite Hsil, app_nil_r. split.
    + pose proof (Inv_frame s m (Write p ctr ack src dst fn v) (cref m) I eq_refl) as HI. rewrite Es in HI. exact HI.
    + replace (same_multiset eqb_obs_notify _ _) with true; [reflexivity|]. symmetry.
      destruct Hws as [[Hacc [sf [Hlf Hn]]]|[Hacc Hn]]; rewrite Hacc.
      * rewrite Hlf, Hn, (fanout_eq s m sf fn v (inv_sreg _ _ I)). apply fanout_check.
      * rewrite Hn. reflexivity.
  - (* Disconnect *)
    pose proof (disconnect_spec s p Hok) as Hd.
    pose proof (device_teardown_check s m p I) as Hev.
    pose proof (disconnect_events s p Hok) as Hde.
    cbn [step]. rewrite Hev. cbn [app].
    destruct Hde as [EV [He [Hall _]]].
    rewrite silent_events by (rewrite He; apply Forall_app; split; [exact Hall | repeat constructor]).
    split; [|reflexivity].
    pose proof (Inv_build s m (Disconnect p) (without p (conn m)) (drop_conn s_ski p (sreg m)) (drop_conn s_ski p (breg m))
                  (drop_conn c_ski p (cref m)) I) as HB.
    cbn [step] in HB. destruct (disconnect s p) as [s0 evs]. cbn [fst snd] in *.
    destruct Hd as [[H1 H2 H3 H4] [Hok0 [Hnone [Hother _]]]].
    apply HB.
    + rewrite (inv_sreg _ _ I), drop_conn_abs, H1. reflexivity.
    + rewrite (inv_breg _ _ I), drop_conn_abs, H3. reflexivity.
    + intros q. rewrite memN_without, (inv_conn _ _ I). unfold isconn.
      destruct (N.eqb_spec q p) as [E|E]; [subst q; rewrite Hnone; reflexivity|].
      rewrite (Hother q E). reflexivity.
  - (* ListSubs *)
    split; [apply Inv_frame; auto|]. cbn [step snd]. rewrite (inv_sreg _ _ I), listing_check. reflexivity.
  - (* ListBinds *)
    split; [apply Inv_frame; auto|]. cbn [step snd]. rewrite (inv_breg _ _ I), listing_check. reflexivity.
  - (* LocalSubscribe *) rewrite Hsil. split; [apply Inv_frame; auto | reflexivity].
  - (* LocalBind *) rewrite Hsil. split; [apply Inv_frame; auto | reflexivity].
  - (* HasLocalSub *) split; [apply Inv_frame; auto | reflexivity].
  - (* HasLocalBind *) split; [apply Inv_frame; auto | reflexivity].
  - (* ReadData *) rewrite Hsil. split; [apply Inv_frame; auto | reflexivity].
  - (* Resolve *)
    split; [apply Inv_frame; auto|]. cbn [step snd].
    replace (eqb_list eqb_ret _ _) with true; [reflexivity|]. symmetry. simpl.
    rewrite (inv_conn _ _ I). unfold isconn at 1. 
    assert (G1 : forall b : bool, Bool.eqb b b = true) by (intros []; reflexivity).
    rewrite G1. simpl. rewrite andb_true_r.
    destruct dev as [d|]; [|reflexivity].
    unfold resolvable, peer_by_addr. rewrite Hw, find_existsb.
    rewrite (existsb_ext_in (fun pe => eqb_optN (p_addr pe) (Some d) && memN (p_ski pe) (conn m))
                            (fun x => eqb_optN (p_addr x) (Some d))).
    + apply G1.
    + intros pe Hpe. rewrite (inv_conn _ _ I), (In_isconn s pe Hpe). apply andb_true_r.
  - (* LocalUnsubscribe *) rewrite Hsil. split; [apply Inv_frame; auto | reflexivity].
  - (* LocalUnbind *) rewrite Hsil. split; [apply Inv_frame; auto | reflexivity].
Qed.
