(* C11 — a small program logic for Model/Slices.v: the memory after a program is the replay
   of its effect list; effects that only allocate, or write locations allocated after a
   bound, leave everything below the bound as it was (the frame property all C11 theorems
   rest on); Hoare-style rules to establish "every effect of this program is of that kind"
   compositionally. *)
From Verif Require Import Base.Prelude Model.Slices.

Lemma exec_replay : forall A (p : prog A) m a m' l, exec p m = (a, m', l) -> m' = replay l m.
Proof.
  induction p as [a0 | e k IH | k IH]; intros m a m' l H; simpl in H.
  - inversion H; subst. reflexivity.
  - destruct (exec k (apply_eff m e)) as [[a1 m1] l1] eqn:E. inversion H; subst.
    simpl. eapply IH. exact E.
  - eapply IH. exact H.
Qed.

Lemma exec_bind : forall A B (p : prog A) (f : A -> prog B) m,
  exec (bind p f) m =
  let '(a, m1, l1) := exec p m in
  let '(b, m2, l2) := exec (f a) m1 in (b, m2, l1 ++ l2).
Proof.
  induction p as [a0 | e k IH | k IH]; intros f m; simpl.
  - destruct (exec (f a0) m) as [[b m2] l2]. reflexivity.
  - rewrite IH. destruct (exec k (apply_eff m e)) as [[a1 m1] l1].
    destruct (exec (f a1) m1) as [[b m2] l2]. reflexivity.
  - apply IH.
Qed.

Lemma replay_app : forall l1 l2 m, replay (l1 ++ l2) m = replay l2 (replay l1 m).
Proof. intros. unfold replay. apply fold_left_app. Qed.

(* ---- list updates ---- *)
Lemma upd_nth_length : forall A (l : list A) i x, length (upd_nth l i x) = length l.
Proof. induction l; destruct i; simpl; intros; auto. Qed.

Lemma nth_upd_nth_other : forall A (l : list A) i j x d, i <> j -> nth j (upd_nth l i x) d = nth j l d.
Proof.
  induction l; intros i j x d Hij; destruct i, j; simpl; auto; try congruence.
Qed.

Lemma nth_app_lt : forall A (l r : list A) i d, (i < length l)%nat -> nth i (l ++ r) d = nth i l d.
Proof. intros. apply app_nth1. assumption. Qed.

(* ---- sizes only grow ---- *)
Definition narr (m : mem) : nat := length (arrays m).
Definition nobj (m : mem) : nat := length (objs m).
Definition mono (m m' : mem) : Prop := (narr m <= narr m')%nat /\ (nobj m <= nobj m')%nat.

Lemma mono_refl m : mono m m.
Proof. split; auto. Qed.
Lemma mono_trans a b c : mono a b -> mono b c -> mono a c.
Proof. unfold mono. intros [? ?] [? ?]. split; lia. Qed.

Lemma apply_mono m e : mono m (apply_eff m e).
Proof.
  unfold mono, narr, nobj. destruct e; simpl; rewrite ?app_length, ?upd_nth_length; simpl; lia.
Qed.

Lemma replay_mono : forall l m, mono m (replay l m).
Proof.
  induction l; intros m; simpl.
  - apply mono_refl.
  - eapply mono_trans. apply apply_mono. apply IHl.
Qed.

(* ---- validity ---- *)
Definition valid (m : mem) (sl : slice) : Prop := (s_arr sl < narr m)%nat.

(* every outer struct holds a valid header, the stored pointer points to an outer struct,
   array 0 exists *)
Definition wf (m : mem) : Prop :=
  (forall p, (p < nobj m)%nat -> valid m (obj m p)) /\
  (forall p, storep m = Some p -> (p < nobj m)%nat) /\
  (0 < narr m)%nat.

Lemma valid_mono m m' sl : mono m m' -> valid m sl -> valid m' sl.
Proof. unfold mono, valid. intros [? ?] ?. lia. Qed.

Lemma valid_nil m : wf m -> valid m nil_slice.
Proof. intros [_ [_ H]]. exact H. Qed.

Lemma wf_mem0 : wf mem0.
Proof.
  unfold wf, mem0, nobj, narr; simpl. repeat split; intros; try lia; try discriminate.
Qed.

Section Bounds.
  (* the sizes of the two heaps when the operation at hand began *)
  Variables ba bo : nat.

  (* an effect this operation may perform at memory m without touching anything that existed
     when it began, and keeping the memory well-formed; so = may it replace the stored pointer *)
  Definition ok_eff (so : bool) (m : mem) (e : eff) : Prop :=
    match e with
    | EAllocArr _ => True
    | EWriteCell a _ _ => (ba <= a)%nat
    | EAllocObj sl => valid m sl
    | EWriteObj p sl => (bo <= p)%nat /\ valid m sl
    | EStore None => so = true
    | EStore (Some p) => so = true /\ (p < nobj m)%nat
    end.

  Fixpoint oks (so : bool) (m : mem) (l : list eff) : Prop :=
    match l with
    | [] => True
    | e :: r => ok_eff so m e /\ oks so (apply_eff m e) r
    end.

  Lemma oks_app so : forall l1 l2 m, oks so m (l1 ++ l2) <-> oks so m l1 /\ oks so (replay l1 m) l2.
  Proof.
    induction l1; intros l2 m; simpl.
    - tauto.
    - rewrite IHl1. tauto.
  Qed.

  Lemma ok_eff_weaken m e : ok_eff false m e -> ok_eff true m e.
  Proof. destruct e as [ | | | | [p|]]; simpl; intuition discriminate. Qed.

  Lemma oks_weaken : forall l m, oks false m l -> oks true m l.
  Proof. induction l; simpl; intros m H; auto. destruct H. split; auto using ok_eff_weaken. Qed.

  Definition good (m : mem) : Prop := wf m /\ (ba <= narr m)%nat /\ (bo <= nobj m)%nat.

  Lemma obj_app_old m sl p : (p < nobj m)%nat -> nth p (objs m ++ [sl]) nil_slice = obj m p.
  Proof. intros. unfold obj. apply app_nth1. exact H. Qed.

  Lemma apply_good so m e : good m -> ok_eff so m e -> good (apply_eff m e).
  Proof.
    intros [[Hobj [Hst Hz]] [Hba Hbo]] Hok.
    pose proof (apply_mono m e) as Hm.
    split; [ | destruct Hm; split; lia ].
    destruct e as [cs | a i c | sl | p sl | p]; simpl in Hok.
    - (* EAllocArr *)
      (split; [|split]); unfold valid, obj, nobj, narr in *; simpl in *; intros.
      + specialize (Hobj p H). rewrite app_length. simpl. lia.
      + apply Hst; assumption.
      + rewrite app_length. simpl. lia.
    - (* EWriteCell *)
      (split; [|split]); unfold valid, obj, nobj, narr in *; simpl in *; intros.
      + rewrite upd_nth_length. apply Hobj. assumption.
      + apply Hst; assumption.
      + rewrite upd_nth_length. assumption.
    - (* EAllocObj *)
      (split; [|split]); unfold valid, obj, nobj, narr in *; simpl in *; intros.
      + rewrite app_length in H. simpl in H.
        destruct (Nat.eq_dec p (length (objs m))) as [-> | Hne].
        * rewrite app_nth2 by lia. rewrite Nat.sub_diag. simpl. exact Hok.
        * rewrite app_nth1 by lia. apply Hobj. lia.
      + rewrite app_length. simpl. specialize (Hst p H). lia.
      + assumption.
    - (* EWriteObj *)
      destruct Hok as [Hp Hv].
      (split; [|split]); unfold valid, obj, nobj, narr in *; simpl in *; intros.
      + rewrite upd_nth_length in H.
        destruct (Nat.eq_dec p p0) as [<- | Hne].
        * clear Hobj Hst Hm Hbo Hp. revert p H. generalize (objs m). induction l; intros p H; simpl in *; [lia|].
          destruct p; simpl; [exact Hv|]. apply IHl; lia.
        * rewrite nth_upd_nth_other by assumption. apply Hobj. assumption.
      + rewrite upd_nth_length. apply Hst; assumption.
      + assumption.
    - (* EStore *)
      (split; [|split]); unfold valid, obj, nobj, narr in *; simpl in *; intros.
      + apply Hobj; assumption.
      + destruct p as [p'|]; [|discriminate]. inversion H; subst. destruct Hok. assumption.
      + assumption.
  Qed.

  Lemma oks_good so : forall l m, good m -> oks so m l -> good (replay l m).
  Proof.
    induction l; intros m Hg Ho; simpl in *; auto.
    destruct Ho as [H1 H2]. apply IHl; auto. eapply apply_good; eauto.
  Qed.

  (* ---- the frame property ---- *)

  (* the part of the memory an operation's effects cannot reach: the arrays and outer structs
     that existed when it began *)
  Definition agree (m m' : mem) : Prop :=
    (forall a, (a < ba)%nat -> nth a (arrays m') [] = nth a (arrays m) []) /\
    (forall p, (p < bo)%nat -> nth p (objs m') nil_slice = nth p (objs m) nil_slice).

  Lemma agree_refl m : agree m m.
  Proof. split; auto. Qed.

  Lemma agree_trans a b c : agree a b -> agree b c -> agree a c.
  Proof. intros [A1 A2] [B1 B2]. split; intros; [rewrite B1, A1 | rewrite B2, A2]; auto. Qed.

  Lemma apply_agree so m e : (ba <= narr m)%nat -> (bo <= nobj m)%nat -> ok_eff so m e -> agree m (apply_eff m e).
  Proof.
    intros Hba Hbo Hok. unfold narr, nobj in *.
    destruct e as [cs | a i c | sl | p sl | p]; simpl in Hok; split; simpl; intros; auto.
    - apply app_nth1. lia.
    - apply nth_upd_nth_other. lia.
    - apply app_nth1. lia.
    - apply nth_upd_nth_other. destruct Hok. lia.
  Qed.

  Lemma oks_agree so : forall l m, good m -> oks so m l -> agree m (replay l m).
  Proof.
    induction l; intros m Hg Ho; simpl in *.
    - apply agree_refl.
    - destruct Ho as [H1 H2]. eapply agree_trans.
      + destruct Hg as [_ [? ?]]. eapply apply_agree; eauto.
      + apply IHl; auto. eapply apply_good; eauto.
  Qed.

  (* ---- Hoare triples: every effect is ok, the memory stays good, sizes only grow ---- *)
  Definition triple {A} (P : mem -> Prop) (p : prog A) (Q : A -> mem -> Prop) : Prop :=
    forall m, good m -> P m ->
      match exec p m with
      | (a, m', l) => oks false m l /\ Q a m'
      end.

  Lemma triple_post {A} (P : mem -> Prop) (p : prog A) (Q : A -> mem -> Prop) m a m' l :
    triple P p Q -> good m -> P m -> exec p m = (a, m', l) ->
    oks false m l /\ Q a m' /\ good m' /\ mono m m'.
  Proof.
    intros T Hg HP E. specialize (T m Hg HP). rewrite E in T. destruct T as [Ho HQ].
    pose proof (exec_replay _ _ _ _ _ _ E) as ->.
    split; [exact Ho|]. split; [exact HQ|]. split.
    - eapply oks_good; eauto.
    - apply replay_mono.
  Qed.

  Lemma triple_ret {A} (P : mem -> Prop) (a : A) (Q : A -> mem -> Prop) :
    (forall m, good m -> P m -> Q a m) -> triple P (Ret a) Q.
  Proof. intros H m Hg HP. simpl. split; auto. Qed.

  Lemma triple_bind {A B} (P : mem -> Prop) (p : prog A) (R : A -> mem -> Prop) (f : A -> prog B) (Q : B -> mem -> Prop) :
    triple P p R -> (forall a, triple (R a) (f a) Q) -> triple P (bind p f) Q.
  Proof.
    intros Tp Tf m Hg HP. rewrite exec_bind.
    destruct (exec p m) as [[a m1] l1] eqn:E1.
    destruct (triple_post _ _ _ _ _ _ _ Tp Hg HP E1) as [Ho1 [HR [Hg1 _]]].
    destruct (exec (f a) m1) as [[b m2] l2] eqn:E2.
    destruct (triple_post _ _ _ _ _ _ _ (Tf a) Hg1 HR E2) as [Ho2 [HQ _]].
    split; auto. apply oks_app. split; auto.
    rewrite <- (exec_replay _ _ _ _ _ _ E1). exact Ho2.
  Qed.

  Lemma triple_emit (P : mem -> Prop) e (Q : unit -> mem -> Prop) :
    (forall m, good m -> P m -> ok_eff false m e /\ Q tt (apply_eff m e)) -> triple P (emit e) Q.
  Proof. intros H m Hg HP. simpl. destruct (H m Hg HP). repeat split; auto. Qed.

  Lemma triple_get {A} (P : mem -> Prop) (f : mem -> A) (Q : A -> mem -> Prop) :
    (forall m, good m -> P m -> Q (f m) m) -> triple P (get f) Q.
  Proof. intros H m Hg HP. simpl. split; auto. Qed.

  Lemma triple_conseq {A} (P P' : mem -> Prop) (p : prog A) (Q Q' : A -> mem -> Prop) :
    triple P' p Q' -> (forall m, good m -> P m -> P' m) -> (forall a m, good m -> Q' a m -> Q a m) ->
    triple P p Q.
  Proof.
    intros T HP HQ m Hg Hp.
    destruct (exec p m) as [[a m'] l] eqn:E.
    destruct (triple_post _ _ _ _ _ _ _ T Hg (HP m Hg Hp) E) as [Ho [Hq [Hg' _]]].
    split; auto.
  Qed.

  (* facts that survive growth can be carried across any program *)
  Definition stable (F : mem -> Prop) : Prop := forall m m', mono m m' -> F m -> F m'.

  Lemma triple_frame {A} (P : mem -> Prop) (p : prog A) (Q : A -> mem -> Prop) (F : mem -> Prop) :
    triple P p Q -> stable F -> triple (fun m => P m /\ F m) p (fun a m => Q a m /\ F m).
  Proof.
    intros T HF m Hg [HP Hf].
    destruct (exec p m) as [[a m'] l] eqn:E.
    destruct (triple_post _ _ _ _ _ _ _ T Hg HP E) as [Ho [Hq [_ Hm]]].
    split; auto. split; auto. eapply HF; eauto.
  Qed.

  Lemma stable_valid sl : stable (fun m => valid m sl).
  Proof. intros m m' Hm H. eapply valid_mono; eauto. Qed.

  Lemma stable_const (X : Prop) : stable (fun _ => X).
  Proof. intros m m' _ H. exact H. Qed.

  Lemma stable_and (F G : mem -> Prop) : stable F -> stable G -> stable (fun m => F m /\ G m).
  Proof. intros HF HG m m' Hm [? ?]. split; eauto. Qed.
End Bounds.
