(* C04 — a remote write overlapped by a local update (Model/WriteStore.v [Overlap]): for the
   pairs the runner releases together (identified partial updates naming disjoint identifiers)
   the two serial orders give the same answers and the same data, the model's order satisfies the
   monitor, and every trace of the extended model is accepted. *)
From Verif Require Import Base.Prelude Model.Schema Model.Update Model.FunctionStore Model.WriteStore
  Spec.UpdateSpec Spec.WriteSpec
  Proofs.UpdateBasics Proofs.UpdateRefine Proofs.UpdateStep Proofs.UpdateRun Proofs.WriteProofs Proofs.WriteRun.
From Coq Require Import Sorting.Sorted Sorting.Permutation.

Transparent wf_update spec_write accept_ok.

Lemma perm_eqb_perm a b : Permutation a b -> perm_eqb a b = true.
Proof.
  intros P. unfold perm_eqb. rewrite (Permutation_length P), Nat.eqb_refl. cbn [andb].
  apply andb_true_iff. split; apply forallb_forall; intros x Hx; apply mem_item_In.
  - eapply Permutation_in; eassumption.
  - eapply Permutation_in; [apply Permutation_sym; exact P | exact Hx].
Qed.

Definition insc (s : st) : Prop :=
  wf_schema (sch s) = true /\ lwf (sch s) (storel s) /\ ordered (sch s) (storel s) = true.

Definition with_store (s : st) (d : list item) : st := {| sch := sch s; direct := direct s; store := Some d |}.

Section Ov.
  Variable sc : schema.
  Hypothesis Hwf : wf_schema sc = true.
  Notation lwf := (lwf sc).
  Notation ch := (changeable sc).

  Lemma merge_shape_parts u : merge_shape sc u = true ->
    is_some (u_fp u) = true /\ filter_data (u_fp u) = None /\ u_fd u = None /\
    wf_items sc (u_new u) = true /\ (exists n0 r, u_new u = n0 :: r /\ exists k, key_of sc n0 = Some k).
  Proof.
    unfold merge_shape. intros H. rewrite !andb_true_iff in H. destruct H as [[[[H1 H2] H3] H4] H5].
    split; [exact H1|]. split; [destruct (filter_data (u_fp u)); [discriminate | reflexivity]|].
    split; [destruct (u_fd u); [discriminate | reflexivity]|]. split; [exact H4|].
    destruct (u_new u) as [|n0 r] eqn:E; [discriminate|]. exists n0, r. split; [reflexivity|].
    pose proof (wf_items_lwf sc _ H4) as [_ [Hc _]]. inversion Hc. assumption.
  Qed.

  Lemma merge_shape_wf u : merge_shape sc u = true -> wf_update sc false u = true.
  Proof.
    intros H. destruct (merge_shape_parts u H) as [_ [Hfp [Hfd [Hwi _]]]].
    unfold wf_update. rewrite Hfd, Hfp, Hwi. pose proof Hwi as Hwi2. unfold wf_items in Hwi2. apply andb_true_iff in Hwi2.
    destruct Hwi2 as [Hio _]. rewrite Hio. reflexivity.
  Qed.

  Lemma merge_shape_not_full u d : merge_shape sc u = true -> negb d && is_full true u = false.
  Proof.
    intros H. destruct (merge_shape_parts u H) as [Hs _]. unfold is_full. destruct (u_fp u); [cbn; apply andb_false_r | discriminate].
  Qed.

  (* the local update on lists: what the engine computes is the specification's list *)
  Lemma merged_spec_local ex u : lwf ex -> ordered sc ex = true -> merge_shape sc u = true ->
    merged sc ex (u_new u) = spec_local sc u ex.
  Proof.
    intros Hex Ho Hu. destruct (merge_shape_parts u Hu) as [_ [_ [_ [Hwi _]]]]. pose proof (wf_items_lwf sc _ Hwi) as Hn.
    unfold merged, spec_local. f_equal.
    - apply map_ext_in. intros y Hy. pose proof Hex as [Hlen [Hc _]]. rewrite Forall_forall in Hlen, Hc.
      destruct (Hc y Hy) as [k Hk]. rewrite (mg_mgk sc Hwf _ y k Hn (Hlen y Hy) Hk), Hk. reflexivity.
    - rewrite (fresh_of_spec sc Hwf ex (u_new u) _ (Inv_of_list sc ex Hex Ho) Hn). apply filter_ext_in. intros x Hx.
      pose proof Hn as [_ [Hc _]]. rewrite Forall_forall in Hc. destruct (Hc x Hx) as [k Hk]. rewrite Hk. reflexivity.
  Qed.

  (* lookups after a local update *)
  Lemma lfind_local ex u k : lwf ex -> ordered sc ex = true -> merge_shape sc u = true ->
    lfind sc k (isort sc (merged sc ex (u_new u))) =
      match lfind sc k (u_new u) with
      | Some x => Some (match lfind sc k ex with Some y => overlay x y | None => x end)
      | None => lfind sc k ex
      end.
  Proof.
    intros Hex Ho Hu. destruct (merge_shape_parts u Hu) as [_ [_ [_ [Hwi _]]]]. pose proof (wf_items_lwf sc _ Hwi) as Hn.
    pose proof (Inv_of_list sc ex Hex Ho) as HI.
    rewrite (lfind_perm sc (merged sc ex (u_new u)) _ k (Permutation_sym (isort_perm sc _)) (lwf_merged sc Hwf _ _ _ HI Hn)).
    rewrite (lfind_merged sc Hwf _ _ _ HI Hn k), <- !lfind_of_list. reflexivity.
  Qed.

  (* lookups after an accepted remote write *)
  Lemma lfind_remote ex new k : lwf ex -> UpdateRefine.lwf sc new ->
    lfind sc k (map (gm sc new) ex) = option_map (gm sc new) (lfind sc k ex).
  Proof. intros Hex Hn. apply lfind_map_kp; [apply (kp_gm sc Hwf); exact Hn | apply Hex]. Qed.

  (* acceptance of an identified remote write, in terms of lookups *)
  Definition okw (new l : list item) : bool := okdat sc None new l && negb (nu sc None new l).

  Lemma nu_lfind new l :
    nu sc None new l = existsb (fun x => match key_of sc x with Some k => negb (is_some (lfind sc k l)) | None => false end) new.
  Proof. unfold nu. cbn [filter_data]. apply existsb_eq. intros x _. destruct (key_of sc x); [rewrite is_some_lfind|]; reflexivity. Qed.

  Lemma okdat_lfind new l n0 r k0 : new = n0 :: r -> key_of sc n0 = Some k0 -> lwf l -> UpdateRefine.lwf sc new ->
    okdat sc None new l =
      forallb (fun x => match key_of sc x with
                        | Some k => match lfind sc k l with Some y => ch y | None => true end
                        | None => true end) new.
  Proof.
    intros En Hk0 Hl Hn. apply Bool.eq_true_iff_eq. unfold okdat. rewrite !forallb_forall.
    assert (Ha : forall y, addr_dat sc None new y = match key_of sc y with Some k => mem_key k (keys_of sc new) | None => false end).
    { intros y. unfold addr_dat. cbn [filter_data]. rewrite En, Hk0. reflexivity. }
    split.
    - intros H x Hx. destruct (key_of sc x) as [k|] eqn:Ek; [|reflexivity]. destruct (lfind sc k l) as [y|] eqn:Ey; [|reflexivity].
      apply (lfind_Some sc l k y Hl) in Ey. destruct Ey as [Hy Hky]. specialize (H y Hy). rewrite Ha, Hky in H.
      assert (Hm : mem_key k (keys_of sc new) = true) by (apply mem_key_In; eapply In_keys_of; eassumption).
      rewrite Hm in H. exact H.
    - intros H y Hy. rewrite Ha. destruct (key_of sc y) as [k|] eqn:Ek; [|reflexivity].
      destruct (mem_key k (keys_of sc new)) eqn:Em; [|reflexivity]. cbn [negb orb].
      apply mem_key_In in Em. apply keys_of_In in Em. destruct Em as [x [Hx Hkx]]. specialize (H x Hx). rewrite Hkx in H.
      assert (E : lfind sc k l = Some y) by (apply (lfind_Some sc l k y Hl); split; assumption). rewrite E in H. exact H.
  Qed.

  Lemma okw_determined new l1 l2 n0 r k0 : new = n0 :: r -> key_of sc n0 = Some k0 -> lwf l1 -> lwf l2 -> UpdateRefine.lwf sc new ->
    (forall k, In k (keys_of sc new) -> lfind sc k l1 = lfind sc k l2) -> okw new l1 = okw new l2.
  Proof.
    intros En Hk0 H1 H2 Hn Hsame. unfold okw. rewrite (okdat_lfind new l1 n0 r k0 En Hk0 H1 Hn), (okdat_lfind new l2 n0 r k0 En Hk0 H2 Hn), !nu_lfind.
    f_equal; [apply forallb_eq | f_equal; apply existsb_eq]; intros x Hx; destruct (key_of sc x) as [k|] eqn:Ek; try reflexivity;
      rewrite (Hsame k (In_keys_of sc x new k Hx Ek)); reflexivity.
  Qed.
End Ov.

(* ---------------------------------------------------------------- the two updates as the store sees them *)

Lemma insc_with_store s d : wf_schema (sch s) = true -> lwf (sch s) d -> ordered (sch s) d = true -> insc (with_store s d).
Proof. intros H1 H2 H3. unfold insc, with_store. cbn. auto. Qed.

(* the local update *)
Lemma local_merge_step s l : insc s -> merge_shape (sch s) l = true ->
  update_data s false true l =
    (with_store s (isort (sch s) (merged (sch s) (storel s) (u_new l))),
     [Res 0; Ret (isort (sch s) (merged (sch s) (storel s) (u_new l)))]) /\
  insc (with_store s (isort (sch s) (merged (sch s) (storel s) (u_new l)))).
Proof.
  intros [Hwf [Hl Ho]] Hm. destruct (merge_shape_parts (sch s) l Hm) as [_ [Hfp [Hfd [Hwi _]]]].
  pose proof (Inv_merge (sch s) Hwf _ _ _ (Inv_of_list (sch s) _ Hl Ho) (wf_items_lwf (sch s) _ Hwi)) as [Hl2 [Ho2 _]].
  split; [|apply insc_with_store; assumption].
  unfold update_data. rewrite (merge_shape_not_full (sch s) l (direct s) Hm).
  change (match store s with Some l0 => l0 | None => [] end) with (storel s).
  unfold update_list, after_delete. rewrite Hfd. cbn [filter_data].
  rewrite (apply_new_fp_none (sch s) _ _ _ Hfp), (apply_new_merge (sch s) Hwf _ _ Hwi). reflexivity.
Qed.

(* the remote write *)
Lemma remote_merge_step s w : insc s -> merge_shape (sch s) w = true ->
  update_data s true true w =
    (if okw (sch s) (u_new w) (storel s)
     then (with_store s (map (gm (sch s) (u_new w)) (storel s)), [Res 0; Ret (map (gm (sch s) (u_new w)) (storel s))])
     else (s, [Res 1])) /\
  insc (with_store s (map (gm (sch s) (u_new w)) (storel s))) /\
  spec_write (sch s) false w (storel s) = map (gm (sch s) (u_new w)) (storel s).
Proof.
  intros [Hwf [Hl Ho]] Hm. destruct (merge_shape_parts (sch s) w Hm) as [_ [Hfp [Hfd [Hwi [n0 [r [En [k0 Hk0]]]]]]]].
  pose proof (wf_items_lwf (sch s) _ Hwi) as Hn.
  assert (Hsw : spec_write (sch s) false w (storel s) = map (gm (sch s) (u_new w)) (storel s)).
  { unfold spec_write. unfold spec_del. rewrite Hfd. cbn [filter_data]. rewrite spec_dat_form. apply map_ext. intros y.
    unfold gdat. rewrite Hfp, En, Hk0. reflexivity. }
  destruct (map_kp_wf (sch s) (gm (sch s) (u_new w)) _ (kp_gm (sch s) Hwf _ Hn) Hl Ho) as [Hl2 Ho2].
  split; [|split; [apply insc_with_store; assumption | exact Hsw]].
  unfold update_data. rewrite (merge_shape_not_full (sch s) w (direct s) Hm).
  change (match store s with Some l0 => l0 | None => [] end) with (storel s).
  destruct (update_list (sch s) true (storel s) (u_new w) (u_fp w) (u_fd w)) as [[d ok]|] eqn:E.
  - destruct (remote_write (sch s) Hwf _ _ _ _ Hl Ho (merge_shape_wf (sch s) w Hm) E) as [Hok Hd]. cbv zeta in Hok.
    assert (Hod : okdel (sch s) (u_fd w) (storel s) = true) by (apply okdel_none; rewrite Hfd; reflexivity).
    rewrite Hod in Hok. cbn [andb] in Hok.
    assert (Hsd : spec_del (sch s) (u_fd w) (storel s) = storel s) by (unfold spec_del; rewrite Hfd; reflexivity).
    rewrite Hsd in Hok.
    assert (Hokw : ok = okw (sch s) (u_new w) (storel s)).
    { rewrite Hok. unfold okw, okdat, nu, addr_dat. rewrite Hfp. reflexivity. }
    rewrite <- Hokw. destruct ok; [|reflexivity]. rewrite (Hd eq_refl), Hsw. reflexivity.
  - exfalso. unfold update_list, after_delete in E. rewrite Hfd in E. cbn [filter_data] in E.
    unfold apply_new in E. rewrite Hfp, En in E.
    assert (Hid : has_identifiers (sch s) n0 = true) by (rewrite has_identifiers_key, Hk0; reflexivity).
    rewrite Hid in E. cbn [negb] in E. destruct (merge (sch s) true (storel s) (n0 :: r)) as [d0 ok0]. discriminate.
Qed.

(* ---------------------------------------------------------------- commutation *)

Definition code (out : list obs) : obs := hd (Res 2) out.

Definition write_then_local (s : st) (w l : upd) : st * obs * obs :=
  let '(s1, o1) := update_data s true true w in
  let '(s2, o2) := update_data s1 false true l in (s2, code o1, code o2).

Definition local_then_write (s : st) (w l : upd) : st * obs * obs :=
  let '(s1, o2) := update_data s false true l in
  let '(s2, o1) := update_data s1 true true w in (s2, code o1, code o2).

Theorem overlap_commutes s w l : insc s -> overlap_ok (sch s) w l = true ->
  let '(a, cw, cl) := write_then_local s w l in
  let '(b, cw', cl') := local_then_write s w l in
  cw = cw' /\ cl = Res 0 /\ cl' = Res 0 /\ insc a /\ insc b /\
  forall k, lfind (sch s) k (storel a) = lfind (sch s) k (storel b).
Proof.
  intros Hs Hov. unfold overlap_ok in Hov. rewrite !andb_true_iff in Hov. destruct Hov as [[Hmw Hml] Hdis].
  pose proof Hs as [Hwf [Hl Ho]].
  destruct (merge_shape_parts (sch s) w Hmw) as [_ [_ [_ [Hwiw [n0 [r [En [k0 Hk0]]]]]]]].
  destruct (merge_shape_parts (sch s) l Hml) as [_ [_ [_ [Hwil _]]]].
  pose proof (wf_items_lwf (sch s) _ Hwiw) as Hnw. pose proof (wf_items_lwf (sch s) _ Hwil) as Hnl.
  (* identifiers of the write are not identifiers of the local update *)
  assert (Hd1 : forall k, In k (keys_of (sch s) (u_new w)) -> lfind (sch s) k (u_new l) = None).
  { intros k Hk. unfold disjoint_keys in Hdis. rewrite forallb_forall in Hdis. specialize (Hdis k Hk).
    apply negb_true_iff in Hdis. apply lfind_None. apply mem_key_false. exact Hdis. }
  assert (Hd2 : forall k x, lfind (sch s) k (u_new l) = Some x -> lfind (sch s) k (u_new w) = None).
  { intros k x Hx. destruct (lfind (sch s) k (u_new w)) as [z|] eqn:Ez; [|reflexivity]. exfalso.
    apply lfind_key in Ez. destruct Ez as [Hz Hkz]. rewrite (Hd1 k (In_keys_of (sch s) z _ k Hz Hkz)) in Hx. discriminate. }
  (* order 1: write, then local update *)
  destruct (remote_merge_step s w Hs Hmw) as [Ew [Hs1 _]].
  destruct (local_merge_step s l Hs Hml) as [El Hs2].
  unfold write_then_local, local_then_write. rewrite Ew, El.
  set (d2 := isort (sch s) (merged (sch s) (storel s) (u_new l))) in *.
  destruct (remote_merge_step (with_store s d2) w Hs2 Hmw) as [Ew2 [Hs21 _]]. cbn [sch direct with_store] in Ew2, Hs21.
  change (storel (with_store s d2)) with d2 in Ew2, Hs21.
  rewrite Ew2.
  assert (Hsame : okw (sch s) (u_new w) d2 = okw (sch s) (u_new w) (storel s)).
  { apply (okw_determined (sch s) _ _ _ n0 r k0 En Hk0 (proj1 (proj2 Hs2)) Hl Hnw).
    intros k Hk. unfold d2. cbn [storel store with_store]. rewrite (lfind_local (sch s) Hwf _ l k Hl Ho Hml), (Hd1 k Hk). reflexivity. }
  rewrite Hsame. destruct (okw (sch s) (u_new w) (storel s)).
  - (* accepted in both orders *)
    set (d1 := map (gm (sch s) (u_new w)) (storel s)) in *.
    destruct (local_merge_step (with_store s d1) l Hs1 Hml) as [El1 Hs12]. cbn [sch direct with_store] in El1, Hs12.
    change (storel (with_store s d1)) with d1 in El1, Hs12. rewrite El1. cbn [code hd].
    split; [reflexivity|]. split; [reflexivity|]. split; [reflexivity|].
    split; [exact Hs12|]. split; [exact Hs21|].
    intros k. cbn [storel store with_store].
    rewrite (lfind_local (sch s) Hwf d1 l k (proj1 (proj2 Hs1)) (proj2 (proj2 Hs1)) Hml).
    rewrite (lfind_remote (sch s) Hwf d2 _ k (proj1 (proj2 Hs2)) Hnw).
    assert (Hd1l : lfind (sch s) k d1 = option_map (gm (sch s) (u_new w)) (lfind (sch s) k (storel s))).
    { unfold d1. apply (lfind_remote (sch s) Hwf _ _ k Hl Hnw). }
    rewrite !Hd1l.
    unfold d2. rewrite (lfind_local (sch s) Hwf _ l k Hl Ho Hml).
    destruct (lfind (sch s) k (u_new l)) as [x|] eqn:Ex.
    + (* named by the local update: the write leaves such an element alone *)
      pose proof (Hd2 k x Ex) as Hnw0.
      assert (Hgm : forall z, key_of (sch s) z = Some k -> gm (sch s) (u_new w) z = z).
      { intros z Hz. unfold gm. rewrite Hz, Hnw0. reflexivity. }
      cbn [option_map].
      pose proof (lfind_local (sch s) Hwf _ l k Hl Ho Hml) as Hres. rewrite Ex in Hres. apply lfind_key in Hres. destruct Hres as [_ Hkres].
      rewrite (Hgm _ Hkres).
      destruct (lfind (sch s) k (storel s)) as [y|] eqn:Ey; [|reflexivity]. cbn [option_map].
      apply lfind_key in Ey. destruct Ey as [_ Hky]. rewrite (Hgm y Hky). reflexivity.
    + reflexivity.
  - (* rejected in both orders *)
    rewrite El. cbn [code hd].
    split; [reflexivity|]. split; [reflexivity|]. split; [reflexivity|].
    split; [exact Hs2|]. split; [exact Hs2|]. intros k. reflexivity.
Qed.

(* ---------------------------------------------------------------- histories of the extended model *)

Lemma excused_ov (b1 b2 : bool) :
  excused ((if b1 then [] else [CL_ACCEPT]) ++ (if b2 then [] else [CL_OVERLAP]))
          [CL_PROTECTED; CL_FLAG; CL_UNADDRESSED; CL_ACCEPT; CL_ERR; CL_OK; CL_OVERLAP] = true.
Proof. destruct b1, b2; reflexivity. Qed.

Lemma wostep_ok s wm ws o :
  WInv s wm ws ->
  let '(s1, out) := wstep s o in
  let '(wm1, v) := womon wm o out in
  let ws1 := woscope ws o in
  excused v (wexcuses ws1) = true /\ WInv s1 wm1 ws1.
Proof.
  intros HW. destruct o as [o|w l]; [exact (wstep_ok s wm ws o HW)|].
  destruct HW as (Hms & Hmd & Hss & Hsd & Hlast & Hin).
  cbn [wstep].
  destruct (update_data s true true w) as [s1 o1] eqn:E1.
  destruct (update_data s1 false true l) as [s2 o2] eqn:E2.
  destruct (update_data_obs s true true w) as [cw [r1 [Ho1 _]]]. rewrite E1 in Ho1. cbn [snd] in Ho1.
  destruct (update_data_obs s1 false true l) as [cl [r2 [Ho2 _]]]. rewrite E2 in Ho2. cbn [snd] in Ho2.
  destruct (update_data_fields s true true w) as [Hf1s Hf1d]. rewrite E1 in Hf1s, Hf1d. cbn [fst] in Hf1s, Hf1d.
  destruct (update_data_fields s1 false true l) as [Hf2s Hf2d]. rewrite E2 in Hf2s, Hf2d. cbn [fst] in Hf2s, Hf2d.
  rewrite Ho1, Ho2. cbn [hd app womon woscope]. rewrite olist_storel, Hms, Hmd, Hlast, Hss, Hsd.
  destruct (ws_oos ws || direct s || negb (overlap_ok (sch s) w l)) eqn:Eo.
  - split; [unfold wexcuses; cbn [ws_oos]; apply excused_ov|].
    unfold WInv. cbn [wm_sch wm_direct wm_last ws_sch ws_direct ws_oos]. rewrite Hf2s, Hf2d, Hf1s, Hf1d.
    split; [reflexivity|]. split; [reflexivity|]. split; [reflexivity|]. split; [reflexivity|]. split; [reflexivity|].
    intros Hd; discriminate.
  - apply orb_false_iff in Eo. destruct Eo as [Eo Eov]. apply orb_false_iff in Eo. destruct Eo as [Eo Edir].
    apply negb_false_iff in Eov. destruct (Hin Eo) as [Hwf [Hl Ho]].
    assert (Hs : insc s) by (unfold insc; auto).
    pose proof Eov as Eov2. unfold overlap_ok in Eov2. rewrite !andb_true_iff in Eov2. destruct Eov2 as [[Hmw Hml] _].
    destruct (remote_merge_step s w Hs Hmw) as [Ew [Hs1 Hsw]].
    pose proof (update_data_remote s w Hwf Hl Ho (merge_shape_not_full (sch s) w (direct s) Hmw) (merge_shape_wf (sch s) w Hmw)) as Hacc.
    cbv zeta in Hacc. rewrite E1 in Hacc. cbn [fst snd] in Hacc.
    rewrite E1 in Ew. rewrite Ho1 in Ew, Hacc.
    assert (Hfacts : accept_ok (sch s) false cw w (storel s) = true /\ insc s1 /\ sch s1 = sch s /\
                     storel s1 = (if N.eqb cw 0 then spec_write (sch s) false w (storel s) else storel s)).
    { destruct (okw (sch s) (u_new w) (storel s)).
      - inversion Ew. subst s1 cw r1. rewrite Hsw. cbn [N.eqb].
        destruct Hacc as [[d [_ [_ [_ [_ [_ Ha]]]]]]|[c [Hc _]]]; [|discriminate].
        split; [exact Ha|]. split; [exact Hs1|]. split; reflexivity.
      - inversion Ew. subst s1 cw r1. cbn [N.eqb].
        destruct Hacc as [[d [Hc _]]|[c [Hc [_ [_ Ha]]]]]; [discriminate|]. inversion Hc. subst c.
        split; [exact Ha|]. split; [exact Hs|]. split; reflexivity. }
    destruct Hfacts as [Ha [Hi1 [Hsch1 Hst1]]].
    assert (Hml1 : merge_shape (sch s1) l = true) by (rewrite Hsch1; exact Hml).
    destruct (local_merge_step s1 l Hi1 Hml1) as [El Hs2]. rewrite E2, Ho2 in El. inversion El. subst s2 cl r2.
    rewrite Hsch1 in *. cbn [storel store with_store] in *.
    pose proof Hi1 as [_ [Hl1 Ho1']]. rewrite Hsch1 in Hl1, Ho1'.
    split.
    + unfold wexcuses. cbn [ws_oos ws_fullw]. rewrite Ha. cbn [N.eqb andb app].
      rewrite <- Hst1, <- (merged_spec_local (sch s) Hwf _ l Hl1 Ho1' Hml).
      rewrite (perm_eqb_perm _ _ (isort_perm (sch s) _)). reflexivity.
    + unfold WInv. cbn [wm_sch wm_direct wm_last ws_sch ws_direct ws_oos sch direct with_store storel store].
      rewrite Hsch1, Hf1d.
      split; [reflexivity|]. split; [reflexivity|]. split; [reflexivity|]. split; [reflexivity|]. split; [reflexivity|].
      intros _. destruct Hs2 as [H1 [H2 H3]]. cbn [sch storel store with_store] in H1, H2, H3. rewrite Hsch1 in H1, H2, H3. auto.
Qed.

Theorem worun_accepted_from s wm ws ops :
  WInv s wm ws -> accepted (wojudge wm ws (snd (wrun s ops))) = true.
Proof.
  revert s wm ws. induction ops as [|o r IH]; intros s wm ws HR; [reflexivity|].
  cbn [wrun]. pose proof (wostep_ok s wm ws o HR) as Hstep.
  destruct (wstep s o) as [s1 out]. destruct (wrun s1 r) as [s2 tr] eqn:Er. cbn [snd wojudge].
  destruct (womon wm o out) as [wm1 v]. cbv zeta in Hstep. destruct Hstep as [Hv HR1].
  unfold accepted. cbn [forallb fst snd]. rewrite Hv. cbn [andb].
  specialize (IH s1 wm1 (woscope ws o) HR1). rewrite Er in IH. exact IH.
Qed.

Theorem worun_accepted : forall ops, accepted (wojudge wminit wsinit (snd (wrun init ops))) = true.
Proof. intros ops. apply worun_accepted_from. apply WInv_init. Qed.
