(* C12 — proofs: every trace of the repaired model (Model/Approval.v, [step]) is accepted by
   the property monitor (Spec/ApprovalSpec.v), for every operation list, i.e. for every
   history and every interleaving; explicit corollaries (at most one outcome, exactly one once
   the write is settled, nothing after the removal of the connection, applied only with
   unanimous approval); the monitor itself enforces "at most one outcome" on any trace. *)
From Verif Require Import Base.Prelude Model.Approval Spec.ApprovalSpec Proofs.ApprovalLists.

(* ------------------------------------------------------------------ small facts *)

Lemma obs_eqb_refl o : obs_eqb o o = true.
Proof. destruct o; simpl; rewrite ?N.eqb_refl; reflexivity. Qed.

Lemma olist_eqb_refl l : olist_eqb l l = true.
Proof. induction l as [|x l IH]; simpl; [reflexivity | rewrite obs_eqb_refl; exact IH]. Qed.

Lemma arrived_next_arrive d p c ack sl w :
  arrived w (d_next d (Arrive p c ack sl)) = weqb w (p, c) || arrived w d.
Proof. unfold arrived. cbn [d_next d_arr]. rewrite wassoc_cons. destruct (weqb w (p, c)); reflexivity. Qed.

Lemma arrived_none_nil d w : d_arr d = [] -> arrived w d = false.
Proof. unfold arrived. intros ->. reflexivity. Qed.

Lemma gone_clean d p q : gone q (d_next d (Clean p)) = N.eqb q p || gone q d.
Proof. reflexivity. Qed.

Lemma to_gone_app d a b : to_gone d (a ++ b) = to_gone d a || to_gone d b.
Proof. unfold to_gone. apply existsb_app. Qed.

Lemma to_gone_presented d n w : gone (fst w) d = false -> to_gone d (presented n w) = false.
Proof.
  intros H. unfold presented, to_gone. induction (seq 0 n) as [|x l IH]; simpl; [reflexivity|].
  rewrite H. exact IH.
Qed.

Lemma flags_presented n w : flags (presented n w) = [].
Proof.
  assert (H : has_drift (presented n w) = false /\ has_stuck (presented n w) = false /\ has_panic (presented n w) = false).
  { unfold presented, has_drift, has_stuck, has_panic. induction (seq 0 n) as [|x l IH]; simpl; [repeat split; reflexivity | exact IH]. }
  unfold flags. destruct H as (-> & -> & ->). reflexivity.
Qed.

Lemma In_vassoc {A} v (a : A) l : NoDup (map fst l) -> In (v, a) l -> vassoc v l = Some a.
Proof.
  unfold vassoc. induction l as [|[v' a'] l IH]; simpl; intros Hnd Hin; [tauto|].
  inversion Hnd as [|? ? Hn Hd]; subst. destruct Hin as [H|H].
  - inversion H; subst. rewrite veqb_refl. reflexivity.
  - destruct (veqb v v') eqn:E.
    + apply veqb_eq in E. subst v'. exfalso. apply Hn. apply in_map_iff. exists (v, a). split; [reflexivity | exact H].
    + apply IH; assumption.
Qed.

Lemma vassoc_In_pair {A} v (a : A) l : vassoc v l = Some a -> In (v, a) l.
Proof.
  unfold vassoc. induction l as [|[v' a'] l IH]; simpl; intros H; [discriminate|].
  destruct (veqb v v') eqn:E.
  - apply veqb_eq in E. subst. inversion H; subst. left. reflexivity.
  - right. apply IH. exact H.
Qed.

Lemma incall_zero w l : (forall v a, In (v, a) l -> fst v <> w) -> incall w l = 0%nat.
Proof.
  unfold incall. induction l as [|[v a] l IH]; simpl; intros H; [reflexivity|].
  rewrite (weqb_neq (fst v) w) by (apply (H v a); left; reflexivity). simpl.
  apply IH. intros v' a' Hin. apply (H v' a'). right. exact Hin.
Qed.

(* ------------------------------------------------------------------ invariants *)

Record inv (s : st) : Prop := {
  i_pend_arr : forall w, wmem w (pending s) = true -> arrived w (dz s) = true;
  i_timer_arr : forall w t, wassoc w (timers s) = Some t -> arrived w (dz s) = true;
  i_tally_arr : forall w k, wassoc w (tally s) = Some k -> arrived w (dz s) = true;
  i_exp : forall w, wassoc w (timers s) = Some TExp \/ wassoc w (timers s) = Some TDone -> wmem w (d_exp (dz s)) = true;
  i_parked : forall v a, In (v, a) (parked s) -> vmem v (d_verd (dz s)) = true /\ arrived (fst v) (dz s) = true;
  i_nodup : NoDup (map fst (parked s))
}.

(* what the monitor's record of a write says, against the write's projection of the state *)
Definition wrel_p (n : nat) (g : bool) (t : option tstate) (pd : bool) (y c : nat) (r : wrec) : Prop :=
  r_nstart r = (r_ndone r + c)%nat /\
  match t with
  | Some TRun => r_phase r = PRun /\ r_out r = false /\ g = false /\ pd = true /\
                 (r_ndone r < n)%nat /\ ((1 < n)%nat -> y = r_ndone r)
  | Some TExp => r_phase r = PExp /\ r_out r = false /\ pd = negb g
  | Some TStop => r_phase r = PRun /\ pd = false /\ r_out r || g = true
  | Some TDone => r_phase r = PFired /\ pd = false /\ r_out r || g = true
  | None => r_phase r = PRun /\ r_out r = true /\ pd = false
  end.

Definition wrel (s : st) (m : mst) (w : wid) : Prop :=
  wrel_p (d_ncb (dz s)) (gone (fst w) (dz s)) (wassoc w (timers s)) (wmem w (pending s))
         (tally_get w (tally s)) (incall w (parked s)) (rget w m).

Record rel (s : st) (m : mst) : Prop := {
  r_d : m_d m = dz s;
  r_data : m_data m = data s;
  r_call : m_call m = parked s;
  r_w : forall w, arrived w (dz s) = true -> wrel s m w;
  r_arr : forall w r, wassoc w (m_w m) = Some r -> arrived w (dz s) = true
}.

Lemma wrel_frame s m s' m' w :
  d_ncb (dz s') = d_ncb (dz s) -> gone (fst w) (dz s') = gone (fst w) (dz s) ->
  wassoc w (timers s') = wassoc w (timers s) -> wmem w (pending s') = wmem w (pending s) ->
  tally_get w (tally s') = tally_get w (tally s) -> incall w (parked s') = incall w (parked s) ->
  rget w m' = rget w m -> wrel s m w -> wrel s' m' w.
Proof. unfold wrel. intros -> -> -> -> -> -> ->. auto. Qed.

Lemma rget_set_same m d w r : rget w (set_rec m d w r) = r.
Proof. unfold rget, set_rec. cbn [m_w]. rewrite wassoc_wset_same. reflexivity. Qed.

Lemma rget_set_other m d w w' r : w' <> w -> rget w' (set_rec m d w r) = rget w' m.
Proof. intros H. unfold rget, set_rec. cbn [m_w]. rewrite wassoc_wset_other by exact H. reflexivity. Qed.

Lemma rget_with_d m d w : rget w (with_d m d) = rget w m.
Proof. reflexivity. Qed.

Lemma rget_fresh s m w : rel s m -> arrived w (dz s) = false -> rget w m = rfresh.
Proof.
  intros R H. unfold rget. destruct (wassoc w (m_w m)) eqn:E; [|reflexivity].
  apply (r_arr _ _ R) in E. congruence.
Qed.

Lemma not_arrived_timer s w : inv s -> arrived w (dz s) = false -> wassoc w (timers s) = None.
Proof.
  intros I H. destruct (wassoc w (timers s)) eqn:E; [|reflexivity].
  apply (i_timer_arr _ I) in E. congruence.
Qed.

Lemma not_arrived_pending s w : inv s -> arrived w (dz s) = false -> wmem w (pending s) = false.
Proof.
  intros I H. destruct (wmem w (pending s)) eqn:E; [|reflexivity].
  apply (i_pend_arr _ I) in E. congruence.
Qed.

Lemma not_arrived_tally s w : inv s -> arrived w (dz s) = false -> tally_get w (tally s) = 0%nat.
Proof.
  intros I H. unfold tally_get. destruct (wassoc w (tally s)) eqn:E; [|reflexivity].
  apply (i_tally_arr _ I) in E. congruence.
Qed.

Lemma not_arrived_incall s w : inv s -> arrived w (dz s) = false -> incall w (parked s) = 0%nat.
Proof.
  intros I H. apply incall_zero. intros v a Hin E. subst w.
  apply (i_parked _ I) in Hin. destruct Hin as [_ Ha]. congruence.
Qed.

(* the outcome of one step of model and monitor *)
Definition good (s' : st) (m' : mst) (v : verdict) : Prop := v = [] /\ inv s' /\ rel s' m'.

Lemma skipped_good s m o : inv s -> rel s m -> d_ok (dz s) o = false ->
  good (fst (step s o)) (fst (mon m o (snd (step s o)))) (snd (mon m o (snd (step s o)))).
Proof.
  intros I R H. unfold step, step_gen, mon. rewrite (r_d _ _ R), H. simpl. split; [reflexivity | split; assumption].
Qed.

Definition step_good (s : st) (m : mst) (o : op) : Prop :=
  good (fst (step s o)) (fst (mon m o (snd (step s o)))) (snd (mon m o (snd (step s o)))).

Lemma mon_valid s m o out : rel s m -> d_ok (dz s) o = true ->
  mon m o out =
  (fst (mon_op m (d_next (dz s) o) o out),
   (if to_gone (d_next (dz s) o) out then [CL_CLEANUP] else []) ++ flags out ++
   snd (mon_op m (d_next (dz s) o) o out)).
Proof.
  intros R H. unfold mon. rewrite (r_d _ _ R), H. cbn [negb].
  destruct (mon_op m (d_next (dz s) o) o out). reflexivity.
Qed.

(* ---- AddCb ---- *)
Lemma good_AddCb s m : inv s -> rel s m -> d_ok (dz s) AddCb = true -> step_good s m AddCb.
Proof.
  intros I R H. unfold step_good. rewrite (mon_valid s m _ _ R H).
  unfold step, step_gen. rewrite H. cbn [negb fst snd mon_op to_gone flags has_drift has_stuck has_panic existsb app].
  assert (Hnil : d_arr (dz s) = []) by (simpl in H; destruct (d_arr (dz s)); [reflexivity | discriminate]).
  split; [reflexivity|]. split.
  - destruct I as [I1 I2 I3 I4 I5 I6]. constructor; cbn [dz pending timers tally parked]; auto.
  - constructor; cbn [dz data parked with_d m_d m_data m_call m_w].
    + reflexivity.
    + apply (r_data _ _ R).
    + apply (r_call _ _ R).
    + intros w Hw. unfold arrived in Hw. cbn [d_next d_arr] in Hw. rewrite Hnil in Hw. discriminate.
    + intros w r Hr. apply (r_arr _ _ R) in Hr. exact Hr.
Qed.

(* a pending write is live: arrived, not gone, no outcome *)
Lemma pending_live s m w : inv s -> rel s m -> wmem w (pending s) = true ->
  arrived w (dz s) = true /\ gone (fst w) (dz s) = false /\ r_out (rget w m) = false /\
  (wassoc w (timers s) = Some TRun \/ wassoc w (timers s) = Some TExp).
Proof.
  intros I R H. pose proof (i_pend_arr _ I _ H) as Ha. split; [exact Ha|].
  pose proof (r_w _ _ R _ Ha) as W. unfold wrel, wrel_p in W. rewrite H in W. destruct W as [_ W].
  destruct (wassoc w (timers s)) as [[| | |]|].
  - destruct W as (_ & Ho & Hg & _). auto.
  - destruct W as (_ & Ho & Hg). destruct (gone (fst w) (dz s)); [discriminate | auto].
  - destruct W as (_ & Hp & _). discriminate.
  - destruct W as (_ & Hp & _). discriminate.
  - destruct W as (_ & _ & Hp). discriminate.
Qed.

(* ---- Probe ---- *)
Definition probe_out (pd : list wid) (tl : list (wid * nat)) (dt : option wid) : list obs :=
  map (fun w => PendingEntry (fst w) (snd w)) pd ++
  map (fun x => TallyEntry (fst (fst x)) (snd (fst x)) (N.of_nat (snd x))) tl ++
  [match dt with Some w => DataIs (fst w) (snd w) | None => DataNone end].

Lemma probe_check_ok m pd tl dt :
  (forall w, In w pd -> arrived w (m_d m) = true /\ r_out (rget w m) = false) ->
  m_data m = dt -> probe_check m (probe_out pd tl dt) = [].
Proof.
  intros Hp Hd. unfold probe_out. induction pd as [|w pd IH].
  - simpl. induction tl as [|x tl IHt].
    + simpl. unfold data_check. rewrite Hd. destruct dt as [w|]; [|reflexivity].
      destruct w as [p c]. simpl. rewrite weqb_refl. reflexivity.
    + simpl. exact IHt.
  - destruct w as [p c]. cbn [map app fst snd].
    assert (Hw := Hp (p, c) (or_introl eq_refl)). destruct Hw as [Ha Ho].
    cbn [probe_check]. rewrite Ha, Ho. cbn [negb andb app].
    exact (IH (fun w H => Hp w (or_intror H))).
Qed.

Lemma probe_quiet d pd tl dt :
  (forall w, In w pd -> gone (fst w) d = false) -> to_gone d (probe_out pd tl dt) = false /\ flags (probe_out pd tl dt) = [].
Proof.
  intros H. split.
  - unfold probe_out, to_gone. rewrite !existsb_app.
    apply orb_false_iff. split; [|apply orb_false_iff; split].
    + induction pd as [|w pd IH]; simpl; [reflexivity|]. rewrite (H w (or_introl eq_refl)). apply IH. intros w' Hw. apply H. right. exact Hw.
    + induction tl as [|x tl IH]; simpl; [reflexivity | exact IH].
    + destruct dt; reflexivity.
  - clear H. assert (Hx : has_drift (probe_out pd tl dt) = false /\ has_stuck (probe_out pd tl dt) = false /\
                              has_panic (probe_out pd tl dt) = false).
    { unfold probe_out, has_drift, has_stuck, has_panic. rewrite !existsb_app. split; [|split].
      - apply orb_false_iff. split; [|apply orb_false_iff; split].
        + induction pd as [|w pd IH]; simpl; [reflexivity | exact IH].
        + induction tl as [|x tl IH]; simpl; [reflexivity | exact IH].
        + destruct dt; reflexivity.
      - apply orb_false_iff. split; [|apply orb_false_iff; split].
        + induction pd as [|w pd IH]; simpl; [reflexivity | exact IH].
        + induction tl as [|x tl IH]; simpl; [reflexivity | exact IH].
        + destruct dt; reflexivity.
      - apply orb_false_iff. split; [|apply orb_false_iff; split].
        + induction pd as [|w pd IH]; simpl; [reflexivity | exact IH].
        + induction tl as [|x tl IH]; simpl; [reflexivity | exact IH].
        + destruct dt; reflexivity. }
    unfold flags. destruct Hx as (-> & -> & ->). reflexivity.
Qed.

Lemma good_Probe s m : inv s -> rel s m -> step_good s m Probe.
Proof.
  intros I R. unfold step_good. rewrite (mon_valid s m Probe _ R eq_refl).
  unfold step, step_gen. cbn [d_ok negb fst snd mon_op d_next].
  change (map (fun w0 => PendingEntry (fst w0) (snd w0)) (pending s) ++
          map (fun x => TallyEntry (fst (fst x)) (snd (fst x)) (N.of_nat (snd x)))
            (filter (fun x => negb (gone (fst (fst x)) (dz s))) (tally s)) ++
          [match data s with Some w1 => DataIs (fst w1) (snd w1) | None => DataNone end])
    with (probe_out (pending s) (filter (fun x => negb (gone (fst (fst x)) (dz s))) (tally s)) (data s)).
  assert (Hq := probe_quiet (dz s) (pending s) (filter (fun x => negb (gone (fst (fst x)) (dz s))) (tally s)) (data s)).
  destruct Hq as [Hq1 Hq2].
  { intros w Hw. apply (kmem_In weqb weqb_eq) in Hw. apply (pending_live s m w I R Hw). }
  rewrite Hq1, Hq2. cbn [app].
  rewrite probe_check_ok.
  - split; [reflexivity | split; assumption].
  - intros w Hw. apply (kmem_In weqb weqb_eq) in Hw. rewrite (r_d _ _ R).
    destruct (pending_live s m w I R Hw) as (Ha & _ & Ho & _). auto.
  - apply (r_data _ _ R).
Qed.

(* projections of a state whose bookkeeping (dz) alone advanced *)
Lemma arrived_mono d o w : arrived w d = true -> arrived w (d_next d o) = true.
Proof.
  destruct o; try (intros H; exact H).
  rewrite arrived_next_arrive. intros ->. apply orb_true_r.
Qed.

Lemma vmem_mono d o v : vmem v (d_verd d) = true -> vmem v (d_verd (d_next d o)) = true.
Proof.
  destruct o; try (intros H; exact H).
  cbn [d_next d_verd]. intros H. unfold vmem, kmem in *. simpl. rewrite H. apply orb_true_r.
Qed.

Lemma dexp_mono d o w : wmem w (d_exp d) = true -> wmem w (d_exp (d_next d o)) = true.
Proof.
  destruct o; try (intros H; exact H).
  cbn [d_next d_exp]. intros H. rewrite wmem_cons, H. apply orb_true_r.
Qed.

(* inv is kept when only dz advances and the lists stay *)
Lemma inv_dz s o : inv s ->
  inv {| dz := d_next (dz s) o; pending := pending s; tally := tally s; timers := timers s; parked := parked s; data := data s |}.
Proof.
  intros [I1 I2 I3 I4 I5 I6]. constructor; cbn [dz pending tally timers parked].
  - intros w H. apply arrived_mono. auto.
  - intros w t H. apply arrived_mono. eauto.
  - intros w k H. apply arrived_mono. eauto.
  - intros w H. apply dexp_mono. auto.
  - intros v a H. destruct (I5 v a H). split; [apply vmem_mono | apply arrived_mono]; assumption.
  - exact I6.
Qed.

Lemma rget_upd_same d l c dt w r : rget w {| m_d := d; m_w := wset w r l; m_call := c; m_data := dt |} = r.
Proof. unfold rget. cbn [m_w]. rewrite wassoc_wset_same. reflexivity. Qed.

Lemma rget_upd_other m d c dt w w' r : w' <> w ->
  rget w' {| m_d := d; m_w := wset w r (m_w m); m_call := c; m_data := dt |} = rget w' m.
Proof. intros H. unfold rget. cbn [m_w]. rewrite wassoc_wset_other by exact H. reflexivity. Qed.

Lemma rarr_upd s m d' c dt w r :
  rel s m -> arrived w d' = true -> (forall w', arrived w' (dz s) = true -> arrived w' d' = true) ->
  forall w' r', wassoc w' (m_w {| m_d := d'; m_w := wset w r (m_w m); m_call := c; m_data := dt |}) = Some r' -> arrived w' d' = true.
Proof.
  intros R Ha Hm w' r' Hr. cbn [m_w] in Hr. destruct (wid_dec w' w) as [->|Hne]; [exact Ha|].
  rewrite wassoc_wset_other in Hr by exact Hne. apply Hm. apply (r_arr _ _ R) in Hr. exact Hr.
Qed.

(* ---- Expire ---- *)
Lemma good_Expire s m p c : inv s -> rel s m -> d_ok (dz s) (Expire p c) = true -> step_good s m (Expire p c).
Proof.
  intros I R H. unfold step_good. rewrite (mon_valid s m _ _ R H).
  unfold step, step_gen. rewrite H. cbn [negb].
  assert (Hv := H). cbn [d_ok] in Hv. apply andb_true_iff in Hv. destruct Hv as [Ha Hne].
  apply negb_true_iff in Hne.
  pose proof (r_w _ _ R _ Ha) as W. unfold wrel, wrel_p in W.
  set (w := (p, c)) in *.
  assert (Hgd : forall q, gone q (d_next (dz s) (Expire p c)) = gone q (dz s)) by reflexivity.
  destruct (wassoc w (timers s)) as [t|] eqn:Et.
  2:{ (* no callback: the write was applied on arrival *)
      cbn [is_run fst snd mon_op to_gone flags has_drift has_stuck has_panic existsb obs_peer orb app].
      destruct W as (Hn & Hph & Ho & Hp). fold w. rewrite Ho. cbn [orb app].
      split; [reflexivity|]. split; [apply (inv_dz s (Expire p c) I)|].
      constructor; cbn [dz data parked with_d m_d m_data m_call m_w]; try reflexivity;
        try apply (r_data _ _ R); try apply (r_call _ _ R).
      - intros w' Hw'. apply (wrel_frame s m); try reflexivity. apply (r_w _ _ R). exact Hw'.
      - intros w' r Hr. apply (r_arr _ _ R) in Hr. exact Hr. }
  destruct t.
  - (* running: it expires *)
    cbn [is_run fst snd mon_op to_gone flags has_drift has_stuck has_panic existsb obs_peer orb app].
    destruct W as (Hn & Hph & Ho & Hg & Hp & Hlt & Hy). fold w. rewrite Hph. cbn [is_prun app].
    split; [reflexivity|]. split.
    + destruct I as [I1 I2 I3 I4 I5 I6]. constructor; cbn [dz pending tally timers parked]; auto.
      * intros w' t Ht. destruct (wid_dec w' w) as [->|Hne']; [exact Ha|].
        rewrite wassoc_wset_other in Ht by exact Hne'. eauto.
      * intros w' Ht. cbn [d_next d_exp]. fold w. rewrite wmem_cons.
        destruct (wid_dec w' w) as [->|Hne']; [rewrite weqb_refl; reflexivity|].
        rewrite wassoc_wset_other in Ht by exact Hne'. rewrite (I4 w' Ht). apply orb_true_r.
    + unfold set_rec. constructor; cbn [dz data parked m_d m_data m_call]; try reflexivity;
        try apply (r_data _ _ R); try apply (r_call _ _ R).
      * intros w' Hw'. destruct (wid_dec w' w) as [->|Hne'].
        -- unfold wrel, wrel_p. cbn [dz timers pending tally parked].
           rewrite wassoc_wset_same, rget_upd_same. cbn [r_phase r_out r_nstart r_ndone].
           rewrite Hgd, Hg, Hp. auto.
        -- apply (wrel_frame s m); try reflexivity.
           ++ cbn [timers]. apply wassoc_wset_other. exact Hne'.
           ++ apply rget_upd_other. exact Hne'.
           ++ apply (r_w _ _ R). exact Hw'.
      * apply (rarr_upd s m); auto.
  - (* already expired: excluded, its timeout elapsed before *)
    exfalso. assert (Hx := i_exp _ I w (or_introl Et)). congruence.
  - exfalso. assert (Hx := i_exp _ I w (or_intror Et)). congruence.
  - (* stopped *)
    cbn [is_run fst snd mon_op to_gone flags has_drift has_stuck has_panic existsb obs_peer orb app].
    destruct W as (Hn & Hph & Hp & Hog). fold w.
    change p with (fst w). rewrite Hgd, Hog. cbn [app].
    split; [reflexivity|]. split; [apply (inv_dz s (Expire p c) I)|].
    constructor; cbn [dz data parked with_d m_d m_data m_call m_w]; try reflexivity;
      try apply (r_data _ _ R); try apply (r_call _ _ R).
    + intros w' Hw'. apply (wrel_frame s m); try reflexivity. apply (r_w _ _ R). exact Hw'.
    + intros w' r Hr. apply (r_arr _ _ R) in Hr. exact Hr.
Qed.

(* ---- Fire ---- *)
Lemma good_Fire s m p c : inv s -> rel s m -> step_good s m (Fire p c).
Proof.
  intros I R. unfold step_good. rewrite (mon_valid s m (Fire p c) _ R eq_refl).
  unfold step, step_gen. cbn [d_ok negb d_next].
  set (w := (p, c)) in *.
  destruct (arrived w (dz s)) eqn:Ha.
  2:{ (* never arrived: no timer, fresh record *)
      rewrite (not_arrived_timer s w I Ha). cbn [fst snd mon_op]. fold w.
      rewrite (rget_fresh s m w R Ha). cbn [rfresh r_phase skipped_only to_gone flags has_drift has_stuck has_panic existsb obs_peer orb app].
      split; [reflexivity | split; assumption]. }
  pose proof (r_w _ _ R _ Ha) as W. unfold wrel, wrel_p in W.
  destruct (wassoc w (timers s)) as [[| | |]|] eqn:Et.
  - destruct W as (Hn & Hph & _). cbn [fst snd mon_op]. fold w. rewrite Hph.
    cbn [skipped_only to_gone flags has_drift has_stuck has_panic existsb obs_peer orb app]. split; [reflexivity | split; assumption].
  - (* the body runs *)
    destruct W as (Hn & Hph & Ho & Hp). cbn [repaired f_body andb].
    assert (Hexp : wmem w (d_exp (dz s)) = true) by (apply (i_exp _ I); left; exact Et).
    destruct (wmem w (pending s)) eqn:Epd; cbn [negb fst snd mon_op]; fold w; rewrite Hph.
    + (* still pending: the error result *)
      assert (Hg : gone (fst w) (dz s) = false) by (destruct (gone (fst w) (dz s)); [discriminate | reflexivity]).
      rewrite weqb_refl. cbn [E_TIMEOUT andb]. rewrite N.eqb_refl. cbn [fst snd].
      cbn [to_gone flags has_drift has_stuck has_panic existsb obs_peer orb]. change p with (fst w). rewrite Hg, Ho. cbn [app].
      split; [reflexivity|]. split.
      * destruct I as [I1 I2 I3 I4 I5 I6]. constructor; cbn [dz pending tally timers parked]; auto.
        -- intros w' Hw'. destruct (wid_dec w' w) as [->|Hne']; [rewrite wmem_wdel_same in Hw'; discriminate|].
           rewrite wmem_wdel_other in Hw' by exact Hne'. auto.
        -- intros w' t Ht. destruct (wid_dec w' w) as [->|Hne']; [exact Ha|].
           rewrite wassoc_wset_other in Ht by exact Hne'. eauto.
        -- intros w' Ht. destruct (wid_dec w' w) as [->|Hne']; [exact Hexp|].
           rewrite !wassoc_wset_other in Ht by exact Hne'. auto.
      * unfold set_rec. constructor; cbn [dz data parked m_d m_data m_call]; try reflexivity;
          try apply (r_data _ _ R); try apply (r_call _ _ R).
        -- intros w' Hw'. destruct (wid_dec w' w) as [->|Hne'].
           ++ unfold wrel, wrel_p. cbn [dz timers pending tally parked].
              rewrite rget_upd_same, wassoc_wset_same, wmem_wdel_same. cbn [r_phase r_out r_nstart r_ndone]. auto.
           ++ apply (wrel_frame s m); try reflexivity.
              ** cbn [timers]. apply wassoc_wset_other. exact Hne'.
              ** cbn [pending]. apply wmem_wdel_other. exact Hne'.
              ** apply rget_upd_other. exact Hne'.
              ** apply (r_w _ _ R). exact Hw'.
        -- apply (rarr_upd s m); auto.
    + (* cleaned up meanwhile: silent *)
      assert (Hg : gone (fst w) (dz s) = true) by (destruct (gone (fst w) (dz s)); [reflexivity | discriminate]).
      cbn [fst snd to_gone flags has_drift has_stuck has_panic existsb app]. change p with (fst w). rewrite Hg, orb_true_r. cbn [app].
      split; [reflexivity|]. split.
      * destruct I as [I1 I2 I3 I4 I5 I6]. constructor; cbn [dz pending tally timers parked]; auto.
        -- intros w' t Ht. destruct (wid_dec w' w) as [->|Hne']; [exact Ha|].
           rewrite wassoc_wset_other in Ht by exact Hne'. eauto.
        -- intros w' Ht. destruct (wid_dec w' w) as [->|Hne']; [exact Hexp|].
           rewrite !wassoc_wset_other in Ht by exact Hne'. auto.
      * unfold set_rec. constructor; cbn [dz data parked m_d m_data m_call]; try reflexivity;
          try apply (r_data _ _ R); try apply (r_call _ _ R).
        -- intros w' Hw'. destruct (wid_dec w' w) as [->|Hne'].
           ++ unfold wrel, wrel_p. cbn [dz timers pending tally parked].
              rewrite rget_upd_same, wassoc_wset_same, Epd, Hg. cbn [r_phase r_out r_nstart r_ndone].
              rewrite orb_true_r. auto.
           ++ apply (wrel_frame s m); try reflexivity.
              ** cbn [timers]. apply wassoc_wset_other. exact Hne'.
              ** apply rget_upd_other. exact Hne'.
              ** apply (r_w _ _ R). exact Hw'.
        -- apply (rarr_upd s m); auto.
  - destruct W as (Hn & Hph & _). cbn [fst snd mon_op]. fold w. rewrite Hph.
    cbn [skipped_only to_gone flags has_drift has_stuck has_panic existsb obs_peer orb app]. split; [reflexivity | split; assumption].
  - destruct W as (Hn & Hph & _). cbn [fst snd mon_op]. fold w. rewrite Hph.
    cbn [skipped_only to_gone flags has_drift has_stuck has_panic existsb obs_peer orb app]. split; [reflexivity | split; assumption].
  - destruct W as (Hn & Hph & _). cbn [fst snd mon_op]. fold w. rewrite Hph.
    cbn [skipped_only to_gone flags has_drift has_stuck has_panic existsb obs_peer orb app]. split; [reflexivity | split; assumption].
Qed.

(* ---- Arrive ---- *)
Lemma to_gone_ack d ack w : gone (fst w) d = false -> to_gone d (ack_result ack w ++ [Applied (fst w) (snd w)]) = false.
Proof. intros H. destruct ack; simpl; rewrite H; reflexivity. Qed.

Lemma flags_ack ack w o : flags (ack_result ack w ++ [Applied (fst w) (snd w); o]) = flags [o].
Proof. destruct ack; reflexivity. Qed.

Lemma good_Arrive s m p c ack sl : inv s -> rel s m -> d_ok (dz s) (Arrive p c ack sl) = true ->
  step_good s m (Arrive p c ack sl).
Proof.
  intros I R H. unfold step_good. rewrite (mon_valid s m _ _ R H).
  unfold step, step_gen. rewrite H. cbn [negb].
  assert (Hv := H). cbn [d_ok] in Hv. apply andb_true_iff in Hv. destruct Hv as [Hg Hna].
  apply negb_true_iff in Hg. apply negb_true_iff in Hna.
  set (w := (p, c)) in *.
  assert (Hgd : forall q, gone q (d_next (dz s) (Arrive p c ack sl)) = gone q (dz s)) by reflexivity.
  assert (Hnd : d_ncb (d_next (dz s) (Arrive p c ack sl)) = d_ncb (dz s)) by reflexivity.
  assert (Haw : arrived w (d_next (dz s) (Arrive p c ack sl)) = true)
    by (rewrite arrived_next_arrive; fold w; rewrite weqb_refl; reflexivity).
  assert (Hg' : gone (fst w) (dz s) = false) by exact Hg.
  pose proof (not_arrived_timer s w I Hna) as Ht.
  pose proof (not_arrived_pending s w I Hna) as Hp.
  pose proof (not_arrived_tally s w I Hna) as Hy.
  pose proof (not_arrived_incall s w I Hna) as Hc.
  rewrite Hnd.
  destruct (d_ncb (dz s)) as [|k] eqn:En.
  - (* no callback *)
    cbn [fst snd mon_op]. rewrite Hnd. cbn [fst snd]. fold w.
    change (Applied p c) with (Applied (fst w) (snd w)).
    rewrite to_gone_ack by (rewrite Hgd; exact Hg). rewrite olist_eqb_refl.
    assert (Hdr : flags (ack_result ack w ++ [Applied (fst w) (snd w)]) = []) by (destruct ack; reflexivity).
    rewrite Hdr. cbn [app].
    split; [reflexivity|]. split.
    + destruct I as [I1 I2 I3 I4 I5 I6]. constructor; cbn [dz pending tally timers parked].
      * intros w' H'. apply arrived_mono. auto.
      * intros w' t H'. apply arrived_mono. eauto.
      * intros w' k H'. apply arrived_mono. eauto.
      * intros w' H'. apply dexp_mono. auto.
      * intros v a H'. destruct (I5 v a H'). split; [apply vmem_mono | apply arrived_mono]; assumption.
      * exact I6.
    + constructor; cbn [dz data parked m_d m_data m_call]; try reflexivity; try apply (r_call _ _ R).
      * intros w' Hw'. destruct (wid_dec w' w) as [->|Hne'].
        -- unfold wrel, wrel_p. cbn [dz timers pending tally parked].
           rewrite rget_upd_same, Ht, Hp, Hc. cbn [r_phase r_out r_nstart r_ndone]. auto.
        -- rewrite arrived_next_arrive in Hw'. fold w in Hw'. rewrite (weqb_neq _ _ Hne') in Hw'. cbn [orb] in Hw'.
           apply (wrel_frame s m); try reflexivity.
           ++ apply rget_upd_other. exact Hne'.
           ++ apply (r_w _ _ R). exact Hw'.
      * apply (rarr_upd s m); auto. intros w' H'. apply arrived_mono. exact H'.
  - (* callbacks registered: pending entry, timer, presentation *)
    cbn [fst snd mon_op]. rewrite Hnd. cbn [fst snd]. fold w.
    rewrite to_gone_presented by (rewrite Hgd; exact Hg). rewrite flags_presented, olist_eqb_refl. cbn [app].
    split; [reflexivity|]. split.
    + destruct I as [I1 I2 I3 I4 I5 I6]. constructor; cbn [dz pending tally timers parked].
      * intros w' H'. rewrite wmem_app in H'. apply orb_true_iff in H'. destruct H' as [H'|H'].
        -- apply arrived_mono. auto.
        -- apply weqb_eq in H'. subst w'. exact Haw.
      * intros w' t H'. destruct (wid_dec w' w) as [->|Hne']; [exact Haw|].
        rewrite wassoc_wset_other in H' by exact Hne'. apply arrived_mono. eauto.
      * intros w' k' H'. apply arrived_mono. eauto.
      * intros w' H'. apply dexp_mono. apply I4.
        destruct (wid_dec w' w) as [->|Hne']; [rewrite wassoc_wset_same in H'; destruct H'; discriminate|].
        rewrite !wassoc_wset_other in H' by exact Hne'. exact H'.
      * intros v a H'. destruct (I5 v a H'). split; [apply vmem_mono | apply arrived_mono]; assumption.
      * exact I6.
    + unfold set_rec. constructor; cbn [dz data parked m_d m_data m_call]; try reflexivity;
        try apply (r_data _ _ R); try apply (r_call _ _ R).
      * intros w' Hw'. destruct (wid_dec w' w) as [->|Hne'].
        -- unfold wrel, wrel_p. cbn [dz timers pending tally parked].
           rewrite rget_upd_same, wassoc_wset_same, wmem_app, weqb_refl, orb_true_r, Hc, Hy, Hgd, Hg', Hnd.
           cbn [rfresh r_phase r_out r_nstart r_ndone]. repeat split; auto; lia.
        -- rewrite arrived_next_arrive in Hw'. fold w in Hw'. rewrite (weqb_neq _ _ Hne') in Hw'. cbn [orb] in Hw'.
           apply (wrel_frame s m); try reflexivity.
           ++ cbn [timers]. apply wassoc_wset_other. exact Hne'.
           ++ cbn [pending]. rewrite wmem_app, (weqb_neq _ _ Hne'). apply orb_false_r.
           ++ apply rget_upd_other. exact Hne'.
           ++ apply (r_w _ _ R). exact Hw'.
      * apply (rarr_upd s m); auto. intros w' H'. apply arrived_mono. exact H'.
Qed.

(* ---- Lookup ---- *)
Lemma NoDup_app_one {A} (l : list A) x : NoDup l -> ~ In x l -> NoDup (l ++ [x]).
Proof.
  induction l as [|y l IH]; simpl; intros Hnd Hn.
  - constructor; [tauto | constructor].
  - inversion Hnd as [|? ? Hy Hd]; subst. constructor.
    + intros Hin. apply in_app_or in Hin. destruct Hin as [Hin|[Hin|[]]]; [tauto | subst; tauto].
    + apply IH; tauto.
Qed.

Lemma good_Lookup s m p c cb a : inv s -> rel s m -> d_ok (dz s) (Lookup p c cb a) = true ->
  step_good s m (Lookup p c cb a).
Proof.
  intros I R H. unfold step_good. rewrite (mon_valid s m _ _ R H).
  unfold step, step_gen. rewrite H. cbn [negb].
  assert (Hv := H). cbn [d_ok] in Hv. apply andb_true_iff in Hv. destruct Hv as [Hv Hnv].
  apply andb_true_iff in Hv. destruct Hv as [Ha Hcb]. apply negb_true_iff in Hnv.
  set (w := (p, c)) in *.
  assert (Hgd : forall q, gone q (d_next (dz s) (Lookup p c cb a)) = gone q (dz s)) by reflexivity.
  pose proof (r_w _ _ R _ Ha) as W. unfold wrel, wrel_p in W.
  destruct (wmem w (pending s)) eqn:Epd.
  - (* taken up: the goroutine stands at the hook *)
    cbn [fst snd mon_op to_gone flags has_drift has_stuck has_panic existsb obs_peer orb app]. fold w.
    split; [reflexivity|]. split.
    + destruct I as [I1 I2 I3 I4 I5 I6]. constructor; cbn [dz pending tally timers parked]; auto.
      * intros v a' Hin. apply in_app_or in Hin. destruct Hin as [Hin|Hin].
        -- destruct (I5 v a' Hin). split; [apply vmem_mono | apply arrived_mono]; assumption.
        -- destruct Hin as [Hin|[]]. inversion Hin; subst v a'. split; [|exact Ha].
           cbn [d_next d_verd]. fold w. unfold vmem, kmem. simpl. rewrite veqb_refl. reflexivity.
      * rewrite map_app. cbn [map fst]. apply NoDup_app_one; [exact I6|].
        intros Hin. apply in_map_iff in Hin. destruct Hin as [[v a'] [Hv' Hin]]. cbn [fst] in Hv'. subst v.
        destruct (I5 _ _ Hin) as [Hvm _]. congruence.
    + constructor; cbn [dz data parked m_d m_data m_call]; try reflexivity;
        try apply (r_data _ _ R); try (rewrite (r_call _ _ R); reflexivity).
      * intros w' Hw'. destruct (wid_dec w' w) as [->|Hne'].
        -- unfold wrel, wrel_p. cbn [dz timers pending tally parked].
           rewrite rget_upd_same, incall_app. cbn [fst r_phase r_out r_nstart r_ndone]. rewrite weqb_refl. cbn [andb].
           rewrite Hgd, Epd. destruct W as [Wn W]. split; [|exact W].
           rewrite Wn. destruct a; lia.
        -- apply (wrel_frame s m); try reflexivity.
           ++ cbn [parked]. rewrite incall_app. cbn [fst]. fold w. rewrite (weqb_neq w w') by congruence. cbn [andb]. lia.
           ++ apply rget_upd_other. exact Hne'.
           ++ apply (r_w _ _ R). exact Hw'.
      * apply (rarr_upd s m); auto.
  - (* too late (or cleaned up): the call returns *)
    cbn [fst snd mon_op to_gone flags has_drift has_stuck has_panic existsb obs_peer orb app]. fold w.
    assert (Hchk : r_out (rget w m) || gone p (d_next (dz s) (Lookup p c cb a)) || negb (is_prun (r_phase (rget w m))) = true).
    { rewrite Hgd. change p with (fst w). destruct W as [_ W].
      destruct (wassoc w (timers s)) as [[| | |]|].
      - destruct W as (_ & _ & _ & Hp & _). discriminate.
      - destruct W as (_ & _ & Hp). destruct (gone (fst w) (dz s)); [apply orb_true_iff; left; apply orb_true_r | discriminate].
      - destruct W as (Hph & _). rewrite Hph. apply orb_true_r.
      - destruct W as (_ & _ & Hog). rewrite Hog. reflexivity.
      - destruct W as (_ & Ho & _). rewrite Ho. reflexivity. }
    rewrite Hchk. cbn [app].
    split; [reflexivity|]. split; [apply (inv_dz s (Lookup p c cb a) I)|].
    constructor; cbn [dz data parked with_d m_d m_data m_call m_w]; try reflexivity;
      try apply (r_data _ _ R); try apply (r_call _ _ R).
    + intros w' Hw'. apply (wrel_frame s m); try reflexivity. apply (r_w _ _ R). exact Hw'.
    + intros w' r Hr. apply (r_arr _ _ R) in Hr. exact Hr.
Qed.

(* ---- Clean ---- *)
Lemma wassoc_stop_some p pd tm w t : wassoc w (stop_pending p pd tm) = Some t -> exists t', wassoc w tm = Some t'.
Proof.
  rewrite wassoc_stop_pending. destruct (wassoc w tm) as [t'|]; [eauto | discriminate].
Qed.

Lemma good_Clean s m p : inv s -> rel s m -> d_ok (dz s) (Clean p) = true -> step_good s m (Clean p).
Proof.
  intros I R H. unfold step_good. rewrite (mon_valid s m _ _ R H).
  unfold step, step_gen. rewrite H. cbn [negb repaired f_clean].
  rewrite left_of_zero.
  cbn [fst snd mon_op to_gone flags has_drift has_stuck has_panic existsb obs_peer orb app]. rewrite !N.eqb_refl. cbn [andb app].
  split; [reflexivity|]. split.
  - destruct I as [I1 I2 I3 I4 I5 I6]. constructor; cbn [dz pending tally timers parked].
    + intros w Hw. rewrite wmem_filter in Hw. apply andb_true_iff in Hw. destruct Hw as [Hw _]. exact (I1 _ Hw).
    + intros w t Ht. apply wassoc_stop_some in Ht. destruct Ht as [t' Ht]. exact (I2 _ _ Ht).
    + intros w k Hk. rewrite wassoc_drop_peer in Hk. destruct (of_peer p w); [discriminate | exact (I3 _ _ Hk)].
    + intros w Ht. apply (I4 w). rewrite wassoc_stop_pending in Ht.
      destruct (wassoc w (timers s)) as [[| | |]|]; try exact Ht.
      destruct (of_peer p w && wmem w (pending s)); destruct Ht; discriminate.
    + intros v a Hin. exact (I5 v a Hin).
    + exact I6.
  - constructor; cbn [dz data parked with_d m_d m_data m_call m_w]; try reflexivity;
      try apply (r_data _ _ R); try apply (r_call _ _ R).
    + intros w Hw. change (arrived w (dz s) = true) in Hw.
      pose proof (r_w _ _ R _ Hw) as W. unfold wrel, wrel_p in *. cbn [dz timers pending tally parked].
      rewrite rget_with_d, gone_clean, wassoc_stop_pending, wmem_filter.
      change (d_ncb (d_next (dz s) (Clean p))) with (d_ncb (dz s)).
      unfold tally_get. rewrite wassoc_drop_peer. fold (tally_get w (tally s)).
      unfold of_peer. destruct W as [Wn W]. split; [exact Wn|].
      destruct (N.eqb (fst w) p) eqn:Ep; cbn [orb negb andb]; rewrite ?andb_false_r, ?andb_true_r.
      * (* a write of the removed peer *)
        destruct (wassoc w (timers s)) as [[| | |]|].
        -- destruct W as (Hph & Ho & Hg & Hp & _). rewrite Hp, orb_true_r. auto.
        -- destruct W as (Hph & Ho & _). auto.
        -- destruct W as (Hph & _ & _). rewrite orb_true_r. auto.
        -- destruct W as (Hph & _ & _). rewrite orb_true_r. auto.
        -- destruct W as (Hph & Ho & _). auto.
      * destruct (wassoc w (timers s)) as [[| | |]|]; exact W.
    + intros w r Hr. apply (r_arr _ _ R) in Hr. exact Hr.
Qed.

(* ---- Commit ---- *)
Lemma ck_none w ack : commit_kind w ack [Returned] = KNone.
Proof. reflexivity. Qed.

Lemma ck_applied w ack : commit_kind w ack (ack_result ack w ++ [Applied (fst w) (snd w); Returned]) = KApplied.
Proof.
  destruct w as [p c]. destruct ack; cbn [ack_result app commit_kind fst snd]; rewrite ?weqb_refl; reflexivity.
Qed.

Lemma ck_denied w ack : commit_kind w ack [Result (fst w) (snd w) E_DENIED; Returned] = KDenied.
Proof. destruct w as [p c]. cbn [commit_kind fst snd]. rewrite weqb_refl. reflexivity. Qed.

Definition commit_tally (n : nat) (a : bool) (w : wid) (tl : list (wid * nat)) : list (wid * nat) :=
  if Nat.ltb 1 n && a then wset w (S (tally_get w tl)) tl else tl.

Lemma step_commit s p c cb a : vassoc ((p, c), cb) (parked s) = Some a ->
  let w := (p, c) in
  let n := d_ncb (dz s) in
  let tl := commit_tally n a w (tally s) in
  let pk := vremove (w, cb) (parked s) in
  step s (Commit p c cb) =
  if Nat.ltb 1 n && a && Nat.ltb (tally_get w tl) n
  then ({| dz := dz s; pending := pending s; tally := tl; timers := timers s; parked := pk; data := data s |}, [Returned])
  else if negb (is_run (wassoc w (timers s)))
  then ({| dz := dz s; pending := pending s; tally := wremove w tl; timers := timers s; parked := pk; data := data s |}, [Returned])
  else if a
  then ({| dz := dz s; pending := wdel w (pending s); tally := wremove w tl; timers := wset w TStop (timers s);
           parked := pk; data := Some w |}, ack_result (ack_of w (dz s)) w ++ [Applied p c; Returned])
  else ({| dz := dz s; pending := wdel w (pending s); tally := wremove w tl; timers := wset w TStop (timers s);
           parked := pk; data := data s |}, [Result p c E_DENIED; Returned]).
Proof.
  intros H w n tl pk. unfold step, step_gen. cbn [d_ok negb d_next repaired f_tally f_stop]. rewrite H. fold w.
  assert (Htl : (if Nat.ltb 1 n && a
                 then match wassoc w (tally s) with
                      | Some k => wset w (S k) (tally s)
                      | None => wset w 1%nat (tally s)
                      end
                 else tally s) = tl).
  { unfold tl, commit_tally, tally_get. destruct (Nat.ltb 1 n && a); [|reflexivity].
    destruct (wassoc w (tally s)); reflexivity. }
  fold n. rewrite Htl. fold pk.
  destruct (Nat.ltb 1 n && a && Nat.ltb (tally_get w tl) n); [reflexivity|].
  destruct (is_run (wassoc w (timers s))); cbn [negb andb]; [|reflexivity].
  destruct a; reflexivity.
Qed.

(* what a Commit of a verdict on write w leaves untouched *)
Lemma commit_rest s m w cb a pd' tl' tm' dt' m' :
  inv s -> rel s m -> In ((w, cb), a) (parked s) ->
  (forall w', w' <> w -> wmem w' pd' = wmem w' (pending s)) ->
  (forall w', w' <> w -> wassoc w' tl' = wassoc w' (tally s)) ->
  (forall w', w' <> w -> wassoc w' tm' = wassoc w' (timers s)) ->
  (wmem w pd' = true -> wmem w (pending s) = true) ->
  (wassoc w tm' = Some TExp \/ wassoc w tm' = Some TDone ->
   wassoc w (timers s) = Some TExp \/ wassoc w (timers s) = Some TDone) ->
  (forall w', w' <> w -> rget w' m' = rget w' m) ->
  let s' := {| dz := dz s; pending := pd'; tally := tl'; timers := tm'; parked := vremove (w, cb) (parked s); data := dt' |} in
  inv s' /\ (forall w', w' <> w -> arrived w' (dz s) = true -> wrel s' m' w').
Proof.
  intros I R Hin Hpd Htl Htm Hpw Htw Hrg s'.
  assert (Haw : arrived w (dz s) = true) by (destruct (i_parked _ I _ _ Hin) as [_ Hx]; exact Hx).
  split.
  - destruct I as [I1 I2 I3 I4 I5 I6]. constructor; cbn [s' dz pending tally timers parked].
    + intros w' Hw'. destruct (wid_dec w' w) as [->|Hne]; [exact Haw|]. rewrite Hpd in Hw' by exact Hne. auto.
    + intros w' t Ht. destruct (wid_dec w' w) as [->|Hne]; [exact Haw|]. rewrite Htm in Ht by exact Hne. eauto.
    + intros w' k Hk. destruct (wid_dec w' w) as [->|Hne]; [exact Haw|]. rewrite Htl in Hk by exact Hne. eauto.
    + intros w' Ht. apply I4. destruct (wid_dec w' w) as [->|Hne]; [apply Htw; exact Ht|].
      rewrite !Htm in Ht by exact Hne. exact Ht.
    + intros v a' Hin'. apply (I5 v a'). unfold vremove, kremove in Hin'. apply filter_In in Hin'. tauto.
    + apply vremove_nodup. exact I6.
  - intros w' Hne Hw'. apply (wrel_frame s m); cbn [s' dz pending tally timers parked]; try reflexivity.
    + apply Htm. exact Hne.
    + apply Hpd. exact Hne.
    + unfold tally_get. rewrite Htl by exact Hne. reflexivity.
    + apply incall_vremove_other. cbn [fst]. congruence.
    + apply Hrg. exact Hne.
    + apply (r_w _ _ R). exact Hw'.
Qed.

Definition m_upd (m : mst) (d : disc) (w : wid) (cb : N) (nd : nat) (o' : bool) (dt : option wid) : mst :=
  {| m_d := d;
     m_w := wset w {| r_phase := r_phase (rget w m); r_out := o'; r_nstart := r_nstart (rget w m); r_ndone := nd |} (m_w m);
     m_call := vremove (w, cb) (m_call m); m_data := dt |}.

Lemma mon_commit m d p c cb a out : vassoc ((p, c), cb) (m_call m) = Some a ->
  mon_op m d (Commit p c cb) out =
  let w := (p, c) in
  let r := rget w m in
  let nd := if a then S (r_ndone r) else r_ndone r in
  match commit_kind w (ack_of w d) out with
  | KNone => (m_upd m d w cb nd (r_out r) (m_data m),
              if negb (r_out r) && negb (gone p d) && is_prun (r_phase r) && (if a then Nat.leb (d_ncb d) nd else true)
              then [CL_IGNORED] else [])
  | KApplied => (m_upd m d w cb nd true (Some w),
                 (if r_out r then [CL_TWICE] else []) ++
                 (if a && Nat.leb (d_ncb d) (r_nstart r) then [] else [CL_NOT_UNANIMOUS]))
  | KDenied => (m_upd m d w cb nd true (m_data m), (if r_out r then [CL_TWICE] else []) ++ (if a then [CL_SHAPE] else []))
  | KBad => (m_upd m d w cb nd (r_out r) (m_data m), [CL_SHAPE])
  end.
Proof. intros H. cbn [mon_op]. rewrite H. reflexivity. Qed.

(* rel for the state after a Commit, from the per-write facts *)
Lemma commit_rel s m w cb a pd' tl' tm' dt' nd o' :
  inv s -> rel s m -> In ((w, cb), a) (parked s) ->
  (forall w', w' <> w -> wmem w' pd' = wmem w' (pending s)) ->
  (forall w', w' <> w -> wassoc w' tl' = wassoc w' (tally s)) ->
  (forall w', w' <> w -> wassoc w' tm' = wassoc w' (timers s)) ->
  (wmem w pd' = true -> wmem w (pending s) = true) ->
  (wassoc w tm' = Some TExp \/ wassoc w tm' = Some TDone ->
   wassoc w (timers s) = Some TExp \/ wassoc w (timers s) = Some TDone) ->
  let s' := {| dz := dz s; pending := pd'; tally := tl'; timers := tm'; parked := vremove (w, cb) (parked s); data := dt' |} in
  let m' := m_upd m (dz s) w cb nd o' dt' in
  wrel s' m' w ->
  inv s' /\ rel s' m'.
Proof.
  intros I R Hin Hpd Htl Htm Hpw Htw s' m' Hw.
  assert (Haw : arrived w (dz s) = true) by (destruct (i_parked _ I _ _ Hin) as [_ Hx]; exact Hx).
  destruct (commit_rest s m w cb a pd' tl' tm' dt' m' I R Hin Hpd Htl Htm Hpw Htw) as [I' Hoth].
  { intros w' Hne. unfold m', m_upd. apply rget_upd_other. exact Hne. }
  split; [exact I'|].
  constructor; cbn [s' m' m_upd dz data parked m_d m_data m_call]; try reflexivity.
  - rewrite (r_call _ _ R). reflexivity.
  - intros w' Hw'. destruct (wid_dec w' w) as [->|Hne]; [exact Hw | apply Hoth; assumption].
  - apply (rarr_upd s m); auto.
Qed.

Lemma good_Commit s m p c cb : inv s -> rel s m -> step_good s m (Commit p c cb).
Proof.
  intros I R. unfold step_good. rewrite (mon_valid s m (Commit p c cb) _ R eq_refl). cbn [d_next].
  set (w := (p, c)).
  destruct (vassoc (w, cb) (parked s)) as [a|] eqn:Ev.
  2:{ unfold step, step_gen. cbn [d_ok negb d_next]. fold w. rewrite Ev. cbn [fst snd mon_op]. fold w.
      rewrite (r_call _ _ R), Ev. cbn [skipped_only to_gone flags has_drift has_stuck has_panic existsb obs_peer orb app].
      split; [reflexivity | split; assumption]. }
  rewrite (step_commit s p c cb a Ev). cbn zeta. fold w.
  assert (Evm : vassoc ((p, c), cb) (m_call m) = Some a) by (rewrite (r_call _ _ R); exact Ev).
  set (n := d_ncb (dz s)). set (tl := commit_tally n a w (tally s)). set (pk := vremove (w, cb) (parked s)).
  pose proof (vassoc_In_pair _ _ _ Ev) as Hin.
  destruct (i_parked _ I _ _ Hin) as [_ Haw]. cbn [fst] in Haw.
  pose proof (r_w _ _ R _ Haw) as W. unfold wrel, wrel_p in W. fold n in W.
  assert (Hic : incall w (parked s) = (incall w pk + (if a then 1 else 0))%nat)
    by exact (incall_vremove w cb (parked s) a (i_nodup _ I) Ev).
  destruct W as [Wn W].
  set (r := rget w m) in *.
  set (nd := if a then S (r_ndone r) else r_ndone r).
  assert (Hns : r_nstart r = (nd + incall w pk)%nat) by (unfold nd; rewrite Wn, Hic; destruct a; lia).
  (* frame facts about the tally *)
  assert (Htl_other : forall w', w' <> w -> wassoc w' tl = wassoc w' (tally s)).
  { intros w' Hne. unfold tl, commit_tally. destruct (Nat.ltb 1 n && a); [|reflexivity]. apply wassoc_wset_other. exact Hne. }
  assert (Htl2_other : forall w', w' <> w -> wassoc w' (wremove w tl) = wassoc w' (tally s)).
  { intros w' Hne. rewrite wassoc_wremove_other by exact Hne. apply Htl_other. exact Hne. }
  destruct (Nat.ltb 1 n && a && Nat.ltb (tally_get w tl) n) eqn:EA.
  - (* not enough approvals yet *)
    apply andb_true_iff in EA. destruct EA as [EA Elt]. apply andb_true_iff in EA. destruct EA as [E1 Ea]. subst a.
    apply Nat.ltb_lt in E1. apply Nat.ltb_lt in Elt.
    assert (Hty : tally_get w tl = S (tally_get w (tally s))).
    { unfold tl, commit_tally. replace (Nat.ltb 1 n) with true by (symmetry; apply Nat.ltb_lt; exact E1). cbn [andb].
      apply tally_get_wset_same. }
    cbn [fst snd]. rewrite (mon_commit m (dz s) p c cb true _ Evm). cbn zeta. fold w. rewrite ck_none. cbn [fst snd]. fold r. fold nd. rewrite (r_data _ _ R).
    assert (Hmust : negb (r_out r) && negb (gone p (dz s)) && is_prun (r_phase r) && Nat.leb (d_ncb (dz s)) nd = false).
    { fold n. destruct (wassoc w (timers s)) as [[| | |]|].
      - destruct W as (_ & _ & _ & _ & _ & Hy). specialize (Hy E1). unfold nd.
        replace (Nat.leb n (S (r_ndone r))) with false; [apply andb_false_r|].
        symmetry. apply Nat.leb_gt. lia.
      - destruct W as (Hph & _). rewrite Hph. cbn [is_prun]. rewrite andb_false_r. reflexivity.
      - destruct W as (Hph & _). rewrite Hph. cbn [is_prun]. rewrite andb_false_r. reflexivity.
      - destruct W as (_ & _ & Hog). change p with (fst w). apply orb_true_iff in Hog. destruct Hog as [-> | ->]; [reflexivity|].
        rewrite andb_false_r. reflexivity.
      - destruct W as (_ & Ho & _). rewrite Ho. reflexivity. }
    rewrite Hmust. cbn [to_gone flags has_drift has_stuck has_panic existsb obs_peer orb app].
    split; [reflexivity|].
    apply (commit_rel s m w cb true (pending s) tl (timers s) (data s) nd (r_out r) I R Hin); auto.
    unfold wrel, wrel_p, m_upd. cbn [dz timers pending tally parked]. rewrite rget_upd_same.
    cbn [r_phase r_out r_nstart r_ndone]. fold pk. fold n. split; [exact Hns|].
    destruct (wassoc w (timers s)) as [[| | |]|]; try exact W.
    destruct W as (Hph & Ho & Hg & Hp & Hlt & Hy). specialize (Hy E1).
    repeat split; auto; unfold nd; lia.
  - (* enough approvals, or a denial: the timer decides *)
    destruct (is_run (wassoc w (timers s))) eqn:Erun; cbn [negb].
    + (* stopped in time: this call produces the outcome *)
      destruct (wassoc w (timers s)) as [[| | |]|] eqn:Et; try discriminate. clear Erun.
      destruct W as (Hph & Ho & Hg & Hp & Hlt & Hy).
      assert (Hpd_other : forall w', w' <> w -> wmem w' (wdel w (pending s)) = wmem w' (pending s))
        by (intros w' Hne; apply wmem_wdel_other; exact Hne).
      assert (Htm_other : forall w', w' <> w -> wassoc w' (wset w TStop (timers s)) = wassoc w' (timers s))
        by (intros w' Hne; apply wassoc_wset_other; exact Hne).
      assert (Hnew : forall dt' : option wid,
                wrel {| dz := dz s; pending := wdel w (pending s); tally := wremove w tl; timers := wset w TStop (timers s);
                        parked := vremove (w, cb) (parked s); data := dt' |}
                     (m_upd m (dz s) w cb nd true dt') w).
      { intros dt'. unfold wrel, wrel_p, m_upd. cbn [dz timers pending tally parked]. rewrite rget_upd_same.
        rewrite wassoc_wset_same, wmem_wdel_same. cbn [r_phase r_out r_nstart r_ndone]. fold pk. fold r.
        split; [exact Hns|]. auto. }
      destruct a.
      * (* applied *)
        cbn [fst snd]. rewrite (mon_commit m (dz s) p c cb true _ Evm). cbn zeta. fold w.
        change (Applied p c) with (Applied (fst w) (snd w)). rewrite ck_applied. cbn [fst snd]. fold r. fold nd.
        rewrite Ho. cbn [andb app].
        assert (Hun : Nat.leb (d_ncb (dz s)) (r_nstart r) = true).
        { fold n. apply Nat.leb_le. pose proof (incall_pos w cb (parked s) Ev) as Hpos.
          destruct (Nat.ltb 1 n) eqn:E1.
          - apply Nat.ltb_lt in E1. specialize (Hy E1). cbn [andb] in EA. apply Nat.ltb_ge in EA.
            assert (Hty : tally_get w tl = S (tally_get w (tally s))).
            { unfold tl, commit_tally. rewrite (proj2 (Nat.ltb_lt 1 n) E1). cbn [andb]. apply tally_get_wset_same. }
            lia.
          - apply Nat.ltb_ge in E1. lia. }
        rewrite Hun.
        assert (Hq : to_gone (dz s) (ack_result (ack_of w (dz s)) w ++ [Applied (fst w) (snd w); Returned]) = false).
        { destruct (ack_of w (dz s)); cbn [ack_result app to_gone existsb obs_peer]; rewrite ?Hg; reflexivity. }
        rewrite Hq, flags_ack. cbn [flags has_drift has_stuck has_panic existsb app].
        split; [reflexivity|].
        apply (commit_rel s m w cb true (wdel w (pending s)) (wremove w tl) (wset w TStop (timers s)) (Some w) nd true I R Hin); auto.
        rewrite wassoc_wset_same. intros [Hx|Hx]; discriminate.
      * (* denied *)
        cbn [fst snd]. rewrite (mon_commit m (dz s) p c cb false _ Evm). cbn zeta. fold w.
        change (Result p c E_DENIED) with (Result (fst w) (snd w) E_DENIED). rewrite ck_denied. cbn [fst snd]. fold r. fold nd. rewrite (r_data _ _ R).
        rewrite Ho. cbn [app to_gone flags has_drift has_stuck has_panic existsb obs_peer orb]. rewrite Hg. cbn [app].
        split; [reflexivity|].
        apply (commit_rel s m w cb false (wdel w (pending s)) (wremove w tl) (wset w TStop (timers s)) (data s) nd true I R Hin); auto.
        rewrite wassoc_wset_same. intros [Hx|Hx]; discriminate.
    + (* the timer already fired, was stopped or never existed: nothing *)
      cbn [fst snd]. rewrite (mon_commit m (dz s) p c cb a _ Evm). cbn zeta. fold w. rewrite ck_none. cbn [fst snd]. fold r. fold nd. rewrite (r_data _ _ R).
      assert (Hmust : negb (r_out r) && negb (gone p (dz s)) && is_prun (r_phase r) &&
                      (if a then Nat.leb (d_ncb (dz s)) nd else true) = false).
      { change p with (fst w). destruct (wassoc w (timers s)) as [[| | |]|]; try discriminate.
        - destruct W as (Hph & _). rewrite Hph. cbn [is_prun]. rewrite andb_false_r. reflexivity.
        - destruct W as (Hph & _). rewrite Hph. cbn [is_prun]. rewrite andb_false_r. reflexivity.
        - destruct W as (_ & _ & Hog). apply orb_true_iff in Hog. destruct Hog as [-> | ->]; [reflexivity|].
          rewrite andb_false_r. reflexivity.
        - destruct W as (_ & Ho & _). rewrite Ho. reflexivity. }
      rewrite Hmust. cbn [to_gone flags has_drift has_stuck has_panic existsb obs_peer orb app].
      split; [reflexivity|].
      apply (commit_rel s m w cb a (pending s) (wremove w tl) (timers s) (data s) nd (r_out r) I R Hin); auto.
      unfold wrel, wrel_p, m_upd. cbn [dz timers pending tally parked]. rewrite rget_upd_same.
      cbn [r_phase r_out r_nstart r_ndone]. fold pk. fold n. split; [exact Hns|].
      destruct (wassoc w (timers s)) as [[| | |]|]; try discriminate; exact W.
Qed.

(* ------------------------------------------------------------------ every step, every trace *)

Lemma step_good_all s m o : inv s -> rel s m -> step_good s m o.
Proof.
  intros I R. destruct (d_ok (dz s) o) eqn:H.
  - destruct o.
    + apply good_AddCb; assumption.
    + apply good_Arrive; assumption.
    + apply good_Lookup; assumption.
    + apply good_Commit; assumption.
    + apply good_Expire; assumption.
    + apply good_Fire; assumption.
    + apply good_Clean; assumption.
    + apply good_Probe; assumption.
  - apply skipped_good; assumption.
Qed.

Lemma inv_init : inv init.
Proof.
  constructor; cbn; try discriminate; try tauto.
  - intros w [H|H]; discriminate.
  - constructor.
Qed.

Lemma rel_init : rel init minit.
Proof.
  constructor; cbn; try reflexivity; try discriminate.
Qed.

Lemma run_cons s o r :
  run s (o :: r) = (fst (run (fst (step s o)) r), (o, snd (step s o)) :: snd (run (fst (step s o)) r)).
Proof.
  unfold run. cbn [run_gen]. fold (step s o). destruct (step s o) as [s1 out]. cbn [fst snd].
  destruct (run_gen repaired s1 r) as [s2 tr]. reflexivity.
Qed.

Lemma judge_cons m sc o out tr :
  judge m sc ((o, out) :: tr) = (snd (mon m o out), []) :: judge (fst (mon m o out)) sc tr.
Proof. cbn [judge]. destruct (mon m o out). destruct sc. reflexivity. Qed.

Lemma run_strict ops : forall s m, inv s -> rel s m ->
  strictly_accepted (judge m sinit (snd (run s ops))) = true /\
  inv (fst (run s ops)) /\ rel (fst (run s ops)) (mrun m (snd (run s ops))).
Proof.
  induction ops as [|o r IH]; intros s m I R.
  - cbn. auto.
  - rewrite run_cons. cbn [fst snd]. rewrite judge_cons. cbn [mrun].
    destruct (step_good_all s m o I R) as (Hv & I' & R').
    destruct (IH _ _ I' R') as (Hacc & I2 & R2).
    split; [|split; assumption].
    cbn [strictly_accepted forallb fst]. rewrite Hv. exact Hacc.
Qed.

Lemma strict_accepted j : strictly_accepted j = true -> accepted j = true.
Proof.
  unfold strictly_accepted, accepted. induction j as [|[v e] j IH]; cbn; [reflexivity|].
  destruct v; [|discriminate]. intros H. cbn. apply IH. exact H.
Qed.

Lemma run_strictly_accepted ops : strictly_accepted (judge minit sinit (snd (run init ops))) = true.
Proof. apply (run_strict ops init minit inv_init rel_init). Qed.

Lemma run_accepted ops : accepted (judge minit sinit (snd (run init ops))) = true.
Proof. apply strict_accepted. apply run_strictly_accepted. Qed.

Lemma run_inv ops : inv (fst (run init ops)).
Proof. apply (run_strict ops init minit inv_init rel_init). Qed.

Lemma run_rel ops : rel (fst (run init ops)) (mrun minit (snd (run init ops))).
Proof. apply (run_strict ops init minit inv_init rel_init). Qed.
