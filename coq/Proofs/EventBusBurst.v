(* C15 — overlapping subscribe / unsubscribe calls ([Par acts]).

   Each call of a burst is one critical section under events.mu, so a burst that
   really overlaps is one of the serialisations of its calls - a permutation of
   the list.  For a burst whose calls commute ([par_ok]) every permutation leaves
   the same bus: the same core entries in the same order (the order in which
   Publish calls them), the same application entries up to order (they are started
   as goroutines: their order does not show), no pair twice.  So the model's
   choice - the order given - stands for every schedule, and every later
   publication is delivered to the same handlers. *)
From Verif Require Import Base.Prelude Model.EventBus Spec.EventBusSpec Proofs.EventBusProofs.
From Coq Require Import Sorting.Permutation.

(* ---------- the bus seen level by level ---------- *)

Definition sub_p (h : N) (p : list N) : list N := if memN h p then p else p ++ [h].
Definition unsub_p (h : N) (p : list N) : list N := filter (fun x => negb (N.eqb h x)) p.

Definition act_proj (l : level) (a : act) (p : list N) : list N :=
  match a with
  | ASub l' h => if level_eqb l l' then sub_p h p else p
  | AUnsub l' h => if level_eqb l l' then unsub_p h p else p
  | APub => p
  end.

Fixpoint par_proj (l : level) (acts : list act) (p : list N) : list N :=
  match acts with
  | [] => p
  | a :: r => par_proj l r (act_proj l a p)
  end.

Lemma handlers_of_app l b1 b2 : handlers_of l (b1 ++ b2) = handlers_of l b1 ++ handlers_of l b2.
Proof.
  induction b1 as [|[l' h] r IH]; simpl; [reflexivity|].
  destruct (level_eqb l l'); simpl; rewrite IH; reflexivity.
Qed.

Lemma level_eqb_refl l : level_eqb l l = true.
Proof. destruct l; reflexivity. Qed.

Lemma level_eqb_sym a b : level_eqb a b = level_eqb b a.
Proof. destruct a, b; reflexivity. Qed.

Lemma existsb_item_memN l h b : existsb (item_eqb (l, h)) b = memN h (handlers_of l b).
Proof.
  destruct (memN h (handlers_of l b)) eqn:E.
  - apply memN_In in E. apply handlers_of_In in E. apply mem_item_In. exact E.
  - destruct (existsb (item_eqb (l, h)) b) eqn:E'; [|reflexivity].
    apply (mem_item_In (l, h) b) in E'. apply handlers_of_In in E'. apply memN_In in E'. congruence.
Qed.

Lemma handlers_of_subscribe l l' h b :
  handlers_of l (subscribe (l', h) b) = if level_eqb l l' then sub_p h (handlers_of l b) else handlers_of l b.
Proof.
  unfold subscribe, sub_p. rewrite existsb_item_memN.
  destruct (level_eqb l l') eqn:El.
  - apply level_eqb_eq in El. subst l'. destruct (memN h (handlers_of l b)); [reflexivity|].
    rewrite handlers_of_app. simpl. rewrite level_eqb_refl. reflexivity.
  - destruct (memN h (handlers_of l' b)); [reflexivity|].
    rewrite handlers_of_app. simpl. rewrite El. apply app_nil_r.
Qed.

Lemma handlers_of_unsubscribe l l' h b :
  handlers_of l (unsubscribe (l', h) b) = if level_eqb l l' then unsub_p h (handlers_of l b) else handlers_of l b.
Proof.
  unfold unsubscribe, unsub_p. induction b as [|[l2 h2] r IH]; simpl.
  - destruct (level_eqb l l'); reflexivity.
  - unfold item_eqb at 1. cbn [fst snd].
    destruct (level_eqb l' l2) eqn:E2; cbn [andb negb].
    + apply level_eqb_eq in E2. subst l2. destruct (level_eqb l l') eqn:El.
      * destruct (N.eqb h h2) eqn:Eh; cbn [negb]; simpl; rewrite ?El, ?Eh; cbn [negb]; rewrite IH; reflexivity.
      * destruct (N.eqb h h2); cbn [negb]; simpl; rewrite ?El; exact IH.
    + simpl. destruct (level_eqb l l2) eqn:El2.
      * destruct (level_eqb l l') eqn:El.
        -- apply level_eqb_eq in El, El2. subst. rewrite level_eqb_refl in E2. discriminate.
        -- rewrite IH. reflexivity.
      * exact IH.
Qed.

Lemma handlers_of_act l a b : handlers_of l (act_bus a b) = act_proj l a (handlers_of l b).
Proof.
  destruct a as [l' h | l' h |]; cbn [act_bus act_proj];
    [apply handlers_of_subscribe | apply handlers_of_unsubscribe | reflexivity].
Qed.

Lemma handlers_of_par l acts : forall b, handlers_of l (par_bus acts b) = par_proj l acts (handlers_of l b).
Proof.
  induction acts as [|a r IH]; intros b; [reflexivity|].
  cbn [par_bus par_proj]. rewrite IH, handlers_of_act. reflexivity.
Qed.

Lemma par_bus_NoDup acts : forall b, NoDup b -> NoDup (par_bus acts b).
Proof.
  induction acts as [|a r IH]; intros b Hn; [exact Hn|].
  cbn [par_bus]. apply IH. destruct a as [l h | l h |]; cbn [act_bus];
    [apply subscribe_NoDup | apply unsubscribe_NoDup |]; exact Hn.
Qed.

(* ---------- single (un)subscriptions on one level ---------- *)

Lemma memN_perm h p p' : Permutation p p' -> memN h p = memN h p'.
Proof.
  intros HP. destruct (memN h p') eqn:E.
  - apply memN_In. apply memN_In in E. eapply Permutation_in; [apply Permutation_sym; exact HP | exact E].
  - destruct (memN h p) eqn:E'; [|reflexivity]. apply memN_In in E'.
    assert (memN h p' = true) as C by (apply memN_In; eapply Permutation_in; eassumption). congruence.
Qed.

Lemma filter_perm {A} (f : A -> bool) p p' : Permutation p p' -> Permutation (filter f p) (filter f p').
Proof.
  induction 1 as [| x p p' HP IH | x y p | p p' p'' H1 IH1 H2 IH2]; simpl.
  - constructor.
  - destruct (f x); [constructor|]; exact IH.
  - destruct (f x), (f y); try apply Permutation_refl. apply perm_swap.
  - eapply Permutation_trans; eassumption.
Qed.

Lemma sub_p_perm h p p' : Permutation p p' -> Permutation (sub_p h p) (sub_p h p').
Proof.
  intros HP. unfold sub_p. rewrite (memN_perm h p p' HP). destruct (memN h p'); [exact HP|].
  apply Permutation_app_tail. exact HP.
Qed.

Lemma act_proj_perm l a p p' : Permutation p p' -> Permutation (act_proj l a p) (act_proj l a p').
Proof.
  intros HP. destruct a as [l' h | l' h |]; cbn [act_proj]; [| |exact HP];
    destruct (level_eqb l l'); try exact HP; [apply sub_p_perm | apply filter_perm]; exact HP.
Qed.

Lemma par_proj_perm l acts : forall p p', Permutation p p' -> Permutation (par_proj l acts p) (par_proj l acts p').
Proof.
  induction acts as [|a r IH]; intros p p' HP; [exact HP|].
  cbn [par_proj]. apply IH. apply act_proj_perm. exact HP.
Qed.

Lemma memN_unsub_other h h' p : h <> h' -> memN h (unsub_p h' p) = memN h p.
Proof.
  intros Hne. destruct (memN h p) eqn:E.
  - apply memN_In. apply memN_In in E. unfold unsub_p. apply filter_In. split; [exact E|].
    apply negb_true_iff. apply N.eqb_neq. intros C. apply Hne. symmetry. exact C.
  - destruct (memN h (unsub_p h' p)) eqn:E'; [|reflexivity].
    apply memN_In in E'. unfold unsub_p in E'. apply filter_In in E'. destruct E' as [Hi _].
    apply memN_In in Hi. congruence.
Qed.

Lemma memN_sub_other h h' p : h <> h' -> memN h (sub_p h' p) = memN h p.
Proof.
  intros Hne. unfold sub_p. destruct (memN h' p); [reflexivity|].
  unfold memN. rewrite existsb_app. simpl. apply N.eqb_neq in Hne. rewrite Hne. rewrite !orb_false_r. reflexivity.
Qed.

Lemma unsub_p_app h p q : unsub_p h (p ++ q) = unsub_p h p ++ unsub_p h q.
Proof. unfold unsub_p. apply filter_app. Qed.

Lemma sub_unsub_comm h h' p : h <> h' -> sub_p h (unsub_p h' p) = unsub_p h' (sub_p h p).
Proof.
  intros Hne. unfold sub_p at 1. rewrite (memN_unsub_other h h' p Hne). unfold sub_p.
  destruct (memN h p); [reflexivity|].
  rewrite unsub_p_app. f_equal. unfold unsub_p. simpl.
  assert (N.eqb h' h = false) as E by (apply N.eqb_neq; intros C; apply Hne; symmetry; exact C).
  rewrite E. reflexivity.
Qed.

Lemma unsub_unsub_comm h h' p : unsub_p h (unsub_p h' p) = unsub_p h' (unsub_p h p).
Proof.
  unfold unsub_p. induction p as [|x r IH]; simpl; [reflexivity|].
  destruct (N.eqb h' x) eqn:E1, (N.eqb h x) eqn:E2; simpl; rewrite ?E1, ?E2; simpl; rewrite IH; reflexivity.
Qed.

Lemma sub_sub_perm h h' p : Permutation (sub_p h (sub_p h' p)) (sub_p h' (sub_p h p)).
Proof.
  destruct (N.eq_dec h h') as [E | Hne]; [subst; apply Permutation_refl|].
  assert (h' <> h) as Hne' by (intros C; apply Hne; symmetry; exact C).
  unfold sub_p at 1 3. rewrite (memN_sub_other h h' p Hne), (memN_sub_other h' h p Hne').
  unfold sub_p. destruct (memN h p), (memN h' p); try apply Permutation_refl.
  rewrite <- !app_assoc. apply Permutation_app_head. simpl. apply perm_swap.
Qed.

(* ---------- calls that commute ---------- *)

Lemma item_eqb_sym (i j : item) : item_eqb i j = item_eqb j i.
Proof.
  destruct (item_eqb j i) eqn:E.
  - apply item_eqb_eq in E. subst. apply item_eqb_refl.
  - apply item_eqb_neq. apply item_eqb_neq in E. intros C. apply E. symmetry. exact C.
Qed.

Lemma act_compat_sym a a' : act_compat a a' = act_compat a' a.
Proof.
  unfold act_compat. destruct (act_item a) as [i|], (act_item a') as [j|]; try reflexivity.
  rewrite (item_eqb_sym j i).
  destruct (act_is_sub a), (act_is_sub a'), (level_eqb (fst i) Core), (level_eqb (fst j) Core); reflexivity.
Qed.

Lemma act_compat_refl a i : act_item a = Some i -> act_compat a a = true.
Proof.
  intros H. unfold act_compat. rewrite H, item_eqb_refl.
  destruct (act_is_sub a), (level_eqb (fst i) Core); reflexivity.
Qed.

(* the calls of the burst commute pairwise (a statement about the burst as a multiset) *)
Definition commuting (acts : list act) : Prop :=
  forall a a', In a acts -> In a' acts -> act_compat a a' = true.

Lemma par_ok_commuting acts : par_ok acts = true -> commuting acts.
Proof.
  induction acts as [|x r IH]; intros H a a' Ha Ha'; [destruct Ha|].
  cbn [par_ok] in H. apply andb_true_iff in H. destruct H as [H H3].
  apply andb_true_iff in H. destruct H as [H1 H2].
  rewrite forallb_forall in H2.
  destruct Ha as [Ha | Ha], Ha' as [Ha' | Ha']; subst.
  - destruct (act_item a') as [i|] eqn:E; [|discriminate]. eapply act_compat_refl. exact E.
  - apply H2. exact Ha'.
  - rewrite act_compat_sym. apply H2. exact Ha.
  - apply IH; assumption.
Qed.

Lemma commuting_perm acts acts' : Permutation acts acts' -> commuting acts -> commuting acts'.
Proof.
  intros HP H a a' Ha Ha'. apply H; eapply Permutation_in; try eassumption; apply Permutation_sym; exact HP.
Qed.

Lemma commuting_tail a r : commuting (a :: r) -> commuting r.
Proof. intros H x y Hx Hy. apply H; right; assumption. Qed.

(* what [act_compat] says, case by case *)
Lemma compat_sub_sub l h l' h' :
  act_compat (ASub l h) (ASub l' h') = true -> l = Core -> l' = Core -> h = h'.
Proof.
  intros H E1 E2. subst. unfold act_compat in H. cbn in H. rewrite andb_true_iff in H. destruct H as [_ H].
  apply N.eqb_eq. exact H.
Qed.

Lemma compat_sub_unsub l h l' h' :
  act_compat (ASub l h) (AUnsub l' h') = true -> l = l' -> h <> h'.
Proof.
  intros H E C. subst. unfold act_compat in H. cbn in H. rewrite item_eqb_refl in H. discriminate.
Qed.

(* two commuting calls, either order: the same core entries, the same application entries up to order *)
Lemma swap_core a a' p :
  act_compat a a' = true -> act_proj Core a (act_proj Core a' p) = act_proj Core a' (act_proj Core a p).
Proof.
  intros H. destruct a as [l h | l h |], a' as [l' h' | l' h' |]; try discriminate H;
    destruct l, l'; cbn [act_proj level_eqb]; try reflexivity.
  - rewrite (compat_sub_sub _ _ _ _ H eq_refl eq_refl). reflexivity.
  - apply sub_unsub_comm. exact (compat_sub_unsub _ _ _ _ H eq_refl).
  - symmetry. apply sub_unsub_comm. rewrite act_compat_sym in H. exact (compat_sub_unsub _ _ _ _ H eq_refl).
  - apply unsub_unsub_comm.
Qed.

Lemma swap_app a a' p :
  act_compat a a' = true ->
  Permutation (act_proj App a (act_proj App a' p)) (act_proj App a' (act_proj App a p)).
Proof.
  intros H. destruct a as [l h | l h |], a' as [l' h' | l' h' |]; try discriminate H;
    destruct l, l'; cbn [act_proj level_eqb]; try apply Permutation_refl.
  - apply sub_sub_perm.
  - rewrite (sub_unsub_comm h h' p); [apply Permutation_refl|]. exact (compat_sub_unsub _ _ _ _ H eq_refl).
  - rewrite (sub_unsub_comm h' h p); [apply Permutation_refl|].
    rewrite act_compat_sym in H. exact (compat_sub_unsub _ _ _ _ H eq_refl).
  - rewrite unsub_unsub_comm. apply Permutation_refl.
Qed.

(* ---------- every serialisation of a commuting burst ---------- *)

Lemma par_core_perm acts acts' :
  Permutation acts acts' -> commuting acts -> forall p, par_proj Core acts p = par_proj Core acts' p.
Proof.
  induction 1 as [| x r r' HP IH | x y r | r r' r'' H1 IH1 H2 IH2]; intros Hc p.
  - reflexivity.
  - cbn [par_proj]. apply IH. exact (commuting_tail _ _ Hc).
  - cbn [par_proj]. rewrite (swap_core x y p); [reflexivity|]. apply Hc; [right; left | left]; reflexivity.
  - rewrite IH1 by exact Hc. apply IH2. eapply commuting_perm; eassumption.
Qed.

Lemma par_app_perm acts acts' :
  Permutation acts acts' -> commuting acts ->
  forall p, Permutation (par_proj App acts p) (par_proj App acts' p).
Proof.
  induction 1 as [| x r r' HP IH | x y r | r r' r'' H1 IH1 H2 IH2]; intros Hc p.
  - apply Permutation_refl.
  - cbn [par_proj]. apply IH. exact (commuting_tail _ _ Hc).
  - cbn [par_proj]. apply par_proj_perm. apply swap_app. apply Hc; [right; left | left]; reflexivity.
  - eapply Permutation_trans; [apply IH1; exact Hc|]. apply IH2. eapply commuting_perm; eassumption.
Qed.

Lemma In_bus_proj (i : item) b : In i b <-> In (snd i) (handlers_of (fst i) b).
Proof. destruct i as [l h]. simpl. symmetry. apply handlers_of_In. Qed.

(* the same pairs, whatever the order (no hypothesis on the bus) *)
Lemma burst_members acts acts' b :
  par_ok acts = true -> Permutation acts acts' ->
  handlers_of Core (par_bus acts' b) = handlers_of Core (par_bus acts b) /\
  Permutation (handlers_of App (par_bus acts' b)) (handlers_of App (par_bus acts b)) /\
  forall j, In j (par_bus acts' b) <-> In j (par_bus acts b).
Proof.
  intros Hok HP. pose proof (par_ok_commuting _ Hok) as Hc.
  assert (handlers_of Core (par_bus acts' b) = handlers_of Core (par_bus acts b)) as H1.
  { rewrite !handlers_of_par. symmetry. apply par_core_perm; assumption. }
  assert (Permutation (handlers_of App (par_bus acts' b)) (handlers_of App (par_bus acts b))) as H2.
  { rewrite !handlers_of_par. apply Permutation_sym. apply par_app_perm; assumption. }
  split; [exact H1 | split; [exact H2|]].
  intros j. rewrite !In_bus_proj. destruct j as [[|] h]; cbn [fst snd].
  - rewrite H1. tauto.
  - split; intros Hi; eapply Permutation_in; try exact Hi; [exact H2 | apply Permutation_sym; exact H2].
Qed.

(* The burst theorem: any order in which the calls of a well-posed burst take effect leaves
   a bus with the same core handlers in the same order, the same application handlers,
   the same pairs altogether, and none twice. *)
Theorem burst_any_interleaving : forall acts acts' b,
  par_ok acts = true -> Permutation acts acts' -> NoDup b ->
  handlers_of Core (par_bus acts' b) = handlers_of Core (par_bus acts b) /\
  Permutation (handlers_of App (par_bus acts' b)) (handlers_of App (par_bus acts b)) /\
  Permutation (par_bus acts' b) (par_bus acts b) /\
  NoDup (par_bus acts' b).
Proof.
  intros acts acts' b Hok HP Hn. destruct (burst_members acts acts' b Hok HP) as [H1 [H2 H3]].
  split; [exact H1 | split; [exact H2 | split; [|apply par_bus_NoDup; exact Hn]]].
  apply NoDup_Permutation; [apply par_bus_NoDup; exact Hn | apply par_bus_NoDup; exact Hn | exact H3].
Qed.

(* ... and therefore the same expectations for every later publication: the monitor's set
   (what it copies as the expectation of the next Publish) has the same members after the
   burst, in whatever order the calls are reported *)
Lemma mon_list_par acts : forall i m,
  exists m', mon_list m (par_obs i acts) = (m', []) /\
    forall b, (forall j, In j (m_set m) <-> In j b) -> forall j, In j (m_set m') <-> In j (par_bus acts b).
Proof.
  induction acts as [|a r IH]; intros i m.
  - exists m. split; [reflexivity|]. intros b Hb. exact Hb.
  - destruct a as [l h | l h |]; cbn [par_obs par_bus act_bus mon_list mon_obs].
    + destruct (IH (N.succ i) (m_setto m (set_add (l, h) (m_set m)))) as [m' [Hm H5]].
      exists m'. unfold m_setto in Hm. rewrite Hm. split; [reflexivity|]. intros b Hb. apply H5.
      intros j'. cbn [m_setto m_set]. rewrite set_add_In, subscribe_In, (Hb j'). tauto.
    + destruct (IH (N.succ i) (m_setto m (set_remove (l, h) (m_set m)))) as [m' [Hm H5]].
      exists m'. unfold m_setto in Hm. rewrite Hm. split; [reflexivity|]. intros b Hb. apply H5.
      intros j'. cbn [m_setto m_set]. rewrite set_remove_In, unsubscribe_In, (Hb j'). tauto.
    + apply IH.
Qed.

Theorem burst_same_expectations : forall acts acts' i i' m j,
  par_ok acts = true -> Permutation acts acts' ->
  In j (m_set (fst (mon_list m (par_obs i' acts')))) <-> In j (m_set (fst (mon_list m (par_obs i acts)))).
Proof.
  intros acts acts' i i' m j Hok HP.
  destruct (mon_list_par acts i m) as [m1 [Hm1 H1]].
  destruct (mon_list_par acts' i' m) as [m2 [Hm2 H2]].
  rewrite Hm1, Hm2. cbn [fst].
  rewrite (H1 (m_set m) (fun _ => iff_refl _) j), (H2 (m_set m) (fun _ => iff_refl _) j).
  apply (burst_members acts acts' (m_set m) Hok HP).
Qed.

(* k overlapping subscriptions of one pair are one subscription *)
Theorem burst_same_pair : forall l h k b,
  par_bus (repeat (ASub l h) (S k)) b = subscribe (l, h) b.
Proof.
  intros l h k. induction k as [|k IH]; intros b; [reflexivity|].
  change (par_bus (repeat (ASub l h) (S (S k))) b) with (par_bus (repeat (ASub l h) (S k)) (subscribe (l, h) b)).
  rewrite IH. apply subscribe_idem.
Qed.

Lemma par_ok_same_pair l h k : par_ok (repeat (ASub l h) k) = true.
Proof.
  induction k as [|k IH]; [reflexivity|]. cbn [repeat par_ok act_item andb]. rewrite IH, andb_true_r.
  apply forallb_forall. intros a Ha. apply repeat_spec in Ha. subst a.
  eapply act_compat_refl. reflexivity.
Qed.
