(* C02 — histories: every trace of the store model is accepted by the monitor of
   Spec/UpdateSpec.v outside the recorded scope.  (Separate from UpdateRun.v because the
   remote-write case uses the C04 development.) *)
From Verif Require Import Base.Prelude Model.Schema Model.Update Model.FunctionStore Spec.UpdateSpec Spec.WriteSpec
  Proofs.UpdateBasics Proofs.UpdateRefine Proofs.UpdateStep Proofs.UpdateRun Proofs.WriteProofs Proofs.WriteRun.
From Coq Require Import Sorting.Sorted Sorting.Permutation.


Ltac oos_case Hs1s Hs1d Hprev1 :=
  unfold RInv; cbn [m_sch m_direct m_prev m_map sc_sch sc_direct sc_oos]; rewrite ?Hs1s, ?Hs1d;
  split; [first [assumption | reflexivity]|]; split; [first [assumption | reflexivity]|]; split; [first [assumption | reflexivity]|]; split; [first [assumption | reflexivity]|];
  split; [exact Hprev1|]; let Hd := fresh "Hd" in intros Hd; try discriminate;
  match goal with E : sc_oos _ = true |- _ => rewrite E in Hd; discriminate end.

Lemma step_ok s mm sc o :
  RInv s mm sc ->
  let '(s1, out) := step s o in
  let '(mm1, v) := mon mm o out in
  let sc1 := scope sc o in
  excused v (excuses sc1) = true /\ RInv s1 mm1 sc1.
Proof.
  intros (Hms & Hmd & Hss & Hsd & Hprev & Hin).
  assert (Hcase : sc_oos sc = true \/ sc_oos sc = false) by (destruct (sc_oos sc); auto).
  destruct o as [ty d|remote persist wire u|].
  - (* Init *)
    cbn. split; [reflexivity|]. unfold RInv. cbn.
    split; [reflexivity|]. split; [reflexivity|]. split; [reflexivity|]. split; [reflexivity|].
    split; [intros u0 l0 H0; discriminate|].
    intros H0. apply negb_false_iff in H0. split; [exact H0|].
    split; [destruct d; apply Inv_nil | intros u0 l0 H1; discriminate].
  - (* Update *)
    destruct remote.
    { (* remote write: judged by C04; here a rejected one leaves the data as it was and an accepted
         one re-starts the fold from the data it leaves *)
      cbn [step].
      destruct (update_data s true persist u) as [s1 out0] eqn:Eud.
      destruct (update_data_obs s true persist u) as [c [rest [Hout Hrest]]]. rewrite Eud in Hout. cbn [snd] in Hout. subst out0.
      destruct (update_data_fields s true persist u) as [Hs1s Hs1d]. rewrite Eud in Hs1s, Hs1d. cbn [fst] in Hs1s, Hs1d.
      cbn [app mon]. rewrite (stored_app_ret rest (store s1) _ Hrest).
      change (match store s1 with Some l => l | None => [] end) with (storel s1).
      cbn [negb andb]. rewrite Hms, Hmd.
      assert (Hidem : match m_prev mm with Some (u', l') => [] | None => [] end = ([] : list Z)) by (destruct (m_prev mm) as [[? ?]|]; reflexivity).
      rewrite Hidem.
      assert (Hoos : forall m1 oos, oos = true ->
                RInv s1 {| m_sch := sch s; m_direct := direct s; m_map := m1; m_prev := None |}
                        {| sc_sch := sch s; sc_direct := direct s; sc_oos := oos |}).
      { intros m1 oos ->. unfold RInv. cbn [m_sch m_direct m_prev m_map sc_sch sc_direct sc_oos]. rewrite Hs1s, Hs1d.
        split; [reflexivity|]. split; [reflexivity|]. split; [reflexivity|]. split; [reflexivity|].
        split; [intros u0 l0 H0; discriminate | intros H0; discriminate]. }
      assert (Hinsc : forall m1 oos, oos = false -> wf_schema (sch s) = true -> Inv (sch s) (storel s1) m1 ->
                RInv s1 {| m_sch := sch s; m_direct := direct s; m_map := m1; m_prev := None |}
                        {| sc_sch := sch s; sc_direct := direct s; sc_oos := oos |}).
      { intros m1 oos -> Hw HI1. unfold RInv. cbn [m_sch m_direct m_prev m_map sc_sch sc_direct sc_oos]. rewrite Hs1s, Hs1d.
        split; [reflexivity|]. split; [reflexivity|]. split; [reflexivity|]. split; [reflexivity|].
        split; [intros u0 l0 H0; discriminate|]. intros _. split; [exact Hw|]. split; [exact HI1|]. intros u0 l0 H0; discriminate. }
      cbn [scope]. destruct persist.
      2:{ (* not persisted *)
        cbn [negb andb]. cbv iota.
        assert (Hs1 : s1 = s).
        { revert Eud. unfold update_data.
          assert (Hf : negb (direct s) && is_full false u = false) by (unfold is_full; cbn; apply andb_false_r).
          rewrite Hf. destruct (update_list (sch s) true _ (u_new u) (u_fp u) (u_fd u)) as [[d0 [|]]|]; intros E; inversion E; reflexivity. }
        subst s1. destruct Hcase as [Eo|Eo].
        - split; [unfold excuses; rewrite Eo; apply (excused_four _ _ _ []); left; reflexivity|].
          destruct sc as [a b o0]. cbn in *. subst. apply Hoos. reflexivity.
        - destruct (Hin Eo) as [Hwf [HI _]].
          split; [rewrite (Inv_same_map _ _ _ HI), (Inv_unique _ _ _ HI), (Inv_ordered _ _ _ HI); reflexivity|].
          destruct sc as [a b o0]. cbn in *. subst. apply Hinsc; [reflexivity | exact Hwf | exact HI]. }
      cbn [negb andb]. cbv iota. rewrite Hss, Hsd.
      destruct (wf_update (sch s) (negb (direct s) && is_full true u) u) eqn:Ewu.
      2:{ destruct (rejected_shape u) eqn:Erj; [|cbn [excuses sc_oos]; split; [apply (excused_four _ _ _ []); left; reflexivity | apply Hoos; reflexivity]].
          destruct (rejected_update s true u Erj) as [c0 [Er Hc]]. rewrite Er in Eud. inversion Eud. subst s1 c rest.
          assert (Hc0 : N.eqb c0 0 = false) by (apply N.eqb_neq; exact Hc). rewrite Hc0. cbv iota.
          destruct Hcase as [Eo|Eo].
          - split; [unfold excuses; rewrite Eo; apply (excused_four _ _ _ []); left; reflexivity|].
            destruct sc as [a b o0]. cbn in *. subst. apply Hoos. reflexivity.
          - destruct (Hin Eo) as [Hwf [HI _]]. unfold excuses; rewrite Eo.
            split; [rewrite (Inv_same_map _ _ _ HI), (Inv_unique _ _ _ HI), (Inv_ordered _ _ _ HI); reflexivity|].
            destruct sc as [a b o0]. cbn in *. subst. apply Hinsc; [reflexivity | exact Hwf | exact HI]. }
      destruct (negb (direct s) && is_full true u) eqn:Efull.
      - (* full remote write: the list becomes the data *)
        assert (Hs1 : storel s1 = u_new u /\ c = 0%N).
        { revert Eud. unfold update_data. rewrite Efull. intros E. inversion E. split; reflexivity. }
        destruct Hs1 as [Hst ->]. cbn [N.eqb]. cbv iota.
        cbn [sc_oos excuses]. destruct (negb (wf_schema (sch s))) eqn:Ew.
        + split; [apply (excused_four _ _ _ []); left; reflexivity | apply Hoos; reflexivity].
        + apply negb_false_iff in Ew.
          assert (Hfu : is_full true u = true) by (apply andb_true_iff in Efull; apply Efull).
          destruct (is_full_parts _ _ Hfu) as [_ [Hfp Hfd]].
          destruct (wf_update_full _ _ Ewu Hfp Hfd) as [Hwi Hord].
          assert (HI1 : Inv (sch s) (storel s1) (of_list (sch s) (storel s1))).
          { rewrite Hst. apply (Inv_of_list (sch s)); [apply (wf_items_lwf (sch s)); exact Hwi | exact Hord]. }
          split; [rewrite (Inv_same_map _ _ _ HI1), (Inv_unique _ _ _ HI1), (Inv_ordered _ _ _ HI1); reflexivity|].
          apply Hinsc; [reflexivity | exact Ew | exact HI1].
      - (* partial / selector / delete remote write *)
        destruct Hcase as [Eo|Eo].
        + split; [unfold excuses; rewrite Eo; apply (excused_four _ _ _ []); left; reflexivity|].
          destruct sc as [a b o0]. cbn in *. subst. apply Hoos. reflexivity.
        + destruct (Hin Eo) as [Hwf [HI _]]. pose proof HI as [Hl [Ho _]].
          pose proof (update_data_remote s u Hwf Hl Ho Efull Ewu) as Hcases. cbv zeta in Hcases. rewrite Eud in Hcases. cbn [fst snd] in Hcases.
          unfold excuses; rewrite Eo.
          destruct Hcases as [[d [Hob [Hst [_ [Hld [Hod _]]]]]]|[c0 [Hob [Hc [-> _]]]]].
          * inversion Hob. subst c rest. cbn [N.eqb]. cbv iota.
            assert (HI1 : Inv (sch s) (storel s1) (of_list (sch s) (storel s1))).
            { rewrite Hst. apply (Inv_of_list (sch s)); assumption. }
            split; [rewrite (Inv_same_map _ _ _ HI1), (Inv_unique _ _ _ HI1), (Inv_ordered _ _ _ HI1); reflexivity|].
            destruct sc as [a b o0]. cbn in *. subst. apply Hinsc; [reflexivity | exact Hwf | exact HI1].
          * inversion Hob. subst c rest.
            assert (Hc0 : N.eqb c0 0 = false) by (apply N.eqb_neq; exact Hc). rewrite Hc0. cbv iota.
            split; [rewrite (Inv_same_map _ _ _ HI), (Inv_unique _ _ _ HI), (Inv_ordered _ _ _ HI); reflexivity|].
            destruct sc as [a b o0]. cbn in *. subst. apply Hinsc; [reflexivity | exact Hwf | exact HI]. }
    cbn [step].
    destruct (update_data s false persist u) as [s1 out0] eqn:Eud.
    destruct (update_data_obs s false persist u) as [c [rest [Hout Hrest]]]. rewrite Eud in Hout. cbn [snd] in Hout. subst out0.
    destruct (update_data_fields s false persist u) as [Hs1s Hs1d]. rewrite Eud in Hs1s, Hs1d. cbn [fst] in Hs1s, Hs1d.
    cbn [app mon]. rewrite (stored_app_ret rest (store s1) _ Hrest).
    change (match store s1 with Some l => l | None => [] end) with (storel s1).
    cbn [negb andb]. cbv iota.
    set (applied := persist && N.eqb c 0).
    set (full := negb (m_direct mm) && is_full persist u).
    set (m' := if applied then spec_apply (m_sch mm) full u (m_map mm) else m_map mm).
    set (idem := match m_prev mm with
                 | Some (u', l') => if applied && eqb_upd u u' && simple u && negb (eqb_items (storel s1) l') then [CL_IDEM] else []
                 | None => [] end).
    assert (Hidem : idem = [] \/ idem = [CL_IDEM]).
    { subst idem. destruct (m_prev mm) as [[u' l']|]; [|left; reflexivity].
      destruct (applied && eqb_upd u u' && simple u && negb (eqb_items (storel s1) l')); [right | left]; reflexivity. }
    (* the unconditional part of the invariant for the new state *)
    assert (Hprev1 : forall u0 l0, (if applied then Some (u, storel s1) else None) = Some (u0, l0) ->
                       l0 = storel s1 /\ (negb (direct s) && is_full true u0 = true -> l0 = u_new u0)).
    { intros u0 l0 H. destruct applied eqn:Ea; [|discriminate]. inversion H. subst u0 l0. split; [reflexivity|].
      intros Hf. subst applied. apply andb_true_iff in Ea. destruct Ea as [-> Ec].
      revert Eud. unfold update_data.
      rewrite Hf. intros Eud. inversion Eud. reflexivity. }
    cbn [scope]. destruct persist.
    2:{ (* not persisted: nothing is applied, nothing stored *)
      change (negb false) with true. cbv iota.
      assert (Hs1 : storel s1 = storel s /\ s1 = s).
      { revert Eud. unfold update_data.
        assert (Hf : negb (direct s) && is_full false u = false) by (unfold is_full; cbn; apply andb_false_r).
        rewrite Hf. destruct (update_list (sch s) false _ (u_new u) (u_fp u) (u_fd u)) as [[d0 [|]]|]; intros E; inversion E; split; reflexivity. }
      destruct Hs1 as [Hst ->]. subst applied. cbn [andb] in *. subst m' idem.
      assert (Hid2 : match m_prev mm with Some (u', l') => [] | None => [] end = ([] : list Z)) by (destruct (m_prev mm) as [[? ?]|]; reflexivity).
      split.
      - destruct Hcase as [Eo|Eo].
        + unfold excuses; try rewrite Eo. apply excused_four. destruct (m_prev mm) as [[? ?]|]; left; reflexivity.
        + destruct (Hin Eo) as [Hwf [HI _]]. rewrite Hms.
          rewrite (Inv_same_map _ _ _ HI), (Inv_unique _ _ _ HI), (Inv_ordered _ _ _ HI).
          destruct (m_prev mm) as [[? ?]|]; reflexivity.
      - unfold RInv. cbn [m_sch m_direct m_prev m_map].
        split; [first [assumption | reflexivity]|]. split; [first [assumption | reflexivity]|]. split; [first [assumption | reflexivity]|]. split; [first [assumption | reflexivity]|].
        split; [intros u0 l0 H0; discriminate|].
        intros Eo. destruct (Hin Eo) as [Hwf [HI _]]. split; [exact Hwf|]. split; [exact HI|]. intros u0 l0 H0; discriminate. }
    (* persisted local update *)
    change (negb true) with false. cbv iota.
    rewrite Hss, Hsd.
    destruct (wf_update (sch s) (negb (direct s) && is_full true u) u) eqn:Ewu.
    2:{ destruct (rejected_shape u) eqn:Erj; [|cbn [excuses sc_oos]; split; [apply excused_four; exact Hidem | oos_case Hs1s Hs1d Hprev1]].
        destruct (rejected_update s false u Erj) as [c0 [Er Hc]]. rewrite Er in Eud. inversion Eud. subst s1 c rest.
        assert (Hc0 : N.eqb c0 0 = false) by (apply N.eqb_neq; exact Hc).
        subst applied full m' idem. rewrite Hc0 in *. cbn [andb] in *.
        destruct Hcase as [Eo|Eo].
        - split; [unfold excuses; rewrite Eo; apply excused_four; destruct (m_prev mm) as [[? ?]|]; left; reflexivity|].
          unfold RInv. cbn [m_sch m_direct m_prev m_map].
          split; [first [assumption | reflexivity]|]. split; [first [assumption | reflexivity]|].
          split; [first [assumption | reflexivity]|]. split; [first [assumption | reflexivity]|].
          split; [intros u0 l0 H0; discriminate|]. intros H0. rewrite Eo in H0. discriminate.
        - destruct (Hin Eo) as [Hwf [HI _]]. unfold excuses; rewrite Eo.
          split.
          + rewrite Hms. rewrite (Inv_same_map _ _ _ HI), (Inv_unique _ _ _ HI), (Inv_ordered _ _ _ HI).
            destruct (m_prev mm) as [[? ?]|]; reflexivity.
          + unfold RInv. cbn [m_sch m_direct m_prev m_map].
            split; [first [assumption | reflexivity]|]. split; [first [assumption | reflexivity]|].
            split; [first [assumption | reflexivity]|]. split; [first [assumption | reflexivity]|].
            split; [intros u0 l0 H0; discriminate|].
            intros _. split; [exact Hwf|]. split; [exact HI|]. intros u0 l0 H0; discriminate. }
    destruct (negb (direct s) && is_full true u) eqn:Efull.
    + (* full update: the list becomes the data *)
      assert (Hs1 : storel s1 = u_new u /\ c = 0%N).
      { revert Eud. unfold update_data. rewrite Efull.
        intros E. inversion E. split; reflexivity. }
      destruct Hs1 as [Hst ->].
      cbn [sc_oos excuses]. destruct (negb (wf_schema (sch s))) eqn:Ew.
      * split; [apply excused_four; exact Hidem|].
        oos_case Hs1s Hs1d Hprev1.
      * apply negb_false_iff in Ew.
        assert (Hfu : is_full true u = true) by (apply andb_true_iff in Efull; apply Efull).
        assert (Hfl : filter_data (u_fp u) = None /\ u_fd u = None).
        { unfold is_full in Hfu. cbn [andb] in Hfu. apply andb_true_iff in Hfu. destruct Hfu as [H1 H2].
          destruct (u_fp u); [discriminate|]. destruct (u_fd u); [discriminate|]. split; reflexivity. }
        destruct Hfl as [Hfp Hfd].
        assert (Hl : wf_items (sch s) (u_new u) = true /\ ordered (sch s) (u_new u) = true).
        { Transparent wf_update ordered. unfold wf_update in Ewu. rewrite Hfp, Hfd in Ewu.
          apply andb_true_iff in Ewu. destruct Ewu as [_ Ewu]. apply andb_true_iff in Ewu. exact Ewu. }
        Opaque wf_update ordered.
        destruct Hl as [Hwi Hord].
        assert (HI1 : Inv (sch s) (u_new u) (of_list (sch s) (u_new u))).
        { apply (Inv_of_list (sch s)); [apply (wf_items_lwf (sch s)); exact Hwi | exact Hord]. }
        subst applied full m'. cbn [andb N.eqb]. rewrite Hms, Hmd, Efull.
        assert (Hsa : spec_apply (sch s) true u (m_map mm) = of_list (sch s) (u_new u)).
        { Transparent spec_apply. reflexivity. }
        Opaque spec_apply.
        rewrite Hsa, Hst.
        split.
        -- rewrite (Inv_same_map _ _ _ HI1), (Inv_unique _ _ _ HI1), (Inv_ordered _ _ _ HI1). cbn [app].
           subst idem. cbn [andb N.eqb]. destruct (m_prev mm) as [[u' l']|] eqn:Ep; [|reflexivity].
           rewrite Hst. destruct (eqb_upd u u') eqn:Eu; [|reflexivity]. apply eqb_upd_eq in Eu. subst u'.
           destruct (Hprev u l' eq_refl) as [_ Hl']. rewrite (Hl' Efull), eqb_items_refl.
           destruct (simple u); reflexivity.
        -- unfold RInv. cbn [m_sch m_direct m_prev m_map sc_sch sc_direct sc_oos]. rewrite Hs1s, Hs1d.
           split; [first [assumption | reflexivity]|]. split; [first [assumption | reflexivity]|]. split; [reflexivity|]. split; [reflexivity|].
           split.
           { intros u0 l0 H. inversion H. subst u0 l0. split; [symmetry; exact Hst | intros _; reflexivity]. }
           intros _. split; [exact Ew|]. split; [rewrite Hst; exact HI1|].
           intros u0 l0 H _. inversion H. subst u0 l0. unfold stable.
           unfold update_data. rewrite Hs1d, Efull. cbn [fst storel store]. symmetry. exact Hst.
    + (* partial / delete update: the scope is what it was *)
      destruct Hcase as [Eo|Eo].
      * unfold excuses; try rewrite Eo. split; [apply excused_four; exact Hidem|].
        oos_case Hs1s Hs1d Hprev1.
      * destruct (Hin Eo) as [Hwf [HI Hstab]].
        pose proof (update_data_local s (m_map mm) u Hwf HI Efull Ewu) as Hcases. cbv zeta in Hcases. rewrite Eud in Hcases. cbn [fst snd] in Hcases.
        unfold excuses; try rewrite Eo.
        destruct Hcases as [[d [Ho [Hst [HId Hstb]]]]|[c0 [Ho [Hc ->]]]].
        -- inversion Ho. subst c rest. subst applied full m'. cbn [andb N.eqb]. rewrite Hms, Hmd, Efull, Hst.
           split.
           ++ rewrite (Inv_same_map _ _ _ HId), (Inv_unique _ _ _ HId), (Inv_ordered _ _ _ HId). cbn [app].
              subst idem. cbn [andb N.eqb]. destruct (m_prev mm) as [[u' l']|] eqn:Ep; [|reflexivity].
              rewrite Hst. destruct (eqb_upd u u') eqn:Eu; [|reflexivity]. apply eqb_upd_eq in Eu. subst u'.
              destruct (simple u) eqn:Esi; [|reflexivity].
              destruct (Hprev u l' eq_refl) as [Hl' _]. pose proof (Hstab u l' eq_refl Esi) as Hsb. unfold stable in Hsb.
              rewrite Eud in Hsb. cbn [fst] in Hsb. rewrite Hst in Hsb. rewrite Hl', <- Hsb, eqb_items_refl. reflexivity.
           ++ unfold RInv. cbn [m_sch m_direct m_prev m_map]. rewrite Hs1s, Hs1d.
              split; [first [assumption | reflexivity]|]. split; [first [assumption | reflexivity]|]. split; [first [assumption | reflexivity]|]. split; [first [assumption | reflexivity]|].
              split.
              { intros u0 l0 H. inversion H. subst u0 l0. split; [symmetry; exact Hst|]. rewrite ?Hs1d, Efull. discriminate. }
              intros _. rewrite Hst. split; [exact Hwf|]. split; [exact HId|].
              intros u0 l0 H Hsi. inversion H. subst u0 l0. apply Hstb. exact Hsi.
        -- inversion Ho. subst c rest. subst applied full m' idem.
           assert (Hc0 : N.eqb c0 0 = false) by (apply N.eqb_neq; exact Hc). rewrite Hc0. cbn [andb].
           split.
           ++ rewrite Hms. rewrite (Inv_same_map _ _ _ HI), (Inv_unique _ _ _ HI), (Inv_ordered _ _ _ HI).
              destruct (m_prev mm) as [[? ?]|]; reflexivity.
           ++ unfold RInv. cbn [m_sch m_direct m_prev m_map].
              split; [first [assumption | reflexivity]|]. split; [first [assumption | reflexivity]|].
              split; [first [assumption | reflexivity]|]. split; [first [assumption | reflexivity]|].
              split; [intros u0 l0 H0; discriminate|].
              intros _. split; [exact Hwf|]. split; [exact HI|]. intros u0 l0 H0; discriminate.
  - (* Snapshot *)
    cbn. change (match store s with Some l => l | None => [] end) with (storel s). split.
    + destruct Hcase as [Eo|Eo]; unfold excuses; try rewrite Eo.
      * destruct (same_map (m_sch mm) (storel s) (m_map mm)); reflexivity.
      * destruct (Hin Eo) as [_ [HI _]]. rewrite Hms, (Inv_same_map _ _ _ HI). reflexivity.
    + unfold RInv. split; [assumption|]. split; [assumption|]. split; [assumption|]. split; [assumption|].
      split; [exact Hprev | exact Hin].
Qed.

Theorem run_accepted_from s mm sc ops :
  RInv s mm sc -> accepted (judge mm sc (snd (run s ops))) = true.
Proof.
  revert s mm sc. induction ops as [|o r IH]; intros s mm sc HR; [reflexivity|].
  cbn [run]. pose proof (step_ok s mm sc o HR) as Hstep.
  destruct (step s o) as [s1 out]. destruct (run s1 r) as [s2 tr] eqn:Er. cbn [snd judge].
  destruct (mon mm o out) as [mm1 v]. cbv zeta in Hstep. destruct Hstep as [Hv HR1].
  unfold accepted. cbn [forallb fst snd]. rewrite Hv. cbn [andb].
  specialize (IH s1 mm1 (scope sc o) HR1). rewrite Er in IH. exact IH.
Qed.

Theorem run_accepted : forall ops, accepted (judge minit sinit (snd (run init ops))) = true.
Proof. intros ops. apply run_accepted_from. apply RInv_init. Qed.
