(* C09: every trace of the product machine the driver runs is accepted by the product
   monitor — by the two component theorems. *)
From Verif Require Import Base.Prelude Base.Machine Model.C09Machine Spec.C09MachineSpec.
From Verif Require Model.Stack Model.StackX Model.BindSched Spec.C09Spec Spec.StackXSpec Spec.BindSchedSpec Proofs.C09Proofs Proofs.BindSchedProofs Proofs.StackXProofs.

Lemma option_all_some {A B} (f : A -> B) (g : B -> option A) l :
  (forall x, g (f x) = Some x) -> option_all (map g (map f l)) = Some l.
Proof. intros H. induction l as [|x l IH]; simpl; [reflexivity|]. rewrite H, IH. reflexivity. Qed.

Lemma stack_obs_SO l : stack_obs (map SO l) = Some l.
Proof. unfold stack_obs. apply option_all_some. reflexivity. Qed.

Lemma sched_obs_BO l : sched_obs (map BO l) = Some l.
Proof. unfold sched_obs. apply option_all_some. reflexivity. Qed.

Definition CInv (s : cst) (m : cmst) : Prop :=
  C09Proofs.Inv (fst s) (fst m) /\ BindSchedProofs.SI (snd s) (snd m).

Lemma cstep_inv s m o : CInv s m ->
  let '(m1, v) := cmon m o (snd (cstep s o)) in v = [] /\ CInv (fst (cstep s o)) m1.
Proof.
  intros [I1 I2]. destruct o as [o|o|p]; [simpl | simpl | unfold cmon, cstep].
  - pose proof (StackXProofs.xstep_inv C09Spec.mon C09Proofs.Inv C09Proofs.step_inv (fst s) (fst m) o I1) as H.
    destruct (StackX.xstep (fst s) o) as [s1 out]. simpl in *. rewrite stack_obs_SO.
    destruct (StackXSpec.xmon C09Spec.mon (fst m) o out) as [m1 v]. destruct H as [Hv HI]. split; [exact Hv|]. split; assumption.
  - pose proof (BindSchedProofs.step_inv (snd s) (snd m) o I2) as H.
    destruct (BindSched.step (snd s) o) as [s1 out]. simpl in *. rewrite sched_obs_BO.
    destruct (BindSchedSpec.mon (snd m) o out) as [m1 v]. destruct H as [Hv HI]. split; [exact Hv|]. split; assumption.
  - pose proof (C09Proofs.step_inv (fst s) (fst m) (Stack.ListBinds p) I1) as H.
    destruct (Stack.step (fst s) (Stack.ListBinds p)) as [s1 out]. cbn [fst snd] in *. rewrite stack_obs_SO.
    destruct (C09Spec.mon (fst m) (Stack.ListBinds p) out) as [m1 v]. destruct H as [Hv HI]. cbn [fst snd]. split; [exact Hv|]. split; assumption.
Qed.

Theorem machine_accepted_from ops : forall s m, CInv s m -> accepted (cjudge m (snd (crun s ops))) = true.
Proof.
  induction ops as [|o ops IH]; intros s m I; [reflexivity|].
  simpl. pose proof (cstep_inv s m o I) as Hs.
  destruct (cstep s o) as [s1 out]. destruct (crun s1 ops) as [s2 tr] eqn:Er. simpl in *.
  destruct (cmon m o out) as [m1 v]. destruct Hs as [Hv I1]. subst v. simpl.
  specialize (IH s1 m1 I1). rewrite Er in IH. exact IH.
Qed.

Theorem machine_accepted ops : accepted (cjudge cminit (snd (crun cinit ops))) = true.
Proof. apply machine_accepted_from. split; [exact C09Proofs.inv_init | exact BindSchedProofs.si_init]. Qed.
