(* C13 — proofs about Model/Sender.v against Spec/SenderSpec.v. *)
From Verif Require Import Base.Prelude Gen.GenConsts Model.Sender Spec.SenderSpec.
From Coq Require Import Sorting.Sorted Sorting.Permutation.

Lemma cap_pos : (0 < notify_cache_size)%nat.
Proof. unfold notify_cache_size. lia. Qed.

(* from here on the two constants are only used through [cap_pos] *)
Opaque notify_cache_size request_cache_limit.

(* ---------- association lists ---------- *)

Lemma assoc_N_In {A} k (l : list (N * A)) v : assoc_N k l = Some v -> In (k, v) l.
Proof.
  induction l as [|[k' v'] l IH]; simpl; [discriminate|].
  destruct (N.eqb_spec k k') as [->|Hne]; intros H.
  - inversion H; subst; now left.
  - right; auto.
Qed.

Lemma assoc_N_None {A} k (l : list (N * A)) : assoc_N k l = None -> forall v, ~ In (k, v) l.
Proof.
  induction l as [|[k' v'] l IH]; simpl; intros H v; [tauto|].
  destruct (N.eqb_spec k k') as [->|Hne]; [discriminate|].
  intros [E|E]; [inversion E; congruence | exact (IH H v E)].
Qed.

Lemma In_remove_N {A} k (l : list (N * A)) c v :
  In (c, v) (remove_N k l) <-> c <> k /\ In (c, v) l.
Proof.
  induction l as [|[k' v'] l IH]; simpl; [tauto|].
  destruct (N.eqb_spec k k') as [->|Hne]; simpl; rewrite IH.
  - split; [tauto|]. intros [Hc [E|E]]; [inversion E; congruence | tauto].
  - split.
    + intros [E|[Hc Hi]]; [inversion E; subst; split; [congruence | now left] | tauto].
    + intros [Hc [E|E]]; [now left | right; tauto].
Qed.

(* keys strictly decreasing and below a bound: the shape of the notification log *)
Fixpoint desc_lt (b : N) (l : list (N * N)) : Prop :=
  match l with
  | [] => True
  | (c, _) :: r => (c < b)%N /\ desc_lt c r
  end.

Lemma desc_lt_weaken b b' l : (b <= b')%N -> desc_lt b l -> desc_lt b' l.
Proof. destruct l as [|[c p] r]; simpl; [tauto|]. intros Hb [H1 H2]. split; [lia | exact H2]. Qed.

Lemma desc_lt_keys b l c p : desc_lt b l -> In (c, p) l -> (c < b)%N.
Proof.
  revert b. induction l as [|[c0 p0] r IH]; simpl; intros b H Hin; [tauto|].
  destruct H as [Hb Hr]. destruct Hin as [E|Hin]; [inversion E; subst; exact Hb|].
  specialize (IH c0 Hr Hin). lia.
Qed.

Lemma desc_assoc b l c p : desc_lt b l -> In (c, p) l -> assoc_N c l = Some p.
Proof.
  revert b. induction l as [|[c0 p0] r IH]; simpl; intros b H Hin; [tauto|].
  destruct H as [Hb Hr].
  destruct (N.eqb_spec c c0) as [->|Hne].
  - destruct Hin as [E|Hin]; [inversion E; reflexivity|].
    pose proof (desc_lt_keys c0 r c0 p Hr Hin). lia.
  - destruct Hin as [E|Hin]; [inversion E; congruence|].
    exact (IH c0 Hr Hin).
Qed.

Lemma mem_pair_In c h l : mem_pair c h l = true <-> In (c, h) l.
Proof.
  induction l as [|[c' h'] l IH]; simpl; [split; [discriminate | tauto]|].
  rewrite orb_true_iff, andb_true_iff, IH, !N.eqb_eq. split.
  - intros [[-> ->]|H]; [now left | now right].
  - intros [E|H]; [inversion E; left; split; reflexivity | now right].
Qed.

Lemma find_hash_In h l c : find_hash h l = Some c -> In (c, h) l.
Proof.
  induction l as [|[c' h'] l IH]; simpl; [discriminate|].
  destruct (N.eqb_spec h h') as [->|Hne]; intros H.
  - inversion H; subst; now left.
  - right; auto.
Qed.

Lemma find_hash_None h l : find_hash h l = None -> forall c, ~ In (c, h) l.
Proof.
  induction l as [|[c' h'] l IH]; simpl; intros H c; [tauto|].
  destruct (N.eqb_spec h h') as [->|Hne]; [discriminate|].
  intros [E|E]; [inversion E; congruence | exact (IH H c E)].
Qed.

Lemma add_req_sub c h l c' h' :
  In (c', h') (add_req c h l) -> (c', h') = (c, h) \/ In (c', h') l.
Proof.
  unfold add_req. intros H. apply in_app_or in H. destruct H as [H|H].
  - right. apply In_remove_N in H. destruct H as [_ H].
    destruct (Nat.ltb request_cache_limit (length l)); [|exact H].
    destruct l as [|[c0 h0] r]; [exact H|]. apply In_remove_N in H. tauto.
  - left. destruct H as [H|[]]. symmetry. exact H.
Qed.

(* ---------- LRU ---------- *)

Lemma firstn_In {A} n (l : list A) x : In x (firstn n l) -> In x l.
Proof. intros H. rewrite <- (firstn_skipn n l). apply in_or_app. now left. Qed.


Definition sub_of (l nf : list (N * N)) : Prop := forall c p, In (c, p) l -> In (c, p) nf.

Lemma lru_get_sub c l nf : sub_of l nf -> sub_of (snd (lru_get c l)) nf.
Proof.
  unfold lru_get, sub_of. intros Hs c' p'.
  destruct (assoc_N c l) as [p|] eqn:E; simpl; [|apply Hs].
  rewrite In_remove_N. intros [H|[_ H]]; [|exact (Hs _ _ H)].
  inversion H; subst. apply Hs. exact (assoc_N_In _ _ _ E).
Qed.

Lemma lru_get_keeps b c l nf c' p' :
  sub_of l nf -> desc_lt b nf -> In (c', p') l -> In (c', p') (snd (lru_get c l)).
Proof.
  unfold lru_get. intros Hs Hd Hin.
  destruct (assoc_N c l) as [p|] eqn:E; simpl; [|exact Hin].
  destruct (N.eq_dec c' c) as [->|Hne].
  - left. f_equal. apply assoc_N_In in E.
    pose proof (desc_assoc b nf c p Hd (Hs _ _ E)) as H1.
    pose proof (desc_assoc b nf c p' Hd (Hs _ _ Hin)) as H2. congruence.
  - right. apply In_remove_N. tauto.
Qed.

Lemma lru_get_result b c l nf :
  sub_of l nf -> desc_lt b nf ->
  match fst (lru_get c l) with
  | Some p => assoc_N c nf = Some p
  | None => forall p, ~ In (c, p) l
  end.
Proof.
  unfold lru_get. intros Hs Hd. destruct (assoc_N c l) as [p|] eqn:E; simpl.
  - apply (desc_assoc b nf c p Hd). apply Hs. exact (assoc_N_In _ _ _ E).
  - exact (assoc_N_None _ _ E).
Qed.

Lemma In_removelast {A} (l : list A) x : In x (removelast l) -> In x l.
Proof.
  induction l as [|a l IH]; simpl; [tauto|].
  destruct l as [|b l']; [simpl; tauto|]. intros [H|H]; [now left | right; exact (IH H)].
Qed.

Lemma lru_put_sub c p l sp nf : sub_of l nf -> sub_of (fst (lru_put c p l sp)) ((c, p) :: nf).
Proof.
  unfold lru_put, sub_of. intros Hs c' p'.
  destruct (assoc_N c l) as [q|]; simpl.
  - rewrite In_remove_N. intros [H|[_ H]]; [now left | right; exact (Hs _ _ H)].
  - destruct sp as [|sp']; simpl.
    + intros [H|H]; [now left | right; apply Hs; exact (In_removelast _ _ H)].
    + intros [H|H]; [now left | right; exact (Hs _ _ H)].
Qed.

(* the exact-LRU lemma: while nothing has been looked up, the cache is the last [cap] notifications *)
Lemma lru_put_exact_gen (cap : nat) c p nf b :
  (0 < cap)%nat -> desc_lt b nf -> (b <= c)%N ->
  lru_put c p (firstn cap nf) (cap - length (firstn cap nf)) =
    (firstn cap ((c, p) :: nf), cap - length (firstn cap ((c, p) :: nf)))%nat.
Proof.
  intros Hc Hd Hb. unfold lru_put.
  assert (Hnone : assoc_N c (firstn cap nf) = None).
  { destruct (assoc_N c (firstn cap nf)) as [q|] eqn:E; [|reflexivity]. exfalso.
    apply assoc_N_In in E. apply firstn_In in E.
    pose proof (desc_lt_keys b nf c q Hd E). lia. }
  rewrite Hnone.
  destruct cap as [|k]; [lia|].
  rewrite firstn_cons. rewrite firstn_length. cbn [length]. rewrite firstn_length.
  destruct (Nat.le_gt_cases (S k) (length nf)) as [Hlen|Hlen].
  - rewrite Nat.min_l by lia. replace (S k - S k)%nat with 0%nat by lia.
    rewrite removelast_firstn by lia. rewrite Nat.min_l by lia.
    f_equal. lia.
  - rewrite Nat.min_r by lia. destruct (S k - length nf)%nat as [|d] eqn:Ed; [lia|].
    rewrite (firstn_all2 (n := S k)) by lia. rewrite (firstn_all2 (n := k)) by lia.
    rewrite Nat.min_r by lia. f_equal. lia.
Qed.

Lemma lru_put_exact c p nf b :
  desc_lt b nf -> (b <= c)%N ->
  lru_put c p (firstn notify_cache_size nf) (notify_cache_size - length (firstn notify_cache_size nf)) =
    (firstn notify_cache_size ((c, p) :: nf),
     notify_cache_size - length (firstn notify_cache_size ((c, p) :: nf)))%nat.
Proof. apply lru_put_exact_gen. exact cap_pos. Qed.

(* ---------- the invariant linking model state, monitor state and scope ---------- *)

Record Inv (s : st) (m : mst) (sc : sst) : Prop := {
  inv_last : m_last m = ctr s;
  inv_seen : forall c, In c (m_seen m) -> (c <= ctr s)%N;
  inv_reqs : forall c h, In (c, h) (reqs s) -> In (c, h) (m_unans m);
  inv_desc : desc_lt (N.succ (ctr s)) (m_notifs m);
  inv_sub : sub_of (lru s) (m_notifs m);
  inv_exact : looked sc = false ->
              lru s = firstn notify_cache_size (m_notifs m) /\
              space s = (notify_cache_size - length (lru s))%nat;
  inv_recent : oos sc = false ->
               forall c p, In (c, p) (firstn notify_cache_size (m_notifs m)) -> In (c, p) (lru s);
  inv_oos : looked sc = false -> oos sc = false
}.

Lemma inv_init : Inv init minit sinit.
Proof.
  constructor; simpl; try tauto; try reflexivity.
  intros c p [].
Qed.

Lemma fresh_ok s m sc : Inv s m sc -> fresh m (N.succ (ctr s)) = [].
Proof.
  intros I. unfold fresh.
  destruct (memN (N.succ (ctr s)) (m_seen m)) eqn:E.
  - apply memN_In in E. pose proof (inv_seen _ _ _ I _ E). lia.
  - rewrite (inv_last _ _ _ I). destruct (N.ltb_spec (ctr s) (N.succ (ctr s))); [reflexivity | lia].
Qed.

Lemma desc_cons b c p l : desc_lt b l -> (b <= c)%N -> desc_lt (N.succ c) ((c, p) :: l).
Proof.
  intros H Hb. simpl. split; [lia|]. eapply desc_lt_weaken; [|exact H]. exact Hb.
Qed.

Lemma burst_ctr_ge ks : forall c, (c <= burst_ctr c ks)%N.
Proof. induction ks as [|k ks IH]; intros c; simpl; [lia|]. specialize (IH (N.succ c)). lia. Qed.

(* the monitor accepts the counters of a burst: all new, all above the base *)
Lemma burst_ok ks : forall c base seen,
  (base <= c)%N -> (forall x, In x seen -> (x <= c)%N) ->
  exists sn, mon_burst base seen c ks (burst_obs c ks) = (sn, burst_ctr c ks, []) /\
             (forall x, In x sn -> (x <= burst_ctr c ks)%N).
Proof.
  induction ks as [|k ks IH]; intros c base seen Hb Hs; simpl.
  - exists seen. split; [reflexivity | exact Hs].
  - destruct (memN (N.succ c) seen) eqn:E.
    { apply memN_In in E. specialize (Hs _ E). lia. }
    destruct (N.ltb_spec base (N.succ c)) as [_|Hge]; [|lia].
    rewrite !N.eqb_refl. simpl.
    replace (N.max c (N.succ c)) with (N.succ c) by lia.
    destruct (IH (N.succ c) base (N.succ c :: seen)) as [sn [Hm Hsn]].
    + lia.
    + intros x [<-|Hx]; [lia | specialize (Hs _ Hx); lia].
    + rewrite Hm. exists sn. split; [reflexivity | exact Hsn].
Qed.

Lemma step_inv s m sc o :
  Inv s m sc ->
  let '(s1, out) := step s o in
  let '(m1, v) := mon m o out in
  excused v (excuses (scope sc o)) = true /\ Inv s1 m1 (scope sc o).
Proof.
  intros I. destruct o as [h|[r|]|p|k|c|p|ks|h r|h ks]; simpl.
  - (* Request *)
    destruct (find_hash h (reqs s)) as [c|] eqn:E; simpl.
    + apply find_hash_In in E. apply (inv_reqs _ _ _ I) in E. apply mem_pair_In in E.
      rewrite E. simpl. split; [reflexivity | exact I].
    + rewrite (fresh_ok s m sc I). rewrite !N.eqb_refl. simpl. split; [reflexivity|].
      destruct I as [I1 I2 I3 I4 I5 I6 I7 I8]. constructor; simpl; auto.
      * intros c [<-|Hc]; [lia | specialize (I2 _ Hc); lia].
      * intros c' h' Hin. apply add_req_sub in Hin. destruct Hin as [Heq|Hin]; [left; symmetry; exact Heq | right; auto].
      * eapply desc_lt_weaken; [|exact I4]. lia.
  - (* Response (Some r) *)
    split; [reflexivity|].
    destruct I as [I1 I2 I3 I4 I5 I6 I7 I8]. constructor; simpl; auto.
    intros c h Hin. apply In_remove_N in Hin. apply In_remove_N. split; [tauto | apply I3; tauto].
  - (* Response None *)
    split; [reflexivity | exact I].
  - (* Notify *)
    destruct (lru_put (N.succ (ctr s)) p (lru s) (space s)) as [l sp] eqn:E. simpl.
    rewrite (fresh_ok s m sc I). rewrite !N.eqb_refl. simpl. split; [reflexivity|].
    pose proof (lru_put_sub (N.succ (ctr s)) p (lru s) (space s) (m_notifs m) (inv_sub _ _ _ I)) as Hsub.
    rewrite E in Hsub. simpl in Hsub.
    destruct I as [I1 I2 I3 I4 I5 I6 I7 I8]. constructor; simpl; auto.
    + intros c [<-|Hc]; [lia | specialize (I2 _ Hc); lia].
    + split; [lia | exact I4].
    + intros Hl. destruct (I6 Hl) as [Hlru Hsp].
      pose proof (lru_put_exact (N.succ (ctr s)) p (m_notifs m) (N.succ (ctr s)) I4 ltac:(lia)) as Hex.
      cbv zeta in Hex. rewrite <- Hlru, <- Hsp, E in Hex. inversion Hex; subst. split; reflexivity.
    + intros Ho. apply orb_false_iff in Ho. destruct Ho as [Ho Hl].
      destruct (I6 Hl) as [Hlru Hsp].
      pose proof (lru_put_exact (N.succ (ctr s)) p (m_notifs m) (N.succ (ctr s)) I4 ltac:(lia)) as Hex.
      cbv zeta in Hex. rewrite <- Hlru, <- Hsp, E in Hex. inversion Hex; subst. tauto.
    + intros Hl. rewrite Hl, (I8 Hl). reflexivity.
  - (* Other *)
    rewrite (fresh_ok s m sc I). rewrite !N.eqb_refl. simpl. split; [reflexivity|].
    destruct I as [I1 I2 I3 I4 I5 I6 I7 I8]. constructor; simpl; auto.
    + intros c [<-|Hc]; [lia | specialize (I2 _ Hc); lia].
    + eapply desc_lt_weaken; [|exact I4]. lia.
  - (* Lookup *)
    destruct (lru_get c (lru s)) as [r l] eqn:E.
    pose proof (lru_get_result (N.succ (ctr s)) c (lru s) (m_notifs m) (inv_sub _ _ _ I) (inv_desc _ _ _ I)) as Hr.
    pose proof (lru_get_sub c (lru s) (m_notifs m) (inv_sub _ _ _ I)) as Hsub.
    rewrite E in Hr, Hsub. simpl in Hr, Hsub.
    assert (Hkeep : forall c' p', In (c', p') (lru s) -> In (c', p') l).
    { intros c' p' Hin.
      pose proof (lru_get_keeps (N.succ (ctr s)) c (lru s) (m_notifs m) c' p' (inv_sub _ _ _ I) (inv_desc _ _ _ I) Hin) as Hk.
      rewrite E in Hk. exact Hk. }
    assert (HI : Inv {| ctr := ctr s; reqs := reqs s; lru := l; space := space s |} m
                     {| looked := true; oos := oos sc |}).
    { destruct I as [I1 I2 I3 I4 I5 I6 I7 I8]; constructor; simpl; auto; discriminate. }
    destruct r as [p|]; simpl.
    + rewrite Hr, N.eqb_refl. split; [reflexivity | exact HI].
    + split; [|exact HI].
      destruct (assoc_N c (firstn notify_cache_size (m_notifs m))) as [q|] eqn:Eq; [|reflexivity].
      unfold excuses. simpl. destruct (oos sc) eqn:Eo; [reflexivity|]. exfalso.
      apply assoc_N_In in Eq. apply (inv_recent _ _ _ I Eo) in Eq. exact (Hr q Eq).
  - (* NotifyProbe: as Notify; the lookup of the newest entry changes nothing *)
    destruct (lru_put (N.succ (ctr s)) p (lru s) (space s)) as [l sp] eqn:E. simpl.
    rewrite (fresh_ok s m sc I). rewrite !N.eqb_refl. simpl. split; [reflexivity|].
    pose proof (lru_put_sub (N.succ (ctr s)) p (lru s) (space s) (m_notifs m) (inv_sub _ _ _ I)) as Hsub.
    rewrite E in Hsub. simpl in Hsub.
    destruct I as [I1 I2 I3 I4 I5 I6 I7 I8]. constructor; simpl; auto.
    + intros c [<-|Hc]; [lia | specialize (I2 _ Hc); lia].
    + split; [lia | exact I4].
    + intros Hl. destruct (I6 Hl) as [Hlru Hsp].
      pose proof (lru_put_exact (N.succ (ctr s)) p (m_notifs m) (N.succ (ctr s)) I4 ltac:(lia)) as Hex.
      cbv zeta in Hex. rewrite <- Hlru, <- Hsp, E in Hex. inversion Hex; subst. split; reflexivity.
    + intros Ho. apply orb_false_iff in Ho. destruct Ho as [Ho Hl].
      destruct (I6 Hl) as [Hlru Hsp].
      pose proof (lru_put_exact (N.succ (ctr s)) p (m_notifs m) (N.succ (ctr s)) I4 ltac:(lia)) as Hex.
      cbv zeta in Hex. rewrite <- Hlru, <- Hsp, E in Hex. inversion Hex; subst. tauto.
    + intros Hl. rewrite Hl, (I8 Hl). reflexivity.
  - (* Burst *)
    destruct (burst_ok ks (ctr s) (m_last m) (m_seen m)) as [sn [Hm Hsn]].
    + rewrite (inv_last _ _ _ I). lia.
    + exact (inv_seen _ _ _ I).
    + rewrite (inv_last _ _ _ I) in *. rewrite Hm. simpl. split; [reflexivity|].
      pose proof (burst_ctr_ge ks (ctr s)) as Hge.
      destruct I as [I1 I2 I3 I4 I5 I6 I7 I8]. constructor; simpl; auto.
      eapply desc_lt_weaken; [|exact I4]. lia.
  - (* RespDuring *)
    destruct (find_hash h (reqs s)) as [c|] eqn:E; simpl.
    + apply find_hash_In in E. apply (inv_reqs _ _ _ I) in E. apply mem_pair_In in E.
      rewrite E. simpl. split; [reflexivity | exact I].
    + rewrite (fresh_ok s m sc I). rewrite !N.eqb_refl. simpl. split; [reflexivity|].
      destruct I as [I1 I2 I3 I4 I5 I6 I7 I8]. constructor; simpl; auto.
      * intros c [<-|Hc]; [lia | specialize (I2 _ Hc); lia].
      * intros c' h' Hin. apply add_req_sub in Hin.
        destruct Hin as [Heq|Hin]; [left; symmetry; exact Heq | right].
        apply In_remove_N in Hin. apply In_remove_N. split; [tauto | apply I3; tauto].
      * eapply desc_lt_weaken; [|exact I4]. lia.
  - (* DupBurst *)
    destruct (find_hash h (reqs s)) as [c|] eqn:E; simpl.
    + (* withheld request + burst *)
      apply find_hash_In in E. apply (inv_reqs _ _ _ I) in E. apply mem_pair_In in E.
      rewrite E. simpl.
      destruct (burst_ok ks (ctr s) (m_last m) (m_seen m)) as [sn [Hm Hsn]].
      * rewrite (inv_last _ _ _ I). lia.
      * exact (inv_seen _ _ _ I).
      * rewrite (inv_last _ _ _ I) in *. rewrite Hm. simpl. split; [reflexivity|].
        pose proof (burst_ctr_ge ks (ctr s)) as Hge.
        destruct I as [I1 I2 I3 I4 I5 I6 I7 I8]. constructor; simpl; auto.
        eapply desc_lt_weaken; [|exact I4]. lia.
    + (* the request is sent, then the burst *)
      rewrite (fresh_ok s m sc I). rewrite !N.eqb_refl. simpl.
      destruct (burst_ok ks (N.succ (ctr s)) (N.succ (ctr s)) (N.succ (ctr s) :: m_seen m)) as [sn [Hm Hsn]].
      * lia.
      * intros x [<-|Hx]; [lia | pose proof (inv_seen _ _ _ I _ Hx); lia].
      * rewrite Hm. simpl. split; [reflexivity|].
        pose proof (burst_ctr_ge ks (N.succ (ctr s))) as Hge.
        destruct I as [I1 I2 I3 I4 I5 I6 I7 I8]. constructor; simpl; auto.
        -- intros c' h' Hin. apply add_req_sub in Hin.
           destruct Hin as [Heq|Hin]; [left; symmetry; exact Heq | right; auto].
        -- eapply desc_lt_weaken; [|exact I4]. lia.
Qed.

Theorem run_accepted_from s m sc ops :
  Inv s m sc -> accepted (judge m sc (snd (run s ops))) = true.
Proof.
  revert s m sc. induction ops as [|o ops IH]; intros s m sc I; [reflexivity|].
  simpl. pose proof (step_inv s m sc o I) as Hs.
  destruct (step s o) as [s1 out]. destruct (run s1 ops) as [s2 tr] eqn:Er. simpl.
  destruct (mon m o out) as [m1 v]. destruct Hs as [Hv I1]. simpl.
  rewrite Hv. simpl. specialize (IH s1 m1 (scope sc o) I1). rewrite Er in IH. exact IH.
Qed.

Theorem run_accepted ops : accepted (judge minit sinit (snd (run init ops))) = true.
Proof. apply run_accepted_from. exact inv_init. Qed.

(* ---------- explicit corollaries ---------- *)

Definition written_of (out : list obs) : list N :=
  flat_map (fun ob => match ob with Written c _ _ => [c] | _ => [] end) out.

Fixpoint written (tr : list (op * list obs)) : list N :=
  match tr with
  | [] => []
  | (_, out) :: r => written_of out ++ written r
  end.

Lemma burst_written ks : forall c,
  StronglySorted N.lt (written_of (burst_obs c ks)) /\
  Forall (fun x => (c < x <= burst_ctr c ks)%N) (written_of (burst_obs c ks)).
Proof.
  induction ks as [|k ks IH]; intros c; simpl; [split; constructor|].
  destruct (IH (N.succ c)) as [Hs Hf]. pose proof (burst_ctr_ge ks (N.succ c)) as Hge. split.
  - constructor; [exact Hs|]. eapply Forall_impl; [|exact Hf]. simpl. intros a Ha. lia.
  - constructor; [lia|]. eapply Forall_impl; [|exact Hf]. simpl. intros a Ha. lia.
Qed.

(* the counters written by one step are strictly increasing, above the counter before
   the step and at most the counter after it *)
Lemma step_written s o :
  let '(s1, out) := step s o in
  StronglySorted N.lt (written_of out) /\
  Forall (fun x => (ctr s < x <= ctr s1)%N) (written_of out) /\ (ctr s <= ctr s1)%N.
Proof.
  assert (H1 : forall c : N, StronglySorted N.lt [c]) by (intros c; constructor; constructor).
  destruct o as [h|[r|]|p|k|c|p|ks|h r|h ks]; simpl.
  - destruct (find_hash h (reqs s)); simpl.
    + repeat split; try constructor; lia.
    + repeat split; [apply H1 | constructor; [lia | constructor] | lia].
  - repeat split; try constructor; lia.
  - repeat split; try constructor; lia.
  - destruct (lru_put (N.succ (ctr s)) p (lru s) (space s)). simpl.
    repeat split; [apply H1 | constructor; [lia | constructor] | lia].
  - repeat split; [apply H1 | constructor; [lia | constructor] | lia].
  - destruct (lru_get c (lru s)) as [r l]. simpl.
    destruct r; simpl; repeat split; try constructor; lia.
  - destruct (lru_put (N.succ (ctr s)) p (lru s) (space s)). simpl.
    repeat split; [apply H1 | constructor; [lia | constructor] | lia].
  - destruct (burst_written ks (ctr s)) as [Hs Hf]. repeat split; [exact Hs | exact Hf | apply burst_ctr_ge].
  - destruct (find_hash h (reqs s)); simpl.
    + repeat split; try constructor; lia.
    + repeat split; [apply H1 | constructor; [lia | constructor] | lia].
  - destruct (find_hash h (reqs s)); simpl.
    + destruct (burst_written ks (ctr s)) as [Hs Hf]. repeat split; [exact Hs | exact Hf | apply burst_ctr_ge].
    + destruct (burst_written ks (N.succ (ctr s))) as [Hs Hf].
      pose proof (burst_ctr_ge ks (N.succ (ctr s))) as Hge. repeat split.
      * constructor; [exact Hs|]. eapply Forall_impl; [|exact Hf]. simpl. intros a Ha. lia.
      * constructor; [lia|]. eapply Forall_impl; [|exact Hf]. simpl. intros a Ha. lia.
      * lia.
Qed.

Lemma sorted_app (l1 l2 : list N) b :
  StronglySorted N.lt l1 -> StronglySorted N.lt l2 ->
  Forall (fun x => (x <= b)%N) l1 -> Forall (fun x => (b < x)%N) l2 ->
  StronglySorted N.lt (l1 ++ l2).
Proof.
  intros H1 H2 F1 F2. induction H1 as [|a l Hs IH Hf]; simpl; [exact H2|].
  inversion F1 as [|? ? Ha Hl]; subst. constructor; [apply IH; exact Hl|].
  apply Forall_app. split; [exact Hf|]. eapply Forall_impl; [|exact F2]. simpl. intros x Hx. lia.
Qed.

Lemma written_sorted_from ops : forall s,
  StronglySorted N.lt (written (snd (run s ops))) /\
  Forall (fun c => (ctr s < c)%N) (written (snd (run s ops))).
Proof.
  induction ops as [|o ops IH]; intros s; simpl; [split; constructor|].
  pose proof (step_written s o) as Hw.
  destruct (step s o) as [s1 out]. specialize (IH s1).
  destruct (run s1 ops) as [s2 tr]. simpl in *. destruct IH as [IHs IHf].
  destruct Hw as [Hs [Hf Hc]]. split.
  - apply (sorted_app _ _ (ctr s1)); [exact Hs | exact IHs | | exact IHf].
    eapply Forall_impl; [|exact Hf]. simpl. intros a Ha. lia.
  - apply Forall_app. split.
    + eapply Forall_impl; [|exact Hf]. simpl. intros a Ha. lia.
    + eapply Forall_impl; [|exact IHf]. simpl. intros a Ha. lia.
Qed.

Theorem written_increasing ops : StronglySorted N.lt (written (snd (run init ops))).
Proof. apply written_sorted_from. Qed.

Lemma sorted_lt_nodup l : StronglySorted N.lt l -> NoDup l.
Proof.
  induction 1 as [|a l Hs IH Hf]; constructor; [|exact IH].
  intros Hin. rewrite Forall_forall in Hf. specialize (Hf a Hin). lia.
Qed.

Theorem written_nodup ops : NoDup (written (snd (run init ops))).
Proof. apply sorted_lt_nodup, written_increasing. Qed.

(* bounded memory of unanswered requests *)
Lemma length_remove_N_le {A} k (l : list (N * A)) : (length (remove_N k l) <= length l)%nat.
Proof. induction l as [|[k' v] l IH]; simpl; [lia|]. destruct (N.eqb k k'); simpl; lia. Qed.

Lemma length_remove_N_lt {A} k (l : list (N * A)) v :
  In (k, v) l -> (length (remove_N k l) < length l)%nat.
Proof.
  induction l as [|[k' v'] l IH]; simpl; [tauto|].
  intros [E|Hin].
  - inversion E; subst. rewrite N.eqb_refl. pose proof (length_remove_N_le k l). lia.
  - specialize (IH Hin). destruct (N.eqb k k'); simpl; lia.
Qed.

Lemma min_key_in r : forall acc, min_key r acc = acc \/ exists v, In (min_key r acc, v) r.
Proof.
  induction r as [|[c h] r IH]; intros acc; simpl; [now left|].
  destruct (IH (N.min c acc)) as [E|[v Hv]].
  - rewrite E. destruct (N.min_spec c acc) as [[_ ->]|[_ ->]]; [right; exists h; now left | now left].
  - right. exists v. now right.
Qed.

Lemma add_req_length c h l :
  (length l <= S request_cache_limit)%nat -> (length (add_req c h l) <= S request_cache_limit)%nat.
Proof.
  intros Hl. unfold add_req. rewrite app_length. simpl.
  destruct (Nat.ltb_spec request_cache_limit (length l)) as [Hgt|Hle].
  - destruct l as [|[c0 h0] r]; [simpl in *; lia|].
    assert (Hlt : (length (remove_N (min_key r c0) ((c0, h0) :: r)) < length ((c0, h0) :: r))%nat).
    { destruct (min_key_in r c0) as [E|[v Hv]].
      - rewrite E. apply (length_remove_N_lt c0 _ h0). now left.
      - apply (length_remove_N_lt _ _ v). now right. }
    pose proof (length_remove_N_le c (remove_N (min_key r c0) ((c0, h0) :: r))). lia.
  - pose proof (length_remove_N_le c l). lia.
Qed.

Lemma step_bounded s o :
  (length (reqs s) <= S request_cache_limit)%nat ->
  (length (reqs (fst (step s o))) <= S request_cache_limit)%nat.
Proof.
  intros H. destruct o as [h|[r|]|p|k|c|p|ks|h r|h ks]; simpl; try exact H.
  - destruct (find_hash h (reqs s)); simpl; [exact H | apply add_req_length; exact H].
  - pose proof (length_remove_N_le r (reqs s)). lia.
  - destruct (lru_put (N.succ (ctr s)) p (lru s) (space s)). simpl. exact H.
  - destruct (lru_get c (lru s)). simpl. exact H.
  - destruct (lru_put (N.succ (ctr s)) p (lru s) (space s)). simpl. exact H.
  - destruct (find_hash h (reqs s)); simpl; [exact H | apply add_req_length].
    pose proof (length_remove_N_le r (reqs s)). lia.
  - destruct (find_hash h (reqs s)); simpl; [exact H | apply add_req_length; exact H].
Qed.

Theorem reqs_bounded ops : (length (reqs (fst (run init ops))) <= S request_cache_limit)%nat.
Proof.
  assert (G : forall s, (length (reqs s) <= S request_cache_limit)%nat ->
                        (length (reqs (fst (run s ops))) <= S request_cache_limit)%nat).
  { induction ops as [|o ops IH]; intros s H; simpl; [exact H|].
    pose proof (step_bounded s o H) as Hs. destruct (step s o) as [s1 out]. simpl in Hs.
    specialize (IH s1 Hs). destruct (run s1 ops) as [s2 tr]. exact IH. }
  apply G. simpl. lia.
Qed.


(* ---------- overlapping calls: a burst is any interleaving of its calls ---------- *)
(* Each call of a burst takes its counter in one atomic step; an interleaving of the calls is
   an order of these steps, i.e. a permutation of the kinds executed one after the other. *)
Lemma run_others l : forall s,
  written (snd (run s (map Other l))) = written_of (burst_obs (ctr s) l) /\
  ctr (fst (run s (map Other l))) = burst_ctr (ctr s) l /\
  reqs (fst (run s (map Other l))) = reqs s /\ lru (fst (run s (map Other l))) = lru s /\
  space (fst (run s (map Other l))) = space s.
Proof.
  induction l as [|k l IH]; intros s; simpl; [repeat split; reflexivity|].
  specialize (IH {| ctr := N.succ (ctr s); reqs := reqs s; lru := lru s; space := space s |}).
  destruct (run {| ctr := N.succ (ctr s); reqs := reqs s; lru := lru s; space := space s |} (map Other l)) as [s2 tr].
  simpl in *. destruct IH as [H1 [H2 [H3 [H4 H5]]]]. rewrite H1. repeat split; assumption.
Qed.

Lemma burst_len ks : forall ks' c, length ks = length ks' ->
  written_of (burst_obs c ks) = written_of (burst_obs c ks') /\ burst_ctr c ks = burst_ctr c ks'.
Proof.
  induction ks as [|k ks IH]; intros [|k' ks'] c H; simpl in *; try discriminate; [split; reflexivity|].
  injection H as H. destruct (IH ks' (N.succ c) H) as [H1 H2]. rewrite H1, H2. split; reflexivity.
Qed.

Theorem burst_any_interleaving s ks ks' :
  Permutation ks ks' ->
  written_of (snd (step s (Burst ks))) = written (snd (run s (map Other ks'))) /\
  fst (step s (Burst ks)) = fst (run s (map Other ks')).
Proof.
  intros P. apply Permutation_length in P.
  destruct (run_others ks' s) as [H1 [H2 [H3 [H4 H5]]]].
  destruct (burst_len ks ks' (ctr s) P) as [L1 L2]. simpl. split.
  - rewrite H1. exact L1.
  - destruct (fst (run s (map Other ks'))) as [c r l sp]. simpl in *. subst. rewrite L2. reflexivity.
Qed.

(* ---------- a withheld request overlapped by a burst ---------- *)
(* While an identical request is unanswered the request takes no counter and changes nothing:
   wherever it falls among the calls of the burst, state and written datagrams are those of
   the burst alone, and the caller is handed the counter of the unanswered request. *)
Theorem dupburst_withheld s h ks c :
  find_hash h (reqs s) = Some c ->
  step s (Request h) = (s, [RetCtr c]) /\
  step s (DupBurst h ks) = (fst (step s (Burst ks)), RetCtr c :: snd (step s (Burst ks))).
Proof. intros E. simpl. rewrite E. split; reflexivity. Qed.

Lemma run_others_reqs l s : reqs (fst (run s (map Other l))) = reqs s.
Proof. destruct (run_others l s) as [_ [_ [H _]]]. exact H. Qed.

(* the request may fall after any prefix of (any order of) the overlapping calls *)
Lemma run_others_app l1 l2 : forall s,
  fst (run (fst (run s (map Other l1))) (map Other l2)) = fst (run s (map Other (l1 ++ l2))).
Proof.
  induction l1 as [|k l1 IH]; intros s; simpl; [reflexivity|].
  specialize (IH {| ctr := N.succ (ctr s); reqs := reqs s; lru := lru s; space := space s |}).
  destruct (run {| ctr := N.succ (ctr s); reqs := reqs s; lru := lru s; space := space s |} (map Other l1)) as [sa ta].
  destruct (run {| ctr := N.succ (ctr s); reqs := reqs s; lru := lru s; space := space s |} (map Other (l1 ++ l2))) as [sb tb].
  simpl in *. exact IH.
Qed.

Theorem dupburst_any_position s h c ks1 ks2 :
  find_hash h (reqs s) = Some c ->
  step (fst (run s (map Other ks1))) (Request h) = (fst (run s (map Other ks1)), [RetCtr c]) /\
  fst (run (fst (run s (map Other ks1))) (map Other ks2)) = fst (run s (map Other (ks1 ++ ks2))).
Proof.
  intros E. split; [|apply run_others_app].
  simpl. rewrite run_others_reqs, E. reflexivity.
Qed.

(* ---------- a response processed while a request is inside the connection writer ---------- *)
(* When the request is not withheld, [RespDuring h r] is "answer r, then request h" as far as the
   remembered requests go, provided r does not carry h's hash (then the duplicate test, made before the
   write, and the sequential order differ: the generator keeps to other hashes). *)
Theorem respduring_is_response_then_request s h r :
  find_hash h (reqs s) = None ->
  fst (step s (RespDuring h r)) = fst (step (fst (step s (Response (Some r)))) (Request h)) /\
  snd (step s (RespDuring h r)) = snd (step (fst (step s (Response (Some r)))) (Request h)).
Proof.
  intros E. simpl. rewrite E.
  assert (E' : find_hash h (remove_N r (reqs s)) = None).
  { destruct (find_hash h (remove_N r (reqs s))) as [c|] eqn:F; [|reflexivity].
    apply find_hash_In in F. apply In_remove_N in F. destruct F as [_ F].
    exfalso. exact (find_hash_None h (reqs s) E c F). }
  rewrite E'. split; reflexivity.
Qed.
