(* C02 — refinement of the update engine model to the abstract-store
   specification: for a well-formed schema, every well-formed local update maps a
   store in the invariant [Inv] (complete, pairwise distinct, ordered identifiers;
   the list read as a map is the abstract store) to such a store again. *)
From Verif Require Import Base.Prelude Model.Schema Model.Update Model.FunctionStore Spec.UpdateSpec Proofs.UpdateBasics.
From Coq Require Import Sorting.Sorted Sorting.Permutation.

Section Refine.
  Variable sch : schema.
  Hypothesis Hwf : wf_schema sch = true.

  Let nf := s_nf sch.

  (* ---------------------------------------------------------------- what wf_schema gives *)

  Lemma wf_parts :
    s_keys sch <> [] /\
    forallb (fun i => Nat.ltb i (s_nf sch) && key_kind_ok (kind_of sch i)) (s_keys sch) = true /\
    forallb (fun i => negb (kind_eqb (kind_of sch i) KStructHelper)) (removelast (s_keys sch)) = true /\
    (forall m, s_elems sch = Some m -> Nat.eqb (length m) (s_nf sch) = true /\ seq_is 0 m = true) /\
    (forall ks, s_sel sch = Some ks -> forallb (selk_ok sch) ks = true).
  Proof.
    pose proof Hwf as W. unfold wf_schema in W. rewrite !andb_true_iff in W.
    destruct W as [[[[[[[W1 W2] W3] W4] W5] W6] W7] W8].
    split; [|split; [exact W2|split; [exact W4|split]]].
    - intros E. rewrite E in W1. discriminate.
    - intros m E. rewrite E in W8. apply andb_true_iff in W8. exact W8.
    - intros ks E. rewrite E in W7. exact W7.
  Qed.

  Lemma wf_keys_nonempty : s_keys sch <> [].
  Proof. apply wf_parts. Qed.

  Lemma wf_hash x k : key_of sch x = Some k -> hash_key sch x = k.
  Proof.
    destruct wf_parts as [_ [Hk [Hl _]]]. apply hash_from_key; [|exact Hl].
    rewrite forallb_forall in *. intros i Hi. specialize (Hk i Hi). apply andb_true_iff in Hk. tauto.
  Qed.

  Lemma wf_remove_elems el it m :
    s_elems sch = Some m -> length el = length m -> length it = nf -> remove_elems sch el it = clear el it.
  Proof.
    intros Hm Hel Hit. destruct wf_parts as [_ [_ [_ [He _]]]]. destruct (He m Hm) as [H1 H2].
    eapply remove_elems_clear; eassumption.
  Qed.

  (* ---------------------------------------------------------------- well-formed lists *)

  Definition complete (x : item) : Prop := exists k, key_of sch x = Some k.

  Definition lwf (l : list item) : Prop :=
    Forall (fun x => length x = nf) l /\ Forall complete l /\ NoDup (keys_of sch l).

  Lemma complete_ids x : complete x <-> has_identifiers sch x = true.
  Proof.
    rewrite has_identifiers_key. unfold complete. destruct (key_of sch x); cbn; split; intros H; try eauto; try discriminate.
    destruct H. discriminate.
  Qed.

  Lemma keys_of_cons x l : keys_of sch (x :: l) = match key_of sch x with Some k => k :: keys_of sch l | None => keys_of sch l end.
  Proof. unfold keys_of. cbn. destruct (key_of sch x); reflexivity. Qed.

  Lemma keys_of_app a b : keys_of sch (a ++ b) = keys_of sch a ++ keys_of sch b.
  Proof. unfold keys_of. apply flat_map_app. Qed.

  Lemma In_keys_of x l k : In x l -> key_of sch x = Some k -> In k (keys_of sch l).
  Proof.
    intros Hin Hk. unfold keys_of. apply in_flat_map. exists x. split; [exact Hin|]. rewrite Hk. left. reflexivity.
  Qed.

  Lemma keys_of_In k l : In k (keys_of sch l) -> exists x, In x l /\ key_of sch x = Some k.
  Proof.
    unfold keys_of. rewrite in_flat_map. intros [x [Hin Hk]]. exists x. split; [exact Hin|].
    destruct (key_of sch x) as [k'|]; [|contradiction]. destruct Hk as [->|[]]. reflexivity.
  Qed.

  Lemma unique_ids_lwf l :
    Forall (fun x => length x = nf) l -> (unique_ids sch l = true <-> lwf l).
  Proof.
    intros Hlen. unfold unique_ids, lwf. rewrite andb_true_iff, nodup_keys_NoDup, forallb_forall.
    split.
    - intros [H1 H2]. split; [exact Hlen|]. split; [|exact H2]. apply Forall_forall. intros x Hx. specialize (H1 x Hx).
      unfold complete. destruct (key_of sch x) as [k|]; [exists k; reflexivity | discriminate].
    - intros [_ [H1 H2]]. split; [|exact H2]. intros x Hx. rewrite Forall_forall in H1. destruct (H1 x Hx) as [k Hk].
      rewrite Hk. reflexivity.
  Qed.

  Lemma lwf_nil : lwf [].
  Proof. repeat split; constructor. Qed.

  Lemma lwf_cons_inv x l : lwf (x :: l) -> length x = nf /\ complete x /\ lwf l /\
    (forall k, key_of sch x = Some k -> ~ In k (keys_of sch l)).
  Proof.
    intros [H1 [H2 H3]]. inversion H1 as [|? ? Hx Hr1]. inversion H2 as [|? ? Hc Hr2]. subst. rewrite keys_of_cons in H3.
    destruct Hc as [k Hk]. rewrite Hk in H3. inversion H3 as [|? ? Hnot Hnd]. subst.
    split; [exact Hx|]. split; [exists k; exact Hk|]. split; [repeat split; assumption|].
    intros k' Hk'. congruence.
  Qed.

  (* the list read as a map *)
  Lemma lfind_Some l k x : lwf l -> (lfind sch k l = Some x <-> In x l /\ key_of sch x = Some k).
  Proof.
    induction l as [|y r IH]; intros Hl.
    - cbn. split; [discriminate | intros [[] _]].
    - destruct (lwf_cons_inv y r Hl) as [_ [[ky Hky] [Hr Hnot]]]. specialize (IH Hr).
      cbn [lfind]. rewrite Hky. destruct (eqb_key k ky) eqn:E.
      + apply eqb_key_eq in E. subst ky. split.
        * intros H. inversion H. subst. split; [left; reflexivity | exact Hky].
        * intros [[->|Hin] Hk]; [reflexivity|]. exfalso. apply (Hnot k Hky). eapply In_keys_of; eassumption.
      + rewrite IH. apply eqb_key_neq in E. split.
        * intros [Hin Hk]. split; [right; exact Hin | exact Hk].
        * intros [[->|Hin] Hk]; [congruence | split; assumption].
  Qed.

  Lemma lfind_None l k : lfind sch k l = None <-> ~ In k (keys_of sch l).
  Proof.
    induction l as [|y r IH]; [cbn; tauto|].
    cbn [lfind]. rewrite keys_of_cons. destruct (key_of sch y) as [ky|]; [|exact IH].
    destruct (eqb_key k ky) eqn:E.
    - apply eqb_key_eq in E. subst. split; [discriminate | intros H; exfalso; apply H; left; reflexivity].
    - apply eqb_key_neq in E. rewrite IH. cbn. split; [intros H [H1|H1]; [congruence | contradiction] | tauto].
  Qed.

  Lemma lfind_key l k x : lfind sch k l = Some x -> In x l /\ key_of sch x = Some k.
  Proof.
    induction l as [|y r IH]; [discriminate|]. cbn [lfind]. destruct (key_of sch y) as [ky|] eqn:Ey.
    - destruct (eqb_key k ky) eqn:E.
      + intros H. inversion H. subst. apply eqb_key_eq in E. subst. split; [left; reflexivity | exact Ey].
      + intros H. destruct (IH H). split; [right|]; assumption.
    - intros H. destruct (IH H). split; [right|]; assumption.
  Qed.

  Lemma lwf_perm l l' : Permutation l l' -> lwf l -> lwf l'.
  Proof.
    intros P [H1 [H2 H3]]. repeat split.
    - eapply Permutation_Forall; eassumption.
    - eapply Permutation_Forall; eassumption.
    - eapply Permutation_NoDup; [|exact H3]. unfold keys_of.
      (* flat_map preserves permutations *)
      clear - P. induction P; cbn.
      + constructor.
      + apply Permutation_app_head. assumption.
      + rewrite !app_assoc. apply Permutation_app_tail. apply Permutation_app_comm.
      + eapply Permutation_trans; eassumption.
  Qed.

  Lemma lfind_perm l l' k : Permutation l l' -> lwf l -> lfind sch k l' = lfind sch k l.
  Proof.
    intros P Hl. pose proof (lwf_perm l l' P Hl) as Hl'.
    destruct (lfind sch k l) as [x|] eqn:E.
    - apply (lfind_Some l k x Hl) in E. apply (lfind_Some l' k x Hl'). destruct E as [Hin Hk]. split; [|exact Hk].
      eapply Permutation_in; eassumption.
    - apply lfind_None in E. apply lfind_None. intros Hin. apply E. apply keys_of_In in Hin. destruct Hin as [x [Hx Hk]].
      eapply In_keys_of; [|exact Hk]. eapply Permutation_in; [apply Permutation_sym; exact P | exact Hx].
  Qed.

  (* ---------------------------------------------------------------- the abstract store *)

  Definition mwf (m : amap) : Prop :=
    NoDup (map fst m) /\ Forall (fun kx => key_of sch (snd kx) = Some (fst kx) /\ length (snd kx) = nf) m.

  Lemma mfind_Some m k x : mwf m -> (mfind k m = Some x <-> In (k, x) m).
  Proof.
    induction m as [|[k' y] r IH]; intros [Hnd Hf].
    - cbn. split; [discriminate | intros []].
    - cbn in Hnd. inversion Hnd as [|? ? Hnot Hnd']. inversion Hf as [|? ? _ Hf']. subst.
      specialize (IH (conj Hnd' Hf')). cbn [mfind]. destruct (eqb_key k k') eqn:E.
      + apply eqb_key_eq in E. subst k'. split.
        * intros H. inversion H. left. reflexivity.
        * intros [H|H]; [inversion H; reflexivity|]. exfalso. apply Hnot. apply (in_map fst) in H. exact H.
      + apply eqb_key_neq in E. rewrite IH. split; [intros H; right; exact H|].
        intros [H|H]; [inversion H; congruence | exact H].
  Qed.

  Lemma mfind_None m k : mfind k m = None <-> ~ In k (map fst m).
  Proof.
    induction m as [|[k' y] r IH]; [cbn; tauto|].
    cbn [mfind map fst]. destruct (eqb_key k k') eqn:E.
    - apply eqb_key_eq in E. subst. split; [discriminate | intros H; exfalso; apply H; left; reflexivity].
    - apply eqb_key_neq in E. rewrite IH. cbn. split; [intros H [H1|H1]; [congruence | contradiction] | tauto].
  Qed.

  (* the invariant relating the stored list and the abstract store *)
  Definition Inv (l : list item) (m : amap) : Prop :=
    lwf l /\ ordered sch l = true /\ (forall k, lfind sch k l = mfind k m) /\ mwf m.

  Lemma Inv_nil : Inv [] [].
  Proof. repeat split; try constructor. Qed.

  (* ---------------------------------------------------------------- key-preserving maps *)

  Definition kp (f : item -> item) : Prop :=
    forall y, length y = nf -> length (f y) = nf /\ (forall i, In i (s_keys sch) -> fld (f y) i = fld y i).

  Lemma kp_key f y : kp f -> length y = nf -> key_of sch (f y) = key_of sch y.
  Proof. intros H Hy. apply key_of_ext. apply H. exact Hy. Qed.

  Lemma kp_nkey f y : kp f -> length y = nf -> nkey sch (f y) = nkey sch y.
  Proof. intros H Hy. apply nkey_ext. apply H. exact Hy. Qed.

  Lemma keys_of_map_kp f l : kp f -> Forall (fun x => length x = nf) l -> keys_of sch (map f l) = keys_of sch l.
  Proof.
    intros Hf. induction l as [|x r IH]; intros Hl; [reflexivity|]. inversion Hl. subst.
    cbn [map]. rewrite !keys_of_cons, (kp_key f x Hf), IH by assumption. reflexivity.
  Qed.

  Lemma lwf_map_kp f l : kp f -> lwf l -> lwf (map f l).
  Proof.
    intros Hf [H1 [H2 H3]]. repeat split.
    - rewrite Forall_forall in *. intros y Hy. apply in_map_iff in Hy. destruct Hy as [x [<- Hx]]. apply Hf. apply H1. exact Hx.
    - rewrite Forall_forall in *. intros y Hy. apply in_map_iff in Hy. destruct Hy as [x [<- Hx]].
      destruct (H2 x Hx) as [k Hk]. exists k. rewrite (kp_key f x Hf (H1 x Hx)). exact Hk.
    - rewrite (keys_of_map_kp f l Hf H1). exact H3.
  Qed.

  Lemma ordered_map_kp f l : kp f -> Forall (fun x => length x = nf) l -> ordered sch (map f l) = ordered sch l.
  Proof.
    intros Hf. induction l as [|a r IH]; intros Hl; [reflexivity|]. inversion Hl as [|? ? Ha Hr]. subst.
    cbn [map ordered]. rewrite IH by assumption. destruct r as [|b r']; [reflexivity|].
    inversion Hr. subst. cbn [map]. rewrite !(kp_nkey f) by assumption. reflexivity.
  Qed.

  Lemma lfind_map_kp f l k :
    kp f -> Forall (fun x => length x = nf) l -> lfind sch k (map f l) = option_map f (lfind sch k l).
  Proof.
    intros Hf. induction l as [|x r IH]; intros Hl; [reflexivity|]. inversion Hl. subst.
    cbn [map lfind]. rewrite (kp_key f x Hf) by assumption. destruct (key_of sch x) as [k'|]; [|apply IH; assumption].
    destruct (eqb_key k k'); [reflexivity | apply IH; assumption].
  Qed.

  Lemma mfind_on_items f m k : mfind k (on_items f m) = option_map f (mfind k m).
  Proof.
    induction m as [|[k' y] r IH]; [reflexivity|]. cbn. destruct (eqb_key k k'); [reflexivity | exact IH].
  Qed.

  Lemma mwf_on_items f m : kp f -> mwf m -> mwf (on_items f m).
  Proof.
    intros Hf [H1 H2]. split.
    - unfold on_items. rewrite map_map. cbn. exact H1.
    - rewrite Forall_forall in *. intros [k y] Hy. unfold on_items in Hy. apply in_map_iff in Hy.
      destruct Hy as [[k0 y0] [E Hin]]. cbn in E. inversion E. subst. destruct (H2 _ Hin) as [Hk Hl]. cbn in *.
      split; [rewrite (kp_key f y0 Hf Hl); exact Hk | apply Hf; exact Hl].
  Qed.

  Lemma Inv_map f l m : kp f -> Inv l m -> Inv (map f l) (on_items f m).
  Proof.
    intros Hf [Hl [Ho [Hfind Hm]]]. pose proof Hl as [Hlen _]. repeat split.
    - apply lwf_map_kp; assumption.
    - apply lwf_map_kp; assumption.
    - apply lwf_map_kp; assumption.
    - rewrite ordered_map_kp; assumption.
    - intros k. rewrite lfind_map_kp, mfind_on_items, Hfind by assumption. reflexivity.
    - apply mwf_on_items; assumption.
    - apply mwf_on_items; assumption.
  Qed.

  (* ---------------------------------------------------------------- filters *)

  Lemma keys_of_filter_incl p l k : In k (keys_of sch (filter p l)) -> In k (keys_of sch l).
  Proof.
    intros H. apply keys_of_In in H. destruct H as [x [Hx Hk]]. apply filter_In in Hx. eapply In_keys_of; [apply Hx | exact Hk].
  Qed.

  Lemma keys_of_filter_NoDup p l : NoDup (keys_of sch l) -> NoDup (keys_of sch (filter p l)).
  Proof.
    induction l as [|x r IH]; intros H; [constructor|]. rewrite keys_of_cons in H. cbn [filter].
    destruct (key_of sch x) as [k|] eqn:Ek.
    - inversion H as [|? ? Hnot Hnd]. subst. destruct (p x).
      + rewrite keys_of_cons, Ek. constructor; [|apply IH; exact Hnd]. intros Hin. apply Hnot. eapply keys_of_filter_incl. exact Hin.
      + apply IH. exact Hnd.
    - destruct (p x); [rewrite keys_of_cons, Ek|]; apply IH; exact H.
  Qed.

  Lemma lwf_filter p l : lwf l -> lwf (filter p l).
  Proof.
    intros [H1 [H2 H3]]. repeat split.
    - rewrite Forall_forall in *. intros x Hx. apply filter_In in Hx. apply H1. tauto.
    - rewrite Forall_forall in *. intros x Hx. apply filter_In in Hx. apply H2. tauto.
    - apply keys_of_filter_NoDup. exact H3.
  Qed.

  Lemma ordered_filter p l : ordered sch l = true -> ordered sch (filter p l) = true.
  Proof.
    rewrite !ordered_Strongly. induction l as [|a r IH]; intros H; [constructor|].
    inversion H as [|? ? Hs Hall]. subst. cbn [filter]. destruct (p a).
    - constructor; [apply IH; exact Hs|]. rewrite Forall_forall in *. intros x Hx. apply filter_In in Hx. apply Hall. tauto.
    - apply IH. exact Hs.
  Qed.

  Lemma lfind_filter p l k : lwf l ->
    lfind sch k (filter p l) = match lfind sch k l with Some x => if p x then Some x else None | None => None end.
  Proof.
    intros Hl. pose proof (lwf_filter p l Hl) as Hl'.
    destruct (lfind sch k l) as [x|] eqn:E.
    - apply (lfind_Some l k x Hl) in E. destruct E as [Hin Hk]. destruct (p x) eqn:Px.
      + apply (lfind_Some _ k x Hl'). split; [apply filter_In; tauto | exact Hk].
      + apply lfind_None. intros Hin'. apply keys_of_In in Hin'. destruct Hin' as [y [Hy Hky]].
        apply filter_In in Hy. destruct Hy as [Hy Py].
        assert (y = x).
        { assert (A : lfind sch k l = Some y) by (apply (lfind_Some l k y Hl); tauto).
          assert (B : lfind sch k l = Some x) by (apply (lfind_Some l k x Hl); tauto). congruence. }
        subst. congruence.
    - apply lfind_None in E. apply lfind_None. intros H. apply E. eapply keys_of_filter_incl. exact H.
  Qed.

  Lemma mfind_filter p (m : amap) k : mwf m ->
    mfind k (filter (fun kx => p (snd kx)) m) = match mfind k m with Some x => if p x then Some x else None | None => None end.
  Proof.
    induction m as [|[k' y] r IH]; intros [Hnd Hf]; [reflexivity|].
    cbn in Hnd. inversion Hnd as [|? ? Hnot Hnd']. inversion Hf as [|? ? _ Hf']. subst.
    specialize (IH (conj Hnd' Hf')). cbn [filter snd mfind]. destruct (eqb_key k k') eqn:E.
    - apply eqb_key_eq in E. subst k'. destruct (p y).
      + cbn [mfind]. rewrite eqb_key_refl. reflexivity.
      + rewrite IH. apply mfind_None in Hnot. rewrite Hnot. reflexivity.
    - destruct (p y); [cbn [mfind]; rewrite E|]; exact IH.
  Qed.

  Lemma mwf_filter p (m : amap) : mwf m -> mwf (filter p m).
  Proof.
    intros [H1 H2]. split.
    - clear H2. induction m as [|kx r IH]; [constructor|]. cbn in H1. inversion H1 as [|? ? Hnot Hnd]. subst.
      cbn [filter]. destruct (p kx); [|apply IH; exact Hnd]. cbn. constructor; [|apply IH; exact Hnd].
      intros Hin. apply Hnot. apply in_map_iff in Hin. destruct Hin as [z [Hz Hin]]. apply filter_In in Hin.
      apply in_map_iff. exists z. tauto.
    - rewrite Forall_forall in *. intros x Hx. apply filter_In in Hx. apply H2. tauto.
  Qed.

  Lemma Inv_filter p l m : Inv l m -> Inv (filter p l) (filter (fun kx => p (snd kx)) m).
  Proof.
    intros [Hl [Ho [Hfind Hm]]]. split; [apply lwf_filter; exact Hl|]. split; [apply ordered_filter; exact Ho|].
    split; [|apply mwf_filter; exact Hm].
    intros k. rewrite lfind_filter, mfind_filter, Hfind by assumption. reflexivity.
  Qed.
End Refine.
