(* C07 — proofs about Model/LocalTree.v against Spec/TreeSpec.v. *)
From Verif Require Import Base.Prelude Base.Machine Model.LocalTree Spec.TreeSpec.

(* ---------- comparison of observation lists ---------- *)

Lemma eqb_zs_refl a : eqb_zs a a = true.
Proof. induction a as [|x a IH]; simpl; [reflexivity|]. rewrite Z.eqb_refl. exact IH. Qed.

Lemma eqb_zss_refl a : eqb_zss a a = true.
Proof. induction a as [|x a IH]; simpl; [reflexivity|]. rewrite eqb_zs_refl. exact IH. Qed.

Lemma same_refl a : same a a = true.
Proof. apply eqb_zss_refl. Qed.

Lemma expect_ok m o : expect m [o] o = (m, []).
Proof. unfold expect. rewrite eqb_zs_refl. reflexivity. Qed.

Lemma judge_announce_ok cl x : map self_res x = x -> judge_announce cl x x = [].
Proof. intros H. unfold judge_announce. rewrite H, same_refl. reflexivity. Qed.

Lemma self_res_render_feat e f : map self_res (render_feat e f (Some f)) = render_feat e f (Some f).
Proof.
  unfold render_feat. simpl. f_equal.
  induction (sort_ops (f_ops f)) as [|[fn [[[r rp] w] wp]] l IH]; simpl; [reflexivity|].
  rewrite IH. reflexivity.
Qed.

Lemma map_flat_map_fix {A} (g : A -> list obs) (l : list A) :
  (forall a, map self_res (g a) = g a) -> map self_res (flat_map g l) = flat_map g l.
Proof.
  intros H. induction l as [|a l IH]; simpl; [reflexivity|].
  rewrite map_app, H, IH. reflexivity.
Qed.

Lemma self_res_exp_feats m e : map self_res (exp_feats m e) = exp_feats m e.
Proof. unfold exp_feats. apply map_flat_map_fix. intros f. apply self_res_render_feat. Qed.

Lemma self_res_exp_reply_of m p l : map self_res (exp_reply_of m p l) = exp_reply_of m p l.
Proof.
  unfold exp_reply_of. simpl. f_equal. rewrite !map_app. f_equal.
  - rewrite map_map. reflexivity.
  - f_equal. apply map_flat_map_fix. intros e. apply self_res_exp_feats.
Qed.

Lemma self_res_exp_reply m p : map self_res (exp_reply m p) = exp_reply m p.
Proof. apply self_res_exp_reply_of. Qed.

(* whatever an announced address resolves to, the announcement itself is the feature's *)
Lemma self_res_render_feat_any e f r : map self_res (render_feat e f r) = render_feat e f (Some f).
Proof.
  unfold render_feat. destruct r as [g|]; simpl; (f_equal;
    induction (sort_ops (f_ops f)) as [|[fn [[[rd rp] w] wp]] l IH]; simpl; [reflexivity|];
    rewrite IH; reflexivity).
Qed.

Lemma map_flat_map {A B C} (h : B -> C) (g : A -> list B) (l : list A) :
  map h (flat_map g l) = flat_map (fun a => map h (g a)) l.
Proof. induction l as [|a l IH]; simpl; [reflexivity|]. rewrite map_app, IH. reflexivity. Qed.

Lemma self_res_exp_notifs m e lsc b : map self_res (exp_notifs m e lsc b) = exp_notifs m e lsc b.
Proof.
  unfold exp_notifs. apply map_flat_map_fix. intros [p c]. simpl. f_equal. f_equal.
  rewrite map_app. simpl. f_equal. destruct b; [apply self_res_exp_feats | reflexivity].
Qed.

(* ---------- association lists ---------- *)

Lemma lt_assoc_app {A} k (l l' : list (N * A)) :
  assoc_N k (l ++ l') = match assoc_N k l with Some v => Some v | None => assoc_N k l' end.
Proof.
  induction l as [|[k' v] l IH]; simpl; [reflexivity|].
  destruct (N.eqb k k'); [reflexivity | exact IH].
Qed.

Lemma lt_assoc_remove {A} k t (l : list (N * A)) :
  assoc_N k (remove_N t l) = if N.eqb k t then None else assoc_N k l.
Proof.
  induction l as [|[k' v] l IH]; simpl; [destruct (N.eqb k t); reflexivity|].
  destruct (N.eqb_spec t k') as [->|Hne]; simpl.
  - rewrite IH. destruct (N.eqb_spec k k') as [->|Hk]; reflexivity.
  - rewrite IH. destruct (N.eqb_spec k k') as [->|Hk].
    + destruct (N.eqb_spec k' t) as [->|_]; [congruence | reflexivity].
    + reflexivity.
Qed.

Lemma assoc_upd_obj e g l e' :
  assoc_N e' (upd_obj e g l) = if N.eqb e' e then option_map g (assoc_N e l) else assoc_N e' l.
Proof.
  induction l as [|[k o] l IH]; simpl; [destruct (N.eqb e' e); reflexivity|].
  destruct (N.eqb_spec e k) as [->|Hne]; simpl.
  - destruct (N.eqb e' k); reflexivity.
  - rewrite IH. destruct (N.eqb_spec e' k) as [E|Hk].
    + subst e'. destruct (N.eqb_spec k e); [congruence | reflexivity].
    + reflexivity.
Qed.

Lemma assoc_upd_feats e g l e' :
  assoc_N e' (upd_feats e g l) =
  if N.eqb e' e then option_map (fun o => {| e_type := e_type o; e_feats := g (e_feats o) |}) (assoc_N e l)
  else assoc_N e' l.
Proof. apply assoc_upd_obj. Qed.

Lemma assoc_ctr_bump e l e' :
  assoc_N e' (ctr_bump e l) = if N.eqb e' e then option_map N.succ (assoc_N e l) else assoc_N e' l.
Proof.
  induction l as [|[k c] l IH]; simpl; [destruct (N.eqb e' e); reflexivity|].
  destruct (N.eqb_spec e k) as [->|Hne]; simpl.
  - destruct (N.eqb e' k); reflexivity.
  - rewrite IH. destruct (N.eqb_spec e' k) as [E|Hk].
    + subst e'. destruct (N.eqb_spec k e); [congruence | reflexivity].
    + reflexivity.
Qed.

Lemma ctr_of_bump e l e' :
  ctr_of (ctr_bump e l) e' =
  if N.eqb e' e then match assoc_N e l with Some c => N.succ c | None => 0%N end else ctr_of l e'.
Proof.
  unfold ctr_of. rewrite assoc_ctr_bump. destruct (N.eqb e' e); [|reflexivity].
  destruct (assoc_N e l); reflexivity.
Qed.

Lemma ctr_of_bump_le e l e' : (ctr_of l e' <= ctr_of (ctr_bump e l) e')%N.
Proof.
  rewrite ctr_of_bump. destruct (N.eqb_spec e' e) as [Ee|_]; [subst e'|]; [|lia].
  unfold ctr_of. destruct (assoc_N e l); lia.
Qed.

(* ---------- features: lookup by id ---------- *)

Lemma find_id_in l f : NoDup (map f_id l) -> In f l -> find_id (f_id f) l = Some f.
Proof.
  unfold find_id. induction l as [|x l IH]; simpl; intros Hnd Hin; [tauto|].
  inversion Hnd as [|a b Hn Hd]; subst.
  destruct Hin as [->|Hin]; [rewrite N.eqb_refl; reflexivity|].
  destruct (N.eqb_spec (f_id x) (f_id f)) as [E|_]; [|exact (IH Hd Hin)].
  exfalso. apply Hn. rewrite E. apply in_map. exact Hin.
Qed.

Lemma find_tr_in ty role l f : find_tr ty role l = Some f -> In f l.
Proof. unfold find_tr. intros H. apply find_some in H. tauto. Qed.

Lemma feats_upd_id_ids id g l : (forall f, f_id (g f) = f_id f) -> map f_id (feats_upd_id id g l) = map f_id l.
Proof.
  intros Hg. induction l as [|f l IH]; simpl; [reflexivity|].
  destruct (N.eqb (f_id f) id); simpl; [rewrite Hg; reflexivity | rewrite IH; reflexivity].
Qed.

Lemma NoDup_snoc_lt (l : list N) x : NoDup l -> (forall y, In y l -> (y < x)%N) -> NoDup (l ++ [x]).
Proof.
  induction l as [|y l IH]; simpl; intros Hd Hb; [constructor; [tauto | constructor]|].
  inversion Hd as [|a b Hy Hd']; subst. constructor.
  - intros Hin. apply in_app_or in Hin. destruct Hin as [Hin|[Heq|[]]]; [exact (Hy Hin)|].
    specialize (Hb y (or_introl eq_refl)). lia.
  - apply IH; [exact Hd' | intros z Hz; apply Hb; now right].
Qed.

Definition tr_of (f : feat) : N * N := (f_type f, f_role f).

Lemma find_tr_none ty role l : find_tr ty role l = None -> ~ In (ty, role) (map tr_of l).
Proof.
  unfold find_tr. intros H Hin. apply in_map_iff in Hin. destruct Hin as [f [Hf Hin]].
  pose proof (find_none _ _ H f Hin) as Hn. unfold is_tr, tr_of in *. inversion Hf; subst.
  rewrite !N.eqb_refl in Hn. discriminate.
Qed.

Lemma feats_upd_id_trs id g l : (forall f, tr_of (g f) = tr_of f) -> map tr_of (feats_upd_id id g l) = map tr_of l.
Proof.
  intros Hg. induction l as [|f l IH]; simpl; [reflexivity|].
  destruct (N.eqb (f_id f) id); simpl; [rewrite Hg; reflexivity | rewrite IH; reflexivity].
Qed.

Lemma NoDup_snoc_notin {A} (l : list A) x : NoDup l -> ~ In x l -> NoDup (l ++ [x]).
Proof.
  induction l as [|y l IH]; simpl; intros Hd Hn; [constructor; [tauto | constructor]|].
  inversion Hd as [|a b Hy Hd']; subst. constructor.
  - intros Hin. apply in_app_or in Hin. destruct Hin as [Hin|[Heq|[]]]; [exact (Hy Hin)|].
    apply Hn. left. symmetry. exact Heq.
  - apply IH; [exact Hd' | intros Hin; apply Hn; now right].
Qed.

(* ---------- the invariant ---------- *)

Definition mst_of (s : st) (ids : list (N * N)) : mst :=
  {| m_objs := objs s; m_ids := ids; m_members := members s; m_subs := subs s; m_thr := thr s; m_rds := rds s |}.

Record Good (s : st) (ids : list (N * N)) : Prop := {
  g_bound : forall e id, handed e id ids = true -> (id < ctr_of (ctrs s) e)%N;
  g_ctr : forall e o, assoc_N e (objs s) = Some o -> exists c, assoc_N e (ctrs s) = Some c;
  g_nodup : forall e o, assoc_N e (objs s) = Some o -> NoDup (map f_id (e_feats o));
  g_lt : forall e o f, assoc_N e (objs s) = Some o -> In f (e_feats o) -> (f_id f < ctr_of (ctrs s) e)%N;
  g_sync : forall e, assoc_N e (objs s) = None -> assoc_N e (ctrs s) = None;
  g_thr : forall t e ty role, assoc_N t (thr s) = Some (e, ty, role) -> assoc_N e (objs s) <> None;
  g_ids : NoDup ids;
  g_tr : forall e o, assoc_N e (objs s) = Some o -> NoDup (map tr_of (e_feats o))
}.

Definition Inv (s : st) (m : mst) : Prop := exists ids, m = mst_of s ids /\ Good s ids.

Lemma good_init : Good init [(0, 0); (0, 1)]%N.
Proof.
  constructor; simpl.
  - intros e id H. unfold handed in H.
    destruct e as [|pe]; destruct id as [|[q|q|]]; simpl in H; try discriminate; unfold ctr_of; simpl; lia.
  - intros e o H. destruct (N.eqb e 0); [|discriminate]. eexists. reflexivity.
  - intros e o H. destruct (N.eqb e 0); [|discriminate]. inversion H; subst. simpl.
    constructor; [simpl; intros [E|[]]; discriminate|]. constructor; [tauto | constructor].
  - intros e o f H Hin. destruct (N.eqb_spec e 0) as [->|]; [|discriminate]. inversion H; subst.
    unfold ctr_of. simpl. destruct Hin as [<-|[<-|[]]]; simpl; lia.
  - intros e H. destruct (N.eqb e 0); [discriminate | reflexivity].
  - intros t e ty role H. discriminate.
  - constructor; [simpl; intros [E|[]]; discriminate|]. constructor; [tauto | constructor].
  - intros e o H. destruct (N.eqb e 0); [|discriminate]. inversion H; subst. simpl.
    constructor; [simpl; intros [E|[]]; discriminate|]. constructor; [tauto | constructor].
Qed.

Lemma inv_init : Inv init minit.
Proof. exists [(0, 0); (0, 1)]%N. split; [reflexivity | exact good_init]. Qed.

(* resolution of an announced address gives back the feature *)
Lemma resolve_in s ids e f :
  Good s ids -> memN e (members s) = true -> In f (feats_of s e) -> resolve s e (f_id f) = Some f.
Proof.
  intros G Hm Hin. unfold resolve, feats_of in *. rewrite Hm.
  destruct (assoc_N e (objs s)) as [o|] eqn:Eo; [|contradiction].
  apply find_id_in; [exact (g_nodup _ _ G _ _ Eo) | exact Hin].
Qed.

Lemma flat_map_ext_in {A B} (f g : A -> list B) l : (forall a, In a l -> f a = g a) -> flat_map f l = flat_map g l.
Proof.
  induction l as [|a l IH]; simpl; intros H; [reflexivity|].
  rewrite (H a (or_introl eq_refl)), IH; [reflexivity|]. intros b Hb. apply H. now right.
Qed.

Lemma render_feats_exp s ids e :
  Good s ids -> memN e (members s) = true -> render_feats s e = exp_feats (mst_of s ids) e.
Proof.
  intros G Hm. unfold render_feats, exp_feats. change (mfeats (mst_of s ids) e) with (feats_of s e).
  apply flat_map_ext_in. intros f Hf. rewrite (resolve_in s ids e f G Hm Hf). reflexivity.
Qed.

Lemma render_reply_exp s ids p : Good s ids -> render_reply s p = exp_reply (mst_of s ids) p.
Proof.
  intros G. unfold render_reply, exp_reply, render_reply_of, exp_reply_of. f_equal. f_equal. f_equal.
  apply flat_map_ext_in. intros e He. apply render_feats_exp; [exact G|]. apply memN_In. exact He.
Qed.

(* the reply built from any entity list: its content is the expected one, whatever resolves *)
Lemma self_res_render_feats s ids e : map self_res (render_feats s e) = exp_feats (mst_of s ids) e.
Proof.
  unfold render_feats, exp_feats. change (mfeats (mst_of s ids) e) with (feats_of s e).
  rewrite map_flat_map. apply flat_map_ext_in. intros f _. apply self_res_render_feat_any.
Qed.

Lemma self_res_render_reply_of s ids p l :
  map self_res (render_reply_of s p l) = exp_reply_of (mst_of s ids) p l.
Proof.
  unfold render_reply_of, exp_reply_of. simpl. f_equal. rewrite !map_app. f_equal.
  - rewrite map_map. reflexivity.
  - f_equal. rewrite map_flat_map. apply flat_map_ext_in. intros e _. apply self_res_render_feats.
Qed.

(* ... and the features of the entities that are members now resolve to themselves *)
Lemma member_res_render_feat mem e f r :
  (memN e mem = true -> r = Some f) -> map (member_res mem) (render_feat e f r) = render_feat e f r.
Proof.
  intros Hr. unfold render_feat.
  assert (Hfn : forall l : list (N * opflags),
            map (member_res mem) (map (fun x : N * opflags => let '(fn, (rd, rp, w, wp)) := x in RFn fn rd rp w wp) l) =
            map (fun x : N * opflags => let '(fn, (rd, rp, w, wp)) := x in RFn fn rd rp w wp) l).
  { induction l as [|[fn [[[rd rp] w] wp]] l IH]; simpl; [reflexivity|]. rewrite IH. reflexivity. }
  destruct (memN e mem) eqn:Em.
  - rewrite (Hr eq_refl). simpl. rewrite Em, Hfn. reflexivity.
  - destruct r as [g|]; simpl; rewrite Em, Hfn; reflexivity.
Qed.

Lemma member_res_render_reply_of s ids p l :
  Good s ids -> map (member_res (members s)) (render_reply_of s p l) = render_reply_of s p l.
Proof.
  intros G. unfold render_reply_of. simpl. f_equal. rewrite !map_app. f_equal.
  - rewrite map_map. reflexivity.
  - f_equal. rewrite map_flat_map. apply flat_map_ext_in. intros e _.
    unfold render_feats. rewrite map_flat_map. apply flat_map_ext_in. intros f Hf.
    apply member_res_render_feat. intros Hm. exact (resolve_in s ids e f G Hm Hf).
Qed.

Lemma judge_reply_ok s ids p l :
  Good s ids -> judge_reply (members s) (render_reply_of s p l) (exp_reply_of (mst_of s ids) p l) = [].
Proof.
  intros G. unfold judge_reply.
  rewrite (self_res_render_reply_of s ids), (member_res_render_reply_of s ids p l G), !same_refl. reflexivity.
Qed.

Lemma render_notifs_exp s ids e lsc b :
  Good s ids -> (b = true -> memN e (members s) = true) ->
  render_notifs s e lsc b = exp_notifs (mst_of s ids) e lsc b.
Proof.
  intros G Hb. unfold render_notifs, exp_notifs. simpl. apply flat_map_ext_in. intros pc _.
  f_equal. f_equal. f_equal. destruct b; [|reflexivity]. apply render_feats_exp; [exact G | auto].
Qed.

(* ---------- state changes that keep the invariant ---------- *)

Lemma handed_in e id ids : In (e, id) ids -> handed e id ids = true.
Proof.
  intros H. unfold handed. apply existsb_exists. exists (e, id). split; [exact H|].
  simpl. rewrite !N.eqb_refl. reflexivity.
Qed.

(* handing out the next id of an existing entity object *)
Lemma good_take s ids e o :
  Good s ids -> assoc_N e (objs s) = Some o ->
  handed e (ctr_of (ctrs s) e) ids = false /\
  Good (fst (take_id s e)) ((e, ctr_of (ctrs s) e) :: ids) /\
  ctr_of (ctrs (fst (take_id s e))) e = N.succ (ctr_of (ctrs s) e).
Proof.
  intros G Ho. destruct (g_ctr _ _ G _ _ Ho) as [c Hc].
  assert (Hsucc : ctr_of (ctr_bump e (ctrs s)) e = N.succ (ctr_of (ctrs s) e)).
  { rewrite ctr_of_bump, N.eqb_refl. unfold ctr_of. rewrite Hc. reflexivity. }
  split; [|split; [|exact Hsucc]].
  - destruct (handed e (ctr_of (ctrs s) e) ids) eqn:E; [|reflexivity].
    pose proof (g_bound _ _ G _ _ E). lia.
  - unfold take_id. simpl. constructor; simpl.
    + intros e' id H. unfold handed in H. simpl in H. apply orb_true_iff in H. destruct H as [H|H].
      * apply andb_true_iff in H. destruct H as [H1 H2]. apply N.eqb_eq in H1, H2. subst. rewrite Hsucc. lia.
      * pose proof (g_bound _ _ G e' id H). pose proof (ctr_of_bump_le e (ctrs s) e'). lia.
    + intros e' o' H. rewrite assoc_ctr_bump. destruct (g_ctr _ _ G _ _ H) as [c' Hc'].
      destruct (N.eqb_spec e' e) as [Ee|_]; [subst e'|]; [rewrite Hc; eexists; reflexivity | eexists; exact Hc'].
    + exact (g_nodup _ _ G).
    + intros e' o' f H Hin. pose proof (g_lt _ _ G _ _ _ H Hin). pose proof (ctr_of_bump_le e (ctrs s) e'). lia.
    + intros e' H. rewrite assoc_ctr_bump. rewrite (g_sync _ _ G _ H).
      destruct (N.eqb_spec e' e) as [Ee|_]; [subst e'|]; [|reflexivity]. rewrite (g_sync _ _ G _ H). reflexivity.
    + exact (g_thr _ _ G).
    + constructor; [|exact (g_ids _ _ G)]. intros Hin. apply handed_in in Hin.
      pose proof (g_bound _ _ G _ _ Hin). lia.
    + exact (g_tr _ _ G).
Qed.

(* replacing the feature list of entity e *)
Lemma good_upd s ids e g :
  Good s ids ->
  (forall o, assoc_N e (objs s) = Some o ->
     NoDup (map f_id (g (e_feats o))) /\ (forall f, In f (g (e_feats o)) -> (f_id f < ctr_of (ctrs s) e)%N) /\
     NoDup (map tr_of (g (e_feats o)))) ->
  Good (set_objs s (upd_feats e g (objs s))) ids.
Proof.
  intros G Hg. constructor; simpl.
  - exact (g_bound _ _ G).
  - intros e' o' H. rewrite assoc_upd_feats in H. destruct (N.eqb_spec e' e) as [Ee|_]; [subst e'|].
    + destruct (assoc_N e (objs s)) as [o|] eqn:Eo; [|discriminate]. exact (g_ctr _ _ G _ _ Eo).
    + exact (g_ctr _ _ G _ _ H).
  - intros e' o' H. rewrite assoc_upd_feats in H. destruct (N.eqb_spec e' e) as [Ee|_]; [subst e'|].
    + destruct (assoc_N e (objs s)) as [o|] eqn:Eo; [|discriminate]. inversion H; subst. simpl.
      exact (proj1 (Hg o eq_refl)).
    + exact (g_nodup _ _ G _ _ H).
  - intros e' o' f H Hin. rewrite assoc_upd_feats in H. destruct (N.eqb_spec e' e) as [Ee|_]; [subst e'|].
    + destruct (assoc_N e (objs s)) as [o|] eqn:Eo; [|discriminate]. inversion H; subst. simpl in Hin.
      exact (proj1 (proj2 (Hg o eq_refl)) f Hin).
    + exact (g_lt _ _ G _ _ _ H Hin).
  - intros e' H. rewrite assoc_upd_feats in H. destruct (N.eqb_spec e' e) as [Ee|_]; [subst e'|].
    + destruct (assoc_N e (objs s)) as [o|] eqn:Eo; [discriminate|]. exact (g_sync _ _ G _ Eo).
    + exact (g_sync _ _ G _ H).
  - intros t e' ty role H. rewrite assoc_upd_feats. pose proof (g_thr _ _ G _ _ _ _ H) as Hne.
    destruct (N.eqb_spec e' e) as [Ee|_]; [subst e'|]; [|exact Hne].
    destruct (assoc_N e (objs s)); [discriminate | contradiction].
  - exact (g_ids _ _ G).
  - intros e' o' H. rewrite assoc_upd_feats in H. destruct (N.eqb_spec e' e) as [Ee|_]; [subst e'|].
    + destruct (assoc_N e (objs s)) as [o|] eqn:Eo; [|discriminate]. inversion H; subst. simpl.
      exact (proj2 (proj2 (Hg o eq_refl))).
    + exact (g_tr _ _ G _ _ H).
Qed.

(* appending a feature with the id just handed out *)
Lemma good_append s ids e o f :
  Good s ids -> assoc_N e (objs s) = Some o ->
  let s1 := fst (take_id s e) in
  f_id f = ctr_of (ctrs s) e -> ~ In (tr_of f) (map tr_of (e_feats o)) ->
  Good (set_objs s1 (upd_feats e (fun l => l ++ [f]) (objs s1))) ((e, ctr_of (ctrs s) e) :: ids).
Proof.
  intros G Ho s1 Hid Htr. destruct (good_take s ids e o G Ho) as [_ [G1 Hs]].
  apply good_upd; [exact G1|]. fold s1. intros o' Ho'. change (objs s1) with (objs s) in Ho'.
  rewrite Ho in Ho'. inversion Ho'; subst o'. unfold s1. rewrite Hs. split.
  - rewrite map_app. simpl. apply NoDup_snoc_lt; [exact (g_nodup _ _ G _ _ Ho)|].
    intros y Hy. apply in_map_iff in Hy. destruct Hy as [f' [<- Hf']]. rewrite Hid.
    exact (g_lt _ _ G _ _ _ Ho Hf').
  - split.
    + intros f' Hf'. apply in_app_or in Hf'. destruct Hf' as [Hf'|[<-|[]]].
      * pose proof (g_lt _ _ G _ _ _ Ho Hf'). lia.
      * rewrite Hid. lia.
    + rewrite map_app. simpl. apply NoDup_snoc_notin; [exact (g_tr _ _ G _ _ Ho) | exact Htr].
Qed.

(* the locked creation, repaired, against the monitor's judgement of the returned feature *)
Lemma create_inv s ids e ty role o :
  Good s ids -> assoc_N e (objs s) = Some o ->
  exists id new, snd (create true s e ty role) = [GRet id new] /\
    snd (judge_get (mst_of s ids) e ty role id new) = [] /\
    Inv (fst (create true s e ty role)) (fst (judge_get (mst_of s ids) e ty role id new)).
Proof.
  intros G Ho. unfold create, judge_get. change (mfeats (mst_of s ids) e) with (feats_of s e).
  destruct (find_tr ty role (feats_of s e)) as [f|] eqn:Ef; simpl.
  - exists (f_id f), false. rewrite N.eqb_refl. simpl. split; [reflexivity|]. split; [reflexivity|].
    exists ids. split; [reflexivity | exact G].
  - exists (ctr_of (ctrs s) e), true. split; [reflexivity|].
    destruct (good_take s ids e o G Ho) as [Hfresh _]. unfold fresh. simpl. rewrite Hfresh.
    split; [reflexivity|]. eexists. split; [reflexivity|].
    apply (good_append s ids e o _ G Ho); [reflexivity|]. unfold feats_of in Ef. rewrite Ho in Ef.
    exact (find_tr_none _ _ _ Ef).
Qed.

Lemma good_thr s ids t :
  Good s ids ->
  Good {| objs := objs s; ctrs := ctrs s; members := members s; subs := subs s; thr := remove_N t (thr s); rds := rds s |} ids.
Proof.
  intros G. destruct G as [G1 G2 G3 G4 G5 G6 G7 G8]. constructor; simpl; auto.
  intros t' e ty role H. rewrite lt_assoc_remove in H. destruct (N.eqb t' t); [discriminate|].
  exact (G6 _ _ _ _ H).
Qed.

Lemma good_members s ids l :
  Good s ids -> Good {| objs := objs s; ctrs := ctrs s; members := l; subs := subs s; thr := thr s; rds := rds s |} ids.
Proof. intros G. destruct G as [G1 G2 G3 G4 G5 G6 G7 G8]. constructor; simpl; auto. Qed.

Lemma good_subs s ids l :
  Good s ids -> Good {| objs := objs s; ctrs := ctrs s; members := members s; subs := l; thr := thr s; rds := rds s |} ids.
Proof. intros G. destruct G as [G1 G2 G3 G4 G5 G6 G7 G8]. constructor; simpl; auto. Qed.

Lemma good_rds s ids l :
  Good s ids -> Good {| objs := objs s; ctrs := ctrs s; members := members s; subs := subs s; thr := thr s; rds := l |} ids.
Proof. intros G. destruct G as [G1 G2 G3 G4 G5 G6 G7 G8]. constructor; simpl; auto. Qed.

Lemma memN_app x l : memN x (l ++ [x]) = true.
Proof. apply memN_In. apply in_or_app. right. now left. Qed.

(* ---------- one step ---------- *)

Lemma step_base_inv s m o :
  Inv s m ->
  snd (mon_base m o (snd (step_base true false s o))) = [] /\
  Inv (fst (step_base true false s o)) (fst (mon_base m o (snd (step_base true false s o)))).
Proof.
  intros [ids [-> G]]. destruct o as [e ty|e|e|e ty role desc fns|e fid fn r w ps|e|e ty role|t e ty role|t|p c|p c|p|t p|t|e calls|p|add e q i|e fid d];
    unfold step_base, mon_base; simpl.
  - (* NewEntity *)
    destruct (assoc_N (Npos e) (objs s)) as [o|] eqn:Eo; simpl; rewrite ?expect_ok; simpl.
    + split; [reflexivity|]. exists ids. split; [reflexivity | exact G].
    + split; [reflexivity|]. exists ids. split; [reflexivity|].
      pose proof (g_sync _ _ G _ Eo) as Ec.
      constructor; simpl.
      * intros e' id H. pose proof (g_bound _ _ G _ _ H) as Hb. unfold ctr_of in *. rewrite lt_assoc_app.
        destruct (assoc_N e' (ctrs s)); [exact Hb | lia].
      * intros e' o' H. rewrite lt_assoc_app in H. rewrite lt_assoc_app.
        destruct (assoc_N e' (objs s)) as [o2|] eqn:E2.
        -- destruct (g_ctr _ _ G _ _ E2) as [c Hc]. rewrite Hc. eexists. reflexivity.
        -- simpl in H. destruct (N.eqb_spec e' (Npos e)) as [->|_]; [|discriminate].
           rewrite Ec. cbn [assoc_N]. rewrite N.eqb_refl. eexists. reflexivity.
      * intros e' o' H. rewrite lt_assoc_app in H. destruct (assoc_N e' (objs s)) as [o2|] eqn:E2.
        -- inversion H; subst. exact (g_nodup _ _ G _ _ E2).
        -- simpl in H. destruct (N.eqb e' (Npos e)); [|discriminate]. inversion H; subst. constructor.
      * intros e' o' f H Hin. rewrite lt_assoc_app in H. destruct (assoc_N e' (objs s)) as [o2|] eqn:E2.
        -- inversion H; subst. pose proof (g_lt _ _ G _ _ _ E2 Hin) as Hb. unfold ctr_of in *. rewrite lt_assoc_app.
           destruct (assoc_N e' (ctrs s)); [exact Hb | lia].
        -- simpl in H. destruct (N.eqb e' (Npos e)); [|discriminate]. inversion H; subst. destruct Hin.
      * intros e' H. rewrite lt_assoc_app in H. rewrite lt_assoc_app.
        destruct (assoc_N e' (objs s)) as [o2|] eqn:E2; [discriminate|]. rewrite (g_sync _ _ G _ E2).
        simpl in *. destruct (N.eqb e' (Npos e)); [discriminate | reflexivity].
      * intros t e' ty' role H. rewrite lt_assoc_app. pose proof (g_thr _ _ G _ _ _ _ H) as Hne.
        destruct (assoc_N e' (objs s)); [discriminate | contradiction].
      * exact (g_ids _ _ G).
      * intros e' o' H. rewrite lt_assoc_app in H. destruct (assoc_N e' (objs s)) as [o2|] eqn:E2.
        -- inversion H; subst. exact (g_tr _ _ G _ _ E2).
        -- simpl in H. destruct (N.eqb e' (Npos e)); [|discriminate]. inversion H; subst. constructor.
  - (* AddEntity *)
    destruct (assoc_N (Npos e) (objs s)) as [o|] eqn:Eo; simpl.
    + destruct (memN (Npos e) (members s)) eqn:Em; simpl.
      * rewrite ?expect_ok. split; [reflexivity|]. exists ids. split; [reflexivity | exact G].
      * set (s1 := {| objs := objs s; ctrs := ctrs s; members := members s ++ [Npos e]; subs := subs s; thr := thr s; rds := rds s |}).
        assert (G1 : Good s1 ids) by (apply good_members; exact G).
        rewrite (render_notifs_exp s1 ids (Npos e) 1 true G1) by (intros _; apply memN_app).
        change (mst_of s1 ids) with
          {| m_objs := objs s; m_ids := ids; m_members := members s ++ [Npos e]; m_subs := subs s; m_thr := thr s; m_rds := rds s |}.
        rewrite judge_announce_ok by apply self_res_exp_notifs.
        split; [reflexivity|]. exists ids. split; [reflexivity | exact G1].
    + rewrite ?expect_ok. split; [reflexivity|]. exists ids. split; [reflexivity | exact G].
  - (* RemoveEntity *)
    destruct (assoc_N (Npos e) (objs s)) as [o|] eqn:Eo; simpl.
    + set (s1 := {| objs := objs s; ctrs := ctrs s; members := filter (fun x => negb (N.eqb x (Npos e))) (members s);
                    subs := subs s; thr := thr s; rds := rds s |}).
      assert (G1 : Good s1 ids) by (apply good_members; exact G).
      rewrite (render_notifs_exp s1 ids (Npos e) 2 false G1) by discriminate.
      change (mst_of s1 ids) with
        {| m_objs := objs s; m_ids := ids; m_members := filter (fun x => negb (N.eqb x (Npos e))) (members s);
           m_subs := subs s; m_thr := thr s; m_rds := rds s |}.
      rewrite judge_announce_ok by apply self_res_exp_notifs.
      split; [reflexivity|]. exists ids. split; [reflexivity | exact G1].
    + rewrite ?expect_ok. split; [reflexivity|]. exists ids. split; [reflexivity | exact G].
  - (* AddFeature *)
    destruct (assoc_N e (objs s)) as [o|] eqn:Eo; simpl.
    + destruct (good_take s ids e o G Eo) as [Hfresh [G1 Hs]]. unfold fresh. simpl. rewrite Hfresh.
      split; [reflexivity|]. eexists. split; [reflexivity|].
      apply (good_upd (fst (take_id s e)) _ e); [exact G1|]. intros o' Ho'. change (objs (fst (take_id s e))) with (objs s) in Ho'.
      rewrite Eo in Ho'. inversion Ho'; subst o'. rewrite Hs. unfold feats_add. cbn [f_type f_role].
      destruct (find_tr ty role (e_feats o)) eqn:Etr; simpl.
      * split; [exact (g_nodup _ _ G _ _ Eo)|]. split; [|exact (g_tr _ _ G _ _ Eo)].
        intros f1 Hf. pose proof (g_lt _ _ G _ _ _ Eo Hf). lia.
      * split; [|split].
        -- rewrite map_app. simpl. apply NoDup_snoc_lt; [exact (g_nodup _ _ G _ _ Eo)|].
           intros y Hy. apply in_map_iff in Hy. destruct Hy as [f' [<- Hf']]. exact (g_lt _ _ G _ _ _ Eo Hf').
        -- intros f' Hf'. apply in_app_or in Hf'. destruct Hf' as [Hf'|[<-|[]]]; simpl.
           ++ pose proof (g_lt _ _ G _ _ _ Eo Hf'). lia.
           ++ lia.
        -- rewrite map_app. simpl. apply NoDup_snoc_notin; [exact (g_tr _ _ G _ _ Eo)|].
           exact (find_tr_none _ _ _ Etr).
    + rewrite ?expect_ok. split; [reflexivity|]. exists ids. split; [reflexivity | exact G].
  - (* AddFunction *)
    destruct (assoc_N e (objs s)) as [o|] eqn:Eo; simpl.
    + destruct (find_id fid (e_feats o)) as [f0|] eqn:Ef; simpl; rewrite ?expect_ok; simpl.
      * split; [reflexivity|]. exists ids. split; [reflexivity|].
        apply good_upd; [exact G|]. intros o' Ho'. rewrite Eo in Ho'. inversion Ho'; subst o'.
        rewrite feats_upd_id_ids by reflexivity. rewrite feats_upd_id_trs by reflexivity.
        split; [exact (g_nodup _ _ G _ _ Eo)|]. split; [|exact (g_tr _ _ G _ _ Eo)].
        intros f Hf. apply (in_map f_id) in Hf. rewrite feats_upd_id_ids in Hf by reflexivity.
        apply in_map_iff in Hf. destruct Hf as [f' [<- Hf']]. exact (g_lt _ _ G _ _ _ Eo Hf').
      * split; [reflexivity|]. exists ids. split; [reflexivity | exact G].
    + rewrite ?expect_ok. split; [reflexivity|]. exists ids. split; [reflexivity | exact G].
  - (* NextId *)
    destruct (assoc_N e (objs s)) as [o|] eqn:Eo; simpl.
    + destruct (good_take s ids e o G Eo) as [Hfresh [G1 Hs]]. unfold fresh. simpl. rewrite Hfresh.
      split; [reflexivity|]. eexists. split; [reflexivity | exact G1].
    + rewrite ?expect_ok. split; [reflexivity|]. exists ids. split; [reflexivity | exact G].
  - (* GetOrAdd *)
    destruct (assoc_N e (objs s)) as [o|] eqn:Eo; simpl.
    + destruct (find_tr ty role (e_feats o)) as [f|] eqn:Ef; simpl.
      * unfold judge_get. unfold mfeats. simpl. rewrite Eo, Ef, N.eqb_refl. simpl.
        split; [reflexivity|]. exists ids. split; [reflexivity | exact G].
      * destruct (create_inv s ids e ty role o G Eo) as [id [new [Hout [Hv Hi]]]].
        rewrite Hout. split; [exact Hv | exact Hi].
    + rewrite ?expect_ok. split; [reflexivity|]. exists ids. split; [reflexivity | exact G].
  - (* GLookup *)
    destruct (assoc_N t (thr s)) as [x|] eqn:Et; simpl.
    + rewrite ?expect_ok. split; [reflexivity|]. exists ids. split; [reflexivity | exact G].
    + destruct (assoc_N e (objs s)) as [o|] eqn:Eo; simpl.
      * destruct (find_tr ty role (e_feats o)) as [f|] eqn:Ef; simpl.
        -- unfold judge_get. unfold mfeats. simpl. rewrite Eo, Ef, N.eqb_refl. simpl.
           split; [reflexivity|]. exists ids. split; [reflexivity | exact G].
        -- split; [reflexivity|]. exists ids. split; [reflexivity|].
           destruct G as [G1 G2 G3 G4 G5 G6 G7 G8]. constructor; simpl; auto.
           intros t' e' ty' role' H. destruct (N.eqb t' t); [|exact (G6 _ _ _ _ H)].
           inversion H; subst. rewrite Eo. discriminate.
      * rewrite ?expect_ok. split; [reflexivity|]. exists ids. split; [reflexivity | exact G].
  - (* GCreate *)
    destruct (assoc_N t (thr s)) as [[[e ty] role]|] eqn:Et; simpl.
    + set (s0 := {| objs := objs s; ctrs := ctrs s; members := members s; subs := subs s; thr := remove_N t (thr s); rds := rds s |}).
      assert (G0 : Good s0 ids) by (apply good_thr; exact G).
      destruct (assoc_N e (objs s)) as [o|] eqn:Eo; [|exfalso; exact (g_thr _ _ G _ _ _ _ Et Eo)].
      destruct (create_inv s0 ids e ty role o G0 Eo) as [id [new [Hout [Hv Hi]]]].
      rewrite Hout. split; [exact Hv | exact Hi].
    + rewrite ?expect_ok. split; [reflexivity|]. exists ids. split; [reflexivity | exact G].
  - (* Subscribe *)
    destruct (N.ltb c NCLIENT && negb (sub_mem (p, c) (subs s))) eqn:E; simpl.
    + apply andb_true_iff in E. destruct E as [_ E]. rewrite E. split; [reflexivity|].
      exists ids. split; [reflexivity | apply good_subs; exact G].
    + split; [reflexivity|]. exists ids. split; [reflexivity | exact G].
  - (* Unsubscribe *)
    destruct (sub_mem (p, c) (subs s)) eqn:E; simpl.
    + split; [reflexivity|]. exists ids. split; [reflexivity | apply good_subs; exact G].
    + split; [reflexivity|]. exists ids. split; [reflexivity | exact G].
  - (* Read *)
    rewrite (render_reply_exp s ids p G). rewrite judge_announce_ok by apply self_res_exp_reply.
    split; [reflexivity|]. exists ids. split; [reflexivity | exact G].
  - (* ReadBegin *)
    destruct (assoc_N t (rds s)) as [x|] eqn:Et; simpl; rewrite ?expect_ok; simpl.
    + split; [reflexivity|]. exists ids. split; [reflexivity | exact G].
    + split; [reflexivity|]. exists ids. split; [reflexivity | apply good_rds; exact G].
  - (* ReadEnd *)
    destruct (assoc_N t (rds s)) as [[p l]|] eqn:Et; simpl; rewrite ?expect_ok; simpl.
    + set (s1 := {| objs := objs s; ctrs := ctrs s; members := members s; subs := subs s; thr := thr s;
                    rds := remove_N t (rds s) |}).
      assert (G1 : Good s1 ids) by (apply good_rds; exact G).
      change (judge_reply (members s1) (render_reply_of s1 p l) (exp_reply_of (mst_of s1 ids) p l) = [] /\
              Inv s1 (mst_of s1 ids)).
      split; [apply judge_reply_ok; exact G1 | exists ids; split; [reflexivity | exact G1]].
    + split; [reflexivity|]. exists ids. split; [reflexivity | exact G].
  - (* Burst: not an operation of step_base *)
    rewrite ?expect_ok. split; [reflexivity|]. exists ids. split; [reflexivity | exact G].
  - (* Reconnect *)
    rewrite ?expect_ok. split; [reflexivity|]. exists ids. split; [reflexivity | apply good_subs; exact G].
  - (* During: not an operation of step_base *)
    rewrite ?expect_ok. split; [reflexivity|]. exists ids. split; [reflexivity | exact G].
  - (* SetDescr *)
    destruct (assoc_N e (objs s)) as [o|] eqn:Eo; simpl.
    + destruct (find_id fid (e_feats o)) as [f0|] eqn:Ef; simpl; rewrite ?expect_ok; simpl.
      * split; [reflexivity|]. exists ids. split; [reflexivity|].
        apply good_upd; [exact G|]. intros o' Ho'. rewrite Eo in Ho'. inversion Ho'; subst o'.
        rewrite feats_upd_id_ids by reflexivity. rewrite feats_upd_id_trs by reflexivity.
        split; [exact (g_nodup _ _ G _ _ Eo)|]. split; [|exact (g_tr _ _ G _ _ Eo)].
        intros f Hf. apply (in_map f_id) in Hf. rewrite feats_upd_id_ids in Hf by reflexivity.
        apply in_map_iff in Hf. destruct Hf as [f' [<- Hf']]. exact (g_lt _ _ G _ _ _ Eo Hf').
      * split; [reflexivity|]. exists ids. split; [reflexivity | exact G].
    + rewrite ?expect_ok. split; [reflexivity|]. exists ids. split; [reflexivity | exact G].
Qed.

(* a call of a burst on an existing entity object: one observation, the object stays *)
Lemma bcall_single s e c o0 :
  assoc_N e (objs s) = Some o0 ->
  exists x, snd (step_base true false s (bcall_op e c)) = [x] /\
            assoc_N e (objs (fst (step_base true false s (bcall_op e c)))) <> None.
Proof.
  intros Ho. destruct c as [|ty role|ty role]; unfold step_base, bcall_op; simpl; rewrite Ho.
  - eexists. split; [reflexivity|]. simpl. rewrite Ho. discriminate.
  - eexists. split; [reflexivity|]. simpl. rewrite assoc_upd_feats, N.eqb_refl, Ho. discriminate.
  - destruct (find_tr ty role (e_feats o0)) as [f|] eqn:Ef.
    + eexists. split; [reflexivity|]. simpl. rewrite Ho. discriminate.
    + unfold create, feats_of. rewrite Ho, Ef. simpl. eexists. split; [reflexivity|].
      simpl. rewrite assoc_upd_feats, N.eqb_refl, Ho. discriminate.
Qed.

Lemma calls_inv e : forall calls s m,
  Inv s m -> assoc_N e (objs s) <> None ->
  snd (mon_calls m (map (bcall_op e) calls) (snd (run_calls true false s (map (bcall_op e) calls)))) = [] /\
  Inv (fst (run_calls true false s (map (bcall_op e) calls)))
      (fst (mon_calls m (map (bcall_op e) calls) (snd (run_calls true false s (map (bcall_op e) calls))))).
Proof.
  induction calls as [|c calls IH]; intros s m I Hne; simpl; [split; [reflexivity | exact I]|].
  destruct (assoc_N e (objs s)) as [o0|] eqn:Ho; [|congruence].
  destruct (bcall_single s e c o0 Ho) as [x [Hx Hne1]].
  pose proof (step_base_inv s m (bcall_op e c) I) as Hs.
  destruct (step_base true false s (bcall_op e c)) as [s1 out]. simpl in Hx, Hne1, Hs. subst out.
  specialize (IH s1).
  destruct (run_calls true false s1 (map (bcall_op e) calls)) as [s2 out2]. simpl.
  destruct (mon_base m (bcall_op e c) [x]) as [m1 v]. simpl in Hs. destruct Hs as [-> I1].
  specialize (IH m1 I1 Hne1). simpl in IH.
  destruct (mon_calls m1 (map (bcall_op e) calls) out2) as [m2 v2]. simpl in *. exact IH.
Qed.

Lemma step_inv s m o :
  Inv s m ->
  snd (mon m o (snd (step s o))) = [] /\ Inv (fst (step s o)) (fst (mon m o (snd (step s o)))).
Proof.
  intros I. destruct o; try exact (step_base_inv s m _ I).
  - unfold step, step_gen, mon. destruct (burst_wf calls).
    + destruct I as [ids [-> G]]. change (m_objs (mst_of s ids)) with (objs s).
      destruct (assoc_N e (objs s)) as [o0|] eqn:Ho.
      * apply calls_inv; [exists ids; split; [reflexivity | exact G] | rewrite Ho; discriminate].
      * cbn [snd fst]. rewrite expect_ok. split; [reflexivity|]. exists ids. split; [reflexivity | exact G].
    + cbn [snd fst]. rewrite expect_ok. split; [reflexivity | exact I].
  - (* During: the entity operation, then the overlapped one *)
    unfold step, step_gen, mon.
    pose proof (step_base_inv s m (ent_op add e) I) as H1.
    destruct (step_base true false s (ent_op add e)) as [s1 o1]. cbn [fst snd] in H1.
    pose proof (fun m1 I1 => step_base_inv s1 m1 (inner_op i) I1) as H2.
    assert (Hhd : match snd (step_base true false s1 (inner_op i)) with Blocked :: _ => False | _ => True end).
    { destruct i; simpl; exact Logic.I. }
    destruct (step_base true false s1 (inner_op i)) as [s2 o2]. cbn [fst snd] in H2, Hhd. cbn [snd fst].
    rewrite Nat2N.id.
    assert (Hf : firstn (length o1) (o1 ++ o2) = o1).
    { rewrite firstn_app, firstn_all, Nat.sub_diag. simpl. apply app_nil_r. }
    assert (Hs : skipn (length o1) (o1 ++ o2) = o2).
    { rewrite skipn_app, skipn_all, Nat.sub_diag. reflexivity. }
    rewrite Hf, Hs.
    destruct (mon_base m (ent_op add e) o1) as [m1 v1]. cbn [fst snd] in H1. destruct H1 as [-> I1].
    specialize (H2 m1 I1).
    assert (Hm : (match o2 with Blocked :: b' => ([CL_STALL], b') | _ => ([], o2) end) = (@nil Z, o2)).
    { destruct o2 as [|x o2']; [reflexivity|]. destruct x; try reflexivity. contradiction. }
    rewrite Hm. destruct (mon_base m1 (inner_op i) o2) as [m2 v2]. cbn [fst snd] in *.
    destruct H2 as [-> I2]. split; [reflexivity | exact I2].
Qed.

Theorem run_accepted_from s m sc ops :
  Inv s m -> accepted (judge m sc (snd (run s ops))) = true /\ Inv (fst (run s ops)) (mrun m (snd (run s ops))).
Proof.
  unfold run. revert s m sc. induction ops as [|o ops IH]; intros s m sc I; [split; [reflexivity | exact I]|].
  simpl. pose proof (step_inv s m o I) as Hs. unfold step in Hs.
  destruct (step_gen true false s o) as [s1 out]. destruct (run_gen true false s1 ops) as [s2 tr] eqn:Er. simpl in *.
  destruct (mon m o out) as [m1 v]. simpl in *. destruct Hs as [-> I1]. simpl.
  specialize (IH s1 m1 (scope sc o) I1). rewrite Er in IH. exact IH.
Qed.

Theorem run_accepted ops : accepted (judge minit sinit (snd (run init ops))) = true.
Proof. apply run_accepted_from. exact inv_init. Qed.

(* ---------- explicit corollaries ---------- *)

Theorem run_good ops : exists ids, Good (fst (run init ops)) ids.
Proof.
  destruct (run_accepted_from init minit sinit ops inv_init) as [_ [ids [_ G]]]. exists ids. exact G.
Qed.

(* every announced feature address resolves to that feature *)
Theorem resolves ops e f :
  let s := fst (run init ops) in
  In e (members s) -> In f (feats_of s e) -> resolve s e (f_id f) = Some f.
Proof.
  intros s He Hf. destruct (run_good ops) as [ids G].
  apply (resolve_in s ids e f G); [apply memN_In; exact He | exact Hf].
Qed.

(* feature ids within an entity object are pairwise different and below the generator *)
Theorem ids_unique ops e o :
  let s := fst (run init ops) in
  assoc_N e (objs s) = Some o ->
  NoDup (map f_id (e_feats o)) /\ forall f, In f (e_feats o) -> (f_id f < ctr_of (ctrs s) e)%N.
Proof.
  intros s Ho. destruct (run_good ops) as [ids G].
  split; [exact (g_nodup _ _ G _ _ Ho) | intros f Hf; exact (g_lt _ _ G _ _ _ Ho Hf)].
Qed.

(* no feature id is handed out twice within an entity, over the whole history (also after removals):
   the monitor's record of every (entity, id) handed out has no duplicates *)
Theorem handed_nodup ops : NoDup (m_ids (mrun minit (snd (run init ops)))).
Proof.
  destruct (run_accepted_from init minit sinit ops inv_init) as [_ [ids [-> G]]]. simpl. exact (g_ids _ _ G).
Qed.

(* for all schedules no entity holds two features of one type and role *)
Theorem type_role_unique ops e o :
  assoc_N e (objs (fst (run init ops))) = Some o -> NoDup (map tr_of (e_feats o)).
Proof. intros Ho. destruct (run_good ops) as [ids G]. exact (g_tr _ _ G _ _ Ho). Qed.

(* ---------- overlapping discovery reads ---------- *)

Lemma run_app s a b :
  run s (a ++ b) =
  let '(s1, t1) := run s a in let '(s2, t2) := run s1 b in (s2, t1 ++ t2).
Proof.
  unfold run. revert s. induction a as [|o a IH]; intros s; simpl.
  - destruct (run_gen true false s b); reflexivity.
  - destruct (step_gen true false s o) as [s1 out]. rewrite IH.
    destruct (run_gen true false s1 a) as [s2 t1]. destruct (run_gen true false s2 b) as [s3 t2]. reflexivity.
Qed.

(* the pending reads change only at ReadBegin / ReadEnd *)
Lemma step_base_rds s o :
  rds (fst (step_base true false s o)) =
  match o with
  | ReadBegin t p => match assoc_N t (rds s) with Some _ => rds s | None => (t, (p, members s)) :: rds s end
  | ReadEnd t => match assoc_N t (rds s) with Some _ => remove_N t (rds s) | None => rds s end
  | _ => rds s
  end.
Proof.
  destruct o as [e ty|e|e|e ty role desc fns|e fid fn r w ps|e|e ty role|t e ty role|t|p c|p c|p|t p|t|e calls|p|add e q i|e fid d];
    unfold step_base, create, take_id, set_objs; simpl;
    repeat (match goal with
            | |- context [match ?x with _ => _ end] => destruct x; simpl
            end); reflexivity.
Qed.

Lemma run_calls_rds e : forall calls s, rds (fst (run_calls true false s (map (bcall_op e) calls))) = rds s.
Proof.
  induction calls as [|c calls IH]; intros s; simpl; [reflexivity|].
  pose proof (step_base_rds s (bcall_op e c)) as H1.
  destruct (step_base true false s (bcall_op e c)) as [s1 out]. specialize (IH s1).
  destruct (run_calls true false s1 (map (bcall_op e) calls)) as [s2 out2]. simpl in *.
  rewrite IH, H1. destruct c; reflexivity.
Qed.

Lemma step_rds s o :
  rds (fst (step s o)) =
  match o with
  | ReadBegin t p => match assoc_N t (rds s) with Some _ => rds s | None => (t, (p, members s)) :: rds s end
  | ReadEnd t => match assoc_N t (rds s) with Some _ => remove_N t (rds s) | None => rds s end
  | _ => rds s
  end.
Proof.
  destruct o; try exact (step_base_rds s _).
  - unfold step, step_gen. destruct (burst_wf calls); [|reflexivity].
    destruct (assoc_N e (objs s)); [apply run_calls_rds | reflexivity].
  - unfold step, step_gen.
    pose proof (step_base_rds s (ent_op add e)) as H1.
    destruct (step_base true false s (ent_op add e)) as [s1 o1]. cbn [fst] in H1.
    pose proof (step_base_rds s1 (inner_op i)) as H2.
    destruct (step_base true false s1 (inner_op i)) as [s2 o2]. cbn [fst] in *.
    rewrite H2. destruct i; simpl; rewrite H1; destruct add; reflexivity.
Qed.

(* a read that has begun keeps the entity list it took, whatever else happens, until it ends *)
Lemma pending_kept s o t x :
  assoc_N t (rds s) = Some x -> o <> ReadEnd t -> assoc_N t (rds (fst (step s o))) = Some x.
Proof.
  intros Hx Hne. rewrite step_rds. destruct o; try exact Hx.
  - destruct (assoc_N t0 (rds s)) eqn:E0; [exact Hx|]. simpl.
    destruct (N.eqb_spec t t0) as [->|_]; [congruence | exact Hx].
  - destruct (assoc_N t0 (rds s)) eqn:E0; [|exact Hx]. rewrite lt_assoc_remove.
    destruct (N.eqb_spec t t0) as [->|_]; [congruence | exact Hx].
Qed.

Lemma pending_kept_run s ops t x :
  assoc_N t (rds s) = Some x -> ~ In (ReadEnd t) ops -> assoc_N t (rds (fst (run s ops))) = Some x.
Proof.
  unfold run. revert s. induction ops as [|o ops IH]; intros s Hx Hn; simpl; [exact Hx|].
  pose proof (pending_kept s o t x Hx) as Hk. unfold step in Hk.
  destruct (step_gen true false s o) as [s1 out]. specialize (IH s1).
  destruct (run_gen true false s1 ops) as [s2 tr]. simpl in *. apply IH.
  - apply Hk. intros ->. apply Hn. now left.
  - intros Hin. apply Hn. now right.
Qed.

(* Snapshot semantics.  Whatever happens between the ReadBegin of thread t (after any history
   ops1) and its ReadEnd (any operations ops2 of any threads: additions and removals of
   entities, features and functions, GetOrAddFeature steps, other reads), the reply lists
   exactly the entities that were members at its ReadBegin, each as it is at ReadEnd. *)
Theorem read_snapshot ops1 t p ops2 :
  let s1 := fst (run init ops1) in
  let s2 := fst (run init (ops1 ++ ReadBegin t p :: ops2)) in
  assoc_N t (rds s1) = None -> ~ In (ReadEnd t) ops2 ->
  snd (step s2 (ReadEnd t)) = render_reply_of s2 p (members s1).
Proof.
  intros s1 s2 Hfree Hn.
  assert (Hp : assoc_N t (rds s2) = Some (p, members s1)).
  { unfold s2. rewrite run_app. fold s1. destruct (run init ops1) as [s1' t1] eqn:E1. simpl in s1. subst s1.
    change (ReadBegin t p :: ops2) with ([ReadBegin t p] ++ ops2). rewrite run_app.
    assert (Hb : run s1' [ReadBegin t p] =
                 ({| objs := objs s1'; ctrs := ctrs s1'; members := members s1'; subs := subs s1'; thr := thr s1';
                     rds := (t, (p, members s1')) :: rds s1' |}, [(ReadBegin t p, [Parked])])).
    { unfold run. simpl. rewrite Hfree. reflexivity. }
    rewrite Hb.
    set (sb := {| objs := objs s1'; ctrs := ctrs s1'; members := members s1'; subs := subs s1'; thr := thr s1';
                  rds := (t, (p, members s1')) :: rds s1' |}).
    pose proof (pending_kept_run sb ops2 t (p, members s1')) as Hk.
    destruct (run sb ops2) as [s3 t3]. simpl in *. apply Hk; [|exact Hn].
    rewrite N.eqb_refl. reflexivity. }
  unfold step, step_gen, step_base. rewrite Hp. reflexivity.
Qed.

(* the uninterrupted read is ReadBegin; ReadEnd on a free thread *)
Theorem read_atomic s t p :
  assoc_N t (rds s) = None ->
  let sb := fst (step s (ReadBegin t p)) in
  snd (step s (ReadBegin t p)) = [Parked] /\
  snd (step sb (ReadEnd t)) = snd (step s (Read p)) /\ fst (step sb (ReadEnd t)) = s.
Proof.
  intros Hfree. unfold step, step_gen, step_base. simpl. rewrite Hfree. simpl. rewrite ?N.eqb_refl. simpl. rewrite ?N.eqb_refl.
  split; [reflexivity|]. split; [reflexivity|].
  assert (Hr : forall (l : list (N * (N * list N))), assoc_N t l = None -> remove_N t l = l).
  { induction l as [|[k v] l IH]; simpl; [reflexivity|]. destruct (N.eqb t k); [discriminate|].
    intros H. rewrite (IH H). reflexivity. }
  rewrite (Hr _ Hfree). destruct s; reflexivity.
Qed.

(* ---------- overlapping feature creation: a burst is any interleaving of its calls ---------- *)
(* Each call of a burst takes its feature id in one atomic step and appends under the entity
   lock; an interleaving of the calls is an order of these steps, i.e. a permutation of the
   calls executed one after the other. *)
Require Import Coq.Sorting.Permutation.

(* the feature ids a list of observations shows as taken from the generator *)
Definition consumed1 (o : obs) : list N :=
  match o with
  | FeatId id => [id]
  | GRet id true => [id]
  | _ => []
  end.
Definition consumed (l : list obs) : list N := flat_map consumed1 l.

Fixpoint nseq (c : N) (n : nat) : list N :=
  match n with
  | O => []
  | S k => c :: nseq (N.succ c) k
  end.

Fixpoint bump_n (e : N) (n : nat) (l : list (N * N)) : list (N * N) :=
  match n with
  | O => l
  | S k => bump_n e k (ctr_bump e l)
  end.

(* does the call take an id, given the features F0 the entity had before the burst *)
Definition consuming (F0 : list feat) (c : bcall) : bool :=
  match c with
  | BGet ty role => match find_tr ty role F0 with Some _ => false | None => true end
  | _ => true
  end.
Definition ncons (F0 : list feat) (calls : list bcall) : nat := length (filter (consuming F0) calls).

Lemma ncons_perm F0 a b : Permutation a b -> ncons F0 a = ncons F0 b.
Proof.
  unfold ncons. induction 1 as [|x l l' P IH|x y l|l l' l'' P1 IH1 P2 IH2]; simpl.
  - reflexivity.
  - destruct (consuming F0 x); simpl; rewrite IH; reflexivity.
  - destruct (consuming F0 x), (consuming F0 y); reflexivity.
  - rewrite IH1. exact IH2.
Qed.

Lemma find_tr_app ty role l l' :
  find_tr ty role (l ++ l') = match find_tr ty role l with Some f => Some f | None => find_tr ty role l' end.
Proof.
  unfold find_tr. induction l as [|f l IH]; simpl; [reflexivity|].
  destruct (is_tr ty role f); [reflexivity | exact IH].
Qed.

Lemma sub_eqb_eq a b : sub_eqb a b = true <-> a = b.
Proof.
  unfold sub_eqb. destruct a as [a1 a2], b as [b1 b2]. simpl. rewrite andb_true_iff, !N.eqb_eq.
  split; [intros [-> ->]; reflexivity | intros H; inversion H; split; reflexivity].
Qed.

Lemma tr_mem_In x l : tr_mem x l = true <-> In x l.
Proof.
  unfold tr_mem. rewrite existsb_exists. split.
  - intros [y [Hy He]]. apply sub_eqb_eq in He. subst. exact Hy.
  - intros H. exists x. split; [exact H | apply sub_eqb_eq; reflexivity].
Qed.

Lemma tr_nodup_NoDup l : tr_nodup l = true <-> NoDup l.
Proof.
  induction l as [|x l IH]; simpl; [split; [constructor | reflexivity]|].
  rewrite andb_true_iff, negb_true_iff, IH. split.
  - intros [Hm Hd]. constructor; [|exact Hd]. intros Hin. apply tr_mem_In in Hin. congruence.
  - intros H. inversion H as [|a b Hn Hd]; subst. split; [|exact Hd].
    destruct (tr_mem x l) eqn:E; [|reflexivity]. apply tr_mem_In in E. contradiction.
Qed.

Lemma burst_wf_perm a b : Permutation a b -> burst_wf a = true -> burst_wf b = true.
Proof.
  unfold burst_wf. intros P H. apply tr_nodup_NoDup. apply tr_nodup_NoDup in H.
  apply (Permutation_NoDup (l := flat_map bcall_tr a)); [|exact H].
  apply Permutation_flat_map. exact P.
Qed.

(* a feature of another (type, role) appended: the lookup of (ty, role) is not affected *)
Lemma find_tr_snoc_other ty role l f :
  (f_type f, f_role f) <> (ty, role) -> find_tr ty role (l ++ [f]) = find_tr ty role l.
Proof.
  intros Hne. rewrite find_tr_app. destruct (find_tr ty role l); [reflexivity|].
  unfold find_tr. simpl. unfold is_tr.
  destruct (N.eqb_spec (f_type f) ty) as [E1|_]; [|reflexivity].
  destruct (N.eqb_spec (f_role f) role) as [E2|_]; [|reflexivity]. subst. contradiction.
Qed.

Lemma find_tr_feats_add_other ty role l f :
  (f_type f, f_role f) <> (ty, role) -> find_tr ty role (feats_add f l) = find_tr ty role l.
Proof.
  intros Hne. unfold feats_add. destruct (find_tr (f_type f) (f_role f) l); [reflexivity|].
  apply find_tr_snoc_other. exact Hne.
Qed.

(* the calls one after the other: the ids taken are next, next+1, ... -- as many as calls that
   take one --, and the generator has been advanced that many times; nothing of this depends
   on the order of the calls *)
Lemma run_calls_ids e F0 : forall calls s c o,
  assoc_N e (ctrs s) = Some c -> assoc_N e (objs s) = Some o ->
  NoDup (flat_map bcall_tr calls) ->
  (forall x, In x (flat_map bcall_tr calls) ->
     (find_tr (fst x) (snd x) (e_feats o) = None <-> find_tr (fst x) (snd x) F0 = None)) ->
  consumed (snd (run_calls true false s (map (bcall_op e) calls))) = nseq c (ncons F0 calls) /\
  ctrs (fst (run_calls true false s (map (bcall_op e) calls))) = bump_n e (ncons F0 calls) (ctrs s).
Proof.
  induction calls as [|cl calls IH]; intros s c o Hc Ho Hnd Hsame; [split; reflexivity|].
  assert (Hc1 : assoc_N e (ctr_bump e (ctrs s)) = Some (N.succ c)).
  { rewrite assoc_ctr_bump, N.eqb_refl, Hc. reflexivity. }
  assert (Hcur : ctr_of (ctrs s) e = c) by (unfold ctr_of; rewrite Hc; reflexivity).
  destruct cl as [|ty role|ty role]; cbn [map bcall_op run_calls].
  - (* NextFeatureId *)
    unfold step_base. rewrite Ho. unfold take_id. rewrite Hcur.
    set (s1 := {| objs := objs s; ctrs := ctr_bump e (ctrs s); members := members s; subs := subs s; thr := thr s; rds := rds s |}).
    specialize (IH s1 (N.succ c) o Hc1 Ho Hnd Hsame).
    destruct (run_calls true false s1 (map (bcall_op e) calls)) as [s2 out2]. simpl in *.
    destruct IH as [IH1 IH2]. rewrite IH1, IH2. split; reflexivity.
  - (* NewFeatureLocal(NextFeatureId) + AddFeature *)
    simpl in Hnd. apply NoDup_cons_iff in Hnd. destruct Hnd as [Hnot Hnd'].
    unfold step_base. rewrite Ho. unfold take_id. rewrite Hcur. cbn [fst snd].
    set (f := {| f_id := c; f_type := ty; f_role := role; f_desc := if N.eqb 0 0 then 0%N else N.succ 0;
                 f_ops := fns_add role [] [] |}).
    set (s1 := set_objs _ _).
    assert (Ho1 : assoc_N e (objs s1) = Some {| e_type := e_type o; e_feats := feats_add f (e_feats o) |}).
    { unfold s1. simpl. rewrite assoc_upd_feats, N.eqb_refl, Ho. reflexivity. }
    assert (Hc1' : assoc_N e (ctrs s1) = Some (N.succ c)) by exact Hc1.
    specialize (IH s1 (N.succ c) _ Hc1' Ho1 Hnd').
    assert (Hs1 : forall x, In x (flat_map bcall_tr calls) ->
              (find_tr (fst x) (snd x) (feats_add f (e_feats o)) = None <-> find_tr (fst x) (snd x) F0 = None)).
    { intros x Hx. rewrite find_tr_feats_add_other.
      - apply Hsame. simpl. right. exact Hx.
      - simpl. intros E. apply Hnot. destruct x as [x1 x2]. simpl in E. inversion E; subst. exact Hx. }
    specialize (IH Hs1).
    destruct (run_calls true false s1 (map (bcall_op e) calls)) as [s2 out2]. simpl in *.
    destruct IH as [IH1 IH2]. rewrite IH1, IH2. split; reflexivity.
  - (* GetOrAddFeature *)
    simpl in Hnd. apply NoDup_cons_iff in Hnd. destruct Hnd as [Hnot Hnd'].
    pose proof (Hsame (ty, role) (or_introl eq_refl)) as Hme. simpl in Hme.
    unfold step_base. rewrite Ho.
    destruct (find_tr ty role (e_feats o)) as [f0|] eqn:Ef.
    + (* it is there: nothing taken *)
      assert (Hn : consuming F0 (BGet ty role) = false).
      { simpl. destruct (find_tr ty role F0); [reflexivity|]. destruct Hme as [_ Hme]. discriminate (Hme eq_refl). }
      specialize (IH s c o Hc Ho Hnd').
      assert (Hs1 : forall x, In x (flat_map bcall_tr calls) ->
                (find_tr (fst x) (snd x) (e_feats o) = None <-> find_tr (fst x) (snd x) F0 = None)).
      { intros x Hx. apply Hsame. simpl. right. exact Hx. }
      specialize (IH Hs1).
      destruct (run_calls true false s (map (bcall_op e) calls)) as [s2 out2]. simpl in *.
      unfold ncons in *. simpl. rewrite Hn. exact IH.
    + (* created under the lock *)
      assert (Hy : consuming F0 (BGet ty role) = true).
      { simpl. destruct Hme as [Hme _]. rewrite (Hme eq_refl). reflexivity. }
      unfold create, feats_of. rewrite Ho, Ef. unfold take_id. rewrite Hcur. cbn [fst snd].
      set (f := {| f_id := c; f_type := ty; f_role := role; f_desc := 1; f_ops := [] |}).
      set (s1 := set_objs _ _).
      assert (Ho1 : assoc_N e (objs s1) = Some {| e_type := e_type o; e_feats := e_feats o ++ [f] |}).
      { unfold s1. simpl. rewrite assoc_upd_feats, N.eqb_refl, Ho. reflexivity. }
      assert (Hc1' : assoc_N e (ctrs s1) = Some (N.succ c)) by exact Hc1.
      specialize (IH s1 (N.succ c) _ Hc1' Ho1 Hnd').
      assert (Hs1 : forall x, In x (flat_map bcall_tr calls) ->
                (find_tr (fst x) (snd x) (e_feats o ++ [f]) = None <-> find_tr (fst x) (snd x) F0 = None)).
      { intros x Hx. rewrite find_tr_snoc_other.
        - apply Hsame. simpl. right. exact Hx.
        - simpl. intros E. apply Hnot. destruct x as [x1 x2]. simpl in E. inversion E; subst. exact Hx. }
      specialize (IH Hs1).
      destruct (run_calls true false s1 (map (bcall_op e) calls)) as [s2 out2]. simpl in *.
      destruct IH as [IH1 IH2]. unfold ncons in *. simpl. rewrite Hy. simpl. rewrite IH1, IH2. split; reflexivity.
Qed.

Lemma nseq_lt c n x : In x (nseq c n) -> (c <= x)%N.
Proof.
  revert c. induction n as [|n IH]; intros c H; simpl in H; [contradiction|].
  destruct H as [<-|H]; [lia|]. apply IH in H. lia.
Qed.

Lemma nseq_nodup c n : NoDup (nseq c n).
Proof.
  revert c. induction n as [|n IH]; intros c; simpl; constructor; [|apply IH].
  intros H. apply nseq_lt in H. lia.
Qed.

(* the calls of a burst are ordinary operations run one after the other *)
Lemma run_calls_run e : forall calls s,
  run_calls true false s (map (bcall_op e) calls) =
  (fst (run s (map (bcall_op e) calls)), concat (map snd (snd (run s (map (bcall_op e) calls))))).
Proof.
  unfold run. induction calls as [|c calls IH]; intros s; simpl; [reflexivity|].
  assert (Hst : step_gen true false s (bcall_op e c) = step_base true false s (bcall_op e c)) by (destruct c; reflexivity).
  rewrite Hst. destruct (step_base true false s (bcall_op e c)) as [s1 out]. rewrite IH.
  destruct (run_gen true false s1 (map (bcall_op e) calls)) as [s2 tr]. reflexivity.
Qed.

(* Any interleaving of the calls of a burst -- any permutation calls' run one after the
   other -- takes the same ids as the burst, next, next+1, ... without a duplicate, and leaves
   the same feature id generators. *)
Theorem burst_any_interleaving s ids e calls calls' :
  Good s ids -> assoc_N e (objs s) <> None -> burst_wf calls = true -> Permutation calls calls' ->
  consumed (snd (step s (Burst e calls))) = consumed (concat (map snd (snd (run s (map (bcall_op e) calls'))))) /\
  ctrs (fst (step s (Burst e calls))) = ctrs (fst (run s (map (bcall_op e) calls'))) /\
  NoDup (consumed (snd (step s (Burst e calls)))) /\
  (forall id, In id (consumed (snd (step s (Burst e calls)))) -> (ctr_of (ctrs s) e <= id)%N).
Proof.
  intros G Hne Hwf P.
  destruct (assoc_N e (objs s)) as [o|] eqn:Ho; [|congruence].
  destruct (g_ctr _ _ G _ _ Ho) as [c Hc].
  pose proof (burst_wf_perm _ _ P Hwf) as Hwf'.
  unfold step, step_gen. rewrite Hwf, Ho.
  assert (Htriv : forall l x, In x (flat_map bcall_tr l) ->
            (find_tr (fst x) (snd x) (e_feats o) = None <-> find_tr (fst x) (snd x) (e_feats o) = None))
    by (intros; tauto).
  destruct (run_calls_ids e (e_feats o) calls s c o Hc Ho (proj1 (tr_nodup_NoDup _) Hwf) (Htriv calls)) as [A1 A2].
  destruct (run_calls_ids e (e_feats o) calls' s c o Hc Ho (proj1 (tr_nodup_NoDup _) Hwf') (Htriv calls')) as [B1 B2].
  rewrite (run_calls_run e calls' s) in B1, B2. simpl in B1, B2.
  rewrite A1, A2, B1, B2, (ncons_perm _ _ _ P).
  split; [reflexivity|]. split; [reflexivity|]. split; [apply nseq_nodup|].
  intros id Hin. apply nseq_lt in Hin. unfold ctr_of. rewrite Hc. exact Hin.
Qed.

Theorem burst_any_interleaving_reachable ops e calls calls' :
  let s := fst (run init ops) in
  assoc_N e (objs s) <> None -> burst_wf calls = true -> Permutation calls calls' ->
  consumed (snd (step s (Burst e calls))) = consumed (concat (map snd (snd (run s (map (bcall_op e) calls'))))) /\
  ctrs (fst (step s (Burst e calls))) = ctrs (fst (run s (map (bcall_op e) calls'))) /\
  NoDup (consumed (snd (step s (Burst e calls)))) /\
  (forall id, In id (consumed (snd (step s (Burst e calls)))) -> (ctr_of (ctrs s) e <= id)%N).
Proof. intros s. destruct (run_good ops) as [ids G]. exact (burst_any_interleaving s ids e calls calls' G). Qed.
