(* C14 — proofs: the callback registries of Model/Dispatch.v against the monitor Spec/CallbackSpec.v. *)
From Verif Require Import Base.Prelude Model.Dispatch Spec.ResponseSpec Spec.CallbackSpec Proofs.ResponseProofs.

(* ------------------------------------------------------------------ views of the model's registries *)
Definition lookup (c : N) (l : list (N * list N)) : list N := match assoc_N c l with Some x => x | None => [] end.

Definition view_r (s : st) (e : eaddr) (f c : N) : list N :=
  match find (is_feat e f) (lfeats s) with Some lf => lookup c (lf_rcb lf) | None => [] end.
Definition view_q (s : st) (e : eaddr) (f : N) : list N :=
  match find (is_feat e f) (lfeats s) with Some lf => lf_resultcb lf | None => [] end.

Definition is_key (lf : lfeat) (e : eaddr) (f : N) : bool := eqb_eaddr (lf_ent lf) e && N.eqb (lf_id lf) f.

(* ---- association lists ---- *)
Lemma assoc_remove_same {A} k (l : list (N * A)) : assoc_N k (remove_N k l) = None.
Proof.
  induction l as [|[k' v] l IH]; [reflexivity|]. cbn [remove_N].
  destruct (N.eqb k k') eqn:E; [exact IH|]. cbn [assoc_N]. rewrite E. exact IH.
Qed.

Lemma assoc_remove_other {A} k c (l : list (N * A)) : N.eqb c k = false -> assoc_N c (remove_N k l) = assoc_N c l.
Proof.
  intros H. induction l as [|[k' v] l IH]; [reflexivity|]. cbn [remove_N assoc_N].
  destruct (N.eqb k k') eqn:E.
  - apply N.eqb_eq in E. subst k'. rewrite H. exact IH.
  - cbn [assoc_N]. rewrite IH. reflexivity.
Qed.

Lemma lookup_remove r c l : lookup c (remove_N r l) = if N.eqb c r then [] else lookup c l.
Proof.
  unfold lookup. destruct (N.eqb c r) eqn:E.
  - apply N.eqb_eq in E. subst c. rewrite assoc_remove_same. reflexivity.
  - rewrite assoc_remove_other by exact E. reflexivity.
Qed.

(* ---- the first feature with a given address ---- *)
Lemma eqb_eaddr_sym a b : eqb_eaddr a b = eqb_eaddr b a.
Proof.
  revert b. induction a as [|x a IH]; intros [|y b]; try reflexivity. cbn. rewrite IH, N.eqb_sym. reflexivity.
Qed.

Lemma is_feat_of_key e f e' f' x : is_feat e f x = true -> is_feat e' f' x = (eqb_eaddr e e' && N.eqb f f').
Proof.
  unfold is_feat. intros H. apply andb_true_iff in H. destruct H as [H1 H2].
  apply eqb_eaddr_eq in H1. apply N.eqb_eq in H2. subst. reflexivity.
Qed.

Section UpdFirst.
  Variables (e : eaddr) (f : N) (g : lfeat -> lfeat).
  Hypothesis Hg : forall x, lf_ent (g x) = lf_ent x /\ lf_id (g x) = lf_id x.

  Lemma is_feat_g e' f' x : is_feat e' f' (g x) = is_feat e' f' x.
  Proof. unfold is_feat. destruct (Hg x) as [-> ->]. reflexivity. Qed.

  Lemma find_upd_first_same l :
    find (is_feat e f) (upd_first (is_feat e f) g l) = option_map g (find (is_feat e f) l).
  Proof.
    induction l as [|x l IH]; [reflexivity|]. cbn [upd_first find].
    destruct (is_feat e f x) eqn:E; cbn [find].
    - rewrite is_feat_g, E. reflexivity.
    - rewrite E. exact IH.
  Qed.

  Lemma find_upd_first_other e' f' l :
    eqb_eaddr e e' && N.eqb f f' = false ->
    find (is_feat e' f') (upd_first (is_feat e f) g l) = find (is_feat e' f') l.
  Proof.
    intros Hne. induction l as [|x l IH]; [reflexivity|]. cbn [upd_first find].
    destruct (is_feat e f x) eqn:E; cbn [find].
    - rewrite is_feat_g, (is_feat_of_key e f e' f' x E), Hne. reflexivity.
    - rewrite IH. reflexivity.
  Qed.
End UpdFirst.

Lemma key_cases e f e' f' : eqb_eaddr e e' && N.eqb f f' = true -> e' = e /\ f' = f.
Proof.
  intros H. apply andb_true_iff in H. destruct H as [H1 H2]. apply eqb_eaddr_eq in H1. apply N.eqb_eq in H2. subst. split; reflexivity.
Qed.

(* effect of updating the feature (e, f) on the views *)
Lemma view_r_upd s e f g e' f' c :
  (forall x, lf_ent (g x) = lf_ent x /\ lf_id (g x) = lf_id x) ->
  view_r (upd_lfeat s e f g) e' f' c =
    if eqb_eaddr e e' && N.eqb f f'
    then match find (is_feat e f) (lfeats s) with Some lf => lookup c (lf_rcb (g lf)) | None => [] end
    else view_r s e' f' c.
Proof.
  intros Hg. unfold view_r, upd_lfeat, set_lfeats. cbn [lfeats].
  destruct (eqb_eaddr e e' && N.eqb f f') eqn:E.
  - destruct (key_cases _ _ _ _ E) as [-> ->]. rewrite (find_upd_first_same e f g Hg).
    destruct (find (is_feat e f) (lfeats s)); reflexivity.
  - rewrite (find_upd_first_other e f g Hg e' f' _ E). reflexivity.
Qed.

Lemma view_q_upd s e f g e' f' :
  (forall x, lf_ent (g x) = lf_ent x /\ lf_id (g x) = lf_id x) ->
  view_q (upd_lfeat s e f g) e' f' =
    if eqb_eaddr e e' && N.eqb f f'
    then match find (is_feat e f) (lfeats s) with Some lf => lf_resultcb (g lf) | None => [] end
    else view_q s e' f'.
Proof.
  intros Hg. unfold view_q, upd_lfeat, set_lfeats. cbn [lfeats].
  destruct (eqb_eaddr e e' && N.eqb f f') eqn:E.
  - destruct (key_cases _ _ _ _ E) as [-> ->]. rewrite (find_upd_first_same e f g Hg).
    destruct (find (is_feat e f) (lfeats s)); reflexivity.
  - rewrite (find_upd_first_other e f g Hg e' f' _ E). reflexivity.
Qed.

(* an update that leaves both registries of the feature alone leaves the views alone *)
Lemma views_upd_neutral s e f g :
  (forall x, lf_ent (g x) = lf_ent x /\ lf_id (g x) = lf_id x) ->
  (forall x, lf_rcb (g x) = lf_rcb x /\ lf_resultcb (g x) = lf_resultcb x) ->
  (forall e' f' c, view_r (upd_lfeat s e f g) e' f' c = view_r s e' f' c) /\
  (forall e' f', view_q (upd_lfeat s e f g) e' f' = view_q s e' f').
Proof.
  intros Hg Hn. split.
  - intros e' f' c. rewrite view_r_upd by exact Hg. destruct (eqb_eaddr e e' && N.eqb f f') eqn:E; [|reflexivity].
    destruct (key_cases _ _ _ _ E) as [-> ->]. unfold view_r. destruct (find (is_feat e f) (lfeats s)) as [lf|]; [|reflexivity].
    destruct (Hn lf) as [-> _]. reflexivity.
  - intros e' f'. rewrite view_q_upd by exact Hg. destruct (eqb_eaddr e e' && N.eqb f f') eqn:E; [|reflexivity].
    destruct (key_cases _ _ _ _ E) as [-> ->]. unfold view_q. destruct (find (is_feat e f) (lfeats s)) as [lf|]; [|reflexivity].
    destruct (Hn lf) as [_ ->]. reflexivity.
Qed.

(* ------------------------------------------------------------------ what a step does to the views *)
Definition vsame (s s' : st) : Prop :=
  (forall e f c, view_r s' e f c = view_r s e f c) /\ (forall e f, view_q s' e f = view_q s e f).

Definition vfired (s s' : st) (lf : lfeat) (r : N) : Prop :=
  (forall e f c, view_r s' e f c = if is_key lf e f && N.eqb c r then [] else view_r s e f c) /\
  (forall e f, view_q s' e f = view_q s e f).

Lemma vsame_refl s : vsame s s.
Proof. split; reflexivity. Qed.

Lemma vsame_lfeats s s' : lfeats s' = lfeats s -> vsame s s'.
Proof. intros H. unfold vsame, view_r, view_q. rewrite H. split; reflexivity. Qed.

Lemma vfired_lfeats s s1 s' lf r : lfeats s1 = lfeats s -> vfired s1 s' lf r -> vfired s s' lf r.
Proof.
  intros H [H1 H2]. split.
  - intros e f c. rewrite H1. unfold view_r. rewrite H. reflexivity.
  - intros e f. rewrite H2. unfold view_q. rewrite H. reflexivity.
Qed.

Definition found (s : st) (lf : lfeat) : Prop := find (is_feat (lf_ent lf) (lf_id lf)) (lfeats s) = Some lf.

Lemma response_cbs_views s lf r mk :
  found s lf ->
  vfired s (fst (process_response_cbs s lf r mk)) lf r /\
  snd (process_response_cbs s lf r mk) = map mk (lookup r (lf_rcb lf)).
Proof.
  intros Hf. unfold process_response_cbs, lookup.
  destruct (assoc_N r (lf_rcb lf)) as [cbs|] eqn:Ha; cbn [fst snd]; (split; [|reflexivity]).
  - split.
    + intros e f c. rewrite view_r_upd by (intros x; split; reflexivity).
      unfold is_key. destruct (eqb_eaddr (lf_ent lf) e && N.eqb (lf_id lf) f) eqn:E; cbn [andb]; [|reflexivity].
      destruct (key_cases _ _ _ _ E) as [-> ->]. unfold found in Hf. rewrite Hf. cbn [set_rcb lf_rcb].
      rewrite lookup_remove. unfold view_r. rewrite Hf. reflexivity.
    + intros e f. rewrite view_q_upd by (intros x; split; reflexivity).
      destruct (eqb_eaddr (lf_ent lf) e && N.eqb (lf_id lf) f) eqn:E; [|reflexivity].
      destruct (key_cases _ _ _ _ E) as [-> ->]. unfold found in Hf. rewrite Hf. unfold view_q. rewrite Hf. reflexivity.
  - split; [|reflexivity].
    intros e f c. unfold is_key. destruct (eqb_eaddr (lf_ent lf) e && N.eqb (lf_id lf) f) eqn:E; cbn [andb]; [|reflexivity].
    destruct (N.eqb c r) eqn:Ec; [|reflexivity].
    destruct (key_cases _ _ _ _ E) as [-> ->]. apply N.eqb_eq in Ec. subst c.
    unfold view_r. unfold found in Hf. rewrite Hf. unfold lookup. rewrite Ha. reflexivity.
Qed.

(* ---- invocations among the observations ---- *)
Definition inv (out : list obs) : list obs := filter is_invoke out.

Lemma inv_app a b : inv (a ++ b) = inv a ++ inv b.
Proof. apply filter_app. Qed.

Lemma inv_invokes lf r p en rf v l : inv (map (mk_invoke lf r p en rf v) l) = map (mk_invoke lf r p en rf v) l.
Proof. induction l as [|x l IH]; [reflexivity|]. cbn. f_equal. exact IH. Qed.

(* what a message delivers to the callbacks of its destination feature: reference, data, is it a result *)
Definition fires (noerr : payload -> bool) (asres : cls -> bool) (d : dgram) : option (N * N * bool) :=
  match d_ref d with
  | None => None
  | Some r =>
      match d_body d with
      | BResult e => Some (r, e, true)
      | BResultWith _ => None
      | BCmd c (PResult e) => if asres c then Some (r, e, true) else None
      | BCmd CReply pl => if noerr pl then Some (r, pl_val pl, false) else None
      | BCmd _ _ => None
      end
  end.

Lemma payload_is_result pl : {e | pl = PResult e} + {forall e, pl <> PResult e}.
Proof. destruct pl; try (right; intros; discriminate). left. eexists. reflexivity. Qed.

Lemma fires_plain noerr asres d c pl :
  d_body d = BCmd c pl -> (forall e, pl <> PResult e) ->
  fires noerr asres d =
    match d_ref d with
    | None => None
    | Some r => match c with CReply => if noerr pl then Some (r, pl_val pl, false) else None | _ => None end
    end.
Proof.
  intros Hb Hn. unfold fires. rewrite Hb. destruct (d_ref d); [|reflexivity].
  destruct pl; try reflexivity. exfalso. exact (Hn err eq_refl).
Qed.

Lemma fn_result_unregistered t : fn_registered t FN_RESULT = false.
Proof. reflexivity. Qed.

Definition handled (s : st) (p : N) (en : rent) (rf : rfeat) (lf : lfeat) (fr : option (N * N * bool)) (h : hres) : Prop :=
  match fr with
  | Some (r, data, res) =>
      vfired s (fst (fst h)) lf r /\
      inv (snd (fst h)) = map (mk_invoke lf r p en rf data) (lookup r (lf_rcb lf)) ++
                          (if res then map (mk_invoke lf r p en rf data) (lf_resultcb lf) else [])
  | None => vsame s (fst (fst h)) /\ inv (snd (fst h)) = []
  end.

Lemma process_result_handled s p en rf lf d e :
  found s lf ->
  handled s p en rf lf (match d_ref d with Some r => Some (r, e, true) | None => None end) (process_result s p en rf lf d e).
Proof.
  intros Hf. unfold process_result.
  destruct (d_ref d) as [r|]; [|split; [apply vsame_refl | reflexivity]].
  destruct (response_cbs_views s lf r (mk_invoke lf r p en rf e) Hf) as [Hv Ho].
  destruct (process_response_cbs s lf r _) as [s1 o1]. cbn [fst snd] in *. subst o1.
  unfold handled. cbn [fst snd].
  split; [exact Hv|]. rewrite inv_app, !inv_invokes. reflexivity.
Qed.

Lemma fl_handle_handled s p en rf lf d :
  found s lf ->
  handled s p en rf lf (fires (fun pl => fn_registered (rf_type rf) (pl_fn pl)) (fun _ => false) d) (fl_handle s p en rf lf d).
Proof.
  intros Hf. unfold fl_handle. destruct (d_body d) as [e|pl0|c pl] eqn:Hb.
  - pose proof (process_result_handled s p en rf lf d e Hf) as H. unfold fires. rewrite Hb. exact H.
  - unfold fires. rewrite Hb. destruct (d_ref d); (split; [apply vsame_refl | reflexivity]).
  - assert (Hnone : forall (h : hres), vsame s (fst (fst h)) -> inv (snd (fst h)) = [] -> handled s p en rf lf None h).
    { intros h H1 H2. split; assumption. }
    destruct (payload_is_result pl) as [[e ->]|Hn].
    { (* a resultData element under another classifier: no feature has function data for it *)
      assert (Hfr : fires (fun pl => fn_registered (rf_type rf) (pl_fn pl)) (fun _ => false) d = None).
      { unfold fires. rewrite Hb. destruct (d_ref d); [destruct c|]; reflexivity. }
      rewrite Hfr. cbn [pl_fn]. apply Hnone; destruct c; unfold process_write, write_refused; rewrite ?fn_result_unregistered;
        cbn [negb orb fst snd]; try apply vsame_refl; try reflexivity;
        destruct (eqb_role _ _); cbn [fst snd]; try apply vsame_refl; reflexivity. }
    rewrite (fires_plain _ _ d c pl Hb Hn).
    destruct c.
    + destruct (d_ref d); apply Hnone;
        (destruct (eqb_role _ _); [|destruct (negb _)]); cbn [fst snd]; try apply vsame_refl; reflexivity.
    + destruct (fn_registered (rf_type rf) (pl_fn pl)); cbn [negb].
      2:{ destruct (d_ref d); apply Hnone; cbn [fst snd]; try apply vsame_refl; reflexivity. }
      destruct (d_ref d) as [r|]; [|apply Hnone; [apply vsame_refl | reflexivity]].
      destruct (response_cbs_views s lf r (mk_invoke lf r p en rf (pl_val pl)) Hf) as [Hv Ho].
      destruct (process_response_cbs s lf r _) as [s1 o1]. cbn [fst snd] in *. subst o1.
      unfold handled. cbn [fst snd].
      split; [exact Hv|]. rewrite inv_invokes, app_nil_r. reflexivity.
    + destruct (d_ref d); apply Hnone; destruct (negb _ || _); cbn [fst snd]; try apply vsame_refl; reflexivity.
    + destruct (d_ref d); apply Hnone; unfold process_write; destruct (write_refused _ _ _); cbn [fst snd];
        try apply vsame_refl; try reflexivity;
        try (apply views_upd_neutral; intros x; split; reflexivity);
        destruct (d_ack d); reflexivity.
    + destruct (d_ref d); apply Hnone; cbn [fst snd]; try apply vsame_refl; reflexivity.
Qed.

(* ---- node management ---- *)
Lemma reg_result_lfeats (r : st * bool) s :
  lfeats (fst r) = lfeats s -> lfeats (fst (fst (reg_result r))) = lfeats s /\ inv (snd (fst (reg_result r))) = [].
Proof. destruct r as [s1 e]. cbn. auto. Qed.

Lemma nm_dispatch_quiet s pe lf d c pl :
  lfeats (fst (fst (nm_dispatch s pe lf d c pl))) = lfeats s /\ inv (snd (fst (nm_dispatch s pe lf d c pl))) = [].
Proof.
  unfold nm_dispatch, err_general.
  destruct pl; destruct c; try (split; reflexivity); apply reg_result_lfeats.
  - apply lfeats_discovery_reply.
  - apply lfeats_discovery_notify.
  - unfold add_subscription. repeat match goal with |- context [match ?x with _ => _ end] => destruct x end; reflexivity.
  - unfold remove_subscription. repeat match goal with |- context [match ?x with _ => _ end] => destruct x end; reflexivity.
  - unfold add_binding. repeat match goal with |- context [match ?x with _ => _ end] => destruct x end; reflexivity.
  - unfold remove_binding. repeat match goal with |- context [match ?x with _ => _ end] => destruct x end; reflexivity.
Qed.

Lemma nm_handle_handled s pe en rf lf d :
  found s lf -> find_peer s (p_ski pe) = Some pe ->
  handled s (p_ski pe) en rf lf (fires (fun pl => nm_noerr s pe CReply pl) (fun _ => true) d) (nm_handle true s pe en rf lf d).
Proof.
  intros Hf Hp. destruct (d_body d) as [e|pl0|c pl] eqn:Hb.
  - unfold nm_handle. rewrite Hb.
    pose proof (process_result_handled s (p_ski pe) en rf lf d e Hf) as H. unfold fires. rewrite Hb. exact H.
  - unfold nm_handle, fires. rewrite Hb. destruct (d_ref d); (split; [apply vsame_refl | reflexivity]).
  - destruct (payload_is_result pl) as [[e ->]|Hn].
    { unfold nm_handle. rewrite Hb.
      pose proof (process_result_handled s (p_ski pe) en rf lf d e Hf) as H. unfold fires. rewrite Hb. destruct c; exact H. }
    rewrite (nm_handle_bcmd true s pe en rf lf d c pl Hb Hn). rewrite (fires_plain _ _ d c pl Hb Hn).
    destruct (nm_dispatch_quiet s pe lf d c pl) as [Hl Hi].
    destruct (nm_dispatch_spec s pe lf d c pl Hp) as [_ He].
    destruct (nm_dispatch s pe lf d c pl) as [[s1 out] err]. cbn [fst snd] in *.
    unfold nm_reply_callbacks.
    assert (Hsame : handled s (p_ski pe) en rf lf None (s1, out, err)).
    { split; [apply vsame_lfeats; exact Hl | exact Hi]. }
    destruct (d_ref d) as [r|].
    2:{ destruct err; [exact Hsame|]. destruct c; exact Hsame. }
    destruct c; try (destruct err; exact Hsame).
    destruct (nm_noerr s pe CReply pl); subst err; [|exact Hsame].
    assert (Hf1 : found s1 lf) by (unfold found; rewrite Hl; exact Hf).
    destruct (response_cbs_views s1 lf r (mk_invoke lf r (p_ski pe) en rf (pl_val pl)) Hf1) as [Hv Ho].
    destruct (process_response_cbs s1 lf r _) as [s2 o2]. cbn [fst snd] in *. subst o2.
    unfold handled. cbn [fst snd]. split; [eapply vfired_lfeats; eauto|].
    rewrite inv_app, Hi, inv_invokes, app_nil_r. reflexivity.
Qed.

(* ---- ProcessCmd ---- *)
Lemma found_local s a lf : local_feature s a = Some lf -> found s lf.
Proof.
  unfold local_feature, found. destruct (existsb _ (lents s)); [|discriminate].
  unfold find_lfeat. destruct (fa_feat a) as [f|]; [|discriminate]. intros H.
  pose proof (find_some _ _ H) as [_ Hk]. unfold is_feat in Hk. apply andb_true_iff in Hk. destruct Hk as [H1 H2].
  apply eqb_eaddr_eq in H1. apply N.eqb_eq in H2. rewrite H1, H2. exact H.
Qed.

Lemma accepted_reply s pe en rf lf pl :
  accepted s pe en rf lf CReply pl =
    if is_nm lf then nm_noerr s pe CReply pl else fn_registered (rf_type rf) (pl_fn pl).
Proof. unfold accepted, nm_noerr. destruct (is_nm lf); [destruct pl|]; reflexivity. Qed.

Lemma inv_result p d dev e : inv [send_result p d dev e] = [].
Proof. reflexivity. Qed.

Lemma process_cmd_handled s pe en rf lf d :
  find_peer s (p_ski pe) = Some pe ->
  remote_feature pe (d_src d) = Some (en, rf) -> local_feature s (d_dst d) = Some lf ->
  handled s (p_ski pe) en rf lf (delivers s pe en rf lf d) (process_cmd repaired s pe d, None).
Proof.
  intros Hp Hsrc Hl. pose proof (found_local _ _ _ Hl) as Hf.
  unfold process_cmd. rewrite Hsrc, Hl.
  set (gate := match d_body d with BCmd CWrite pl => write_gate s lf (rf_addr en rf) (pl_fn pl) | _ => true end).
  assert (Hd : delivers s pe en rf lf d =
               fires (fun pl => if is_nm lf then nm_noerr s pe CReply pl else fn_registered (rf_type rf) (pl_fn pl))
                     (fun c => is_nm lf && match c with CWrite => write_gate s lf (rf_addr en rf) FN_RESULT | _ => true end) d).
  { unfold delivers, fires. destruct (d_ref d); [|reflexivity]. destruct (d_body d) as [e|pl0|c pl]; [reflexivity|reflexivity|].
    destruct (payload_is_result pl) as [[e ->]|Hn]; [reflexivity|].
    destruct pl; try (exfalso; exact (Hn _ eq_refl)); destruct c; try reflexivity; rewrite accepted_reply; reflexivity. }
  rewrite Hd. clear Hd.
  destruct gate eqn:Hg; cbn [negb].
  2:{ assert (Hw : exists pl, d_body d = BCmd CWrite pl).
      { unfold gate in Hg. destruct (d_body d) as [e|pl0|c pl]; [discriminate|discriminate|]. destruct c; try discriminate. exists pl. reflexivity. }
      destruct Hw as [pl Hb]. unfold gate in Hg. rewrite Hb in Hg.
      assert (Hfr : fires (fun pl => if is_nm lf then nm_noerr s pe CReply pl else fn_registered (rf_type rf) (pl_fn pl))
                     (fun c => is_nm lf && match c with CWrite => write_gate s lf (rf_addr en rf) FN_RESULT | _ => true end) d = None).
      { unfold fires. rewrite Hb. destruct (d_ref d); [|reflexivity].
        destruct pl; try reflexivity. cbn [pl_fn] in Hg. rewrite Hg, andb_false_r. reflexivity. }
      rewrite Hfr. split; [apply vsame_refl | reflexivity]. }
  assert (Hnm : is_nm lf = true ->
            fires (fun pl => if is_nm lf then nm_noerr s pe CReply pl else fn_registered (rf_type rf) (pl_fn pl))
                  (fun c => is_nm lf && match c with CWrite => write_gate s lf (rf_addr en rf) FN_RESULT | _ => true end) d =
            fires (fun pl => nm_noerr s pe CReply pl) (fun _ => true) d).
  { intros Hn. unfold fires. rewrite Hn. destruct (d_ref d); [|reflexivity]. destruct (d_body d) as [e|pl0|c pl] eqn:Hb; try reflexivity.
    destruct pl; try reflexivity. destruct c; try reflexivity. unfold gate in Hg. cbn [pl_fn] in Hg. rewrite Hg. reflexivity. }
  assert (Hfl : is_nm lf = false ->
            fires (fun pl => if is_nm lf then nm_noerr s pe CReply pl else fn_registered (rf_type rf) (pl_fn pl))
                  (fun c => is_nm lf && match c with CWrite => write_gate s lf (rf_addr en rf) FN_RESULT | _ => true end) d =
            fires (fun pl => fn_registered (rf_type rf) (pl_fn pl)) (fun _ => false) d).
  { intros Hn. unfold fires. rewrite Hn. reflexivity. }
  assert (Hfin : forall (fr : option (N * N * bool)) (h : hres),
            handled s (p_ski pe) en rf lf fr h ->
            handled s (p_ski pe) en rf lf fr
              (let '(s1, out, err) := h in
               match err with
               | Some e => (s1, out ++ (if is_result_body (d_body d) then [] else [send_result (p_ski pe) d local_dev e]))
               | None => (s1, out ++ (if d_ack d && ack_body (d_body d) then [send_result (p_ski pe) d local_dev 0] else []))
               end, None)).
  { intros fr [[s1 out] err] H. unfold handled in *. cbn [fst snd] in *.
    assert (E : forall x, inv (out ++ x) = inv out ++ inv x) by (intros; apply inv_app).
    destruct err as [e|].
    - destruct (is_result_body (d_body d)); destruct fr as [[[r data] res]|]; destruct H as [H1 H2];
        cbn [fst snd]; (split; [exact H1|]); rewrite E, H2; cbn; rewrite ?app_nil_r; reflexivity.
    - destruct (d_ack d && ack_body (d_body d)); destruct fr as [[[r data] res]|]; destruct H as [H1 H2];
        cbn [fst snd]; (split; [exact H1|]); rewrite E, H2; cbn; rewrite ?app_nil_r; reflexivity. }
  cbn [repaired v_nm_reply_cbs].
  destruct (is_nm lf) eqn:Hn; apply Hfin.
  - rewrite (Hnm eq_refl). apply nm_handle_handled; assumption.
  - rewrite (Hfl eq_refl). apply fl_handle_handled; assumption.
Qed.

(* ------------------------------------------------------------------ the invariant linking the two registries *)
Definition Inv (m : mst) (s : st) : Prop :=
  w m = s /\
  (forall e f c, cbs_of (pending m) e f c = view_r s e f c) /\
  (forall e f, rcbs_of (resultcbs m) e f = view_q s e f).

Lemma eqb_obs_invoke_refl o : is_invoke o = true -> eqb_obs_invoke o o = true.
Proof.
  destruct o; try discriminate. intros _. cbn. rewrite !N.eqb_refl, !eqb_eaddr_refl. reflexivity.
Qed.

Lemma same_multiset_refl l : forallb is_invoke l = true -> same_multiset eqb_obs_invoke l l = true.
Proof.
  induction l as [|x l IH]; [reflexivity|]. cbn [forallb]. intros H. apply andb_true_iff in H. destruct H as [H1 H2].
  cbn [same_multiset remove_first]. rewrite (eqb_obs_invoke_refl x H1). apply IH. exact H2.
Qed.

Lemma forallb_inv out : forallb is_invoke (inv out) = true.
Proof.
  induction out as [|o out IH]; [reflexivity|]. unfold inv. cbn [filter]. destruct (is_invoke o) eqn:E; [|exact IH].
  cbn [forallb]. rewrite E. exact IH.
Qed.

Lemma inv_nil_no_invokes out : inv out = [] -> existsb is_invoke out = false.
Proof.
  induction out as [|o out IH]; [reflexivity|]. unfold inv. cbn [filter existsb].
  destruct (is_invoke o); [discriminate|]. exact IH.
Qed.

Lemma on_key_of e f c e0 f0 r g : on_key e f c g = true ->
  on_key e0 f0 r g = (eqb_eaddr e e0 && N.eqb f f0 && N.eqb c r).
Proof.
  unfold on_key. intros H. apply andb_true_iff in H. destruct H as [H H3]. apply andb_true_iff in H. destruct H as [H1 H2].
  apply eqb_eaddr_eq in H1. apply N.eqb_eq in H2. apply N.eqb_eq in H3. subst. reflexivity.
Qed.

Lemma cbs_of_used_up l e0 f0 r e f c :
  cbs_of (filter (fun g => negb (on_key e0 f0 r g)) l) e f c =
    if eqb_eaddr e0 e && N.eqb f0 f && N.eqb c r then [] else cbs_of l e f c.
Proof.
  unfold cbs_of. induction l as [|g l IH]; [destruct (_ && _); reflexivity|].
  cbn [filter]. destruct (on_key e0 f0 r g) eqn:E0; cbn [negb].
  - rewrite IH. destruct (on_key e f c g) eqn:E; [|reflexivity].
    rewrite (on_key_of _ _ _ e f c g E0) in E.
    assert (X : eqb_eaddr e0 e && N.eqb f0 f && N.eqb c r = true).
    { apply andb_true_iff in E. destruct E as [E E3]. rewrite E. rewrite N.eqb_sym. exact E3. }
    rewrite X. reflexivity.
  - cbn [filter]. destruct (on_key e f c g) eqn:E; cbn [map]; rewrite IH; [|reflexivity].
    rewrite (on_key_of _ _ _ e0 f0 r g E) in E0.
    assert (X : eqb_eaddr e0 e && N.eqb f0 f && N.eqb c r = false).
    { rewrite eqb_eaddr_sym, (N.eqb_sym f0 f). exact E0. }
    rewrite X. reflexivity.
Qed.

Lemma find_lfeat_find s e f : find_lfeat s e (Some f) = find (is_feat e f) (lfeats s).
Proof. reflexivity. Qed.

Lemma views_app_fresh (l : list lfeat) x :
  lf_rcb x = [] -> lf_resultcb x = [] ->
  (forall e f c, match find (is_feat e f) (l ++ [x]) with Some lf => lookup c (lf_rcb lf) | None => [] end =
                 match find (is_feat e f) l with Some lf => lookup c (lf_rcb lf) | None => [] end) /\
  (forall e f, match find (is_feat e f) (l ++ [x]) with Some lf => lf_resultcb lf | None => [] end =
               match find (is_feat e f) l with Some lf => lf_resultcb lf | None => [] end).
Proof.
  intros H1 H2. split; intros e f; [intros c|]; induction l as [|y l IH]; cbn [app find].
  - destruct (is_feat e f x); [rewrite H1|]; reflexivity.
  - destruct (is_feat e f y); [reflexivity | exact IH].
  - destruct (is_feat e f x); [rewrite H2|]; reflexivity.
  - destruct (is_feat e f y); [reflexivity | exact IH].
Qed.

Lemma Inv_vsame m s s' o pend res :
  Inv m s -> vsame s s' -> pend = pending m -> res = resultcbs m -> fst (step s o) = s' ->
  Inv (advance m o pend res) s'.
Proof.
  intros [Hw [H1 H2]] [V1 V2] -> -> Hs. unfold advance. split; [cbn [w]; rewrite Hw; exact Hs|]. cbn [pending resultcbs]. split.
  - intros e f c. rewrite H1, V1. reflexivity.
  - intros e f. rewrite H2, V2. reflexivity.
Qed.

Lemma no_invoke_retn l : existsb is_invoke (map ORetN l) = false.
Proof. induction l as [|x l IH]; [reflexivity | exact IH]. Qed.

Definition step_ok (m : mst) (s : st) (o : op) : Prop :=
  snd (mon m o (snd (step s o))) = [] /\ Inv (fst (mon m o (snd (step s o)))) (fst (step s o)).

Definition plain (o : op) : bool :=
  match o with Inbound _ _ | AddRespCb _ _ _ _ | AddResultCb _ _ _ | ParArrive _ _ _ _ | SeqArrive _ | ParRegister _ _ _ _ _ => false | _ => true end.

Lemma plain_facts s o : plain o = true -> vsame s (fst (step s o)) /\ existsb is_invoke (snd (step s o)) = false.
Proof.
  destruct o; try discriminate; intros _; unfold step; cbn [step_v].
  - destruct (existsb _ (lents s)); cbn [fst snd]; (split; [|reflexivity]); apply vsame_lfeats; reflexivity.
  - destruct (eqb_eaddr e [0%N]); cbn [fst snd]; (split; [|reflexivity]); apply vsame_lfeats; reflexivity.
  - destruct (find _ (lents s)); cbn [fst snd]; (split; [|reflexivity]); [|apply vsame_refl].
    destruct (existsb _ (lfeats s)); [apply vsame_lfeats; reflexivity|].
    unfold vsame, view_r, view_q. cbn [lfeats]. apply views_app_fresh; reflexivity.
  - cbn [fst snd]. split; [|reflexivity].
    apply views_upd_neutral; intros x; (destruct (eqb_role _ _); [split; reflexivity|]); destruct (assoc_N _ _); split; reflexivity.
  - destruct (find_lfeat s e (Some f)); [destruct (fn_registered _ _)|]; cbn [fst snd]; (split; [|reflexivity]); try apply vsame_refl.
    apply views_upd_neutral; intros x; split; reflexivity.
  - destruct (find_lfeat s e (Some f)); cbn [fst snd]; (split; [|reflexivity]); apply vsame_refl.
  - cbn [fst snd]. split; [|reflexivity]. apply vsame_lfeats. unfold disconnect. destruct (find_peer s p); reflexivity.
  - cbn [fst snd]. split; [|reflexivity]. apply vsame_lfeats. unfold disconnect. destruct (find_peer s p); reflexivity.
  - cbn [fst snd]. split; [apply vsame_refl|].
    rewrite existsb_app, no_invoke_retn. destruct (N.eqb t T_GENERIC); reflexivity.
Qed.

Lemma plain_ok m s o : Inv m s -> plain o = true -> step_ok m s o.
Proof.
  intros HI Hpl. destruct (plain_facts s o Hpl) as [Hv Hno]. unfold step_ok.
  assert (Hm : mon m o (snd (step s o)) = (advance m o (pending m) (resultcbs m), no_invokes (snd (step s o)))).
  { destruct o; try discriminate Hpl; reflexivity. }
  rewrite Hm. cbn [fst snd]. unfold no_invokes. rewrite Hno. split; [reflexivity|].
  eapply Inv_vsame; eauto.
Qed.

Lemma inbound_sub m s p d : Inv m s ->
  snd (mon_inbound m p d) = inv (snd (step s (Inbound p d))) /\
  Inv (fst (mon_inbound m p d)) (fst (step s (Inbound p d))).
Proof.
  intros HI. pose proof HI as [Hw [H1 H2]]. unfold mon_inbound, target_of.
  rewrite Hw. unfold step. cbn [step_v].
  destruct (find_peer s p) as [pe|] eqn:Hp.
  2:{ cbn [fst snd]. split; [reflexivity|]. eapply Inv_vsame; eauto; [apply vsame_refl|]. unfold step. cbn [step_v]. rewrite Hp. reflexivity. }
  pose proof (find_peer_ski _ _ _ Hp) as Hk. subst p.
  assert (Hnone : forall out s', process_cmd repaired s pe d = (s', out) -> vsame s s' -> inv out = [] ->
            snd (advance m (Inbound (p_ski pe) d) (pending m) (resultcbs m), @nil obs) = inv out /\
            Inv (fst (advance m (Inbound (p_ski pe) d) (pending m) (resultcbs m), @nil obs)) s').
  { intros out s' Hs Hv Hno. cbn [fst snd]. rewrite Hno. split; [reflexivity|].
    eapply Inv_vsame; eauto. unfold step. cbn [step_v]. rewrite Hp, Hs. reflexivity. }
  destruct (remote_feature pe (d_src d)) as [[en rf]|] eqn:Hsrc.
  2:{ destruct (process_cmd repaired s pe d) as [s' out] eqn:Hs. cbn [fst snd]. apply (Hnone out s' eq_refl);
        unfold process_cmd in Hs; rewrite Hsrc in Hs; injection Hs as <- <-; [apply vsame_refl | reflexivity]. }
  destruct (local_feature s (d_dst d)) as [lf|] eqn:Hl.
  2:{ destruct (process_cmd repaired s pe d) as [s' out] eqn:Hs. cbn [fst snd]. apply (Hnone out s' eq_refl);
        unfold process_cmd in Hs; rewrite Hsrc, Hl in Hs; destruct (_ && _); injection Hs as <- <-;
        try apply vsame_refl; reflexivity. }
  pose proof (process_cmd_handled s pe en rf lf d Hp Hsrc Hl) as Hh.
  pose proof (found_local _ _ _ Hl) as Hf.
  destruct (process_cmd repaired s pe d) as [s' out] eqn:Hs. cbn [fst snd] in *.
  destruct (delivers s pe en rf lf d) as [[[r data] res]|] eqn:Hd; unfold handled in Hh; cbn [fst snd] in Hh.
  2:{ destruct Hh as [Hv Hi]. apply (Hnone out s' eq_refl Hv Hi). }
  destruct Hh as [[V1 V2] Hi]. cbn [fst snd]. split.
  + rewrite Hi. unfold expected_invokes. rewrite H1, H2. unfold view_r, view_q.
    unfold found in Hf. rewrite Hf. reflexivity.
  + unfold advance. split; [cbn [w]; rewrite Hw; unfold step; cbn [step_v]; rewrite Hp, Hs; reflexivity|].
    cbn [pending resultcbs]. split.
    * intros e f c. rewrite cbs_of_used_up, V1, H1. unfold is_key. reflexivity.
    * intros e f. rewrite H2, V2. reflexivity.
Qed.

Lemma inbound_ok m s p d : Inv m s -> step_ok m s (Inbound p d).
Proof.
  intros HI. destruct (inbound_sub m s p d HI) as [He HI1]. unfold step_ok, mon.
  destruct (mon_inbound m p d) as [m1 ex]. cbn [fst snd] in *. split; [|exact HI1].
  subst ex. fold (inv (snd (step s (Inbound p d)))). rewrite same_multiset_refl; [reflexivity | apply forallb_inv].
Qed.

Definition rets (out : list obs) : list obs := filter is_ret out.

Lemma addresp_sub m s e f ctr cb : Inv m s ->
  snd (mon_addresp m e f ctr cb) = rets (snd (step s (AddRespCb e f ctr cb))) /\
  inv (snd (step s (AddRespCb e f ctr cb))) = [] /\
  Inv (fst (mon_addresp m e f ctr cb)) (fst (step s (AddRespCb e f ctr cb))).
Proof.
  intros HI. pose proof HI as [Hw [H1 H2]]. unfold mon_addresp.
  rewrite Hw. rewrite find_lfeat_find. unfold step. cbn [step_v]. rewrite find_lfeat_find.
  destruct (find (is_feat e f) (lfeats s)) as [lf|] eqn:Hf.
  2:{ cbn [fst snd]. split; [reflexivity|]. split; [reflexivity|]. eapply Inv_vsame; eauto; [apply vsame_refl|].
      unfold step. cbn [step_v]. rewrite find_lfeat_find, Hf. reflexivity. }
  assert (Hc : cbs_of (pending m) e f ctr = match assoc_N ctr (lf_rcb lf) with Some l => l | None => [] end).
  { rewrite H1. unfold view_r. rewrite Hf. reflexivity. }
  rewrite Hc. set (cbs := match assoc_N ctr (lf_rcb lf) with Some l => l | None => [] end) in *.
  destruct (memN cb cbs) eqn:Hdup; cbn [fst snd negb].
  + split; [reflexivity|]. split; [reflexivity|]. eapply Inv_vsame; eauto; [apply vsame_refl|].
    unfold step. cbn [step_v]. rewrite find_lfeat_find, Hf. fold cbs. rewrite Hdup. reflexivity.
  + split; [reflexivity|]. split; [reflexivity|]. unfold advance. split.
    { cbn [w]. rewrite Hw. unfold step. cbn [step_v]. rewrite find_lfeat_find, Hf. fold cbs. rewrite Hdup. reflexivity. }
    cbn [pending resultcbs]. split.
    * intros e' f' c'. unfold cbs_of. rewrite filter_app, map_app. fold (cbs_of (pending m) e' f' c'). rewrite H1.
      rewrite view_r_upd by (intros x; split; reflexivity). rewrite Hf. cbn [set_rcb lf_rcb filter].
      change (on_key e' f' c' {| g_ent := e; g_feat := f; g_ctr := ctr; g_cb := cb |})
        with (eqb_eaddr e e' && N.eqb f f' && N.eqb ctr c').
      destruct (eqb_eaddr e e' && N.eqb f f') eqn:E; cbn [andb].
      -- destruct (key_cases _ _ _ _ E) as [-> ->]. unfold view_r. rewrite Hf. unfold lookup at 2. cbn [assoc_N].
         rewrite (N.eqb_sym c' ctr). destruct (N.eqb ctr c') eqn:Ec; cbn [map g_cb].
         ++ apply N.eqb_eq in Ec. subst c'. unfold lookup. fold cbs. reflexivity.
         ++ rewrite app_nil_r. unfold lookup. rewrite assoc_remove_other by (rewrite N.eqb_sym; exact Ec). reflexivity.
      -- cbn [map]. apply app_nil_r.
    * intros e' f'. rewrite H2. rewrite view_q_upd by (intros x; split; reflexivity).
      destruct (eqb_eaddr e e' && N.eqb f f') eqn:E; [|reflexivity].
      destruct (key_cases _ _ _ _ E) as [-> ->]. unfold view_q. rewrite Hf. reflexivity.
Qed.

Lemma eqb_obs_ret_refl o : is_ret o = true -> eqb_obs_ret o o = true.
Proof. destruct o; try discriminate; intros _; cbn; [apply Bool.eqb_reflx | reflexivity]. Qed.

Lemma same_rets_refl l : forallb is_ret l = true -> same_multiset eqb_obs_ret l l = true.
Proof.
  induction l as [|x l IH]; [reflexivity|]. cbn [forallb]. intros H. apply andb_true_iff in H. destruct H as [Ha Hb].
  cbn [same_multiset remove_first]. rewrite (eqb_obs_ret_refl x Ha). apply IH. exact Hb.
Qed.

Lemma forallb_rets out : forallb is_ret (rets out) = true.
Proof.
  induction out as [|o out IH]; [reflexivity|]. unfold rets. cbn [filter]. destruct (is_ret o) eqn:E; [|exact IH].
  cbn [forallb]. rewrite E. exact IH.
Qed.

Lemma addresp_ok m s e f ctr cb : Inv m s -> step_ok m s (AddRespCb e f ctr cb).
Proof.
  intros HI. destruct (addresp_sub m s e f ctr cb HI) as [He [Hi HI1]]. unfold step_ok, mon.
  destruct (mon_addresp m e f ctr cb) as [m1 ex]. cbn [fst snd] in *. split; [|exact HI1].
  subst ex. fold (rets (snd (step s (AddRespCb e f ctr cb)))). rewrite same_rets_refl by apply forallb_rets.
  unfold no_invokes. rewrite (inv_nil_no_invokes _ Hi). reflexivity.
Qed.

Lemma addresult_ok m s e f cb : Inv m s -> step_ok m s (AddResultCb e f cb).
Proof.
  intros HI. pose proof HI as [Hw [H1 H2]]. unfold step_ok, mon.
rewrite Hw. rewrite find_lfeat_find. unfold step. cbn [step_v]. rewrite find_lfeat_find.
destruct (find (is_feat e f) (lfeats s)) as [lf|] eqn:Hf.
2:{ cbn [fst snd]. split; [reflexivity|]. eapply Inv_vsame; eauto; [apply vsame_refl|].
    unfold step. cbn [step_v]. rewrite find_lfeat_find, Hf. reflexivity. }
cbn [fst snd]. split; [reflexivity|]. unfold advance. split.
{ cbn [w]. rewrite Hw. unfold step. cbn [step_v]. rewrite find_lfeat_find, Hf. reflexivity. }
cbn [pending resultcbs]. split.
+ intros e' f' c'. rewrite H1. rewrite view_r_upd by (intros x; split; reflexivity).
  destruct (eqb_eaddr e e' && N.eqb f f') eqn:E; [|reflexivity].
  destruct (key_cases _ _ _ _ E) as [-> ->]. unfold view_r. rewrite Hf. reflexivity.
+ intros e' f'. unfold rcbs_of. rewrite filter_app, map_app. fold (rcbs_of (resultcbs m) e' f'). rewrite H2.
  rewrite view_q_upd by (intros x; split; reflexivity). rewrite Hf. cbn [set_resultcb lf_resultcb filter].
  change (on_feat e' f' {| q_ent := e; q_feat := f; q_cb := cb |}) with (eqb_eaddr e e' && N.eqb f f').
  destruct (eqb_eaddr e e' && N.eqb f f') eqn:E.
  * destruct (key_cases _ _ _ _ E) as [-> ->]. unfold view_q. rewrite Hf. reflexivity.
  * cbn [map]. apply app_nil_r.
Qed.

(* ---- overlapping arrivals ---- *)
Lemma rets_app a b : rets (a ++ b) = rets a ++ rets b.
Proof. apply filter_app. Qed.

Lemma rets_invokes lf r p en rf v l : rets (map (mk_invoke lf r p en rf v) l) = [].
Proof. induction l as [|x l IH]; [reflexivity | exact IH]. Qed.

Lemma rets_response_cbs s lf r p en rf v : rets (snd (process_response_cbs s lf r (mk_invoke lf r p en rf v))) = [].
Proof. unfold process_response_cbs. destruct (assoc_N r (lf_rcb lf)); cbn [snd]; [apply rets_invokes | reflexivity]. Qed.

Lemma rets_process_result s p en rf lf d e : rets (snd (fst (process_result s p en rf lf d e))) = [].
Proof.
  unfold process_result. destruct (d_ref d) as [r|]; [|reflexivity].
  pose proof (rets_response_cbs s lf r p en rf e) as H.
  destruct (process_response_cbs s lf r _) as [s1 o1]. cbn [fst snd] in *. rewrite rets_app, H, rets_invokes. reflexivity.
Qed.

Lemma rets_fl_handle s p en rf lf d : rets (snd (fst (fl_handle s p en rf lf d))) = [].
Proof.
  unfold fl_handle. destruct (d_body d) as [e|pl0|c pl]; [apply rets_process_result|reflexivity|]. destruct c.
  - destruct (eqb_role _ _); [reflexivity|]. destruct (negb _); reflexivity.
  - destruct (negb _); [reflexivity|]. destruct (d_ref d) as [r|]; [|reflexivity].
    pose proof (rets_response_cbs s lf r p en rf (pl_val pl)) as H.
    destruct (process_response_cbs s lf r _) as [s1 o1]. exact H.
  - destruct (negb _ || _); reflexivity.
  - unfold process_write. destruct (write_refused _ _ _); [reflexivity|]. destruct (d_ack d); reflexivity.
  - reflexivity.
Qed.

Lemma rets_nm_dispatch s pe lf d c pl : rets (snd (fst (nm_dispatch s pe lf d c pl))) = [].
Proof.
  unfold nm_dispatch, err_general.
  destruct pl; destruct c; try reflexivity;
    match goal with |- context [reg_result ?r] => destruct r as [s1 e]; reflexivity end.
Qed.

Lemma rets_nm_handle s pe en rf lf d : rets (snd (fst (nm_handle true s pe en rf lf d))) = [].
Proof.
  destruct (d_body d) as [e|pl0|c pl] eqn:Hb; [unfold nm_handle; rewrite Hb; apply rets_process_result | unfold nm_handle; rewrite Hb; reflexivity |].
  destruct (payload_is_result pl) as [[e ->]|Hn]; [unfold nm_handle; rewrite Hb; apply rets_process_result|].
  rewrite (nm_handle_bcmd true s pe en rf lf d c pl Hb Hn).
  pose proof (rets_nm_dispatch s pe lf d c pl) as H.
  destruct (nm_dispatch s pe lf d c pl) as [[s1 out] err]. cbn [fst snd] in H. unfold nm_reply_callbacks.
  destruct err; [exact H|]. destruct c; try exact H. destruct (d_ref d) as [r|]; [|exact H].
  pose proof (rets_response_cbs s1 lf r (p_ski pe) en rf (pl_val pl)) as H2.
  destruct (process_response_cbs s1 lf r _) as [s2 o2]. cbn [fst snd] in *. rewrite rets_app, H, H2. reflexivity.
Qed.

Lemma rets_process_cmd s pe d : rets (snd (process_cmd repaired s pe d)) = [].
Proof.
  unfold process_cmd. destruct (remote_feature pe (d_src d)) as [[en rf]|]; [|reflexivity].
  destruct (local_feature s (d_dst d)) as [lf|].
  2:{ destruct (_ && _); reflexivity. }
  destruct (negb _); [reflexivity|]. cbn [repaired v_nm_reply_cbs].
  destruct (is_nm lf).
  - pose proof (rets_nm_handle s pe en rf lf d) as H.
    destruct (nm_handle true s pe en rf lf d) as [[s1 out] err]. cbn [fst snd] in H.
    destruct err; cbn [snd]; rewrite rets_app, H; [destruct (is_result_body _) | destruct (_ && _)]; reflexivity.
  - pose proof (rets_fl_handle s (p_ski pe) en rf lf d) as H.
    destruct (fl_handle s (p_ski pe) en rf lf d) as [[s1 out] err]. cbn [fst snd] in H.
    destruct err; cbn [snd]; rewrite rets_app, H; [destruct (is_result_body _) | destruct (_ && _)]; reflexivity.
Qed.

Lemma mon_ev_sub m s d e : Inv m s ->
  snd (fst (mon_ev m d e)) = inv (snd (run_ev repaired s d e)) /\
  snd (mon_ev m d e) = rets (snd (run_ev repaired s d e)) /\
  Inv (fst (fst (mon_ev m d e))) (fst (run_ev repaired s d e)).
Proof.
  intros HI. destruct e as [p|cb]; cbn [mon_ev run_ev].
  - destruct (inbound_sub m s p d HI) as [He HI1]. destruct (mon_inbound m p d) as [m1 ex]. cbn [fst snd] in *.
    change (inbound_v repaired s p d) with (step s (Inbound p d)). split; [exact He|]. split; [|exact HI1].
    (* an arrival reports no registration outcome *)
    unfold step. cbn [step_v]. destruct (find_peer s p) as [pe|]; [|reflexivity].
    symmetry. apply rets_process_cmd.
  - unfold late_reg. destruct (d_ref d) as [r|]; [|cbn; (split; [reflexivity|]); (split; [reflexivity|]); exact HI].
    destruct (fa_feat (d_dst d)) as [f|]; [|cbn; (split; [reflexivity|]); (split; [reflexivity|]); exact HI].
    destruct (addresp_sub m s (fa_ent (d_dst d)) f r cb HI) as [He [Hi HI1]].
    destruct (mon_addresp m (fa_ent (d_dst d)) f r cb) as [m1 ex]. cbn [fst snd] in *.
    change (add_resp_cb s (fa_ent (d_dst d)) f r cb) with (step s (AddRespCb (fa_ent (d_dst d)) f r cb)).
    split; [symmetry; exact Hi|]. split; [exact He | exact HI1].
Qed.

Lemma mon_evs_sub d l : forall m s, Inv m s ->
  snd (fst (mon_evs m d l)) = inv (snd (run_evs repaired s d l)) /\
  snd (mon_evs m d l) = rets (snd (run_evs repaired s d l)) /\
  Inv (fst (fst (mon_evs m d l))) (fst (run_evs repaired s d l)).
Proof.
  induction l as [|e r IH]; intros m s HI; [cbn; (split; [reflexivity|]); (split; [reflexivity|]); exact HI|].
  cbn [mon_evs run_evs]. destruct (mon_ev_sub m s d e HI) as [E1 [E2 HI1]].
  destruct (mon_ev m d e) as [[m1 i1] r1]. destruct (run_ev repaired s d e) as [s1 o1]. cbn [fst snd] in *.
  destruct (IH m1 s1 HI1) as [F1 [F2 HI2]].
  destruct (mon_evs m1 d r) as [[m2 i2] r2]. destruct (run_evs repaired s1 d r) as [s2 o2]. cbn [fst snd] in *.
  subst. unfold inv, rets. rewrite !filter_app. (split; [reflexivity|]); (split; [reflexivity|]); exact HI2.
Qed.

Lemma blank_idem o : blank (blank o) = blank o.
Proof. destruct o; reflexivity. Qed.

Lemma inv_par_obs out : inv (par_obs out) = map blank (inv out).
Proof.
  induction out as [|o out IH]; [reflexivity|]. unfold par_obs. cbn [flat_map]. unfold inv. rewrite filter_app.
  fold (par_obs out). fold (inv (par_obs out)). rewrite IH. destruct o; reflexivity.
Qed.

Lemma rets_par_obs out : rets (par_obs out) = rets out.
Proof.
  induction out as [|o out IH]; [reflexivity|]. unfold par_obs. cbn [flat_map]. unfold rets. rewrite filter_app.
  fold (par_obs out). fold (rets (par_obs out)). rewrite IH. destruct o; reflexivity.
Qed.

Lemma forallb_blank l : forallb is_invoke l = true -> forallb is_invoke (map blank l) = true.
Proof.
  induction l as [|o l IH]; [reflexivity|]. cbn [forallb map]. intros H. apply andb_true_iff in H. destruct H as [Ha Hb].
  rewrite (IH Hb). destruct o; try discriminate. reflexivity.
Qed.

Lemma par_ok m s ps d late pf : Inv m s -> step_ok m s (ParArrive ps d late pf).
Proof.
  intros HI. unfold step_ok, mon.
  assert (Hst : step s (ParArrive ps d late pf) =
                (fst (run_evs repaired s d (par_events ps late pf)), par_obs (snd (run_evs repaired s d (par_events ps late pf))))).
  { unfold step. cbn [step_v]. destruct (run_evs repaired s d (par_events ps late pf)); reflexivity. }
  rewrite Hst. clear Hst. cbn [fst snd].
  destruct (mon_evs_sub d (par_events ps late pf) m s HI) as [E1 [E2 HI1]].
  destruct (mon_evs m d (par_events ps late pf)) as [[m1 i1] r1].
  destruct (run_evs repaired s d (par_events ps late pf)) as [s1 out]. cbn [fst snd] in *. split; [|exact HI1].
  destruct (well_posed m d late pf); [|reflexivity].
  fold (inv (par_obs out)). fold (rets (par_obs out)). rewrite inv_par_obs, rets_par_obs. subst i1 r1.
  rewrite map_map. rewrite (map_ext _ _ blank_idem).
  rewrite same_multiset_refl by (apply forallb_blank, forallb_inv).
  rewrite same_rets_refl by apply forallb_rets. reflexivity.
Qed.

(* ---- the same registration from k goroutines ---- *)
Lemma mon_regs_sub e f c cb n : forall m s, Inv m s ->
  snd (mon_regs m e f c cb n) = rets (snd (run_regs s e f c cb n)) /\
  inv (snd (run_regs s e f c cb n)) = [] /\
  Inv (fst (mon_regs m e f c cb n)) (fst (run_regs s e f c cb n)).
Proof.
  induction n as [|n IH]; intros m s HI; [cbn; (split; [reflexivity|]); (split; [reflexivity|]); exact HI|].
  cbn [mon_regs run_regs]. destruct (addresp_sub m s e f c cb HI) as [E1 [E2 HI1]].
  change (step s (AddRespCb e f c cb)) with (add_resp_cb s e f c cb) in E1, E2, HI1.
  destruct (mon_addresp m e f c cb) as [m1 r1]. destruct (add_resp_cb s e f c cb) as [s1 o1]. cbn [fst snd] in *.
  destruct (IH m1 s1 HI1) as [F1 [F2 HI2]].
  destruct (mon_regs m1 e f c cb n) as [m2 r2]. destruct (run_regs s1 e f c cb n) as [s2 o2]. cbn [fst snd] in *.
  subst. rewrite rets_app, inv_app, E2, F2. (split; [reflexivity|]); (split; [reflexivity|]); exact HI2.
Qed.

Lemma parreg_ok m s e f c cb k : Inv m s -> step_ok m s (ParRegister e f c cb k).
Proof.
  intros HI. unfold step_ok, mon.
  change (step s (ParRegister e f c cb k)) with (run_regs s e f c cb (N.to_nat k)).
  destruct (mon_regs_sub e f c cb (N.to_nat k) m s HI) as [E1 [E2 HI1]].
  destruct (mon_regs m e f c cb (N.to_nat k)) as [m1 r1]. cbn [fst snd] in *. split; [|exact HI1].
  subst r1. fold (rets (snd (run_regs s e f c cb (N.to_nat k)))). rewrite same_rets_refl by apply forallb_rets.
  unfold no_invokes. rewrite (inv_nil_no_invokes _ E2). reflexivity.
Qed.

(* ---- arrivals back to back ---- *)
Lemma mon_seq_sub l : forall m s, Inv m s ->
  snd (mon_seq m l) = inv (snd (run_seq repaired s l)) /\ Inv (fst (mon_seq m l)) (fst (run_seq repaired s l)).
Proof.
  induction l as [|[p d] r IH]; intros m s HI; [split; [reflexivity | exact HI]|].
  cbn [mon_seq run_seq]. destruct (inbound_sub m s p d HI) as [E1 HI1].
  change (step s (Inbound p d)) with (inbound_v repaired s p d) in E1, HI1.
  destruct (mon_inbound m p d) as [m1 i1]. destruct (inbound_v repaired s p d) as [s1 o1]. cbn [fst snd] in *.
  destruct (IH m1 s1 HI1) as [F1 HI2].
  destruct (mon_seq m1 r) as [m2 i2]. destruct (run_seq repaired s1 r) as [s2 o2]. cbn [fst snd] in *.
  subst. rewrite inv_app. split; [reflexivity | exact HI2].
Qed.

Lemma inv_seq_obs out : inv (seq_obs out) = inv out.
Proof.
  induction out as [|o out IH]; [reflexivity|]. unfold seq_obs. cbn [flat_map]. unfold inv. rewrite filter_app.
  fold (seq_obs out). fold (inv (seq_obs out)). rewrite IH. destruct o; reflexivity.
Qed.

Lemma seq_ok m s l : Inv m s -> step_ok m s (SeqArrive l).
Proof.
  intros HI. unfold step_ok, mon.
  assert (Hst : step s (SeqArrive l) = (fst (run_seq repaired s l), seq_obs (snd (run_seq repaired s l)))).
  { unfold step. cbn [step_v]. destruct (run_seq repaired s l); reflexivity. }
  rewrite Hst. clear Hst. cbn [fst snd].
  destruct (mon_seq_sub l m s HI) as [E1 HI1].
  destruct (mon_seq m l) as [m1 i1]. destruct (run_seq repaired s l) as [s1 out]. cbn [fst snd] in *. split; [|exact HI1].
  fold (inv (seq_obs out)). rewrite inv_seq_obs. subst i1.
  rewrite same_multiset_refl by apply forallb_inv. reflexivity.
Qed.

Lemma mon_step_ok m s o :
  Inv m s ->
  snd (mon m o (snd (step s o))) = [] /\ Inv (fst (mon m o (snd (step s o)))) (fst (step s o)).
Proof.
  intros HI. destruct o; try (apply plain_ok; [exact HI | reflexivity]).
  - apply inbound_ok; exact HI.
  - apply addresp_ok; exact HI.
  - apply addresult_ok; exact HI.
  - apply parreg_ok; exact HI.
  - apply seq_ok; exact HI.
  - apply par_ok; exact HI.
Qed.

(* ------------------------------------------------------------------ whole histories *)
Lemma Inv_init : Inv minit init.
Proof.
  split; [reflexivity|]. split.
  - intros e f c. unfold view_r. cbn [minit pending cbs_of filter map init lfeats find].
    destruct (is_feat e f nodemgmt_feat); [reflexivity|]. destruct (is_feat e f devclass_feat); reflexivity.
  - intros e f. unfold view_q. cbn [minit resultcbs rcbs_of filter map init lfeats find].
    destruct (is_feat e f nodemgmt_feat); [reflexivity|]. destruct (is_feat e f devclass_feat); reflexivity.
Qed.

Lemma run_accepted_from ops : forall m s, Inv m s -> accepted_trace (judge m (snd (run s ops))) = true.
Proof.
  induction ops as [|o r IH]; intros m s HI; [reflexivity|].
  unfold run. cbn [run_with]. fold (run (fst (step s o)) r).
  destruct (mon_step_ok m s o HI) as [Hv HI1].
  destruct (step s o) as [s1 out] eqn:Hs. cbn [fst snd] in *.
  specialize (IH _ _ HI1). unfold run in IH.
  destruct (run_with step s1 r) as [s2 tr]. cbn [snd judge] in *.
  destruct (mon m o out) as [m1 v]. cbn [fst snd] in *. subst v.
  cbn [accepted_trace forallb]. exact IH.
Qed.

Lemma run_accepted ops : accepted_trace (judge minit (snd (run init ops))) = true.
Proof. apply run_accepted_from. apply Inv_init. Qed.

(* registering the same callback twice for one counter is refused and changes nothing *)
Lemma memN_app_last x l : memN x (l ++ [x]) = true.
Proof. unfold memN. rewrite existsb_app. cbn. rewrite N.eqb_refl, orb_true_r. reflexivity. Qed.

Lemma duplicate_refused s e f c cb lf :
  find_lfeat s e (Some f) = Some lf ->
  let s1 := fst (step s (AddRespCb e f c cb)) in
  step s1 (AddRespCb e f c cb) = (s1, [ORetB false]).
Proof.
  intros Hf. cbn zeta. unfold step. cbn [step_v]. rewrite Hf.
  set (cbs := match assoc_N c (lf_rcb lf) with Some l => l | None => [] end).
  destruct (memN cb cbs) eqn:Hdup; cbn [fst].
  - rewrite Hf. fold cbs. rewrite Hdup. reflexivity.
  - rewrite find_lfeat_find in *. unfold upd_lfeat, set_lfeats. cbn [lfeats].
    rewrite find_upd_first_same by (intros x; split; reflexivity).
    rewrite Hf. cbn [option_map set_rcb lf_rcb assoc_N]. rewrite N.eqb_refl.
    rewrite memN_app_last. reflexivity.
Qed.

(* after a delivery nothing is pending for that feature and reference: a repeated reply or
   result with the same reference invokes no response callback *)
Lemma used_up s pe en rf lf d r data res :
  find_peer s (p_ski pe) = Some pe ->
  remote_feature pe (d_src d) = Some (en, rf) -> local_feature s (d_dst d) = Some lf ->
  delivers s pe en rf lf d = Some (r, data, res) ->
  view_r (fst (step s (Inbound (p_ski pe) d))) (lf_ent lf) (lf_id lf) r = [].
Proof.
  intros Hp Hsrc Hl Hd. pose proof (process_cmd_handled s pe en rf lf d Hp Hsrc Hl) as Hh.
  rewrite Hd in Hh. unfold handled in Hh. cbn [fst snd] in Hh. destruct Hh as [[V1 _] _].
  unfold step. cbn [step_v]. rewrite Hp. rewrite V1. unfold is_key. rewrite eqb_eaddr_refl, !N.eqb_refl. reflexivity.
Qed.

(* ------------------------------------------------------------------ overlapping arrivals: any interleaving *)
From Coq Require Import Sorting.Permutation.

Definition regs (l : list ev) : list N := flat_map (fun e => match e with EReg cb => [cb] | _ => [] end) l.
Definition arrivals (l : list ev) : list N := flat_map (fun e => match e with EArr p => [p] | _ => [] end) l.

(* the part of the state an arrival of a result or data reply, and a registration, leave alone *)
Definition frame (s : st) := (peers s, lents s).

Lemma frame_response_cbs s lf r mk : frame (fst (process_response_cbs s lf r mk)) = frame s.
Proof. unfold process_response_cbs. destruct (assoc_N r (lf_rcb lf)); reflexivity. Qed.

Lemma frame_process_result s p en rf lf d e : frame (fst (fst (process_result s p en rf lf d e))) = frame s.
Proof.
  unfold process_result. destruct (d_ref d) as [r|]; [|reflexivity].
  pose proof (frame_response_cbs s lf r (mk_invoke lf r p en rf e)) as H.
  destruct (process_response_cbs s lf r _) as [s1 o1]. exact H.
Qed.

Lemma frame_fl_handle s p en rf lf d : frame (fst (fst (fl_handle s p en rf lf d))) = frame s.
Proof.
  unfold fl_handle. destruct (d_body d) as [e|pl0|c pl]; [apply frame_process_result|reflexivity|]. destruct c.
  - destruct (eqb_role _ _); [reflexivity|]. destruct (negb _); reflexivity.
  - destruct (negb _); [reflexivity|]. destruct (d_ref d) as [r|]; [|reflexivity].
    pose proof (frame_response_cbs s lf r (mk_invoke lf r p en rf (pl_val pl))) as H.
    destruct (process_response_cbs s lf r _) as [s1 o1]. exact H.
  - destruct (negb _ || _); reflexivity.
  - unfold process_write. destruct (write_refused _ _ _); reflexivity.
  - reflexivity.
Qed.

Lemma frame_nm_handle_quiet s pe en rf lf d :
  quiet_body (d_body d) = true -> frame (fst (fst (nm_handle true s pe en rf lf d))) = frame s.
Proof.
  intros Hq. unfold nm_handle. destruct (d_body d) as [e|pl0|c pl]; [apply frame_process_result|discriminate Hq|].
  destruct c; try discriminate Hq. destruct pl; try discriminate Hq; cbn [nm_dispatch nm_reply_callbacks]; try reflexivity.
  destruct (d_ref d) as [r|]; [|reflexivity].
  pose proof (frame_response_cbs s lf r (mk_invoke lf r (p_ski pe) en rf (pl_val (PUseCase v)))) as H.
  destruct (process_response_cbs s lf r _) as [s1 o1]. exact H.
Qed.

Lemma frame_process_cmd_quiet s pe d :
  quiet_body (d_body d) = true -> frame (fst (process_cmd repaired s pe d)) = frame s.
Proof.
  intros Hq. unfold process_cmd. destruct (remote_feature pe (d_src d)) as [[en rf]|]; [|reflexivity].
  destruct (local_feature s (d_dst d)) as [lf|].
  2:{ destruct (_ && _); reflexivity. }
  destruct (negb _); [reflexivity|]. cbn [repaired v_nm_reply_cbs].
  destruct (is_nm lf).
  - pose proof (frame_nm_handle_quiet s pe en rf lf d Hq) as H.
    destruct (nm_handle true s pe en rf lf d) as [[s1 out] err]. destruct err; exact H.
  - pose proof (frame_fl_handle s (p_ski pe) en rf lf d) as H.
    destruct (fl_handle s (p_ski pe) en rf lf d) as [[s1 out] err]. destruct err; exact H.
Qed.

Lemma local_feature_key s a lf : local_feature s a = Some lf -> fa_ent a = lf_ent lf /\ fa_feat a = Some (lf_id lf).
Proof.
  unfold local_feature. destruct (existsb _ (lents s)); [|discriminate].
  unfold find_lfeat. destruct (fa_feat a) as [f|]; [|discriminate]. intros H.
  pose proof (find_some _ _ H) as [_ Hk]. unfold is_feat in Hk. apply andb_true_iff in Hk. destruct Hk as [H1 H2].
  apply eqb_eaddr_eq in H1. apply N.eqb_eq in H2. split; [symmetry; exact H1 | rewrite H2; reflexivity].
Qed.

Lemma remote_feature_addr pe a en rf : remote_feature pe a = Some (en, rf) -> re_addr en = fa_ent a /\ fa_feat a = Some (rf_id rf).
Proof.
  unfold remote_feature, find_rent. destruct (find _ (p_ents pe)) as [en'|] eqn:He; [|discriminate].
  destruct (fa_feat a) as [f|]; [|discriminate]. destruct (find _ (re_feats en')) as [rf'|] eqn:Hf; [|discriminate].
  intros H. injection H as <- <-. apply find_some in He. destruct He as [_ He]. apply eqb_eaddr_eq in He.
  apply find_some in Hf. destruct Hf as [_ Hf]. apply N.eqb_eq in Hf. split; [exact He | rewrite Hf; reflexivity].
Qed.

Section Par.
  Variables (s0 : st) (d : dgram) (lf0 : lfeat) (r : N).
  Hypothesis Hq : quiet_body (d_body d) = true.
  Hypothesis Hr : d_ref d = Some r.
  Hypothesis Hl : local_feature s0 (d_dst d) = Some lf0.

  Definition e0 := lf_ent lf0.
  Definition f0 := lf_id lf0.
  Definition data_d : N := match d_body d with BResult e => e | BResultWith pl | BCmd _ pl => pl_val pl end.
  Definition res_d : bool := is_result_body (d_body d).
  Definition fsrc : N := match fa_feat (d_src d) with Some x => x | None => 0%N end.
  (* an invocation as the operation reports it: the peer is blanked, everything else is fixed by d *)
  Definition binv (cb : N) : obs := OInvoke cb e0 f0 r 0 (fa_ent (d_src d)) fsrc data_d.

  (* does an arrival on connection p deliver (connected, source announced, reply accepted)? *)
  Definition del (p : N) : bool :=
    match find_peer s0 p with
    | Some pe =>
        match remote_feature pe (d_src d) with
        | Some (en, rf) => match delivers s0 pe en rf lf0 d with Some _ => true | None => false end
        | None => false
        end
    | None => false
    end.

  Definition R (s : st) : Prop := frame s = frame s0 /\ sig s = sig s0.

  Lemma R_lookup s : R s -> exists lf, local_feature s (d_dst d) = Some lf /\ psig lf = psig lf0.
  Proof.
    intros [Hfr Hsig]. assert (Hle : lents s = lents s0) by (change (snd (frame s) = snd (frame s0)); rewrite Hfr; reflexivity).
    unfold local_feature in *. rewrite Hle. destruct (existsb _ (lents s0)); [|discriminate].
    unfold find_lfeat in *. destruct (fa_feat (d_dst d)) as [f|]; [|discriminate].
    unfold sig in Hsig. symmetry in Hsig. exact (find_sig _ _ _ _ _ Hsig Hl).
  Qed.

  Lemma psig_fields lf : psig lf = psig lf0 -> lf_ent lf = e0 /\ lf_id lf = f0.
  Proof.
    intros H. split.
    - change (fst (fst (fst (psig lf))) = fst (fst (fst (psig lf0)))). rewrite H. reflexivity.
    - change (snd (fst (fst (psig lf))) = snd (fst (fst (psig lf0)))). rewrite H. reflexivity.
  Qed.

  Lemma delivers_stable s pe en rf lf : psig lf = psig lf0 -> delivers s pe en rf lf d = delivers s0 pe en rf lf0 d.
  Proof.
    intros Hp. destruct (psig_fields lf Hp) as [E1 E2]. unfold delivers. rewrite Hr.
    pose proof Hq as Hq'. destruct (d_body d) as [e|pl0|c pl]; [reflexivity|reflexivity|].
    destruct c; try discriminate Hq'. destruct pl; try discriminate Hq'.
    all: rewrite !accepted_reply.
    all: assert (Hn : is_nm lf = is_nm lf0) by (unfold is_nm, is_feat; rewrite E1, E2; reflexivity).
    all: rewrite Hn; destruct (is_nm lf0); reflexivity.
  Qed.

  Lemma delivers_shape s pe en rf lf x : delivers s pe en rf lf d = Some x -> x = (r, data_d, res_d).
  Proof.
    pose proof Hq as Hq'. unfold delivers, data_d, res_d. rewrite Hr. destruct (d_body d) as [e|pl0|c pl].
    - intros H. injection H as <-. reflexivity.
    - discriminate.
    - destruct c; try discriminate Hq'. destruct pl; try discriminate Hq';
        (destruct (accepted _ _ _ _ _ _ _); [|discriminate]); intros H; injection H as <-; reflexivity.
  Qed.

  Lemma find_peer_frame s p : R s -> find_peer s p = find_peer s0 p.
  Proof.
    intros [Hfr _]. assert (Hpe : peers s = peers s0) by (change (fst (frame s) = fst (frame s0)); rewrite Hfr; reflexivity).
    unfold find_peer. rewrite Hpe. reflexivity.
  Qed.

  Lemma blank_invokes lf p en rf L :
    lf_ent lf = e0 -> lf_id lf = f0 -> re_addr en = fa_ent (d_src d) -> fa_feat (d_src d) = Some (rf_id rf) ->
    map blank (map (mk_invoke lf r p en rf data_d) L) = map binv L.
  Proof.
    intros E1 E2 E3 E4. rewrite map_map. apply map_ext. intros cb. unfold mk_invoke, binv, blank, fsrc.
    rewrite E1, E2, E3, E4. reflexivity.
  Qed.

  Lemma ev_arr s p : R s ->
    R (fst (inbound_v repaired s p d)) /\
    view_q (fst (inbound_v repaired s p d)) e0 f0 = view_q s e0 f0 /\
    (if del p
     then map blank (inv (snd (inbound_v repaired s p d))) =
            map binv (view_r s e0 f0 r) ++ (if res_d then map binv (view_q s e0 f0) else []) /\
          view_r (fst (inbound_v repaired s p d)) e0 f0 r = []
     else inv (snd (inbound_v repaired s p d)) = [] /\
          view_r (fst (inbound_v repaired s p d)) e0 f0 r = view_r s e0 f0 r).
  Proof.
    intros HR. unfold inbound_v, del. rewrite (find_peer_frame s p HR).
    destruct (find_peer s0 p) as [pe|] eqn:Hp0; [|repeat split; try reflexivity; apply HR].
    assert (Hp : find_peer s (p_ski pe) = Some pe).
    { rewrite (find_peer_frame s _ HR). pose proof (find_peer_ski _ _ _ Hp0) as Hk. rewrite Hk. exact Hp0. }
    assert (HR' : R (fst (process_cmd repaired s pe d))).
    { destruct HR as [Hfr Hsig]. split; [rewrite frame_process_cmd_quiet by exact Hq; exact Hfr | rewrite sig_process_cmd; exact Hsig]. }
    split; [exact HR'|].
    destruct (remote_feature pe (d_src d)) as [[en rf]|] eqn:Hsrc.
    2:{ unfold process_cmd. rewrite Hsrc. cbn [fst snd]. repeat split; reflexivity. }
    destruct (R_lookup s HR) as [lf [Hl' Hps]]. destruct (psig_fields lf Hps) as [E1 E2].
    destruct (remote_feature_addr _ _ _ _ Hsrc) as [E3 E4].
    pose proof (process_cmd_handled s pe en rf lf d Hp Hsrc Hl') as Hh.
    pose proof (found_local _ _ _ Hl') as Hf. unfold found in Hf. rewrite E1, E2 in Hf. fold e0 f0 in Hf.
    rewrite (delivers_stable s pe en rf lf Hps) in Hh.
    destruct (delivers s0 pe en rf lf0 d) as [x|] eqn:Hd.
    - pose proof (delivers_shape _ _ _ _ _ _ Hd) as ->. unfold handled in Hh. cbn [fst snd] in Hh.
      destruct Hh as [[V1 V2] Hi]. split; [apply V2|]. split.
      + rewrite Hi, map_app. pose proof (find_peer_ski _ _ _ Hp0) as Hk.
        rewrite (blank_invokes lf (p_ski pe) en rf _ E1 E2 E3 E4).
        unfold view_r, view_q. rewrite Hf. destruct res_d; [|reflexivity].
        rewrite (blank_invokes lf (p_ski pe) en rf _ E1 E2 E3 E4). reflexivity.
      + rewrite V1. unfold is_key. rewrite E1, E2. fold e0 f0. rewrite eqb_eaddr_refl, !N.eqb_refl. reflexivity.
    - unfold handled in Hh. cbn [fst snd] in Hh. destruct Hh as [[V1 V2] Hi]. split; [apply V2|]. split; [exact Hi | apply V1].
  Qed.

  Lemma ev_reg s cb : R s ->
    R (fst (late_reg s d cb)) /\
    view_q (fst (late_reg s d cb)) e0 f0 = view_q s e0 f0 /\
    inv (snd (late_reg s d cb)) = [] /\
    view_r (fst (late_reg s d cb)) e0 f0 r =
      if memN cb (view_r s e0 f0 r) then view_r s e0 f0 r else view_r s e0 f0 r ++ [cb].
  Proof.
    intros HR. destruct (R_lookup s HR) as [lf [Hl' Hps]]. destruct (psig_fields lf Hps) as [E1 E2].
    destruct (local_feature_key _ _ _ Hl') as [K1 K2]. rewrite E1 in K1. rewrite E2 in K2. fold e0 in K1. fold f0 in K2.
    pose proof (found_local _ _ _ Hl') as Hf. unfold found in Hf. rewrite E1, E2 in Hf. fold e0 f0 in Hf.
    unfold late_reg. rewrite Hr, K1, K2. unfold add_resp_cb. rewrite find_lfeat_find, Hf.
    assert (Hv : view_r s e0 f0 r = match assoc_N r (lf_rcb lf) with Some l => l | None => [] end).
    { unfold view_r. rewrite Hf. reflexivity. }
    rewrite <- Hv. destruct (memN cb (view_r s e0 f0 r)); cbn [fst snd].
    - repeat split; try reflexivity; apply HR.
    - split; [|split; [|split]].
      + destruct HR as [Hfr Hsig]. split; [exact Hfr|]. rewrite sig_upd_lfeat by (intros x; reflexivity). exact Hsig.
      + rewrite view_q_upd by (intros x; split; reflexivity). rewrite eqb_eaddr_refl, N.eqb_refl. cbn [andb].
        rewrite Hf. unfold view_q. rewrite Hf. reflexivity.
      + reflexivity.
      + rewrite view_r_upd by (intros x; split; reflexivity). rewrite eqb_eaddr_refl, N.eqb_refl. cbn [andb].
        rewrite Hf. cbn [set_rcb lf_rcb]. unfold lookup. cbn [assoc_N]. rewrite N.eqb_refl. reflexivity.
  Qed.

  (* ---- the operation on the list of callbacks pending for (e0, f0, r) ---- *)
  Fixpoint arun (P q : list N) (l : list ev) : list N * list obs :=
    match l with
    | [] => (P, [])
    | EArr p :: t =>
        if del p
        then let '(P1, o) := arun [] q t in (P1, (map binv P ++ (if res_d then map binv q else [])) ++ o)
        else arun P q t
    | EReg cb :: t => arun (if memN cb P then P else P ++ [cb]) q t
    end.

  Lemma run_evs_arun l : forall s, R s ->
    map blank (inv (snd (run_evs repaired s d l))) = snd (arun (view_r s e0 f0 r) (view_q s e0 f0) l) /\
    view_r (fst (run_evs repaired s d l)) e0 f0 r = fst (arun (view_r s e0 f0 r) (view_q s e0 f0) l).
  Proof.
    induction l as [|e t IH]; intros s HR; [split; reflexivity|]. cbn [run_evs arun]. destruct e as [p|cb]; cbn [run_ev].
    - destruct (ev_arr s p HR) as [HR1 [Vq Hc]].
      destruct (inbound_v repaired s p d) as [s1 o1]. cbn [fst snd] in *. specialize (IH s1 HR1).
      destruct (run_evs repaired s1 d t) as [s2 o2]. cbn [fst snd] in *. rewrite inv_app, map_app.
      destruct (del p).
      + destruct Hc as [H1 H2]. rewrite H2, Vq in IH. destruct (arun [] (view_q s e0 f0) t) as [P1 o]. cbn [fst snd] in *.
        destruct IH as [I1 I2]. rewrite H1, I1. split; [reflexivity | exact I2].
      + destruct Hc as [H1 H2]. rewrite H2, Vq in IH. rewrite H1. exact IH.
    - destruct (ev_reg s cb HR) as [HR1 [Vq [Hi Hv]]].
      destruct (late_reg s d cb) as [s1 o1]. cbn [fst snd] in *. specialize (IH s1 HR1).
      destruct (run_evs repaired s1 d t) as [s2 o2]. cbn [fst snd] in *. rewrite inv_app, map_app, Hi.
      rewrite Hv, Vq in IH. exact IH.
  Qed.
End Par.

(* ---- every order of the events gives the same multiset ---- *)
Lemma flat_map_perm {A B} (f : A -> list B) l l' : Permutation l l' -> Permutation (flat_map f l) (flat_map f l').
Proof.
  induction 1 as [|x l l' _ IH|x y l|l l1 l2 _ IH1 _ IH2]; cbn [flat_map].
  - apply perm_nil.
  - apply Permutation_app_head. exact IH.
  - rewrite !app_assoc. apply Permutation_app_tail. apply Permutation_app_comm.
  - eapply perm_trans; eassumption.
Qed.

Lemma filter_perm_length {A} (f : A -> bool) l l' : Permutation l l' -> length (filter f l) = length (filter f l').
Proof.
  induction 1 as [|x l l' _ IH|x y l|l l1 l2 _ IH1 _ IH2]; cbn [filter].
  - reflexivity.
  - destruct (f x); cbn [length]; rewrite IH; reflexivity.
  - destruct (f x); destruct (f y); reflexivity.
  - congruence.
Qed.

Section Abstract.
  Variables (s0 : st) (d : dgram) (lf0 : lfeat) (r : N).
  Notation arun' := (arun s0 d lf0 r).
  Notation binv' := (binv d lf0 r).
  Notation del' := (del s0 d lf0).
  Definition resq (q : list N) : list obs := if res_d d then map binv' q else [].
  Definition ndel (l : list ev) : nat := length (filter del' (arrivals l)).

  Lemma arun_perm l : forall P q,
    NoDup (regs l) -> (forall cb, In cb (regs l) -> ~ In cb P) ->
    Permutation (snd (arun' P q l) ++ map binv' (fst (arun' P q l)))
                (map binv' (P ++ regs l) ++ concat (repeat (resq q) (ndel l))).
  Proof.
    induction l as [|e t IH]; intros P q Hnd Hfresh.
    - cbn. rewrite !app_nil_r. apply Permutation_refl.
    - destruct e as [p|cb]; cbn [arun regs arrivals flat_map app].
      + fold (regs t). fold (arrivals t). unfold ndel. cbn [arrivals flat_map app filter]. fold (arrivals t).
        destruct (del' p) eqn:Hd.
        * specialize (IH [] q Hnd (fun _ _ H => H)). cbn [app] in IH.
          destruct (arun' [] q t) as [P1 o]. cbn [fst snd length repeat concat] in *.
          fold (ndel t). fold (resq q). rewrite <- !app_assoc. rewrite IH. rewrite map_app.
          rewrite <- !app_assoc. apply Permutation_app_head.
          rewrite !app_assoc. apply Permutation_app_tail. apply Permutation_app_comm.
        * fold (ndel t). apply IH; assumption.
      + fold (regs t). fold (arrivals t). cbn [regs flat_map app] in Hnd, Hfresh. fold (regs t) in Hnd, Hfresh.
        assert (Hm : memN cb P = false).
        { destruct (memN cb P) eqn:E; [|reflexivity]. apply memN_In in E. exfalso. apply (Hfresh cb); [left; reflexivity | exact E]. }
        rewrite Hm. inversion Hnd as [|? ? Hni Hnd']; subst.
        assert (Hf' : forall cb', In cb' (regs t) -> ~ In cb' (P ++ [cb])).
        { intros cb' Hin Hc. apply in_app_or in Hc. destruct Hc as [Hc|[Hc|[]]].
          - apply (Hfresh cb'); [right; exact Hin | exact Hc].
          - subst cb'. exact (Hni Hin). }
        unfold ndel. cbn [arrivals flat_map app]. fold (arrivals t). fold (ndel t).
        rewrite (IH (P ++ [cb]) q Hnd' Hf'). rewrite <- app_assoc. apply Permutation_refl.
  Qed.

  Lemma arun_last pf l : del' pf = true -> forall P q, fst (arun' P q (l ++ [EArr pf])) = [].
  Proof.
    intros Hd. induction l as [|e t IH]; intros P q; cbn [app arun].
    - rewrite Hd. reflexivity.
    - destruct e as [p|cb]; [|apply IH]. destruct (del' p); [|apply IH].
      specialize (IH [] q). destruct (arun' [] q (t ++ [EArr pf])) as [P1 o]. exact IH.
  Qed.

  Lemma regs_snoc_arr l p : regs (l ++ [EArr p]) = regs l.
  Proof. unfold regs. rewrite flat_map_app. cbn. apply app_nil_r. Qed.
End Abstract.

(* The model runs an overlapping operation in the order "arrivals, registration, closing arrival".
   Lookup + spawn + delete of the callbacks of a counter is one critical section, so what really
   happens is SOME order of these events; for a result or data reply, registrations of distinct
   callbacks not pending for the counter, and a delivering closing arrival, every order yields the
   same multiset of (peer-blanked) invocations — each callback pending before or registered during
   the operation exactly once, each result callback once per delivering arrival — and leaves
   nothing pending for the counter. *)
Theorem par_any_interleaving s d lf r l l' pf :
  quiet_body (d_body d) = true -> d_ref d = Some r -> local_feature s (d_dst d) = Some lf ->
  del s d lf pf = true ->
  NoDup (regs l) -> (forall cb, In cb (regs l) -> ~ In cb (view_r s (lf_ent lf) (lf_id lf) r)) ->
  Permutation l l' ->
  Permutation (map blank (inv (snd (run_evs repaired s d (l ++ [EArr pf])))))
              (map blank (inv (snd (run_evs repaired s d (l' ++ [EArr pf]))))) /\
  view_r (fst (run_evs repaired s d (l ++ [EArr pf]))) (lf_ent lf) (lf_id lf) r = [] /\
  view_r (fst (run_evs repaired s d (l' ++ [EArr pf]))) (lf_ent lf) (lf_id lf) r = [].
Proof.
  intros Hq Hr Hl Hd Hnd Hfresh Hperm.
  assert (HR : R s s) by (split; reflexivity).
  assert (Hnd' : NoDup (regs l')) by (eapply Permutation_NoDup; [apply flat_map_perm; exact Hperm | exact Hnd]).
  assert (Hfresh' : forall cb, In cb (regs l') -> ~ In cb (view_r s (lf_ent lf) (lf_id lf) r)).
  { intros cb Hin. apply Hfresh. eapply Permutation_in; [apply Permutation_sym, flat_map_perm; exact Hperm | exact Hin]. }
  destruct (run_evs_arun s d lf r Hq Hr Hl (l ++ [EArr pf]) s HR) as [A1 A2].
  destruct (run_evs_arun s d lf r Hq Hr Hl (l' ++ [EArr pf]) s HR) as [B1 B2].
  unfold e0, f0 in A1, A2, B1, B2.
  pose proof (arun_last s d lf r pf l Hd (view_r s (lf_ent lf) (lf_id lf) r) (view_q s (lf_ent lf) (lf_id lf))) as La.
  pose proof (arun_last s d lf r pf l' Hd (view_r s (lf_ent lf) (lf_id lf) r) (view_q s (lf_ent lf) (lf_id lf))) as Lb.
  split; [|split; [rewrite A2; exact La | rewrite B2; exact Lb]].
  rewrite A1, B1.
  pose proof (arun_perm s d lf r (l ++ [EArr pf]) (view_r s (lf_ent lf) (lf_id lf) r) (view_q s (lf_ent lf) (lf_id lf))) as Pa.
  pose proof (arun_perm s d lf r (l' ++ [EArr pf]) (view_r s (lf_ent lf) (lf_id lf) r) (view_q s (lf_ent lf) (lf_id lf))) as Pb.
  rewrite regs_snoc_arr in Pa, Pb. specialize (Pa Hnd Hfresh). specialize (Pb Hnd' Hfresh').
  rewrite La in Pa. rewrite Lb in Pb. cbn [map] in Pa, Pb. rewrite app_nil_r in Pa, Pb.
  rewrite Pa, Pb.
  assert (Hn : ndel s d lf (l ++ [EArr pf]) = ndel s d lf (l' ++ [EArr pf])).
  { unfold ndel. apply filter_perm_length. apply flat_map_perm. apply Permutation_app_tail. exact Hperm. }
  rewrite Hn. apply Permutation_app_tail. apply Permutation_map. apply Permutation_app_head.
  apply flat_map_perm. exact Hperm.
Qed.

(* the same for the operation itself: what ParArrive reports is what any interleaving of its
   arrivals and its registration, followed by the closing arrival, reports *)
Definition late_evs (late : option N) : list ev := match late with Some cb => [EReg cb] | None => [] end.

Lemma regs_arrivals_only ps : regs (map EArr ps) = [].
Proof. induction ps as [|p ps IH]; [reflexivity | exact IH]. Qed.

Lemma par_op_any_interleaving s ps d late pf lf r l' :
  quiet_body (d_body d) = true -> d_ref d = Some r -> local_feature s (d_dst d) = Some lf ->
  del s d lf pf = true ->
  (forall cb, late = Some cb -> ~ In cb (view_r s (lf_ent lf) (lf_id lf) r)) ->
  Permutation (map EArr ps ++ late_evs late) l' ->
  Permutation (inv (snd (step s (ParArrive ps d late pf))))
              (map blank (inv (snd (run_evs repaired s d (l' ++ [EArr pf]))))).
Proof.
  intros Hq Hr Hl Hd Hfresh Hperm.
  assert (Hregs : regs (map EArr ps ++ late_evs late) = match late with Some cb => [cb] | None => [] end).
  { unfold regs. rewrite flat_map_app. fold (regs (map EArr ps)). rewrite regs_arrivals_only. destruct late; reflexivity. }
  assert (Hst : snd (step s (ParArrive ps d late pf)) =
                par_obs (snd (run_evs repaired s d ((map EArr ps ++ late_evs late) ++ [EArr pf])))).
  { unfold step. cbn [step_v]. unfold par_events. rewrite <- app_assoc. unfold late_evs.
    destruct (run_evs repaired s d _); reflexivity. }
  rewrite Hst, inv_par_obs.
  apply (par_any_interleaving s d lf r (map EArr ps ++ late_evs late) l' pf Hq Hr Hl Hd).
  - rewrite Hregs. destruct late; repeat constructor. intros [].
  - rewrite Hregs. intros cb Hin. destruct late as [cb0|]; [|destruct Hin]. destruct Hin as [<-|[]]. apply Hfresh. reflexivity.
  - exact Hperm.
Qed.

(* ------------------------------------------------------------------ the same registration from k goroutines *)
(* all k calls are the same call: every order in which they take their turn is the same sequence; exactly one
   is accepted unless the callback is pending already, and the state is that of a single registration *)
Lemma regs_any_order (x : ev) k l : Permutation (repeat x k) l -> l = repeat x k.
Proof. intros H. apply Permutation_repeat. apply Permutation_sym. exact H. Qed.

Lemma run_regs_refused s e f c cb n :
  (exists lf, find_lfeat s e (Some f) = Some lf /\
              memN cb (match assoc_N c (lf_rcb lf) with Some l => l | None => [] end) = true) ->
  run_regs s e f c cb n = (s, repeat (ORetB false) n).
Proof.
  intros [lf [Hf Hm]]. induction n as [|n IH]; [reflexivity|]. cbn [run_regs].
  unfold add_resp_cb. rewrite Hf, Hm. rewrite IH. reflexivity.
Qed.

Lemma par_register_outcome s e f c cb n lf :
  find_lfeat s e (Some f) = Some lf ->
  run_regs s e f c cb (S n) =
    (fst (step s (AddRespCb e f c cb)), snd (step s (AddRespCb e f c cb)) ++ repeat (ORetB false) n).
Proof.
  intros Hf. cbn [run_regs]. change (add_resp_cb s e f c cb) with (step s (AddRespCb e f c cb)).
  pose proof (duplicate_refused s e f c cb lf Hf) as Hd. cbn zeta in Hd.
  destruct (step s (AddRespCb e f c cb)) as [s1 o1] eqn:Hs. cbn [fst snd] in *.
  assert (Hr : run_regs s1 e f c cb n = (s1, repeat (ORetB false) n)).
  { induction n as [|n IH]; [reflexivity|]. cbn [run_regs].
    change (add_resp_cb s1 e f c cb) with (step s1 (AddRespCb e f c cb)). rewrite Hd, IH. reflexivity. }
  rewrite Hr. reflexivity.
Qed.

