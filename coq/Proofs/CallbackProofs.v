(* C14 — proofs: the callback registries of Model/Dispatch.v against the monitor Spec/CallbackSpec.v. *)
From Verif Require Import Base.Prelude Model.Dispatch Spec.ResponseSpec Spec.CallbackSpec Proofs.ResponseProofs.

(* ------------------------------------------------------------------ views of the model's registries *)
Definition lookup (c : N) (l : list (N * list N)) : list N := match assoc_N c l with Some x => x | None => [] end.

Definition view_r (s : st) (e : eaddr) (f c : N) : list N :=
  match find (is_feat e f) (lfeats s) with Some lf => lookup c (lf_rcb lf) | None => [] end.
Definition view_q (s : st) (e : eaddr) (f : N) : list N :=
  match find (is_feat e f) (lfeats s) with Some lf => lf_resultcb lf | None => [] end.

Definition is_key (lf : lfeat) (e : eaddr) (f : N) : bool := eqb_eaddr (lf_ent lf) e && N.eqb (lf_id lf) f.

(* ---- association lists ---- *)
Lemma assoc_remove_same {A} k (l : list (N * A)) : assoc_N k (remove_N k l) = None.
Proof.
  induction l as [|[k' v] l IH]; [reflexivity|]. cbn [remove_N].
  destruct (N.eqb k k') eqn:E; [exact IH|]. cbn [assoc_N]. rewrite E. exact IH.
Qed.

Lemma assoc_remove_other {A} k c (l : list (N * A)) : N.eqb c k = false -> assoc_N c (remove_N k l) = assoc_N c l.
Proof.
  intros H. induction l as [|[k' v] l IH]; [reflexivity|]. cbn [remove_N assoc_N].
  destruct (N.eqb k k') eqn:E.
  - apply N.eqb_eq in E. subst k'. rewrite H. exact IH.
  - cbn [assoc_N]. rewrite IH. reflexivity.
Qed.

Lemma lookup_remove r c l : lookup c (remove_N r l) = if N.eqb c r then [] else lookup c l.
Proof.
  unfold lookup. destruct (N.eqb c r) eqn:E.
  - apply N.eqb_eq in E. subst c. rewrite assoc_remove_same. reflexivity.
  - rewrite assoc_remove_other by exact E. reflexivity.
Qed.

(* ---- the first feature with a given address ---- *)
Lemma eqb_eaddr_sym a b : eqb_eaddr a b = eqb_eaddr b a.
Proof.
  revert b. induction a as [|x a IH]; intros [|y b]; try reflexivity. cbn. rewrite IH, N.eqb_sym. reflexivity.
Qed.

Lemma is_feat_of_key e f e' f' x : is_feat e f x = true -> is_feat e' f' x = (eqb_eaddr e e' && N.eqb f f').
Proof.
  unfold is_feat. intros H. apply andb_true_iff in H. destruct H as [H1 H2].
  apply eqb_eaddr_eq in H1. apply N.eqb_eq in H2. subst. reflexivity.
Qed.

Section UpdFirst.
  Variables (e : eaddr) (f : N) (g : lfeat -> lfeat).
  Hypothesis Hg : forall x, lf_ent (g x) = lf_ent x /\ lf_id (g x) = lf_id x.

  Lemma is_feat_g e' f' x : is_feat e' f' (g x) = is_feat e' f' x.
  Proof. unfold is_feat. destruct (Hg x) as [-> ->]. reflexivity. Qed.

  Lemma find_upd_first_same l :
    find (is_feat e f) (upd_first (is_feat e f) g l) = option_map g (find (is_feat e f) l).
  Proof.
    induction l as [|x l IH]; [reflexivity|]. cbn [upd_first find].
    destruct (is_feat e f x) eqn:E; cbn [find].
    - rewrite is_feat_g, E. reflexivity.
    - rewrite E. exact IH.
  Qed.

  Lemma find_upd_first_other e' f' l :
    eqb_eaddr e e' && N.eqb f f' = false ->
    find (is_feat e' f') (upd_first (is_feat e f) g l) = find (is_feat e' f') l.
  Proof.
    intros Hne. induction l as [|x l IH]; [reflexivity|]. cbn [upd_first find].
    destruct (is_feat e f x) eqn:E; cbn [find].
    - rewrite is_feat_g, (is_feat_of_key e f e' f' x E), Hne. reflexivity.
    - rewrite IH. reflexivity.
  Qed.
End UpdFirst.

Lemma key_cases e f e' f' : eqb_eaddr e e' && N.eqb f f' = true -> e' = e /\ f' = f.
Proof.
  intros H. apply andb_true_iff in H. destruct H as [H1 H2]. apply eqb_eaddr_eq in H1. apply N.eqb_eq in H2. subst. split; reflexivity.
Qed.

(* effect of updating the feature (e, f) on the views *)
Lemma view_r_upd s e f g e' f' c :
  (forall x, lf_ent (g x) = lf_ent x /\ lf_id (g x) = lf_id x) ->
  view_r (upd_lfeat s e f g) e' f' c =
    if eqb_eaddr e e' && N.eqb f f'
    then match find (is_feat e f) (lfeats s) with Some lf => lookup c (lf_rcb (g lf)) | None => [] end
    else view_r s e' f' c.
Proof.
  intros Hg. unfold view_r, upd_lfeat, set_lfeats. cbn [lfeats].
  destruct (eqb_eaddr e e' && N.eqb f f') eqn:E.
  - destruct (key_cases _ _ _ _ E) as [-> ->]. rewrite (find_upd_first_same e f g Hg).
    destruct (find (is_feat e f) (lfeats s)); reflexivity.
  - rewrite (find_upd_first_other e f g Hg e' f' _ E). reflexivity.
Qed.

Lemma view_q_upd s e f g e' f' :
  (forall x, lf_ent (g x) = lf_ent x /\ lf_id (g x) = lf_id x) ->
  view_q (upd_lfeat s e f g) e' f' =
    if eqb_eaddr e e' && N.eqb f f'
    then match find (is_feat e f) (lfeats s) with Some lf => lf_resultcb (g lf) | None => [] end
    else view_q s e' f'.
Proof.
  intros Hg. unfold view_q, upd_lfeat, set_lfeats. cbn [lfeats].
  destruct (eqb_eaddr e e' && N.eqb f f') eqn:E.
  - destruct (key_cases _ _ _ _ E) as [-> ->]. rewrite (find_upd_first_same e f g Hg).
    destruct (find (is_feat e f) (lfeats s)); reflexivity.
  - rewrite (find_upd_first_other e f g Hg e' f' _ E). reflexivity.
Qed.

(* an update that leaves both registries of the feature alone leaves the views alone *)
Lemma views_upd_neutral s e f g :
  (forall x, lf_ent (g x) = lf_ent x /\ lf_id (g x) = lf_id x) ->
  (forall x, lf_rcb (g x) = lf_rcb x /\ lf_resultcb (g x) = lf_resultcb x) ->
  (forall e' f' c, view_r (upd_lfeat s e f g) e' f' c = view_r s e' f' c) /\
  (forall e' f', view_q (upd_lfeat s e f g) e' f' = view_q s e' f').
Proof.
  intros Hg Hn. split.
  - intros e' f' c. rewrite view_r_upd by exact Hg. destruct (eqb_eaddr e e' && N.eqb f f') eqn:E; [|reflexivity].
    destruct (key_cases _ _ _ _ E) as [-> ->]. unfold view_r. destruct (find (is_feat e f) (lfeats s)) as [lf|]; [|reflexivity].
    destruct (Hn lf) as [-> _]. reflexivity.
  - intros e' f'. rewrite view_q_upd by exact Hg. destruct (eqb_eaddr e e' && N.eqb f f') eqn:E; [|reflexivity].
    destruct (key_cases _ _ _ _ E) as [-> ->]. unfold view_q. destruct (find (is_feat e f) (lfeats s)) as [lf|]; [|reflexivity].
    destruct (Hn lf) as [_ ->]. reflexivity.
Qed.

(* ------------------------------------------------------------------ what a step does to the views *)
Definition vsame (s s' : st) : Prop :=
  (forall e f c, view_r s' e f c = view_r s e f c) /\ (forall e f, view_q s' e f = view_q s e f).

Definition vfired (s s' : st) (lf : lfeat) (r : N) : Prop :=
  (forall e f c, view_r s' e f c = if is_key lf e f && N.eqb c r then [] else view_r s e f c) /\
  (forall e f, view_q s' e f = view_q s e f).

Lemma vsame_refl s : vsame s s.
Proof. split; reflexivity. Qed.

Lemma vsame_lfeats s s' : lfeats s' = lfeats s -> vsame s s'.
Proof. intros H. unfold vsame, view_r, view_q. rewrite H. split; reflexivity. Qed.

Lemma vfired_lfeats s s1 s' lf r : lfeats s1 = lfeats s -> vfired s1 s' lf r -> vfired s s' lf r.
Proof.
  intros H [H1 H2]. split.
  - intros e f c. rewrite H1. unfold view_r. rewrite H. reflexivity.
  - intros e f. rewrite H2. unfold view_q. rewrite H. reflexivity.
Qed.

Definition found (s : st) (lf : lfeat) : Prop := find (is_feat (lf_ent lf) (lf_id lf)) (lfeats s) = Some lf.

Lemma response_cbs_views s lf r mk :
  found s lf ->
  vfired s (fst (process_response_cbs s lf r mk)) lf r /\
  snd (process_response_cbs s lf r mk) = map mk (lookup r (lf_rcb lf)).
Proof.
  intros Hf. unfold process_response_cbs, lookup.
  destruct (assoc_N r (lf_rcb lf)) as [cbs|] eqn:Ha; cbn [fst snd]; (split; [|reflexivity]).
  - split.
    + intros e f c. rewrite view_r_upd by (intros x; split; reflexivity).
      unfold is_key. destruct (eqb_eaddr (lf_ent lf) e && N.eqb (lf_id lf) f) eqn:E; cbn [andb]; [|reflexivity].
      destruct (key_cases _ _ _ _ E) as [-> ->]. unfold found in Hf. rewrite Hf. cbn [set_rcb lf_rcb].
      rewrite lookup_remove. unfold view_r. rewrite Hf. reflexivity.
    + intros e f. rewrite view_q_upd by (intros x; split; reflexivity).
      destruct (eqb_eaddr (lf_ent lf) e && N.eqb (lf_id lf) f) eqn:E; [|reflexivity].
      destruct (key_cases _ _ _ _ E) as [-> ->]. unfold found in Hf. rewrite Hf. unfold view_q. rewrite Hf. reflexivity.
  - split; [|reflexivity].
    intros e f c. unfold is_key. destruct (eqb_eaddr (lf_ent lf) e && N.eqb (lf_id lf) f) eqn:E; cbn [andb]; [|reflexivity].
    destruct (N.eqb c r) eqn:Ec; [|reflexivity].
    destruct (key_cases _ _ _ _ E) as [-> ->]. apply N.eqb_eq in Ec. subst c.
    unfold view_r. unfold found in Hf. rewrite Hf. unfold lookup. rewrite Ha. reflexivity.
Qed.

(* ---- invocations among the observations ---- *)
Definition inv (out : list obs) : list obs := filter is_invoke out.

Lemma inv_app a b : inv (a ++ b) = inv a ++ inv b.
Proof. apply filter_app. Qed.

Lemma inv_invokes lf r p en rf v l : inv (map (mk_invoke lf r p en rf v) l) = map (mk_invoke lf r p en rf v) l.
Proof. induction l as [|x l IH]; [reflexivity|]. cbn. f_equal. exact IH. Qed.

(* what a message delivers to the callbacks of its destination feature: reference, data, is it a result *)
Definition fires (noerr : payload -> bool) (d : dgram) : option (N * N * bool) :=
  match d_ref d with
  | None => None
  | Some r =>
      match d_body d with
      | BResult e => Some (r, e, true)
      | BCmd CReply pl => if noerr pl then Some (r, pl_val pl, false) else None
      | BCmd _ _ => None
      end
  end.

Definition handled (s : st) (p : N) (en : rent) (rf : rfeat) (lf : lfeat) (fr : option (N * N * bool)) (h : hres) : Prop :=
  match fr with
  | Some (r, data, res) =>
      vfired s (fst (fst h)) lf r /\
      inv (snd (fst h)) = map (mk_invoke lf r p en rf data) (lookup r (lf_rcb lf)) ++
                          (if res then map (mk_invoke lf r p en rf data) (lf_resultcb lf) else [])
  | None => vsame s (fst (fst h)) /\ inv (snd (fst h)) = []
  end.

Lemma process_result_handled s p en rf lf d e :
  found s lf -> d_body d = BResult e ->
  handled s p en rf lf (fires (fun _ => true) d) (process_result s p en rf lf d e).
Proof.
  intros Hf Hb. unfold fires, process_result. rewrite Hb.
  destruct (d_ref d) as [r|]; [|split; [apply vsame_refl | reflexivity]].
  destruct (response_cbs_views s lf r (mk_invoke lf r p en rf e) Hf) as [Hv Ho].
  destruct (process_response_cbs s lf r _) as [s1 o1]. cbn [fst snd] in *. subst o1.
  unfold handled. cbn [fst snd].
  split; [exact Hv|]. rewrite inv_app, !inv_invokes. reflexivity.
Qed.

Lemma fl_handle_handled s p en rf lf d :
  found s lf ->
  handled s p en rf lf (fires (fun pl => fn_registered (rf_type rf) (pl_fn pl)) d) (fl_handle s p en rf lf d).
Proof.
  intros Hf. unfold fl_handle. destruct (d_body d) as [e|c pl] eqn:Hb.
  - pose proof (process_result_handled s p en rf lf d e Hf Hb) as H. unfold fires in *. rewrite Hb in *. exact H.
  - unfold fires. rewrite Hb.
    assert (Hnone : forall (h : hres), vsame s (fst (fst h)) -> inv (snd (fst h)) = [] -> handled s p en rf lf None h).
    { intros h H1 H2. split; assumption. }
    destruct c.
    + destruct (d_ref d); apply Hnone;
        (destruct (eqb_role _ _); [|destruct (negb _)]); cbn [fst snd]; try apply vsame_refl; reflexivity.
    + destruct (fn_registered (rf_type rf) (pl_fn pl)); cbn [negb].
      2:{ destruct (d_ref d); apply Hnone; cbn [fst snd]; try apply vsame_refl; reflexivity. }
      destruct (d_ref d) as [r|]; [|apply Hnone; [apply vsame_refl | reflexivity]].
      destruct (response_cbs_views s lf r (mk_invoke lf r p en rf (pl_val pl)) Hf) as [Hv Ho].
      destruct (process_response_cbs s lf r _) as [s1 o1]. cbn [fst snd] in *. subst o1.
      unfold handled. cbn [fst snd].
      split; [exact Hv|]. rewrite inv_invokes, app_nil_r. reflexivity.
    + destruct (d_ref d); apply Hnone; destruct (negb _); cbn [fst snd]; try apply vsame_refl; reflexivity.
    + destruct (d_ref d); apply Hnone; unfold process_write; destruct (negb _); cbn [fst snd];
        try apply vsame_refl; try reflexivity;
        try (apply views_upd_neutral; intros x; split; reflexivity);
        destruct (d_ack d); reflexivity.
    + destruct (d_ref d); apply Hnone; cbn [fst snd]; try apply vsame_refl; reflexivity.
Qed.

(* ---- node management ---- *)
Lemma reg_result_lfeats (r : st * bool) s :
  lfeats (fst r) = lfeats s -> lfeats (fst (fst (reg_result r))) = lfeats s /\ inv (snd (fst (reg_result r))) = [].
Proof. destruct r as [s1 e]. cbn. auto. Qed.

Lemma nm_dispatch_quiet s pe lf d c pl :
  lfeats (fst (fst (nm_dispatch s pe lf d c pl))) = lfeats s /\ inv (snd (fst (nm_dispatch s pe lf d c pl))) = [].
Proof.
  unfold nm_dispatch, err_general.
  destruct pl; destruct c; try (split; reflexivity); apply reg_result_lfeats.
  - apply lfeats_discovery_reply.
  - apply lfeats_discovery_notify.
  - unfold add_subscription. repeat match goal with |- context [match ?x with _ => _ end] => destruct x end; reflexivity.
  - unfold remove_subscription. repeat match goal with |- context [match ?x with _ => _ end] => destruct x end; reflexivity.
  - unfold add_binding. repeat match goal with |- context [match ?x with _ => _ end] => destruct x end; reflexivity.
  - unfold remove_binding. repeat match goal with |- context [match ?x with _ => _ end] => destruct x end; reflexivity.
Qed.

Lemma nm_handle_handled s pe en rf lf d :
  found s lf -> find_peer s (p_ski pe) = Some pe ->
  handled s (p_ski pe) en rf lf (fires (fun pl => nm_noerr s pe CReply pl) d) (nm_handle true s pe en rf lf d).
Proof.
  intros Hf Hp. unfold nm_handle. destruct (d_body d) as [e|c pl] eqn:Hb.
  - pose proof (process_result_handled s (p_ski pe) en rf lf d e Hf Hb) as H. unfold fires in *. rewrite Hb in *. exact H.
  - unfold fires. rewrite Hb.
    destruct (nm_dispatch_quiet s pe lf d c pl) as [Hl Hi].
    destruct (nm_dispatch_spec s pe lf d c pl Hp) as [_ He].
    destruct (nm_dispatch s pe lf d c pl) as [[s1 out] err]. cbn [fst snd] in *.
    unfold nm_reply_callbacks.
    assert (Hsame : handled s (p_ski pe) en rf lf None (s1, out, err)).
    { split; [apply vsame_lfeats; exact Hl | exact Hi]. }
    destruct (d_ref d) as [r|].
    2:{ destruct err; [exact Hsame|]. destruct c; exact Hsame. }
    destruct c; try (destruct err; exact Hsame).
    destruct (nm_noerr s pe CReply pl); subst err; [|exact Hsame].
    assert (Hf1 : found s1 lf) by (unfold found; rewrite Hl; exact Hf).
    destruct (response_cbs_views s1 lf r (mk_invoke lf r (p_ski pe) en rf (pl_val pl)) Hf1) as [Hv Ho].
    destruct (process_response_cbs s1 lf r _) as [s2 o2]. cbn [fst snd] in *. subst o2.
    unfold handled. cbn [fst snd]. split; [eapply vfired_lfeats; eauto|].
    rewrite inv_app, Hi, inv_invokes, app_nil_r. reflexivity.
Qed.

(* ---- ProcessCmd ---- *)
Lemma found_local s a lf : local_feature s a = Some lf -> found s lf.
Proof.
  unfold local_feature, found. destruct (existsb _ (lents s)); [|discriminate].
  unfold find_lfeat. destruct (fa_feat a) as [f|]; [|discriminate]. intros H.
  pose proof (find_some _ _ H) as [_ Hk]. unfold is_feat in Hk. apply andb_true_iff in Hk. destruct Hk as [H1 H2].
  apply eqb_eaddr_eq in H1. apply N.eqb_eq in H2. rewrite H1, H2. exact H.
Qed.

Lemma accepted_reply s pe en rf lf pl :
  accepted s pe en rf lf CReply pl =
    if is_nm lf then nm_noerr s pe CReply pl else fn_registered (rf_type rf) (pl_fn pl).
Proof. unfold accepted, nm_noerr. destruct (is_nm lf); [destruct pl|]; reflexivity. Qed.

Lemma inv_result p d dev e : inv [send_result p d dev e] = [].
Proof. reflexivity. Qed.

Lemma process_cmd_handled s pe en rf lf d :
  find_peer s (p_ski pe) = Some pe ->
  remote_feature pe (d_src d) = Some (en, rf) -> local_feature s (d_dst d) = Some lf ->
  handled s (p_ski pe) en rf lf (delivers s pe en rf lf d) (process_cmd repaired s pe d, None).
Proof.
  intros Hp Hsrc Hl. pose proof (found_local _ _ _ Hl) as Hf.
  unfold process_cmd. rewrite Hsrc, Hl.
  assert (Hd : delivers s pe en rf lf d =
               fires (fun pl => if is_nm lf then nm_noerr s pe CReply pl else fn_registered (rf_type rf) (pl_fn pl)) d).
  { unfold delivers, fires. destruct (d_ref d); [|reflexivity]. destruct (d_body d) as [e|c pl]; [reflexivity|].
    destruct c; try reflexivity; rewrite accepted_reply; reflexivity. }
  rewrite Hd. clear Hd.
  set (gate := match d_body d with BCmd CWrite pl => write_gate s lf (rf_addr en rf) (pl_fn pl) | _ => true end).
  destruct gate eqn:Hg; cbn [negb].
  2:{ assert (Hw : exists pl, d_body d = BCmd CWrite pl).
      { unfold gate in Hg. destruct (d_body d) as [e|c pl]; [discriminate|]. destruct c; try discriminate. exists pl. reflexivity. }
      destruct Hw as [pl Hb]. unfold fires. rewrite Hb. destruct (d_ref d); (split; [apply vsame_refl | reflexivity]). }
  assert (Hfin : forall (fr : option (N * N * bool)) (h : hres),
            handled s (p_ski pe) en rf lf fr h ->
            handled s (p_ski pe) en rf lf fr
              (let '(s1, out, err) := h in
               match err with
               | Some e => (s1, out ++ (if is_result_body (d_body d) then [] else [send_result (p_ski pe) d local_dev e]))
               | None => (s1, out ++ (if d_ack d && ack_body (d_body d) then [send_result (p_ski pe) d local_dev 0] else []))
               end, None)).
  { intros fr [[s1 out] err] H. unfold handled in *. cbn [fst snd] in *.
    assert (E : forall x, inv (out ++ x) = inv out ++ inv x) by (intros; apply inv_app).
    destruct err as [e|].
    - destruct (is_result_body (d_body d)); destruct fr as [[[r data] res]|]; destruct H as [H1 H2];
        cbn [fst snd]; (split; [exact H1|]); rewrite E, H2; cbn; rewrite ?app_nil_r; reflexivity.
    - destruct (d_ack d && ack_body (d_body d)); destruct fr as [[[r data] res]|]; destruct H as [H1 H2];
        cbn [fst snd]; (split; [exact H1|]); rewrite E, H2; cbn; rewrite ?app_nil_r; reflexivity. }
  cbn [repaired v_nm_reply_cbs].
  destruct (is_nm lf) eqn:Hn; apply Hfin.
  - apply nm_handle_handled; assumption.
  - apply fl_handle_handled; assumption.
Qed.

(* ------------------------------------------------------------------ the invariant linking the two registries *)
Definition Inv (m : mst) (s : st) : Prop :=
  w m = s /\
  (forall e f c, cbs_of (pending m) e f c = view_r s e f c) /\
  (forall e f, rcbs_of (resultcbs m) e f = view_q s e f).

Lemma eqb_obs_invoke_refl o : is_invoke o = true -> eqb_obs_invoke o o = true.
Proof.
  destruct o; try discriminate. intros _. cbn. rewrite !N.eqb_refl, !eqb_eaddr_refl. reflexivity.
Qed.

Lemma same_multiset_refl l : forallb is_invoke l = true -> same_multiset eqb_obs_invoke l l = true.
Proof.
  induction l as [|x l IH]; [reflexivity|]. cbn [forallb]. intros H. apply andb_true_iff in H. destruct H as [H1 H2].
  cbn [same_multiset remove_first]. rewrite (eqb_obs_invoke_refl x H1). apply IH. exact H2.
Qed.

Lemma forallb_inv out : forallb is_invoke (inv out) = true.
Proof.
  induction out as [|o out IH]; [reflexivity|]. unfold inv. cbn [filter]. destruct (is_invoke o) eqn:E; [|exact IH].
  cbn [forallb]. rewrite E. exact IH.
Qed.

Lemma inv_nil_no_invokes out : inv out = [] -> existsb is_invoke out = false.
Proof.
  induction out as [|o out IH]; [reflexivity|]. unfold inv. cbn [filter existsb].
  destruct (is_invoke o); [discriminate|]. exact IH.
Qed.

Lemma on_key_of e f c e0 f0 r g : on_key e f c g = true ->
  on_key e0 f0 r g = (eqb_eaddr e e0 && N.eqb f f0 && N.eqb c r).
Proof.
  unfold on_key. intros H. apply andb_true_iff in H. destruct H as [H H3]. apply andb_true_iff in H. destruct H as [H1 H2].
  apply eqb_eaddr_eq in H1. apply N.eqb_eq in H2. apply N.eqb_eq in H3. subst. reflexivity.
Qed.

Lemma cbs_of_used_up l e0 f0 r e f c :
  cbs_of (filter (fun g => negb (on_key e0 f0 r g)) l) e f c =
    if eqb_eaddr e0 e && N.eqb f0 f && N.eqb c r then [] else cbs_of l e f c.
Proof.
  unfold cbs_of. induction l as [|g l IH]; [destruct (_ && _); reflexivity|].
  cbn [filter]. destruct (on_key e0 f0 r g) eqn:E0; cbn [negb].
  - rewrite IH. destruct (on_key e f c g) eqn:E; [|reflexivity].
    rewrite (on_key_of _ _ _ e f c g E0) in E.
    assert (X : eqb_eaddr e0 e && N.eqb f0 f && N.eqb c r = true).
    { apply andb_true_iff in E. destruct E as [E E3]. rewrite E. rewrite N.eqb_sym. exact E3. }
    rewrite X. reflexivity.
  - cbn [filter]. destruct (on_key e f c g) eqn:E; cbn [map]; rewrite IH; [|reflexivity].
    rewrite (on_key_of _ _ _ e0 f0 r g E) in E0.
    assert (X : eqb_eaddr e0 e && N.eqb f0 f && N.eqb c r = false).
    { rewrite eqb_eaddr_sym, (N.eqb_sym f0 f). exact E0. }
    rewrite X. reflexivity.
Qed.

Lemma find_lfeat_find s e f : find_lfeat s e (Some f) = find (is_feat e f) (lfeats s).
Proof. reflexivity. Qed.

Lemma views_app_fresh (l : list lfeat) x :
  lf_rcb x = [] -> lf_resultcb x = [] ->
  (forall e f c, match find (is_feat e f) (l ++ [x]) with Some lf => lookup c (lf_rcb lf) | None => [] end =
                 match find (is_feat e f) l with Some lf => lookup c (lf_rcb lf) | None => [] end) /\
  (forall e f, match find (is_feat e f) (l ++ [x]) with Some lf => lf_resultcb lf | None => [] end =
               match find (is_feat e f) l with Some lf => lf_resultcb lf | None => [] end).
Proof.
  intros H1 H2. split; intros e f; [intros c|]; induction l as [|y l IH]; cbn [app find].
  - destruct (is_feat e f x); [rewrite H1|]; reflexivity.
  - destruct (is_feat e f y); [reflexivity | exact IH].
  - destruct (is_feat e f x); [rewrite H2|]; reflexivity.
  - destruct (is_feat e f y); [reflexivity | exact IH].
Qed.

Lemma Inv_vsame m s s' o pend res :
  Inv m s -> vsame s s' -> pend = pending m -> res = resultcbs m -> fst (step s o) = s' ->
  Inv (advance m o pend res) s'.
Proof.
  intros [Hw [H1 H2]] [V1 V2] -> -> Hs. unfold advance. split; [cbn [w]; rewrite Hw; exact Hs|]. cbn [pending resultcbs]. split.
  - intros e f c. rewrite H1, V1. reflexivity.
  - intros e f. rewrite H2, V2. reflexivity.
Qed.

Lemma no_invoke_retn l : existsb is_invoke (map ORetN l) = false.
Proof. induction l as [|x l IH]; [reflexivity | exact IH]. Qed.

Definition step_ok (m : mst) (s : st) (o : op) : Prop :=
  snd (mon m o (snd (step s o))) = [] /\ Inv (fst (mon m o (snd (step s o)))) (fst (step s o)).

Definition plain (o : op) : bool :=
  match o with Inbound _ _ | AddRespCb _ _ _ _ | AddResultCb _ _ _ => false | _ => true end.

Lemma plain_facts s o : plain o = true -> vsame s (fst (step s o)) /\ existsb is_invoke (snd (step s o)) = false.
Proof.
  destruct o; try discriminate; intros _; unfold step; cbn [step_v].
  - destruct (existsb _ (lents s)); cbn [fst snd]; (split; [|reflexivity]); apply vsame_lfeats; reflexivity.
  - destruct (find _ (lents s)); cbn [fst snd]; (split; [|reflexivity]); [|apply vsame_refl].
    destruct (existsb _ (lfeats s)); [apply vsame_lfeats; reflexivity|].
    unfold vsame, view_r, view_q. cbn [lfeats]. apply views_app_fresh; reflexivity.
  - cbn [fst snd]. split; [|reflexivity].
    apply views_upd_neutral; intros x; (destruct (eqb_role _ _); [split; reflexivity|]); destruct (assoc_N _ _); split; reflexivity.
  - destruct (find_lfeat s e (Some f)); [destruct (fn_registered _ _)|]; cbn [fst snd]; (split; [|reflexivity]); try apply vsame_refl.
    apply views_upd_neutral; intros x; split; reflexivity.
  - destruct (find_lfeat s e (Some f)); cbn [fst snd]; (split; [|reflexivity]); apply vsame_refl.
  - cbn [fst snd]. split; [|reflexivity]. apply vsame_lfeats. unfold disconnect. destruct (find_peer s p); reflexivity.
  - cbn [fst snd]. split; [|reflexivity]. apply vsame_lfeats. unfold disconnect. destruct (find_peer s p); reflexivity.
  - cbn [fst snd]. split; [apply vsame_refl|].
    rewrite existsb_app, no_invoke_retn. destruct (N.eqb t T_GENERIC); reflexivity.
Qed.

Lemma plain_ok m s o : Inv m s -> plain o = true -> step_ok m s o.
Proof.
  intros HI Hpl. destruct (plain_facts s o Hpl) as [Hv Hno]. unfold step_ok.
  assert (Hm : mon m o (snd (step s o)) = (advance m o (pending m) (resultcbs m), no_invokes (snd (step s o)))).
  { destruct o; try discriminate Hpl; reflexivity. }
  rewrite Hm. cbn [fst snd]. unfold no_invokes. rewrite Hno. split; [reflexivity|].
  eapply Inv_vsame; eauto.
Qed.

Lemma inbound_ok m s p d : Inv m s -> step_ok m s (Inbound p d).
Proof.
  intros HI. pose proof HI as [Hw [H1 H2]]. unfold step_ok, mon.
rewrite Hw. unfold step. cbn [step_v].
destruct (find_peer s p) as [pe|] eqn:Hp.
2:{ cbn [fst snd]. split; [reflexivity|]. eapply Inv_vsame; eauto; [apply vsame_refl|]. unfold step. cbn [step_v]. rewrite Hp. reflexivity. }
pose proof (find_peer_ski _ _ _ Hp) as Hk. subst p.
assert (Hnone : forall out s', process_cmd repaired s pe d = (s', out) -> vsame s s' -> inv out = [] ->
          snd (advance m (Inbound (p_ski pe) d) (pending m) (resultcbs m), check (negb (existsb is_invoke out)) CL_INVOKE) = [] /\
          Inv (fst (advance m (Inbound (p_ski pe) d) (pending m) (resultcbs m), check (negb (existsb is_invoke out)) CL_INVOKE)) s').
{ intros out s' Hs Hv Hno. cbn [fst snd]. rewrite (inv_nil_no_invokes _ Hno). split; [reflexivity|].
  eapply Inv_vsame; eauto. unfold step. cbn [step_v]. rewrite Hp, Hs. reflexivity. }
destruct (remote_feature pe (d_src d)) as [[en rf]|] eqn:Hsrc.
2:{ destruct (process_cmd repaired s pe d) as [s' out] eqn:Hs. cbn [fst snd]. apply (Hnone out s' eq_refl);
      unfold process_cmd in Hs; rewrite Hsrc in Hs; injection Hs as <- <-; [apply vsame_refl | reflexivity]. }
destruct (local_feature s (d_dst d)) as [lf|] eqn:Hl.
2:{ destruct (process_cmd repaired s pe d) as [s' out] eqn:Hs. cbn [fst snd]. apply (Hnone out s' eq_refl);
      unfold process_cmd in Hs; rewrite Hsrc, Hl in Hs; destruct (_ && _); injection Hs as <- <-;
      try apply vsame_refl; reflexivity. }
pose proof (process_cmd_handled s pe en rf lf d Hp Hsrc Hl) as Hh.
pose proof (found_local _ _ _ Hl) as Hf.
destruct (process_cmd repaired s pe d) as [s' out] eqn:Hs. cbn [fst snd] in *.
destruct (delivers s pe en rf lf d) as [[[r data] res]|] eqn:Hd; unfold handled in Hh; cbn [fst snd] in Hh.
2:{ destruct Hh as [Hv Hi]. apply (Hnone out s' eq_refl Hv Hi). }
destruct Hh as [[V1 V2] Hi]. cbn [fst snd]. split.
+ fold (inv out). rewrite Hi. unfold expected_invokes. rewrite H1, H2. unfold view_r, view_q.
  unfold found in Hf. rewrite Hf.
  change (fun cb : N => OInvoke cb (lf_ent lf) (lf_id lf) r (p_ski pe) (re_addr en) (rf_id rf) data)
    with (mk_invoke lf r (p_ski pe) en rf data).
  rewrite same_multiset_refl; [reflexivity|]. rewrite <- Hi. apply forallb_inv.
+ unfold advance. split; [cbn [w]; rewrite Hw; unfold step; cbn [step_v]; rewrite Hp, Hs; reflexivity|].
  cbn [pending resultcbs]. split.
  * intros e f c. rewrite cbs_of_used_up, V1, H1. unfold is_key. reflexivity.
  * intros e f. rewrite H2, V2. reflexivity.
Qed.

Lemma addresp_ok m s e f ctr cb : Inv m s -> step_ok m s (AddRespCb e f ctr cb).
Proof.
  intros HI. pose proof HI as [Hw [H1 H2]]. unfold step_ok, mon.
rewrite Hw. rewrite find_lfeat_find. unfold step. cbn [step_v]. rewrite find_lfeat_find.
destruct (find (is_feat e f) (lfeats s)) as [lf|] eqn:Hf.
2:{ cbn [fst snd]. split; [reflexivity|]. eapply Inv_vsame; eauto; [apply vsame_refl|].
    unfold step. cbn [step_v]. rewrite find_lfeat_find, Hf. reflexivity. }
assert (Hc : cbs_of (pending m) e f ctr = match assoc_N ctr (lf_rcb lf) with Some l => l | None => [] end).
{ rewrite H1. unfold view_r. rewrite Hf. reflexivity. }
rewrite Hc. set (cbs := match assoc_N ctr (lf_rcb lf) with Some l => l | None => [] end) in *.
destruct (memN cb cbs) eqn:Hdup; cbn [fst snd negb].
+ split; [reflexivity|]. eapply Inv_vsame; eauto; [apply vsame_refl|].
  unfold step. cbn [step_v]. rewrite find_lfeat_find, Hf. fold cbs. rewrite Hdup. reflexivity.
+ split; [reflexivity|]. unfold advance. split.
  { cbn [w]. rewrite Hw. unfold step. cbn [step_v]. rewrite find_lfeat_find, Hf. fold cbs. rewrite Hdup. reflexivity. }
  cbn [pending resultcbs]. split.
  * intros e' f' c'. unfold cbs_of. rewrite filter_app, map_app. fold (cbs_of (pending m) e' f' c'). rewrite H1.
    rewrite view_r_upd by (intros x; split; reflexivity). rewrite Hf. cbn [set_rcb lf_rcb filter].
    change (on_key e' f' c' {| g_ent := e; g_feat := f; g_ctr := ctr; g_cb := cb |})
      with (eqb_eaddr e e' && N.eqb f f' && N.eqb ctr c').
    destruct (eqb_eaddr e e' && N.eqb f f') eqn:E; cbn [andb].
    -- destruct (key_cases _ _ _ _ E) as [-> ->]. unfold view_r. rewrite Hf. unfold lookup at 2. cbn [assoc_N].
       rewrite (N.eqb_sym c' ctr). destruct (N.eqb ctr c') eqn:Ec; cbn [map g_cb].
       ++ apply N.eqb_eq in Ec. subst c'. unfold lookup. fold cbs. reflexivity.
       ++ rewrite app_nil_r. unfold lookup. rewrite assoc_remove_other by (rewrite N.eqb_sym; exact Ec). reflexivity.
    -- cbn [map]. apply app_nil_r.
  * intros e' f'. rewrite H2. rewrite view_q_upd by (intros x; split; reflexivity).
    destruct (eqb_eaddr e e' && N.eqb f f') eqn:E; [|reflexivity].
    destruct (key_cases _ _ _ _ E) as [-> ->]. unfold view_q. rewrite Hf. reflexivity.
Qed.

Lemma addresult_ok m s e f cb : Inv m s -> step_ok m s (AddResultCb e f cb).
Proof.
  intros HI. pose proof HI as [Hw [H1 H2]]. unfold step_ok, mon.
rewrite Hw. rewrite find_lfeat_find. unfold step. cbn [step_v]. rewrite find_lfeat_find.
destruct (find (is_feat e f) (lfeats s)) as [lf|] eqn:Hf.
2:{ cbn [fst snd]. split; [reflexivity|]. eapply Inv_vsame; eauto; [apply vsame_refl|].
    unfold step. cbn [step_v]. rewrite find_lfeat_find, Hf. reflexivity. }
cbn [fst snd]. split; [reflexivity|]. unfold advance. split.
{ cbn [w]. rewrite Hw. unfold step. cbn [step_v]. rewrite find_lfeat_find, Hf. reflexivity. }
cbn [pending resultcbs]. split.
+ intros e' f' c'. rewrite H1. rewrite view_r_upd by (intros x; split; reflexivity).
  destruct (eqb_eaddr e e' && N.eqb f f') eqn:E; [|reflexivity].
  destruct (key_cases _ _ _ _ E) as [-> ->]. unfold view_r. rewrite Hf. reflexivity.
+ intros e' f'. unfold rcbs_of. rewrite filter_app, map_app. fold (rcbs_of (resultcbs m) e' f'). rewrite H2.
  rewrite view_q_upd by (intros x; split; reflexivity). rewrite Hf. cbn [set_resultcb lf_resultcb filter].
  change (on_feat e' f' {| q_ent := e; q_feat := f; q_cb := cb |}) with (eqb_eaddr e e' && N.eqb f f').
  destruct (eqb_eaddr e e' && N.eqb f f') eqn:E.
  * destruct (key_cases _ _ _ _ E) as [-> ->]. unfold view_q. rewrite Hf. reflexivity.
  * cbn [map]. apply app_nil_r.
Qed.

Lemma mon_step_ok m s o :
  Inv m s ->
  snd (mon m o (snd (step s o))) = [] /\ Inv (fst (mon m o (snd (step s o)))) (fst (step s o)).
Proof.
  intros HI. destruct o; try (apply plain_ok; [exact HI | reflexivity]).
  - apply inbound_ok; exact HI.
  - apply addresp_ok; exact HI.
  - apply addresult_ok; exact HI.
Qed.

(* ------------------------------------------------------------------ whole histories *)
Lemma Inv_init : Inv minit init.
Proof.
  split; [reflexivity|]. split.
  - intros e f c. unfold view_r. cbn [minit pending cbs_of filter map init lfeats find].
    destruct (is_feat e f nodemgmt_feat); [reflexivity|]. destruct (is_feat e f devclass_feat); reflexivity.
  - intros e f. unfold view_q. cbn [minit resultcbs rcbs_of filter map init lfeats find].
    destruct (is_feat e f nodemgmt_feat); [reflexivity|]. destruct (is_feat e f devclass_feat); reflexivity.
Qed.

Lemma run_accepted_from ops : forall m s, Inv m s -> accepted_trace (judge m (snd (run s ops))) = true.
Proof.
  induction ops as [|o r IH]; intros m s HI; [reflexivity|].
  unfold run. cbn [run_with]. fold (run (fst (step s o)) r).
  destruct (mon_step_ok m s o HI) as [Hv HI1].
  destruct (step s o) as [s1 out] eqn:Hs. cbn [fst snd] in *.
  specialize (IH _ _ HI1). unfold run in IH.
  destruct (run_with step s1 r) as [s2 tr]. cbn [snd judge] in *.
  destruct (mon m o out) as [m1 v]. cbn [fst snd] in *. subst v.
  cbn [accepted_trace forallb]. exact IH.
Qed.

Lemma run_accepted ops : accepted_trace (judge minit (snd (run init ops))) = true.
Proof. apply run_accepted_from. apply Inv_init. Qed.

(* registering the same callback twice for one counter is refused and changes nothing *)
Lemma memN_app_last x l : memN x (l ++ [x]) = true.
Proof. unfold memN. rewrite existsb_app. cbn. rewrite N.eqb_refl, orb_true_r. reflexivity. Qed.

Lemma duplicate_refused s e f c cb lf :
  find_lfeat s e (Some f) = Some lf ->
  let s1 := fst (step s (AddRespCb e f c cb)) in
  step s1 (AddRespCb e f c cb) = (s1, [ORetB false]).
Proof.
  intros Hf. cbn zeta. unfold step. cbn [step_v]. rewrite Hf.
  set (cbs := match assoc_N c (lf_rcb lf) with Some l => l | None => [] end).
  destruct (memN cb cbs) eqn:Hdup; cbn [fst].
  - rewrite Hf. fold cbs. rewrite Hdup. reflexivity.
  - rewrite find_lfeat_find in *. unfold upd_lfeat, set_lfeats. cbn [lfeats].
    rewrite find_upd_first_same by (intros x; split; reflexivity).
    rewrite Hf. cbn [option_map set_rcb lf_rcb assoc_N]. rewrite N.eqb_refl.
    rewrite memN_app_last. reflexivity.
Qed.

(* after a delivery nothing is pending for that feature and reference: a repeated reply or
   result with the same reference invokes no response callback *)
Lemma used_up s pe en rf lf d r data res :
  find_peer s (p_ski pe) = Some pe ->
  remote_feature pe (d_src d) = Some (en, rf) -> local_feature s (d_dst d) = Some lf ->
  delivers s pe en rf lf d = Some (r, data, res) ->
  view_r (fst (step s (Inbound (p_ski pe) d))) (lf_ent lf) (lf_id lf) r = [].
Proof.
  intros Hp Hsrc Hl Hd. pose proof (process_cmd_handled s pe en rf lf d Hp Hsrc Hl) as Hh.
  rewrite Hd in Hh. unfold handled in Hh. cbn [fst snd] in Hh. destruct Hh as [[V1 _] _].
  unfold step. cbn [step_v]. rewrite Hp. rewrite V1. unfold is_key. rewrite eqb_eaddr_refl, !N.eqb_refl. reflexivity.
Qed.
