(* Basic facts about Model/Stack.v shared by the proofs of C03, C08, C09, C10. *)
From Verif Require Import Base.Prelude Model.Stack.

Lemma eqb_eaddr_eq a b : eqb_eaddr a b = true <-> a = b.
Proof.
  revert b. induction a as [|x a IH]; destruct b as [|y b]; simpl; try (split; [discriminate|discriminate]); [tauto|].
  rewrite andb_true_iff, N.eqb_eq, IH. split; [intros [-> ->]; reflexivity | intros H; inversion H; auto].
Qed.

Lemma eqb_eaddr_refl a : eqb_eaddr a a = true.
Proof. apply eqb_eaddr_eq. reflexivity. Qed.

Lemma eqb_optN_eq a b : eqb_optN a b = true <-> a = b.
Proof.
  destruct a, b; simpl; try (split; [discriminate|discriminate]); [|tauto].
  rewrite N.eqb_eq. split; [intros ->; reflexivity | intros H; inversion H; auto].
Qed.

Lemma eqb_optN_refl a : eqb_optN a a = true.
Proof. apply eqb_optN_eq. reflexivity. Qed.

Lemma eqb_faddr_eq a b : eqb_faddr a b = true <-> a = b.
Proof.
  unfold eqb_faddr. rewrite !andb_true_iff, !eqb_optN_eq, eqb_eaddr_eq.
  destruct a, b; simpl. split; [intros [[-> ->] ->]; reflexivity | intros H; inversion H; auto].
Qed.

Lemma eqb_faddr_refl a : eqb_faddr a a = true.
Proof. apply eqb_faddr_eq. reflexivity. Qed.

Lemma eqb_role_refl r : eqb_role r r = true.
Proof. destruct r; reflexivity. Qed.

Lemma filter_length_le {A} (P : A -> bool) l : (length (filter P l) <= length l)%nat.
Proof. induction l as [|x l IH]; simpl; [lia|]. destruct (P x); simpl; lia. Qed.

(* a retain-filter keeps everything iff nothing matches *)
Lemma filter_keeps_all {A} (P : A -> bool) l :
  Nat.eqb (length (filter (fun x => negb (P x)) l)) (length l) = negb (existsb P l).
Proof.
  induction l as [|x l IH]; simpl; [reflexivity|].
  destruct (P x); simpl.
  - pose proof (filter_length_le (fun x => negb (P x)) l).
    destruct (Nat.eqb_spec (length (filter (fun x0 => negb (P x0)) l)) (S (length l))); [lia | reflexivity].
  - exact IH.
Qed.

Lemma find_peer_ski s p pe : find_peer s p = Some pe -> p_ski pe = p.
Proof. unfold find_peer. intros H. apply find_some in H. destruct H as [_ H]. apply N.eqb_eq in H. exact H. Qed.

Lemma find_rent_addr pe e en : find_rent pe e = Some en -> re_addr en = e.
Proof. unfold find_rent. intros H. apply find_some in H. destruct H as [_ H]. apply eqb_eaddr_eq in H. exact H. Qed.

Lemma remote_feature_rent pe a en rf : remote_feature pe a = Some (en, rf) -> find_rent pe (fa_ent a) = Some en.
Proof.
  unfold remote_feature. destruct (find_rent pe (fa_ent a)) as [en'|]; [|discriminate].
  destruct (fa_feat a); [|discriminate].
  destruct (find _ _); [|discriminate]. intros H. inversion H. reflexivity.
Qed.

(* ---------- peers ---------- *)
Lemma find_peer_set_peer s pe q :
  find_peer (set_peer s pe) q =
  match find_peer s q with
  | Some x => if N.eqb q (p_ski pe) then Some pe else Some x
  | None => None
  end.
Proof.
  unfold find_peer, set_peer. simpl. induction (peers s) as [|x l IH]; simpl; [reflexivity|].
  destruct (N.eqb_spec (p_ski x) (p_ski pe)) as [E|E].
  - destruct (N.eqb_spec (p_ski pe) q) as [E2|E2].
    + assert (E3 : (p_ski x =? q)%N = true) by (apply N.eqb_eq; congruence).
      assert (E4 : (q =? p_ski pe)%N = true) by (apply N.eqb_eq; congruence).
      rewrite E3, E4. reflexivity.
    + assert (E3 : (p_ski x =? q)%N = false) by (apply N.eqb_neq; congruence).
      rewrite E3. exact IH.
  - destruct (N.eqb_spec (p_ski x) q) as [E2|E2]; [|exact IH].
    assert (E4 : (q =? p_ski pe)%N = false) by (apply N.eqb_neq; congruence).
    rewrite E4. reflexivity.
Qed.

Lemma add_entities_ski pe m l : p_ski (fst (add_entities pe m l)) = p_ski pe.
Proof.
  revert pe. induction l as [|de r IH]; intros pe; simpl; [reflexivity|].
  destruct (find_rent pe (de_addr de)) as [en|];
    match goal with |- context [add_entities ?pe1 m r] => specialize (IH pe1); destruct (add_entities pe1 m r) as [pe2 cr] end;
    simpl in *; exact IH.
Qed.

Lemma add_entities_addr pe m l : p_addr (fst (add_entities pe m l)) = p_addr pe.
Proof.
  revert pe. induction l as [|de r IH]; intros pe; simpl; [reflexivity|].
  destruct (find_rent pe (de_addr de)) as [en|];
    match goal with |- context [add_entities ?pe1 m r] => specialize (IH pe1); destruct (add_entities pe1 m r) as [pe2 cr] end;
    simpl in *; exact IH.
Qed.

Definition has_rent (pe : peer) (e : eaddr) : bool := existsb (fun x => eqb_eaddr (re_addr x) e) (p_ents pe).

Lemma has_rent_find pe e : has_rent pe e = true <-> exists en, find_rent pe e = Some en.
Proof.
  unfold has_rent, find_rent. induction (p_ents pe) as [|x l IH]; simpl.
  - split; [discriminate | intros [en H]; discriminate].
  - destruct (eqb_eaddr (re_addr x) e); simpl; [split; [eauto | reflexivity] | exact IH].
Qed.

Lemma add_entities_keeps pe m l e : has_rent pe e = true -> has_rent (fst (add_entities pe m l)) e = true.
Proof.
  revert pe. induction l as [|de r IH]; intros pe H; simpl; [exact H|].
  destruct (find_rent pe (de_addr de)) as [en|] eqn:Ef;
    match goal with |- context [add_entities ?pe1 m r] =>
      assert (H1 : has_rent pe1 e = true); [| specialize (IH pe1 H1); destruct (add_entities pe1 m r) as [pe2 cr]; exact IH] end.
  - unfold has_rent in *. simpl. rewrite existsb_exists in *. destruct H as [x [Hx Hm]].
    destruct (eqb_eaddr (re_addr x) (de_addr de)) eqn:Ed.
    + eexists. split; [apply in_map_iff; exists x; split; [reflexivity | exact Hx]|].
      rewrite Ed. simpl. apply find_rent_addr in Ef. rewrite Ef. apply eqb_eaddr_eq in Ed. rewrite <- Ed. exact Hm.
    + exists x. split; [|exact Hm]. apply in_map_iff. exists x. rewrite Ed. auto.
  - unfold has_rent in *. simpl. rewrite existsb_app, H. reflexivity.
Qed.
