(* C12 — explicit corollaries of the trace theorem: the number of outcomes of a write, the
   silence after the removal of a connection, settling by the timeout.  The first part is about
   the MONITOR alone (any accepted trace, in particular the implementation's), the second about
   the repaired model. *)
From Verif Require Import Base.Prelude Model.Approval Spec.ApprovalSpec Proofs.ApprovalLists Proofs.ApprovalProofs.

(* ------------------------------------------------------------------ outcomes in a trace *)

Definition is_outcome (w : wid) (o : obs) : bool :=
  match o with
  | Applied p c => weqb (p, c) w                              (* applied (the success result belongs to it) *)
  | Result p c e => weqb (p, c) w && negb (N.eqb e 0)          (* an error result *)
  | _ => false
  end.

Definition count_out (w : wid) (out : list obs) : nat := length (filter (is_outcome w) out).

Definition outcomes (w : wid) (tr : list (op * list obs)) : nat := count_out w (flat_map snd tr).

Definition last_app (out : list obs) (acc : option wid) : option wid :=
  fold_left (fun acc o => match o with Applied p c => Some (p, c) | _ => acc end) out acc.

Definition last_applied (tr : list (op * list obs)) : option wid := last_app (flat_map snd tr) None.

Definition b2n (b : bool) : nat := if b then 1%nat else 0%nat.

Lemma count_out_app w a b : count_out w (a ++ b) = (count_out w a + count_out w b)%nat.
Proof. unfold count_out. rewrite filter_app, app_length. reflexivity. Qed.

Lemma last_app_app a b acc : last_app (a ++ b) acc = last_app b (last_app a acc).
Proof. unfold last_app. apply fold_left_app. Qed.

(* ------------------------------------------------------------------ inversion of the monitor's shape tests *)

Lemma obs_eqb_eq a b : obs_eqb a b = true -> a = b.
Proof.
  destruct a, b; simpl; intros H; try discriminate; try reflexivity;
    repeat (apply andb_true_iff in H; destruct H as [H ?]);
    repeat match goal with E : N.eqb _ _ = true |- _ => apply N.eqb_eq in E end; subst; reflexivity.
Qed.

Lemma olist_eqb_eq a : forall b, olist_eqb a b = true -> a = b.
Proof.
  induction a as [|x a IH]; intros [|y b]; simpl; intros H; try discriminate; [reflexivity|].
  apply andb_true_iff in H. destruct H as [H1 H2]. apply obs_eqb_eq in H1. apply IH in H2. subst. reflexivity.
Qed.

Lemma skipped_only_nil out : skipped_only out = [] -> out = [Skipped].
Proof.
  unfold skipped_only. destruct out as [|o l]; [discriminate|]. destruct o; try discriminate.
  destruct l; [reflexivity | discriminate].
Qed.

Lemma commit_kind_inv w ack out :
  match commit_kind w ack out with
  | KNone => out = [Returned]
  | KApplied => out = ack_result ack w ++ [Applied (fst w) (snd w); Returned]
  | KDenied => out = [Result (fst w) (snd w) E_DENIED; Returned]
  | KBad => True
  end.
Proof.
  destruct w as [p c]. unfold commit_kind.
  destruct out as [|o1 l1]; [exact I|].
  destruct o1; try exact I.
  - (* Result ... *)
    destruct l1 as [|o2 l2]; [exact I|]. destruct o2; try exact I.
    + (* Result; Applied; ... *)
      destruct l2 as [|o3 l3]; [exact I|]. destruct o3; try exact I. destruct l3; [|exact I].
      destruct (weqb (p0, c0) (p, c)) eqn:E1; [|exact I]. destruct (weqb (p1, c1) (p, c)) eqn:E2; [|exact I].
      destruct (N.eqb e 0) eqn:E3; [|exact I]. destruct ack; [|exact I]. cbn [andb].
      apply weqb_eq in E1. apply weqb_eq in E2. apply N.eqb_eq in E3. inversion E1; inversion E2; subst. reflexivity.
    + (* Result; Returned *)
      destruct l2; [|exact I].
      destruct (weqb (p0, c0) (p, c)) eqn:E1; [|exact I]. destruct (N.eqb e E_DENIED) eqn:E3; [|exact I]. cbn [andb].
      apply weqb_eq in E1. apply N.eqb_eq in E3. inversion E1; subst. reflexivity.
  - (* Applied ... *)
    destruct l1 as [|o2 l2]; [exact I|]. destruct o2; try exact I. destruct l2; [|exact I].
    destruct (weqb (p0, c0) (p, c)) eqn:E1; [|exact I]. destruct ack; [exact I|]. cbn [andb negb].
    apply weqb_eq in E1. inversion E1; subst. reflexivity.
  - (* Returned *)
    destruct l1; [reflexivity | exact I].
Qed.

Lemma probe_check_quiet m out : probe_check m out = [] ->
  forall w, count_out w out = 0%nat /\ forall acc, last_app out acc = acc.
Proof.
  induction out as [|o l IH]; intros H w.
  - discriminate.
  - destruct o; try discriminate.
    + (* PendingEntry *) cbn [probe_check] in H. apply app_eq_nil in H. destruct H as [_ H].
      destruct (IH H w) as [Hc Hl]. split; [exact Hc | intros acc; apply Hl].
    + (* TallyEntry *) cbn [probe_check] in H. destruct (IH H w) as [Hc Hl]. split; [exact Hc | intros acc; apply Hl].
    + (* DataIs *) destruct l; [split; [reflexivity | intros acc; reflexivity] | discriminate].
    + (* DataNone *) destruct l; [split; [reflexivity | intros acc; reflexivity] | discriminate].
Qed.

(* ------------------------------------------------------------------ one monitor step *)

Record minv (m : mst) : Prop := {
  mi_w : forall w r, wassoc w (m_w m) = Some r -> arrived w (m_d m) = true;
  mi_call : forall v a, In (v, a) (m_call m) -> arrived (fst v) (m_d m) = true
}.

Definition mstep_ok (m m' : mst) (out : list obs) : Prop :=
  minv m' /\
  (forall w, (count_out w out + b2n (r_out (rget w m)))%nat = b2n (r_out (rget w m'))) /\
  m_data m' = last_app out (m_data m).

Lemma rget_not_arrived m w : minv m -> arrived w (m_d m) = false -> rget w m = rfresh.
Proof.
  intros M H. unfold rget. destruct (wassoc w (m_w m)) eqn:E; [|reflexivity].
  apply (mi_w _ M) in E. congruence.
Qed.

Lemma upd_ok m d w0 r' cl dt out :
  minv m -> arrived w0 d = true ->
  (forall w, arrived w (m_d m) = true -> arrived w d = true) ->
  (forall v a, In (v, a) cl -> arrived (fst v) d = true) ->
  (forall w, w <> w0 -> count_out w out = 0%nat) ->
  (count_out w0 out + b2n (r_out (rget w0 m)))%nat = b2n (r_out r') ->
  dt = last_app out (m_data m) ->
  mstep_ok m {| m_d := d; m_w := wset w0 r' (m_w m); m_call := cl; m_data := dt |} out.
Proof.
  intros M Ha Hmono Hcl Hoth Hw0 Hdt. split; [|split].
  - constructor; cbn [m_d m_w m_call].
    + intros w r Hr. destruct (wid_dec w w0) as [->|Hne]; [exact Ha|].
      rewrite wassoc_wset_other in Hr by exact Hne. apply Hmono. apply (mi_w _ M) in Hr. exact Hr.
    + exact Hcl.
  - intros w. destruct (wid_dec w w0) as [->|Hne].
    + rewrite rget_upd_same. exact Hw0.
    + rewrite (rget_upd_other m) by exact Hne. rewrite Hoth by exact Hne. reflexivity.
  - exact Hdt.
Qed.

Lemma same_ok m d cl out :
  minv m ->
  (forall w, arrived w (m_d m) = true -> arrived w d = true) ->
  (forall v a, In (v, a) cl -> arrived (fst v) d = true) ->
  (forall w, count_out w out = 0%nat) -> (forall acc, last_app out acc = acc) ->
  mstep_ok m {| m_d := d; m_w := m_w m; m_call := cl; m_data := m_data m |} out.
Proof.
  intros M Hmono Hcl Hc Hl. split; [|split].
  - constructor; cbn [m_d m_w m_call].
    + intros w r Hr. apply Hmono. apply (mi_w _ M) in Hr. exact Hr.
    + exact Hcl.
  - intros w. rewrite Hc. reflexivity.
  - cbn [m_data]. rewrite Hl. reflexivity.
Qed.

Lemma count_presented w n w0 : count_out w (presented n w0) = 0%nat.
Proof. unfold presented, count_out. induction (seq 0 n) as [|x l IH]; simpl; [reflexivity | exact IH]. Qed.

Lemma last_app_presented n w0 acc : last_app (presented n w0) acc = acc.
Proof. unfold presented, last_app. induction (seq 0 n) as [|x l IH]; simpl; [reflexivity | exact IH]. Qed.

Lemma count_ack_applied w w0 ack tail :
  count_out w (ack_result ack w0 ++ Applied (fst w0) (snd w0) :: tail) = (b2n (weqb w0 w) + count_out w tail)%nat.
Proof.
  destruct w0 as [p c]. unfold count_out. destruct ack; cbn [ack_result app filter is_outcome fst snd].
  - rewrite N.eqb_refl. cbn [negb]. rewrite andb_false_r. destruct (weqb (p, c) w); reflexivity.
  - destruct (weqb (p, c) w); reflexivity.
Qed.

Lemma last_ack_applied w0 ack acc : last_app (ack_result ack w0 ++ [Applied (fst w0) (snd w0)]) acc = Some w0.
Proof. destruct w0 as [p c]. destruct ack; reflexivity. Qed.

Lemma b2n_weqb_other w w0 : w <> w0 -> b2n (weqb w0 w) = 0%nat.
Proof. intros H. rewrite weqb_neq by congruence. reflexivity. Qed.

Ltac pe E := apply pair_equal_spec in E; let Hm := fresh "Hm" in let Hv := fresh "Hv" in destruct E as [Hm Hv].

Lemma mon_outcome m o out m' : minv m -> mon m o out = (m', []) -> mstep_ok m m' out.
Proof.
  intros M. unfold mon. destruct (d_ok (m_d m) o) eqn:Hok; cbn [negb].
  2:{ intros H. pe H. subst m'. apply skipped_only_nil in Hv. subst out.
      destruct M as [M1 M2]. split; [constructor; assumption|]. split; [intros w; reflexivity | reflexivity]. }
  destruct (mon_op m (d_next (m_d m) o) o out) as [m1 v] eqn:E. intros H. pe H. subst m1.
  apply app_eq_nil in Hv. destruct Hv as [_ Hv]. apply app_eq_nil in Hv. destruct Hv as [_ Hv]. subst v.
  set (d := d_next (m_d m) o) in *.
  assert (Hmono : forall w, arrived w (m_d m) = true -> arrived w d = true) by (intros w; apply arrived_mono).
  assert (Hcall : forall v a, In (v, a) (m_call m) -> arrived (fst v) d = true)
    by (intros v a Hin; apply Hmono; apply (mi_call _ M _ _ Hin)).
  assert (Hnil : forall w, count_out w [] = 0%nat) by reflexivity.
  destruct o; cbn [mon_op] in E.
  - (* AddCb *)
    destruct out; pe E; [|discriminate]. subst m'. unfold with_d. apply same_ok; [exact M | exact Hmono | exact Hcall | exact Hnil | reflexivity].
  - (* Arrive *)
    cbn [d_ok] in Hok. apply andb_true_iff in Hok. destruct Hok as [_ Hna]. apply negb_true_iff in Hna.
    assert (Haw : arrived (p, c) d = true) by (unfold d; rewrite arrived_next_arrive, weqb_refl; reflexivity).
    pose proof (rget_not_arrived m (p, c) M Hna) as Hfr.
    destruct (d_ncb d) eqn:En.
    + destruct (olist_eqb out (ack_result ack (p, c) ++ [Applied p c])) eqn:Eo; pe E; [|discriminate]. subst m'.
      apply olist_eqb_eq in Eo. subst out.
      change (Applied p c) with (Applied (fst (p, c)) (snd (p, c))).
      apply upd_ok; [exact M | exact Haw | exact Hmono | exact Hcall | | | ].
      * intros w Hne. rewrite count_ack_applied. rewrite b2n_weqb_other by exact Hne. reflexivity.
      * rewrite count_ack_applied, weqb_refl, Hfr. reflexivity.
      * rewrite last_ack_applied. reflexivity.
    + destruct (olist_eqb out (presented (S n) (p, c))) eqn:Eo; pe E; [|discriminate]. subst m'.
      apply olist_eqb_eq in Eo. subst out. unfold set_rec.
      apply upd_ok; [exact M | exact Haw | exact Hmono | exact Hcall | | | ].
      * intros w _. apply count_presented.
      * rewrite count_presented, Hfr. reflexivity.
      * rewrite last_app_presented. reflexivity.
  - (* Lookup *)
    cbn [d_ok] in Hok. apply andb_true_iff in Hok. destruct Hok as [Hok _]. apply andb_true_iff in Hok. destruct Hok as [Ha _].
    assert (Haw : arrived (p, c) d = true) by (apply Hmono; exact Ha).
    destruct out as [|o1 [|o2 l]]; try (pe E; discriminate).
    + destruct o1; pe E; try discriminate; subst m'.
      * (* Parked *)
        apply upd_ok; [exact M | exact Haw | exact Hmono | | | | reflexivity].
        -- intros v a Hin. apply in_app_or in Hin. destruct Hin as [Hin|[Hin|[]]]; [eauto|].
           inversion Hin; subst. exact Haw.
        -- intros w _. reflexivity.
        -- reflexivity.
      * (* Returned *)
        clear Hv. unfold with_d. apply same_ok; [exact M | exact Hmono | exact Hcall | reflexivity | reflexivity].
    + destruct o1; pe E; discriminate.
  - (* Commit *)
    destruct (vassoc (p, c, cb) (m_call m)) as [a|] eqn:Ev.
    2:{ pe E. subst m'. apply skipped_only_nil in Hv. subst out.
        destruct M as [M1 M2]. split; [constructor; assumption|]. split; [intros w; reflexivity | reflexivity]. }
    pose proof (vassoc_In_pair _ _ _ Ev) as Hin.
    assert (Haw : arrived (p, c) d = true) by (apply (Hcall _ _ Hin)).
    assert (Hcl : forall v a', In (v, a') (vremove (p, c, cb) (m_call m)) -> arrived (fst v) d = true).
    { intros v a' Hin'. unfold vremove, kremove in Hin'. apply filter_In in Hin'. destruct Hin' as [Hin' _]. eauto. }
    pose proof (commit_kind_inv (p, c) (ack_of (p, c) d) out) as Hk.
    destruct (commit_kind (p, c) (ack_of (p, c) d) out); pe E; try discriminate; subst m'.
    + (* nothing *)
      subst out. apply upd_ok; [exact M | exact Haw | exact Hmono | exact Hcl | | | reflexivity].
      * intros w _. reflexivity.
      * reflexivity.
    + (* applied *)
      apply app_eq_nil in Hv. destruct Hv as [Hv _]. destruct (r_out (rget (p, c) m)) eqn:Eo; [discriminate|].
      subst out. apply upd_ok; [exact M | exact Haw | exact Hmono | exact Hcl | | | ].
      * intros w Hne. rewrite count_ack_applied. rewrite b2n_weqb_other by exact Hne. reflexivity.
      * rewrite count_ack_applied, weqb_refl, Eo. reflexivity.
      * change [Applied (fst (p, c)) (snd (p, c)); Returned] with ([Applied (fst (p, c)) (snd (p, c))] ++ [Returned]).
        rewrite app_assoc, last_app_app, last_ack_applied. reflexivity.
    + (* denied *)
      apply app_eq_nil in Hv. destruct Hv as [Hv _]. destruct (r_out (rget (p, c) m)) eqn:Eo; [discriminate|].
      subst out. apply upd_ok; [exact M | exact Haw | exact Hmono | exact Hcl | | | reflexivity].
      * intros w Hne. unfold count_out. cbn [filter is_outcome fst snd]. rewrite (weqb_neq (p, c) w) by congruence. reflexivity.
      * unfold count_out. cbn [filter is_outcome fst snd]. rewrite weqb_refl, Eo. reflexivity.
  - (* Expire *)
    cbn [d_ok] in Hok. apply andb_true_iff in Hok. destruct Hok as [Ha _].
    assert (Haw : arrived (p, c) d = true) by (apply Hmono; exact Ha).
    destruct out as [|o1 [|o2 l]]; try (pe E; discriminate).
    + destruct o1; pe E; try discriminate; subst m'.
      * clear Hv. unfold set_rec.
        apply upd_ok; [exact M | exact Haw | exact Hmono | exact Hcall | | | reflexivity].
        -- intros w _. reflexivity.
        -- reflexivity.
      * clear Hv. unfold with_d.
        apply same_ok; [exact M | exact Hmono | exact Hcall | reflexivity | reflexivity].
    + destruct o1; pe E; discriminate.
  - (* Fire *)
    destruct (r_phase (rget (p, c) m)) eqn:Eph.
    1,3: (pe E; subst m'; apply skipped_only_nil in Hv; subst out;
          destruct M as [M1 M2]; split; [constructor; assumption|]; split; [intros w; reflexivity | reflexivity]).
    assert (Haw : arrived (p, c) d = true).
    { apply Hmono. destruct (arrived (p, c) (m_d m)) eqn:Ea; [reflexivity|].
      rewrite (rget_not_arrived m (p, c) M Ea) in Eph. discriminate. }
    destruct out as [|o1 [|o2 l]].
    + pe E. subst m'. unfold set_rec.
      apply upd_ok; [exact M | exact Haw | exact Hmono | exact Hcall | | | reflexivity].
      * intros w _. reflexivity.
      * reflexivity.
    + destruct o1; try (pe E; discriminate).
      destruct (weqb (p0, c0) (p, c) && N.eqb e E_TIMEOUT) eqn:Ew; pe E; [|discriminate]. subst m'.
      apply andb_true_iff in Ew. destruct Ew as [Ew Ee]. apply weqb_eq in Ew. apply N.eqb_eq in Ee. inversion Ew; subst.
      destruct (r_out (rget (p, c) m)) eqn:Eo; [discriminate|]. unfold set_rec.
      apply upd_ok; [exact M | exact Haw | exact Hmono | exact Hcall | | | reflexivity].
      * intros w Hne. unfold count_out. cbn [filter is_outcome]. rewrite (weqb_neq (p, c) w) by congruence. reflexivity.
      * unfold count_out. cbn [filter is_outcome]. rewrite weqb_refl, Eo. reflexivity.
    + destruct o1; pe E; discriminate.
  - (* Clean *)
    destruct out as [|o1 [|o2 l]]; try (pe E; discriminate).
    + destruct o1; pe E; try discriminate; subst m'.
      clear Hv. unfold with_d.
      apply same_ok; [exact M | exact Hmono | exact Hcall | reflexivity | reflexivity].
    + destruct o1; pe E; discriminate.
  - (* Probe *)
    pe E. subst m'.
    pose proof (probe_check_quiet m out Hv) as Hq.
    destruct M as [M1 M2]. split; [constructor; assumption|]. split.
    + intros w. destruct (Hq w) as [Hc _]. rewrite Hc. reflexivity.
    + destruct (Hq (0%N, 0%N)) as [_ Hl]. rewrite Hl. reflexivity.
Qed.

(* ------------------------------------------------------------------ whole traces (monitor alone) *)

Lemma minv_init : minv minit.
Proof. constructor; cbn; [discriminate | tauto]. Qed.

Lemma accepted_outcomes tr : forall m, minv m ->
  strictly_accepted (judge m sinit tr) = true ->
  minv (mrun m tr) /\
  (forall w, (outcomes w tr + b2n (r_out (rget w m)))%nat = b2n (r_out (rget w (mrun m tr)))) /\
  m_data (mrun m tr) = last_app (flat_map snd tr) (m_data m).
Proof.
  induction tr as [|[o out] tr IH]; intros m M H.
  - cbn. auto.
  - rewrite judge_cons in H. cbn [strictly_accepted forallb fst] in H. apply andb_true_iff in H. destruct H as [Hv H].
    destruct (mon m o out) as [m1 v] eqn:E. cbn [fst snd] in *.
    destruct v; [|discriminate].
    destruct (mon_outcome m o out m1 M E) as (M1 & Hc & Hd).
    destruct (IH m1 M1 H) as (M2 & Hc2 & Hd2).
    cbn [mrun]. rewrite E. cbn [fst]. split; [exact M2|]. split.
    + intros w. unfold outcomes in *. cbn [flat_map snd]. rewrite count_out_app.
      specialize (Hc w). specialize (Hc2 w). lia.
    + cbn [flat_map snd]. rewrite last_app_app, <- Hd. exact Hd2.
Qed.

Lemma accepted_outcome_is_recorded tr : strictly_accepted (judge minit sinit tr) = true ->
  forall w, outcomes w tr = b2n (r_out (rget w (mrun minit tr))).
Proof.
  intros H w. destruct (accepted_outcomes tr minit minv_init H) as (_ & Hc & _).
  specialize (Hc w). unfold rget at 1 in Hc. cbn in Hc. lia.
Qed.

Lemma accepted_at_most_one tr : strictly_accepted (judge minit sinit tr) = true ->
  forall w, (outcomes w tr <= 1)%nat.
Proof.
  intros H w. rewrite (accepted_outcome_is_recorded tr H w). destruct (r_out _); cbn; lia.
Qed.

(* ------------------------------------------------------------------ the repaired model *)

Lemma run_outcomes ops w :
  outcomes w (snd (run init ops)) = b2n (r_out (rget w (mrun minit (snd (run init ops))))).
Proof. apply accepted_outcome_is_recorded. apply run_strictly_accepted. Qed.

Lemma run_at_most_one ops w : (outcomes w (snd (run init ops)) <= 1)%nat.
Proof. apply accepted_at_most_one. apply run_strictly_accepted. Qed.

(* the timer of the write is no longer live (stopped, its body has run, or there never was one) *)
Definition settled (s : st) (w : wid) : bool :=
  match wassoc w (timers s) with Some TRun | Some TExp => false | _ => true end.

Lemma run_settled_one ops w :
  arrived w (dz (fst (run init ops))) = true ->
  gone (fst w) (dz (fst (run init ops))) = false ->
  settled (fst (run init ops)) w = true ->
  outcomes w (snd (run init ops)) = 1%nat.
Proof.
  intros Ha Hg Hs. rewrite run_outcomes.
  pose proof (r_w _ _ (run_rel ops) w Ha) as W. unfold wrel, wrel_p in W. destruct W as [_ W].
  unfold settled in Hs. rewrite Hg in W.
  destruct (wassoc w (timers (fst (run init ops)))) as [[| | |]|]; try discriminate.
  - destruct W as (_ & _ & Ho). rewrite orb_false_r in Ho. rewrite Ho. reflexivity.
  - destruct W as (_ & _ & Ho). rewrite orb_false_r in Ho. rewrite Ho. reflexivity.
  - destruct W as (_ & Ho & _). rewrite Ho. reflexivity.
Qed.

Lemma run_pending_live ops w :
  wmem w (pending (fst (run init ops))) = true ->
  gone (fst w) (dz (fst (run init ops))) = false /\
  outcomes w (snd (run init ops)) = 0%nat /\
  (wassoc w (timers (fst (run init ops))) = Some TRun \/ wassoc w (timers (fst (run init ops))) = Some TExp).
Proof.
  intros H. destruct (pending_live _ _ w (run_inv ops) (run_rel ops) H) as (_ & Hg & Ho & Ht).
  split; [exact Hg|]. split; [|exact Ht]. rewrite run_outcomes, Ho. reflexivity.
Qed.

Lemma run_data_last_applied ops : data (fst (run init ops)) = last_applied (snd (run init ops)).
Proof.
  rewrite <- (r_data _ _ (run_rel ops)).
  destruct (accepted_outcomes _ minit minv_init (run_strictly_accepted ops)) as (_ & _ & Hd). exact Hd.
Qed.

(* ---- silence after the removal of a connection ---- *)
Lemma gone_mono d o p : gone p d = true -> gone p (d_next d o) = true.
Proof.
  destruct o; try (intros H; exact H). rewrite gone_clean. intros ->. apply orb_true_r.
Qed.

Lemma step_dz s o : dz (fst (step s o)) = dz s \/ dz (fst (step s o)) = d_next (dz s) o.
Proof.
  unfold step, step_gen. destruct (d_ok (dz s) o); cbn [negb]; [|left; reflexivity].
  destruct o; cbn zeta;
    repeat match goal with
           | |- context [match ?x with _ => _ end] => destruct x
           end; cbn [fst dz]; ((left; reflexivity) || (right; reflexivity)).
Qed.

Lemma step_gone s o p : gone p (dz s) = true -> gone p (dz (fst (step s o))) = true.
Proof.
  intros H. destruct (step_dz s o) as [-> | ->]; [exact H | apply gone_mono; exact H].
Qed.

Lemma to_gone_false d out : to_gone d out = false ->
  forall o p, In o out -> obs_peer o = Some p -> gone p d = false.
Proof.
  unfold to_gone. intros H o p Hin Hp.
  destruct (gone p d) eqn:E; [|reflexivity].
  assert (Hx : existsb (fun o => match obs_peer o with Some p => gone p d | None => false end) out = true).
  { apply existsb_exists. exists o. split; [exact Hin|]. rewrite Hp. exact E. }
  congruence.
Qed.

Lemma step_quiet s m o p : inv s -> rel s m -> gone p (dz s) = true ->
  forall x, In x (snd (step s o)) -> obs_peer x <> Some p.
Proof.
  intros I R Hg x Hin Hp.
  destruct (d_ok (dz s) o) eqn:Hok.
  - destruct (step_good_all s m o I R) as (Hv & _ & _).
    rewrite (mon_valid s m o _ R Hok) in Hv. cbn [snd] in Hv.
    apply app_eq_nil in Hv. destruct Hv as [Hv _].
    destruct (to_gone (d_next (dz s) o) (snd (step s o))) eqn:Et; [discriminate|].
    pose proof (to_gone_false _ _ Et x p Hin Hp) as Hx.
    rewrite (gone_mono _ o _ Hg) in Hx. discriminate.
  - unfold step, step_gen in Hin. rewrite Hok in Hin. cbn in Hin. destruct Hin as [<-|[]]. discriminate.
Qed.

Lemma run_quiet ops2 : forall s m p, inv s -> rel s m -> gone p (dz s) = true ->
  forall o, In o (flat_map snd (snd (run s ops2))) -> obs_peer o <> Some p.
Proof.
  induction ops2 as [|x r IH]; intros s m p I R Hg o Hin.
  - destruct Hin.
  - rewrite run_cons in Hin. cbn [snd flat_map] in Hin. apply in_app_or in Hin. destruct Hin as [Hin|Hin].
    + apply (step_quiet s m x p I R Hg o Hin).
    + destruct (step_good_all s m x I R) as (_ & I' & R').
      apply (IH _ _ p I' R' (step_gone s x p Hg) o Hin).
Qed.

Lemma run_quiet_after_cleanup ops1 ops2 p :
  gone p (dz (fst (run init ops1))) = true ->
  forall o, In o (flat_map snd (snd (run (fst (run init ops1)) ops2))) -> obs_peer o <> Some p.
Proof.
  intros Hg. apply (run_quiet ops2 _ _ p (run_inv ops1) (run_rel ops1) Hg).
Qed.

(* ---- the timeout settles every write ---- *)
Record inv2 (s : st) : Prop := {
  j_run : forall w, wassoc w (timers s) = Some TRun -> wmem w (d_exp (dz s)) = false;
  j_exp : forall w, wmem w (d_exp (dz s)) = true -> arrived w (dz s) = true
}.

Lemma inv2_init : inv2 init.
Proof. constructor; cbn; intros; discriminate. Qed.

Lemma inv2_same s d' tm' pd tl pk dt :
  inv2 s -> d_exp d' = d_exp (dz s) -> (forall w, arrived w (dz s) = true -> arrived w d' = true) ->
  (forall w, wassoc w tm' = Some TRun -> wassoc w (timers s) = Some TRun) ->
  inv2 {| dz := d'; pending := pd; tally := tl; timers := tm'; parked := pk; data := dt |}.
Proof.
  intros [J1 J2] He Ha Ht. constructor; cbn [dz timers]; rewrite He.
  - intros w H. apply J1. apply Ht. exact H.
  - intros w H. apply Ha. apply J2. exact H.
Qed.

Lemma inv2_step s o : inv2 s -> inv2 (fst (step s o)).
Proof.
  intros J. unfold step, step_gen. destruct (d_ok (dz s) o) eqn:Hok; cbn [negb]; [|exact J].
  destruct o; cbn zeta.
  - (* AddCb *) cbn [fst]. apply (inv2_same s); auto.
  - (* Arrive *)
    cbn [d_ok] in Hok. apply andb_true_iff in Hok. destruct Hok as [_ Hna]. apply negb_true_iff in Hna.
    destruct (d_ncb (d_next (dz s) (Arrive p c ack slot))); cbn [fst].
    + apply (inv2_same s); auto. intros w H. apply arrived_mono. exact H.
    + destruct J as [J1 J2]. constructor; cbn [dz timers d_next d_exp].
      * intros w H. destruct (wid_dec w (p, c)) as [->|Hne].
        -- destruct (wmem (p, c) (d_exp (dz s))) eqn:E; [|reflexivity]. apply J2 in E. congruence.
        -- rewrite wassoc_wset_other in H by exact Hne. auto.
      * intros w H. apply (arrived_mono _ (Arrive p c ack slot)). auto.
  - (* Lookup *)
    destruct (wmem (p, c) (pending s)); cbn [fst]; apply (inv2_same s); auto.
  - (* Commit *)
    destruct (vassoc (p, c, cb) (parked s)) as [a|]; [|exact J].
    repeat match goal with |- context [if ?b then _ else _] => destruct b eqn:? end; cbn [fst]; apply (inv2_same s); auto;
      intros w H; destruct (wid_dec w (p, c)) as [->|Hne];
      try (rewrite wassoc_wset_same in H; discriminate); try (rewrite wassoc_wset_other in H by exact Hne; exact H).
  - (* Expire *)
    cbn [d_ok] in Hok. apply andb_true_iff in Hok. destruct Hok as [Ha Hne]. apply negb_true_iff in Hne.
    destruct J as [J1 J2].
    destruct (is_run (wassoc (p, c) (timers s))) eqn:Er; cbn [fst]; constructor; cbn [dz timers d_next d_exp].
    + intros w H. destruct (wid_dec w (p, c)) as [->|Hn]; [rewrite wassoc_wset_same in H; discriminate|].
      rewrite wassoc_wset_other in H by exact Hn. rewrite wmem_cons, (weqb_neq _ _ Hn). cbn [orb]. auto.
    + intros w H. change (arrived w (dz s) = true). rewrite wmem_cons in H. apply orb_true_iff in H.
      destruct H as [H|H]; [apply weqb_eq in H; subst; exact Ha | auto].
    + intros w H. destruct (wid_dec w (p, c)) as [->|Hn]; [rewrite H in Er; discriminate|].
      rewrite wmem_cons, (weqb_neq _ _ Hn). cbn [orb]. auto.
    + intros w H. change (arrived w (dz s) = true). rewrite wmem_cons in H. apply orb_true_iff in H.
      destruct H as [H|H]; [apply weqb_eq in H; subst; exact Ha | auto].
  - (* Fire *)
    destruct (wassoc (p, c) (timers s)) as [[| | |]|] eqn:Et; try exact J.
    destruct (f_body repaired && negb (wmem (p, c) (pending s))); cbn [fst]; apply (inv2_same s); auto;
      intros w H; destruct (wid_dec w (p, c)) as [->|Hne];
      try (rewrite wassoc_wset_same in H; discriminate); try (rewrite wassoc_wset_other in H by exact Hne; exact H).
  - (* Clean *)
    cbn [fst repaired f_clean]. apply (inv2_same s); auto.
    intros w H. rewrite wassoc_stop_pending in H. destruct (wassoc w (timers s)) as [[| | |]|]; try discriminate; try reflexivity.
  - (* Probe *) exact J.
Qed.

Lemma run_inv2 ops : forall s, inv2 s -> inv2 (fst (run s ops)).
Proof.
  induction ops as [|o r IH]; intros s J; [exact J|].
  rewrite run_cons. cbn [fst]. apply IH. apply inv2_step. exact J.
Qed.

Lemma run_app ops1 : forall ops2 s, fst (run s (ops1 ++ ops2)) = fst (run (fst (run s ops1)) ops2).
Proof.
  induction ops1 as [|o r IH]; intros ops2 s; [reflexivity|].
  cbn [app]. rewrite !run_cons. cbn [fst]. apply IH.
Qed.

Lemma timeout_settles s p c : inv s -> inv2 s -> arrived (p, c) (dz s) = true ->
  settled (fst (run s [Expire p c; Fire p c])) (p, c) = true.
Proof.
  intros I J Ha. rewrite !run_cons. cbn [fst run run_gen]. unfold settled.
  set (w := (p, c)) in *.
  destruct (wassoc w (timers s)) as [[| | |]|] eqn:Et.
  - (* running: Expire is enabled, then the body runs *)
    pose proof (j_run _ J w Et) as Hne.
    unfold step at 2, step_gen. cbn [d_ok]. fold w. rewrite Ha, Hne. cbn [andb negb]. rewrite Et. cbn [is_run fst].
    unfold step, step_gen. cbn [d_ok negb dz timers pending]. fold w. rewrite wassoc_wset_same.
    destruct (f_body repaired && negb (wmem w (pending s))); cbn [fst timers]; rewrite wassoc_wset_same; reflexivity.
  - (* already expiring: the body runs *)
    pose proof (i_exp _ I w (or_introl Et)) as He.
    unfold step at 2, step_gen. cbn [d_ok]. fold w. rewrite Ha, He. cbn [andb negb fst].
    unfold step, step_gen. cbn [d_ok negb]. fold w. rewrite Et.
    destruct (f_body repaired && negb (wmem w (pending s))); cbn [fst timers]; rewrite wassoc_wset_same; reflexivity.
  - (* body already ran *)
    pose proof (i_exp _ I w (or_intror Et)) as He.
    unfold step at 2, step_gen. cbn [d_ok]. fold w. rewrite Ha, He. cbn [andb negb fst].
    unfold step, step_gen. cbn [d_ok negb]. fold w. rewrite Et. cbn [fst]. rewrite Et. reflexivity.
  - (* stopped *)
    unfold step at 2, step_gen. cbn [d_ok]. fold w. rewrite Ha. cbn [andb].
    destruct (negb (wmem w (d_exp (dz s)))); cbn [negb fst]; rewrite ?Et; cbn [is_run fst];
      unfold step, step_gen; cbn [d_ok negb dz timers]; fold w; rewrite Et; cbn [fst timers]; rewrite Et; reflexivity.
  - (* no callback registered: applied on arrival *)
    unfold step at 2, step_gen. cbn [d_ok]. fold w. rewrite Ha. cbn [andb].
    destruct (negb (wmem w (d_exp (dz s)))); cbn [negb fst]; rewrite ?Et; cbn [is_run fst];
      unfold step, step_gen; cbn [d_ok negb dz timers]; fold w; rewrite Et; cbn [fst timers]; rewrite Et; reflexivity.
Qed.

Lemma run_timeout_settles ops p c :
  arrived (p, c) (dz (fst (run init ops))) = true ->
  settled (fst (run init (ops ++ [Expire p c; Fire p c]))) (p, c) = true.
Proof.
  intros Ha. rewrite run_app. apply timeout_settles; [apply run_inv | apply run_inv2; apply inv2_init | exact Ha].
Qed.

(* ------------------------------------------------------------------ applied only with every callback's approval (monitor alone) *)

Definition started (o : op) (out : list obs) (w : wid) : nat :=
  match o, out with
  | Lookup p c cb true, [Parked] => if weqb (p, c) w then 1%nat else 0%nat
  | _, _ => 0%nat
  end.

Definition mstep_start (m m' : mst) (o : op) (out : list obs) : Prop :=
  (forall w, r_nstart (rget w m') = (r_nstart (rget w m) + started o out w)%nat) /\
  (forall w, In (Applied (fst w) (snd w)) out ->
     arrived w (m_d m') = true /\
     (d_ncb (m_d m') <> 0%nat -> (d_ncb (m_d m') <= r_nstart (rget w m'))%nat)) /\
  m_d m' = (if d_ok (m_d m) o then d_next (m_d m) o else m_d m).

Lemma upd_start m d w0 r' cl dt o out :
  r_nstart r' = (r_nstart (rget w0 m) + started o out w0)%nat ->
  (forall w, w <> w0 -> started o out w = 0%nat) ->
  forall w, r_nstart (rget w {| m_d := d; m_w := wset w0 r' (m_w m); m_call := cl; m_data := dt |}) =
            (r_nstart (rget w m) + started o out w)%nat.
Proof.
  intros H0 Hoth w. destruct (wid_dec w w0) as [->|Hne].
  - rewrite rget_upd_same. exact H0.
  - rewrite (rget_upd_other m) by exact Hne. rewrite Hoth by exact Hne. lia.
Qed.

Lemma not_applied_in (l : list obs) w :
  (forall o, In o l -> match o with Applied _ _ => False | _ => True end) -> ~ In (Applied (fst w) (snd w)) l.
Proof. intros H Hin. apply H in Hin. exact Hin. Qed.

Lemma applied_in_ack w w0 ack rest :
  In (Applied (fst w) (snd w)) (ack_result ack w0 ++ Applied (fst w0) (snd w0) :: rest) ->
  ~ In (Applied (fst w) (snd w)) rest -> w = w0.
Proof.
  intros Hin Hn. apply in_app_or in Hin. destruct Hin as [Hin|[Hin|Hin]].
  - destruct ack; cbn in Hin; [destruct Hin as [Hx|[]]; discriminate | destruct Hin].
  - inversion Hin. destruct w, w0; cbn [fst snd] in *; subst; reflexivity.
  - contradiction.
Qed.

Lemma mon_start m o out m' : minv m -> mon m o out = (m', []) -> mstep_start m m' o out.
Proof.
  intros M. unfold mon, mstep_start. destruct (d_ok (m_d m) o) eqn:Hok; cbn [negb].
  2:{ intros H. pe H. subst m'. apply skipped_only_nil in Hv. subst out.
      split; [intros w; destruct o as [| | ? ? ? [|] | | | | |]; cbn [started]; lia|].
      split; [intros w [Hx|[]]; discriminate | reflexivity]. }
  destruct (mon_op m (d_next (m_d m) o) o out) as [m1 v] eqn:E. intros H. pe H. subst m1.
  apply app_eq_nil in Hv. destruct Hv as [_ Hv]. apply app_eq_nil in Hv. destruct Hv as [_ Hv]. subst v.
  set (d := d_next (m_d m) o) in *.
  destruct o; cbn [mon_op] in E.
  - (* AddCb *)
    destruct out; pe E; [|discriminate]. subst m'. unfold with_d. cbn [m_d].
    split; [intros w; cbn [started]; unfold rget; cbn [m_w]; lia|]. split; [intros w []| reflexivity].
  - (* Arrive *)
    cbn [d_ok] in Hok. apply andb_true_iff in Hok. destruct Hok as [_ Hna]. apply negb_true_iff in Hna.
    pose proof (rget_not_arrived m (p, c) M Hna) as Hfr.
    destruct (d_ncb d) eqn:En.
    + destruct (olist_eqb out (ack_result ack (p, c) ++ [Applied p c])) eqn:Eo; pe E; [|discriminate]. subst m'.
      apply olist_eqb_eq in Eo. subst out.
      cbn [m_d]. split; [|split; [|reflexivity]].
      * apply upd_start; [rewrite Hfr; reflexivity | intros; reflexivity].
      * intros w Hin. change (Applied p c) with (Applied (fst (p, c)) (snd (p, c))) in Hin.
        apply applied_in_ack in Hin; [|intros []]. subst w.
        split; [unfold d; rewrite arrived_next_arrive, weqb_refl; reflexivity | intros Hn; congruence].
    + destruct (olist_eqb out (presented (S n) (p, c))) eqn:Eo; pe E; [|discriminate]. subst m'.
      apply olist_eqb_eq in Eo. subst out. unfold set_rec. cbn [m_d].
      split; [apply upd_start; [rewrite Hfr; reflexivity | intros; reflexivity]|].
      split; [|reflexivity]. intros w Hin. exfalso. unfold presented in Hin. apply in_map_iff in Hin.
      destruct Hin as [x [Hx _]]. discriminate.
  - (* Lookup *)
    destruct out as [|o1 [|o2 l]]; try (pe E; discriminate).
    + destruct o1; pe E; try discriminate; subst m'.
      * (* Parked *)
        cbn [m_d]. split; [|split; [intros w [Hx|[]]; discriminate | reflexivity]].
        apply upd_start.
        -- cbn [r_nstart started]. rewrite weqb_refl. destruct appr; lia.
        -- intros w Hne. cbn [started]. rewrite (weqb_neq (p, c) w) by congruence. destruct appr; reflexivity.
      * (* Returned *)
        unfold with_d. cbn [m_d].
        split; [intros w; destruct appr; cbn [started]; unfold rget; cbn [m_w]; lia|].
        split; [intros w [Hx|[]]; discriminate | reflexivity].
    + destruct o1; pe E; discriminate.
  - (* Commit *)
    destruct (vassoc (p, c, cb) (m_call m)) as [a|] eqn:Ev.
    2:{ pe E. subst m'. apply skipped_only_nil in Hv. subst out.
        split; [intros w; cbn [started]; lia|]. split; [intros w [Hx|[]]; discriminate | reflexivity]. }
    pose proof (commit_kind_inv (p, c) (ack_of (p, c) d) out) as Hk.
    assert (Haw : arrived (p, c) d = true).
    { unfold d. apply arrived_mono. apply (mi_call _ M (p, c, cb) a). apply vassoc_In_pair. exact Ev. }
    destruct (commit_kind (p, c) (ack_of (p, c) d) out); pe E; try discriminate; subst m'; cbn [m_d].
    + subst out. split; [apply upd_start; [cbn [r_nstart started]; lia | intros; reflexivity]|].
      split; [intros w [Hx|[]]; discriminate | reflexivity].
    + (* applied: the monitor checked unanimity *)
      apply app_eq_nil in Hv. destruct Hv as [_ Hv].
      destruct (a && Nat.leb (d_ncb d) (r_nstart (rget (p, c) m))) eqn:Eu; [|discriminate].
      apply andb_true_iff in Eu. destruct Eu as [_ Eu]. apply Nat.leb_le in Eu.
      split; [apply upd_start; [cbn [r_nstart started]; lia | intros; reflexivity]|].
      split; [|reflexivity]. intros w Hin. subst out.
      apply applied_in_ack in Hin; [|intros [Hx|[]]; discriminate]. subst w.
      split; [exact Haw|]. intros _. rewrite rget_upd_same. cbn [r_nstart]. exact Eu.
    + subst out. split; [apply upd_start; [cbn [r_nstart started]; lia | intros; reflexivity]|].
      split; [intros w [Hx|[Hx|[]]]; discriminate | reflexivity].
  - (* Expire *)
    destruct out as [|o1 [|o2 l]]; try (pe E; discriminate).
    + destruct o1; pe E; try discriminate; subst m'.
      * unfold set_rec. cbn [m_d]. split; [apply upd_start; [cbn [r_nstart started]; lia | intros; reflexivity]|].
        split; [intros w [Hx|[]]; discriminate | reflexivity].
      * unfold with_d. cbn [m_d]. split; [intros w; cbn [started]; unfold rget; cbn [m_w]; lia|].
        split; [intros w [Hx|[]]; discriminate | reflexivity].
    + destruct o1; pe E; discriminate.
  - (* Fire *)
    destruct (r_phase (rget (p, c) m)) eqn:Eph.
    1,3: (pe E; subst m'; apply skipped_only_nil in Hv; subst out;
          split; [intros w; cbn [started]; lia|]; split; [intros w [Hx|[]]; discriminate | reflexivity]).
    destruct out as [|o1 [|o2 l]].
    + pe E. subst m'. unfold set_rec. cbn [m_d].
      split; [apply upd_start; [cbn [r_nstart started]; lia | intros; reflexivity]|]. split; [intros w [] | reflexivity].
    + destruct o1; try (pe E; discriminate).
      destruct (weqb (p0, c0) (p, c) && N.eqb e E_TIMEOUT) eqn:Ew; pe E; [|discriminate]. subst m'.
      unfold set_rec. cbn [m_d].
      split; [apply upd_start; [cbn [r_nstart started]; lia | intros; reflexivity]|].
      split; [intros w [Hx|[]]; discriminate | reflexivity].
    + destruct o1; pe E; discriminate.
  - (* Clean *)
    destruct out as [|o1 [|o2 l]]; try (pe E; discriminate).
    + destruct o1; pe E; try discriminate; subst m'. unfold with_d. cbn [m_d].
      split; [intros w; cbn [started]; unfold rget; cbn [m_w]; lia|]. split; [intros w [Hx|[]]; discriminate | reflexivity].
    + destruct o1; pe E; discriminate.
  - (* Probe *)
    pe E. subst m'. split; [intros w; cbn [started]; lia|]. split; [|reflexivity].
    intros w Hin. exfalso. clear -Hv Hin. revert Hv Hin. induction out as [|x l IH]; intros Hv Hin; [destruct Hin|].
    destruct x; try discriminate.
    + cbn [probe_check] in Hv. apply app_eq_nil in Hv. destruct Hv as [_ Hv]. destruct Hin as [Hx|Hin]; [discriminate | auto].
    + cbn [probe_check] in Hv. destruct Hin as [Hx|Hin]; [discriminate | auto].
    + destruct l; [|discriminate]. destruct Hin as [Hx|[]]. discriminate.
    + destruct l; [|discriminate]. destruct Hin as [Hx|[]]. discriminate.
Qed.

Definition op_is_appr (w : wid) (cb : N) (o : op) : bool :=
  match o with
  | Lookup p c cb' true => weqb (p, c) w && N.eqb cb' cb
  | _ => false
  end.

Definition has_appr (w : wid) (ops : list op) (cb : nat) : bool := existsb (op_is_appr w (N.of_nat cb)) ops.

(* callbacks (below the registered number) that delivered an approval for w, by the bookkeeping and the operations so far *)
Definition cnt (w : wid) (d : disc) (ops : list op) : nat :=
  length (filter (fun cb => vmem (w, N.of_nat cb) (d_verd d) && has_appr w ops cb) (seq 0 (d_ncb d))).

Lemma filter_length_mono {A} (f g : A -> bool) l :
  (forall x, In x l -> f x = true -> g x = true) -> (length (filter f l) <= length (filter g l))%nat.
Proof.
  induction l as [|x l IH]; intros H; [cbn; lia|]. cbn [filter].
  assert (IH' := IH (fun y Hy => H y (or_intror Hy))).
  destruct (f x) eqn:Ef.
  - rewrite (H x (or_introl eq_refl) Ef). cbn [length]. lia.
  - destruct (g x); cbn [length]; lia.
Qed.

Lemma filter_length_strict {A} (f g : A -> bool) l x :
  NoDup l -> In x l -> f x = false -> g x = true ->
  (forall y, In y l -> f y = true -> g y = true) -> (length (filter f l) + 1 <= length (filter g l))%nat.
Proof.
  induction l as [|y l IH]; intros Hnd Hin Hf Hg H; [destruct Hin|].
  inversion Hnd as [|? ? Hny Hnd']; subst. cbn [filter]. destruct Hin as [->|Hin].
  - rewrite Hf, Hg. cbn [length].
    pose proof (filter_length_mono f g l (fun z Hz => H z (or_intror Hz))). lia.
  - assert (IH' := IH Hnd' Hin Hf Hg (fun z Hz => H z (or_intror Hz))).
    destruct (f y) eqn:Ef.
    + rewrite (H y (or_introl eq_refl) Ef). cbn [length]. lia.
    + destruct (g y); cbn [length]; lia.
Qed.

Lemma filter_length_all {A} (f : A -> bool) l :
  (length l <= length (filter f l))%nat -> forall x, In x l -> f x = true.
Proof.
  induction l as [|y l IH]; intros H x Hin; [destruct Hin|]. cbn [filter length] in H.
  pose proof (filter_length_mono f (fun _ => true) l (fun _ _ _ => eq_refl)) as Hle.
  assert (Hall : length (filter (fun _ : A => true) l) = length l).
  { clear. induction l; cbn; [reflexivity | rewrite IHl; reflexivity]. }
  destruct (f y) eqn:Ef.
  - cbn [length] in H. destruct Hin as [->|Hin]; [exact Ef | apply IH; [lia | exact Hin]].
  - exfalso. lia.
Qed.

Lemma has_appr_app w ops o cb : has_appr w (ops ++ [o]) cb = has_appr w ops cb || op_is_appr w (N.of_nat cb) o.
Proof. unfold has_appr. rewrite existsb_app. cbn. rewrite orb_false_r. reflexivity. Qed.

Record pinv (m : mst) (pre : list op) (seen : list obs) : Prop := {
  p_cnt : forall w, (r_nstart (rget w m) <= cnt w (m_d m) pre)%nat;
  p_app : forall w, In (Applied (fst w) (snd w)) seen ->
            arrived w (m_d m) = true /\ (d_ncb (m_d m) <> 0%nat -> (d_ncb (m_d m) <= r_nstart (rget w m))%nat)
}.

Lemma pinv_step m pre seen o out m' :
  minv m -> pinv m pre seen -> mon m o out = (m', []) -> pinv m' (pre ++ [o]) (seen ++ out).
Proof.
  intros M [P1 P2] E. destruct (mon_start m o out m' M E) as (Hs & Ha & Hd).
  destruct (d_ok (m_d m) o) eqn:Hok.
  2:{ (* skipped: nothing changes *)
      assert (Hout : out = [Skipped]).
      { unfold mon in E. rewrite Hok in E. cbn [negb] in E. pe E. apply skipped_only_nil in Hv. exact Hv. }
      subst out. constructor.
      - intros w. rewrite Hs, Hd. assert (H0 : started o [Skipped] w = 0%nat) by (destruct o as [| | ? ? ? [|] | | | | |]; reflexivity).
        rewrite H0, Nat.add_0_r. specialize (P1 w). unfold cnt in *.
        eapply Nat.le_trans; [exact P1|]. apply filter_length_mono. intros cb _ H.
        apply andb_true_iff in H. destruct H as [H1 H2]. rewrite H1, has_appr_app, H2. reflexivity.
      - intros w Hin. apply in_app_or in Hin. destruct Hin as [Hin|[Hx|[]]]; [|discriminate].
        rewrite Hd, Hs. destruct (P2 w Hin) as [Q1 Q2]. split; [exact Q1|]. intros Hn. specialize (Q2 Hn). lia. }
  (* a valid operation *)
  assert (Hmono_arr : forall w, arrived w (m_d m) = true -> arrived w (m_d m') = true)
    by (intros w H; rewrite Hd; apply arrived_mono; exact H).
  destruct (match o with AddCb => true | _ => false end) eqn:Eadd.
  - (* a callback is registered: no write has arrived yet *)
    destruct o; try discriminate. cbn [d_ok] in Hok.
    assert (Hnil : d_arr (m_d m) = []) by (destruct (d_arr (m_d m)); [reflexivity | discriminate]).
    assert (Hfr : forall w, rget w m = rfresh) by (intros w; apply rget_not_arrived; [exact M | apply arrived_none_nil; exact Hnil]).
    constructor.
    + intros w. rewrite Hs, Hfr. cbn [started rfresh r_nstart]. lia.
    + intros w Hin. apply in_app_or in Hin. destruct Hin as [Hin|Hin].
      * destruct (P2 w Hin) as [Q1 _]. rewrite (arrived_none_nil _ _ Hnil) in Q1. discriminate.
      * apply (Ha w Hin).
  - (* every other operation keeps the number of callbacks *)
    assert (Hn : d_ncb (m_d m') = d_ncb (m_d m)) by (rewrite Hd; destruct o; try reflexivity; discriminate).
    assert (Hverd : forall v, vmem v (d_verd (m_d m)) = true -> vmem v (d_verd (m_d m')) = true)
      by (intros v H; rewrite Hd; apply vmem_mono; exact H).
    constructor.
    + intros w. rewrite Hs. specialize (P1 w). unfold cnt in *. rewrite Hn.
      destruct (started o out w) eqn:Est.
      * rewrite Nat.add_0_r. eapply Nat.le_trans; [exact P1|]. apply filter_length_mono. intros cb _ H.
        apply andb_true_iff in H. destruct H as [H1 H2]. rewrite (Hverd _ H1), has_appr_app, H2. reflexivity.
      * (* an approval of w was taken up: one more callback counts *)
        destruct o as [| | p c cb [|] | | | | |]; try discriminate.
        destruct out as [|o1 l]; cbn [started] in Est; try discriminate. destruct o1; cbn [started] in Est; try discriminate.
        destruct l; cbn [started] in Est; try discriminate.
        destruct (weqb (p, c) w) eqn:Ew; [|discriminate]. apply weqb_eq in Ew. subst w. inversion Est; subst n.
        cbn [d_ok] in Hok. apply andb_true_iff in Hok. destruct Hok as [Hok Hnv]. apply andb_true_iff in Hok.
        destruct Hok as [_ Hcb]. apply negb_true_iff in Hnv. apply Nat.ltb_lt in Hcb.
        eapply Nat.le_trans; [apply Nat.add_le_mono_r; exact P1|].
        apply (filter_length_strict _ _ _ (N.to_nat cb)).
        -- apply seq_NoDup.
        -- apply in_seq. lia.
        -- cbn beta. rewrite N2Nat.id. apply andb_false_iff. left. exact Hnv.
        -- cbn beta. rewrite N2Nat.id. apply andb_true_iff. split.
           ++ rewrite Hd. cbn [d_next d_verd]. apply vmem_In. left. reflexivity.
           ++ rewrite has_appr_app. cbn [op_is_appr]. rewrite N2Nat.id, weqb_refl, N.eqb_refl. apply orb_true_r.
        -- intros k _ H. apply andb_true_iff in H. destruct H as [H1 H2]. rewrite (Hverd _ H1), has_appr_app, H2. reflexivity.
    + intros w Hin. apply in_app_or in Hin. destruct Hin as [Hin|Hin]; [|apply (Ha w Hin)].
      destruct (P2 w Hin) as [Q1 Q2]. split; [apply Hmono_arr; exact Q1|]. rewrite Hn, Hs. intros Hne. specialize (Q2 Hne). lia.
Qed.

Lemma accepted_pinv tr : forall m pre seen, minv m -> pinv m pre seen ->
  strictly_accepted (judge m sinit tr) = true ->
  pinv (mrun m tr) (pre ++ map fst tr) (seen ++ flat_map snd tr).
Proof.
  induction tr as [|[o out] tr IH]; intros m pre seen M P H.
  - cbn. rewrite !app_nil_r. exact P.
  - rewrite judge_cons in H. cbn [strictly_accepted forallb fst] in H. apply andb_true_iff in H. destruct H as [Hv H].
    destruct (mon m o out) as [m1 v] eqn:E. cbn [fst snd] in *. destruct v; [|discriminate].
    destruct (mon_outcome m o out m1 M E) as (M1 & _ & _).
    pose proof (pinv_step m pre seen o out m1 M P E) as P1.
    specialize (IH m1 _ _ M1 P1 H).
    cbn [mrun map flat_map fst snd]. rewrite E. cbn [fst].
    replace (pre ++ o :: map fst tr) with ((pre ++ [o]) ++ map fst tr) by (rewrite <- app_assoc; reflexivity).
    replace (seen ++ out ++ flat_map snd tr) with ((seen ++ out) ++ flat_map snd tr) by (rewrite <- app_assoc; reflexivity).
    exact IH.
Qed.

Lemma pinv_init : pinv minit [] [].
Proof. constructor; [intros w; cbn; lia | intros w []]. Qed.

(* any accepted trace: a write is applied only if every registered callback delivered an approval *)
Lemma accepted_applied_unanimous tr :
  strictly_accepted (judge minit sinit tr) = true ->
  forall p c, In (Applied p c) (flat_map snd tr) ->
  let n := d_ncb (m_d (mrun minit tr)) in
  n <> 0%nat -> forall cb, (cb < n)%nat -> In (Lookup p c (N.of_nat cb) true) (map fst tr).
Proof.
  intros H p c Hin n Hn cb Hcb.
  destruct (accepted_pinv tr minit [] [] minv_init pinv_init H) as [P1 P2]. cbn [app] in *.
  destruct (P2 (p, c) Hin) as [_ Q]. specialize (Q Hn). specialize (P1 (p, c)). fold n in Q.
  assert (Hall : (length (seq 0 n) <= cnt (p, c) (m_d (mrun minit tr)) (map fst tr))%nat) by (rewrite seq_length; lia).
  unfold cnt in Hall. fold n in Hall.
  pose proof (filter_length_all _ _ Hall cb) as Hf.
  assert (Hcbin : In cb (seq 0 n)) by (apply in_seq; lia).
  specialize (Hf Hcbin). apply andb_true_iff in Hf. destruct Hf as [_ Hf].
  unfold has_appr in Hf. apply existsb_exists in Hf. destruct Hf as [o [Ho Hop]].
  destruct o as [| | p' c' cb' [|] | | | | |]; try discriminate. cbn [op_is_appr] in Hop.
  apply andb_true_iff in Hop. destruct Hop as [Hw Hc]. apply weqb_eq in Hw. apply N.eqb_eq in Hc. inversion Hw; subst. exact Ho.
Qed.

Lemma run_ops_trace ops : forall s, map fst (snd (run s ops)) = ops.
Proof.
  induction ops as [|o r IH]; intros s; [reflexivity|]. rewrite run_cons. cbn [snd map fst]. rewrite IH. reflexivity.
Qed.

Lemma run_applied_unanimous ops p c :
  d_ncb (dz (fst (run init ops))) <> 0%nat ->
  In (Applied p c) (flat_map snd (snd (run init ops))) ->
  forall cb, (cb < d_ncb (dz (fst (run init ops))))%nat -> In (Lookup p c (N.of_nat cb) true) ops.
Proof.
  intros Hn Hin cb Hcb.
  pose proof (accepted_applied_unanimous _ (run_strictly_accepted ops) p c Hin) as H.
  cbn zeta in H. rewrite (r_d _ _ (run_rel ops)), run_ops_trace in H. apply H; assumption.
Qed.
