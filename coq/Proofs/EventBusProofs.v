(* C15 — proofs about Model/EventBus.v against the monitor Spec/EventBusSpec.v.

   The central invariant relates the model state to the monitor state through
   "claims": every thread owns the obligations it will still discharge
   ([Open e] = Publish of e has not returned, [Pend e i] = event e is still to be
   handed to i).  Claims are pairwise distinct, each is justified by the monitor's
   expectations, and every expectation is either met or claimed. *)
From Verif Require Import Base.Prelude Model.EventBus Spec.EventBusSpec.
From Coq Require Import Sorting.Permutation.

(* ---------- equality tests ---------- *)

Lemma level_eqb_eq a b : level_eqb a b = true <-> a = b.
Proof. destruct a, b; simpl; split; intros H; try reflexivity; discriminate. Qed.

Lemma item_eqb_eq (a b : item) : item_eqb a b = true <-> a = b.
Proof.
  destruct a as [la ha], b as [lb hb]. unfold item_eqb. simpl.
  rewrite andb_true_iff, level_eqb_eq, N.eqb_eq. split.
  - intros [H1 H2]. subst. reflexivity.
  - intros H. inversion H. split; reflexivity.
Qed.

Lemma item_eqb_refl a : item_eqb a a = true.
Proof. apply item_eqb_eq. reflexivity. Qed.

Lemma item_eqb_neq (a b : item) : item_eqb a b = false <-> a <> b.
Proof.
  split.
  - intros H E. apply item_eqb_eq in E. congruence.
  - intros H. destruct (item_eqb a b) eqn:E; [apply item_eqb_eq in E; contradiction | reflexivity].
Qed.

Lemma tid_eqb_eq a b : tid_eqb a b = true <-> a = b.
Proof.
  destruct a, b; simpl; try (split; intros H; discriminate).
  - rewrite N.eqb_eq. split; intros H; [subst; reflexivity | inversion H; reflexivity].
  - rewrite andb_true_iff, !N.eqb_eq. split.
    + intros [H1 H2]. subst. reflexivity.
    + intros H. inversion H. split; reflexivity.
Qed.

Lemma mem_item_In i l : mem_item i l = true <-> In i l.
Proof.
  unfold mem_item. rewrite existsb_exists. split.
  - intros [j [Hj He]]. apply item_eqb_eq in He. subst. exact Hj.
  - intros H. exists i. split; [exact H | apply item_eqb_refl].
Qed.

Lemma mem_del_In e i l : mem_del e i l = true <-> In (e, i) l.
Proof.
  unfold mem_del. rewrite existsb_exists. split.
  - intros [[e' i'] [Hd He]]. simpl in He. apply andb_true_iff in He. destruct He as [H1 H2].
    apply N.eqb_eq in H1. apply item_eqb_eq in H2. subst. exact Hd.
  - intros H. exists (e, i). split; [exact H|]. simpl. rewrite N.eqb_refl, item_eqb_refl. reflexivity.
Qed.

(* ---------- the bus ---------- *)

Lemma subscribe_In i j b : In j (subscribe i b) <-> j = i \/ In j b.
Proof.
  unfold subscribe. destruct (existsb (item_eqb i) b) eqn:E.
  - split; [intros H; right; exact H|]. intros [H | H]; [|exact H].
    subst. apply existsb_exists in E. destruct E as [k [Hk Ek]]. apply item_eqb_eq in Ek. subst. exact Hk.
  - rewrite in_app_iff. simpl. split.
    + intros [H | [H | []]]; [right; exact H | left; symmetry; exact H].
    + intros [H | H]; [right; left; symmetry; exact H | left; exact H].
Qed.

Lemma NoDup_snoc {A} (l : list A) x : NoDup l -> ~ In x l -> NoDup (l ++ [x]).
Proof.
  induction l as [|y r IH]; intros Hn Hx; simpl.
  - constructor; [intros [] | constructor].
  - inversion Hn as [|? ? Hy Hr]; subst. constructor.
    + rewrite in_app_iff. simpl. intros [H | [H | []]]; [contradiction|]. subst. apply Hx. left. reflexivity.
    + apply IH; [exact Hr|]. intros H. apply Hx. right. exact H.
Qed.

Lemma subscribe_NoDup i b : NoDup b -> NoDup (subscribe i b).
Proof.
  intros Hn. unfold subscribe. destruct (existsb (item_eqb i) b) eqn:E; [exact Hn|].
  apply NoDup_snoc; [exact Hn|].
  intros Hi. assert (existsb (item_eqb i) b = true) as C.
  { apply existsb_exists. exists i. split; [exact Hi | apply item_eqb_refl]. }
  congruence.
Qed.

Lemma unsubscribe_In i j b : In j (unsubscribe i b) <-> j <> i /\ In j b.
Proof.
  unfold unsubscribe. rewrite filter_In, negb_true_iff, item_eqb_neq. split.
  - intros [H1 H2]. split; [intros E; apply H2; symmetry; exact E | exact H1].
  - intros [H1 H2]. split; [exact H2 | intros E; apply H1; symmetry; exact E].
Qed.

Lemma unsubscribe_NoDup i b : NoDup b -> NoDup (unsubscribe i b).
Proof. intros H. unfold unsubscribe. apply NoDup_filter. exact H. Qed.

Lemma subscribe_idem i b : subscribe i (subscribe i b) = subscribe i b.
Proof.
  unfold subscribe at 1. 
  assert (existsb (item_eqb i) (subscribe i b) = true) as E.
  { apply existsb_exists. exists i. split; [apply subscribe_In; left; reflexivity | apply item_eqb_refl]. }
  rewrite E. reflexivity.
Qed.

Lemma set_add_In i j l : In j (set_add i l) <-> j = i \/ In j l.
Proof.
  unfold set_add. destruct (mem_item i l) eqn:E.
  - apply mem_item_In in E. split; [intros H; right; exact H|]. intros [H | H]; [subst; exact E | exact H].
  - simpl. split; intros [H | H]; auto.
Qed.

Lemma set_remove_In i j l : In j (set_remove i l) <-> j <> i /\ In j l.
Proof. apply unsubscribe_In. Qed.

Lemma handlers_of_In l c b : In c (handlers_of l b) <-> In (l, c) b.
Proof.
  induction b as [|[l' h] r IH]; simpl; [tauto|].
  destruct (level_eqb l l') eqn:E.
  - apply level_eqb_eq in E. subst. simpl. rewrite IH. split.
    + intros [H | H]; [left; subst; reflexivity | right; exact H].
    + intros [H | H]; [left; inversion H; reflexivity | right; exact H].
  - rewrite IH. split; [intros H; right; exact H|]. intros [H | H]; [|exact H].
    assert (level_eqb l l' = true) as C by (apply level_eqb_eq; congruence). congruence.
Qed.

Lemma handlers_of_NoDup l b : NoDup b -> NoDup (handlers_of l b).
Proof.
  induction b as [|[l' h] r IH]; simpl; intros Hn; [constructor|].
  inversion Hn as [|? ? Hx Hr]; subst.
  destruct (level_eqb l l') eqn:E; [|apply IH; exact Hr].
  apply level_eqb_eq in E. subst. constructor; [|apply IH; exact Hr].
  rewrite handlers_of_In. exact Hx.
Qed.

Lemma script_of_set i j a sc :
  script_of i (set_script j a sc) = if item_eqb i j then a else script_of i sc.
Proof.
  induction sc as [|[k b] r IH]; simpl.
  - destruct (item_eqb i j); reflexivity.
  - destruct (item_eqb j k) eqn:Ejk; simpl.
    + apply item_eqb_eq in Ejk. subst k. destruct (item_eqb i j); reflexivity.
    + destruct (item_eqb i k) eqn:Eik.
      * apply item_eqb_eq in Eik. subst k.
        destruct (item_eqb i j) eqn:Eij; [|reflexivity].
        apply item_eqb_eq in Eij. subst. rewrite item_eqb_refl in Ejk. discriminate.
      * exact IH.
Qed.

(* ---------- generic list facts ---------- *)

Lemma NoDup_app_parts {A} (a b : list A) :
  NoDup (a ++ b) -> NoDup a /\ NoDup b /\ (forall x, In x a -> In x b -> False).
Proof.
  induction a as [|x r IH]; simpl; intros H.
  - split; [constructor | split; [exact H | intros x []]].
  - inversion H as [|? ? Hx Hr]; subst. destruct (IH Hr) as [Ha [Hb Hd]].
    split; [|split; [exact Hb|]].
    + constructor; [|exact Ha]. intros Hi. apply Hx. apply in_app_iff. left. exact Hi.
    + intros y [Hy | Hy] Hyb; [subst; apply Hx; apply in_app_iff; right; exact Hyb | exact (Hd y Hy Hyb)].
Qed.

Lemma NoDup_app_build {A} (a b : list A) :
  NoDup a -> NoDup b -> (forall x, In x a -> In x b -> False) -> NoDup (a ++ b).
Proof.
  induction a as [|x r IH]; simpl; intros Ha Hb Hd; [exact Hb|].
  inversion Ha as [|? ? Hx Hr]; subst. constructor.
  - rewrite in_app_iff. intros [H | H]; [contradiction | exact (Hd x (or_introl eq_refl) H)].
  - apply IH; [exact Hr | exact Hb|]. intros y Hy. apply Hd. right. exact Hy.
Qed.

(* replace the first part by a duplicate-free part that claims no more *)
Lemma NoDup_app_shrink {A} (a a' b : list A) :
  NoDup (a ++ b) -> NoDup a' -> incl a' a -> NoDup (a' ++ b).
Proof.
  intros H Ha' Hi. destruct (NoDup_app_parts _ _ H) as [_ [Hb Hd]].
  apply NoDup_app_build; [exact Ha' | exact Hb|]. intros x Hx. apply Hd. apply Hi. exact Hx.
Qed.

Lemma NoDup_map_inj {A B} (f : A -> B) l :
  (forall x y, f x = f y -> x = y) -> NoDup l -> NoDup (map f l).
Proof.
  intros Hf. induction l as [|x r IH]; simpl; intros Hn; [constructor|].
  inversion Hn as [|? ? Hx Hr]; subst. constructor; [|apply IH; exact Hr].
  rewrite in_map_iff. intros [y [Hy Hin]]. apply Hf in Hy. subst. contradiction.
Qed.

(* ---------- claims ---------- *)

Inductive claim := Open (e : N) | Pend (e : N) (i : item).

Definition claims (x : tid * tstate) : list claim :=
  match snd x with
  | TNew h e => [Pend e (App, h)]
  | TRun _ => []
  | TSnap e snap _ => Open e :: map (Pend e) snap
  | TCore e _ cs aps _ =>
      Open e :: map (fun c => Pend e (Core, c)) cs ++ map (fun h => Pend e (App, h)) aps
  | TRel e _ => [Open e]
  end.

Definition all_claims (l : list (tid * tstate)) : list claim := flat_map claims l.

Definition exp_of (m : mst) (e : N) := assoc_N e (m_exp m).
Definition pub_of (m : mst) (e : N) := assoc_N e (m_pub m).
Definition known (m : mst) (e : N) : Prop := exists X, exp_of m e = Some X.

Definition valid (m : mst) (c : claim) : Prop :=
  match c with
  | Open e => known m e /\ ~ In e (m_ret m)
  | Pend e i => (exists X, exp_of m e = Some X /\ In i X) /\ ~ In (e, i) (m_del m)
  end.

Definition cores_done (m : mst) (e : N) : Prop :=
  forall X c, exp_of m e = Some X -> In (Core, c) X -> In (e, (Core, c)) (m_del m).

Definition local (m : mst) (x : tid * tstate) : Prop :=
  match snd x with
  | TNew h e => fst x = Hdl h e /\ cores_done m e
  | TRun _ => True
  | TSnap e _ _ => pub_of m e = Some (fst x)
  | TCore e cur _ _ _ => pub_of m e = Some (fst x) /\ no_pub cur = true
  | TRel e _ => pub_of m e = Some (fst x) /\ cores_done m e
  end.

Definition holder (x : tid * tstate) : Prop :=
  match snd x with
  | TCore _ _ _ _ _ | TRel _ _ => True
  | _ => False
  end.

Record InvC (b : list item) (sc : list (item * list act)) (lk : bool)
            (thr : list (tid * tstate)) (nx : N) (m : mst) : Prop := {
  i_set : forall i, In i (m_set m) <-> In i b;
  i_bus : NoDup b;
  i_nodup : NoDup (all_claims thr);
  i_valid : forall c, In c (all_claims thr) -> valid m c;
  i_local : Forall (local m) thr;
  i_pend : forall e X i, exp_of m e = Some X -> In i X ->
             In (e, i) (m_del m) \/ In (Pend e i) (all_claims thr);
  i_open : forall e, known m e -> In e (m_ret m) \/ In (Open e) (all_claims thr);
  i_lock : lk = true -> exists x, In x thr /\ holder x;
  i_fresh : forall e, known m e -> (e < nx)%N;
  i_ret : forall e, In e (m_ret m) -> known m e;
  i_del : forall e i, In (e, i) (m_del m) -> known m e;
  i_scr : forall c, no_pub (script_of (Core, c) sc) = true
}.

Definition Inv (s : st) (m : mst) : Prop :=
  InvC (bus s) (scripts s) (locked s) (threads s) (next_e s) m.

Lemma all_claims_perm l l' : Permutation l l' -> Permutation (all_claims l) (all_claims l').
Proof. intros H. unfold all_claims. apply Permutation_flat_map. exact H. Qed.

Lemma InvC_perm b sc lk thr thr' nx m :
  Permutation thr thr' -> InvC b sc lk thr nx m -> InvC b sc lk thr' nx m.
Proof.
  intros Hp [H1 H2 H3 H4 H5 H6 H7 H8 H9 H10 H11 H12].
  pose proof (all_claims_perm _ _ Hp) as Hc.
  constructor; try assumption.
  - eapply Permutation_NoDup; eassumption.
  - intros c Hin. apply H4. eapply Permutation_in; [apply Permutation_sym; exact Hc | exact Hin].
  - eapply Permutation_Forall; eassumption.
  - intros e X i He Hi. destruct (H6 e X i He Hi) as [H | H]; [left; exact H | right].
    eapply Permutation_in; eassumption.
  - intros e He. destruct (H7 e He) as [H | H]; [left; exact H | right].
    eapply Permutation_in; eassumption.
  - intros Hl. destruct (H8 Hl) as [x [Hx Hh]]. exists x. split; [|exact Hh].
    eapply Permutation_in; eassumption.
Qed.

(* a thread without claims that does not hold the lock can leave the table *)
Lemma InvC_drop b sc lk x thr nx m :
  claims x = [] -> ~ holder x -> InvC b sc lk (x :: thr) nx m -> InvC b sc lk thr nx m.
Proof.
  intros Hc Hh [H1 H2 H3 H4 H5 H6 H7 H8 H9 H10 H11 H12].
  unfold all_claims in *. simpl in *. rewrite Hc in *. simpl in *.
  constructor; try assumption.
  - inversion H5; assumption.
  - intros Hl. destruct (H8 Hl) as [y [[Hy | Hy] Hhy]]; [subst; contradiction|].
    exists y. split; assumption.
Qed.

(* ---------- monitor updates ---------- *)

Definition m_deliver (m : mst) (e : N) (i : item) : mst :=
  {| m_set := m_set m; m_exp := m_exp m; m_pub := m_pub m; m_del := (e, i) :: m_del m; m_ret := m_ret m |}.
Definition m_return (m : mst) (e : N) : mst :=
  {| m_set := m_set m; m_exp := m_exp m; m_pub := m_pub m; m_del := m_del m; m_ret := e :: m_ret m |}.
Definition m_snap (m : mst) (e : N) (t : tid) : mst :=
  {| m_set := m_set m; m_exp := (e, m_set m) :: m_exp m; m_pub := (e, t) :: m_pub m;
     m_del := m_del m; m_ret := m_ret m |}.
Definition m_setto (m : mst) (l : list item) : mst :=
  {| m_set := l; m_exp := m_exp m; m_pub := m_pub m; m_del := m_del m; m_ret := m_ret m |}.

Lemma valid_deliver m e i c : valid m c -> c <> Pend e i -> valid (m_deliver m e i) c.
Proof.
  destruct c as [e' | e' i']; simpl; intros H Hn; [exact H|].
  destruct H as [H1 H2]. split; [exact H1|]. intros [E | E]; [inversion E; subst; apply Hn; reflexivity | contradiction].
Qed.

Lemma valid_return m e c : valid m c -> c <> Open e -> valid (m_return m e) c.
Proof.
  destruct c as [e' | e' i']; simpl; intros H Hn; [|exact H].
  destruct H as [H1 H2]. split; [exact H1|]. intros [E | E]; [subst; apply Hn; reflexivity | contradiction].
Qed.

Lemma exp_of_snap_other m e t e' : e' <> e -> exp_of (m_snap m e t) e' = exp_of m e'.
Proof. intros H. unfold exp_of. simpl. apply N.eqb_neq in H. rewrite H. reflexivity. Qed.

Lemma pub_of_snap_other m e t e' : e' <> e -> pub_of (m_snap m e t) e' = pub_of m e'.
Proof. intros H. unfold pub_of. simpl. apply N.eqb_neq in H. rewrite H. reflexivity. Qed.

Lemma exp_of_snap_same m e t : exp_of (m_snap m e t) e = Some (m_set m).
Proof. unfold exp_of. simpl. rewrite N.eqb_refl. reflexivity. Qed.

Lemma known_snap m e t e' : known m e' -> known (m_snap m e t) e'.
Proof.
  intros [X HX]. destruct (N.eq_dec e' e) as [E | E].
  - subst. exists (m_set m). apply exp_of_snap_same.
  - exists X. rewrite exp_of_snap_other; assumption.
Qed.

Lemma valid_snap m e t c : ~ known m e -> valid m c -> valid (m_snap m e t) c.
Proof.
  intros Hk. destruct c as [e' | e' i']; simpl.
  - intros [H1 H2]. split; [apply known_snap; exact H1 | exact H2].
  - intros [[X [H1 H1']] H2]. split; [|exact H2]. exists X. split; [|exact H1'].
    rewrite exp_of_snap_other; [exact H1|]. intros E. subst. apply Hk. exists X. exact H1.
Qed.

Lemma cores_done_deliver m e i e' : cores_done m e' -> cores_done (m_deliver m e i) e'.
Proof. intros H X c HX Hc. simpl. right. exact (H X c HX Hc). Qed.

Lemma local_deliver m e i x : local m x -> local (m_deliver m e i) x.
Proof.
  unfold local. destruct (snd x); try (intros H; exact H).
  - intros [H1 H2]. split; [exact H1 | apply cores_done_deliver; exact H2].
  - intros [H1 H2]. split; [exact H1 | apply cores_done_deliver; exact H2].
Qed.

Lemma local_snap m e t x :
  ~ known m e -> (forall c, In c (claims x) -> valid m c) -> local m x -> local (m_snap m e t) x.
Proof.
  intros Hk Hv. unfold local, claims in *. destruct (snd x) as [h e' | a | e' sn r | e' cur cs aps r | e' r].
  - intros [H1 H2]. split; [exact H1|].
    assert (e' <> e) as Hne.
    { destruct (Hv (Pend e' (App, h)) (or_introl eq_refl)) as [[X [HX _]] _]. intros E. subst. apply Hk. exists X. exact HX. }
    intros X c HX Hc. rewrite exp_of_snap_other in HX by exact Hne. exact (H2 X c HX Hc).
  - trivial.
  - intros H. destruct (Hv (Open e') (or_introl eq_refl)) as [Hke _].
    rewrite pub_of_snap_other; [exact H|]. intros E. subst. contradiction.
  - intros [H H']. destruct (Hv (Open e') (or_introl eq_refl)) as [Hke _]. split; [|exact H'].
    rewrite pub_of_snap_other; [exact H|]. intros E. subst. contradiction.
  - intros [H H']. destruct (Hv (Open e') (or_introl eq_refl)) as [Hke _].
    assert (e' <> e) as Hne by (intros E; subst; contradiction).
    split; [rewrite pub_of_snap_other; assumption|].
    intros X c HX Hc. rewrite exp_of_snap_other in HX by exact Hne. exact (H' X c HX Hc).
Qed.

(* ---------- what the monitor answers ---------- *)

Lemma memN_false x l : ~ In x l -> memN x l = false.
Proof. intros H. destruct (memN x l) eqn:E; [apply memN_In in E; contradiction | reflexivity]. Qed.

Lemma mem_del_false e i l : ~ In (e, i) l -> mem_del e i l = false.
Proof. intros H. destruct (mem_del e i l) eqn:E; [apply mem_del_In in E; contradiction | reflexivity]. Qed.

Lemma tid_eqb_refl t : tid_eqb t t = true.
Proof. apply tid_eqb_eq. reflexivity. Qed.

Lemma cores_called_true m e X : cores_done m e -> exp_of m e = Some X -> cores_called e X (m_del m) = true.
Proof.
  intros Hd HX. unfold cores_called. apply forallb_forall. intros [l c] Hi. simpl.
  destruct l; [|reflexivity]. apply mem_del_In. exact (Hd X c HX Hi).
Qed.

Lemma mon_deliver_app m t h e X :
  exp_of m e = Some X -> In (App, h) X -> ~ In (e, (App, h)) (m_del m) -> cores_done m e -> t = Hdl h e ->
  mon_obs m (ODeliver t App h e) = (m_deliver m e (App, h), []).
Proof.
  intros HX Hi Hd Hc Ht. cbn [mon_obs]. unfold exp_of in HX. rewrite HX.
  apply mem_item_In in Hi. rewrite Hi. rewrite (mem_del_false _ _ _ Hd).
  rewrite (cores_called_true m e X Hc HX). subst t. rewrite tid_eqb_refl. reflexivity.
Qed.

Lemma mon_deliver_core m t c e X :
  exp_of m e = Some X -> In (Core, c) X -> ~ In (e, (Core, c)) (m_del m) ->
  pub_of m e = Some t -> ~ In e (m_ret m) ->
  mon_obs m (ODeliver t Core c e) = (m_deliver m e (Core, c), []).
Proof.
  intros HX Hi Hd Hp Hr. cbn [mon_obs]. unfold exp_of in HX. rewrite HX.
  apply mem_item_In in Hi. rewrite Hi. rewrite (mem_del_false _ _ _ Hd).
  unfold pub_is. unfold pub_of in Hp. rewrite Hp, tid_eqb_refl, (memN_false _ _ Hr). reflexivity.
Qed.

Lemma mon_return m t e X :
  exp_of m e = Some X -> cores_done m e -> pub_of m e = Some t ->
  mon_obs m (OReturn t e) = (m_return m e, []).
Proof.
  intros HX Hc Hp. cbn [mon_obs]. pose proof (cores_called_true m e X Hc HX) as Hcc.
  unfold exp_of in HX. rewrite HX, Hcc. unfold pub_is. unfold pub_of in Hp. rewrite Hp, tid_eqb_refl. reflexivity.
Qed.

Lemma mon_snap m t e : ~ known m e -> mon_obs m (OSnap t e) = (m_snap m e t, []).
Proof.
  intros Hk. cbn [mon_obs]. destruct (assoc_N e (m_exp m)) eqn:E; [|reflexivity].
  exfalso. apply Hk. eexists. exact E.
Qed.

(* ---------- invariant transformers ---------- *)

Lemma InvC_set b b' sc lk thr nx m l' :
  (forall i, In i l' <-> In i b') -> NoDup b' ->
  InvC b sc lk thr nx m -> InvC b' sc lk thr nx (m_setto m l').
Proof.
  intros Hs Hn [H1 H2 H3 H4 H5 H6 H7 H8 H9 H10 H11 H12].
  constructor; assumption.
Qed.

Lemma InvC_replace b sc lk x x' thr nx m :
  claims x' = claims x -> (local m x -> local m x') -> (holder x -> holder x') ->
  InvC b sc lk (x :: thr) nx m -> InvC b sc lk (x' :: thr) nx m.
Proof.
  intros Hc Hl Hh [H1 H2 H3 H4 H5 H6 H7 H8 H9 H10 H11 H12].
  unfold all_claims in *. simpl in *. rewrite <- Hc in *.
  constructor; try assumption.
  - inversion H5; subst. constructor; [apply Hl; assumption | assumption].
  - intros Hlk. destruct (H8 Hlk) as [y [[Hy | Hy] Hhy]].
    + subst. exists x'. split; [left; reflexivity | apply Hh; exact Hhy].
    + exists y. split; [right; exact Hy | exact Hhy].
Qed.

(* ---------- one atomic step of one thread, case by case ---------- *)

Ltac unfold_claims := unfold all_claims in *; cbn [flat_map claims snd fst app map] in *.

(* a started goroutine enters its application handler *)
Lemma step_new b sc lk t h e a thr nx m :
  InvC b sc lk ((t, TNew h e) :: thr) nx m ->
  mon_obs m (ODeliver t App h e) = (m_deliver m e (App, h), []) /\
  InvC b sc lk ((t, TRun a) :: thr) nx (m_deliver m e (App, h)).
Proof.
  intros [H1 H2 H3 H4 H5 H6 H7 H8 H9 H10 H11 H12]. unfold_claims.
  destruct (H4 _ (or_introl eq_refl)) as [[X [HX HiX]] Hnd].
  inversion H5 as [|? ? Hloc Hrest]; subst. destruct Hloc as [Ht Hcd]. cbn [fst] in Ht.
  inversion H3 as [|? ? Hnotin Hnd']; subst.
  split; [eapply mon_deliver_app; try eassumption; reflexivity|].
  constructor; try assumption; unfold_claims.
  - intros c Hc. apply valid_deliver; [apply H4; right; exact Hc|]. intros E. subst c. contradiction.
  - constructor; [exact I|]. eapply Forall_impl; [|exact Hrest]. intros y. apply local_deliver.
  - intros e' X' i' He' Hi'. destruct (H6 e' X' i' He' Hi') as [H | [H | H]].
    + left. right. exact H.
    + left. left. inversion H. reflexivity.
    + right. exact H.
  - intros e' He'. destruct (H7 e' He') as [H | [H | H]]; [left; exact H | discriminate | right; exact H].
  - intros Hlk. destruct (H8 Hlk) as [y [[Hy | Hy] Hh]]; [subst y; destruct Hh|].
    exists y. split; [right; exact Hy | exact Hh].
  - intros e' i' [E | E]; [inversion E; subst; exists X; exact HX | exact (H11 e' i' E)].
Qed.

(* Publish is called: the handler list is copied under mu *)
Lemma step_snap b sc lk t r thr nx m :
  InvC b sc lk ((t, TRun (APub :: r)) :: thr) nx m ->
  mon_obs m (OSnap t nx) = (m_snap m nx t, []) /\
  InvC b sc lk ((t, TSnap nx b r) :: thr) (N.succ nx) (m_snap m nx t).
Proof.
  intros [H1 H2 H3 H4 H5 H6 H7 H8 H9 H10 H11 H12]. unfold_claims.
  assert (~ known m nx) as Hk. { intros Hk. apply H9 in Hk. lia. }
  split; [apply mon_snap; exact Hk|].
  assert (forall c, In c (flat_map claims thr) -> forall e', (c = Open e' \/ exists i, c = Pend e' i) -> e' <> nx) as Hold.
  { intros c Hc e' Hs E. subst e'. apply Hk. specialize (H4 c Hc).
    destruct Hs as [Hs | [i Hs]]; subst c; simpl in H4.
    - destruct H4 as [Hkn _]. exact Hkn.
    - destruct H4 as [[X [HX _]] _]. exists X. exact HX. }
  inversion H5 as [|? ? _ Hrest]; subst.
  constructor; try assumption; unfold_claims.
  - (* distinct claims *)
    change (NoDup ((Open nx :: map (Pend nx) b) ++ flat_map claims thr)).
    apply NoDup_app_build; [| exact H3 |].
    + constructor.
      * rewrite in_map_iff. intros [i [Hi _]]. discriminate.
      * apply NoDup_map_inj; [intros x y E; inversion E; reflexivity | exact H2].
    + intros c [Hc | Hc] Hc'.
      * subst c. exact (Hold _ Hc' nx (or_introl eq_refl) eq_refl).
      * apply in_map_iff in Hc. destruct Hc as [i [Hc _]]. subst c.
        exact (Hold _ Hc' nx (or_intror (ex_intro _ i eq_refl)) eq_refl).
  - intros c [Hc | Hc].
    + subst c. simpl. split; [exists (m_set m); apply exp_of_snap_same|].
      intros Hr. apply Hk. apply H10. exact Hr.
    + apply in_app_iff in Hc. destruct Hc as [Hc | Hc].
      * apply in_map_iff in Hc. destruct Hc as [i [Hc Hi]]. subst c. simpl. split.
        -- exists (m_set m). split; [apply exp_of_snap_same | apply H1; exact Hi].
        -- intros Hd. apply Hk. exact (H11 _ _ Hd).
      * apply valid_snap; [exact Hk | apply H4; exact Hc].
  - constructor.
    + unfold local. cbn [snd fst]. unfold pub_of. simpl. rewrite N.eqb_refl. reflexivity.
    + apply Forall_forall. intros y Hy. apply local_snap; [exact Hk | | exact (proj1 (Forall_forall _ _) Hrest y Hy)].
      intros c Hc. apply H4. apply in_flat_map. exists y. split; assumption.
  - intros e' X' i' He' Hi'. destruct (N.eq_dec e' nx) as [E | E].
    + subst e'. rewrite exp_of_snap_same in He'. inversion He'; subst X'. right. right.
      apply in_app_iff. left. apply in_map. apply H1. exact Hi'.
    + rewrite exp_of_snap_other in He' by exact E.
      destruct (H6 e' X' i' He' Hi') as [H | H]; [left; exact H | right; right; apply in_app_iff; right; exact H].
  - intros e' He'. destruct (N.eq_dec e' nx) as [E | E].
    + subst e'. right. left. reflexivity.
    + assert (known m e') as Hke.
      { destruct He' as [X HX]. rewrite exp_of_snap_other in HX by exact E. exists X. exact HX. }
      destruct (H7 e' Hke) as [H | H]; [left; exact H | right; right; apply in_app_iff; right; exact H].
  - intros Hlk. destruct (H8 Hlk) as [y [[Hy | Hy] Hh]]; [subst y; destruct Hh|].
    exists y. split; [right; exact Hy | exact Hh].
  - intros e' He'. destruct (N.eq_dec e' nx) as [E | E]; [subst; lia|].
    assert (known m e') as Hke.
    { destruct He' as [X HX]. rewrite exp_of_snap_other in HX by exact E. exists X. exact HX. }
    apply H9 in Hke. lia.
  - intros e' He'. apply known_snap. apply H10. exact He'.
  - intros e' i' He'. apply known_snap. exact (H11 e' i' He').
Qed.

Lemma snap_claims_split e snap c :
  In c (map (fun c => Pend e (Core, c)) (handlers_of Core snap) ++ map (fun h => Pend e (App, h)) (handlers_of App snap))
  <-> In c (map (Pend e) snap).
Proof.
  rewrite in_app_iff, !in_map_iff. split.
  - intros [[x [Hx Hi]] | [x [Hx Hi]]]; apply handlers_of_In in Hi; eexists; split; eassumption.
  - intros [[l x] [Hx Hi]]. destruct l; [left | right]; exists x; (split; [exact Hx | apply handlers_of_In; exact Hi]).
Qed.

Lemma snap_claims_NoDup e snap :
  NoDup snap ->
  NoDup (map (fun c => Pend e (Core, c)) (handlers_of Core snap) ++ map (fun h => Pend e (App, h)) (handlers_of App snap)).
Proof.
  intros Hn. apply NoDup_app_build.
  - apply NoDup_map_inj; [intros x y E; inversion E; reflexivity | apply handlers_of_NoDup; exact Hn].
  - apply NoDup_map_inj; [intros x y E; inversion E; reflexivity | apply handlers_of_NoDup; exact Hn].
  - intros c H1 H2. apply in_map_iff in H1. apply in_map_iff in H2.
    destruct H1 as [x [Hx _]]. destruct H2 as [y [Hy _]]. subst c. discriminate.
Qed.

(* muHandle acquired *)
Lemma step_lock b sc lk t e snap r thr nx m :
  InvC b sc lk ((t, TSnap e snap r) :: thr) nx m ->
  InvC b sc true ((t, TCore e [] (handlers_of Core snap) (handlers_of App snap) r) :: thr) nx m.
Proof.
  intros [H1 H2 H3 H4 H5 H6 H7 H8 H9 H10 H11 H12]. unfold_claims.
  set (cl := map (fun c => Pend e (Core, c)) (handlers_of Core snap) ++ map (fun h => Pend e (App, h)) (handlers_of App snap)) in *.
  assert (NoDup (map (Pend e) snap)) as Hns.
  { inversion H3 as [|? ? _ Hn]; subst. apply NoDup_app_parts in Hn. tauto. }
  assert (NoDup snap) as Hsn by (eapply NoDup_map_inv; exact Hns).
  inversion H5 as [|? ? Hloc Hrest]; subst.
  constructor; try assumption; unfold_claims; fold cl.
  - change (NoDup ((Open e :: cl) ++ flat_map claims thr)).
    apply NoDup_app_shrink with (a := Open e :: map (Pend e) snap); [exact H3 | |].
    + constructor; [|apply snap_claims_NoDup; exact Hsn].
      unfold cl. rewrite snap_claims_split. rewrite in_map_iff. intros [i [Hi _]]. discriminate.
    + intros c [Hc | Hc]; [left; exact Hc | right]. unfold cl in Hc. apply snap_claims_split in Hc. exact Hc.
  - intros c Hc. apply H4. destruct Hc as [Hc | Hc]; [left; exact Hc | right].
    apply in_app_iff in Hc. apply in_app_iff. destruct Hc as [Hc | Hc]; [left | right; exact Hc].
    apply snap_claims_split. exact Hc.
  - constructor; [|exact Hrest]. unfold local in *. cbn [snd fst] in *. split; [exact Hloc | reflexivity].
  - intros e' X' i' He' Hi'. destruct (H6 e' X' i' He' Hi') as [H | H]; [left; exact H | right].
    destruct H as [H | H]; [left; exact H | right].
    apply in_app_iff in H. apply in_app_iff. destruct H as [H | H]; [left | right; exact H].
    apply snap_claims_split. exact H.
  - intros e' He'. destruct (H7 e' He') as [H | H]; [left; exact H | right].
    destruct H as [H | H]; [left; exact H | right].
    apply in_app_iff in H. apply in_app_iff. destruct H as [H | H]; [|right; exact H].
    apply in_map_iff in H. destruct H as [i [Hi _]]. discriminate.
  - intros _. eexists. split; [left; reflexivity | exact I].
Qed.

(* the next core handler is called, synchronously, by the publisher *)
Lemma step_core b sc lk t e c cs aps r thr nx m :
  InvC b sc lk ((t, TCore e [] (c :: cs) aps r) :: thr) nx m ->
  mon_obs m (ODeliver t Core c e) = (m_deliver m e (Core, c), []) /\
  InvC b sc lk ((t, TCore e (script_of (Core, c) sc) cs aps r) :: thr) nx (m_deliver m e (Core, c)).
Proof.
  intros [H1 H2 H3 H4 H5 H6 H7 H8 H9 H10 H11 H12]. unfold_claims.
  set (rest := map (fun c => Pend e (Core, c)) cs ++ map (fun h => Pend e (App, h)) aps) in *.
  destruct (H4 (Pend e (Core, c)) (or_intror (or_introl eq_refl))) as [[X [HX HiX]] Hnd].
  destruct (H4 (Open e) (or_introl eq_refl)) as [_ Hnr].
  inversion H5 as [|? ? Hloc Hrest]; subst. destruct Hloc as [Hp _]. cbn [fst] in Hp.
  split; [eapply mon_deliver_core; eassumption|].
  assert (NoDup ((Open e :: rest) ++ flat_map claims thr) /\ ~ In (Pend e (Core, c)) ((Open e :: rest) ++ flat_map claims thr)) as [Hn Hni].
  { change (NoDup ([Open e] ++ Pend e (Core, c) :: rest ++ flat_map claims thr)) in H3.
    apply NoDup_remove in H3. exact H3. }
  constructor; try assumption; unfold_claims; fold rest.
  - intros x Hx. apply valid_deliver.
    + apply H4. destruct Hx as [Hx | Hx]; [left; exact Hx | right; right; exact Hx].
    + intros E. subst x. apply Hni. exact Hx.
  - constructor.
    + unfold local. cbn [snd fst]. split; [exact Hp | apply H12].
    + eapply Forall_impl; [|exact Hrest]. intros y. apply local_deliver.
  - intros e' X' i' He' Hi'. destruct (H6 e' X' i' He' Hi') as [H | [H | [H | H]]].
    + left. right. exact H.
    + discriminate.
    + left. left. inversion H. reflexivity.
    + right. right. exact H.
  - intros e' He'. destruct (H7 e' He') as [H | [H | [H | H]]];
      [left; exact H | right; left; exact H | discriminate | right; right; exact H].
  - intros Hlk. eexists. split; [left; reflexivity | exact I].
  - intros e' i' [E | E]; [inversion E; subst; exists X; exact HX | exact (H11 e' i' E)].
Qed.

Lemma InvC_change b sc lk lk' thr thr' nx m :
  Permutation (all_claims thr) (all_claims thr') -> Forall (local m) thr' ->
  (lk' = true -> exists x, In x thr' /\ holder x) ->
  InvC b sc lk thr nx m -> InvC b sc lk' thr' nx m.
Proof.
  intros Hc Hl Hh [H1 H2 H3 H4 H5 H6 H7 H8 H9 H10 H11 H12].
  constructor; try assumption.
  - eapply Permutation_NoDup; eassumption.
  - intros c Hin. apply H4. eapply Permutation_in; [apply Permutation_sym; exact Hc | exact Hin].
  - intros e X i He Hi. destruct (H6 e X i He Hi) as [H | H]; [left; exact H | right].
    eapply Permutation_in; eassumption.
  - intros e He. destruct (H7 e He) as [H | H]; [left; exact H | right].
    eapply Permutation_in; eassumption.
Qed.

Lemma spawned_claims e aps :
  flat_map claims (map (fun h => (Hdl h e, TNew h e)) aps) = map (fun h => Pend e (App, h)) aps.
Proof. induction aps as [|h r IH]; simpl; [reflexivity | rewrite IH; reflexivity]. Qed.

Lemma pend_core_open y e c : In (Pend e (Core, c)) (claims y) -> In (Open e) (claims y).
Proof.
  unfold claims. destruct (snd y) as [h e' | a | e' sn r | e' cur cs aps r | e' r]; simpl.
  - intros [H | []]. discriminate.
  - intros [].
  - intros [H | H]; [discriminate|]. apply in_map_iff in H. destruct H as [i [Hi _]]. inversion Hi. left. reflexivity.
  - intros [H | H]; [discriminate|]. apply in_app_iff in H. destruct H as [H | H]; apply in_map_iff in H;
      destruct H as [i [Hi _]]; inversion Hi; left; reflexivity.
  - intros [H | []]. discriminate.
Qed.

(* all core handlers done: one goroutine per application handler *)
Lemma step_spawn b sc lk t e aps r thr nx m :
  InvC b sc lk ((t, TCore e [] [] aps r) :: thr) nx m ->
  InvC b sc lk (map (fun h => (Hdl h e, TNew h e)) aps ++ (t, TRel e r) :: thr) nx m.
Proof.
  intros HI. pose proof HI as [H1 H2 H3 H4 H5 H6 H7 H8 H9 H10 H11 H12]. unfold_claims.
  inversion H5 as [|? ? Hloc Hrest]; subst. destruct Hloc as [Hp _]. cbn [fst] in Hp.
  assert (cores_done m e) as Hcd.
  { intros X c HX Hc. destruct (H6 e X (Core, c) HX Hc) as [H | H]; [exact H | exfalso].
    destruct H as [H | H]; [discriminate|]. apply in_app_iff in H. destruct H as [H | H].
    - apply in_map_iff in H. destruct H as [h [Hh _]]. discriminate.
    - apply in_flat_map in H. destruct H as [y [Hy Hcy]]. apply pend_core_open in Hcy.
      inversion H3 as [|? ? Hni _]; subst. apply Hni. apply in_app_iff. right.
      apply in_flat_map. exists y. split; assumption. }
  eapply InvC_change; [| | |exact HI].
  - unfold all_claims. rewrite flat_map_app, spawned_claims. cbn [flat_map claims snd app map].
    apply Permutation_middle.
  - apply Forall_app. split.
    + apply Forall_forall. intros y Hy. apply in_map_iff in Hy. destruct Hy as [h [Hy _]]. subst y.
      unfold local. cbn [snd fst]. split; [reflexivity | exact Hcd].
    + constructor; [|exact Hrest]. unfold local. cbn [snd fst]. split; [exact Hp | exact Hcd].
  - intros _. exists (t, TRel e r). split; [apply in_app_iff; right; left; reflexivity | exact I].
Qed.

(* muHandle released, Publish returns *)
Lemma step_release b sc lk t e r thr nx m :
  InvC b sc lk ((t, TRel e r) :: thr) nx m ->
  mon_obs m (OReturn t e) = (m_return m e, []) /\
  InvC b sc false ((t, TRun r) :: thr) nx (m_return m e).
Proof.
  intros [H1 H2 H3 H4 H5 H6 H7 H8 H9 H10 H11 H12]. unfold_claims.
  destruct (H4 (Open e) (or_introl eq_refl)) as [[X HX] Hnr].
  inversion H5 as [|? ? Hloc Hrest]; subst. destruct Hloc as [Hp Hcd]. cbn [fst] in Hp.
  inversion H3 as [|? ? Hni Hnd]; subst.
  split; [eapply mon_return; eassumption|].
  constructor; try assumption; unfold_claims.
  - intros c Hc. apply valid_return; [apply H4; right; exact Hc|]. intros E. subst c. contradiction.
  - constructor; [exact I | exact Hrest].
  - intros e' X' i' He' Hi'. destruct (H6 e' X' i' He' Hi') as [H | [H | H]];
      [left; exact H | discriminate | right; exact H].
  - intros e' He'. destruct (H7 e' He') as [H | [H | H]].
    + left. right. exact H.
    + left. left. inversion H. reflexivity.
    + right. exact H.
  - discriminate.
  - intros e' [E | E]; [subst; exists X; exact HX | exact (H10 e' E)].
Qed.

Lemma mon_list_one m o m' : mon_obs m o = (m', []) -> mon_list m [o] = (m', []).
Proof. intros H. simpl. rewrite H. reflexivity. Qed.

(* subscribe / unsubscribe by any thread *)
Lemma step_sub b sc lk x x' thr nx m i :
  claims x' = claims x -> (local m x -> local m x') -> (holder x -> holder x') ->
  InvC b sc lk (x :: thr) nx m ->
  InvC (subscribe i b) sc lk (x' :: thr) nx (m_setto m (set_add i (m_set m))).
Proof.
  intros Hc Hl Hh HI. apply InvC_set with (b := b).
  - intros j. rewrite set_add_In, subscribe_In. destruct HI as [H1 _]. rewrite (H1 j). tauto.
  - apply subscribe_NoDup. destruct HI. assumption.
  - eapply InvC_replace; eassumption.
Qed.

Lemma step_unsub b sc lk x x' thr nx m i :
  claims x' = claims x -> (local m x -> local m x') -> (holder x -> holder x') ->
  InvC b sc lk (x :: thr) nx m ->
  InvC (unsubscribe i b) sc lk (x' :: thr) nx (m_setto m (set_remove i (m_set m))).
Proof.
  intros Hc Hl Hh HI. apply InvC_set with (b := b).
  - intros j. rewrite set_remove_In, unsubscribe_In. destruct HI as [H1 _]. rewrite (H1 j). tauto.
  - apply unsubscribe_NoDup. destruct HI. assumption.
  - eapply InvC_replace; eassumption.
Qed.

Lemma exec_ok s m t ts others :
  InvC (bus s) (scripts s) (locked s) ((t, ts) :: others) (next_e s) m ->
  runnable (locked s) (t, ts) = true ->
  exists m', mon_list m (e_obs (exec s t ts)) = (m', []) /\
    InvC (e_bus (exec s t ts)) (scripts s) (e_locked (exec s t ts))
         (e_spawn (exec s t ts) ++ (t, e_state (exec s t ts)) :: others) (e_next (exec s t ts)) m'.
Proof.
  intros HI Hr. destruct ts as [h e | acts | e snap r | e cur cs aps r | e r].
  - (* TNew *)
    destruct (step_new _ _ _ _ _ _ (script_of (App, h) (scripts s)) _ _ _ HI) as [Hm HI'].
    eexists. split; [apply mon_list_one; exact Hm | exact HI'].
  - destruct acts as [|a r].
    + exists m. split; [reflexivity | exact HI].
    + destruct a as [l h | l h |]; cbn [exec do_act e_obs e_bus e_locked e_spawn e_state e_next app].
      * eexists. split; [reflexivity|]. eapply step_sub with (x := (t, TRun (ASub l h :: r))); [reflexivity | auto | auto | exact HI].
      * eexists. split; [reflexivity|]. eapply step_unsub with (x := (t, TRun (AUnsub l h :: r))); [reflexivity | auto | auto | exact HI].
      * destruct (step_snap _ _ _ _ _ _ _ _ HI) as [Hm HI'].
        eexists. split; [apply mon_list_one; exact Hm | exact HI'].
  - (* TSnap *)
    exists m. split; [reflexivity|]. eapply step_lock. exact HI.
  - destruct cur as [|a cur].
    + destruct cs as [|c cs]; cbn [exec e_obs e_bus e_locked e_spawn e_state e_next app].
      * exists m. split; [reflexivity|]. apply step_spawn. exact HI.
      * destruct (step_core _ _ _ _ _ _ _ _ _ _ _ _ HI) as [Hm HI'].
        eexists. split; [apply mon_list_one; exact Hm | exact HI'].
    + destruct a as [l h | l h |]; cbn [exec do_act e_obs e_bus e_locked e_spawn e_state e_next app].
      * eexists. split; [reflexivity|].
        eapply step_sub with (x := (t, TCore e (ASub l h :: cur) cs aps r)); [reflexivity | | auto | exact HI].
        unfold local. cbn [snd fst no_pub]. tauto.
      * eexists. split; [reflexivity|].
        eapply step_unsub with (x := (t, TCore e (AUnsub l h :: cur) cs aps r)); [reflexivity | | auto | exact HI].
        unfold local. cbn [snd fst no_pub]. tauto.
      * discriminate Hr.
  - (* TRel *)
    destruct (step_release _ _ _ _ _ _ _ _ _ HI) as [Hm HI'].
    eexists. split; [apply mon_list_one; exact Hm | exact HI'].
Qed.

(* ---------- the scheduler ---------- *)

Lemma pick_spec lk l : forall n pre p x q,
  pick lk n pre l = Some (p, x, q) -> rev pre ++ l = p ++ x :: q /\ runnable lk x = true.
Proof.
  induction l as [|y r IH]; intros n pre p x q H; simpl in H; [discriminate|].
  destruct (runnable lk y) eqn:Er.
  - destruct n as [|n'].
    + inversion H; subst. split; [reflexivity | exact Er].
    + apply IH in H. simpl in H. rewrite <- app_assoc in H. exact H.
  - apply IH in H. simpl in H. rewrite <- app_assoc in H. exact H.
Qed.

Lemma pick_some lk l : forall n pre,
  (n < count_runnable lk l)%nat -> exists r, pick lk n pre l = Some r.
Proof.
  unfold count_runnable. induction l as [|y r IH]; intros n pre H; simpl in *; [lia|].
  destruct (runnable lk y) eqn:Er; simpl in H.
  - destruct n as [|n']; [eexists; reflexivity|]. apply IH. lia.
  - apply IH. exact H.
Qed.

Lemma insert_thread_perm x l : Permutation (insert_thread x l) (x :: l).
Proof.
  induction l as [|y r IH]; simpl; [apply Permutation_refl|].
  destruct (tid_leb (fst y) (fst x)); [|apply Permutation_refl].
  eapply Permutation_trans; [apply perm_skip; exact IH | apply perm_swap].
Qed.

Lemma insert_threads_perm xs : forall l, Permutation (insert_threads xs l) (xs ++ l).
Proof.
  induction xs as [|x r IH]; intros l; simpl; [apply Permutation_refl|].
  eapply Permutation_trans; [apply IH|].
  eapply Permutation_trans; [apply Permutation_app_head; apply insert_thread_perm|].
  apply Permutation_sym. apply Permutation_middle.
Qed.

(* the progress half: somebody can always run *)
Lemma runnable_exists b sc lk thr nx m :
  InvC b sc lk thr nx m -> thr <> [] -> exists x, In x thr /\ runnable lk x = true.
Proof.
  intros HI Hne. pose proof (i_local _ _ _ _ _ _ HI) as Hloc.
  assert (forall x, In x thr -> (lk = false \/ holder x) -> runnable lk x = true) as Hrun.
  { intros x Hx Hc. pose proof (proj1 (Forall_forall _ _) Hloc x Hx) as Hl.
    unfold runnable, local, holder in *. destruct (snd x) as [h e | a | e sn r | e cur cs aps r | e r]; try reflexivity.
    - destruct Hc as [Hc | []]. subst. reflexivity.
    - destruct Hl as [_ Hq]. destruct cur as [|[l h | l h |] cur]; try reflexivity. discriminate Hq. }
  destruct lk eqn:El.
  - destruct (i_lock _ _ _ _ _ _ HI eq_refl) as [x [Hx Hh]]. exists x. split; [exact Hx | apply Hrun; auto].
  - destruct thr as [|x r]; [contradiction|]. exists x. split; [left; reflexivity | apply Hrun; [left; reflexivity | auto]].
Qed.

Lemma count_runnable_pos lk thr x : In x thr -> runnable lk x = true -> count_runnable lk thr <> O.
Proof.
  intros Hx Hr. unfold count_runnable. assert (In x (filter (runnable lk) thr)) as H by (apply filter_In; auto).
  destruct (filter (runnable lk) thr); [destruct H | simpl; lia].
Qed.

Lemma idle_ok b sc lk nx m : InvC b sc lk [] nx m -> mon_obs m OIdle = (m, []).
Proof.
  intros HI. cbn [mon_obs].
  assert (forallb (fun e => match assoc_N e (m_exp m) with
                            | Some X => memN e (m_ret m) && all_called e X (m_del m)
                            | None => true end) (map fst (m_exp m)) = true) as H.
  { apply forallb_forall. intros e _. destruct (assoc_N e (m_exp m)) as [X|] eqn:EX; [|reflexivity].
    apply andb_true_iff. split.
    - apply memN_In. destruct (i_open _ _ _ _ _ _ HI e (ex_intro _ X EX)) as [H | []]. exact H.
    - unfold all_called. apply forallb_forall. intros i Hi. apply mem_del_In.
      destruct (i_pend _ _ _ _ _ _ HI e X i EX Hi) as [H | []]. exact H. }
  rewrite H. reflexivity.
Qed.

Lemma keep_cases t ts : keep t ts = [(t, ts)] \/ (ts = TRun [] /\ keep t ts = []).
Proof. destruct ts as [| [|a r] | | |]; simpl; auto. Qed.

Lemma sched_ok s m k :
  Inv s m -> exists m', mon_list m (snd (sched s k)) = (m', []) /\ Inv (fst (sched s k)) m'.
Proof.
  intros HI. unfold sched. destruct (count_runnable (locked s) (threads s)) as [|n] eqn:En.
  - assert (threads s = []) as Ht.
    { destruct (threads s) as [|x r] eqn:E; [reflexivity | exfalso].
      destruct (runnable_exists _ _ _ _ _ _ HI) as [y [Hy Hr]]; [rewrite E; discriminate|].
      rewrite E in Hy. exact (count_runnable_pos _ _ _ Hy Hr En). }
    rewrite Ht. cbn [snd fst]. exists m. split; [|exact HI].
    apply mon_list_one. unfold Inv in HI. rewrite Ht in HI. eapply idle_ok. exact HI.
  - destruct (pick_some (locked s) (threads s) (N.to_nat k mod S n) []) as [[[p [t ts]] q] Hp].
    { rewrite En. apply Nat.mod_upper_bound. discriminate. }
    rewrite Hp. cbn [snd fst]. apply pick_spec in Hp. simpl in Hp. destruct Hp as [Hsplit Hrun].
    assert (InvC (bus s) (scripts s) (locked s) ((t, ts) :: p ++ q) (next_e s) m) as HI1.
    { eapply InvC_perm; [|exact HI]. rewrite Hsplit. apply Permutation_sym. apply Permutation_middle. }
    destruct (exec_ok s m t ts (p ++ q) HI1 Hrun) as [m' [Hm HI2]].
    exists m'. split; [exact Hm|]. unfold Inv. cbn [bus scripts locked threads next_e].
    set (ef := exec s t ts) in *.
    destruct (keep_cases t (e_state ef)) as [Hk | [Hk1 Hk2]].
    + rewrite Hk. eapply InvC_perm; [|exact HI2].
      apply Permutation_sym. eapply Permutation_trans; [apply insert_threads_perm|].
      apply Permutation_app_head. apply Permutation_sym. apply Permutation_middle.
    + rewrite Hk2. simpl. rewrite Hk1 in HI2.
      eapply InvC_perm; [apply Permutation_sym; apply insert_threads_perm|].
      apply InvC_drop with (x := (t, TRun [])); [reflexivity | intros [] |].
      eapply InvC_perm; [|exact HI2]. apply Permutation_sym. apply Permutation_middle.
Qed.

Lemma mon_list_app m a : forall b m1 m2,
  mon_list m a = (m1, []) -> mon_list m1 b = (m2, []) -> mon_list m (a ++ b) = (m2, []).
Proof.
  revert m. induction a as [|o r IH]; intros m b m1 m2 Ha Hb; simpl in *.
  - inversion Ha; subst. exact Hb.
  - destruct (mon_obs m o) as [mo vo]. destruct (mon_list mo r) as [mr vr] eqn:Er.
    inversion Ha; subst. apply app_eq_nil in H1. destruct H1; subst.
    rewrite (IH mo b m1 m2 Er Hb). reflexivity.
Qed.

Lemma drain_ok fuel : forall s m,
  Inv s m -> exists m', mon_list m (snd (drain fuel s)) = (m', []) /\ Inv (fst (drain fuel s)) m'.
Proof.
  induction fuel as [|f IH]; intros s m HI; simpl.
  - exists m. split; [reflexivity | exact HI].
  - destruct (sched_ok s m 0 HI) as [m1 [Hm1 HI1]].
    destruct (sched s 0) as [s1 o] eqn:Es. cbn [fst snd] in *.
    destruct (quiet_obs o).
    + exists m1. split; assumption.
    + destruct (IH s1 m1 HI1) as [m2 [Hm2 HI2]].
      destruct (drain f s1) as [s2 o2]. cbn [fst snd] in *.
      exists m2. split; [eapply mon_list_app; eassumption | exact HI2].
Qed.

Lemma InvC_add b sc lk x thr nx m :
  claims x = [] -> local m x -> InvC b sc lk thr nx m -> InvC b sc lk (x :: thr) nx m.
Proof.
  intros Hc Hl HI. eapply InvC_change; [| | |exact HI].
  - unfold all_claims. simpl. rewrite Hc. apply Permutation_refl.
  - constructor; [exact Hl | exact (i_local _ _ _ _ _ _ HI)].
  - intros Hlk. destruct (i_lock _ _ _ _ _ _ HI Hlk) as [y [Hy Hh]]. exists y. split; [right; exact Hy | exact Hh].
Qed.

(* a burst of overlapping (un)subscriptions: the threads of the table stand still, the bus and
   the monitor's set move together *)
Lemma par_shape_ok acts : forall i, par_shape acts (par_obs i acts) = true.
Proof.
  induction acts as [|a r IH]; intros i; [reflexivity|].
  destruct a as [l h | l h |]; cbn [par_obs par_shape]; [| |apply IH]; rewrite item_eqb_refl; apply IH.
Qed.

Lemma par_step_ok sc lk thr nx acts : forall i b m,
  InvC b sc lk thr nx m ->
  exists m', mon_list m (par_obs i acts) = (m', []) /\ InvC (par_bus acts b) sc lk thr nx m'.
Proof.
  induction acts as [|a r IH]; intros i b m HI.
  - exists m. split; [reflexivity | exact HI].
  - destruct a as [l h | l h |]; cbn [par_obs par_bus act_bus].
    + assert (InvC (subscribe (l, h) b) sc lk thr nx (m_setto m (set_add (l, h) (m_set m)))) as HI1.
      { apply InvC_set with (b := b); [| |exact HI].
        - intros j. rewrite set_add_In, subscribe_In. rewrite (i_set _ _ _ _ _ _ HI j). tauto.
        - apply subscribe_NoDup. exact (i_bus _ _ _ _ _ _ HI). }
      destruct (IH (N.succ i) _ _ HI1) as [m' [Hm HI']]. exists m'. split; [|exact HI'].
      cbn [mon_list mon_obs]. fold (m_setto m (set_add (l, h) (m_set m))). rewrite Hm. reflexivity.
    + assert (InvC (unsubscribe (l, h) b) sc lk thr nx (m_setto m (set_remove (l, h) (m_set m)))) as HI1.
      { apply InvC_set with (b := b); [| |exact HI].
        - intros j. rewrite set_remove_In, unsubscribe_In. rewrite (i_set _ _ _ _ _ _ HI j). tauto.
        - apply unsubscribe_NoDup. exact (i_bus _ _ _ _ _ _ HI). }
      destruct (IH (N.succ i) _ _ HI1) as [m' [Hm HI']]. exists m'. split; [|exact HI'].
      cbn [mon_list mon_obs]. fold (m_setto m (set_remove (l, h) (m_set m))). rewrite Hm. reflexivity.
    + apply IH. exact HI.
Qed.

Definition op_quiet (o : op) : bool :=
  match o with Script Core _ a => no_pub a | _ => true end.

Lemma step_ok s m o :
  Inv s m -> op_quiet o = true ->
  exists m', mon m o (snd (step s o)) = (m', []) /\ Inv (fst (step s o)) m'.
Proof.
  intros HI Hq. destruct o as [l h acts | t a | k | n | acts]; unfold mon.
  - (* Script *)
    exists m. split; [reflexivity|]. unfold Inv. cbn [step fst bus scripts locked threads next_e].
    destruct HI as [H1 H2 H3 H4 H5 H6 H7 H8 H9 H10 H11 H12]. constructor; try assumption.
    intros c. rewrite script_of_set. destruct (item_eqb (Core, c) (l, h)) eqn:E; [|apply H12].
    apply item_eqb_eq in E. inversion E; subst. exact Hq.
  - (* Call *)
    cbn [step]. destruct (has_tid (Ext t) (threads s)).
    + exists m. split; [|exact HI]. cbn [snd mon_list mon_obs shape_ok]. rewrite N.eqb_refl. reflexivity.
    + exists m. split; [reflexivity|]. unfold Inv. cbn [fst bus scripts locked threads next_e].
      eapply InvC_perm; [apply Permutation_sym; apply insert_thread_perm|].
      apply InvC_add; [reflexivity | exact I | exact HI].
  - (* Step *)
    destruct (sched_ok s m k HI) as [m' [Hm HI']]. cbn [step]. rewrite Hm. exists m'. split; [reflexivity | exact HI'].
  - (* Drain *)
    destruct (drain_ok (N.to_nat n) s m HI) as [m' [Hm HI']]. cbn [step]. rewrite Hm.
    exists m'. split; [reflexivity | exact HI'].
  - (* Par *)
    destruct (par_step_ok (scripts s) (locked s) (threads s) (next_e s) acts par_base (bus s) m HI) as [m' [Hm HI']].
    cbn [step snd fst]. rewrite Hm. cbn [shape_ok]. rewrite par_shape_ok. exists m'. split; [reflexivity | exact HI'].
Qed.

Lemma Inv_init : Inv init minit.
Proof.
  unfold Inv, init, minit. constructor; simpl.
  - intros i. tauto.
  - constructor.
  - constructor.
  - intros c [].
  - constructor.
  - intros e X i H. discriminate.
  - intros e [X HX]. discriminate.
  - discriminate.
  - intros e [X HX]. discriminate.
  - intros e [].
  - intros e i [].
  - intros c. reflexivity.
Qed.

Lemma run_ok ops : forall s m,
  Inv s m -> core_quiet ops = true ->
  accepted (judge m sinit (snd (run s ops))) = true /\ exists m', Inv (fst (run s ops)) m'.
Proof.
  induction ops as [|o r IH]; intros s m HI Hq; simpl.
  - split; [reflexivity | exists m; exact HI].
  - simpl in Hq. apply andb_true_iff in Hq. destruct Hq as [Hq1 Hq2].
    destruct (step_ok s m o HI Hq1) as [m1 [Hm HI1]].
    destruct (step s o) as [s1 out] eqn:Es. cbn [fst snd] in *.
    destruct (IH s1 m1 HI1 Hq2) as [Hacc Hex].
    destruct (run s1 r) as [s2 tr] eqn:Er. cbn [fst snd judge] in *.
    rewrite Hm. split; [|exact Hex]. simpl. exact Hacc.
Qed.

(* ---------- statements used by Properties/C15.v ---------- *)

Theorem run_accepted : forall ops,
  core_quiet ops = true -> accepted (judge minit sinit (snd (run init ops))) = true.
Proof. intros ops Hq. exact (proj1 (run_ok ops init minit Inv_init Hq)). Qed.

(* no reachable state in which calls are unfinished and nobody can run *)
Theorem no_deadlock : forall ops,
  core_quiet ops = true ->
  let s := fst (run init ops) in
  threads s <> [] -> exists x, In x (threads s) /\ runnable (locked s) x = true.
Proof.
  intros ops Hq s Hne. destruct (proj2 (run_ok ops init minit Inv_init Hq)) as [m HI].
  exact (runnable_exists _ _ _ _ _ _ HI Hne).
Qed.

(* whoever holds muHandle can always take its next step: the lock is never held across a wait *)
Theorem holder_runs : forall ops,
  core_quiet ops = true ->
  let s := fst (run init ops) in
  locked s = true -> exists x, In x (threads s) /\ holder x /\ runnable true x = true.
Proof.
  intros ops Hq s Hl. destruct (proj2 (run_ok ops init minit Inv_init Hq)) as [m HI].
  destruct (i_lock _ _ _ _ _ _ HI Hl) as [x [Hx Hh]]. exists x. split; [exact Hx | split; [exact Hh|]].
  pose proof (proj1 (Forall_forall _ _) (i_local _ _ _ _ _ _ HI) x Hx) as Hloc.
  unfold runnable, local, holder in *. destruct (snd x) as [h e | a | e sn r | e cur cs aps r | e r]; try reflexivity; try contradiction.
  destruct Hloc as [_ Hq']. destruct cur as [|[l h | l h |] cur]; try reflexivity. discriminate Hq'.
Qed.

Theorem bus_NoDup : forall ops, core_quiet ops = true -> NoDup (bus (fst (run init ops))).
Proof.
  intros ops Hq. destruct (proj2 (run_ok ops init minit Inv_init Hq)) as [m HI]. exact (i_bus _ _ _ _ _ _ HI).
Qed.

(* ---------- what acceptance by the monitor means, for any trace (model's or implementation's) ---------- *)

Definition deliv_obs (out : list obs) : list (N * item) :=
  flat_map (fun o => match o with ODeliver _ l h e => [(e, (l, h))] | _ => [] end) out.

Definition deliveries (tr : list (op * list obs)) : list (N * item) :=
  flat_map (fun p => deliv_obs (snd p)) tr.

Lemma mon_obs_del m o m' :
  mon_obs m o = (m', []) ->
  m_del m' = rev (deliv_obs [o]) ++ m_del m /\ (NoDup (m_del m) -> NoDup (m_del m')).
Proof.
  destruct o as [t l h | t l h | t e | t e | t l h e | t e n | t e | | | t | t]; cbn [mon_obs deliv_obs flat_map app rev];
    try (intros H; inversion H; subst; simpl; split; [reflexivity | auto]; fail).
  - destruct (assoc_N e (m_exp m)); intros H; inversion H; subst; simpl; split; auto.
  - destruct (assoc_N e (m_exp m)) as [X|]; [|intros H; discriminate].
    destruct (mem_del e (l, h) (m_del m)) eqn:Ed.
    + intros H. inversion H as [[Hm Hv]]. destruct (mem_item (l, h) X); discriminate.
    + intros H. inversion H; subst. simpl. split; [reflexivity|]. intros Hn. constructor; [|exact Hn].
      intros Hi. apply mem_del_In in Hi. congruence.
  - destruct (assoc_N e (m_exp m)); intros H; inversion H; subst; simpl; split; auto.
  - intros H; discriminate.
  - intros H; discriminate.
Qed.

Lemma mon_list_del out : forall m m',
  mon_list m out = (m', []) ->
  m_del m' = rev (deliv_obs out) ++ m_del m /\ (NoDup (m_del m) -> NoDup (m_del m')).
Proof.
  induction out as [|o r IH]; intros m m' H; simpl in H.
  - inversion H; subst. split; [reflexivity | auto].
  - destruct (mon_obs m o) as [m1 v1] eqn:E1. destruct (mon_list m1 r) as [m2 v2] eqn:E2.
    inversion H; subst. apply app_eq_nil in H2. destruct H2; subst.
    destruct (mon_obs_del _ _ _ E1) as [Ha Hb]. destruct (IH _ _ E2) as [Hc Hd].
    split; [|auto]. rewrite Hc, Ha.
    assert (deliv_obs (o :: r) = deliv_obs [o] ++ deliv_obs r) as Hs by (unfold deliv_obs; simpl; rewrite app_nil_r; reflexivity).
    rewrite Hs, rev_app_distr, app_assoc. reflexivity.
Qed.

Lemma judge_del tr : forall m,
  accepted (judge m sinit tr) = true -> NoDup (m_del m) -> NoDup (rev (deliveries tr) ++ m_del m).
Proof.
  induction tr as [|[o out] r IH]; intros m Hacc Hn; simpl in *; [exact Hn|].
  unfold mon in Hacc. destruct (mon_list m out) as [m1 v] eqn:Em. simpl in Hacc.
  apply andb_true_iff in Hacc. destruct Hacc as [Hv Hacc].
  assert (v = []) as Hv0.
  { unfold excused in Hv. destruct (shape_ok o out); simpl in Hv; [destruct v; [reflexivity | discriminate] | discriminate]. }
  subst v. destruct (mon_list_del _ _ _ Em) as [Ha Hb].
  specialize (IH m1 Hacc (Hb Hn)). rewrite Ha in IH.
  unfold deliveries in *. simpl. rewrite rev_app_distr, <- app_assoc. exact IH.
Qed.

(* a trace the monitor accepts hands no event twice to the same handler *)
Theorem accepted_once : forall tr,
  accepted (judge minit sinit tr) = true -> NoDup (deliveries tr).
Proof.
  intros tr H. pose proof (judge_del tr minit H (NoDup_nil _)) as Hn. simpl in Hn.
  rewrite app_nil_r in Hn. apply NoDup_rev in Hn. rewrite rev_involutive in Hn. exact Hn.
Qed.
