(* C02 — whole updates and histories: a well-formed local update keeps the
   invariant and follows the rules (refinement step), re-applying a simple update
   changes nothing, and every trace of the store model is accepted by the
   monitor of Spec/UpdateSpec.v outside the recorded scope. *)
From Verif Require Import Base.Prelude Model.Schema Model.Update Model.FunctionStore Spec.UpdateSpec
  Proofs.UpdateBasics Proofs.UpdateRefine Proofs.UpdateStep.
From Coq Require Import Sorting.Sorted Sorting.Permutation.

(* ---------------------------------------------------------------- boolean equalities *)

Lemma eqb_item_eq a b : eqb_item a b = true <-> a = b.
Proof.
  revert b. induction a as [|x a IH]; intros [|y b]; cbn [eqb_item]; split; intros H; try reflexivity; try discriminate.
  - apply andb_true_iff in H. destruct H as [H1 H2]. apply IH in H2. subst b.
    destruct x as [v|], y as [w|]; try discriminate; [apply N.eqb_eq in H1; subst|]; reflexivity.
  - inversion H. subst. apply andb_true_iff. split; [destruct y; [apply N.eqb_refl | reflexivity] | apply IH; reflexivity].
Qed.

Lemma eqb_items_eq a b : eqb_items a b = true <-> a = b.
Proof.
  revert b. induction a as [|x a IH]; intros [|y b]; cbn [eqb_items]; split; intros H; try reflexivity; try discriminate.
  - apply andb_true_iff in H. destruct H as [H1 H2]. apply eqb_item_eq in H1. apply IH in H2. subst. reflexivity.
  - inversion H. subst. apply andb_true_iff. split; [apply eqb_item_eq | apply IH]; reflexivity.
Qed.

Lemma eqb_bools_eq a b : eqb_bools a b = true -> a = b.
Proof.
  revert b. induction a as [|x a IH]; intros [|y b] H; try reflexivity; try discriminate.
  cbn in H. apply andb_true_iff in H. destruct H as [H1 H2]. apply Bool.eqb_prop in H1. apply IH in H2. subst. reflexivity.
Qed.

Lemma eqb_flt_eq a b : eqb_flt a b = true -> a = b.
Proof.
  destruct a as [[s1 e1]|], b as [[s2 e2]|]; cbn; intros H; try reflexivity; try discriminate.
  apply andb_true_iff in H. destruct H as [H1 H2].
  assert (s1 = s2) by (destruct s1, s2; try discriminate; [apply eqb_item_eq in H1; subst|]; reflexivity).
  assert (e1 = e2) by (destruct e1, e2; try discriminate; [apply eqb_bools_eq in H2; subst|]; reflexivity).
  subst. reflexivity.
Qed.

Lemma eqb_upd_eq a b : eqb_upd a b = true -> a = b.
Proof.
  destruct a as [n1 p1 d1], b as [n2 p2 d2]. unfold eqb_upd. cbn. intros H.
  apply andb_true_iff in H. destruct H as [H H3]. apply andb_true_iff in H. destruct H as [H1 H2].
  apply eqb_items_eq in H1. apply eqb_flt_eq in H2. apply eqb_flt_eq in H3. subst. reflexivity.
Qed.

Lemma filter_data_some fd f : filter_data fd = Some f -> fd = Some f.
Proof.
  unfold filter_data. destruct fd as [x|]; [|discriminate]. destruct (f_sel x), (f_elems x); intros H; inversion H; reflexivity.
Qed.

Section Whole.
  Variable sch : schema.
  Hypothesis Hwf : wf_schema sch = true.

  Notation nf := (s_nf sch).
  Notation lwf := (lwf sch).
  Notation Inv := (Inv sch).

  Lemma item_ok_length l : forallb (item_ok sch) l = true -> Forall (fun x => length x = nf) l.
  Proof.
    intros H. apply Forall_forall. intros x Hx. rewrite forallb_forall in H. apply Nat.eqb_eq. apply (H x Hx).
  Qed.

  Lemma wf_items_lwf l : wf_items sch l = true -> lwf l.
  Proof.
    unfold wf_items. intros H. apply andb_true_iff in H. destruct H as [H1 H2].
    apply (unique_ids_lwf sch l (item_ok_length l H1)). exact H2.
  Qed.

  (* ---------------------------------------------------------------- the list of a full update *)

  Lemma lfind_of_list l k : lfind sch k l = mfind k (of_list sch l).
  Proof.
    induction l as [|x r IH]; [reflexivity|]. unfold of_list in *. cbn [lfind flat_map].
    destruct (key_of sch x) as [kx|]; [|exact IH]. cbn [app mfind]. destruct (eqb_key k kx); [reflexivity | exact IH].
  Qed.

  Lemma map_fst_of_list l : map fst (of_list sch l) = keys_of sch l.
  Proof.
    induction l as [|x r IH]; [reflexivity|]. unfold of_list, keys_of in *. cbn [flat_map].
    destruct (key_of sch x); cbn; rewrite IH; reflexivity.
  Qed.

  Lemma Inv_of_list l : lwf l -> ordered sch l = true -> Inv l (of_list sch l).
  Proof.
    intros Hl Ho. split; [exact Hl|]. split; [exact Ho|]. split; [apply lfind_of_list|].
    destruct Hl as [Hlen [_ Hnd]]. split; [rewrite map_fst_of_list; exact Hnd|].
    apply Forall_forall. intros [k x] Hin. unfold of_list in Hin. apply in_flat_map in Hin. destruct Hin as [y [Hy Hin]].
    destruct (key_of sch y) as [ky|] eqn:E; [|contradiction]. destruct Hin as [Hin|[]]. inversion Hin. subst.
    cbn. split; [exact E|]. rewrite Forall_forall in Hlen. apply Hlen. exact Hy.
  Qed.

  (* ---------------------------------------------------------------- what the monitor checks follows from the invariant *)

  Lemma eqb_item_refl x : eqb_item x x = true.
  Proof. apply eqb_item_eq. reflexivity. Qed.

  Lemma Inv_same_map l m : Inv l m -> same_map sch l m = true.
  Proof.
    intros [Hl [_ [Hfind Hm]]]. unfold same_map. apply andb_true_iff. split; apply forallb_forall.
    - intros x Hx. pose proof Hl as [_ [Hc _]]. rewrite Forall_forall in Hc. destruct (Hc x Hx) as [k Hk]. rewrite Hk.
      rewrite <- Hfind. assert (E : lfind sch k l = Some x) by (apply (lfind_Some sch l k x Hl); split; assumption).
      rewrite E. cbn. apply eqb_item_refl.
    - intros [k x] Hin. cbn [fst snd]. rewrite Hfind. assert (E : mfind k m = Some x) by (apply (mfind_Some sch m k x Hm); exact Hin).
      rewrite E. cbn. apply eqb_item_refl.
  Qed.

  Lemma Inv_unique l m : Inv l m -> unique_ids sch l = true.
  Proof. intros [Hl _]. apply (unique_ids_lwf sch l); [apply Hl | exact Hl]. Qed.

  Lemma Inv_ordered l m : Inv l m -> ordered sch l = true.
  Proof. intros [_ [Ho _]]. exact Ho. Qed.

  (* ---------------------------------------------------------------- the data phase *)

  Lemma keys_nonempty_no_ids x : no_key_field sch x = true -> has_identifiers sch x = false.
  Proof.
    intros H. unfold no_key_field, has_identifiers in *. pose proof (wf_keys_nonempty sch Hwf) as Hk.
    destruct (s_keys sch) as [|k r]; [contradiction|]. cbn in *. apply andb_true_iff in H. destruct H as [H _].
    destruct (fld x k); [discriminate | reflexivity].
  Qed.

  Lemma apply_new_merge ex new :
    wf_items sch new = true ->
    apply_new sch false ex new None = Ok (isort sch (merged sch ex new), true).
  Proof.
    intros Hn. pose proof (wf_items_lwf new Hn) as Hl. unfold apply_new. cbn [filter_data].
    assert (G : (let '(d, ok) := merge sch false ex new in Ok (sort_data sch d, ok)) = Ok (isort sch (merged sch ex new), true)).
    { rewrite merge_local. rewrite (sort_data_isort sch _ (wf_keys_nonempty sch Hwf)). reflexivity. }
    destruct new as [|n0 r]; [exact G|].
    assert (Hid : has_identifiers sch n0 = true).
    { apply (complete_ids sch). destruct Hl as [_ [Hc _]]. inversion Hc. assumption. }
    rewrite Hid. cbn [negb]. exact G.
  Qed.

  Lemma apply_new_fp_none ex new fp : filter_data fp = None ->
    apply_new sch false ex new fp = apply_new sch false ex new None.
  Proof. intros H. unfold apply_new. rewrite H. reflexivity. Qed.

  Definition wf_data (fp : option flt) (new : list item) : bool :=
    forallb (item_ok sch) new &&
    match filter_data fp with
    | Some f =>
        match f_sel f, f_elems f, new with
        | Some sel, None, [x] => sel_ok sch sel && pinned sch sel x
        | _, _, _ => false
        end
    | None => wf_items sch new || match new with [x] => no_key_field sch x | _ => false end
    end.

  Lemma ups_fold new m :
    fold_left (fun m x => match key_of sch x with Some k => upsert k x m | None => m end) new m = fold_left (ups sch) new m.
  Proof. reflexivity. Qed.

  Lemma spec_data_merge new m : wf_items sch new = true -> spec_data sch None new m = fold_left (ups sch) new m.
  Proof.
    intros Hn. unfold spec_data. cbn [filter_data]. destruct new as [|x r]; [reflexivity|]. destruct r as [|y r]; [|reflexivity].
    pose proof (wf_items_lwf [x] Hn) as [_ [Hc _]]. inversion Hc as [|? ? [k Hk] _]. subst. rewrite Hk. cbn. unfold ups. rewrite Hk. reflexivity.
  Qed.

  Lemma data_phase ex new fp m d ok :
    Inv ex m -> wf_data fp new = true ->
    apply_new sch false ex new fp = Ok (d, ok) ->
    ok = true /\ Inv d (spec_data sch fp new m).
  Proof.
    intros HI Hw H. unfold wf_data in Hw. apply andb_true_iff in Hw. destruct Hw as [Hlen Hw].
    destruct (filter_data fp) as [f|] eqn:Ef.
    - destruct (f_sel f) as [sel|] eqn:Es; [|discriminate]. destruct (f_elems f) as [el|] eqn:Ee; [discriminate|].
      destruct new as [|x [|? ?]]; try discriminate. apply andb_true_iff in Hw. destruct Hw as [_ Hp].
      unfold apply_new in H. rewrite Ef, Es in H. apply copy_to_selected_local in H. destruct H as [-> ->].
      split; [reflexivity|]. unfold spec_data. rewrite Ef, Es.
      apply (Inv_map sch (sel_fun sch sel (overlay x))); [|exact HI]. apply (kp_sel_overlay sch); [|exact Hp].
      cbn in Hlen. apply andb_true_iff in Hlen. destruct Hlen as [Hx _]. apply Nat.eqb_eq. exact Hx.
    - rewrite (apply_new_fp_none ex new fp Ef) in H.
      assert (Hs : spec_data sch fp new m = spec_data sch None new m) by (unfold spec_data; rewrite Ef; reflexivity).
      rewrite Hs. destruct (wf_items sch new) eqn:Ewi.
      + rewrite (apply_new_merge ex new Ewi) in H. inversion H. subst. split; [reflexivity|].
        rewrite (spec_data_merge new m Ewi). apply (Inv_merge sch Hwf); [exact HI | apply wf_items_lwf; exact Ewi].
      + cbn [orb] in Hw. destruct new as [|x [|? ?]]; try discriminate.
        unfold apply_new in H. cbn [filter_data] in H. rewrite (keys_nonempty_no_ids x Hw) in H. cbn [negb] in H.
        rewrite copy_to_all_local in H. inversion H. subst. split; [reflexivity|].
        unfold spec_data. cbn [filter_data].
        assert (Hk : key_of sch x = None).
        { pose proof (has_identifiers_key sch x) as E. rewrite (keys_nonempty_no_ids x Hw) in E.
          destruct (key_of sch x); [discriminate | reflexivity]. }
        rewrite Hk. apply (Inv_map sch (overlay x)); [|exact HI]. apply (kp_overlay_nokey sch); [|exact Hw].
        cbn in Hlen. apply andb_true_iff in Hlen. destruct Hlen as [Hx _]. apply Nat.eqb_eq. exact Hx.
  Qed.

  (* ---------------------------------------------------------------- one whole (non-full) update *)

  Lemma wf_update_parts u : wf_update sch false u = true ->
    wf_data (u_fp u) (u_new u) = true /\
    (forall f, filter_data (u_fd u) = Some f -> wf_flt sch f = true).
  Proof.
    unfold wf_update, wf_data. intros H. apply andb_true_iff in H. destruct H as [H H3]. apply andb_true_iff in H. destruct H as [H1 H2].
    split; [rewrite H1; exact H3|]. intros f Hf. apply filter_data_some in Hf. rewrite Hf in H2.
    apply andb_true_iff in H2. apply H2.
  Qed.

  Definition after_del (fd : option flt) (l : list item) : list item :=
    match filter_data fd with Some f => del_nf sch f l | None => l end.
  Definition spec_after_del (fd : option flt) (m : amap) : amap :=
    match filter_data fd with Some f => spec_delete sch f m | None => m end.

  (* a local update never reports failure, unless it carries a selector and no data item *)
  Lemma apply_new_ok ex new fp d ok : (filter_data fp = None \/ new <> []) ->
    apply_new sch false ex new fp = Ok (d, ok) -> ok = true.
  Proof.
    intros Hne Ea. unfold apply_new in Ea. destruct (filter_data fp) as [g|].
    - destruct new; [destruct Hne as [Hne|Hne]; [discriminate | contradiction]|].
      destruct (f_sel g); [apply copy_to_selected_local in Ea; tauto | inversion Ea; reflexivity].
    - destruct new as [|n0 r].
      + rewrite merge_local in Ea. inversion Ea. reflexivity.
      + destruct (negb (has_identifiers sch n0)); [rewrite copy_to_all_local in Ea | rewrite merge_local in Ea]; inversion Ea; reflexivity.
  Qed.

  Lemma wf_data_nonempty fp new : wf_data fp new = true -> filter_data fp = None \/ new <> [].
  Proof.
    unfold wf_data. intros H. apply andb_true_iff in H. destruct H as [_ H].
    destruct (filter_data fp) as [f|]; [right | left; reflexivity].
    destruct (f_sel f); [|discriminate]. destruct (f_elems f); [discriminate|]. destruct new; [discriminate | discriminate].
  Qed.

  Lemma update_list_local l u d ok :
    wf_update sch false u = true ->
    update_list sch false l (u_new u) (u_fp u) (u_fd u) = Ok (d, ok) ->
    ok = true /\ apply_new sch false (after_del (u_fd u) l) (u_new u) (u_fp u) = Ok (d, true).
  Proof.
    intros Hu. pose proof (wf_data_nonempty _ _ (proj1 (wf_update_parts u Hu))) as Hne.
    unfold update_list, after_delete, after_del. intros H.
    destruct (filter_data (u_fd u)) as [f|].
    - destruct (delete_filtered sch false f l) as [[d0 ok0]|] eqn:Ed; [|discriminate].
      apply delete_filtered_local in Ed. destruct Ed as [-> ->].
      destruct (apply_new sch false (del_nf sch f l) (u_new u) (u_fp u)) as [[d1 ok1]|] eqn:Ea; [|discriminate].
      pose proof (apply_new_ok _ _ _ _ _ Hne Ea) as ->. inversion H. split; reflexivity.
    - destruct (apply_new sch false l (u_new u) (u_fp u)) as [[d1 ok1]|] eqn:Ea; [|discriminate].
      pose proof (apply_new_ok _ _ _ _ _ Hne Ea) as ->. inversion H. split; reflexivity.
  Qed.

  Lemma Inv_after_del u l m : wf_update sch false u = true -> Inv l m -> Inv (after_del (u_fd u) l) (spec_after_del (u_fd u) m).
  Proof.
    intros Hu HI. unfold after_del, spec_after_del. destruct (filter_data (u_fd u)) as [f|] eqn:Ef; [|exact HI].
    apply (Inv_delete sch Hwf); [|exact HI]. apply (proj2 (wf_update_parts u Hu) f Ef).
  Qed.

  (* refinement step: the engine follows the rules *)
  Theorem update_refines l m u d ok :
    Inv l m -> wf_update sch false u = true ->
    update_list sch false l (u_new u) (u_fp u) (u_fd u) = Ok (d, ok) ->
    ok = true /\ Inv d (spec_apply sch false u m).
  Proof.
    intros HI Hu H. apply (update_list_local _ _ _ _ Hu) in H. destruct H as [-> H]. split; [reflexivity|].
    unfold spec_apply. change (match filter_data (u_fd u) with Some f => spec_delete sch f m | None => m end) with (spec_after_del (u_fd u) m).
    eapply data_phase; [apply Inv_after_del; eassumption | apply wf_update_parts; exact Hu | exact H].
  Qed.

  (* ---------------------------------------------------------------- re-application *)

  Lemma merged_nil l : merged sch l [] = l.
  Proof. unfold merged, fresh_of. cbn [filter]. rewrite app_nil_r. apply map_id_in. intros y _. reflexivity. Qed.

  Lemma isort_Inv l m : Inv l m -> isort sch l = l.
  Proof.
    intros [Hl [Ho _]]. apply isort_sorted_id; [apply (lwf_ids sch); exact Hl | exact Ho].
  Qed.

  Lemma filter_none {A} (p : A -> bool) l : (forall x, In x l -> p x = false) -> filter p l = [].
  Proof.
    induction l as [|x l IH]; intros H; [reflexivity|]. cbn. rewrite (H x (or_introl eq_refl)). apply IH.
    intros y Hy. apply H. right. exact Hy.
  Qed.

  (* merging the same list into the result of the merge changes nothing *)
  Lemma merged_again ex new m : Inv ex m -> lwf new ->
    let d := isort sch (merged sch ex new) in isort sch (merged sch d new) = d.
  Proof.
    intros HI Hn d. pose proof (Inv_merge sch Hwf ex new m HI Hn) as HId. fold d in HId.
    pose proof HId as [Hld _]. pose proof HI as [Hlex _].
    assert (Hfix : forall y, In y d -> mg sch new y = y).
    { intros y Hy. assert (Hym : In y (merged sch ex new)).
      { eapply Permutation_in; [apply isort_perm | exact Hy]. }
      unfold merged in Hym. apply in_app_or in Hym. destruct Hym as [Hym|Hym].
      - apply in_map_iff in Hym. destruct Hym as [y0 [<- Hy0]].
        pose proof Hlex as [Hlen [Hc _]]. rewrite Forall_forall in Hlen, Hc. destruct (Hc y0 Hy0) as [k Hk].
        rewrite (mg_mgk sch Hwf new y0 k Hn (Hlen y0 Hy0) Hk).
        destruct (mgk_props sch new k y0 Hn (Hlen y0 Hy0) Hk) as [Hl2 Hk2].
        rewrite (mg_mgk sch Hwf new _ k Hn Hl2 Hk2). unfold mgk. destruct (lfind sch k new); [apply overlay_idem | reflexivity].
      - unfold fresh_of in Hym. apply filter_In in Hym. destruct Hym as [Hyn _].
        pose proof Hn as [Hlen [Hc _]]. rewrite Forall_forall in Hlen, Hc. destruct (Hc y Hyn) as [k Hk].
        rewrite (mg_mgk sch Hwf new y k Hn (Hlen y Hyn) Hk). unfold mgk.
        assert (E : lfind sch k new = Some y) by (apply (lfind_Some sch new k y Hn); split; assumption).
        rewrite E. apply overlay_self. }
    assert (Hfresh : fresh_of sch d new = []).
    { rewrite (fresh_of_spec sch Hwf d new _ HId Hn). apply filter_none. intros x Hx.
      pose proof Hn as [_ [Hc _]]. rewrite Forall_forall in Hc. destruct (Hc x Hx) as [k Hk]. rewrite Hk.
      apply negb_false_iff. apply mem_key_In.
      destruct (lfind sch k d) as [z|] eqn:Ez.
      - apply lfind_key in Ez. destruct Ez as [Hz Hkz]. eapply In_keys_of; eassumption.
      - exfalso. destruct HId as [_ [_ [Hfind _]]]. rewrite Hfind, (mfind_fold_ups sch new m k Hn) in Ez.
        assert (E : lfind sch k new = Some x) by (apply (lfind_Some sch new k x Hn); split; assumption).
        rewrite E in Ez. discriminate. }
    unfold merged at 1. rewrite Hfresh, app_nil_r, (map_id_in _ d Hfix). eapply isort_Inv. exact HId.
  Qed.

  Lemma del_nf_idem f l : wf_flt sch f = true -> Forall (fun x => length x = nf) l ->
    del_nf sch f (del_nf sch f l) = del_nf sch f l.
  Proof.
    intros Hf Hl.
    assert (Hl2 : Forall (fun x => length x = nf) (del_nf sch f l)).
    { rewrite (del_nf_clear sch Hwf f l Hf Hl). rewrite Forall_forall in *.
      destruct (f_sel f) as [sel|], (f_elems f) as [el|]; intros y Hy.
      - apply in_map_iff in Hy. destruct Hy as [z [<- Hz]]. unfold sel_fun. destruct (smatch sch sel z); [rewrite clear_length|]; auto.
      - apply filter_In in Hy. apply Hl. tauto.
      - apply in_map_iff in Hy. destruct Hy as [z [<- Hz]]. rewrite clear_length. auto.
      - auto. }
    rewrite (del_nf_clear sch Hwf f _ Hf Hl2), (del_nf_clear sch Hwf f l Hf Hl).
    destruct (f_sel f) as [sel|], (f_elems f) as [el|].
    - rewrite map_map. apply map_ext. apply sel_fun_idem. apply clear_idem.
    - apply filter_idem.
    - rewrite map_map. apply map_ext. apply clear_idem.
    - reflexivity.
  Qed.

  Theorem update_idempotent l m u d ok d' ok' :
    Inv l m -> wf_update sch false u = true -> simple u = true ->
    update_list sch false l (u_new u) (u_fp u) (u_fd u) = Ok (d, ok) ->
    update_list sch false d (u_new u) (u_fp u) (u_fd u) = Ok (d', ok') ->
    d' = d.
  Proof.
    intros HI Hu Hs H1 H2.
    pose proof (update_refines l m u d ok HI Hu H1) as [_ HId].
    apply (update_list_local _ _ _ _ Hu) in H1. destruct H1 as [_ H1]. apply (update_list_local _ _ _ _ Hu) in H2. destruct H2 as [_ H2].
    destruct (wf_update_parts u Hu) as [Hwd Hwfd].
    unfold simple in Hs. apply orb_true_iff in Hs. destruct Hs as [Hs|Hs].
    - (* no delete filter *)
      apply negb_true_iff in Hs. unfold after_del in H1, H2. destruct (filter_data (u_fd u)); [discriminate|].
      unfold wf_data in Hwd. apply andb_true_iff in Hwd. destruct Hwd as [Hlen Hw].
      destruct (filter_data (u_fp u)) as [f|] eqn:Ef.
      + destruct (f_sel f) as [sel|] eqn:Es; [|discriminate]. destruct (f_elems f); [discriminate|].
        destruct (u_new u) as [|x [|? ?]]; try discriminate.
        unfold apply_new in H1, H2. rewrite Ef, Es in H1, H2.
        apply copy_to_selected_local in H1. apply copy_to_selected_local in H2. destruct H1 as [_ ->]. destruct H2 as [_ ->].
        rewrite map_map. apply map_ext. apply sel_fun_idem. apply overlay_idem.
      + rewrite (apply_new_fp_none _ _ _ Ef) in H1. rewrite (apply_new_fp_none _ _ _ Ef) in H2. destruct (wf_items sch (u_new u)) eqn:Ewi.
        * rewrite (apply_new_merge _ _ Ewi) in H1. rewrite (apply_new_merge _ _ Ewi) in H2. inversion H1. inversion H2. subst d'. subst d.
          apply (merged_again l (u_new u) m HI). apply wf_items_lwf. exact Ewi.
        * cbn [orb] in Hw. destruct (u_new u) as [|x [|? ?]]; try discriminate.
          unfold apply_new in H1, H2. cbn [filter_data] in H1, H2. rewrite (keys_nonempty_no_ids x Hw) in H1, H2. cbn [negb] in H1, H2.
          rewrite copy_to_all_local in H1, H2. inversion H1. inversion H2. subst d' d.
          rewrite map_map. apply map_ext. intros y. apply overlay_idem.
    - (* a delete filter without data *)
      destruct (u_new u) as [|? ?] eqn:En; [|discriminate].
      assert (Hfp : filter_data (u_fp u) = None).
      { unfold apply_new in H1. destruct (filter_data (u_fp u)); [discriminate | reflexivity]. }
      rewrite (apply_new_fp_none _ _ _ Hfp) in H1. rewrite (apply_new_fp_none _ _ _ Hfp) in H2.
      assert (Hn : wf_items sch [] = true) by reflexivity.
      rewrite (apply_new_merge _ _ Hn) in H1. rewrite (apply_new_merge _ _ Hn) in H2. rewrite merged_nil in H1, H2. inversion H1. inversion H2. subst d' d.
      pose proof (Inv_after_del u l m Hu HI) as HIa.
      rewrite (isort_Inv _ _ HIa) in *.
      assert (Hi : after_del (u_fd u) (after_del (u_fd u) l) = after_del (u_fd u) l).
      { unfold after_del. destruct (filter_data (u_fd u)) as [f|] eqn:Ef; [|reflexivity].
        apply del_nf_idem; [apply Hwfd; reflexivity | apply HI]. }
      rewrite Hi. apply (isort_Inv _ _ HIa).
  Qed.
End Whole.

(* ================================================================ histories *)

Definition storel (s : st) : list item := match store s with Some l => l | None => [] end.

(* re-applying u to the state leaves the data as it is *)
Definition stable (s : st) (u : upd) : Prop := storel (fst (update_data s false true u)) = storel s.

Definition RInv (s : st) (mm : mst) (sc : sst) : Prop :=
  m_sch mm = sch s /\ m_direct mm = direct s /\ sc_sch sc = sch s /\ sc_direct sc = direct s /\
  (forall u l', m_prev mm = Some (u, l') ->
     l' = storel s /\ (negb (direct s) && is_full true u = true -> l' = u_new u)) /\
  (sc_oos sc = false ->
     wf_schema (sch s) = true /\ Inv (sch s) (storel s) (m_map mm) /\
     (forall u l', m_prev mm = Some (u, l') -> simple u = true -> stable s u)).

Lemma RInv_init : RInv init minit sinit.
Proof.
  unfold RInv, init, minit, sinit. cbn. repeat split; try discriminate.
Qed.

Lemma excused_four (b1 b2 b3 : bool) (x : list Z) :
  (x = [] \/ x = [CL_IDEM]) ->
  excused ((if b1 then [] else [CL_FOLD]) ++ (if b2 then [] else [CL_UNIQUE]) ++ (if b3 then [] else [CL_ORDER]) ++ x)
    [CL_FOLD; CL_UNIQUE; CL_ORDER; CL_IDEM] = true.
Proof. intros [->| ->]; destruct b1, b2, b3; reflexivity. Qed.

(* the observations of an update and what the monitor reads from them *)
Lemma stored_app_ret rest x tl : (rest = [] \/ exists d, rest = [Ret d]) -> stored (rest ++ Store x :: tl) = Some x.
Proof. intros [->|[d ->]]; reflexivity. Qed.

Lemma update_data_obs s remote persist u :
  exists c rest, snd (update_data s remote persist u) = Res c :: rest /\ (rest = [] \/ exists d, rest = [Ret d]).
Proof.
  unfold update_data. destruct (negb (direct s) && is_full persist u).
  - exists 0%N, [Ret (u_new u)]. split; [reflexivity | right; eexists; reflexivity].
  - destruct (update_list (sch s) remote _ (u_new u) (u_fp u) (u_fd u)) as [[d [|]]|].
    + exists 0%N, [Ret d]. split; [reflexivity | right; eexists; reflexivity].
    + exists 1%N, []. split; [reflexivity | left; reflexivity].
    + exists 2%N, []. split; [reflexivity | left; reflexivity].
Qed.

Lemma update_data_fields s remote persist u :
  sch (fst (update_data s remote persist u)) = sch s /\ direct (fst (update_data s remote persist u)) = direct s.
Proof.
  unfold update_data. destruct (negb (direct s) && is_full persist u); [split; reflexivity|].
  destruct (update_list (sch s) remote _ (u_new u) (u_fp u) (u_fd u)) as [[d [|]]|]; try (split; reflexivity).
  destruct persist; split; reflexivity.
Qed.

(* the in-scope local update: everything the monitor needs, in one statement *)
Lemma update_data_local s m u :
  wf_schema (sch s) = true -> Inv (sch s) (storel s) m ->
  negb (direct s) && is_full true u = false ->
  wf_update (sch s) false u = true ->
  let r := update_data s false true u in
  (exists d, snd r = [Res 0; Ret d] /\ storel (fst r) = d /\ Inv (sch s) d (spec_apply (sch s) false u m) /\
             (simple u = true -> stable (fst r) u)) \/
  (exists c, snd r = [Res c] /\ c <> 0%N /\ fst r = s).
Proof.
  intros Hwf HI Hnf Hu r. subst r. unfold update_data. rewrite Hnf.
  change (match store s with Some l => l | None => [] end) with (storel s).
  destruct (update_list (sch s) false (storel s) (u_new u) (u_fp u) (u_fd u)) as [[d ok]|] eqn:E.
  - destruct (update_refines (sch s) Hwf _ _ _ _ _ HI Hu E) as [-> HId]. left. exists d. cbn [fst snd].
    split; [reflexivity|]. split; [reflexivity|]. split; [exact HId|].
    intros Hs. unfold stable, update_data. cbn [direct sch store]. rewrite Hnf. cbn [storel store].
    destruct (update_list (sch s) false d (u_new u) (u_fp u) (u_fd u)) as [[d' ok']|] eqn:E2; [|reflexivity].
    pose proof (update_idempotent (sch s) Hwf _ _ _ _ _ _ _ HI Hu Hs E E2) as ->.
    destruct ok'; reflexivity.
  - right. exists 2%N. split; [reflexivity|]. split; [discriminate | reflexivity].
Qed.

(* a partial filter with selector / elements but no data item: always answered with an error *)
Lemma rejected_update s remote u : rejected_shape u = true ->
  exists c, update_data s remote true u = (s, [Res c]) /\ c <> 0%N.
Proof.
  unfold rejected_shape. intros H. apply andb_true_iff in H. destruct H as [Hf Hn].
  destruct (u_new u) as [|? ?] eqn:En; [|discriminate].
  assert (Hfull : negb (direct s) && is_full true u = false).
  { unfold is_full. destruct (u_fp u); [cbn; apply andb_false_r | discriminate]. }
  unfold update_data. rewrite Hfull, En. unfold update_list.
  destruct (after_delete (sch s) remote _ (u_fd u)) as [[ex ok0]|].
  - unfold apply_new. destruct (filter_data (u_fp u)); [|discriminate]. rewrite andb_false_r.
    exists 1%N. split; [reflexivity | discriminate].
  - exists 2%N. split; [reflexivity | discriminate].
Qed.

Lemma eqb_items_refl l : eqb_items l l = true.
Proof. apply eqb_items_eq. reflexivity. Qed.

Opaque same_map unique_ids ordered spec_apply wf_update wf_schema simple eqb_upd eqb_items rejected_shape.
