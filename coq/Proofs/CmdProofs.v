(* C18 — theorems over the generated tables (by vm_compute, lifted with forallb_forall;
   the table is the bound) and the trace theorem for the machine of Model/CmdWire.v
   judged by the monitor of Spec/CmdSpec.v. *)
From Coq Require Import String List ZArith NArith Bool Lia.
From Verif Require Import Base.Prelude Model.JsonTy Model.JsonCodec Model.CmdTables Model.CmdWire Spec.CmdSpec.
From Verif Require Import Gen.GenJsonTypes Gen.GenTags Gen.GenFactory Proofs.CodecProofs.
Import ListNotations.
Local Open Scope Z_scope.

(* ---- the type table is well formed ---- *)
Lemma types_wf : wf_tbl T = true.
Proof. vm_cast_no_check (eq_refl true). Qed.

(* the tag rows are the rows of CmdType / FilterType, and every registered pair
   names a function entry whose types exist *)
Definition tables_aligned : bool :=
  (Nat.eqb (length cmd_ptags) (length (fields_of T cmd_id)) &&
   Nat.eqb (length filter_ptags) (length (fields_of T filter_id)) &&
   negb (Nat.eqb (length (fields_of T cmd_id)) 0) &&
   forallb (fun p => N.ltb (fst p) (N.of_nat (length feature_types)) &&
                     N.ltb (snd p) (N.of_nat (length functions))) registered &&
   forallb (fun f => kind_ok T (KStruct (fn_data f)) &&
                     match fn_sel f with Some id => kind_ok T (KStruct id) | None => true end &&
                     match fn_el f with Some id => kind_ok T (KStruct id) | None => true end) functions)%bool.

Lemma tables_aligned_ok : tables_aligned = true.
Proof. vm_cast_no_check (eq_refl true). Qed.

(* ---- one row: a registered pair, a shape, sample values of a depth ---- *)
Definition sample_row (ft fn shape depth : N) : op :=
  match fn_at fn with
  | Some f => Row ft fn shape (sample depth (fn_data f)) (sample_opt depth (fn_sel f)) (sample_opt depth (fn_el f))
  | None => Row ft fn shape VNil VNil VNil
  end.

Definition op_verdict (o : op) : verdict := snd (mon minit o (snd (step init o))).
Definition op_accepted (o : op) : bool := excused (op_verdict o) (excuses (scope sinit o)).

Definition rows_of (pairs : list (N * N)) : list op :=
  flat_map (fun p => flat_map (fun sh => map (fun d => sample_row (fst p) (snd p) sh d) sample_depths) all_shapes) pairs.

(* one pass over the rows computes three facts per row: it is accepted (violated
   clauses all excused); outside the two recorded classes it is accepted strictly;
   it carries well-typed values and the arguments its shape needs *)
Definition in_class (fn : N) : bool :=
  match fn_at fn with
  | Some f => shared_elements f || setpoint_description f
  | None => false
  end.

Definition strict_with (o : op) (v : verdict) : bool :=
  match o with
  | Row _ fn _ _ _ _ => in_class fn || match v with [] => true | _ => false end
  | _ => true
  end.
Definition row_strict (o : op) : bool := strict_with o (op_verdict o).

Definition row_typed (o : op) : bool :=
  match o with
  | Row ft fn shape data sel el =>
      match fn_at fn with
      | Some f => well_typed_row f data sel el && (negb (applicable f shape) || args_given shape sel el)
      | None => false
      end
  | _ => false
  end.

Definition row_facts (o : op) : bool :=
  let v := op_verdict o in
  excused v (excuses (scope sinit o)) && strict_with o v && row_typed o.

Lemma all_rows_facts : forallb row_facts (rows_of registered) = true.
Proof. vm_cast_no_check (eq_refl true). Qed.

Lemma all_rows_accepted : forallb op_accepted (rows_of registered) = true.
Proof.
  pose proof all_rows_facts as H. rewrite forallb_forall in *. intros o Ho.
  specialize (H o Ho). unfold row_facts in H.
  apply andb_true_iff in H. destruct H as [H _]. apply andb_true_iff in H. tauto.
Qed.

Lemma row_accepted ft fn shape depth :
  In (ft, fn) registered -> In shape all_shapes -> In depth sample_depths ->
  op_accepted (sample_row ft fn shape depth) = true.
Proof.
  intros Hr Hs Hd.
  pose proof all_rows_accepted as H. rewrite forallb_forall in H. apply H.
  unfold rows_of. apply in_flat_map. exists (ft, fn). split; [exact Hr|].
  apply in_flat_map. exists shape. split; [exact Hs|].
  apply in_map_iff. exists depth. split; [reflexivity | exact Hd].
Qed.

(* outside the two recorded classes nothing is excused: the rows are accepted strictly *)
Lemma all_rows_strict : forallb row_strict (rows_of registered) = true.
Proof.
  pose proof all_rows_facts as H. rewrite forallb_forall in *. intros o Ho.
  specialize (H o Ho). unfold row_facts in H.
  apply andb_true_iff in H. destruct H as [H _]. apply andb_true_iff in H. tauto.
Qed.

(* the rows are not vacuous: well-typed values, and the arguments the shape needs *)
Lemma rows_well_typed : forallb row_typed (rows_of registered) = true.
Proof.
  pose proof all_rows_facts as H. rewrite forallb_forall in *. intros o Ho.
  specialize (H o Ho). unfold row_facts in H.
  apply andb_true_iff in H. tauto.
Qed.

(* ---- the trace theorem ---- *)

(* the operations the theorem covers: rows over the sample values (the finite bound of
   the table theorem), every Codec operation (all values: Proofs/CodecProofs.v), every
   Decode operation (the property demands nothing of it) *)
Definition in_bounds (o : op) : Prop :=
  match o with
  | Row ft fn shape data sel el =>
      exists depth, In depth sample_depths /\ o = sample_row ft fn shape depth
  | _ => True
  end.

Lemma registered_b_In ft fn : registered_b ft fn = true -> In (ft, fn) registered.
Proof.
  unfold registered_b. rewrite existsb_exists. intros [[a b] [Hin Hab]].
  cbn [fst snd] in Hab. apply andb_true_iff in Hab. destruct Hab as [Ha Hb].
  apply N.eqb_eq in Ha. apply N.eqb_eq in Hb. subst. exact Hin.
Qed.

Lemma inN_In x l : inN x l = true -> In x l.
Proof.
  unfold inN. rewrite existsb_exists. intros [y [Hin Hy]]. apply N.eqb_eq in Hy. subst. exact Hin.
Qed.

Lemma excused_nil ex : excused [] ex = true.
Proof. reflexivity. Qed.

Lemma codec_accepted tid v : op_verdict (Codec tid v) = [].
Proof.
  unfold op_verdict. cbn [step mon snd].
  destruct (has_kind T (KStruct tid) v) eqn:Hk; [|reflexivity].
  assert (Ht : has_type T (TVal (KStruct tid)) v = true) by exact Hk.
  rewrite (roundtrip T types_wf v _ Ht).
  unfold clause, equiv. rewrite (norm_normt T v _ Ht), value_eqb_refl. reflexivity.
Qed.

Lemma bounded_op_accepted o s : in_bounds o -> excused (snd (mon minit o (snd (step init o)))) (excuses (scope s o)) = true.
Proof.
  destruct o as [ft fn shape data sel el | tid v | tid j]; intros Hb.
  - destruct Hb as [depth [Hd Ho]].
    destruct (registered_b ft fn && inN shape all_shapes)%bool eqn:E.
    + apply andb_true_iff in E. destruct E as [Hr Hs].
      pose proof (row_accepted ft fn shape depth (registered_b_In _ _ Hr) (inN_In _ _ Hs) Hd) as H.
      unfold op_accepted, op_verdict in H. rewrite <- Ho in H. exact H.
    + cbn [step mon snd]. rewrite E. apply excused_nil.
  - pose proof (codec_accepted tid v) as H. unfold op_verdict in H. rewrite H. apply excused_nil.
  - reflexivity.
Qed.

Theorem run_accepted : forall ops, Forall in_bounds ops ->
  accepted (judge minit sinit (snd (run init ops))) = true.
Proof.
  assert (G : forall ops m s st0, Forall in_bounds ops -> accepted (judge m s (snd (run st0 ops))) = true).
  { induction ops as [|o ops IH]; intros m s st0 Hb; [reflexivity|].
    inversion Hb as [|? ? Ho Hb']; subst.
    destruct m, st0. cbn [run].
    destruct (step tt o) as [s1 out] eqn:Es.
    destruct (run s1 ops) as [s2 tr] eqn:Er.
    cbn [snd judge].
    destruct (mon tt o out) as [m1 v] eqn:Em.
    unfold accepted. cbn [forallb fst snd].
    apply andb_true_iff. split.
    - pose proof (bounded_op_accepted o s Ho) as H.
      unfold init, minit in H. rewrite Es in H. cbn [snd] in H. rewrite Em in H. exact H.
    - specialize (IH m1 (scope s o) s1 Hb'). rewrite Er in IH. exact IH. }
  intros ops Hb. apply G. exact Hb.
Qed.

(* ---- refutation of the full statement (nothing excused) on the current tables ---- *)
Fixpoint index_of (name : string) (l : list string) (i : N) : N :=
  match l with
  | [] => i
  | x :: r => if String.eqb x name then i else index_of name r (N.succ i)
  end.

Definition row_by_name (ft fn : string) (shape depth : N) : op :=
  sample_row (index_of ft feature_types 0) (Nz (fn_index fn)) shape depth.

Definition shared_elements_witness : list op :=
  [row_by_name "ElectricalConnection" "electricalConnectionCharacteristicData" 2 1].

Lemma full_refuted : strictly_accepted (judge minit sinit (snd (run init shared_elements_witness))) = false.
Proof. vm_cast_no_check (eq_refl false). Qed.

(* ---- the defects of the pinned tree, replayed on the pinned spellings ---- *)
Definition retag (go tag : string) (l : list ptag) : list ptag :=
  map (fun t => if String.eqb (fst t) go then (go, parse_eebus tag) else t) l.

Definition pinned_filter_ptags : list ptag :=
  retag "NetworkManagementFeatureDescriptionListDataSelectors" "typ:selector,fct:networkManagementFeatureDescriptionList"
  (retag "SessionIdentificationDataElements" "typ:elements,fct:sessionIdentificationData"
  (retag "SessionMeasurementRelationDataElements" "typ:elements,fct:sessionMeasurementRelationData"
  (retag "MeasurementSeriesListDataSelectors" "measurementSeriesListData"
  (retag "SetpointDescriptionDataElements" "typ:elements,fct:" filter_ptags)))).

Definition pinned_verdict (by_addr : bool) (o : op) : verdict :=
  match o with
  | Row ft fn shape data sel el =>
      snd (mon minit o (step_row_with cmd_ptags pinned_filter_ptags by_addr ft fn shape data sel el))
  | _ => []
  end.

Lemma pinned_defects :
  (* delete selector / delete elements: the builder panics *)
  pinned_verdict true (row_by_name "Measurement" "measurementListData" 7 1) = [C_BUILDS] /\
  pinned_verdict true (row_by_name "Measurement" "measurementListData" 8 1) = [C_BUILDS] /\
  (* the five tags: the selector / the elements do not arrive *)
  pinned_verdict false (row_by_name "NetworkManagement" "networkManagementFeatureDescriptionListData" 1 1) = [C_PSEL] /\
  pinned_verdict false (row_by_name "Generic" "sessionIdentificationListData" 2 1) = [C_PEL] /\
  pinned_verdict false (row_by_name "Generic" "sessionMeasurementRelationListData" 8 1) = [C_DEL] /\
  pinned_verdict false (row_by_name "Measurement" "measurementSeriesListData" 6 1) = [C_PSEL] /\
  pinned_verdict false (row_by_name "Setpoint" "setpointDescriptionListData" 2 1) = [C_SETPOINT_TAG].
Proof. vm_compute. repeat split; reflexivity. Qed.
