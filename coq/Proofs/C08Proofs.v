(* C08 — every trace of Model/Stack.v is accepted by the monitor Spec/C08Spec.v. *)
From Verif Require Import Base.Prelude Model.Stack Spec.StackObs Spec.C08Spec Proofs.StackLemmas Proofs.StackInv.
From Verif Require Import Model.StackX Spec.StackXSpec Proofs.StackXProofs.

Definition strip (e : entry) : sentry := {| s_srv := e_srv e; s_ski := e_ski e; s_cli := e_cli e |}.
Definition abs (l : list entry) : list sentry := map strip l.

Lemma filter_abs (P : sentry -> bool) (Q : entry -> bool) l :
  (forall x, P (strip x) = Q x) -> filter P (abs l) = abs (filter Q l).
Proof.
  intros H. induction l as [|x l IH]; simpl; [reflexivity|].
  rewrite H. destruct (Q x); simpl; rewrite IH; reflexivity.
Qed.

Lemma existsb_abs (P : sentry -> bool) (Q : entry -> bool) l :
  (forall x, P (strip x) = Q x) -> existsb P (abs l) = existsb Q l.
Proof.
  intros H. induction l as [|x l IH]; simpl; [reflexivity|]. rewrite H, IH. reflexivity.
Qed.

(* ---------- reflexivity of the comparison functions used by the monitor ---------- *)
Lemma eqb_obs_notify_refl o : is_notify o = true -> eqb_obs_notify o o = true.
Proof.
  destruct o; simpl; try discriminate. intros _.
  rewrite !N.eqb_refl, !eqb_faddr_refl. reflexivity.
Qed.

Lemma eqb_opt_refl {A} (eqb : A -> A -> bool) o : (forall x, eqb x x = true) -> eqb_opt eqb o o = true.
Proof. intros H. destruct o; simpl; auto. Qed.

Lemma eqb_obs_event_refl k c ski e f lf :
  eqb_obs_event (OEvent k c ski e f lf) (OEvent k c ski e f lf) = true.
Proof.
  simpl. rewrite N.eqb_refl.
  rewrite (eqb_opt_refl eqb_eaddr e eqb_eaddr_refl), !(eqb_opt_refl eqb_faddr _ eqb_faddr_refl).
  destruct k, c; reflexivity.
Qed.

Lemma eqb_res_refl r : eqb_res r r = true.
Proof. destruct r as [[p c] e]. simpl. rewrite !N.eqb_refl. destruct e; reflexivity. Qed.

Lemma eqb_list_refl {A} (eqb : A -> A -> bool) l : (forall x, In x l -> eqb x x = true) -> eqb_list eqb l l = true.
Proof.
  induction l as [|x l IH]; simpl; intros H; [reflexivity|].
  rewrite (H x (or_introl eq_refl)). simpl. apply IH. intros y Hy. apply H. now right.
Qed.

Lemma same_multiset_refl {A} (eqb : A -> A -> bool) l :
  (forall x, In x l -> eqb x x = true) -> same_multiset eqb l l = true.
Proof.
  induction l as [|x l IH]; simpl; intros H; [reflexivity|].
  rewrite (H x (or_introl eq_refl)). apply IH. intros y Hy. apply H. now right.
Qed.

Lemma eqb_sentry_refl x : eqb_sentry x x = true.
Proof.
  unfold eqb_sentry, eqb_srv. rewrite eqb_eaddr_refl, !N.eqb_refl, eqb_faddr_refl. reflexivity.
Qed.

(* ---------- projections of model outputs ---------- *)
Lemma results_call p ctr ack err src dst :
  results (call_result p ctr ack err src dst) = expect_result p ctr ack err.
Proof. unfold call_result, expect_result. destruct err; [reflexivity|]. destruct ack; reflexivity. Qed.

Lemma call_no_notify p ctr ack err src dst : existsb is_notify (call_result p ctr ack err src dst) = false.
Proof. unfold call_result. destruct err; [reflexivity|]. destruct ack; reflexivity. Qed.

Lemma call_no_subev p ctr ack err src dst : filter is_sub_event (call_result p ctr ack err src dst) = [].
Proof. unfold call_result. destruct err; [reflexivity|]. destruct ack; reflexivity. Qed.

Lemma notify_all_notify s sf fn v : forall o, In o (notify_subscribers s sf fn v) -> is_notify o = true.
Proof. unfold notify_subscribers. intros o H. apply in_map_iff in H. destruct H as [x [<- _]]. reflexivity. Qed.

Lemma strip_complete p d x : strip (complete_one p (Some d) x) = complete_entry p d (strip x).
Proof.
  unfold complete_one, complete_entry, complete_cli, strip. simpl.
  destruct (N.eqb (e_ski x) p); simpl; [|reflexivity].
  destruct (eqb_faddr (e_cli x) (nm_addr None)); reflexivity.
Qed.

(* ---------- the invariant ---------- *)
Record Inv (s : st) (m : mst) : Prop := {
  inv_w : w m = s;
  inv_reg : reg m = abs (subs s);
  inv_s : SInv s
}.

Lemma inv_init : Inv init minit.
Proof. constructor; [reflexivity | reflexivity | exact sinv_init]. Qed.

(* the fan-out expected by the monitor is what the model sends *)
Lemma fanout_eq s m sf fn v : Inv s m -> fanout m sf fn v = notify_subscribers s sf fn v.
Proof.
  intros I. unfold fanout, notify_subscribers. rewrite (inv_reg _ _ I).
  rewrite (filter_abs _ (fun x => same_srv x sf)); [|intros x; reflexivity].
  unfold abs. rewrite map_map. reflexivity.
Qed.

(* ---------- the registry handlers against the rules ---------- *)
Lemma set_subs_same s : set_subs s (subs s) (next_sub s) = s.
Proof. destruct s; reflexivity. Qed.

Lemma add_sub_spec s r pe c : r = abs (subs s) ->
  match grant {| w := s; reg := r |} pe c with
  | Some (sf, en, cli) =>
      add_subscription s pe c =
        (set_subs s (subs s ++ [mk_entry (N.succ (next_sub s)) sf (p_ski pe) cli]) (N.succ (next_sub s)),
         [ev_reg EvSub ChAdd (p_ski pe) en cli sf], false) /\
      find_rent pe (fa_ent cli) = Some en
  | None => exists n, add_subscription s pe c = (set_subs s (subs s) n, [], true) /\ (next_sub s <= n)%N
  end.
Proof.
  intros ->. unfold grant, add_subscription. simpl w. simpl reg.
  destruct (local_feature s (rc_srv c)) as [sf|]; [|exists (next_sub s); rewrite set_subs_same; split; [reflexivity|lia]].
  destruct (rc_type c) as [t|]; [|exists (next_sub s); rewrite set_subs_same; split; [reflexivity|lia]].
  destruct (remote_feature pe (rc_cli c)) as [[en rf]|] eqn:Erf.
  2:{ destruct (role_type_ok (lf_role sf) (lf_type sf) RServer t); simpl;
      exists (next_sub s); rewrite set_subs_same; split; try reflexivity; lia. }
  destruct (role_type_ok (lf_role sf) (lf_type sf) RServer t); simpl;
    [|exists (next_sub s); rewrite set_subs_same; split; [reflexivity|lia]].
  destruct (role_type_ok (rf_role rf) (rf_type rf) RClient t); simpl;
    [|exists (next_sub s); rewrite set_subs_same; split; [reflexivity|lia]].
  rewrite (existsb_abs _ (fun x => same_srv x sf && N.eqb (e_ski x) (p_ski pe) && eqb_faddr (e_cli x) (rf_addr en rf)));
    [|intros x; reflexivity].
  destruct (existsb _ (subs s)); simpl.
  - exists (N.succ (next_sub s)). split; [reflexivity | lia].
  - split; [reflexivity|]. simpl. apply remote_feature_rent in Erf.
    rewrite <- (find_rent_addr _ _ _ Erf) in Erf. exact Erf.
Qed.

Lemma remove_sub_spec s pe c :
  match remote_feature pe (rc_cli c), local_feature s (rc_srv c) with
  | Some (en, rf), Some sf =>
      let ca := default_dev pe (rc_cli c) in
      let hit := fun x : entry => N.eqb (e_ski x) (p_ski pe) && eqb_faddr (e_cli x) ca && same_srv x sf in
      remove_subscription s pe c =
        if existsb hit (subs s)
        then (set_subs s (filter (fun x => negb (hit x)) (subs s)) (next_sub s),
              [ev_reg EvSub ChRemove (p_ski pe) en (rf_addr en rf) sf], false)
        else (s, [], true)
  | _, _ => remove_subscription s pe c = (s, [], true)
  end.
Proof.
  unfold remove_subscription.
  destruct (remote_feature pe (rc_cli c)) as [[en rf]|]; [|reflexivity].
  destruct (local_feature s (rc_srv c)) as [sf|]; [|reflexivity].
  cbv zeta. rewrite (filter_keeps_all (fun x => N.eqb (e_ski x) (p_ski pe) && eqb_faddr (e_cli x) (default_dev pe (rc_cli c)) && same_srv x sf)).
  destruct (existsb _ (subs s)); reflexivity.
Qed.

(* ---------- operations that do not concern the subscription registry ---------- *)
Definition frame (s s1 : st) : Prop := subs s1 = subs s /\ next_sub s1 = next_sub s.

Lemma quiet_ok out : existsb is_notify out = false -> filter is_sub_event out = [] -> quiet out = [].
Proof.
  intros H1 H2. unfold quiet, check. rewrite H1. simpl.
  destruct (existsb is_sub_event out) eqn:E; [|reflexivity].
  apply existsb_exists in E. destruct E as [x [Hx Hp]].
  assert (In x (filter is_sub_event out)) by (apply filter_In; auto). rewrite H2 in H. destruct H.
Qed.

Lemma add_binding_quiet s pe c :
  let '(s1, evs, err) := add_binding s pe c in
  frame s s1 /\ existsb is_notify evs = false /\ filter is_sub_event evs = [].
Proof.
  unfold add_binding, frame.
  destruct (local_feature s (rc_srv c)) as [sf|]; [|simpl; repeat split; reflexivity].
  destruct (rc_type c) as [t|]; [|simpl; repeat split; reflexivity].
  destruct (negb (role_type_ok (lf_role sf) (lf_type sf) RServer t)); [simpl; repeat split; reflexivity|].
  destruct (bindings_on s sf); [|simpl; repeat split; reflexivity].
  destruct (remote_feature pe (rc_cli c)) as [[en rf]|]; [|simpl; repeat split; reflexivity].
  destruct (negb (role_type_ok (rf_role rf) (rf_type rf) RClient t)); simpl; repeat split; reflexivity.
Qed.

Lemma remove_binding_quiet s pe c :
  let '(s1, evs, err) := remove_binding s pe c in
  frame s s1 /\ existsb is_notify evs = false /\ filter is_sub_event evs = [].
Proof.
  unfold remove_binding, frame.
  destruct (remote_feature pe (rc_cli c)) as [[en rf]|]; [|simpl; repeat split; reflexivity].
  destruct (local_feature s (rc_srv c)) as [sf|]; [|simpl; repeat split; reflexivity].
  destruct (negb (role_type_ok (lf_role sf) (lf_type sf) RServer (lf_type sf))); [simpl; repeat split; reflexivity|].
  destruct (negb (has_binding s sf (rf_addr en rf))); [simpl; repeat split; reflexivity|].
  cbv zeta. destruct (Nat.eqb _ _); simpl; repeat split; reflexivity.
Qed.

Lemma registry_call_bind s p ctr ack c (f : st -> peer -> reg_call -> st * list obs * bool) :
  (forall s pe c, let '(s1, evs, err) := f s pe c in
     frame s s1 /\ existsb is_notify evs = false /\ filter is_sub_event evs = []) ->
  let '(s1, out) := registry_call s p ctr ack c f in
  quiet out = [] /\ frame s s1.
Proof.
  intros Hf. unfold registry_call, with_source.
  destruct (find_peer s p) as [pe|]; [|split; [reflexivity | split; reflexivity]].
  destruct (remote_feature pe (nm_addr None)); [|split; [reflexivity | split; reflexivity]].
  specialize (Hf s pe c). destruct (f s pe c) as [[s1 evs] err].
  destruct Hf as [H1 [H4 H5]]. split; [|exact H1].
  apply quiet_ok.
  - rewrite existsb_app, H4, call_no_notify. reflexivity.
  - rewrite filter_app, H5, call_no_subev. reflexivity.
Qed.

Definition is_default (o : op) : bool :=
  match o with
  | AddLocalEntity _ | AddLocalFeature _ _ _ | AddFunction _ _ _ _ _
  | BindCall _ _ _ _ | BindDelete _ _ _ _ | ListBinds _ | LocalSubscribe _ _ _ | LocalBind _ _ _
  | HasLocalSub _ _ _ | HasLocalBind _ _ _ | ReadData _ _ _ | Resolve _ _
  | LocalUnsubscribe _ _ _ | LocalUnbind _ _ _ => true
  | _ => false
  end.

Lemma listing_quiet p l : existsb is_notify (listing p l) = false /\ filter is_sub_event (listing p l) = [].
Proof.
  unfold listing. induction (filter _ l) as [|x r [IH1 IH2]]; simpl; split; auto.
Qed.

Lemma default_ops_frame s o : is_default o = true ->
  let '(s1, out) := step s o in quiet out = [] /\ frame s s1.
Proof.
  destruct o; simpl is_default; try discriminate; intros _.
  - (* AddLocalEntity *) simpl. destruct (existsb _ (lents s)); split; try reflexivity; split; reflexivity.
  - (* AddLocalFeature *) simpl. destruct (find _ (lents s)); split; try reflexivity; split; reflexivity.
  - (* AddFunction *) simpl. split; [reflexivity | split; reflexivity].
  - (* BindCall *) cbn [step]. apply registry_call_bind. intros. apply add_binding_quiet.
  - (* BindDelete *) cbn [step]. apply registry_call_bind. intros. apply remove_binding_quiet.
  - (* ListBinds *) cbn [step]. split; [|split; reflexivity].
    apply quiet_ok; apply listing_quiet.
  - (* LocalSubscribe *)
    cbn [step]. unfold local_request.
    destruct (find_lfeat s e (Some f)) as [lf|]; [|split; [reflexivity | split; reflexivity]].
    destruct (fa_dev r); [|split; [reflexivity | split; reflexivity]].
    destruct (peer_by_addr s n); [|split; [reflexivity | split; reflexivity]].
    destruct (eqb_role (lf_role lf) RServer); split; try reflexivity; split; reflexivity.
  - (* LocalBind *)
    cbn [step]. unfold local_request.
    destruct (find_lfeat s e (Some f)) as [lf|]; [|split; [reflexivity | split; reflexivity]].
    destruct (fa_dev r); [|split; [reflexivity | split; reflexivity]].
    destruct (peer_by_addr s n); [|split; [reflexivity | split; reflexivity]].
    destruct (eqb_role (lf_role lf) RServer); split; try reflexivity; split; reflexivity.
  - cbn [step]. destruct (find_lfeat s e (Some f)); split; try reflexivity; split; reflexivity.
  - cbn [step]. destruct (find_lfeat s e (Some f)); split; try reflexivity; split; reflexivity.
  - cbn [step]. destruct (find_lfeat s e (Some f)) as [lf|]; [destruct (assoc_N fn (lf_data lf))|];
      split; try reflexivity; split; reflexivity.
  - cbn [step]. split; [reflexivity | split; reflexivity].
  - (* LocalUnsubscribe *)
    cbn [step]. unfold local_unrequest.
    destruct (find_lfeat s e (Some f)) as [lf|]; [|split; [reflexivity | split; reflexivity]].
    destruct (fa_dev r); [|split; [reflexivity | split; reflexivity]].
    destruct (peer_by_addr s n); split; try reflexivity; split; reflexivity.
  - (* LocalUnbind *)
    cbn [step]. unfold local_unrequest.
    destruct (find_lfeat s e (Some f)) as [lf|]; [|split; [reflexivity | split; reflexivity]].
    destruct (fa_dev r); [|split; [reflexivity | split; reflexivity]].
    destruct (peer_by_addr s n); split; try reflexivity; split; reflexivity.
Qed.

Lemma existsb_abs_reg s m (P : sentry -> bool) (Q : entry -> bool) :
  Inv s m -> (forall x, P (strip x) = Q x) -> existsb P (reg m) = existsb Q (subs s).
Proof. intros I H. rewrite (inv_reg _ _ I). apply existsb_abs. exact H. Qed.

Lemma notify_no_subev s sf fn v : existsb is_sub_event (notify_subscribers s sf fn v) = false.
Proof. unfold notify_subscribers. induction (filter _ (subs s)) as [|x l IH]; simpl; [reflexivity | exact IH]. Qed.

Lemma nodupb_true l : NoDup l -> nodupb l = true.
Proof.
  induction 1 as [|x l Hn Hd IH]; simpl; [reflexivity|]. rewrite IH, andb_true_r.
  destruct (memN x l) eqn:E; [|reflexivity]. apply memN_In in E. contradiction.
Qed.

Lemma seen_listing p l : entries_seen p (listing p l) = abs (filter (fun x => N.eqb (e_ski x) p) l).
Proof.
  unfold listing, entries_seen. induction l as [|x l IH]; simpl; [reflexivity|].
  destruct (N.eqb_spec (e_ski x) p) as [E|E]; simpl; [|exact IH].
  rewrite IH. unfold strip at 1. rewrite E. destruct (e_srv x); reflexivity.
Qed.

Lemma ids_listing p l : ids_seen (listing p l) = map e_id (filter (fun x => N.eqb (e_ski x) p) l).
Proof.
  unfold listing, ids_seen. induction (filter _ l) as [|x r IH]; simpl; [reflexivity|]. rewrite IH. reflexivity.
Qed.

Lemma length_listing p l : length (listing p l) = length (filter (fun x => N.eqb (e_ski x) p) l).
Proof. unfold listing. apply map_length. Qed.

Lemma dev_listing p l :
  forallb (fun x => match x with OEntry _ srv _ => eqb_optN (fa_dev srv) (Some LOCAL_DEV) | _ => true end) (listing p l) = true.
Proof. unfold listing. induction (filter _ l) as [|x r IH]; simpl; [reflexivity | exact IH]. Qed.

Lemma write_shape s p ctr ack src dst fn v :
  let '(s1, out) := step s (Write p ctr ack src dst fn v) in
  frame s s1 /\ existsb is_sub_event out = false /\
  ((existsb is_ev_data out = true /\ exists sf, local_feature s dst = Some sf /\ filter is_notify out = notify_subscribers s sf fn v) \/
   (existsb is_ev_data out = false /\ filter is_notify out = [])).
Proof.
  cbn [step]. unfold with_source.
  destruct (find_peer s p) as [pe|]; [|split; [split; reflexivity | split; [reflexivity | right; split; reflexivity]]].
  destruct (remote_feature pe src) as [[en rf]|]; [|split; [split; reflexivity | split; [reflexivity | right; split; reflexivity]]].
  destruct (local_feature s dst) as [lf|]; [|split; [split; reflexivity | split; [reflexivity | right; split; reflexivity]]].
  destruct (assoc_N fn (lf_ops lf)) as [[rd [|]]|];
    try solve [split; [split; reflexivity | split; [reflexivity | right; split; reflexivity]]].
  destruct (negb (has_binding s lf (rf_addr en rf)));
    [split; [split; reflexivity | split; [reflexivity | right; split; reflexivity]]|].
  destruct (negb (fn_registered (lf_type lf) fn));
    [split; [split; reflexivity | split; [reflexivity | right; split; reflexivity]]|].
  split; [split; reflexivity|]. split.
  - rewrite existsb_app, notify_no_subev. destruct ack; reflexivity.
  - left. split.
    + rewrite existsb_app. simpl. rewrite orb_true_r. reflexivity.
    + exists lf. split; [reflexivity|]. rewrite filter_app.
      rewrite (filter_all is_notify) by apply notify_all_notify.
      destruct ack; simpl; rewrite app_nil_r; reflexivity.
Qed.

Lemma Inv_same s m o : Inv s m -> fst (step s o) = s -> Inv (fst (step s o)) {| w := fst (step s o); reg := reg m |}.
Proof. intros I E. rewrite E. constructor; [reflexivity | apply (inv_reg _ _ I) | exact (inv_s _ _ I)]. Qed.

(* ---------- the main step lemma ---------- *)
Lemma Inv_of_frame s m o : Inv s m -> frame s (fst (step s o)) -> Inv (fst (step s o)) {| w := fst (step s o); reg := reg m |}.
Proof.
  intros I [H1 H2]. constructor; simpl.
  - reflexivity.
  - rewrite H1. apply (inv_reg _ _ I).
  - apply sinv_step. exact (inv_s _ _ I).
Qed.

Lemma Inv_filter s m o (P : entry -> bool) (Q : sentry -> bool) :
  Inv s m -> (forall x, Q (strip x) = P x) ->
  subs (fst (step s o)) = filter P (subs s) ->
  Inv (fst (step s o)) {| w := fst (step s o); reg := filter Q (reg m) |}.
Proof.
  intros I HPQ H1. constructor; simpl.
  - reflexivity.
  - rewrite (inv_reg _ _ I), H1. apply filter_abs. exact HPQ.
  - apply sinv_step. exact (inv_s _ _ I).
Qed.

Lemma sender_known_eq s m p : w m = s ->
  sender_known m p = match find_peer s p with
                     | Some pe => match remote_feature pe (nm_addr None) with Some _ => Some pe | None => None end
                     | None => None
                     end.
Proof. intros <-. reflexivity. Qed.

(* the shape of the goal: the monitor's next world is the model's next state *)
Lemma step_inv s m o : Inv s m ->
  let '(m1, v) := mon m o (snd (step s o)) in
  v = [] /\ Inv (fst (step s o)) m1.
Proof.
  intros I. pose proof (inv_w _ _ I) as Hw. pose proof (si_ok _ (inv_s _ _ I)) as Hok.
  destruct (is_default o) eqn:Ed.
  { pose proof (default_ops_frame s o Ed) as Hf.
    assert (Hm : forall out, mon m o out = (advance m o (reg m), quiet out)) by (destruct o; try discriminate; reflexivity).
    rewrite Hm. unfold advance. rewrite Hw. pose proof (Inv_of_frame s m o I) as HI.
    destruct (step s o) as [s1 out] eqn:Es. destruct Hf as [Hq Hf]. simpl fst in *. simpl snd.
    split; [exact Hq | exact (HI Hf)]. }
  destruct o; try discriminate; clear Ed.
  - (* Connect *)
    cbn [mon]. unfold advance. rewrite Hw.
    assert (Hsubs : subs (fst (step s (Connect p))) = not_of p (subs s) /\ existsb is_notify (snd (step s (Connect p))) = false).
    { cbn [step]. pose proof (disconnect_spec s p Hok) as Hd.
      destruct (find_peer s p) as [pe|] eqn:Ep.
      - destruct (disconnect s p) as [s0 evs]. destruct Hd as [[H1 _ _ _] [_ [_ [_ [Hq _]]]]]. simpl. auto.
      - simpl. unfold disconnect in Hd. rewrite Ep in Hd. destruct Hd as [[H1 _ _ _] _]. auto. }
    destruct Hsubs as [Hs Hq]. rewrite Hq. split; [reflexivity|].
    apply (Inv_filter s m (Connect p) (fun x => negb (N.eqb (e_ski x) p)) (fun x => negb (N.eqb (s_ski x) p)) I);
      [intros x; reflexivity | exact Hs].
  - (* DiscoveryReply *)
    cbn [mon]. unfold advance. rewrite Hw.
    destruct (reply_step_spec s p m0 Hok) as [_ [Hs [_ [_ [_ [Hq _]]]]]].
    rewrite Hq. split; [reflexivity|].
    rewrite nm_completion_model.
    constructor; cbn [w reg]; [reflexivity | | exact (sinv_step s (DiscoveryReply p m0) (inv_s _ _ I))].
    rewrite Hs, (inv_reg _ _ I). unfold drop, completed.
    rewrite <- (filter_abs (fun x => negb (N.eqb (s_ski x) p && existsb (eqb_eaddr (fa_ent (s_cli x))) (gone_of (snd (step s (DiscoveryReply p m0)))))))
      by (intros x; reflexivity).
    f_equal. destruct (model_completion s p m0) as [d|]; [|reflexivity].
    unfold complete_nm_addr, abs. rewrite !map_map. apply map_ext. intros x. symmetry. apply strip_complete.
  - (* DiscoveryNotify *)
    cbn [mon]. unfold advance. rewrite Hw.
    assert (H : existsb is_notify (snd (step s (DiscoveryNotify p ctr ack m0))) = false /\
                subs (fst (step s (DiscoveryNotify p ctr ack m0))) =
                drop p (gone_of (snd (step s (DiscoveryNotify p ctr ack m0)))) (subs s)).
    { cbn [step]. unfold with_source.
      destruct (find_peer s p) as [pe|] eqn:Ep; [|simpl; rewrite drop_nil; auto].
      destruct (remote_feature pe (nm_addr None)); [|simpl; rewrite drop_nil; auto].
      destruct (dm_ents m0) as [|d0 dr] eqn:Edm.
      - simpl. rewrite drop_nil. split; reflexivity.
      - rewrite <- Edm. destruct (notify_entries s p m0 (dm_ents m0)) as [[s1 evs] err] eqn:En.
        destruct (notify_entries_spec _ _ _ _ _ _ _ Hok En) as [_ [[Hs1 _ _ _] [Hq1 _]]].
        simpl fst. simpl snd. rewrite existsb_app, Hq1, call_no_notify. split; [reflexivity|].
        rewrite gone_of_app. replace (gone_of (call_result p ctr ack err (nm_addr (p_addr pe)) (nm_addr (Some LOCAL_DEV)))) with (@nil eaddr)
          by (unfold call_result; destruct err; [|destruct ack]; reflexivity).
        rewrite app_nil_r. exact Hs1. }
    destruct H as [Hq Hs]. rewrite Hq. split; [reflexivity|].
    refine (Inv_filter s m (DiscoveryNotify p ctr ack m0)
              (fun x => negb (N.eqb (e_ski x) p && existsb (eqb_eaddr (fa_ent (e_cli x))) (gone_of (snd (step s (DiscoveryNotify p ctr ack m0))))))
              _ I _ Hs).
    intros x. reflexivity.
  - (* SubCall *)
    cbn [mon]. unfold advance. rewrite (sender_known_eq s m p Hw), Hw. cbn [step].
    unfold registry_call, with_source.
    destruct (find_peer s p) as [pe|] eqn:Ep.
    2:{ simpl. split; [reflexivity|]. constructor; [reflexivity | apply (inv_reg _ _ I) | exact (inv_s _ _ I)]. }
    destruct (remote_feature pe (nm_addr None)) eqn:Enm.
    2:{ simpl. split; [reflexivity|]. constructor; [reflexivity | apply (inv_reg _ _ I) | exact (inv_s _ _ I)]. }
    pose proof (add_sub_spec s (reg m) pe c (inv_reg _ _ I)) as Ha.
    pose proof (find_peer_ski _ _ _ Ep) as Hski.
    replace {| w := s; reg := reg m |} with m in Ha by (destruct m; simpl in *; congruence).
    assert (Hstep : step s (SubCall p ctr ack c) =
                    let '(s1, evs, err) := add_subscription s pe c in
                    (s1, evs ++ call_result p ctr ack err (nm_addr (p_addr pe)) (nm_addr (Some LOCAL_DEV)))).
    { cbn [step]. unfold registry_call, with_source. rewrite Ep, Enm. reflexivity. }
    destruct (grant m pe c) as [[[sf en] cli]|].
    + destruct Ha as [Ha Hrent]. rewrite Ha. simpl fst. simpl snd.
      split; [destruct ack; simpl; rewrite Hski, ?N.eqb_refl, ?eqb_eaddr_refl, ?eqb_faddr_refl; reflexivity|].
      pose proof (sinv_step s (SubCall p ctr ack c) (inv_s _ _ I)) as Hs1. rewrite Hstep, Ha in Hs1. simpl fst in Hs1.
      constructor; simpl; [reflexivity | | exact Hs1].
      rewrite (inv_reg _ _ I). unfold abs. rewrite map_app. simpl. unfold strip. simpl. rewrite Hski. reflexivity.
    + destruct Ha as [n [Ha Hn]]. rewrite Ha. cbn [fst snd app].
      assert (V : forall o, check (eqb_list eqb_res (results (call_result p ctr ack true (nm_addr (p_addr pe)) o)) (expect_result p ctr ack true)) CL_GRANT ++
                            quiet (call_result p ctr ack true (nm_addr (p_addr pe)) o) = []).
      { intros o. simpl. rewrite !N.eqb_refl. reflexivity. }
      rewrite V. split; [reflexivity|].
      pose proof (sinv_step s (SubCall p ctr ack c) (inv_s _ _ I)) as Hs1. rewrite Hstep, Ha in Hs1. simpl fst in Hs1.
      constructor; simpl; [reflexivity | apply (inv_reg _ _ I) | exact Hs1].
  - (* SubDelete *)
    cbn [mon]. unfold advance. rewrite (sender_known_eq s m p Hw), Hw.
    pose proof (sinv_step s (SubDelete p ctr ack c) (inv_s _ _ I)) as Hs1.
    cbn [step] in *. unfold registry_call, with_source in *.
    destruct (find_peer s p) as [pe|] eqn:Ep.
    2:{ simpl. split; [reflexivity|]. constructor; [reflexivity | apply (inv_reg _ _ I) | exact Hs1]. }
    destruct (remote_feature pe (nm_addr None)).
    2:{ simpl. split; [reflexivity|]. constructor; [reflexivity | apply (inv_reg _ _ I) | exact Hs1]. }
    pose proof (remove_sub_spec s pe c) as Hrs.
    pose proof (find_peer_ski _ _ _ Ep) as Hski.
    destruct (remote_feature pe (rc_cli c)) as [[en rf]|].
    2:{ rewrite Hrs in *. cbn [fst snd] in *.
        split; [|constructor; [reflexivity | apply (inv_reg _ _ I) | exact Hs1]].
        simpl. rewrite !N.eqb_refl. reflexivity. }
    destruct (local_feature s (rc_srv c)) as [sf|].
    2:{ rewrite Hrs in *. cbn [fst snd] in *.
        split; [|constructor; [reflexivity | apply (inv_reg _ _ I) | exact Hs1]].
        simpl. rewrite !N.eqb_refl. reflexivity. }
    cbv zeta in Hrs. rewrite Hrs in *. clear Hrs. cbv zeta.
    set (hit_e := fun x : entry => N.eqb (e_ski x) (p_ski pe) && eqb_faddr (e_cli x) (default_dev pe (rc_cli c)) && same_srv x sf) in *.
    rewrite (existsb_abs_reg s m _ hit_e I) by (intros x; unfold hit_e; simpl; rewrite Hski; reflexivity).
    destruct (existsb hit_e (subs s)) eqn:Eh; cbn [fst snd] in *.
    + split; [destruct ack; simpl; rewrite Hski, ?N.eqb_refl, ?eqb_eaddr_refl, ?eqb_faddr_refl; reflexivity|].
      constructor; simpl; [reflexivity | | exact Hs1].
      rewrite (inv_reg _ _ I). apply filter_abs. intros x. unfold hit_e. simpl. rewrite Hski. reflexivity.
    + split; [simpl; rewrite !N.eqb_refl; reflexivity|].
      constructor; [reflexivity | apply (inv_reg _ _ I) | exact Hs1].
  - (* SetData *)
    cbn [mon]. unfold advance. rewrite Hw.
    pose proof (sinv_step s (SetData e f fn v) (inv_s _ _ I)) as Hs1.
    cbn [step] in *.
    destruct (find_lfeat s e (Some f)) as [sf|].
    2:{ simpl. split; [reflexivity|]. constructor; [reflexivity | apply (inv_reg _ _ I) | exact Hs1]. }
    destruct (fn_registered (lf_type sf) fn); simpl fst in *; simpl snd.
    + rewrite (fanout_eq s m sf fn v I).
      rewrite (filter_all is_notify) by apply notify_all_notify.
      rewrite same_multiset_refl by (intros x Hx; apply eqb_obs_notify_refl; exact (notify_all_notify _ _ _ _ _ Hx)).
      rewrite notify_no_subev. split; [reflexivity|].
      constructor; [reflexivity | apply (inv_reg _ _ I) | exact Hs1].
    + simpl. split; [reflexivity|]. constructor; [reflexivity | apply (inv_reg _ _ I) | exact Hs1].
  - (* Write *)
    cbn [mon]. unfold advance. rewrite Hw.
    pose proof (write_shape s p ctr ack src dst fn v) as Hws.
    pose proof (sinv_step s (Write p ctr ack src dst fn v) (inv_s _ _ I)) as Hs1.
    destruct (step s (Write p ctr ack src dst fn v)) as [s1 out]. simpl fst in *. simpl snd.
    destruct Hws as [[Hf1 Hf2] [Hse Hcase]]. rewrite Hse.
    destruct Hcase as [[Hacc [sf [Hlf Hn]]]|[Hacc Hn]]; rewrite Hacc.
    + rewrite Hlf, Hn, (fanout_eq s m sf fn v I).
      rewrite same_multiset_refl by (intros x Hx; apply eqb_obs_notify_refl; exact (notify_all_notify _ _ _ _ _ Hx)).
      split; [reflexivity|]. constructor; [reflexivity | simpl; rewrite Hf1; apply (inv_reg _ _ I) | exact Hs1].
    + rewrite Hn. split; [reflexivity|]. constructor; [reflexivity | simpl; rewrite Hf1; apply (inv_reg _ _ I) | exact Hs1].
  - (* Disconnect *)
    cbn [mon]. unfold advance. rewrite Hw.
    pose proof (disconnect_spec s p Hok) as Hd.
    assert (Hs : subs (fst (step s (Disconnect p))) = not_of p (subs s) /\ existsb is_notify (snd (step s (Disconnect p))) = false).
    { cbn [step]. destruct (disconnect s p) as [s0 evs]. destruct Hd as [[H1 _ _ _] [_ [_ [_ [Hq _]]]]]. auto. }
    destruct Hs as [Hs Hq]. rewrite Hq. split; [reflexivity|].
    apply (Inv_filter s m (Disconnect p) (fun x => negb (N.eqb (e_ski x) p)) (fun x => negb (N.eqb (s_ski x) p)) I);
      [intros x; reflexivity | exact Hs].
  - (* ListSubs *)
    cbn [mon]. unfold advance. rewrite Hw. cbn [step]. simpl fst. simpl snd. cbv zeta.
    rewrite (inv_reg _ _ I).
    rewrite (filter_abs _ (fun x => N.eqb (e_ski x) p)) by (intros x; reflexivity).
    rewrite seen_listing, ids_listing, length_listing, dev_listing.
    rewrite same_multiset_refl by (intros; apply eqb_sentry_refl).
    unfold abs. rewrite map_length, Nat.eqb_refl.
    destruct (si_ids _ (inv_s _ _ I)) as [_ [Hnd _]].
    rewrite nodupb_true by (apply sublist_ids; exact Hnd).
    split; [reflexivity|]. fold (abs (subs s)). rewrite <- (inv_reg _ _ I).
    constructor; [reflexivity | apply (inv_reg _ _ I) | exact (inv_s _ _ I)].
Qed.

Theorem run_accepted_from ops : forall s m, Inv s m -> accepted (judge m (snd (run s ops))) = true.
Proof.
  induction ops as [|o ops IH]; intros s m I; [reflexivity|].
  simpl. pose proof (step_inv s m o I) as Hs.
  destruct (step s o) as [s1 out]. destruct (run s1 ops) as [s2 tr] eqn:Er. simpl in *.
  destruct (mon m o out) as [m1 v]. destruct Hs as [Hv I1]. subst v. simpl.
  specialize (IH s1 m1 I1). rewrite Er in IH. exact IH.
Qed.

Theorem run_accepted ops : accepted (judge minit (snd (run init ops))) = true.
Proof. apply run_accepted_from. exact inv_init. Qed.

Theorem ids_distinct ops : NoDup (map e_id (subs (fst (run init ops)))).
Proof. destruct (si_ids _ (sinv_run ops init sinv_init)) as [_ [H _]]. exact H. Qed.

Theorem entries_owned ops : forall e, In e (subs (fst (run init ops))) ->
  exists pe en, find_peer (fst (run init ops)) (e_ski e) = Some pe /\ find_rent pe (fa_ent (e_cli e)) = Some en.
Proof. destruct (si_ok _ (sinv_run ops init sinv_init)) as [H _]. exact H. Qed.

(* ---------- teardown overlapped by another peer's registry call (Model/StackX.v) ---------- *)
Theorem xrun_accepted ops : xaccepted (xjudge mon minit (snd (xrun init ops))) = true.
Proof. apply (xrun_accepted_from mon Inv step_inv). exact inv_init. Qed.
