(* C08 — every trace of Model/Stack.v is accepted by the monitor Spec/C08Spec.v. *)
From Verif Require Import Base.Prelude Model.Stack Spec.C08Spec Proofs.StackLemmas.

Definition strip (e : entry) : sentry := {| s_srv := e_srv e; s_ski := e_ski e; s_cli := e_cli e |}.
Definition abs (l : list entry) : list sentry := map strip l.

Lemma filter_abs (P : sentry -> bool) (Q : entry -> bool) l :
  (forall x, P (strip x) = Q x) -> filter P (abs l) = abs (filter Q l).
Proof.
  intros H. induction l as [|x l IH]; simpl; [reflexivity|].
  rewrite H. destruct (Q x); simpl; rewrite IH; reflexivity.
Qed.

Lemma existsb_abs (P : sentry -> bool) (Q : entry -> bool) l :
  (forall x, P (strip x) = Q x) -> existsb P (abs l) = existsb Q l.
Proof.
  intros H. induction l as [|x l IH]; simpl; [reflexivity|]. rewrite H, IH. reflexivity.
Qed.

(* ---------- reflexivity of the comparison functions used by the monitor ---------- *)
Lemma eqb_obs_notify_refl o : is_notify o = true -> eqb_obs_notify o o = true.
Proof.
  destruct o; simpl; try discriminate. intros _.
  rewrite !N.eqb_refl, !eqb_faddr_refl. reflexivity.
Qed.

Lemma eqb_opt_refl {A} (eqb : A -> A -> bool) o : (forall x, eqb x x = true) -> eqb_opt eqb o o = true.
Proof. intros H. destruct o; simpl; auto. Qed.

Lemma eqb_obs_event_refl k c ski e f lf :
  eqb_obs_event (OEvent k c ski e f lf) (OEvent k c ski e f lf) = true.
Proof.
  simpl. rewrite N.eqb_refl.
  rewrite (eqb_opt_refl eqb_eaddr e eqb_eaddr_refl), !(eqb_opt_refl eqb_faddr _ eqb_faddr_refl).
  destruct k, c; reflexivity.
Qed.

Lemma eqb_res_refl r : eqb_res r r = true.
Proof. destruct r as [[p c] e]. simpl. rewrite !N.eqb_refl. destruct e; reflexivity. Qed.

Lemma eqb_list_refl {A} (eqb : A -> A -> bool) l : (forall x, In x l -> eqb x x = true) -> eqb_list eqb l l = true.
Proof.
  induction l as [|x l IH]; simpl; intros H; [reflexivity|].
  rewrite (H x (or_introl eq_refl)). simpl. apply IH. intros y Hy. apply H. now right.
Qed.

Lemma same_multiset_refl {A} (eqb : A -> A -> bool) l :
  (forall x, In x l -> eqb x x = true) -> same_multiset eqb l l = true.
Proof.
  induction l as [|x l IH]; simpl; intros H; [reflexivity|].
  rewrite (H x (or_introl eq_refl)). apply IH. intros y Hy. apply H. now right.
Qed.

Lemma eqb_sentry_refl x : eqb_sentry x x = true.
Proof.
  unfold eqb_sentry, eqb_srv. rewrite eqb_eaddr_refl, !N.eqb_refl, eqb_faddr_refl. reflexivity.
Qed.

(* ---------- projections of model outputs ---------- *)
Lemma results_app a b : results (a ++ b) = results a ++ results b.
Proof. unfold results. apply flat_map_app. Qed.

Lemma results_call p ctr ack err src dst :
  results (call_result p ctr ack err src dst) = expect_result p ctr ack err.
Proof. unfold call_result, expect_result. destruct err; [reflexivity|]. destruct ack; reflexivity. Qed.

Lemma call_no_notify p ctr ack err src dst : existsb is_notify (call_result p ctr ack err src dst) = false.
Proof. unfold call_result. destruct err; [reflexivity|]. destruct ack; reflexivity. Qed.

Lemma call_no_subev p ctr ack err src dst : filter is_sub_event (call_result p ctr ack err src dst) = [].
Proof. unfold call_result. destruct err; [reflexivity|]. destruct ack; reflexivity. Qed.

Lemma notify_all_notify s sf fn v : forall o, In o (notify_subscribers s sf fn v) -> is_notify o = true.
Proof. unfold notify_subscribers. intros o H. apply in_map_iff in H. destruct H as [x [<- _]]. reflexivity. Qed.

Lemma filter_all {A} (P : A -> bool) l : (forall x, In x l -> P x = true) -> filter P l = l.
Proof.
  induction l as [|x l IH]; simpl; intros H; [reflexivity|].
  rewrite (H x (or_introl eq_refl)). f_equal. apply IH. intros y Hy. apply H. now right.
Qed.

Lemma filter_none {A} (P : A -> bool) l : (forall x, In x l -> P x = false) -> filter P l = [].
Proof.
  induction l as [|x l IH]; simpl; intros H; [reflexivity|].
  rewrite (H x (or_introl eq_refl)). apply IH. intros y Hy. apply H. now right.
Qed.

Lemma existsb_none {A} (P : A -> bool) l : (forall x, In x l -> P x = false) -> existsb P l = false.
Proof.
  induction l as [|x l IH]; simpl; intros H; [reflexivity|].
  rewrite (H x (or_introl eq_refl)). apply IH. intros y Hy. apply H. now right.
Qed.

(* ---------- the invariant ---------- *)
Definition owner_ok (s : st) (e : entry) : Prop :=
  exists pe en, find_peer s (e_ski e) = Some pe /\ find_rent pe (fa_ent (e_cli e)) = Some en.

Record Inv (s : st) (m : mst) : Prop := {
  inv_w : w m = s;
  inv_reg : reg m = abs (subs s);
  inv_ids : forall e, In e (subs s) -> (e_id e <= next_sub s)%N;
  inv_nodup : NoDup (map e_id (subs s));
  inv_owner : forall e, In e (subs s) -> owner_ok s e
}.

Lemma inv_init : Inv init minit.
Proof. constructor; simpl; try reflexivity; try tauto. constructor. Qed.

(* the fan-out expected by the monitor is what the model sends *)
Lemma fanout_eq s m sf fn v : Inv s m -> fanout m sf fn v = notify_subscribers s sf fn v.
Proof.
  intros I. unfold fanout, notify_subscribers. rewrite (inv_reg _ _ I).
  rewrite (filter_abs _ (fun x => same_srv x sf)); [|intros x; reflexivity].
  unfold abs. rewrite map_map. reflexivity.
Qed.

(* ---------- the registry handlers against the rules ---------- *)
Definition mk_entry (id : N) (sf : lfeat) (ski : N) (cli : faddr) : entry :=
  {| e_id := id; e_srv := (lf_ent sf, lf_id sf); e_ski := ski; e_cli := cli |}.

Lemma set_subs_same s : set_subs s (subs s) (next_sub s) = s.
Proof. destruct s; reflexivity. Qed.

Lemma add_sub_spec s r pe c : r = abs (subs s) ->
  match grant {| w := s; reg := r |} pe c with
  | Some (sf, en, cli) =>
      add_subscription s pe c =
        (set_subs s (subs s ++ [mk_entry (N.succ (next_sub s)) sf (p_ski pe) cli]) (N.succ (next_sub s)),
         [ev_reg EvSub ChAdd (p_ski pe) en cli sf], false) /\
      find_rent pe (fa_ent cli) = Some en
  | None => exists n, add_subscription s pe c = (set_subs s (subs s) n, [], true) /\ (next_sub s <= n)%N
  end.
Proof.
  intros ->. unfold grant, add_subscription. simpl w. simpl reg.
  destruct (local_feature s (rc_srv c)) as [sf|]; [|exists (next_sub s); rewrite set_subs_same; split; [reflexivity|lia]].
  destruct (rc_type c) as [t|]; [|exists (next_sub s); rewrite set_subs_same; split; [reflexivity|lia]].
  destruct (remote_feature pe (rc_cli c)) as [[en rf]|] eqn:Erf.
  2:{ destruct (role_type_ok (lf_role sf) (lf_type sf) RServer t); simpl;
      exists (next_sub s); rewrite set_subs_same; split; try reflexivity; lia. }
  destruct (role_type_ok (lf_role sf) (lf_type sf) RServer t); simpl;
    [|exists (next_sub s); rewrite set_subs_same; split; [reflexivity|lia]].
  destruct (role_type_ok (rf_role rf) (rf_type rf) RClient t); simpl;
    [|exists (next_sub s); rewrite set_subs_same; split; [reflexivity|lia]].
  rewrite (existsb_abs _ (fun x => same_srv x sf && N.eqb (e_ski x) (p_ski pe) && eqb_faddr (e_cli x) (rf_addr en rf)));
    [|intros x; reflexivity].
  destruct (existsb _ (subs s)); simpl.
  - exists (N.succ (next_sub s)). split; [reflexivity | lia].
  - split; [reflexivity|]. simpl. apply remote_feature_rent in Erf.
    rewrite <- (find_rent_addr _ _ _ Erf) in Erf. exact Erf.
Qed.

Lemma remove_sub_spec s pe c :
  match remote_feature pe (rc_cli c), local_feature s (rc_srv c) with
  | Some (en, rf), Some sf =>
      let ca := default_dev pe (rc_cli c) in
      let hit := fun x : entry => eqb_faddr (e_cli x) ca && same_srv x sf in
      remove_subscription s pe c =
        if existsb hit (subs s)
        then (set_subs s (filter (fun x => negb (hit x)) (subs s)) (next_sub s),
              [ev_reg EvSub ChRemove (p_ski pe) en (rf_addr en rf) sf], false)
        else (s, [], true)
  | _, _ => remove_subscription s pe c = (s, [], true)
  end.
Proof.
  unfold remove_subscription.
  destruct (remote_feature pe (rc_cli c)) as [[en rf]|]; [|reflexivity].
  destruct (local_feature s (rc_srv c)) as [sf|]; [|reflexivity].
  cbv zeta. rewrite (filter_keeps_all (fun x => eqb_faddr (e_cli x) (default_dev pe (rc_cli c)) && same_srv x sf)).
  destruct (existsb _ (subs s)); reflexivity.
Qed.

(* ---------- teardown: what entity removal and disconnect do to the registry ---------- *)
Definition gone_of (evs : list obs) : list eaddr :=
  flat_map (fun x => match x with OEvent EvEntity ChRemove _ (Some e) _ _ => [e] | _ => [] end) evs.

Definition drop (p : N) (g : list eaddr) (l : list entry) : list entry :=
  filter (fun x => negb (N.eqb (e_ski x) p && existsb (eqb_eaddr (fa_ent (e_cli x))) g)) l.

Lemma gone_of_app a b : gone_of (a ++ b) = gone_of a ++ gone_of b.
Proof. unfold gone_of. apply flat_map_app. Qed.

Lemma drop_nil p l : drop p [] l = l.
Proof. unfold drop. apply filter_all. intros x _. simpl. rewrite andb_false_r. reflexivity. Qed.

Lemma filter_filter {A} (P Q : A -> bool) l : filter P (filter Q l) = filter (fun x => Q x && P x) l.
Proof.
  induction l as [|x l IH]; simpl; [reflexivity|].
  destruct (Q x); simpl; [destruct (P x); rewrite IH; reflexivity | exact IH].
Qed.

Lemma filter_ext' {A} (P Q : A -> bool) l : (forall x, P x = Q x) -> filter P l = filter Q l.
Proof. intros H. induction l as [|x l IH]; simpl; [reflexivity|]. rewrite H, IH. reflexivity. Qed.

Lemma drop_app p g1 g2 l : drop p (g1 ++ g2) l = drop p g2 (drop p g1 l).
Proof.
  unfold drop. rewrite filter_filter. apply filter_ext'. intros x.
  rewrite existsb_app. destruct (N.eqb (e_ski x) p); simpl; [|reflexivity].
  destruct (existsb _ g1); reflexivity.
Qed.

Definition RegOK (s : st) : Prop := forall e, In e (subs s) -> owner_ok s e.

Lemma evs_removed_gone k s pe en l : gone_of (map (ev_removed k s pe en) l) = [] \/ k = EvEntity.
Proof.
  destruct k; try (left; induction l as [|x l IH]; simpl; [reflexivity | exact IH]). right; reflexivity.
Qed.

Lemma evs_removed_quiet k s pe en l :
  existsb is_notify (map (ev_removed k s pe en) l) = false /\ results (map (ev_removed k s pe en) l) = [].
Proof. induction l as [|x l [IH1 IH2]]; simpl; [split; reflexivity|]. split; assumption. Qed.

Lemma remove_for_entity_spec s pe en :
  let '(s', evs) := remove_for_entity s pe en in
  subs s' = drop (p_ski pe) [re_addr en] (subs s) /\ next_sub s' = next_sub s /\ peers s' = peers s /\
  gone_of evs = [] /\ existsb is_notify evs = false /\ results evs = [].
Proof.
  unfold remove_for_entity. simpl.
  split; [|split; [reflexivity|split; [reflexivity|]]].
  - unfold drop. apply filter_ext'. intros x. unfold entity_match. simpl. rewrite orb_false_r. reflexivity.
  - rewrite gone_of_app, existsb_app, results_app.
    destruct (evs_removed_gone EvSub s pe en (filter (entity_match pe en) (subs s))) as [->|]; [|discriminate].
    match goal with |- context [map (ev_removed EvBind s pe en) ?l] =>
      destruct (evs_removed_gone EvBind s pe en l) as [->|]; [|discriminate];
      destruct (evs_removed_quiet EvBind s pe en l) as [-> ->] end.
    destruct (evs_removed_quiet EvSub s pe en (filter (entity_match pe en) (subs s))) as [-> ->].
    repeat split; reflexivity.
Qed.

Lemma clean_entity_caches_frame s en :
  subs (clean_entity_caches s en) = subs s /\ next_sub (clean_entity_caches s en) = next_sub s /\
  peers (clean_entity_caches s en) = peers s.
Proof. unfold clean_entity_caches. destruct (re_dev en); simpl; repeat split; reflexivity. Qed.

Lemma owner_peers s s1 e : peers s1 = peers s -> owner_ok s e -> owner_ok s1 e.
Proof. unfold owner_ok, find_peer. intros ->. tauto. Qed.

Lemma find_rent_filter pe a e :
  e <> a ->
  find_rent {| p_ski := p_ski pe; p_addr := p_addr pe;
               p_ents := filter (fun x => negb (eqb_eaddr (re_addr x) a)) (p_ents pe) |} e = find_rent pe e.
Proof.
  intros Hne. unfold find_rent. simpl. induction (p_ents pe) as [|x l IH]; simpl; [reflexivity|].
  destruct (eqb_eaddr (re_addr x) a) eqn:Ea; simpl.
  - destruct (eqb_eaddr (re_addr x) e) eqn:Ee; [|exact IH].
    apply eqb_eaddr_eq in Ea, Ee. congruence.
  - destruct (eqb_eaddr (re_addr x) e); [reflexivity | exact IH].
Qed.

Lemma remove_entities_cons s p de r :
  remove_entities s p (de :: r) =
  match find_peer s p with
  | None => (s, [], true)
  | Some pe =>
      if negb (check_entity pe de) then (s, [], true) else
      match find_rent pe (de_addr de) with
      | None => remove_entities s p r
      | Some en =>
          let pe1 := {| p_ski := p_ski pe; p_addr := p_addr pe;
                        p_ents := filter (fun x => negb (eqb_eaddr (re_addr x) (de_addr de))) (p_ents pe) |} in
          let s1 := set_peer s pe1 in
          let '(s2, evs) := remove_for_entity s1 pe1 en in
          let s3 := clean_entity_caches s2 en in
          let '(s4, evs2, err) := remove_entities s3 p r in
          (s4, ev_entity ChRemove pe en.(re_addr) :: evs ++ evs2, err)
      end
  end.
Proof. reflexivity. Qed.

Lemma remove_entities_spec l : forall s p s' evs err,
  RegOK s -> remove_entities s p l = (s', evs, err) ->
  RegOK s' /\ subs s' = drop p (gone_of evs) (subs s) /\ next_sub s' = next_sub s /\
  existsb is_notify evs = false /\ results evs = [].
Proof.
  induction l as [|de r IH]; intros s p s' evs err Hok H.
  - simpl in H. inversion H; subst. rewrite drop_nil. repeat split; auto.
  - rewrite remove_entities_cons in H. destruct (find_peer s p) as [pe|] eqn:Ep.
    2:{ inversion H; subst. rewrite drop_nil. repeat split; auto. }
    destruct (check_entity pe de); cbn [negb] in H.
    2:{ inversion H; subst. rewrite drop_nil. repeat split; auto. }
    destruct (find_rent pe (de_addr de)) as [en|] eqn:Een; [|exact (IH _ _ _ _ _ Hok H)].
    cbv zeta in H.
    set (pe1 := {| p_ski := p_ski pe; p_addr := p_addr pe;
                   p_ents := filter (fun x => negb (eqb_eaddr (re_addr x) (de_addr de))) (p_ents pe) |}) in *.
    pose proof (remove_for_entity_spec (set_peer s pe1) pe1 en) as Hr.
    destruct (remove_for_entity (set_peer s pe1) pe1 en) as [s2 evs1].
    destruct Hr as [Hs2 [Hn2 [Hp2 [Hg [Hq Hres]]]]].
    destruct (clean_entity_caches_frame s2 en) as [Hs3 [Hn3 Hp3]].
    destruct (remove_entities (clean_entity_caches s2 en) p r) as [[s4 evs2] err2] eqn:Er.
    injection H as H1 H2 H3. subst s' evs err.
    pose proof (find_peer_ski _ _ _ Ep) as Hski.
    assert (Hok3 : RegOK (clean_entity_caches s2 en)).
    { intros e He. rewrite Hs3, Hs2 in He. unfold drop in He. apply filter_In in He. destruct He as [He Hm].
      simpl in He. destruct (Hok e He) as [pe' [en' [Hf Hr']]].
      unfold owner_ok, find_peer. rewrite Hp3, Hp2. fold (find_peer (set_peer s pe1) (e_ski e)).
      rewrite find_peer_set_peer, Hf. simpl p_ski. simpl in Hm.
      destruct (N.eqb_spec (e_ski e) (p_ski pe)) as [E|E].
      - exists pe1. assert (pe' = pe) by congruence. subst pe'.
        destruct (eqb_eaddr (fa_ent (e_cli e)) (re_addr en)) eqn:Ea; [simpl in Hm; discriminate|].
        exists en'. split; [reflexivity|]. unfold pe1. rewrite find_rent_filter; [exact Hr'|].
        intros Hx. rewrite <- (find_rent_addr _ _ _ Een) in Hx. rewrite Hx, eqb_eaddr_refl in Ea. discriminate.
      - exists pe', en'. split; [reflexivity | exact Hr']. }
    destruct (IH _ _ _ _ _ Hok3 Er) as [Hok4 [Hs4 [Hn4 [Hq4 Hres4]]]].
    split; [exact Hok4|]. split; [|split; [|split]].
    + rewrite Hs4, Hs3, Hs2. simpl subs. simpl gone_of at 2.
      change (gone_of (ev_entity ChRemove pe (re_addr en) :: evs1 ++ evs2))
        with (re_addr en :: gone_of (evs1 ++ evs2)).
      rewrite gone_of_app, Hg. simpl app. change (re_addr en :: gone_of evs2) with ([re_addr en] ++ gone_of evs2).
      rewrite drop_app. rewrite <- Hski. reflexivity.
    + rewrite Hn4, Hn3, Hn2. reflexivity.
    + simpl. rewrite existsb_app, Hq, Hq4. reflexivity.
    + change (results (ev_entity ChRemove pe (re_addr en) :: evs1 ++ evs2)) with (results (evs1 ++ evs2)).
      rewrite results_app, Hres, Hres4. reflexivity.
Qed.

Lemma RegOK_set_peer_add s p pe m l :
  find_peer s p = Some pe -> RegOK s -> RegOK (set_peer s (fst (add_entities pe m l))).
Proof.
  intros Hp Hok e He. simpl in He. destruct (Hok e He) as [pe' [en' [Hf Hr]]].
  unfold owner_ok. rewrite find_peer_set_peer, Hf, add_entities_ski.
  pose proof (find_peer_ski _ _ _ Hp) as Hski.
  destruct (N.eqb_spec (e_ski e) (p_ski pe)) as [E|E].
  - assert (pe' = pe) by congruence. subst pe'.
    assert (Hh : has_rent pe (fa_ent (e_cli e)) = true) by (apply has_rent_find; eauto).
    apply (add_entities_keeps pe m l) in Hh. apply has_rent_find in Hh. destruct Hh as [en2 Hen2].
    eauto.
  - eauto.
Qed.

Lemma gone_of_added pe l : gone_of (map (ev_entity ChAdd pe) l) = [].
Proof. induction l as [|x l IH]; simpl; [reflexivity | exact IH]. Qed.

Lemma quiet_added pe l :
  existsb is_notify (map (ev_entity ChAdd pe) l) = false /\ results (map (ev_entity ChAdd pe) l) = [].
Proof. induction l as [|x l [IH1 IH2]]; simpl; split; auto. Qed.

Lemma notify_entries_cons s p m de r :
  notify_entries s p m (de :: r) =
  match de_state de with
  | None => (s, [], true)
  | Some SAdded =>
      match find_peer s p with
      | None => (s, [], true)
      | Some pe =>
          if negb (all_checked pe (dm_ents m)) then
            let ok := (fix pre (l : list disc_ent) := match l with
                                                      | [] => []
                                                      | d :: t => if check_entity pe d then d :: pre t else []
                                                      end) (dm_ents m) in
            let '(pe1, _) := add_entities pe m ok in
            (set_peer s pe1, [], true)
          else
          let '(pe1, created) := add_entities pe m (dm_ents m) in
          let s1 := set_peer s pe1 in
          let '(s2, evs, err) := notify_entries s1 p m r in
          (s2, map (ev_entity ChAdd pe) created ++ evs, err)
      end
  | Some SRemoved =>
      let '(s1, evs, err) := remove_entities s p (dm_ents m) in
      if err then (s1, evs, true) else
      let '(s2, evs2, err2) := notify_entries s1 p m r in
      (s2, evs ++ evs2, err2)
  end.
Proof. reflexivity. Qed.

Lemma notify_entries_spec l : forall s p m s' evs err,
  RegOK s -> notify_entries s p m l = (s', evs, err) ->
  RegOK s' /\ subs s' = drop p (gone_of evs) (subs s) /\ next_sub s' = next_sub s /\
  existsb is_notify evs = false /\ results evs = [].
Proof.
  induction l as [|de r IH]; intros s p m s' evs err Hok H.
  - simpl in H. inversion H; subst. rewrite drop_nil. repeat split; auto.
  - rewrite notify_entries_cons in H.
    destruct (de_state de) as [[|]|].
    + (* added *)
      destruct (find_peer s p) as [pe|] eqn:Ep.
      2:{ inversion H; subst. rewrite drop_nil. repeat split; auto. }
      destruct (all_checked pe (dm_ents m)); cbn [negb] in H.
      * pose proof (RegOK_set_peer_add s p pe m (dm_ents m) Ep Hok) as Hok1.
        destruct (add_entities pe m (dm_ents m)) as [pe1 created]. simpl fst in Hok1. cbv zeta in H.
        destruct (notify_entries (set_peer s pe1) p m r) as [[s2 evs2] err2] eqn:Er.
        injection H as H1 H2 H3. subst s' evs err.
        destruct (IH _ _ _ _ _ _ Hok1 Er) as [Hok2 [Hs2 [Hn2 [Hq2 Hr2]]]].
        destruct (quiet_added pe created) as [Hqa Hra].
        split; [exact Hok2|]. split; [|split; [|split]].
        -- rewrite Hs2, gone_of_app, gone_of_added. reflexivity.
        -- rewrite Hn2. reflexivity.
        -- rewrite existsb_app, Hqa, Hq2. reflexivity.
        -- rewrite results_app, Hra, Hr2. reflexivity.
      * cbv zeta in H.
        match type of H with context [add_entities pe m ?ok] =>
          pose proof (RegOK_set_peer_add s p pe m ok Ep Hok) as Hok1; destruct (add_entities pe m ok) as [pe1 cr] end.
        simpl fst in Hok1. inversion H; subst. rewrite drop_nil. repeat split; auto.
    + (* removed *)
      destruct (remove_entities s p (dm_ents m)) as [[s1 evs1] err1] eqn:Er1.
      destruct (remove_entities_spec _ _ _ _ _ _ Hok Er1) as [Hok1 [Hs1 [Hn1 [Hq1 Hr1]]]].
      destruct err1.
      * inversion H; subst. repeat split; auto.
      * destruct (notify_entries s1 p m r) as [[s2 evs2] err2] eqn:Er.
        injection H as H1 H2 H3. subst s' evs err.
        destruct (IH _ _ _ _ _ _ Hok1 Er) as [Hok2 [Hs2 [Hn2 [Hq2 Hr2]]]].
        split; [exact Hok2|]. split; [|split; [|split]].
        -- rewrite Hs2, Hs1, gone_of_app, drop_app. reflexivity.
        -- rewrite Hn2, Hn1. reflexivity.
        -- rewrite existsb_app, Hq1, Hq2. reflexivity.
        -- rewrite results_app, Hr1, Hr2. reflexivity.
    + inversion H; subst. rewrite drop_nil. repeat split; auto.
Qed.

(* ---------- disconnect ---------- *)
Definition F1 (pe : peer) := (fun (acc : st * list obs) (en : rent) =>
                      let '(sa, ea) := acc in
                      let gone := filter (entity_match pe en) (subs sa) in
                      (set_subs sa (filter (fun x => negb (entity_match pe en x)) (subs sa)) (next_sub sa),
                       ea ++ map (ev_removed EvSub sa pe en) gone)).
Definition F2 (pe : peer) := (fun (acc : st * list obs) (en : rent) =>
               let '(sa, ea) := acc in
               let gone := filter (entity_match pe en) (binds sa) in
               (set_binds sa (filter (fun x => negb (entity_match pe en x)) (binds sa)) (next_bind sa),
                ea ++ map (ev_removed EvBind sa pe en) gone)).

Lemma remove_all_unfold s pe :
  remove_all_for_device s pe = fold_left (F2 pe) (p_ents pe) (fold_left (F1 pe) (p_ents pe) (s, [])).
Proof. unfold remove_all_for_device. destruct (fold_left _ (p_ents pe) (s, [])) as [s1 ev1]. reflexivity. Qed.

Definition quiet_evs (evs : list obs) : Prop := existsb is_notify evs = false /\ results evs = [].

Lemma quiet_evs_app a b : quiet_evs a -> quiet_evs b -> quiet_evs (a ++ b).
Proof. intros [A1 A2] [B1 B2]. split; [rewrite existsb_app, A1, B1 | rewrite results_app, A2, B2]; reflexivity. Qed.

Lemma fold_F1 pe ents : forall sa ea,
  quiet_evs ea ->
  let '(s1, ev1) := fold_left (F1 pe) ents (sa, ea) in
  subs s1 = drop (p_ski pe) (map re_addr ents) (subs sa) /\ next_sub s1 = next_sub sa /\
  peers s1 = peers sa /\ quiet_evs ev1.
Proof.
  induction ents as [|en r IH]; intros sa ea Hq; simpl.
  - rewrite drop_nil. auto.
  - match goal with |- context [fold_left (F1 pe) r (?s0, ?e0)] =>
      assert (Hq' : quiet_evs e0) by (apply quiet_evs_app; [exact Hq | apply evs_removed_quiet]);
      specialize (IH s0 e0 Hq'); destruct (fold_left (F1 pe) r (s0, e0)) as [s1 ev1] end.
    destruct IH as [H1 [H2 [H3 H4]]].
    simpl in H1, H2, H3. split; [|auto].
    rewrite H1. change (re_addr en :: map re_addr r) with ([re_addr en] ++ map re_addr r).
    rewrite drop_app. f_equal. unfold drop. apply filter_ext'. intros x. unfold entity_match. simpl.
    rewrite orb_false_r. reflexivity.
Qed.

Lemma fold_F2 pe ents : forall sa ea,
  quiet_evs ea ->
  let '(s1, ev1) := fold_left (F2 pe) ents (sa, ea) in
  subs s1 = subs sa /\ next_sub s1 = next_sub sa /\ peers s1 = peers sa /\ quiet_evs ev1.
Proof.
  induction ents as [|en r IH]; intros sa ea Hq; simpl; [auto|].
  match goal with |- context [fold_left (F2 pe) r (?s0, ?e0)] =>
    assert (Hq' : quiet_evs e0) by (apply quiet_evs_app; [exact Hq | apply evs_removed_quiet]);
    specialize (IH s0 e0 Hq'); destruct (fold_left (F2 pe) r (s0, e0)) as [s1 ev1] end.
  destruct IH as [H1 [H2 [H3 H4]]]. auto.
Qed.

Lemma find_filter_other (l : list peer) p q :
  q <> p -> find (fun x => N.eqb (p_ski x) q) (filter (fun x => negb (N.eqb (p_ski x) p)) l) =
            find (fun x => N.eqb (p_ski x) q) l.
Proof.
  intros Hne. induction l as [|x l IH]; simpl; [reflexivity|].
  destruct (N.eqb_spec (p_ski x) p) as [E|E]; simpl.
  - destruct (N.eqb_spec (p_ski x) q); [congruence | exact IH].
  - destruct (N.eqb (p_ski x) q); [reflexivity | exact IH].
Qed.

Lemma drop_all_of_peer s p pe l :
  find_peer s p = Some pe -> (forall e, In e l -> owner_ok s e) ->
  filter (fun x => negb (N.eqb (e_ski x) p && existsb (eqb_eaddr (fa_ent (e_cli x))) (map re_addr (p_ents pe)))) l =
  filter (fun x => negb (N.eqb (e_ski x) p)) l.
Proof.
  intros Ep. induction l as [|x l IHl]; intros Hok; simpl; [reflexivity|].
  assert (Hx : owner_ok s x) by (apply Hok; now left).
  assert (Hl : forall e, In e l -> owner_ok s e) by (intros e He; apply Hok; now right).
  destruct (N.eqb_spec (e_ski x) p) as [E|E]; simpl.
  - destruct Hx as [pe' [en' [Hf Hr]]]. rewrite E, Ep in Hf. inversion Hf; subst pe'.
    assert (Hex : existsb (eqb_eaddr (fa_ent (e_cli x))) (map re_addr (p_ents pe)) = true).
    { apply existsb_exists. exists (re_addr en'). split.
      - apply in_map. unfold find_rent in Hr. apply find_some in Hr. tauto.
      - rewrite (find_rent_addr _ _ _ Hr). apply eqb_eaddr_refl. }
    rewrite Hex. simpl. apply IHl. exact Hl.
  - f_equal. apply IHl. exact Hl.
Qed.

Lemma disconnect_spec s p :
  RegOK s ->
  let '(s1, evs) := disconnect s p in
  subs s1 = filter (fun x => negb (N.eqb (e_ski x) p)) (subs s) /\ next_sub s1 = next_sub s /\
  RegOK s1 /\ find_peer s1 p = None /\ (forall q, q <> p -> find_peer s1 q = find_peer s q) /\ quiet_evs evs.
Proof.
  intros Hok. unfold disconnect. destruct (find_peer s p) as [pe|] eqn:Ep.
  - rewrite remove_all_unfold.
    pose proof (fold_F1 pe (p_ents pe) s [] (conj eq_refl eq_refl)) as H1.
    destruct (fold_left (F1 pe) (p_ents pe) (s, [])) as [s1 ev1]. destruct H1 as [Hs1 [Hn1 [Hp1 Hq1]]].
    pose proof (fold_F2 pe (p_ents pe) s1 ev1 Hq1) as H2.
    destruct (fold_left (F2 pe) (p_ents pe) (s1, ev1)) as [s2 ev2]. destruct H2 as [Hs2 [Hn2 [Hp2 Hq2]]].
    pose proof (find_peer_ski _ _ _ Ep) as Hski.
    assert (Hsubs : subs s2 = filter (fun x => negb (N.eqb (e_ski x) p)) (subs s)).
    { rewrite Hs2, Hs1. unfold drop. rewrite Hski. apply (drop_all_of_peer s p pe); [exact Ep | exact Hok]. }
    destruct (clean_device_caches _ (p_addr pe)) as [a b c d e f g] eqn:Ec.
    assert (Hc : subs (clean_device_caches
               {| lents := lents s2; lfeats := lfeats s2; peers := filter (fun x => negb (N.eqb (p_ski x) p)) (peers s2);
                  subs := subs s2; next_sub := next_sub s2; binds := binds s2; next_bind := next_bind s2 |} (p_addr pe)) = subs s2 /\
               next_sub (clean_device_caches
               {| lents := lents s2; lfeats := lfeats s2; peers := filter (fun x => negb (N.eqb (p_ski x) p)) (peers s2);
                  subs := subs s2; next_sub := next_sub s2; binds := binds s2; next_bind := next_bind s2 |} (p_addr pe)) = next_sub s2 /\
               peers (clean_device_caches
               {| lents := lents s2; lfeats := lfeats s2; peers := filter (fun x => negb (N.eqb (p_ski x) p)) (peers s2);
                  subs := subs s2; next_sub := next_sub s2; binds := binds s2; next_bind := next_bind s2 |} (p_addr pe)) =
               filter (fun x => negb (N.eqb (p_ski x) p)) (peers s2)).
    { unfold clean_device_caches. destruct (p_addr pe); simpl; auto. }
    rewrite Ec in Hc. simpl in Hc. destruct Hc as [Hc1 [Hc2 Hc3]]. subst d e c.
    assert (Hfind : forall q, q <> p -> find_peer {| lents := a; lfeats := b;
                       peers := filter (fun x => negb (N.eqb (p_ski x) p)) (peers s2);
                       subs := subs s2; next_sub := next_sub s2; binds := f; next_bind := g |} q = find_peer s q).
    { intros q Hq. unfold find_peer. simpl. rewrite find_filter_other by exact Hq. rewrite Hp2, Hp1. reflexivity. }
    simpl. split; [exact Hsubs|]. split; [rewrite Hn2, Hn1; reflexivity|]. split; [|split; [|split]].
    + intros x Hx. simpl in Hx. rewrite Hsubs in Hx. apply filter_In in Hx. destruct Hx as [Hx Hm].
      destruct (N.eqb_spec (e_ski x) p) as [E|E]; [discriminate|].
      destruct (Hok x Hx) as [pe' [en' [Hf Hr]]]. exists pe', en'. split; [|exact Hr].
      rewrite Hfind by exact E. exact Hf.
    + unfold find_peer. simpl. destruct (find _ _) as [y|] eqn:Ef; [|reflexivity].
      apply find_some in Ef. destruct Ef as [Hin Hy]. apply filter_In in Hin. destruct Hin as [_ Hn].
      rewrite Hy in Hn. discriminate.
    + exact Hfind.
    + apply quiet_evs_app; [exact Hq2 | split; reflexivity].
  - split; [|split; [reflexivity|split; [exact Hok|split; [exact Ep|split; [reflexivity|split; reflexivity]]]]].
    symmetry. apply filter_all. intros x Hx. destruct (Hok x Hx) as [pe' [en' [Hf _]]].
    destruct (N.eqb_spec (e_ski x) p) as [E|E]; [|reflexivity]. rewrite E, Ep in Hf. discriminate.
Qed.

(* ---------- operations that do not concern the subscription registry ---------- *)
Definition frame (s s1 : st) : Prop :=
  subs s1 = subs s /\ next_sub s1 = next_sub s /\ (RegOK s -> RegOK s1).

Lemma frame_peers s s1 : subs s1 = subs s -> next_sub s1 = next_sub s -> peers s1 = peers s -> frame s s1.
Proof.
  intros H1 H2 H3. split; [exact H1|]. split; [exact H2|].
  intros Hok e He. rewrite H1 in He. apply (owner_peers s s1 e H3). apply Hok. exact He.
Qed.

Lemma upd_lfeat_frame s e f g : frame s (upd_lfeat s e f g).
Proof. apply frame_peers; reflexivity. Qed.

Lemma RegOK_set_peer_add' s p pe pe0 m l :
  find_peer s p = Some pe -> p_ski pe0 = p_ski pe -> p_ents pe0 = p_ents pe ->
  RegOK s -> RegOK (set_peer s (fst (add_entities pe0 m l))).
Proof.
  intros Hp Hs0 He0 Hok e He. simpl in He. destruct (Hok e He) as [pe' [en' [Hf Hr]]].
  unfold owner_ok. rewrite find_peer_set_peer, Hf, add_entities_ski, Hs0.
  destruct (N.eqb_spec (e_ski e) (p_ski pe)) as [E|E].
  - pose proof (find_peer_ski _ _ _ Hp) as Hski.
    assert (pe' = pe) by congruence. subst pe'.
    assert (Hh : has_rent pe0 (fa_ent (e_cli e)) = true).
    { unfold has_rent. rewrite He0. apply has_rent_find. eauto. }
    apply (add_entities_keeps pe0 m l) in Hh. apply has_rent_find in Hh. destruct Hh as [en2 Hen2]. eauto.
  - eauto.
Qed.

Lemma add_binding_frame s pe c :
  let '(s1, evs, err) := add_binding s pe c in
  subs s1 = subs s /\ next_sub s1 = next_sub s /\ peers s1 = peers s /\
  existsb is_notify evs = false /\ filter is_sub_event evs = [] /\ results evs = [].
Proof.
  unfold add_binding.
  destruct (local_feature s (rc_srv c)) as [sf|]; [|simpl; repeat split; reflexivity].
  destruct (rc_type c) as [t|]; [|simpl; repeat split; reflexivity].
  destruct (negb (role_type_ok (lf_role sf) (lf_type sf) RServer t)); [simpl; repeat split; reflexivity|].
  destruct (bindings_on s sf); [|simpl; repeat split; reflexivity].
  destruct (remote_feature pe (rc_cli c)) as [[en rf]|]; [|simpl; repeat split; reflexivity].
  destruct (negb (role_type_ok (rf_role rf) (rf_type rf) RClient t)); simpl; repeat split; reflexivity.
Qed.

Lemma remove_binding_frame s pe c :
  let '(s1, evs, err) := remove_binding s pe c in
  subs s1 = subs s /\ next_sub s1 = next_sub s /\ peers s1 = peers s /\
  existsb is_notify evs = false /\ filter is_sub_event evs = [] /\ results evs = [].
Proof.
  unfold remove_binding.
  destruct (remote_feature pe (rc_cli c)) as [[en rf]|]; [|simpl; repeat split; reflexivity].
  destruct (local_feature s (rc_srv c)) as [sf|]; [|simpl; repeat split; reflexivity].
  destruct (negb (role_type_ok (lf_role sf) (lf_type sf) RServer (lf_type sf))); [simpl; repeat split; reflexivity|].
  destruct (negb (has_binding s sf (rf_addr en rf))); [simpl; repeat split; reflexivity|].
  cbv zeta. destruct (Nat.eqb _ _); simpl; repeat split; reflexivity.
Qed.

Lemma quiet_ok out : existsb is_notify out = false -> filter is_sub_event out = [] -> quiet out = [].
Proof.
  intros H1 H2. unfold quiet, check. rewrite H1. simpl.
  destruct (existsb is_sub_event out) eqn:E; [|reflexivity].
  apply existsb_exists in E. destruct E as [x [Hx Hp]].
  assert (In x (filter is_sub_event out)) by (apply filter_In; auto). rewrite H2 in H. destruct H.
Qed.

Lemma registry_call_bind s p ctr ack c (f : st -> peer -> reg_call -> st * list obs * bool) :
  (forall s pe c, let '(s1, evs, err) := f s pe c in
     subs s1 = subs s /\ next_sub s1 = next_sub s /\ peers s1 = peers s /\
     existsb is_notify evs = false /\ filter is_sub_event evs = [] /\ results evs = []) ->
  let '(s1, out) := registry_call s p ctr ack c f in
  quiet out = [] /\ frame s s1.
Proof.
  intros Hf. unfold registry_call, with_source.
  destruct (find_peer s p) as [pe|]; [|split; [reflexivity | apply frame_peers; reflexivity]].
  destruct (remote_feature pe (nm_addr None)); [|split; [reflexivity | apply frame_peers; reflexivity]].
  specialize (Hf s pe c). destruct (f s pe c) as [[s1 evs] err].
  destruct Hf as [H1 [H2 [H3 [H4 [H5 H6]]]]]. split.
  - apply quiet_ok.
    + rewrite existsb_app, H4, call_no_notify. reflexivity.
    + rewrite filter_app, H5, call_no_subev. reflexivity.
  - apply frame_peers; assumption.
Qed.

Definition is_default (o : op) : bool :=
  match o with
  | AddLocalEntity _ | AddLocalFeature _ _ _ | AddFunction _ _ _ _ _ | DiscoveryReply _ _
  | BindCall _ _ _ _ | BindDelete _ _ _ _ | ListBinds _ | LocalSubscribe _ _ _ | LocalBind _ _ _
  | HasLocalSub _ _ _ | HasLocalBind _ _ _ | ReadData _ _ _ | Resolve _ _ => true
  | _ => false
  end.

Lemma listing_quiet p l : existsb is_notify (listing p l) = false /\ filter is_sub_event (listing p l) = [].
Proof.
  unfold listing. induction (filter _ l) as [|x r [IH1 IH2]]; simpl; split; auto.
Qed.

Lemma default_ops_frame s o : is_default o = true ->
  let '(s1, out) := step s o in quiet out = [] /\ frame s s1.
Proof.
  destruct o; simpl is_default; try discriminate; intros _.
  - (* AddLocalEntity *) simpl. destruct (existsb _ (lents s)); split; try reflexivity; apply frame_peers; reflexivity.
  - (* AddLocalFeature *) simpl. destruct (find _ (lents s)); split; try reflexivity; apply frame_peers; reflexivity.
  - (* AddFunction *) simpl. split; [reflexivity | apply upd_lfeat_frame].
  - (* DiscoveryReply *)
    cbn [step]. unfold with_source. destruct (find_peer s p) as [pe|] eqn:Ep; [|split; [reflexivity | apply frame_peers; reflexivity]].
    destruct (remote_feature pe (nm_addr None)); [|split; [reflexivity | apply frame_peers; reflexivity]].
    set (pe0 := {| p_ski := p_ski pe; p_addr := match dm_dev m with Some d => Some d | None => p_addr pe end; p_ents := p_ents pe |}).
    pose proof (RegOK_set_peer_add' s p pe pe0 m (dm_ents m) Ep eq_refl eq_refl) as Hok.
    destruct (add_entities pe0 m (dm_ents m)) as [pe1 created]. simpl fst in Hok.
    assert (Hq : quiet (OEvent EvDevice ChAdd p None None None :: map (ev_entity ChAdd pe1) created) = []).
    { apply quiet_ok; simpl.
      - apply (quiet_added pe1 created).
      - induction created as [|x l IH]; simpl; [reflexivity | exact IH]. }
    destruct (p_addr pe1); (split; [exact Hq|]); split; try reflexivity; split; try reflexivity; intros H; exact (Hok H).
  - (* BindCall *) cbn [step]. apply registry_call_bind. intros. apply add_binding_frame.
  - (* BindDelete *) cbn [step]. apply registry_call_bind. intros. apply remove_binding_frame.
  - (* ListBinds *) cbn [step]. split; [|apply frame_peers; reflexivity].
    apply quiet_ok; apply listing_quiet.
  - (* LocalSubscribe *)
    cbn [step]. unfold local_request.
    destruct (find_lfeat s e (Some f)) as [lf|]; [|split; [reflexivity | apply frame_peers; reflexivity]].
    destruct (fa_dev r); [|split; [reflexivity | apply frame_peers; reflexivity]].
    destruct (peer_by_addr s n); [|split; [reflexivity | apply frame_peers; reflexivity]].
    destruct (eqb_role (lf_role lf) RServer); split; try reflexivity; try (apply frame_peers; reflexivity).
  - (* LocalBind *)
    cbn [step]. unfold local_request.
    destruct (find_lfeat s e (Some f)) as [lf|]; [|split; [reflexivity | apply frame_peers; reflexivity]].
    destruct (fa_dev r); [|split; [reflexivity | apply frame_peers; reflexivity]].
    destruct (peer_by_addr s n); [|split; [reflexivity | apply frame_peers; reflexivity]].
    destruct (eqb_role (lf_role lf) RServer); split; try reflexivity; try (apply frame_peers; reflexivity).
  - cbn [step]. destruct (find_lfeat s e (Some f)); split; try reflexivity; apply frame_peers; reflexivity.
  - cbn [step]. destruct (find_lfeat s e (Some f)); split; try reflexivity; apply frame_peers; reflexivity.
  - cbn [step]. destruct (find_lfeat s e (Some f)) as [lf|]; [destruct (assoc_N fn (lf_data lf))|];
      split; try reflexivity; apply frame_peers; reflexivity.
  - cbn [step]. split; [reflexivity | apply frame_peers; reflexivity].
Qed.


Lemma existsb_abs_reg s m (P : sentry -> bool) (Q : entry -> bool) :
  Inv s m -> (forall x, P (strip x) = Q x) -> existsb P (reg m) = existsb Q (subs s).
Proof. intros I H. rewrite (inv_reg _ _ I). apply existsb_abs. exact H. Qed.

Lemma notify_no_subev s sf fn v : existsb is_sub_event (notify_subscribers s sf fn v) = false.
Proof. unfold notify_subscribers. induction (filter _ (subs s)) as [|x l IH]; simpl; [reflexivity | exact IH]. Qed.

Lemma nodupb_true l : NoDup l -> nodupb l = true.
Proof.
  induction 1 as [|x l Hn Hd IH]; simpl; [reflexivity|]. rewrite IH, andb_true_r.
  destruct (memN x l) eqn:E; [|reflexivity]. apply memN_In in E. contradiction.
Qed.

Lemma seen_listing p l : entries_seen p (listing p l) = abs (filter (fun x => N.eqb (e_ski x) p) l).
Proof.
  unfold listing, entries_seen. induction l as [|x l IH]; simpl; [reflexivity|].
  destruct (N.eqb_spec (e_ski x) p) as [E|E]; simpl; [|exact IH].
  rewrite IH. unfold strip at 1. rewrite E. destruct (e_srv x); reflexivity.
Qed.

Lemma ids_listing p l : ids_seen (listing p l) = map e_id (filter (fun x => N.eqb (e_ski x) p) l).
Proof.
  unfold listing, ids_seen. induction (filter _ l) as [|x r IH]; simpl; [reflexivity|]. rewrite IH. reflexivity.
Qed.

Lemma length_listing p l : length (listing p l) = length (filter (fun x => N.eqb (e_ski x) p) l).
Proof. unfold listing. apply map_length. Qed.

Lemma dev_listing p l :
  forallb (fun x => match x with OEntry _ srv _ => eqb_optN (fa_dev srv) (Some LOCAL_DEV) | _ => true end) (listing p l) = true.
Proof. unfold listing. induction (filter _ l) as [|x r IH]; simpl; [reflexivity | exact IH]. Qed.

Lemma write_shape s p ctr ack src dst fn v :
  let '(s1, out) := step s (Write p ctr ack src dst fn v) in
  frame s s1 /\ existsb is_sub_event out = false /\
  ((existsb is_ev_data out = true /\ exists sf, local_feature s dst = Some sf /\ filter is_notify out = notify_subscribers s sf fn v) \/
   (existsb is_ev_data out = false /\ filter is_notify out = [])).
Proof.
  cbn [step]. unfold with_source.
  destruct (find_peer s p) as [pe|]; [|split; [apply frame_peers; reflexivity | split; [reflexivity | right; split; reflexivity]]].
  destruct (remote_feature pe src) as [[en rf]|]; [|split; [apply frame_peers; reflexivity | split; [reflexivity | right; split; reflexivity]]].
  destruct (local_feature s dst) as [lf|]; [|split; [apply frame_peers; reflexivity | split; [reflexivity | right; split; reflexivity]]].
  destruct (assoc_N fn (lf_ops lf)) as [[rd [|]]|];
    try (split; [apply frame_peers; reflexivity | split; [reflexivity | right; split; reflexivity]]).
  destruct (negb (has_binding s lf (rf_addr en rf)));
    [split; [apply frame_peers; reflexivity | split; [reflexivity | right; split; reflexivity]]|].
  destruct (negb (fn_registered (lf_type lf) fn));
    [split; [apply frame_peers; reflexivity | split; [reflexivity | right; split; reflexivity]]|].
  split; [apply upd_lfeat_frame|]. split.
  - rewrite existsb_app, notify_no_subev. destruct ack; reflexivity.
  - left. split.
    + rewrite existsb_app. simpl. rewrite orb_true_r. reflexivity.
    + exists lf. split; [reflexivity|]. rewrite filter_app.
      rewrite (filter_all is_notify) by apply notify_all_notify.
      destruct ack; simpl; rewrite app_nil_r; reflexivity.
Qed.

(* ---------- the main step lemma ---------- *)
Lemma find_app' {A} (f : A -> bool) (l1 l2 : list A) :
  find f (l1 ++ l2) = match find f l1 with Some x => Some x | None => find f l2 end.
Proof. induction l1 as [|x l IH]; simpl; [reflexivity|]. destruct (f x); [reflexivity | exact IH]. Qed.

Lemma NoDup_snoc {A} (l : list A) x : NoDup l -> ~ In x l -> NoDup (l ++ [x]).
Proof.
  induction l as [|y l IH]; simpl; intros Hd Hn; [constructor; [tauto | constructor]|].
  inversion Hd as [|? ? Hy Hl]; subst. constructor.
  - intros Hin. apply in_app_or in Hin. destruct Hin as [Hin|[E|[]]]; [tauto | subst; tauto].
  - apply IH; tauto.
Qed.

Lemma Inv_of_frame s m s1 : Inv s m -> frame s s1 -> Inv s1 {| w := s1; reg := reg m |}.
Proof.
  intros I [H1 [H2 H3]]. constructor; simpl.
  - reflexivity.
  - rewrite H1. apply (inv_reg _ _ I).
  - rewrite H1, H2. apply (inv_ids _ _ I).
  - rewrite H1. apply (inv_nodup _ _ I).
  - apply H3. exact (inv_owner _ _ I).
Qed.

Lemma sublist_ids (P : entry -> bool) l : NoDup (map e_id l) -> NoDup (map e_id (filter P l)).
Proof.
  induction l as [|x l IH]; simpl; intros H; [constructor|].
  inversion H as [|? ? Hn Hd]; subst. destruct (P x); simpl; [|auto].
  constructor; [|auto]. intros Hin. apply Hn. apply in_map_iff in Hin. destruct Hin as [y [Hy Hin]].
  apply in_map_iff. exists y. split; [exact Hy|]. apply filter_In in Hin. tauto.
Qed.

Lemma Inv_filter s m s1 (P : entry -> bool) (Q : sentry -> bool) :
  Inv s m -> (forall x, Q (strip x) = P x) ->
  subs s1 = filter P (subs s) -> next_sub s1 = next_sub s -> RegOK s1 ->
  Inv s1 {| w := s1; reg := filter Q (reg m) |}.
Proof.
  intros I HPQ H1 H2 H3. constructor; simpl.
  - reflexivity.
  - rewrite (inv_reg _ _ I), H1. apply filter_abs. exact HPQ.
  - intros e He. rewrite H1 in He. apply filter_In in He. rewrite H2. apply (inv_ids _ _ I). tauto.
  - rewrite H1. apply sublist_ids. apply (inv_nodup _ _ I).
  - exact H3.
Qed.

Lemma sender_known_eq s m p : w m = s ->
  sender_known m p = match find_peer s p with
                     | Some pe => match remote_feature pe (nm_addr None) with Some _ => Some pe | None => None end
                     | None => None
                     end.
Proof. intros <-. reflexivity. Qed.

Lemma step_inv s m o : Inv s m ->
  let '(s1, out) := step s o in
  let '(m1, v) := mon m o out in
  v = [] /\ Inv s1 m1.
Proof.
  intros I. pose proof (inv_w _ _ I) as Hw.
  destruct (is_default o) eqn:Ed.
  { pose proof (default_ops_frame s o Ed) as Hf.
    assert (Hm : forall out, mon m o out = (advance m o (reg m), quiet out)) by (destruct o; try discriminate; reflexivity).
    destruct (step s o) as [s1 out] eqn:Es. rewrite Hm. destruct Hf as [Hq Hf].
    split; [exact Hq|]. unfold advance. rewrite Hw, Es. simpl fst. exact (Inv_of_frame s m s1 I Hf). }
  destruct o; try discriminate; clear Ed.
  - (* Connect *)
    cbn [step mon]. unfold advance. rewrite Hw. cbn [step].
    pose proof (disconnect_spec s p (inv_owner _ _ I)) as Hd.
    destruct (find_peer s p) as [pe|] eqn:Ep.
    + destruct (disconnect s p) as [s0 evs]. destruct Hd as [Hs [Hn [Hok [Hnone [Hother [Hq1 Hq2]]]]]].
      simpl. rewrite Hq1. split; [reflexivity|].
      eapply (Inv_filter s m _ (fun x => negb (N.eqb (e_ski x) p)) (fun x => negb (N.eqb (s_ski x) p)) I);
        [intros x; reflexivity | simpl; exact Hs | simpl; exact Hn |].
      intros e He. simpl in He. destruct (Hok e He) as [pe' [en' [Hf Hr]]].
      exists pe', en'. split; [|exact Hr]. unfold find_peer in *. simpl. rewrite find_app', Hf. reflexivity.
    + simpl. split; [reflexivity|].
      eapply (Inv_filter s m _ (fun x => negb (N.eqb (e_ski x) p)) (fun x => negb (N.eqb (s_ski x) p)) I);
        [intros x; reflexivity | simpl | reflexivity |].
      * symmetry. apply filter_all. intros x Hx. destruct (inv_owner _ _ I x Hx) as [pe' [en' [Hf _]]].
        destruct (N.eqb_spec (e_ski x) p) as [E|E]; [|reflexivity]. rewrite E, Ep in Hf. discriminate.
      * intros e He. simpl in He. destruct (inv_owner _ _ I e He) as [pe' [en' [Hf Hr]]].
        exists pe', en'. split; [|exact Hr]. unfold find_peer in *. simpl. rewrite find_app', Hf. reflexivity.
  - (* DiscoveryNotify *)
    cbn [step mon]. unfold advance. rewrite Hw. cbn [step]. unfold with_source.
    destruct (find_peer s p) as [pe|] eqn:Ep.
    2:{ simpl. split; [reflexivity|]. 
        eapply (Inv_filter s m s (fun x => true) _ I); [intros x; simpl; rewrite andb_false_r; reflexivity | | reflexivity | exact (inv_owner _ _ I)].
        symmetry. apply filter_all. reflexivity. }
    destruct (remote_feature pe (nm_addr None)).
    2:{ simpl. split; [reflexivity|].
        eapply (Inv_filter s m s (fun x => true) _ I); [intros x; simpl; rewrite andb_false_r; reflexivity | | reflexivity | exact (inv_owner _ _ I)].
        symmetry. apply filter_all. reflexivity. }
    destruct (dm_ents m0) as [|d0 dr] eqn:Edm.
    + assert (Hcq : existsb is_notify (call_result p ctr ack true (nm_addr (p_addr pe)) (nm_addr (Some LOCAL_DEV))) = false) by apply call_no_notify.
      simpl fst. rewrite Hcq. simpl. split; [reflexivity|].
      eapply (Inv_filter s m s (fun x => true) _ I); [intros x; simpl; rewrite andb_false_r; reflexivity | | reflexivity | exact (inv_owner _ _ I)].
      symmetry. apply filter_all. reflexivity.
    + rewrite <- Edm. destruct (notify_entries s p m0 (dm_ents m0)) as [[s1 evs] err] eqn:En.
      destruct (notify_entries_spec _ _ _ _ _ _ _ (inv_owner _ _ I) En) as [Hok1 [Hs1 [Hn1 [Hq1 Hr1]]]].
      simpl fst. rewrite existsb_app, Hq1, call_no_notify. simpl. split; [reflexivity|].
      assert (Hg : flat_map (fun x => match x with OEvent EvEntity ChRemove _ (Some e) _ _ => [e] | _ => [] end)
                     (evs ++ call_result p ctr ack err (nm_addr (p_addr pe)) (nm_addr (Some LOCAL_DEV))) = gone_of evs).
      { fold (gone_of (evs ++ call_result p ctr ack err (nm_addr (p_addr pe)) (nm_addr (Some LOCAL_DEV)))).
        rewrite gone_of_app. unfold call_result. destruct err; [|destruct ack]; simpl; rewrite app_nil_r; reflexivity. }
      rewrite Hg.
      eapply (Inv_filter s m s1 _ _ I); [| exact Hs1 | exact Hn1 | exact Hok1].
      intros x. reflexivity.
  - (* SubCall *)
    cbn [step mon]. unfold advance. rewrite (sender_known_eq s m p Hw), Hw. cbn [step].
    unfold registry_call, with_source.
    destruct (find_peer s p) as [pe|] eqn:Ep.
    2:{ simpl. split; [reflexivity|]. apply (Inv_of_frame s m s I); apply frame_peers; reflexivity. }
    destruct (remote_feature pe (nm_addr None)).
    2:{ simpl. split; [reflexivity|]. apply (Inv_of_frame s m s I); apply frame_peers; reflexivity. }
    pose proof (add_sub_spec s (reg m) pe c (inv_reg _ _ I)) as Ha.
    pose proof (find_peer_ski _ _ _ Ep) as Hski.
    replace {| w := s; reg := reg m |} with m in Ha by (destruct m; simpl in *; congruence).
    destruct (grant m pe c) as [[[sf en] cli]|].
    + destruct Ha as [Ha Hrent]. rewrite Ha. simpl fst.
      split; [destruct ack; simpl; rewrite Hski, ?N.eqb_refl, ?eqb_eaddr_refl, ?eqb_faddr_refl; reflexivity|].
      constructor; simpl.
      * reflexivity.
      * rewrite (inv_reg _ _ I). unfold abs. rewrite map_app. simpl. unfold strip. simpl. rewrite Hski. reflexivity.
      * intros e He. apply in_app_or in He. destruct He as [He|[<-|[]]]; [|simpl; lia].
        pose proof (inv_ids _ _ I e He). lia.
      * rewrite map_app. simpl. apply NoDup_snoc; [apply (inv_nodup _ _ I)|].
        intros Hin. apply in_map_iff in Hin. destruct Hin as [y [Hy Hin]].
        pose proof (inv_ids _ _ I y Hin). lia.
      * intros e He. apply in_app_or in He. destruct He as [He|[<-|[]]].
        -- apply (owner_peers s); [reflexivity | apply (inv_owner _ _ I); exact He].
        -- exists pe, en. simpl. rewrite Hski. split; [exact Ep | exact Hrent].
    + destruct Ha as [n [Ha Hn]]. rewrite Ha. simpl fst.
      assert (V : forall o, check (eqb_list eqb_res (results ([] ++ call_result p ctr ack true (nm_addr (p_addr pe)) o)) (expect_result p ctr ack true)) CL_GRANT ++
                            quiet ([] ++ call_result p ctr ack true (nm_addr (p_addr pe)) o) = []).
      { intros o. simpl. rewrite !N.eqb_refl. reflexivity. }
      rewrite V.
      split; [reflexivity|]. constructor; simpl.
      * reflexivity.
      * apply (inv_reg _ _ I).
      * intros e He. pose proof (inv_ids _ _ I e He). lia.
      * apply (inv_nodup _ _ I).
      * intros e He. apply (owner_peers s); [reflexivity | apply (inv_owner _ _ I); exact He].
  - (* SubDelete *)
    cbn [step mon]. unfold advance. rewrite (sender_known_eq s m p Hw), Hw. cbn [step].
    unfold registry_call, with_source.
    destruct (find_peer s p) as [pe|] eqn:Ep.
    2:{ simpl. split; [reflexivity|]. apply (Inv_of_frame s m s I); apply frame_peers; reflexivity. }
    destruct (remote_feature pe (nm_addr None)).
    2:{ simpl. split; [reflexivity|]. apply (Inv_of_frame s m s I); apply frame_peers; reflexivity. }
    pose proof (remove_sub_spec s pe c) as Hrs.
    pose proof (find_peer_ski _ _ _ Ep) as Hski.
    destruct (remote_feature pe (rc_cli c)) as [[en rf]|].
    2:{ rewrite Hrs. simpl fst.
        split; [|apply (Inv_of_frame s m s I); apply frame_peers; reflexivity].
        destruct (fa_dev (rc_cli c)), (p_addr pe); try destruct (negb (n =? n0)%N); try reflexivity;
          simpl; rewrite !N.eqb_refl; reflexivity. }
    destruct (local_feature s (rc_srv c)) as [sf|].
    2:{ rewrite Hrs. simpl fst.
        split; [|apply (Inv_of_frame s m s I); apply frame_peers; reflexivity].
        destruct (fa_dev (rc_cli c)), (p_addr pe); try destruct (negb (n =? n0)%N); try reflexivity;
          simpl; rewrite !N.eqb_refl; reflexivity. }
    cbv zeta in Hrs. rewrite Hrs. clear Hrs. cbv zeta.
    set (hit_e := fun x : entry => eqb_faddr (e_cli x) (default_dev pe (rc_cli c)) && same_srv x sf).
    rewrite (existsb_abs_reg s m _ hit_e I) by (intros x; reflexivity).
    assert (Hfilt : forall s1, subs s1 = filter (fun x => negb (hit_e x)) (subs s) -> next_sub s1 = next_sub s -> peers s1 = peers s ->
              Inv s1 {| w := s1; reg := filter (fun x : sentry => negb (eqb_faddr (s_cli x) (default_dev pe (rc_cli c)) &&
                                                           eqb_srv (s_srv x) (lf_ent sf, lf_id sf))) (reg m) |}).
    { intros s1 H1 H2 H3. apply (Inv_filter s m s1 (fun x => negb (hit_e x)) _ I); [intros x; reflexivity | exact H1 | exact H2 |].
      intros e He. rewrite H1 in He. apply filter_In in He. apply (owner_peers s s1 e H3). apply (inv_owner _ _ I). tauto. }
    destruct (existsb hit_e (subs s)) eqn:Eh.
    + (* something is removed *)
      simpl fst.
      match goal with |- context [if ?f then _ else _] => destruct f eqn:Ef end.
      * split; [reflexivity|].
        assert (Hok : eqb_list eqb_res (results ([ev_reg EvSub ChRemove (p_ski pe) en (rf_addr en rf) sf] ++
                        call_result p ctr ack false (nm_addr (p_addr pe)) (nm_addr (Some LOCAL_DEV)))) (expect_result p ctr ack false) = true).
        { destruct ack; simpl; rewrite ?N.eqb_refl; reflexivity. }
        rewrite Hok. apply Hfilt; reflexivity.
      * split; [destruct ack; simpl; rewrite Hski, ?N.eqb_refl, ?eqb_eaddr_refl, ?eqb_faddr_refl; reflexivity|].
        apply Hfilt; reflexivity.
    + simpl fst.
      match goal with |- context [if ?f then _ else _] => destruct f eqn:Ef end.
      * split; [reflexivity|].
        assert (Hok : eqb_list eqb_res (results ([] ++ call_result p ctr ack true (nm_addr (p_addr pe)) (nm_addr (Some LOCAL_DEV)))) (expect_result p ctr ack false) = false).
        { destruct ack; simpl; rewrite ?N.eqb_refl; reflexivity. }
        rewrite Hok. apply (Inv_of_frame s m s I); apply frame_peers; reflexivity.
      * split; [simpl; rewrite !N.eqb_refl; reflexivity|].
        apply (Inv_of_frame s m s I); apply frame_peers; reflexivity.
  - (* SetData *)
    cbn [step mon]. unfold advance. rewrite Hw. cbn [step].
    destruct (find_lfeat s e (Some f)) as [sf|].
    2:{ simpl. split; [reflexivity|]. apply (Inv_of_frame s m s I); apply frame_peers; reflexivity. }
    destruct (fn_registered (lf_type sf) fn); simpl fst.
    + rewrite (fanout_eq s m sf fn v I).
      rewrite (filter_all is_notify) by apply notify_all_notify.
      rewrite same_multiset_refl by (intros x Hx; apply eqb_obs_notify_refl; exact (notify_all_notify _ _ _ _ _ Hx)).
      rewrite notify_no_subev. split; [reflexivity|].
      apply (Inv_of_frame s m _ I). apply upd_lfeat_frame.
    + simpl. split; [reflexivity|]. apply (Inv_of_frame s m s I); apply frame_peers; reflexivity.
  - (* Write *)
    cbn [mon]. unfold advance. rewrite Hw.
    pose proof (write_shape s p ctr ack src dst fn v) as Hws.
    destruct (step s (Write p ctr ack src dst fn v)) as [s1 out]. simpl fst.
    destruct Hws as [Hf [Hse Hcase]]. rewrite Hse.
    destruct Hcase as [[Hacc [sf [Hlf Hn]]]|[Hacc Hn]]; rewrite Hacc.
    + rewrite Hlf, Hn, (fanout_eq s m sf fn v I).
      rewrite same_multiset_refl by (intros x Hx; apply eqb_obs_notify_refl; exact (notify_all_notify _ _ _ _ _ Hx)).
      split; [reflexivity|]. exact (Inv_of_frame s m s1 I Hf).
    + rewrite Hn. split; [reflexivity|]. exact (Inv_of_frame s m s1 I Hf).
  - (* Disconnect *)
    cbn [step mon]. unfold advance. rewrite Hw. cbn [step].
    pose proof (disconnect_spec s p (inv_owner _ _ I)) as Hd.
    destruct (disconnect s p) as [s0 evs]. destruct Hd as [Hs [Hn [Hok [Hnone [Hother [Hq1 Hq2]]]]]].
    simpl fst. rewrite Hq1. split; [reflexivity|].
    apply (Inv_filter s m s0 (fun x => negb (N.eqb (e_ski x) p)) (fun x => negb (N.eqb (s_ski x) p)) I);
      [intros x; reflexivity | exact Hs | exact Hn | exact Hok].
  - (* ListSubs *)
    cbn [step mon]. unfold advance. rewrite Hw. cbn [step]. simpl fst. cbv zeta.
    rewrite (inv_reg _ _ I).
    rewrite (filter_abs _ (fun x => N.eqb (e_ski x) p)) by (intros x; reflexivity).
    rewrite seen_listing, ids_listing, length_listing, dev_listing.
    rewrite same_multiset_refl by (intros; apply eqb_sentry_refl).
    unfold abs. rewrite map_length, Nat.eqb_refl.
    rewrite nodupb_true by (apply sublist_ids; apply (inv_nodup _ _ I)).
    split; [reflexivity|]. fold (abs (subs s)). rewrite <- (inv_reg _ _ I).
    apply (Inv_of_frame s m s I); apply frame_peers; reflexivity.
Qed.

Theorem run_accepted_from ops : forall s m, Inv s m -> accepted (judge m (snd (run s ops))) = true.
Proof.
  induction ops as [|o ops IH]; intros s m I; [reflexivity|].
  simpl. pose proof (step_inv s m o I) as Hs.
  destruct (step s o) as [s1 out]. destruct (run s1 ops) as [s2 tr] eqn:Er. simpl.
  destruct (mon m o out) as [m1 v]. destruct Hs as [Hv I1]. subst v. simpl.
  specialize (IH s1 m1 I1). rewrite Er in IH. exact IH.
Qed.

Theorem run_accepted ops : accepted (judge minit (snd (run init ops))) = true.
Proof. apply run_accepted_from. exact inv_init. Qed.

(* every reachable state satisfies the invariant (for some monitor state) *)
Lemma run_inv ops : forall s m, Inv s m -> exists m', Inv (fst (run s ops)) m'.
Proof.
  induction ops as [|o ops IH]; intros s m I; simpl; [eauto|].
  pose proof (step_inv s m o I) as Hs. destruct (step s o) as [s1 out].
  destruct (mon m o out) as [m1 v]. destruct Hs as [_ I1].
  destruct (IH s1 m1 I1) as [m' Hm']. destruct (run s1 ops) as [s2 tr]. simpl in *. eauto.
Qed.

Theorem ids_distinct ops : NoDup (map e_id (subs (fst (run init ops)))).
Proof. destruct (run_inv ops init minit inv_init) as [m' I]. apply (inv_nodup _ _ I). Qed.

Theorem entries_owned ops : forall e, In e (subs (fst (run init ops))) ->
  exists pe en, find_peer (fst (run init ops)) (e_ski e) = Some pe /\ find_rent pe (fa_ent (e_cli e)) = Some en.
Proof. destruct (run_inv ops init minit inv_init) as [m' I]. apply (inv_owner _ _ I). Qed.
