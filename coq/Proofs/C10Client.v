(* C10 — the client-side bookkeeping (FeatureLocal.subscriptions / bindings) against the
   monitor's per-connection account [cref], while device addresses identify connections
   (scope of the recorded finding client-bookkeeping-keyed-by-device-address). *)
From Verif Require Import Base.Prelude Model.Stack Spec.StackObs Spec.C10Spec
  Proofs.StackLemmas Proofs.StackInv Proofs.C10Events Proofs.C10Core.

Definition key_of (sub : bool) (e : eaddr) (f : N) (x : centry) : bool :=
  eqb_eaddr (c_ent x) e && N.eqb (c_feat x) f && Bool.eqb (c_sub x) sub.

Definition refs (cr : list centry) (sub : bool) (e : eaddr) (f : N) : list faddr :=
  map c_addr (filter (key_of sub e f) cr).

Record CInv (s : st) (cr : list centry) : Prop := {
  ci_refs : forall e f lf, find_lfeat s e (Some f) = Some lf ->
              lf_subs lf = refs cr true e f /\ lf_binds lf = refs cr false e f;
  ci_feat : forall x, In x cr -> find_lfeat s (c_ent x) (Some (c_feat x)) <> None;
  ci_nm : find_lfeat s [0%N] (Some 0%N) <> None;
  ci_owner : forall x, In x cr ->
               exists pe d, find_peer s (c_ski x) = Some pe /\ p_addr pe = Some d /\ fa_dev (c_addr x) = Some d;
  ci_addr : addr_ok s = true;
  ci_peers : NoDup (skis s)
}.

Lemma cinv_init : CInv init [].
Proof.
  constructor; try (simpl; tauto); try (simpl; discriminate); try reflexivity; [|constructor].
  intros e f lf H. unfold find_lfeat in H. apply find_some in H. destruct H as [[<-|[<-|[]]] _]; split; reflexivity.
Qed.

(* ================================================================ list facts *)
Lemma filter_map_comm {A B} (g : A -> B) (P : B -> bool) l : filter P (map g l) = map g (filter (fun x => P (g x)) l).
Proof. induction l as [|x l IH]; simpl; [reflexivity|]. destruct (P (g x)); simpl; rewrite IH; reflexivity. Qed.

Lemma filter_comm {A} (P Q : A -> bool) l : filter P (filter Q l) = filter Q (filter P l).
Proof. rewrite !filter_filter. apply filter_ext'. intros x. apply andb_comm. Qed.

Lemma refs_filter (K : faddr -> bool) (Q : centry -> bool) cr sub e f :
  (forall x, In x cr -> K (c_addr x) = Q x) -> filter K (refs cr sub e f) = refs (filter Q cr) sub e f.
Proof.
  intros H. unfold refs. rewrite filter_map_comm. f_equal.
  rewrite !filter_filter. apply filter_ext_in. intros x Hx. rewrite (H x Hx). apply andb_comm.
Qed.

Lemma refs_single x sub e f : refs [x] sub e f = if key_of sub e f x then [c_addr x] else [].
Proof. unfold refs. simpl. destruct (key_of sub e f x); reflexivity. Qed.

Lemma refs_app cr cr2 sub e f : refs (cr ++ cr2) sub e f = refs cr sub e f ++ refs cr2 sub e f.
Proof. unfold refs. rewrite filter_app, map_app. reflexivity. Qed.

Lemma eqb_faddr_sym a b : eqb_faddr a b = eqb_faddr b a.
Proof.
  destruct (eqb_faddr a b) eqn:E1, (eqb_faddr b a) eqn:E2; try reflexivity.
  - apply eqb_faddr_eq in E1. subst. rewrite eqb_faddr_refl in E2. discriminate.
  - apply eqb_faddr_eq in E2. subst. rewrite eqb_faddr_refl in E1. discriminate.
Qed.

Lemma has_ref_refs m sub e f r : existsb (eqb_faddr r) (refs (cref m) sub e f) = has_ref m sub e f r.
Proof.
  unfold refs, has_ref, key_of. induction (cref m) as [|x l IH]; simpl; [reflexivity|].
  destruct (eqb_eaddr (c_ent x) e && N.eqb (c_feat x) f && Bool.eqb (c_sub x) sub); simpl; [|exact IH].
  rewrite IH, (eqb_faddr_sym r). reflexivity.
Qed.

(* ================================================================ local features by key *)
Lemma find_lfeat_ext s s1 e f : lfeats s1 = lfeats s -> find_lfeat s1 e f = find_lfeat s e f.
Proof. unfold find_lfeat. intros ->. reflexivity. Qed.

Definition keeps_key (g : lfeat -> lfeat) : Prop := forall x, lf_ent (g x) = lf_ent x /\ lf_id (g x) = lf_id x.

Lemma find_lfeat_map s s1 g e f : lfeats s1 = map g (lfeats s) -> keeps_key g ->
  find_lfeat s1 e (Some f) = option_map g (find_lfeat s e (Some f)).
Proof.
  intros H Hg. unfold find_lfeat. rewrite H. apply find_map_key. intros x. destruct (Hg x) as [-> ->]. reflexivity.
Qed.

Definition at_key (e : eaddr) (f : N) (g : lfeat -> lfeat) (x : lfeat) : lfeat :=
  if eqb_eaddr (lf_ent x) e && N.eqb (lf_id x) f then g x else x.

Lemma keeps_key_at e f g : keeps_key g -> keeps_key (at_key e f g).
Proof. intros Hg x. unfold at_key. destruct (_ && _); [apply Hg | split; reflexivity]. Qed.

Lemma upd_lfeat_map s e f g : lfeats (upd_lfeat s e f g) = map (at_key e f g) (lfeats s).
Proof. reflexivity. Qed.

Lemma find_lfeat_key s e f lf : find_lfeat s e (Some f) = Some lf -> lf_ent lf = e /\ lf_id lf = f.
Proof.
  unfold find_lfeat. intros H. apply find_some in H. destruct H as [_ H]. apply andb_true_iff in H.
  destruct H as [H1 H2]. apply eqb_eaddr_eq in H1. apply N.eqb_eq in H2. auto.
Qed.

(* cleaning the bookkeeping of every local feature *)
Definition clean_f (keep : faddr -> bool) (f : lfeat) : lfeat :=
  {| lf_ent := lf_ent f; lf_id := lf_id f; lf_type := lf_type f; lf_role := lf_role f;
     lf_ops := lf_ops f; lf_data := lf_data f;
     lf_subs := filter keep (lf_subs f); lf_binds := filter keep (lf_binds f) |}.

Lemma keeps_key_clean K : keeps_key (clean_f K).
Proof. intros x. split; reflexivity. Qed.

Lemma clean_f_id K f : (forall a, K a = true) -> clean_f K f = f.
Proof. intros H. unfold clean_f. rewrite !filter_all by (intros; apply H). destruct f; reflexivity. Qed.

Lemma map_clean_id K l : (forall a, K a = true) -> map (clean_f K) l = l.
Proof. intros H. induction l as [|x l IH]; simpl; [reflexivity|]. rewrite clean_f_id, IH by exact H. reflexivity. Qed.

Lemma map_clean_ext K K' l : (forall a, K a = K' a) -> map (clean_f K) l = map (clean_f K') l.
Proof.
  intros H. apply map_ext. intros f. unfold clean_f. rewrite !(filter_ext' K K') by exact H. reflexivity.
Qed.

Lemma map_clean_clean K1 K2 l : map (clean_f K2) (map (clean_f K1) l) = map (clean_f (fun a => K1 a && K2 a)) l.
Proof. rewrite map_map. apply map_ext. intros f. unfold clean_f. simpl. rewrite !filter_filter. reflexivity. Qed.

Definition keep_dev (d : N) (a : faddr) : bool := negb (eqb_optN (fa_dev a) (Some d)).

Definition keepE (d : option N) (g : list eaddr) (a : faddr) : bool :=
  match d with
  | Some d => negb (eqb_optN (fa_dev a) (Some d) && existsb (eqb_eaddr (fa_ent a)) g)
  | None => true
  end.

Lemma keepE_nil d a : keepE d [] a = true.
Proof. unfold keepE. destruct d; [|reflexivity]. simpl. rewrite andb_false_r. reflexivity. Qed.

Lemma keepE_app d g1 g2 a : keepE d (g1 ++ g2) a = keepE d g1 a && keepE d g2 a.
Proof.
  unfold keepE. destruct d; [|reflexivity]. rewrite existsb_app.
  destruct (eqb_optN (fa_dev a) (Some n)); simpl; [|reflexivity].
  destruct (existsb _ g1); reflexivity.
Qed.

Lemma clean_entity_lfeats s en :
  lfeats (clean_entity_caches s en) = map (clean_f (keepE (re_dev en) [re_addr en])) (lfeats s).
Proof.
  unfold clean_entity_caches. destruct (re_dev en) as [d|].
  - simpl. apply map_ext. intros f. unfold clean_f.
    rewrite !(filter_ext' (fun a => negb (eqb_optN (fa_dev a) (Some d) && eqb_eaddr (fa_ent a) (re_addr en)))
                          (keepE (Some d) [re_addr en])) by (intros a; simpl; rewrite orb_false_r; reflexivity).
    reflexivity.
  - rewrite map_clean_id; [reflexivity | intros a; reflexivity].
Qed.

Lemma clean_device_lfeats s d :
  lfeats (clean_device_caches s d) = match d with Some d => map (clean_f (keep_dev d)) (lfeats s) | None => lfeats s end.
Proof. destruct d; reflexivity. Qed.

Lemma disconnect_lfeats s p :
  lfeats (fst (disconnect s p)) =
  match find_peer s p with
  | Some pe => match p_addr pe with Some d => map (clean_f (keep_dev d)) (lfeats s) | None => lfeats s end
  | None => lfeats s
  end.
Proof.
  unfold disconnect. destruct (find_peer s p) as [pe|]; [|reflexivity].
  rewrite remove_all_unfold.
  pose proof (fold_F1 pe (p_ents pe) s [] quiet_evs_nil) as H1.
  destruct (fold_left (F1 pe) (p_ents pe) (s, [])) as [s1 ev1].
  destruct H1 as [_ [_ [Hlf1 [_ Hq1]]]].
  pose proof (fold_F2 pe (p_ents pe) s1 ev1 Hq1) as H2.
  destruct (fold_left (F2 pe) (p_ents pe) (s1, ev1)) as [s2 ev2].
  destruct H2 as [_ [_ [Hlf2 _]]]. cbn [fst].
  rewrite clean_device_lfeats. simpl lfeats. rewrite Hlf2, Hlf1. reflexivity.
Qed.

(* ================================================================ device addresses identify connections *)
Lemma distinct_addrs_inj l : distinct_addrs l = true ->
  forall pe pe' d, In pe l -> In pe' l -> p_addr pe = Some d -> p_addr pe' = Some d -> pe = pe'.
Proof.
  induction l as [|x l IH]; intros H pe pe' d Hi Hi' Ha Ha'; [destruct Hi|].
  simpl in H. apply andb_true_iff in H. destruct H as [Hx Hl].
  assert (G : forall y, In y l -> p_addr x = Some d -> p_addr y = Some d -> False).
  { intros y Hy Hxa Hya. rewrite Hxa in Hx. apply negb_true_iff in Hx.
    assert (existsb (fun q => eqb_optN (p_addr q) (Some d)) l = true).
    { apply existsb_exists. exists y. split; [exact Hy|]. rewrite Hya. apply eqb_optN_refl. }
    congruence. }
  destruct Hi as [<-|Hi], Hi' as [<-|Hi'].
  - reflexivity.
  - exfalso. exact (G pe' Hi' Ha Ha').
  - exfalso. exact (G pe Hi Ha' Ha).
  - exact (IH Hl pe pe' d Hi Hi' Ha Ha').
Qed.

Lemma addr_ok_distinct s : addr_ok s = true -> distinct_addrs (peers s) = true.
Proof. unfold addr_ok. intros H. apply andb_true_iff in H. tauto. Qed.

Lemma addr_ok_ents s p pe en : addr_ok s = true -> find_peer s p = Some pe -> In en (p_ents pe) -> re_dev en = p_addr pe.
Proof.
  unfold addr_ok. intros H Hf Hen. apply andb_true_iff in H. destruct H as [_ H].
  rewrite forallb_forall in H. specialize (H pe (find_peer_In _ _ _ Hf)).
  rewrite forallb_forall in H. apply eqb_optN_eq. exact (H en Hen).
Qed.

(* a reference names the device address of connection p iff it was written to p *)
Lemma ref_of_conn s cr p pe d x :
  CInv s cr -> find_peer s p = Some pe -> p_addr pe = Some d -> In x cr ->
  eqb_optN (fa_dev (c_addr x)) (Some d) = N.eqb (c_ski x) p.
Proof.
  intros C Ep Ha Hx. destruct (ci_owner _ _ C x Hx) as [pe' [d' [Hf [Ha' Hd']]]].
  rewrite Hd'. destruct (N.eqb_spec (c_ski x) p) as [E|E].
  - rewrite E, Ep in Hf. inversion Hf; subst pe'. rewrite Ha in Ha'. inversion Ha'; subst. apply eqb_optN_refl.
  - destruct (eqb_optN (Some d') (Some d)) eqn:E2; [|reflexivity]. exfalso. apply E.
    apply eqb_optN_eq in E2. inversion E2; subst d'.
    assert (pe' = pe).
    { apply (distinct_addrs_inj (peers s) (addr_ok_distinct _ (ci_addr _ _ C)) pe' pe d);
        [exact (find_peer_In _ _ _ Hf) | exact (find_peer_In _ _ _ Ep) | exact Ha' | exact Ha]. }
    subst pe'. rewrite <- (find_peer_ski _ _ _ Hf), <- (find_peer_ski _ _ _ Ep). reflexivity.
Qed.

Lemma no_ref_of_addressless s cr p pe x :
  CInv s cr -> find_peer s p = Some pe -> p_addr pe = None -> In x cr -> N.eqb (c_ski x) p = false.
Proof.
  intros C Ep Ha Hx. destruct (ci_owner _ _ C x Hx) as [pe' [d' [Hf [Ha' _]]]].
  destruct (N.eqb_spec (c_ski x) p) as [E|E]; [|reflexivity].
  rewrite E, Ep in Hf. inversion Hf; subst. congruence.
Qed.

Lemma no_ref_of_unknown s cr p x :
  CInv s cr -> find_peer s p = None -> In x cr -> N.eqb (c_ski x) p = false.
Proof.
  intros C Ep Hx. destruct (ci_owner _ _ C x Hx) as [pe' [d' [Hf _]]].
  destruct (N.eqb_spec (c_ski x) p) as [E|E]; [|reflexivity]. rewrite E, Ep in Hf. discriminate.
Qed.

(* ================================================================ transport lemmas *)
(* nothing relevant changed *)
Lemma CInv_same s s1 cr : lfeats s1 = lfeats s -> addr_pres s s1 -> addr_ok s1 = true -> CInv s cr -> CInv s1 cr.
Proof.
  intros Hl [Ha Hsk] Hok C. constructor.
  - intros e f lf. rewrite (find_lfeat_ext s s1) by exact Hl. apply (ci_refs _ _ C).
  - intros x Hx. rewrite (find_lfeat_ext s s1) by exact Hl. apply (ci_feat _ _ C). exact Hx.
  - rewrite (find_lfeat_ext s s1) by exact Hl. apply (ci_nm _ _ C).
  - intros x Hx. destruct (ci_owner _ _ C x Hx) as [pe [d [Hf [Hd Hx']]]].
    specialize (Ha (c_ski x)). rewrite Hf in Ha. destruct (find_peer s1 (c_ski x)) as [pe'|]; [|destruct Ha].
    exists pe', d. rewrite <- Ha. auto.
  - exact Hok.
  - rewrite Hsk. apply (ci_peers _ _ C).
Qed.

(* the local features are mapped by a function that keeps keys; the references change as described *)
Lemma CInv_map s s1 g cr cr1 :
  lfeats s1 = map g (lfeats s) -> keeps_key g ->
  (forall e f lf, find_lfeat s e (Some f) = Some lf ->
     lf_subs lf = refs cr true e f -> lf_binds lf = refs cr false e f ->
     lf_subs (g lf) = refs cr1 true e f /\ lf_binds (g lf) = refs cr1 false e f) ->
  (forall x, In x cr1 -> find_lfeat s (c_ent x) (Some (c_feat x)) <> None) ->
  (forall x, In x cr1 -> exists pe d, find_peer s1 (c_ski x) = Some pe /\ p_addr pe = Some d /\ fa_dev (c_addr x) = Some d) ->
  addr_ok s1 = true -> NoDup (skis s1) -> CInv s cr -> CInv s1 cr1.
Proof.
  intros Hl Hg Hr Hf Ho Hok Hnd C. constructor.
  - intros e f lf1 H1. rewrite (find_lfeat_map s s1 g) in H1 by assumption.
    destruct (find_lfeat s e (Some f)) as [lf|] eqn:E; [|discriminate]. simpl in H1. inversion H1; subst lf1.
    destruct (ci_refs _ _ C e f lf E) as [A B]. exact (Hr e f lf E A B).
  - intros x Hx. rewrite (find_lfeat_map s s1 g) by assumption. specialize (Hf x Hx).
    destruct (find_lfeat s (c_ent x) (Some (c_feat x))); [discriminate | contradiction].
  - rewrite (find_lfeat_map s s1 g) by assumption. pose proof (ci_nm _ _ C) as H.
    destruct (find_lfeat s [0%N] (Some 0%N)); [discriminate | contradiction].
  - exact Ho.
  - exact Hok.
  - exact Hnd.
Qed.

(* teardown: the bookkeeping is filtered by address, the account by connection *)
Lemma CInv_teardown s s1 cr (K : faddr -> bool) (Q : centry -> bool) :
  lfeats s1 = map (clean_f K) (lfeats s) ->
  (forall x, In x cr -> K (c_addr x) = Q x) ->
  (forall x, In x cr -> Q x = true ->
     exists pe d, find_peer s1 (c_ski x) = Some pe /\ p_addr pe = Some d /\ fa_dev (c_addr x) = Some d) ->
  addr_ok s1 = true -> NoDup (skis s1) -> CInv s cr -> CInv s1 (filter Q cr).
Proof.
  intros Hl HK Ho Hok Hnd C. apply (CInv_map s s1 (clean_f K) cr); try assumption.
  - apply keeps_key_clean.
  - intros e f lf _ A B. simpl. rewrite A, B. split; apply refs_filter; exact HK.
  - intros x Hx. apply filter_In in Hx. apply (ci_feat _ _ C). tauto.
  - intros x Hx. apply filter_In in Hx. apply Ho; tauto.
Qed.

Lemma CInv_teardown_id s s1 cr (Q : centry -> bool) :
  lfeats s1 = lfeats s ->
  (forall x, In x cr -> Q x = true) ->
  (forall x, In x cr ->
     exists pe d, find_peer s1 (c_ski x) = Some pe /\ p_addr pe = Some d /\ fa_dev (c_addr x) = Some d) ->
  addr_ok s1 = true -> NoDup (skis s1) -> CInv s cr -> CInv s1 (filter Q cr).
Proof.
  intros Hl HQ Ho Hok Hnd C. apply (CInv_teardown s s1 cr (fun _ => true) Q); try assumption.
  - rewrite map_clean_id by reflexivity. exact Hl.
  - intros x Hx. symmetry. apply HQ. exact Hx.
  - intros x Hx _. apply Ho. exact Hx.
Qed.

(* ================================================================ entity removal: what is cleaned *)
Lemma add_entities_dev m l : forall pe,
  (forall en, In en (p_ents pe) -> re_dev en = p_addr pe) -> (p_addr pe = None -> dm_dev m = None) ->
  forall en, In en (p_ents (fst (add_entities pe m l))) -> re_dev en = p_addr pe.
Proof.
  induction l as [|de r IH]; intros pe Hd Hm; simpl; [exact Hd|].
  assert (Hdev : forall en0, re_dev en0 = p_addr pe ->
                   match re_dev en0 with Some d => Some d | None => dm_dev m end = p_addr pe).
  { intros en0 H0. rewrite H0. destruct (p_addr pe) eqn:Ea; [reflexivity | apply Hm; reflexivity]. }
  destruct (find_rent pe (de_addr de)) as [en0|] eqn:Ef.
  - assert (H0 : re_dev en0 = p_addr pe) by (apply Hd; unfold find_rent in Ef; apply find_some in Ef; tauto).
    match goal with |- context [add_entities ?pe1 m r] =>
      specialize (IH pe1); destruct (add_entities pe1 m r) as [pe2 cr] end.
    simpl in *. apply IH; [|exact Hm].
    intros en Hen. apply in_map_iff in Hen. destruct Hen as [y [Hy Hin]].
    destruct (eqb_eaddr (re_addr y) (de_addr de)); [subst en; simpl; apply Hdev; exact H0 | subst y; apply Hd; exact Hin].
  - match goal with |- context [add_entities ?pe1 m r] =>
      specialize (IH pe1); destruct (add_entities pe1 m r) as [pe2 cr] end.
    simpl in *. apply IH; [|exact Hm].
    intros en Hen. apply in_app_or in Hen. destruct Hen as [Hen|[<-|[]]]; [apply Hd; exact Hen|].
    simpl. destruct (p_addr pe) eqn:Ea; [reflexivity | apply Hm; reflexivity].
Qed.

Lemma remove_entities_lfeats l : forall s p s' evs err pe,
  remove_entities s p l = (s', evs, err) -> find_peer s p = Some pe ->
  (forall en, In en (p_ents pe) -> re_dev en = p_addr pe) ->
  lfeats s' = map (clean_f (keepE (p_addr pe) (gone_of evs))) (lfeats s) /\
  exists pe', find_peer s' p = Some pe' /\ p_addr pe' = p_addr pe /\ (forall en, In en (p_ents pe') -> In en (p_ents pe)).
Proof.
  induction l as [|de r IH]; intros s p s' evs err pe H Ep Hd.
  - simpl in H. inversion H; subst. split; [|exists pe; auto].
    rewrite map_clean_id; [reflexivity | intros a; apply keepE_nil].
  - rewrite remove_entities_cons, Ep in H.
    destruct (check_entity pe de); cbn [negb] in H.
    2:{ inversion H; subst. split; [|exists pe; auto]. rewrite map_clean_id; [reflexivity | intros a; apply keepE_nil]. }
    destruct (find_rent pe (de_addr de)) as [en|] eqn:Een; [|exact (IH _ _ _ _ _ _ H Ep Hd)].
    cbv zeta in H.
    set (pe1 := {| p_ski := p_ski pe; p_addr := p_addr pe;
                   p_ents := filter (fun x => negb (eqb_eaddr (re_addr x) (de_addr de))) (p_ents pe) |}) in *.
    pose proof (remove_for_entity_spec (set_peer s pe1) pe1 en) as Hr.
    destruct (remove_for_entity (set_peer s pe1) pe1 en) as [s2 evs1] eqn:Hrfe.
    destruct Hr as [_ [Hp2 [_ [_ Hg1]]]].
    destruct (clean_entity_caches_frame s2 en) as [_ Hp3].
    destruct (remove_entities (clean_entity_caches s2 en) p r) as [[s4 evs2] err2] eqn:Er.
    injection H as H1 H2 H3. subst s' evs err.
    pose proof (find_peer_ski _ _ _ Ep) as Hski.
    assert (Ep3 : find_peer (clean_entity_caches s2 en) p = Some pe1).
    { unfold find_peer. rewrite Hp3, Hp2. fold (find_peer (set_peer s pe1) p).
      rewrite find_peer_set_peer, Ep. simpl p_ski. rewrite Hski, N.eqb_refl. reflexivity. }
    assert (Hd1 : forall en0, In en0 (p_ents pe1) -> re_dev en0 = p_addr pe1).
    { intros en0 H0. simpl in H0. apply filter_In in H0. apply Hd. tauto. }
    destruct (IH _ _ _ _ _ _ Er Ep3 Hd1) as [Hl4 [pe' [Ep4 [Ha4 Hsub4]]]].
    assert (Hen : re_dev en = p_addr pe) by (apply Hd; unfold find_rent in Een; apply find_some in Een; tauto).
    assert (Hl2 : lfeats s2 = lfeats s) by (unfold remove_for_entity in Hrfe; inversion Hrfe; reflexivity).
    split.
    + rewrite Hl4, clean_entity_lfeats, Hl2, map_clean_clean. simpl p_addr. rewrite Hen.
      apply map_clean_ext. intros a.
      change (gone_of (ev_entity ChRemove pe (re_addr en) :: evs1 ++ evs2)) with ([re_addr en] ++ gone_of (evs1 ++ evs2)).
      rewrite gone_of_app, Hg1. simpl app at 2. rewrite keepE_app. reflexivity.
    + exists pe'. split; [exact Ep4|]. split; [rewrite Ha4; reflexivity|].
      intros en0 H0. specialize (Hsub4 en0 H0). simpl in Hsub4. apply filter_In in Hsub4. tauto.
Qed.

Lemma find_peer_add_entities s p pe m l :
  find_peer s p = Some pe -> find_peer (set_peer s (fst (add_entities pe m l))) p = Some (fst (add_entities pe m l)).
Proof.
  intros Ep. rewrite find_peer_set_peer, Ep, add_entities_ski, (find_peer_ski _ _ _ Ep), N.eqb_refl. reflexivity.
Qed.

Lemma notify_entries_lfeats l : forall s p m s' evs err pe,
  notify_entries s p m l = (s', evs, err) -> find_peer s p = Some pe ->
  (forall en, In en (p_ents pe) -> re_dev en = p_addr pe) -> (p_addr pe = None -> dm_dev m = None) ->
  lfeats s' = map (clean_f (keepE (p_addr pe) (gone_of evs))) (lfeats s).
Proof.
  induction l as [|de r IH]; intros s p m s' evs err pe H Ep Hd Hm.
  - simpl in H. inversion H; subst. rewrite map_clean_id; [reflexivity | intros a; apply keepE_nil].
  - rewrite notify_entries_cons in H.
    destruct (de_state de) as [[|]|].
    + rewrite Ep in H. destruct (all_checked pe (dm_ents m)); cbn [negb] in H.
      * pose proof (find_peer_add_entities s p pe m (dm_ents m) Ep) as Ep1.
        pose proof (add_entities_dev m (dm_ents m) pe Hd Hm) as Hd1.
        pose proof (add_entities_addr pe m (dm_ents m)) as Ha1.
        destruct (add_entities pe m (dm_ents m)) as [pe1 created]. simpl fst in *. cbv zeta in H.
        destruct (notify_entries (set_peer s pe1) p m r) as [[s2 evs2] err2] eqn:Er.
        injection H as H1 H2 H3. subst s' evs err.
        rewrite gone_of_app, gone_of_added. simpl app.
        rewrite <- Ha1. apply (IH _ _ _ _ _ _ pe1 Er Ep1).
        -- intros en Hen. rewrite Ha1. apply Hd1. exact Hen.
        -- rewrite Ha1. exact Hm.
      * cbv zeta in H.
        match type of H with context [add_entities pe m ?ok] => destruct (add_entities pe m ok) as [pe1 cr] end.
        inversion H; subst. rewrite map_clean_id; [reflexivity | intros a; apply keepE_nil].
    + destruct (remove_entities s p (dm_ents m)) as [[s1 evs1] err1] eqn:Er1.
      destruct (remove_entities_lfeats _ _ _ _ _ _ _ Er1 Ep Hd) as [Hl1 [pe' [Ep1 [Ha1 Hsub1]]]].
      destruct err1; [inversion H; subst; exact Hl1|].
      destruct (notify_entries s1 p m r) as [[s2 evs2] err2] eqn:Er.
      injection H as H1 H2 H3. subst s' evs err.
      assert (Hd1 : forall en, In en (p_ents pe') -> re_dev en = p_addr pe').
      { intros en Hen. rewrite Ha1. apply Hd. apply Hsub1. exact Hen. }
      assert (Hm1 : p_addr pe' = None -> dm_dev m = None) by (rewrite Ha1; exact Hm).
      rewrite (IH _ _ _ _ _ _ pe' Er Ep1 Hd1 Hm1), Hl1, map_clean_clean, Ha1.
      apply map_clean_ext. intros a. rewrite gone_of_app, keepE_app. reflexivity.
    + inversion H; subst. rewrite map_clean_id; [reflexivity | intros a; apply keepE_nil].
Qed.

(* ================================================================ one connection per SKI *)
Lemma find_peer_of_In s pe : NoDup (skis s) -> In pe (peers s) -> find_peer s (p_ski pe) = Some pe.
Proof.
  unfold skis, find_peer. induction (peers s) as [|x l IH]; intros Hnd Hin; [destruct Hin|].
  simpl in *. inversion Hnd as [|? ? Hn Hd]; subst.
  destruct (N.eqb_spec (p_ski x) (p_ski pe)) as [E|E].
  - destruct Hin as [->|Hin]; [reflexivity|]. exfalso. apply Hn. rewrite E. apply in_map. exact Hin.
  - destruct Hin as [->|Hin]; [congruence|]. apply IH; assumption.
Qed.

Lemma map_filter_ski p (l : list peer) :
  map p_ski (filter (fun x => negb (N.eqb (p_ski x) p)) l) = filter (fun k => negb (N.eqb k p)) (map p_ski l).
Proof.
  induction l as [|x l IH]; simpl; [reflexivity|].
  destruct (N.eqb (p_ski x) p); simpl; rewrite IH; reflexivity.
Qed.

Lemma disconnect_skis s p : skis (fst (disconnect s p)) = filter (fun k => negb (N.eqb k p)) (skis s).
Proof.
  unfold disconnect. destruct (find_peer s p) as [pe|] eqn:Ep.
  - rewrite remove_all_unfold.
    pose proof (fold_F1 pe (p_ents pe) s [] quiet_evs_nil) as H1.
    destruct (fold_left (F1 pe) (p_ents pe) (s, [])) as [s1 ev1].
    destruct H1 as [_ [Hp1 [_ [_ Hq1]]]].
    pose proof (fold_F2 pe (p_ents pe) s1 ev1 Hq1) as H2.
    destruct (fold_left (F2 pe) (p_ents pe) (s1, ev1)) as [s2 ev2].
    destruct H2 as [_ [Hp2 _]]. cbn [fst].
    match goal with |- context [clean_device_caches ?s3 ?d] => destruct (clean_device_caches_frame s3 d) as [_ [Hp4 _]] end.
    unfold skis. rewrite Hp4. simpl peers. rewrite Hp2, Hp1. apply map_filter_ski.
  - simpl. symmetry. apply filter_all. intros k Hk. unfold skis in Hk. apply in_map_iff in Hk. destruct Hk as [x [<- Hx]].
    unfold find_peer in Ep. pose proof (find_none _ _ Ep x Hx) as Hn. simpl in Hn. rewrite Hn. reflexivity.
Qed.

Lemma registry_call_peers s p ctr ack c (f : st -> peer -> reg_call -> st * list obs * bool) :
  (forall pe, peers (fst (fst (f s pe c))) = peers s /\ lfeats (fst (fst (f s pe c))) = lfeats s) ->
  peers (fst (registry_call s p ctr ack c f)) = peers s /\ lfeats (fst (registry_call s p ctr ack c f)) = lfeats s.
Proof.
  intros Hf. unfold registry_call, with_source. destruct (find_peer s p) as [pe|]; [|split; reflexivity].
  destruct (remote_feature pe (nm_addr None)); [|split; reflexivity].
  specialize (Hf pe). destruct (f s pe c) as [[s1 evs] err]. exact Hf.
Qed.

Lemma registry_ops_same s o :
  match o with SubCall _ _ _ _ | SubDelete _ _ _ _ | BindCall _ _ _ _ | BindDelete _ _ _ _ => true | _ => false end = true ->
  peers (fst (step s o)) = peers s /\ lfeats (fst (step s o)) = lfeats s.
Proof.
  destruct o; try discriminate; intros _; cbn [step]; apply registry_call_peers; intros pe.
  - pose proof (add_subscription_events s pe c) as H. destruct (add_subscription s pe c) as [[s1 evs] err]. simpl. tauto.
  - pose proof (remove_subscription_events s pe c) as H. destruct (remove_subscription s pe c) as [[s1 evs] err]. simpl. tauto.
  - pose proof (add_binding_events s pe c) as H. destruct (add_binding s pe c) as [[s1 evs] err]. simpl. tauto.
  - pose proof (remove_binding_events s pe c) as H. destruct (remove_binding s pe c) as [[s1 evs] err]. simpl. tauto.
Qed.

Lemma notify_step_addr s p ctr ack m : addr_pres s (fst (step s (DiscoveryNotify p ctr ack m))).
Proof.
  cbn [step]. unfold with_source. destruct (find_peer s p) as [pe|]; [|apply addr_pres_refl].
  destruct (remote_feature pe (nm_addr None)); [|apply addr_pres_refl].
  destruct (dm_ents m) as [|d0 dr] eqn:Edm; [apply addr_pres_refl|].
  rewrite <- Edm. destruct (notify_entries s p m (dm_ents m)) as [[s1 evs] err] eqn:En.
  exact (notify_entries_addr _ _ _ _ _ _ _ En).
Qed.

Lemma peers_ok_step s o : NoDup (skis s) -> NoDup (skis (fst (step s o))).
Proof.
  intros Hnd. destruct (is_frame o) eqn:Ef.
  { destruct (frame_step s o Ef) as [_ [_ [_ H]]]. rewrite H. exact Hnd. }
  destruct o; try discriminate.
  - (* Connect *)
    cbn [step].
    assert (G : forall s0 pe, skis s0 = filter (fun k => negb (N.eqb k p)) (skis s) ->
                NoDup (skis {| lents := lents s0; lfeats := lfeats s0; peers := peers s0 ++ [ {| p_ski := p; p_addr := None; p_ents := pe |} ];
                               subs := subs s0; next_sub := next_sub s0; binds := binds s0; next_bind := next_bind s0 |})).
    { intros s0 pe H0. unfold skis in *. simpl peers. rewrite map_app, H0. simpl.
      apply NoDup_snoc; [apply NoDup_filter; exact Hnd|].
      intros Hin. apply filter_In in Hin. destruct Hin as [_ Hin]. rewrite N.eqb_refl in Hin. discriminate. }
    pose proof (disconnect_skis s p) as Hd.
    destruct (find_peer s p) as [pe0|] eqn:Ep.
    + destruct (disconnect s p) as [s0 evs]. simpl. apply G. exact Hd.
    + simpl. apply G. unfold disconnect in Hd. rewrite Ep in Hd. exact Hd.
  - destruct (notify_step_addr s p ctr ack m) as [_ H]. rewrite H. exact Hnd.
  - destruct (registry_ops_same s (SubCall p ctr ack c) eq_refl) as [H _]. unfold skis. rewrite H. exact Hnd.
  - destruct (registry_ops_same s (SubDelete p ctr ack c) eq_refl) as [H _]. unfold skis. rewrite H. exact Hnd.
  - destruct (registry_ops_same s (BindCall p ctr ack c) eq_refl) as [H _]. unfold skis. rewrite H. exact Hnd.
  - destruct (registry_ops_same s (BindDelete p ctr ack c) eq_refl) as [H _]. unfold skis. rewrite H. exact Hnd.
  - cbn [step]. rewrite disconnect_skis. apply NoDup_filter. exact Hnd.
Qed.

(* ================================================================ more transport lemmas *)
Lemma CInv_map_same s s1 g cr :
  lfeats s1 = map g (lfeats s) -> keeps_key g ->
  (forall x, lf_subs (g x) = lf_subs x /\ lf_binds (g x) = lf_binds x) ->
  addr_pres s s1 -> addr_ok s1 = true -> CInv s cr -> CInv s1 cr.
Proof.
  intros Hl Hg Hsb [Ha Hsk] Hok C. apply (CInv_map s s1 g cr); try assumption.
  - intros e f lf _ A B. destruct (Hsb lf) as [-> ->]. auto.
  - apply (ci_feat _ _ C).
  - intros x Hx. destruct (ci_owner _ _ C x Hx) as [pe [d [Hf [Hd Hx']]]].
    specialize (Ha (c_ski x)). rewrite Hf in Ha. destruct (find_peer s1 (c_ski x)) as [pe'|]; [|destruct Ha].
    exists pe', d. rewrite <- Ha. auto.
  - rewrite Hsk. apply (ci_peers _ _ C).
Qed.

Lemma find_lfeat_app s s1 f0 e f :
  lfeats s1 = lfeats s ++ [f0] ->
  find_lfeat s1 e (Some f) = match find_lfeat s e (Some f) with
                             | Some x => Some x
                             | None => if eqb_eaddr (lf_ent f0) e && N.eqb (lf_id f0) f then Some f0 else None
                             end.
Proof. unfold find_lfeat. intros ->. rewrite find_app'. reflexivity. Qed.

Lemma no_refs_without_feature s cr sub e f : CInv s cr -> find_lfeat s e (Some f) = None -> refs cr sub e f = [].
Proof.
  intros C Hn. unfold refs. rewrite filter_none; [reflexivity|]. intros x Hx.
  destruct (key_of sub e f x) eqn:E; [|reflexivity]. exfalso.
  unfold key_of in E. apply andb_true_iff in E. destruct E as [E _]. apply andb_true_iff in E. destruct E as [E1 E2].
  apply eqb_eaddr_eq in E1. apply N.eqb_eq in E2. apply (ci_feat _ _ C x Hx). rewrite E1, E2. exact Hn.
Qed.

Lemma CInv_append s s1 f0 cr :
  lfeats s1 = lfeats s ++ [f0] -> lf_subs f0 = [] -> lf_binds f0 = [] ->
  addr_pres s s1 -> addr_ok s1 = true -> CInv s cr -> CInv s1 cr.
Proof.
  intros Hl Hs0 Hb0 [Ha Hsk] Hok C. constructor.
  - intros e f lf H. rewrite (find_lfeat_app s s1 f0) in H by exact Hl.
    destruct (find_lfeat s e (Some f)) as [x|] eqn:E.
    + inversion H; subst. exact (ci_refs _ _ C e f lf E).
    + destruct (_ && _); [|discriminate]. inversion H; subst.
      rewrite Hs0, Hb0, !(no_refs_without_feature s cr _ e f C E). auto.
  - intros x Hx. rewrite (find_lfeat_app s s1 f0) by exact Hl. pose proof (ci_feat _ _ C x Hx) as H.
    destruct (find_lfeat s (c_ent x) (Some (c_feat x))); [discriminate | contradiction].
  - rewrite (find_lfeat_app s s1 f0) by exact Hl. pose proof (ci_nm _ _ C) as H.
    destruct (find_lfeat s [0%N] (Some 0%N)); [discriminate | contradiction].
  - intros x Hx. destruct (ci_owner _ _ C x Hx) as [pe [d [Hf [Hd Hx']]]].
    specialize (Ha (c_ski x)). rewrite Hf in Ha. destruct (find_peer s1 (c_ski x)) as [pe'|]; [|destruct Ha].
    exists pe', d. rewrite <- Ha. auto.
  - exact Hok.
  - rewrite Hsk. apply (ci_peers _ _ C).
Qed.

(* a request is recorded by the local feature and in the account *)
Lemma CInv_add_ref s s1 cr e f sub r q :
  lfeats s1 = map (at_key e f (add_client_ref sub r)) (lfeats s) ->
  find_lfeat s e (Some f) <> None ->
  (exists pe d, find_peer s1 q = Some pe /\ p_addr pe = Some d /\ fa_dev r = Some d) ->
  (forall x, In x cr -> exists pe d, find_peer s1 (c_ski x) = Some pe /\ p_addr pe = Some d /\ fa_dev (c_addr x) = Some d) ->
  addr_ok s1 = true -> NoDup (skis s1) -> CInv s cr ->
  CInv s1 (cr ++ [ {| c_ent := e; c_feat := f; c_sub := sub; c_ski := q; c_addr := r |} ]).
Proof.
  intros Hl Hfe Hnew Hold Hok Hnd C.
  apply (CInv_map s s1 (at_key e f (add_client_ref sub r)) cr); try assumption.
  - apply keeps_key_at. intros x. split; reflexivity.
  - intros e' f' lf Hf A B. destruct (find_lfeat_key _ _ _ _ Hf) as [He Hi].
    rewrite !refs_app, !refs_single. unfold at_key, key_of. cbn [c_ent c_feat c_sub c_addr]. rewrite He, Hi.
    destruct (eqb_eaddr e' e && N.eqb f' f) eqn:Ek.
    + apply andb_true_iff in Ek. destruct Ek as [E1 E2]. apply eqb_eaddr_eq in E1. apply N.eqb_eq in E2. rewrite ?E1, ?E2 in *.
      rewrite eqb_eaddr_refl, N.eqb_refl. cbn [andb].
      destruct sub; cbn [add_client_ref lf_subs lf_binds Bool.eqb]; rewrite A, B, ?app_nil_r; auto.
    + rewrite A, B.
      assert (Ek' : eqb_eaddr e e' && N.eqb f f' = false).
      { destruct (eqb_eaddr e e') eqn:E1; [|reflexivity]. destruct (N.eqb_spec f f') as [E2|E2]; [|reflexivity].
        apply eqb_eaddr_eq in E1. subst. rewrite eqb_eaddr_refl, N.eqb_refl in Ek. discriminate. }
      rewrite Ek'. cbn [andb]. rewrite !app_nil_r. auto.
  - intros x Hx. apply in_app_or in Hx. destruct Hx as [Hx|[<-|[]]]; [apply (ci_feat _ _ C); exact Hx | exact Hfe].
  - intros x Hx. apply in_app_or in Hx. destruct Hx as [Hx|[<-|[]]]; [apply Hold; exact Hx | exact Hnew].
Qed.

(* ================================================================ the client step lemma *)
Lemma owners_pres s s1 cr : addr_pres s s1 -> CInv s cr ->
  forall x, In x cr -> exists pe d, find_peer s1 (c_ski x) = Some pe /\ p_addr pe = Some d /\ fa_dev (c_addr x) = Some d.
Proof.
  intros [Ha _] C x Hx. destruct (ci_owner _ _ C x Hx) as [pe [d [Hf [Hd Hx']]]].
  specialize (Ha (c_ski x)). rewrite Hf in Ha. destruct (find_peer s1 (c_ski x)) as [pe'|]; [|destruct Ha].
  exists pe', d. rewrite <- Ha. auto.
Qed.

Lemma set_data_keeps fn v : keeps_key (fun x => set_data x fn v) /\
  (forall x, lf_subs (set_data x fn v) = lf_subs x /\ lf_binds (set_data x fn v) = lf_binds x).
Proof. split; intros x; split; reflexivity. Qed.

Lemma at_key_same e f g : (forall x, lf_subs (g x) = lf_subs x /\ lf_binds (g x) = lf_binds x) ->
  forall x, lf_subs (at_key e f g x) = lf_subs x /\ lf_binds (at_key e f g x) = lf_binds x.
Proof. intros H x. unfold at_key. destruct (_ && _); [apply H | split; reflexivity]. Qed.

Lemma answers_one b : answers b [ORetB b] = true.
Proof. simpl. destruct b; reflexivity. Qed.

Lemma drop_conn_all s cr p : CInv s cr -> (forall x, In x cr -> N.eqb (c_ski x) p = false) -> drop_conn c_ski p cr = cr.
Proof. intros C H. unfold drop_conn. apply filter_all. intros x Hx. rewrite (H x Hx). reflexivity. Qed.

(* teardown of connection p: lfeats, the peers that stay, the account *)
Lemma CInv_disconnect s cr p s1 :
  lfeats s1 = lfeats (fst (disconnect s p)) ->
  (forall q, q <> p -> find_peer s1 q = find_peer s q) ->
  addr_ok s1 = true -> NoDup (skis s1) -> CInv s cr -> CInv s1 (drop_conn c_ski p cr).
Proof.
  intros Hl Hother Hok Hnd C. rewrite disconnect_lfeats in Hl.
  assert (Hown : forall x, In x cr -> negb (N.eqb (c_ski x) p) = true ->
            exists pe d, find_peer s1 (c_ski x) = Some pe /\ p_addr pe = Some d /\ fa_dev (c_addr x) = Some d).
  { intros x Hx Hq. destruct (N.eqb_spec (c_ski x) p) as [E|E]; [discriminate|].
    rewrite (Hother _ E). exact (ci_owner _ _ C x Hx). }
  unfold drop_conn. destruct (find_peer s p) as [pe|] eqn:Ep.
  - destruct (p_addr pe) as [d|] eqn:Ea.
    + apply (CInv_teardown s s1 cr (keep_dev d)); try assumption.
      intros x Hx. unfold keep_dev. rewrite (ref_of_conn s cr p pe d x C Ep Ea Hx). reflexivity.
    + apply (CInv_teardown_id s s1 cr); try assumption.
      * intros x Hx. rewrite (no_ref_of_addressless s cr p pe x C Ep Ea Hx). reflexivity.
      * intros x Hx. apply Hown; [exact Hx|]. rewrite (no_ref_of_addressless s cr p pe x C Ep Ea Hx). reflexivity.
  - apply (CInv_teardown_id s s1 cr); try assumption.
    + intros x Hx. rewrite (no_ref_of_unknown s cr p x C Ep Hx). reflexivity.
    + intros x Hx. apply Hown; [exact Hx|]. rewrite (no_ref_of_unknown s cr p x C Ep Hx). reflexivity.
Qed.

Lemma find_peer_snoc s0 s1 pe q : peers s1 = peers s0 ++ [pe] -> p_ski pe <> q -> find_peer s1 q = find_peer s0 q.
Proof.
  unfold find_peer. intros -> H. rewrite find_app'. destruct (find _ (peers s0)); [reflexivity|].
  simpl. destruct (N.eqb_spec (p_ski pe) q); [contradiction | reflexivity].
Qed.

Lemma client_step s m o : Inv s m -> CInv s (cref m) -> addr_event s o = false -> addr_ok (fst (step s o)) = true ->
  CInv (fst (step s o)) (cref (fst (mon m o (snd (step s o))))) /\ client_part m o (snd (step s o)) = [].
Proof.
  intros I C Hev Hok1. pose proof (inv_w _ _ I) as Hw. pose proof (si_ok _ (inv_s _ _ I)) as Hok.
  pose proof (peers_ok_step s o (ci_peers _ _ C)) as Hnd1.
  destruct o; cbn [mon client_part].
  - (* AddLocalEntity *)
    split; [|reflexivity]. cbn [fst cref follow set_accounts].
    apply (CInv_same s); try assumption; cbn [step] in *; destruct (existsb _ (lents s)); try reflexivity; apply addr_pres_peers; reflexivity.
  - (* AddLocalFeature *)
    split; [|reflexivity]. cbn [fst cref follow set_accounts]. cbn [step] in *.
    destruct (find _ (lents s)) as [le|]; [|apply (CInv_same s); try assumption; [reflexivity | apply addr_pres_refl]].
    cbn [fst] in *. destruct (existsb _ (lfeats s)).
    + apply (CInv_same s); try assumption; [reflexivity | apply addr_pres_peers; reflexivity].
    + eapply (CInv_append s); try eassumption; try reflexivity. apply addr_pres_peers. reflexivity.
  - (* AddFunction *)
    split; [|reflexivity]. cbn [fst cref follow set_accounts]. cbn [step fst] in *.
    eapply (CInv_map_same s); try eassumption.
    + apply upd_lfeat_map.
    + apply keeps_key_at. intros x. destruct (eqb_role (lf_role x) RClient); [split; reflexivity|].
      destruct (assoc_N fn (lf_ops x)); split; reflexivity.
    + apply at_key_same. intros x. destruct (eqb_role (lf_role x) RClient); [split; reflexivity|].
      destruct (assoc_N fn (lf_ops x)); split; reflexivity.
    + apply addr_pres_peers. reflexivity.
  - (* Connect *)
    split; [|reflexivity]. cbn [fst cref set_accounts].
    pose proof (disconnect_spec s p Hok) as Hd. cbn [step] in *.
    destruct (find_peer s p) as [pe0|] eqn:Ep.
    + destruct (disconnect s p) as [s0 evs] eqn:Ed. cbn [fst] in *.
      destruct Hd as [_ [_ [Hnone [Hother _]]]].
      apply (CInv_disconnect s (cref m) p); try assumption.
      * rewrite Ed. reflexivity.
      * intros q Hq. rewrite <- (Hother q Hq). eapply find_peer_snoc; [simpl; reflexivity | simpl; congruence].
    + cbn [fst] in *. apply (CInv_disconnect s (cref m) p); try assumption.
      * unfold disconnect. rewrite Ep. reflexivity.
      * intros q Hq. eapply find_peer_snoc; [simpl; reflexivity | simpl; congruence].
  - (* DiscoveryReply *)
    split; [|reflexivity]. cbn [fst cref set_accounts]. rewrite Hw.
    cbn [step] in *. unfold with_source in *.
    destruct (find_peer s p) as [pe|] eqn:Ep.
    2:{ cbn [fst snd] in *. rewrite Ep. apply (CInv_same s); try assumption; [reflexivity | apply addr_pres_refl]. }
    cbn [addr_event] in Hev. rewrite Ep in Hev.
    destruct (remote_feature pe (nm_addr None)) as [src|] eqn:Esrc.
    2:{ cbn [fst snd] in *. rewrite Ep. cbn [existsb].
        destruct (p_addr pe); apply (CInv_same s); try assumption; try reflexivity; apply addr_pres_refl. }
    set (pe0 := {| p_ski := p_ski pe; p_addr := match dm_dev m0 with Some d => Some d | None => p_addr pe end; p_ents := p_ents pe |}) in *.
    pose proof (add_entities_ski pe0 m0 (dm_ents m0)) as Hski.
    pose proof (add_entities_addr pe0 m0 (dm_ents m0)) as Haddr.
    destruct (add_entities pe0 m0 (dm_ents m0)) as [pe1 created]. cbn [fst snd] in *.
    pose proof (find_peer_ski _ _ _ Ep) as Hp.
    assert (Ep1 : forall s', peers s' = peers (set_peer s pe1) -> find_peer s' p = Some pe1).
    { intros s' Hs'. unfold find_peer. rewrite Hs'. fold (find_peer (set_peer s pe1) p).
      rewrite find_peer_set_peer, Ep, Hski. simpl p_ski. rewrite Hp, N.eqb_refl. reflexivity. }
    (* the address of connection p after the reply is the one it had, if it had one *)
    assert (Hkeep : forall d, p_addr pe = Some d -> p_addr pe1 = Some d).
    { intros d Hd. rewrite Haddr. simpl. rewrite Hd in Hev. destruct (dm_dev m0) as [d'|]; [|exact Hd].
      apply negb_false_iff, N.eqb_eq in Hev. subst. reflexivity. }
    assert (Hown : forall s', peers s' = peers (set_peer s pe1) ->
              forall x, In x (cref m) -> exists pe' d, find_peer s' (c_ski x) = Some pe' /\ p_addr pe' = Some d /\ fa_dev (c_addr x) = Some d).
    { intros s' Hs' x Hx. destruct (ci_owner _ _ C x Hx) as [pe' [d [Hf [Hd Hx']]]].
      unfold find_peer. rewrite Hs'. fold (find_peer (set_peer s pe1) (c_ski x)).
      rewrite find_peer_set_peer, Hf, Hski. simpl p_ski.
      destruct (N.eqb_spec (c_ski x) (p_ski pe)) as [E|E]; [|eauto].
      exists pe1, d. split; [reflexivity|]. split; [|exact Hx'].
      apply Hkeep. rewrite E, Hp, Ep in Hf. inversion Hf; subst. exact Hd. }
    destruct (p_addr pe1) as [d|] eqn:Ea1.
    + cbn [fst snd] in *. match goal with |- context [find_peer ?s' p] => rewrite (Ep1 s' eq_refl) end.
      rewrite Ea1. cbn [existsb]. rewrite N.eqb_refl. cbn [orb].
      apply (CInv_add_ref s _ (cref m) [0%N] 0%N true (nm_addr (Some d)) p); try assumption.
      * reflexivity.
      * apply (ci_nm _ _ C).
      * exists pe1, d. split; [apply Ep1; reflexivity | split; [exact Ea1 | reflexivity]].
      * apply Hown. reflexivity.
    + cbn [fst snd] in *. match goal with |- context [find_peer ?s' p] => rewrite (Ep1 s' eq_refl) end.
      rewrite Ea1.
      apply (CInv_same s); try assumption; [reflexivity|].
      apply (addr_pres_set_peer s pe); [rewrite Hski; simpl; rewrite Hp; exact Ep|].
      rewrite Ea1. destruct (p_addr pe) as [d|] eqn:Ea; [|reflexivity]. pose proof (Hkeep d eq_refl) as Hk. congruence.
  - (* DiscoveryNotify *)
    split; [|reflexivity]. cbn [fst cref set_accounts].
    pose proof (notify_step_addr s p ctr ack m0) as Hap.
    set (Q := fun g (x : centry) => negb (N.eqb (c_ski x) p && existsb (eqb_eaddr (fa_ent (c_addr x))) g)).
    change (CInv (fst (step s (DiscoveryNotify p ctr ack m0)))
                 (filter (Q (gone_ents (snd (step s (DiscoveryNotify p ctr ack m0))))) (cref m))).
    assert (Hnil : forall s', lfeats s' = lfeats s -> addr_pres s s' -> addr_ok s' = true -> NoDup (skis s') ->
                     CInv s' (filter (Q []) (cref m))).
    { intros s' Hl Ha Ho Hn. apply (CInv_teardown_id s s' (cref m)); try assumption.
      - intros x _. unfold Q. simpl. rewrite andb_false_r. reflexivity.
      - apply (owners_pres s s'); assumption. }
    cbn [step] in *. unfold with_source in *.
    destruct (find_peer s p) as [pe|] eqn:Ep; [|apply Hnil; [reflexivity | apply addr_pres_refl | exact Hok1 | exact Hnd1]].
    destruct (remote_feature pe (nm_addr None)); [|apply Hnil; [reflexivity | apply addr_pres_refl | exact Hok1 | exact Hnd1]].
    destruct (dm_ents m0) as [|d0 dr] eqn:Edm.
    { cbn [fst snd] in *.
      replace (gone_ents (call_result p ctr ack true (nm_addr (p_addr pe)) (nm_addr (Some LOCAL_DEV)))) with (@nil eaddr)
        by (unfold call_result; reflexivity).
      apply Hnil; [reflexivity | apply addr_pres_refl | exact Hok1 | exact Hnd1]. }
    rewrite <- Edm in *. destruct (notify_entries s p m0 (dm_ents m0)) as [[s1 evs] err] eqn:En. cbn [fst snd] in *.
    rewrite gone_ents_eq, gone_of_app.
    replace (gone_of (call_result p ctr ack err (nm_addr (p_addr pe)) (nm_addr (Some LOCAL_DEV)))) with (@nil eaddr)
      by (unfold call_result; destruct err; [|destruct ack]; reflexivity).
    rewrite app_nil_r.
    assert (Hd : forall en, In en (p_ents pe) -> re_dev en = p_addr pe).
    { intros en Hen. exact (addr_ok_ents s p pe en (ci_addr _ _ C) Ep Hen). }
    assert (Hm : p_addr pe = None -> dm_dev m0 = None).
    { intros Hn. cbn [addr_event] in Hev. rewrite Ep, Hn in Hev. destruct (dm_dev m0); [discriminate | reflexivity]. }
    pose proof (notify_entries_lfeats _ _ _ _ _ _ _ pe En Ep Hd Hm) as Hl.
    apply (CInv_teardown s s1 (cref m) (keepE (p_addr pe) (gone_of evs))); try assumption.
    + intros x Hx. unfold Q, keepE. destruct (p_addr pe) as [d|] eqn:Ea.
      * rewrite (ref_of_conn s (cref m) p pe d x C Ep Ea Hx). reflexivity.
      * rewrite (no_ref_of_addressless s (cref m) p pe x C Ep Ea Hx). reflexivity.
    + intros x Hx _. apply (owners_pres s s1 (cref m) Hap C x Hx).
  - (* SubCall *)
    split; [|reflexivity]. cbn [fst cref set_accounts].
    destruct (registry_ops_same s (SubCall p ctr ack c) eq_refl) as [Hp Hl].
    apply (CInv_same s); try assumption. apply addr_pres_peers. exact Hp.
  - (* SubDelete *)
    split; [|reflexivity]. cbn [fst cref set_accounts].
    destruct (registry_ops_same s (SubDelete p ctr ack c) eq_refl) as [Hp Hl].
    apply (CInv_same s); try assumption. apply addr_pres_peers. exact Hp.
  - (* BindCall *)
    split; [|reflexivity]. cbn [fst cref set_accounts].
    destruct (registry_ops_same s (BindCall p ctr ack c) eq_refl) as [Hp Hl].
    apply (CInv_same s); try assumption. apply addr_pres_peers. exact Hp.
  - (* BindDelete *)
    split; [|reflexivity]. cbn [fst cref set_accounts].
    destruct (registry_ops_same s (BindDelete p ctr ack c) eq_refl) as [Hp Hl].
    apply (CInv_same s); try assumption. apply addr_pres_peers. exact Hp.
  - (* SetData *)
    split; [|reflexivity]. cbn [fst cref follow set_accounts]. cbn [step] in *.
    destruct (find_lfeat s e (Some f)) as [lf|]; [|apply (CInv_same s); try assumption; [reflexivity | apply addr_pres_refl]].
    destruct (fn_registered (lf_type lf) fn); [|apply (CInv_same s); try assumption; [reflexivity | apply addr_pres_refl]].
    cbn [fst] in *. destruct (set_data_keeps fn v) as [K1 K2].
    apply (CInv_map_same s _ (at_key e f (fun x => set_data x fn v))); try assumption;
      [reflexivity | apply keeps_key_at; exact K1 | apply at_key_same; exact K2 | apply addr_pres_peers; reflexivity].
  - (* Write *)
    split; [|reflexivity].
    match goal with |- context [let '(_, mout) := ?X in _] => destruct X as [sx mout] end.
    cbn [fst cref follow set_accounts]. cbn [step] in *. unfold with_source in *.
    assert (Hs : forall s', lfeats s' = lfeats s -> peers s' = peers s -> addr_ok s' = true -> CInv s' (cref m)).
    { intros s' Hl Hp Ho. apply (CInv_same s); try assumption. apply addr_pres_peers. exact Hp. }
    destruct (find_peer s p) as [pe|]; [|apply Hs; [reflexivity | reflexivity | assumption]].
    destruct (remote_feature pe src) as [[en rf]|]; [|apply Hs; [reflexivity | reflexivity | assumption]].
    destruct (local_feature s dst) as [lf|]; [|apply Hs; [reflexivity | reflexivity | assumption]].
    destruct (assoc_N fn (lf_ops lf)) as [[rd [|]]|]; try solve [apply Hs; [reflexivity | reflexivity | assumption]].
    destruct (negb (has_binding s lf (rf_addr en rf))); [apply Hs; [reflexivity | reflexivity | assumption]|].
    destruct (negb (fn_registered (lf_type lf) fn)); [apply Hs; [reflexivity | reflexivity | assumption]|].
    cbn [fst] in *. destruct (set_data_keeps fn v) as [K1 K2].
    apply (CInv_map_same s _ (at_key (lf_ent lf) (lf_id lf) (fun x => set_data x fn v))); try assumption;
      [reflexivity | apply keeps_key_at; exact K1 | apply at_key_same; exact K2 | apply addr_pres_peers; reflexivity].
  - (* Disconnect *)
    split; [|reflexivity]. cbn [fst cref set_accounts].
    pose proof (disconnect_spec s p Hok) as Hd. cbn [step] in *.
    destruct (disconnect s p) as [s0 evs] eqn:Ed. cbn [fst] in *.
    destruct Hd as [_ [_ [_ [Hother _]]]].
    apply (CInv_disconnect s (cref m) p); try assumption. rewrite Ed. reflexivity.
  - (* ListSubs *) split; [|reflexivity]. apply (CInv_same s); try assumption; [reflexivity | apply addr_pres_refl].
  - (* ListBinds *) split; [|reflexivity]. apply (CInv_same s); try assumption; [reflexivity | apply addr_pres_refl].
  - (* LocalSubscribe *)
    split; [|reflexivity]. cbn [fst cref set_accounts]. cbn [step] in *. unfold local_request in *.
    assert (Hs : CInv s (cref m ++ map (fun q => {| c_ent := e; c_feat := f; c_sub := true; c_ski := q; c_addr := r |}) [])).
    { simpl. rewrite app_nil_r. exact C. }
    destruct (find_lfeat s e (Some f)) as [lf|] eqn:Elf; [|exact Hs].
    destruct (fa_dev r) as [d|] eqn:Edev; [|exact Hs].
    destruct (peer_by_addr s d) as [pe|] eqn:Ea; [|exact Hs].
    destruct (eqb_role (lf_role lf) RServer); [exact Hs|].
    cbn [fst snd calls_to flat_map app map] in *.
    unfold peer_by_addr in Ea. apply find_some in Ea. destruct Ea as [Hin Hadd]. apply eqb_optN_eq in Hadd.
    apply (CInv_add_ref s _ (cref m) e f true r (p_ski pe)); try assumption.
    + reflexivity.
    + rewrite Elf. discriminate.
    + exists pe, d. split; [exact (find_peer_of_In s pe (ci_peers _ _ C) Hin) | auto].
    + apply (ci_owner _ _ C).
  - (* LocalBind *)
    split; [|reflexivity]. cbn [fst cref set_accounts]. cbn [step] in *. unfold local_request in *.
    assert (Hs : CInv s (cref m ++ map (fun q => {| c_ent := e; c_feat := f; c_sub := false; c_ski := q; c_addr := r |}) [])).
    { simpl. rewrite app_nil_r. exact C. }
    destruct (find_lfeat s e (Some f)) as [lf|] eqn:Elf; [|exact Hs].
    destruct (fa_dev r) as [d|] eqn:Edev; [|exact Hs].
    destruct (peer_by_addr s d) as [pe|] eqn:Ea; [|exact Hs].
    destruct (eqb_role (lf_role lf) RServer); [exact Hs|].
    cbn [fst snd calls_to flat_map app map] in *.
    unfold peer_by_addr in Ea. apply find_some in Ea. destruct Ea as [Hin Hadd]. apply eqb_optN_eq in Hadd.
    apply (CInv_add_ref s _ (cref m) e f false r (p_ski pe)); try assumption.
    + reflexivity.
    + rewrite Elf. discriminate.
    + exists pe, d. split; [exact (find_peer_of_In s pe (ci_peers _ _ C) Hin) | auto].
    + apply (ci_owner _ _ C).
  - (* HasLocalSub *)
    assert (Hst : fst (step s (HasLocalSub e f r)) = s) by (cbn [step]; destruct (find_lfeat s e (Some f)); reflexivity).
    rewrite Hst. split; [exact C|].
    cbn [step snd]. destruct (find_lfeat s e (Some f)) as [lf|] eqn:Elf; [|reflexivity]. cbn [snd].
    destruct (ci_refs _ _ C e f lf Elf) as [A _]. rewrite A, has_ref_refs, answers_one. reflexivity.
  - (* HasLocalBind *)
    assert (Hst : fst (step s (HasLocalBind e f r)) = s) by (cbn [step]; destruct (find_lfeat s e (Some f)); reflexivity).
    rewrite Hst. split; [exact C|].
    cbn [step snd]. destruct (find_lfeat s e (Some f)) as [lf|] eqn:Elf; [|reflexivity]. cbn [snd].
    destruct (ci_refs _ _ C e f lf Elf) as [_ B]. rewrite B, has_ref_refs, answers_one. reflexivity.
  - (* ReadData *)
    assert (Hst : fst (step s (ReadData e f fn)) = s)
      by (cbn [step]; destruct (find_lfeat s e (Some f)) as [lf|]; [destruct (assoc_N fn (lf_data lf))|]; reflexivity).
    rewrite Hst. split; [exact C | reflexivity].
  - (* Resolve *) split; [|reflexivity]. apply (CInv_same s); try assumption; [reflexivity | apply addr_pres_refl].
Qed.
