(* C10 — the client-side bookkeeping (FeatureLocal.subscriptions / bindings) against the
   monitor's per-connection account [cref], while device addresses identify connections
   (scope of the recorded finding client-bookkeeping-keyed-by-device-address). *)
From Verif Require Import Base.Prelude Model.Stack Spec.StackObs Spec.C10Spec
  Proofs.StackLemmas Proofs.StackInv Proofs.C10Events Proofs.C10Core.

Definition key_of (sub : bool) (e : eaddr) (f : N) (x : centry) : bool :=
  eqb_eaddr (c_ent x) e && N.eqb (c_feat x) f && Bool.eqb (c_sub x) sub.

Definition refs (cr : list centry) (sub : bool) (e : eaddr) (f : N) : list faddr :=
  map c_addr (filter (key_of sub e f) cr).

Record CInv (s : st) (cr : list centry) : Prop := {
  ci_refs : forall e f lf, find_lfeat s e (Some f) = Some lf ->
              lf_subs lf = refs cr true e f /\ lf_binds lf = refs cr false e f;
  ci_feat : forall x, In x cr -> find_lfeat s (c_ent x) (Some (c_feat x)) <> None;
  ci_nm : find_lfeat s [0%N] (Some 0%N) <> None;
  ci_owner : forall x, In x cr ->
               exists pe d, find_peer s (c_ski x) = Some pe /\ p_addr pe = Some d /\ fa_dev (c_addr x) = Some d;
  ci_addr : addr_ok s = true;
  ci_peers : NoDup (skis s)
}.

Lemma cinv_init : CInv init [].
Proof.
  constructor; try (simpl; tauto); try (simpl; discriminate); try reflexivity; [|constructor].
  intros e f lf H. unfold find_lfeat in H. apply find_some in H. destruct H as [[<-|[<-|[]]] _]; split; reflexivity.
Qed.

(* ================================================================ list facts *)
Lemma filter_map_comm {A B} (g : A -> B) (P : B -> bool) l : filter P (map g l) = map g (filter (fun x => P (g x)) l).
Proof. induction l as [|x l IH]; simpl; [reflexivity|]. destruct (P (g x)); simpl; rewrite IH; reflexivity. Qed.

Lemma filter_comm {A} (P Q : A -> bool) l : filter P (filter Q l) = filter Q (filter P l).
Proof. rewrite !filter_filter. apply filter_ext'. intros x. apply andb_comm. Qed.

Lemma refs_filter (K : faddr -> bool) (Q : centry -> bool) cr sub e f :
  (forall x, In x cr -> K (c_addr x) = Q x) -> filter K (refs cr sub e f) = refs (filter Q cr) sub e f.
Proof.
  intros H. unfold refs. rewrite filter_map_comm. f_equal.
  rewrite !filter_filter. apply filter_ext_in. intros x Hx. rewrite (H x Hx). apply andb_comm.
Qed.

Lemma refs_single x sub e f : refs [x] sub e f = if key_of sub e f x then [c_addr x] else [].
Proof. unfold refs. simpl. destruct (key_of sub e f x); reflexivity. Qed.

Lemma refs_app cr cr2 sub e f : refs (cr ++ cr2) sub e f = refs cr sub e f ++ refs cr2 sub e f.
Proof. unfold refs. rewrite filter_app, map_app. reflexivity. Qed.

Lemma eqb_faddr_sym a b : eqb_faddr a b = eqb_faddr b a.
Proof.
  destruct (eqb_faddr a b) eqn:E1, (eqb_faddr b a) eqn:E2; try reflexivity.
  - apply eqb_faddr_eq in E1. subst. rewrite eqb_faddr_refl in E2. discriminate.
  - apply eqb_faddr_eq in E2. subst. rewrite eqb_faddr_refl in E1. discriminate.
Qed.

Lemma has_ref_refs m sub e f r : existsb (eqb_faddr r) (refs (cref m) sub e f) = has_ref m sub e f r.
Proof.
  unfold refs, has_ref, key_of. induction (cref m) as [|x l IH]; simpl; [reflexivity|].
  destruct (eqb_eaddr (c_ent x) e && N.eqb (c_feat x) f && Bool.eqb (c_sub x) sub); simpl; [|exact IH].
  rewrite IH, (eqb_faddr_sym r). reflexivity.
Qed.

(* ================================================================ local features by key *)
Lemma find_lfeat_ext s s1 e f : lfeats s1 = lfeats s -> find_lfeat s1 e f = find_lfeat s e f.
Proof. unfold find_lfeat. intros ->. reflexivity. Qed.

Definition keeps_key (g : lfeat -> lfeat) : Prop := forall x, lf_ent (g x) = lf_ent x /\ lf_id (g x) = lf_id x.

Lemma find_lfeat_map s s1 g e f : lfeats s1 = map g (lfeats s) -> keeps_key g ->
  find_lfeat s1 e (Some f) = option_map g (find_lfeat s e (Some f)).
Proof.
  intros H Hg. unfold find_lfeat. rewrite H. apply find_map_key. intros x. destruct (Hg x) as [-> ->]. reflexivity.
Qed.

Definition at_key (e : eaddr) (f : N) (g : lfeat -> lfeat) (x : lfeat) : lfeat :=
  if eqb_eaddr (lf_ent x) e && N.eqb (lf_id x) f then g x else x.

Lemma keeps_key_at e f g : keeps_key g -> keeps_key (at_key e f g).
Proof. intros Hg x. unfold at_key. destruct (_ && _); [apply Hg | split; reflexivity]. Qed.

Lemma upd_lfeat_map s e f g : lfeats (upd_lfeat s e f g) = map (at_key e f g) (lfeats s).
Proof. reflexivity. Qed.

Lemma find_lfeat_key s e f lf : find_lfeat s e (Some f) = Some lf -> lf_ent lf = e /\ lf_id lf = f.
Proof.
  unfold find_lfeat. intros H. apply find_some in H. destruct H as [_ H]. apply andb_true_iff in H.
  destruct H as [H1 H2]. apply eqb_eaddr_eq in H1. apply N.eqb_eq in H2. auto.
Qed.

(* cleaning the bookkeeping of every local feature *)
Definition clean_f (keep : faddr -> bool) (f : lfeat) : lfeat :=
  {| lf_ent := lf_ent f; lf_id := lf_id f; lf_type := lf_type f; lf_role := lf_role f;
     lf_ops := lf_ops f; lf_data := lf_data f;
     lf_subs := filter keep (lf_subs f); lf_binds := filter keep (lf_binds f) |}.

Lemma keeps_key_clean K : keeps_key (clean_f K).
Proof. intros x. split; reflexivity. Qed.

Lemma clean_f_id K f : (forall a, K a = true) -> clean_f K f = f.
Proof. intros H. unfold clean_f. rewrite !filter_all by (intros; apply H). destruct f; reflexivity. Qed.

Lemma map_clean_id K l : (forall a, K a = true) -> map (clean_f K) l = l.
Proof. intros H. induction l as [|x l IH]; simpl; [reflexivity|]. rewrite clean_f_id, IH by exact H. reflexivity. Qed.

Lemma map_clean_ext K K' l : (forall a, K a = K' a) -> map (clean_f K) l = map (clean_f K') l.
Proof.
  intros H. apply map_ext. intros f. unfold clean_f. rewrite !(filter_ext' K K') by exact H. reflexivity.
Qed.

Lemma map_clean_clean K1 K2 l : map (clean_f K2) (map (clean_f K1) l) = map (clean_f (fun a => K1 a && K2 a)) l.
Proof. rewrite map_map. apply map_ext. intros f. unfold clean_f. simpl. rewrite !filter_filter. reflexivity. Qed.

Definition keep_dev (d : N) (a : faddr) : bool := negb (eqb_optN (fa_dev a) (Some d)).

Definition keepE (d : option N) (g : list eaddr) (a : faddr) : bool :=
  match d with
  | Some d => negb (eqb_optN (fa_dev a) (Some d) && existsb (eqb_eaddr (fa_ent a)) g)
  | None => true
  end.

Lemma keepE_nil d a : keepE d [] a = true.
Proof. unfold keepE. destruct d; [|reflexivity]. simpl. rewrite andb_false_r. reflexivity. Qed.

Lemma keepE_app d g1 g2 a : keepE d (g1 ++ g2) a = keepE d g1 a && keepE d g2 a.
Proof.
  unfold keepE. destruct d; [|reflexivity]. rewrite existsb_app.
  destruct (eqb_optN (fa_dev a) (Some n)); simpl; [|reflexivity].
  destruct (existsb _ g1); reflexivity.
Qed.

Lemma clean_entity_lfeats s d a :
  lfeats (clean_entity_caches s d a) = map (clean_f (keepE d [a])) (lfeats s).
Proof.
  unfold clean_entity_caches. destruct d as [d|].
  - simpl. apply map_ext. intros f. unfold clean_f.
    rewrite !(filter_ext' (fun x => negb (eqb_optN (fa_dev x) (Some d) && eqb_eaddr (fa_ent x) a))
                          (keepE (Some d) [a])) by (intros x; simpl; rewrite orb_false_r; reflexivity).
    reflexivity.
  - rewrite map_clean_id; [reflexivity | intros x; reflexivity].
Qed.

Lemma clean_device_lfeats s d :
  lfeats (clean_device_caches s d) = match d with Some d => map (clean_f (keep_dev d)) (lfeats s) | None => lfeats s end.
Proof. destruct d; reflexivity. Qed.

Lemma disconnect_lfeats s p :
  lfeats (fst (disconnect s p)) =
  match find_peer s p with
  | Some pe => match p_addr pe with Some d => map (clean_f (keep_dev d)) (lfeats s) | None => lfeats s end
  | None => lfeats s
  end.
Proof.
  unfold disconnect. destruct (find_peer s p) as [pe|]; [|reflexivity].
  rewrite remove_all_unfold.
  pose proof (fold_F1 pe (p_ents pe) s [] quiet_evs_nil) as H1.
  destruct (fold_left (F1 pe) (p_ents pe) (s, [])) as [s1 ev1].
  destruct H1 as [_ [_ [Hlf1 [_ Hq1]]]].
  pose proof (fold_F2 pe (p_ents pe) s1 ev1 Hq1) as H2.
  destruct (fold_left (F2 pe) (p_ents pe) (s1, ev1)) as [s2 ev2].
  destruct H2 as [_ [_ [Hlf2 _]]]. cbn [fst].
  rewrite clean_device_lfeats. simpl lfeats. rewrite Hlf2, Hlf1. reflexivity.
Qed.

(* ================================================================ device addresses identify connections *)
Lemma distinct_addrs_inj l : distinct_addrs l = true ->
  forall pe pe' d, In pe l -> In pe' l -> p_addr pe = Some d -> p_addr pe' = Some d -> pe = pe'.
Proof.
  induction l as [|x l IH]; intros H pe pe' d Hi Hi' Ha Ha'; [destruct Hi|].
  simpl in H. apply andb_true_iff in H. destruct H as [Hx Hl].
  assert (G : forall y, In y l -> p_addr x = Some d -> p_addr y = Some d -> False).
  { intros y Hy Hxa Hya. rewrite Hxa in Hx. apply negb_true_iff in Hx.
    assert (existsb (fun q => eqb_optN (p_addr q) (Some d)) l = true).
    { apply existsb_exists. exists y. split; [exact Hy|]. rewrite Hya. apply eqb_optN_refl. }
    congruence. }
  destruct Hi as [<-|Hi], Hi' as [<-|Hi'].
  - reflexivity.
  - exfalso. exact (G pe' Hi' Ha Ha').
  - exfalso. exact (G pe Hi Ha' Ha).
  - exact (IH Hl pe pe' d Hi Hi' Ha Ha').
Qed.

Lemma addr_ok_distinct s : addr_ok s = true -> distinct_addrs (peers s) = true.
Proof. unfold addr_ok. auto. Qed.

(* a reference names the device address of connection p iff it was written to p *)
Lemma ref_of_conn s cr p pe d x :
  CInv s cr -> find_peer s p = Some pe -> p_addr pe = Some d -> In x cr ->
  eqb_optN (fa_dev (c_addr x)) (Some d) = N.eqb (c_ski x) p.
Proof.
  intros C Ep Ha Hx. destruct (ci_owner _ _ C x Hx) as [pe' [d' [Hf [Ha' Hd']]]].
  rewrite Hd'. destruct (N.eqb_spec (c_ski x) p) as [E|E].
  - rewrite E, Ep in Hf. inversion Hf; subst pe'. rewrite Ha in Ha'. inversion Ha'; subst. apply eqb_optN_refl.
  - destruct (eqb_optN (Some d') (Some d)) eqn:E2; [|reflexivity]. exfalso. apply E.
    apply eqb_optN_eq in E2. inversion E2; subst d'.
    assert (pe' = pe).
    { apply (distinct_addrs_inj (peers s) (addr_ok_distinct _ (ci_addr _ _ C)) pe' pe d);
        [exact (find_peer_In _ _ _ Hf) | exact (find_peer_In _ _ _ Ep) | exact Ha' | exact Ha]. }
    subst pe'. rewrite <- (find_peer_ski _ _ _ Hf), <- (find_peer_ski _ _ _ Ep). reflexivity.
Qed.

Lemma no_ref_of_addressless s cr p pe x :
  CInv s cr -> find_peer s p = Some pe -> p_addr pe = None -> In x cr -> N.eqb (c_ski x) p = false.
Proof.
  intros C Ep Ha Hx. destruct (ci_owner _ _ C x Hx) as [pe' [d' [Hf [Ha' _]]]].
  destruct (N.eqb_spec (c_ski x) p) as [E|E]; [|reflexivity].
  rewrite E, Ep in Hf. inversion Hf; subst. congruence.
Qed.

Lemma no_ref_of_unknown s cr p x :
  CInv s cr -> find_peer s p = None -> In x cr -> N.eqb (c_ski x) p = false.
Proof.
  intros C Ep Hx. destruct (ci_owner _ _ C x Hx) as [pe' [d' [Hf _]]].
  destruct (N.eqb_spec (c_ski x) p) as [E|E]; [|reflexivity]. rewrite E, Ep in Hf. discriminate.
Qed.

(* ================================================================ transport lemmas *)
(* nothing relevant changed *)
Lemma CInv_same s s1 cr : lfeats s1 = lfeats s -> addr_pres s s1 -> addr_ok s1 = true -> CInv s cr -> CInv s1 cr.
Proof.
  intros Hl [Ha Hsk] Hok C. constructor.
  - intros e f lf. rewrite (find_lfeat_ext s s1) by exact Hl. apply (ci_refs _ _ C).
  - intros x Hx. rewrite (find_lfeat_ext s s1) by exact Hl. apply (ci_feat _ _ C). exact Hx.
  - rewrite (find_lfeat_ext s s1) by exact Hl. apply (ci_nm _ _ C).
  - intros x Hx. destruct (ci_owner _ _ C x Hx) as [pe [d [Hf [Hd Hx']]]].
    specialize (Ha (c_ski x)). rewrite Hf in Ha. destruct (find_peer s1 (c_ski x)) as [pe'|]; [|destruct Ha].
    exists pe', d. rewrite <- Ha. auto.
  - exact Hok.
  - rewrite Hsk. apply (ci_peers _ _ C).
Qed.

(* the local features are mapped by a function that keeps keys; the references change as described *)
Lemma CInv_map s s1 g cr cr1 :
  lfeats s1 = map g (lfeats s) -> keeps_key g ->
  (forall e f lf, find_lfeat s e (Some f) = Some lf ->
     lf_subs lf = refs cr true e f -> lf_binds lf = refs cr false e f ->
     lf_subs (g lf) = refs cr1 true e f /\ lf_binds (g lf) = refs cr1 false e f) ->
  (forall x, In x cr1 -> find_lfeat s (c_ent x) (Some (c_feat x)) <> None) ->
  (forall x, In x cr1 -> exists pe d, find_peer s1 (c_ski x) = Some pe /\ p_addr pe = Some d /\ fa_dev (c_addr x) = Some d) ->
  addr_ok s1 = true -> NoDup (skis s1) -> CInv s cr -> CInv s1 cr1.
Proof.
  intros Hl Hg Hr Hf Ho Hok Hnd C. constructor.
  - intros e f lf1 H1. rewrite (find_lfeat_map s s1 g) in H1 by assumption.
    destruct (find_lfeat s e (Some f)) as [lf|] eqn:E; [|discriminate]. simpl in H1. inversion H1; subst lf1.
    destruct (ci_refs _ _ C e f lf E) as [A B]. exact (Hr e f lf E A B).
  - intros x Hx. rewrite (find_lfeat_map s s1 g) by assumption. specialize (Hf x Hx).
    destruct (find_lfeat s (c_ent x) (Some (c_feat x))); [discriminate | contradiction].
  - rewrite (find_lfeat_map s s1 g) by assumption. pose proof (ci_nm _ _ C) as H.
    destruct (find_lfeat s [0%N] (Some 0%N)); [discriminate | contradiction].
  - exact Ho.
  - exact Hok.
  - exact Hnd.
Qed.

(* teardown: the bookkeeping is filtered by address, the account by connection *)
Lemma CInv_teardown s s1 cr (K : faddr -> bool) (Q : centry -> bool) :
  lfeats s1 = map (clean_f K) (lfeats s) ->
  (forall x, In x cr -> K (c_addr x) = Q x) ->
  (forall x, In x cr -> Q x = true ->
     exists pe d, find_peer s1 (c_ski x) = Some pe /\ p_addr pe = Some d /\ fa_dev (c_addr x) = Some d) ->
  addr_ok s1 = true -> NoDup (skis s1) -> CInv s cr -> CInv s1 (filter Q cr).
Proof.
  intros Hl HK Ho Hok Hnd C. apply (CInv_map s s1 (clean_f K) cr); try assumption.
  - apply keeps_key_clean.
  - intros e f lf _ A B. simpl. rewrite A, B. split; apply refs_filter; exact HK.
  - intros x Hx. apply filter_In in Hx. apply (ci_feat _ _ C). tauto.
  - intros x Hx. apply filter_In in Hx. apply Ho; tauto.
Qed.

Lemma CInv_teardown_id s s1 cr (Q : centry -> bool) :
  lfeats s1 = lfeats s ->
  (forall x, In x cr -> Q x = true) ->
  (forall x, In x cr ->
     exists pe d, find_peer s1 (c_ski x) = Some pe /\ p_addr pe = Some d /\ fa_dev (c_addr x) = Some d) ->
  addr_ok s1 = true -> NoDup (skis s1) -> CInv s cr -> CInv s1 (filter Q cr).
Proof.
  intros Hl HQ Ho Hok Hnd C. apply (CInv_teardown s s1 cr (fun _ => true) Q); try assumption.
  - rewrite map_clean_id by reflexivity. exact Hl.
  - intros x Hx. symmetry. apply HQ. exact Hx.
  - intros x Hx _. apply Ho. exact Hx.
Qed.

(* ================================================================ entity removal: what is cleaned *)
Lemma addr_pres_find s s' p pe : addr_pres s s' -> find_peer s p = Some pe ->
  exists pe', find_peer s' p = Some pe' /\ p_addr pe' = p_addr pe.
Proof.
  intros [H _] Ep. specialize (H p). rewrite Ep in H. destruct (find_peer s' p) as [pe'|]; [|destruct H].
  exists pe'. auto.
Qed.

Lemma remove_entity_lfeats s p a s' evs pe :
  remove_entity s p a = (s', evs) -> find_peer s p = Some pe ->
  lfeats s' = map (clean_f (keepE (p_addr pe) (gone_of evs))) (lfeats s).
Proof.
  intros H Ep. rewrite remove_entity_unfold, Ep in H.
  destruct (find_rent pe a) as [en|] eqn:Een.
  2:{ inversion H; subst. rewrite map_clean_id; [reflexivity | intros x; apply keepE_nil]. }
  cbv zeta in H.
  set (pe1 := {| p_ski := p_ski pe; p_addr := p_addr pe;
                 p_ents := filter (fun x => negb (eqb_eaddr (re_addr x) a)) (p_ents pe) |}) in *.
  pose proof (remove_for_entity_spec (set_peer s pe1) pe1 en) as Hr.
  destruct (remove_for_entity (set_peer s pe1) pe1 en) as [s2 evs1] eqn:Hrfe.
  destruct Hr as [_ [_ [_ [_ Hg1]]]].
  injection H as H1 H2. subst s' evs.
  assert (Hl2 : lfeats s2 = lfeats s) by (unfold remove_for_entity in Hrfe; inversion Hrfe; reflexivity).
  rewrite clean_entity_lfeats, Hl2.
  change (gone_of (ev_entity ChRemove pe (re_addr en) :: evs1)) with (re_addr en :: gone_of evs1).
  rewrite Hg1, (find_rent_addr _ _ _ Een). reflexivity.
Qed.

Lemma lfeats_compose K1 K2 l l1 l2 :
  l1 = map (clean_f K1) l -> l2 = map (clean_f K2) l1 -> forall K, (forall x, K x = K1 x && K2 x) -> l2 = map (clean_f K) l.
Proof. intros -> -> K HK. rewrite map_clean_clean. apply map_clean_ext. intros x. symmetry. apply HK. Qed.

Lemma remove_unlisted_lfeats listed es : forall s p s' evs pe,
  remove_unlisted s p listed es = (s', evs) -> find_peer s p = Some pe ->
  lfeats s' = map (clean_f (keepE (p_addr pe) (gone_of evs))) (lfeats s).
Proof.
  induction es as [|a r IH]; intros s p s' evs pe H Ep.
  - simpl in H. inversion H; subst. rewrite map_clean_id; [reflexivity | intros x; apply keepE_nil].
  - simpl in H. destruct (existsb (eqb_eaddr a) listed || eqb_eaddr a [0%N]); [exact (IH _ _ _ _ _ H Ep)|].
    destruct (remove_entity s p a) as [s1 evs1] eqn:E1.
    destruct (remove_unlisted s1 p listed r) as [s2 evs2] eqn:E2.
    injection H as H1 H2. subst s' evs.
    destruct (addr_pres_find _ _ _ _ (remove_entity_addr _ _ _ _ _ E1) Ep) as [pe' [Ep' Ha']].
    eapply (lfeats_compose _ _ _ _ _ (remove_entity_lfeats _ _ _ _ _ _ E1 Ep) (IH _ _ _ _ _ E2 Ep')).
    intros x. rewrite Ha', gone_of_app, keepE_app. reflexivity.
Qed.

Lemma notify_entries_lfeats l : forall s p m s' evs err pe,
  notify_entries s p m l = (s', evs, err) -> find_peer s p = Some pe ->
  lfeats s' = map (clean_f (keepE (p_addr pe) (gone_of evs))) (lfeats s).
Proof.
  induction l as [|de r IH]; intros s p m s' evs err pe H Ep.
  - simpl in H. inversion H; subst. rewrite map_clean_id; [reflexivity | intros x; apply keepE_nil].
  - rewrite notify_entries_cons, Ep in H.
    destruct (de_state de) as [[|]|];
      [| |inversion H; subst; rewrite map_clean_id; [reflexivity | intros x; apply keepE_nil]].
    + destruct (check_entity pe de); cbn [negb] in H;
        [|inversion H; subst; rewrite map_clean_id; [reflexivity | intros x; apply keepE_nil]].
      pose proof (addr_pres_add_entities s p pe m [de] Ep) as Ha.
      destruct (add_entities pe m [de]) as [pe1 created]. simpl fst in Ha.
      destruct (notify_entries (set_peer s pe1) p m r) as [[s2 evs2] err2] eqn:Er.
      injection H as H1 H2 H3. subst s' evs err.
      destruct (addr_pres_find _ _ _ _ Ha Ep) as [pe' [Ep' Ha']].
      rewrite gone_of_app, gone_of_added. simpl app. rewrite <- Ha'.
      exact (IH _ _ _ _ _ _ _ Er Ep').
    + destruct (check_removed pe de); cbn [negb] in H;
        [|inversion H; subst; rewrite map_clean_id; [reflexivity | intros x; apply keepE_nil]].
      destruct (remove_entity s p (de_addr de)) as [s1 evs1] eqn:E1.
      destruct (notify_entries s1 p m r) as [[s2 evs2] err2] eqn:Er.
      injection H as H1 H2 H3. subst s' evs err.
      destruct (addr_pres_find _ _ _ _ (remove_entity_addr _ _ _ _ _ E1) Ep) as [pe' [Ep' Ha']].
      eapply (lfeats_compose _ _ _ _ _ (remove_entity_lfeats _ _ _ _ _ _ E1 Ep) (IH _ _ _ _ _ _ _ Er Ep')).
      intros x. rewrite Ha', gone_of_app, keepE_app. reflexivity.
Qed.

(* ================================================================ one connection per SKI *)
Lemma find_peer_of_In s pe : NoDup (skis s) -> In pe (peers s) -> find_peer s (p_ski pe) = Some pe.
Proof.
  unfold skis, find_peer. induction (peers s) as [|x l IH]; intros Hnd Hin; [destruct Hin|].
  simpl in *. inversion Hnd as [|? ? Hn Hd]; subst.
  destruct (N.eqb_spec (p_ski x) (p_ski pe)) as [E|E].
  - destruct Hin as [->|Hin]; [reflexivity|]. exfalso. apply Hn. rewrite E. apply in_map. exact Hin.
  - destruct Hin as [->|Hin]; [congruence|]. apply IH; assumption.
Qed.

Lemma map_filter_ski p (l : list peer) :
  map p_ski (filter (fun x => negb (N.eqb (p_ski x) p)) l) = filter (fun k => negb (N.eqb k p)) (map p_ski l).
Proof.
  induction l as [|x l IH]; simpl; [reflexivity|].
  destruct (N.eqb (p_ski x) p); simpl; rewrite IH; reflexivity.
Qed.

Lemma disconnect_skis s p : skis (fst (disconnect s p)) = filter (fun k => negb (N.eqb k p)) (skis s).
Proof.
  unfold disconnect. destruct (find_peer s p) as [pe|] eqn:Ep.
  - rewrite remove_all_unfold.
    pose proof (fold_F1 pe (p_ents pe) s [] quiet_evs_nil) as H1.
    destruct (fold_left (F1 pe) (p_ents pe) (s, [])) as [s1 ev1].
    destruct H1 as [_ [Hp1 [_ [_ Hq1]]]].
    pose proof (fold_F2 pe (p_ents pe) s1 ev1 Hq1) as H2.
    destruct (fold_left (F2 pe) (p_ents pe) (s1, ev1)) as [s2 ev2].
    destruct H2 as [_ [Hp2 _]]. cbn [fst].
    match goal with |- context [clean_device_caches ?s3 ?d] => destruct (clean_device_caches_frame s3 d) as [_ [Hp4 _]] end.
    unfold skis. rewrite Hp4. simpl peers. rewrite Hp2, Hp1. apply map_filter_ski.
  - simpl. symmetry. apply filter_all. intros k Hk. unfold skis in Hk. apply in_map_iff in Hk. destruct Hk as [x [<- Hx]].
    unfold find_peer in Ep. pose proof (find_none _ _ Ep x Hx) as Hn. simpl in Hn. rewrite Hn. reflexivity.
Qed.

Lemma registry_call_peers s p ctr ack c (f : st -> peer -> reg_call -> st * list obs * bool) :
  (forall pe, peers (fst (fst (f s pe c))) = peers s /\ lfeats (fst (fst (f s pe c))) = lfeats s) ->
  peers (fst (registry_call s p ctr ack c f)) = peers s /\ lfeats (fst (registry_call s p ctr ack c f)) = lfeats s.
Proof.
  intros Hf. unfold registry_call, with_source. destruct (find_peer s p) as [pe|]; [|split; reflexivity].
  destruct (remote_feature pe (nm_addr None)); [|split; reflexivity].
  specialize (Hf pe). destruct (f s pe c) as [[s1 evs] err]. exact Hf.
Qed.

Lemma registry_ops_same s o :
  match o with SubCall _ _ _ _ | SubDelete _ _ _ _ | BindCall _ _ _ _ | BindDelete _ _ _ _ => true | _ => false end = true ->
  peers (fst (step s o)) = peers s /\ lfeats (fst (step s o)) = lfeats s.
Proof.
  destruct o; try discriminate; intros _; cbn [step]; apply registry_call_peers; intros pe.
  - pose proof (add_subscription_events s pe c) as H. destruct (add_subscription s pe c) as [[s1 evs] err]. simpl. tauto.
  - pose proof (remove_subscription_events s pe c) as H. destruct (remove_subscription s pe c) as [[s1 evs] err]. simpl. tauto.
  - pose proof (add_binding_events s pe c) as H. destruct (add_binding s pe c) as [[s1 evs] err]. simpl. tauto.
  - pose proof (remove_binding_events s pe c) as H. destruct (remove_binding s pe c) as [[s1 evs] err]. simpl. tauto.
Qed.

Lemma notify_step_addr s p ctr ack m : addr_pres s (fst (step s (DiscoveryNotify p ctr ack m))).
Proof.
  cbn [step]. unfold with_source. destruct (find_peer s p) as [pe|]; [|apply addr_pres_refl].
  destruct (remote_feature pe (nm_addr None)); [|apply addr_pres_refl].
  destruct (dm_ents m) as [|d0 dr] eqn:Edm; [apply addr_pres_refl|].
  rewrite <- Edm. destruct (notify_entries s p m (dm_ents m)) as [[s1 evs] err] eqn:En.
  exact (notify_entries_addr _ _ _ _ _ _ _ En).
Qed.

Lemma peers_ok_step s o : RegOK s -> NoDup (skis s) -> NoDup (skis (fst (step s o))).
Proof.
  intros Hok Hnd. destruct (is_frame o) eqn:Ef.
  { destruct (frame_step s o Ef) as [_ [_ [_ H]]]. rewrite H. exact Hnd. }
  destruct o; try discriminate.
  - (* Connect *)
    cbn [step].
    assert (G : forall s0 pe, skis s0 = filter (fun k => negb (N.eqb k p)) (skis s) ->
                NoDup (skis {| lents := lents s0; lfeats := lfeats s0; peers := peers s0 ++ [ {| p_ski := p; p_addr := None; p_ents := pe |} ];
                               subs := subs s0; next_sub := next_sub s0; binds := binds s0; next_bind := next_bind s0 |})).
    { intros s0 pe H0. unfold skis in *. simpl peers. rewrite map_app, H0. simpl.
      apply NoDup_snoc; [apply NoDup_filter; exact Hnd|].
      intros Hin. apply filter_In in Hin. destruct Hin as [_ Hin]. rewrite N.eqb_refl in Hin. discriminate. }
    pose proof (disconnect_skis s p) as Hd.
    destruct (find_peer s p) as [pe0|] eqn:Ep.
    + destruct (disconnect s p) as [s0 evs]. simpl. apply G. exact Hd.
    + simpl. apply G. unfold disconnect in Hd. rewrite Ep in Hd. exact Hd.
  - rewrite (reply_skis s p m Hok). exact Hnd.
  - destruct (notify_step_addr s p ctr ack m) as [_ H]. rewrite H. exact Hnd.
  - destruct (registry_ops_same s (SubCall p ctr ack c) eq_refl) as [H _]. unfold skis. rewrite H. exact Hnd.
  - destruct (registry_ops_same s (SubDelete p ctr ack c) eq_refl) as [H _]. unfold skis. rewrite H. exact Hnd.
  - destruct (registry_ops_same s (BindCall p ctr ack c) eq_refl) as [H _]. unfold skis. rewrite H. exact Hnd.
  - destruct (registry_ops_same s (BindDelete p ctr ack c) eq_refl) as [H _]. unfold skis. rewrite H. exact Hnd.
  - cbn [step]. rewrite disconnect_skis. apply NoDup_filter. exact Hnd.
Qed.

(* ================================================================ more transport lemmas *)
Lemma CInv_map_same s s1 g cr :
  lfeats s1 = map g (lfeats s) -> keeps_key g ->
  (forall x, lf_subs (g x) = lf_subs x /\ lf_binds (g x) = lf_binds x) ->
  addr_pres s s1 -> addr_ok s1 = true -> CInv s cr -> CInv s1 cr.
Proof.
  intros Hl Hg Hsb [Ha Hsk] Hok C. apply (CInv_map s s1 g cr); try assumption.
  - intros e f lf _ A B. destruct (Hsb lf) as [-> ->]. auto.
  - apply (ci_feat _ _ C).
  - intros x Hx. destruct (ci_owner _ _ C x Hx) as [pe [d [Hf [Hd Hx']]]].
    specialize (Ha (c_ski x)). rewrite Hf in Ha. destruct (find_peer s1 (c_ski x)) as [pe'|]; [|destruct Ha].
    exists pe', d. rewrite <- Ha. auto.
  - rewrite Hsk. apply (ci_peers _ _ C).
Qed.

Lemma find_lfeat_app s s1 f0 e f :
  lfeats s1 = lfeats s ++ [f0] ->
  find_lfeat s1 e (Some f) = match find_lfeat s e (Some f) with
                             | Some x => Some x
                             | None => if eqb_eaddr (lf_ent f0) e && N.eqb (lf_id f0) f then Some f0 else None
                             end.
Proof. unfold find_lfeat. intros ->. rewrite find_app'. reflexivity. Qed.

Lemma no_refs_without_feature s cr sub e f : CInv s cr -> find_lfeat s e (Some f) = None -> refs cr sub e f = [].
Proof.
  intros C Hn. unfold refs. rewrite filter_none; [reflexivity|]. intros x Hx.
  destruct (key_of sub e f x) eqn:E; [|reflexivity]. exfalso.
  unfold key_of in E. apply andb_true_iff in E. destruct E as [E _]. apply andb_true_iff in E. destruct E as [E1 E2].
  apply eqb_eaddr_eq in E1. apply N.eqb_eq in E2. apply (ci_feat _ _ C x Hx). rewrite E1, E2. exact Hn.
Qed.

Lemma CInv_append s s1 f0 cr :
  lfeats s1 = lfeats s ++ [f0] -> lf_subs f0 = [] -> lf_binds f0 = [] ->
  addr_pres s s1 -> addr_ok s1 = true -> CInv s cr -> CInv s1 cr.
Proof.
  intros Hl Hs0 Hb0 [Ha Hsk] Hok C. constructor.
  - intros e f lf H. rewrite (find_lfeat_app s s1 f0) in H by exact Hl.
    destruct (find_lfeat s e (Some f)) as [x|] eqn:E.
    + inversion H; subst. exact (ci_refs _ _ C e f lf E).
    + destruct (_ && _); [|discriminate]. inversion H; subst.
      rewrite Hs0, Hb0, !(no_refs_without_feature s cr _ e f C E). auto.
  - intros x Hx. rewrite (find_lfeat_app s s1 f0) by exact Hl. pose proof (ci_feat _ _ C x Hx) as H.
    destruct (find_lfeat s (c_ent x) (Some (c_feat x))); [discriminate | contradiction].
  - rewrite (find_lfeat_app s s1 f0) by exact Hl. pose proof (ci_nm _ _ C) as H.
    destruct (find_lfeat s [0%N] (Some 0%N)); [discriminate | contradiction].
  - intros x Hx. destruct (ci_owner _ _ C x Hx) as [pe [d [Hf [Hd Hx']]]].
    specialize (Ha (c_ski x)). rewrite Hf in Ha. destruct (find_peer s1 (c_ski x)) as [pe'|]; [|destruct Ha].
    exists pe', d. rewrite <- Ha. auto.
  - exact Hok.
  - rewrite Hsk. apply (ci_peers _ _ C).
Qed.

(* a request is recorded by the local feature and in the account *)
Lemma CInv_add_ref s s1 cr e f sub r q :
  lfeats s1 = map (at_key e f (add_client_ref sub r)) (lfeats s) ->
  find_lfeat s e (Some f) <> None ->
  (exists pe d, find_peer s1 q = Some pe /\ p_addr pe = Some d /\ fa_dev r = Some d) ->
  (forall x, In x cr -> exists pe d, find_peer s1 (c_ski x) = Some pe /\ p_addr pe = Some d /\ fa_dev (c_addr x) = Some d) ->
  addr_ok s1 = true -> NoDup (skis s1) -> CInv s cr ->
  CInv s1 (cr ++ [ {| c_ent := e; c_feat := f; c_sub := sub; c_ski := q; c_addr := r |} ]).
Proof.
  intros Hl Hfe Hnew Hold Hok Hnd C.
  apply (CInv_map s s1 (at_key e f (add_client_ref sub r)) cr); try assumption.
  - apply keeps_key_at. intros x. split; reflexivity.
  - intros e' f' lf Hf A B. destruct (find_lfeat_key _ _ _ _ Hf) as [He Hi].
    rewrite !refs_app, !refs_single. unfold at_key, key_of. cbn [c_ent c_feat c_sub c_addr]. rewrite He, Hi.
    destruct (eqb_eaddr e' e && N.eqb f' f) eqn:Ek.
    + apply andb_true_iff in Ek. destruct Ek as [E1 E2]. apply eqb_eaddr_eq in E1. apply N.eqb_eq in E2. rewrite ?E1, ?E2 in *.
      rewrite eqb_eaddr_refl, N.eqb_refl. cbn [andb].
      destruct sub; cbn [add_client_ref lf_subs lf_binds Bool.eqb]; rewrite A, B, ?app_nil_r; auto.
    + rewrite A, B.
      assert (Ek' : eqb_eaddr e e' && N.eqb f f' = false).
      { destruct (eqb_eaddr e e') eqn:E1; [|reflexivity]. destruct (N.eqb_spec f f') as [E2|E2]; [|reflexivity].
        apply eqb_eaddr_eq in E1. subst. rewrite eqb_eaddr_refl, N.eqb_refl in Ek. discriminate. }
      rewrite Ek'. cbn [andb]. rewrite !app_nil_r. auto.
  - intros x Hx. apply in_app_or in Hx. destruct Hx as [Hx|[<-|[]]]; [apply (ci_feat _ _ C); exact Hx | exact Hfe].
  - intros x Hx. apply in_app_or in Hx. destruct Hx as [Hx|[<-|[]]]; [apply Hold; exact Hx | exact Hnew].
Qed.

(* a request is withdrawn: the local feature forgets the address, the account the records of the
   connection the delete call went to - the same, since addresses identify connections *)
Lemma drop_ref_nil sub e f r cr : drop_ref sub e f r [] cr = cr.
Proof.
  unfold drop_ref. apply filter_all. intros x _. unfold memN. cbn [existsb]. rewrite !andb_false_r. reflexivity.
Qed.

Lemma refs_drop_ref cr sub e f r q sub' e' f' :
  (forall x, In x cr -> eqb_faddr (c_addr x) r = true -> c_ski x = q) ->
  refs (drop_ref sub e f r [q] cr) sub' e' f' =
  if eqb_eaddr e' e && N.eqb f' f && Bool.eqb sub' sub
  then filter (fun a => negb (eqb_faddr a r)) (refs cr sub' e' f') else refs cr sub' e' f'.
Proof.
  intros Hq. unfold refs, drop_ref. rewrite filter_comm.
  destruct (eqb_eaddr e' e && N.eqb f' f && Bool.eqb sub' sub) eqn:Ek.
  - rewrite filter_map_comm. f_equal. rewrite !filter_filter. apply filter_ext_in. intros x Hx.
    apply andb_true_iff in Ek. destruct Ek as [Ek E3]. apply andb_true_iff in Ek. destruct Ek as [E1 E2].
    apply eqb_eaddr_eq in E1. apply N.eqb_eq in E2. apply eqb_prop in E3. subst e' f' sub'.
    unfold key_of. destruct (eqb_eaddr (c_ent x) e && N.eqb (c_feat x) f && Bool.eqb (c_sub x) sub); cbn [andb negb]; [|reflexivity].
    destruct (eqb_faddr (c_addr x) r) eqn:Er; cbn [andb negb]; [|reflexivity].
    rewrite (Hq x Hx Er). unfold memN. cbn [existsb]. rewrite N.eqb_refl. reflexivity.
  - f_equal. rewrite filter_filter. apply filter_ext_in. intros x Hx. unfold key_of.
    destruct (eqb_eaddr (c_ent x) e' && N.eqb (c_feat x) f' && Bool.eqb (c_sub x) sub') eqn:Ex; [|reflexivity].
    cbn [andb]. apply andb_true_iff in Ex. destruct Ex as [Ex E3]. apply andb_true_iff in Ex. destruct Ex as [E1 E2].
    apply eqb_eaddr_eq in E1. apply N.eqb_eq in E2. apply eqb_prop in E3. rewrite E1, E2, E3, Ek. reflexivity.
Qed.

Lemma CInv_del_ref s s1 cr e f sub r q :
  lfeats s1 = map (at_key e f (del_client_ref sub r)) (lfeats s) ->
  (forall x, In x cr -> eqb_faddr (c_addr x) r = true -> c_ski x = q) ->
  (forall x, In x cr -> exists pe d, find_peer s1 (c_ski x) = Some pe /\ p_addr pe = Some d /\ fa_dev (c_addr x) = Some d) ->
  addr_ok s1 = true -> NoDup (skis s1) -> CInv s cr ->
  CInv s1 (drop_ref sub e f r [q] cr).
Proof.
  intros Hl Hq Hold Hok Hnd C.
  apply (CInv_map s s1 (at_key e f (del_client_ref sub r)) cr); try assumption.
  - apply keeps_key_at. intros x. split; reflexivity.
  - intros e' f' lf Hf A B. destruct (find_lfeat_key _ _ _ _ Hf) as [He Hi].
    rewrite !(refs_drop_ref cr sub e f r q) by exact Hq. unfold at_key. rewrite He, Hi.
    destruct (eqb_eaddr e' e && N.eqb f' f) eqn:Ek; cbn [andb].
    + destruct sub; cbn [del_client_ref lf_subs lf_binds Bool.eqb]; rewrite A, B; auto.
    + rewrite A, B. auto.
  - intros x Hx. apply filter_In in Hx. apply (ci_feat _ _ C). apply Hx.
  - intros x Hx. apply filter_In in Hx. apply Hold. apply Hx.
Qed.

(* ================================================================ discovery reply / notification: helpers *)
Lemma owners_pres0 s s1 cr : addr_pres s s1 -> CInv s cr ->
  forall x, In x cr -> exists pe d, find_peer s1 (c_ski x) = Some pe /\ p_addr pe = Some d /\ fa_dev (c_addr x) = Some d.
Proof.
  intros [Ha _] C x Hx. destruct (ci_owner _ _ C x Hx) as [pe [d [Hf [Hd Hx']]]].
  specialize (Ha (c_ski x)). rewrite Hf in Ha. destruct (find_peer s1 (c_ski x)) as [pe'|]; [|destruct Ha].
  exists pe', d. rewrite <- Ha. auto.
Qed.

Lemma owners_pres s s1 cr : addr_pres s s1 -> CInv s cr ->
  forall x, In x cr -> exists pe d, find_peer s1 (c_ski x) = Some pe /\ p_addr pe = Some d /\ fa_dev (c_addr x) = Some d.
Proof.
  intros [Ha _] C x Hx. destruct (ci_owner _ _ C x Hx) as [pe [d [Hf [Hd Hx']]]].
  specialize (Ha (c_ski x)). rewrite Hf in Ha. destruct (find_peer s1 (c_ski x)) as [pe'|]; [|destruct Ha].
  exists pe', d. rewrite <- Ha. auto.
Qed.

Lemma CInv_owners s s1 cr :
  lfeats s1 = lfeats s ->
  (forall x, In x cr -> exists pe d, find_peer s1 (c_ski x) = Some pe /\ p_addr pe = Some d /\ fa_dev (c_addr x) = Some d) ->
  addr_ok s1 = true -> NoDup (skis s1) -> CInv s cr -> CInv s1 cr.
Proof.
  intros Hl Ho Hok Hnd C. apply (CInv_map s s1 (fun x => x) cr); try assumption.
  - rewrite map_id. exact Hl.
  - intros x. split; reflexivity.
  - intros e f lf _ A B. auto.
  - apply (ci_feat _ _ C).
Qed.

(* entities [gone] of connection p removed: bookkeeping cleaned with p's announced address *)
Lemma CInv_entity_teardown s s' cr p gone :
  CInv s cr ->
  match find_peer s p with
  | Some pe => lfeats s' = map (clean_f (keepE (p_addr pe) gone)) (lfeats s)
  | None => lfeats s' = lfeats s /\ gone = []
  end ->
  addr_pres s s' -> addr_ok s' = true -> NoDup (skis s') ->
  CInv s' (filter (fun x => negb (ref_of_entity p gone x)) cr).
Proof.
  intros C Hl Hap Hok Hnd. destruct (find_peer s p) as [pe|] eqn:Ep.
  - apply (CInv_teardown s s' cr (keepE (p_addr pe) gone)); try assumption.
    + intros x Hx. unfold ref_of_entity, keepE. destruct (p_addr pe) as [d|] eqn:Ea.
      * rewrite (ref_of_conn s cr p pe d x C Ep Ea Hx). reflexivity.
      * rewrite (no_ref_of_addressless s cr p pe x C Ep Ea Hx). reflexivity.
    + intros x Hx _. apply (owners_pres0 s s' cr Hap C x Hx).
  - destruct Hl as [Hl ->]. apply (CInv_teardown_id s s' cr); try assumption.
    + intros x _. unfold ref_of_entity. simpl. rewrite andb_false_r. reflexivity.
    + apply (owners_pres0 s s' cr Hap C).
Qed.

(* (SKI, address) lists *)
Lemma addr_list_eq (l l' : list peer) :
  map p_ski l' = map p_ski l -> NoDup (map p_ski l) ->
  (forall q, match find (fun x => N.eqb (p_ski x) q) l, find (fun x => N.eqb (p_ski x) q) l' with
             | Some a, Some b => p_addr a = p_addr b
             | None, None => True
             | _, _ => False
             end) ->
  map p_addr l = map p_addr l'.
Proof.
  revert l'. induction l as [|x l IH]; intros l' Hs Hnd Hf; destruct l' as [|x' r']; try discriminate; [reflexivity|].
  simpl in Hs. injection Hs as Hx Hr. inversion Hnd as [|? ? Hn Hd]; subst.
  simpl. f_equal.
  - specialize (Hf (p_ski x)). simpl in Hf. rewrite N.eqb_refl in Hf. rewrite Hx, N.eqb_refl in Hf. exact Hf.
  - apply IH; [exact Hr | exact Hd|]. intros q. specialize (Hf q). simpl in Hf.
    destruct (N.eqb_spec (p_ski x) q) as [E|E].
    + assert (E' : N.eqb (p_ski x') q = true) by (apply N.eqb_eq; congruence). rewrite E' in Hf.
      assert (N1 : find (fun y => N.eqb (p_ski y) q) l = None).
      { destruct (find _ l) eqn:Ef; [|reflexivity]. apply find_some in Ef. destruct Ef as [Hin Hq].
        apply N.eqb_eq in Hq. exfalso. apply Hn. rewrite E, <- Hq. apply in_map. exact Hin. }
      assert (N2 : find (fun y => N.eqb (p_ski y) q) r' = None).
      { destruct (find _ r') eqn:Ef; [|reflexivity]. apply find_some in Ef. destruct Ef as [Hin Hq].
        apply N.eqb_eq in Hq. exfalso. apply Hn. rewrite E, <- Hq, <- Hr. apply in_map. exact Hin. }
      rewrite N1, N2. exact I.
    + assert (E' : N.eqb (p_ski x') q = false) by (apply N.eqb_neq; congruence). rewrite E' in Hf. exact Hf.
Qed.

Lemma distinct_addrs_ext l l' : map p_addr l = map p_addr l' -> distinct_addrs l = distinct_addrs l'.
Proof.
  revert l'. induction l as [|x l IH]; intros l' H; destruct l' as [|x' r']; try discriminate; [reflexivity|].
  simpl in H. injection H as Hx Hr. simpl. rewrite Hx, (IH r' Hr).
  assert (G : forall d (a b : list peer), map p_addr a = map p_addr b ->
              existsb (fun q => eqb_optN (p_addr q) (Some d)) a = existsb (fun q => eqb_optN (p_addr q) (Some d)) b).
  { intros d a. induction a as [|y a IHa]; intros b Hb; destruct b as [|y' b]; try discriminate; [reflexivity|].
    simpl in Hb. injection Hb as Hy Hb. simpl. rewrite Hy, (IHa b Hb). reflexivity. }
  destruct (p_addr x'); [rewrite (G n l r' Hr)|]; reflexivity.
Qed.

Lemma addr_pres_ok s s' : addr_pres s s' -> NoDup (skis s) -> addr_ok s' = true -> addr_ok s = true.
Proof.
  intros [Hf Hs] Hnd Hok. unfold addr_ok in *. rewrite (distinct_addrs_ext (peers s) (peers s')); [exact Hok|].
  apply addr_list_eq; [exact Hs | exact Hnd | exact Hf].
Qed.

Lemma addr_pres_sym s s' : addr_pres s s' -> addr_pres s' s.
Proof.
  intros [Hf Hs]. split; [|symmetry; exact Hs]. intros q. specialize (Hf q).
  destruct (find_peer s q), (find_peer s' q); try tauto. symmetry. exact Hf.
Qed.

Lemma by_addr_In s d pq : peer_by_addr s d = Some pq -> In pq (peers s) /\ p_addr pq = Some d.
Proof. unfold peer_by_addr. intros H. apply find_some in H. destruct H as [Hin Ha]. apply eqb_optN_eq in Ha. auto. Qed.

Lemma by_addr_exists s d pe : In pe (peers s) -> p_addr pe = Some d -> peer_by_addr s d <> None.
Proof.
  intros Hin Ha H. unfold peer_by_addr in H. pose proof (find_none _ _ H pe Hin) as Hn. simpl in Hn.
  rewrite Ha, eqb_optN_refl in Hn. discriminate.
Qed.

(* the same device addresses are announced before and after *)
Lemma addr_pres_by_addr s s' d : addr_pres s s' -> NoDup (skis s) -> peer_by_addr s d <> None -> peer_by_addr s' d <> None.
Proof.
  intros Hap Hnd H. destruct (peer_by_addr s d) as [pq|] eqn:E; [|contradiction].
  destruct (by_addr_In _ _ _ E) as [Hin Ha].
  pose proof (find_peer_of_In s pq Hnd Hin) as Hf.
  destruct (addr_pres_find _ _ _ _ Hap Hf) as [pq' [Hf' Ha']].
  apply (by_addr_exists s' d pq'); [exact (find_peer_In _ _ _ Hf') | congruence].
Qed.

Definition model_subscription (s : st) (p : N) (m : disc_msg) : option N :=
  match find_peer s p with
  | Some pe =>
      match remote_feature pe (nm_addr None) with
      | Some (_, rf) => match rf_dev rf with Some d0 => Some d0 | None => reply_addr pe m end
      | None => None
      end
  | None => None
  end.

Lemma nm_subscription_model s p m :
  nm_subscription s p m (snd (step s (DiscoveryReply p m))) = model_subscription s p m.
Proof.
  unfold nm_subscription, model_subscription. cbn [step]. unfold with_source.
  destruct (find_peer s p) as [pe|]; [|reflexivity].
  destruct (remote_feature pe (nm_addr None)) as [[en rf]|]; [|reflexivity].
  destruct (add_entities _ m (dm_ents m)) as [pe1 created].
  destruct (remove_unlisted _ p _ _) as [s3 evs]. cbn [snd reply_accepted existsb]. rewrite N.eqb_refl. reflexivity.
Qed.

Definition nm_ref_map (d0 : N) : lfeat -> lfeat := at_key [0%N] 0 (add_client_ref true (nm_addr (Some d0))).

Lemma handle_device_added_lfeats s1 p pe pe1 l0 :
  let s2 := handle_device_added s1 p pe pe1 l0 in
  lfeats s2 =
  match (match (match remote_feature pe (nm_addr None) with Some (_, rf) => rf_dev rf | None => None end) with
         | Some d0 => Some d0 | None => p_addr pe1 end) with
  | Some d0 => match peer_by_addr s2 d0 with
               | Some _ => map (nm_ref_map d0) (lfeats s1)
               | None => lfeats s1
               end
  | None => lfeats s1
  end.
Proof.
  unfold handle_device_added.
  set (s1a := if reply_completes pe pe1 then _ else s1).
  assert (H1a : lfeats s1a = lfeats s1).
  { unfold s1a. destruct (reply_completes pe pe1); [|reflexivity]. destruct l0; reflexivity. }
  destruct (match remote_feature pe (nm_addr None) with Some (_, rf) => rf_dev rf | None => None end) as [d0|].
  - destruct (peer_by_addr s1a d0) eqn:E.
    + change (peer_by_addr (upd_lfeat s1a [0%N] 0 (add_client_ref true (nm_addr (Some d0)))) d0) with (peer_by_addr s1a d0).
      rewrite E, upd_lfeat_map, H1a. reflexivity.
    + rewrite E. exact H1a.
  - destruct (p_addr pe1) as [d1|]; [|exact H1a].
    destruct (peer_by_addr s1a d1) eqn:E.
    + change (peer_by_addr (upd_lfeat s1a [0%N] 0 (add_client_ref true (nm_addr (Some d1)))) d1) with (peer_by_addr s1a d1).
      rewrite E, upd_lfeat_map, H1a. reflexivity.
    + rewrite E. exact H1a.
Qed.

(* the three stages of an accepted discovery reply *)
Lemma reply_step_structure s p m pe : RegOK s -> find_peer s p = Some pe -> remote_feature pe (nm_addr None) <> None ->
  exists pe1 s2,
    p_ski pe1 = p /\ p_addr pe1 = reply_addr pe m /\
    addr_pres (set_peer s pe1) s2 /\
    lfeats s2 = match model_subscription s p m with
                | Some d0 => match peer_by_addr s2 d0 with
                             | Some _ => map (nm_ref_map d0) (lfeats s)
                             | None => lfeats s
                             end
                | None => lfeats s
                end /\
    addr_pres s2 (fst (step s (DiscoveryReply p m))) /\
    (exists pe2, find_peer s2 p = Some pe2 /\ p_addr pe2 = reply_addr pe m /\
       lfeats (fst (step s (DiscoveryReply p m))) =
       map (clean_f (keepE (p_addr pe2) (gone_of (snd (step s (DiscoveryReply p m)))))) (lfeats s2)).
Proof.
  intros Hok Ep Hsrc. unfold model_subscription. cbn [step]. unfold with_source. rewrite Ep.
  destruct (remote_feature pe (nm_addr None)) as [[en rf]|] eqn:Esrc; [|contradiction].
  set (pe0 := {| p_ski := p_ski pe; p_addr := match dm_dev m with Some d => Some d | None => p_addr pe end; p_ents := p_ents pe |}).
  pose proof (RegOK_set_peer_add' s p pe pe0 m (dm_ents m) Ep eq_refl eq_refl Hok) as Hok1.
  pose proof (add_entities_ski pe0 m (dm_ents m)) as Hski.
  pose proof (add_entities_addr pe0 m (dm_ents m)) as Haddr.
  destruct (add_entities pe0 m (dm_ents m)) as [pe1 created]. simpl fst in Hok1, Hski, Haddr.
  pose proof (find_peer_ski _ _ _ Ep) as Hp.
  assert (Hski1 : p_ski pe1 = p) by (rewrite Hski; simpl; exact Hp).
  assert (Ep1 : find_peer (set_peer s pe1) p = Some pe1).
  { rewrite find_peer_set_peer, Ep, Hski1, N.eqb_refl. reflexivity. }
  pose proof (handle_device_added_addr (set_peer s pe1) p pe pe1
                (existsb (fun de => eqb_eaddr (de_addr de) [0%N]) (dm_ents m)) Ep1 Hski1 Hok1) as Ha2.
  pose proof (handle_device_added_lfeats (set_peer s pe1) p pe pe1
                (existsb (fun de => eqb_eaddr (de_addr de) [0%N]) (dm_ents m))) as Hl2.
  cbv zeta in Hl2. rewrite Esrc in Hl2.
  set (s2 := handle_device_added (set_peer s pe1) p pe pe1 (existsb (fun de => eqb_eaddr (de_addr de) [0%N]) (dm_ents m))) in *.
  destruct (addr_pres_find _ _ _ _ Ha2 Ep1) as [pe2 [Ep2 Ha2']].
  destruct (remove_unlisted s2 p (map de_addr (dm_ents m)) (map re_addr (p_ents pe1))) as [s3 evs] eqn:Eu.
  pose proof (remove_unlisted_addr _ _ _ _ _ _ Eu) as Ha3.
  pose proof (remove_unlisted_lfeats _ _ _ _ _ _ pe2 Eu Ep2) as Hl3. cbn [fst snd].
  exists pe1, s2. split; [exact Hski1|]. split; [exact Haddr|]. split; [exact Ha2|].
  split.
  - rewrite Hl2. unfold reply_addr. rewrite Haddr. simpl p_addr. simpl lfeats. reflexivity.
  - split; [exact Ha3|]. exists pe2. split; [exact Ep2|]. split; [rewrite Ha2'; exact Haddr|].
    rewrite Hl3.
    change (gone_of (OEvent EvDevice ChAdd p None None None :: map (ev_entity ChAdd pe1) created ++ evs))
      with (gone_of (map (ev_entity ChAdd pe1) created ++ evs)).
    rewrite gone_of_app, gone_of_added. reflexivity.
Qed.

(* ================================================================ the client step lemma *)
Lemma set_data_keeps fn v : keeps_key (fun x => set_data x fn v) /\
  (forall x, lf_subs (set_data x fn v) = lf_subs x /\ lf_binds (set_data x fn v) = lf_binds x).
Proof. split; intros x; split; reflexivity. Qed.

Lemma at_key_same e f g : (forall x, lf_subs (g x) = lf_subs x /\ lf_binds (g x) = lf_binds x) ->
  forall x, lf_subs (at_key e f g x) = lf_subs x /\ lf_binds (at_key e f g x) = lf_binds x.
Proof. intros H x. unfold at_key. destruct (_ && _); [apply H | split; reflexivity]. Qed.

Lemma answers_one b : answers b [ORetB b] = true.
Proof. simpl. destruct b; reflexivity. Qed.

Lemma drop_conn_all s cr p : CInv s cr -> (forall x, In x cr -> N.eqb (c_ski x) p = false) -> drop_conn c_ski p cr = cr.
Proof. intros C H. unfold drop_conn. apply filter_all. intros x Hx. rewrite (H x Hx). reflexivity. Qed.

(* teardown of connection p: lfeats, the peers that stay, the account *)
Lemma CInv_disconnect s cr p s1 :
  lfeats s1 = lfeats (fst (disconnect s p)) ->
  (forall q, q <> p -> find_peer s1 q = find_peer s q) ->
  addr_ok s1 = true -> NoDup (skis s1) -> CInv s cr -> CInv s1 (drop_conn c_ski p cr).
Proof.
  intros Hl Hother Hok Hnd C. rewrite disconnect_lfeats in Hl.
  assert (Hown : forall x, In x cr -> negb (N.eqb (c_ski x) p) = true ->
            exists pe d, find_peer s1 (c_ski x) = Some pe /\ p_addr pe = Some d /\ fa_dev (c_addr x) = Some d).
  { intros x Hx Hq. destruct (N.eqb_spec (c_ski x) p) as [E|E]; [discriminate|].
    rewrite (Hother _ E). exact (ci_owner _ _ C x Hx). }
  unfold drop_conn. destruct (find_peer s p) as [pe|] eqn:Ep.
  - destruct (p_addr pe) as [d|] eqn:Ea.
    + apply (CInv_teardown s s1 cr (keep_dev d)); try assumption.
      intros x Hx. unfold keep_dev. rewrite (ref_of_conn s cr p pe d x C Ep Ea Hx). reflexivity.
    + apply (CInv_teardown_id s s1 cr); try assumption.
      * intros x Hx. rewrite (no_ref_of_addressless s cr p pe x C Ep Ea Hx). reflexivity.
      * intros x Hx. apply Hown; [exact Hx|]. rewrite (no_ref_of_addressless s cr p pe x C Ep Ea Hx). reflexivity.
  - apply (CInv_teardown_id s s1 cr); try assumption.
    + intros x Hx. rewrite (no_ref_of_unknown s cr p x C Ep Hx). reflexivity.
    + intros x Hx. apply Hown; [exact Hx|]. rewrite (no_ref_of_unknown s cr p x C Ep Hx). reflexivity.
Qed.

Lemma notify_step_lfeats s p ctr ack m :
  match find_peer s p with
  | Some pe => lfeats (fst (step s (DiscoveryNotify p ctr ack m))) =
               map (clean_f (keepE (p_addr pe) (gone_of (snd (step s (DiscoveryNotify p ctr ack m)))))) (lfeats s)
  | None => lfeats (fst (step s (DiscoveryNotify p ctr ack m))) = lfeats s /\
            gone_of (snd (step s (DiscoveryNotify p ctr ack m))) = []
  end.
Proof.
  cbn [step]. unfold with_source. destruct (find_peer s p) as [pe|] eqn:Ep; [|split; reflexivity].
  assert (Hid : forall g, g = [] -> lfeats s = map (clean_f (keepE (p_addr pe) g)) (lfeats s)).
  { intros g ->. rewrite map_clean_id; [reflexivity | intros x; apply keepE_nil]. }
  destruct (remote_feature pe (nm_addr None)); [|apply Hid; reflexivity].
  destruct (dm_ents m) as [|d0 dr] eqn:Edm.
  - cbn [fst snd]. apply Hid. unfold call_result. reflexivity.
  - rewrite <- Edm. destruct (notify_entries s p m (dm_ents m)) as [[s1 evs] err] eqn:En. cbn [fst snd].
    rewrite gone_of_app.
    replace (gone_of (call_result p ctr ack err (nm_addr (p_addr pe)) (nm_addr (Some LOCAL_DEV)))) with (@nil eaddr)
      by (unfold call_result; destruct err; [|destruct ack]; reflexivity).
    rewrite app_nil_r. exact (notify_entries_lfeats _ _ _ _ _ _ _ pe En Ep).
Qed.

Lemma find_peer_snoc s0 s1 pe q : peers s1 = peers s0 ++ [pe] -> p_ski pe <> q -> find_peer s1 q = find_peer s0 q.
Proof.
  unfold find_peer. intros -> H. rewrite find_app'. destruct (find _ (peers s0)); [reflexivity|].
  simpl. destruct (N.eqb_spec (p_ski pe) q); [contradiction | reflexivity].
Qed.

Lemma client_step s m o : Inv s m -> CInv s (cref m) -> addr_event s o = false -> addr_ok (fst (step s o)) = true ->
  CInv (fst (step s o)) (cref (fst (mon m o (snd (step s o))))) /\ client_part m o (snd (step s o)) = [].
Proof.
  intros I C Hev Hok1. pose proof (inv_w _ _ I) as Hw. pose proof (si_ok _ (inv_s _ _ I)) as Hok.
  pose proof (peers_ok_step s o Hok (ci_peers _ _ C)) as Hnd1.
  destruct o; cbn [mon client_part].
  - (* AddLocalEntity *)
    split; [|reflexivity]. cbn [fst cref follow set_accounts].
    apply (CInv_same s); try assumption; cbn [step] in *; destruct (existsb _ (lents s)); try reflexivity; apply addr_pres_peers; reflexivity.
  - (* AddLocalFeature *)
    split; [|reflexivity]. cbn [fst cref follow set_accounts]. cbn [step] in *.
    destruct (find _ (lents s)) as [le|]; [|apply (CInv_same s); try assumption; [reflexivity | apply addr_pres_refl]].
    cbn [fst] in *. destruct (existsb _ (lfeats s)).
    + apply (CInv_same s); try assumption; [reflexivity | apply addr_pres_peers; reflexivity].
    + eapply (CInv_append s); try eassumption; try reflexivity. apply addr_pres_peers. reflexivity.
  - (* AddFunction *)
    split; [|reflexivity]. cbn [fst cref follow set_accounts]. cbn [step fst] in *.
    eapply (CInv_map_same s); try eassumption.
    + apply upd_lfeat_map.
    + apply keeps_key_at. intros x. destruct (eqb_role (lf_role x) RClient); [split; reflexivity|].
      destruct (assoc_N fn (lf_ops x)); split; reflexivity.
    + apply at_key_same. intros x. destruct (eqb_role (lf_role x) RClient); [split; reflexivity|].
      destruct (assoc_N fn (lf_ops x)); split; reflexivity.
    + apply addr_pres_peers. reflexivity.
  - (* Connect *)
    split; [|reflexivity]. cbn [fst cref set_accounts].
    pose proof (disconnect_spec s p Hok) as Hd. cbn [step] in *.
    destruct (find_peer s p) as [pe0|] eqn:Ep.
    + destruct (disconnect s p) as [s0 evs] eqn:Ed. cbn [fst] in *.
      destruct Hd as [_ [_ [Hnone [Hother _]]]].
      apply (CInv_disconnect s (cref m) p); try assumption.
      * rewrite Ed. reflexivity.
      * intros q Hq. rewrite <- (Hother q Hq). eapply find_peer_snoc; [simpl; reflexivity | simpl; congruence].
    + cbn [fst] in *. apply (CInv_disconnect s (cref m) p); try assumption.
      * unfold disconnect. rewrite Ep. reflexivity.
      * intros q Hq. eapply find_peer_snoc; [simpl; reflexivity | simpl; congruence].
  - (* DiscoveryReply *)
    split; [|reflexivity]. cbn [fst cref set_accounts]. rewrite Hw, nm_subscription_model, gone_ents_eq.
    destruct (reply_step_peers s p m0 Hok) as [[Hst Hout]|[pe [pe1' [Ep [Hsrc _]]]]].
    { (* the reply is dropped *)
      assert (Hms : model_subscription s p m0 = None).
      { unfold model_subscription. cbn [step] in Hout. unfold with_source in Hout.
        destruct (find_peer s p) as [pe|]; [|reflexivity].
        destruct (remote_feature pe (nm_addr None)) as [[en rf]|]; [|reflexivity].
        destruct (add_entities _ m0 (dm_ents m0)) as [pe1 created].
        destruct (remove_unlisted _ p _ _) as [s3 evs]. discriminate. }
      rewrite Hms, Hout, Hst. apply (CInv_teardown_id s s (cref m)); try assumption; try reflexivity.
      - intros x _. unfold ref_of_entity. simpl. rewrite andb_false_r. reflexivity.
      - apply (ci_owner _ _ C).
      - rewrite <- Hst. exact Hok1.
      - apply (ci_peers _ _ C). }
    destruct (reply_step_structure s p m0 pe Hok Ep Hsrc) as [pe1 [s2 [Hski1 [Haddr1 [Ha2 [Hl2 [Ha3 [pe2 [Ep2 [Haddr2 Hl3]]]]]]]]]].
    set (s' := fst (step s (DiscoveryReply p m0))) in *.
    assert (Hnd2 : NoDup (skis s2)) by (destruct Ha3 as [_ Hs3]; rewrite <- Hs3; exact Hnd1).
    assert (Hok2 : addr_ok s2 = true) by (apply (addr_pres_ok s2 s' Ha3 Hnd2 Hok1)).
    (* the address of connection p after the reply is the one it had, if it had one *)
    assert (Hkeep : forall d, p_addr pe = Some d -> reply_addr pe m0 = Some d).
    { intros d Hd. cbn [addr_event] in Hev. rewrite Ep, Hd in Hev. unfold reply_addr. rewrite Hd.
      destruct (remote_feature pe (nm_addr None)); [|contradiction].
      destruct (dm_dev m0) as [d'|]; [|reflexivity].
      apply negb_false_iff, N.eqb_eq in Hev. subst. reflexivity. }
    assert (Hown2 : forall x, In x (cref m) ->
              exists pe' d, find_peer s2 (c_ski x) = Some pe' /\ p_addr pe' = Some d /\ fa_dev (c_addr x) = Some d).
    { intros x Hx. destruct (ci_owner _ _ C x Hx) as [pe' [d [Hf [Hd Hx']]]].
      assert (H1 : exists pe'', find_peer (set_peer s pe1) (c_ski x) = Some pe'' /\ p_addr pe'' = Some d).
      { rewrite find_peer_set_peer, Hf, Hski1. destruct (N.eqb_spec (c_ski x) p) as [E|E]; [|eauto].
        exists pe1. split; [reflexivity|]. rewrite Haddr1. apply Hkeep. rewrite E, Ep in Hf. inversion Hf; subst. exact Hd. }
      destruct H1 as [pe'' [Hf'' Hd'']]. destruct (addr_pres_find _ _ _ _ Ha2 Hf'') as [pe3 [Hf3 Hd3]].
      exists pe3, d. split; [exact Hf3|]. split; [congruence | exact Hx']. }
    assert (Hstage1 : CInv s2 (match model_subscription s p m0 with
                               | Some d0 => match peer_by_addr s' d0 with
                                            | Some pq => cref m ++ [ {| c_ent := [0%N]; c_feat := 0; c_sub := true; c_ski := p_ski pq;
                                                                        c_addr := nm_addr (Some d0) |} ]
                                            | None => cref m
                                            end
                               | None => cref m
                               end)).
    { destruct (model_subscription s p m0) as [d0|]; [|apply (CInv_owners s s2 (cref m)); assumption].
      destruct (peer_by_addr s' d0) as [pq|] eqn:Eq'.
      - destruct (peer_by_addr s2 d0) as [pq2|] eqn:Eq2.
        2:{ exfalso. apply (addr_pres_by_addr s' s2 d0 (addr_pres_sym _ _ Ha3) Hnd1); [rewrite Eq'; discriminate | exact Eq2]. }
        destruct (by_addr_In _ _ _ Eq') as [Hin Hda].
        pose proof (find_peer_of_In s' pq Hnd1 Hin) as Hfq.
        destruct (addr_pres_find _ _ _ _ (addr_pres_sym _ _ Ha3) Hfq) as [pq3 [Hf3 Hd3]].
        apply (CInv_add_ref s s2 (cref m) [0%N] 0%N true (nm_addr (Some d0)) (p_ski pq)); try assumption.
        + apply (ci_nm _ _ C).
        + exists pq3, d0. split; [exact Hf3|]. split; [congruence | reflexivity].
      - destruct (peer_by_addr s2 d0) as [pq2|] eqn:Eq2.
        { exfalso. apply (addr_pres_by_addr s2 s' d0 Ha3 Hnd2); [rewrite Eq2; discriminate | exact Eq']. }
        apply (CInv_owners s s2 (cref m)); assumption. }
    apply (CInv_entity_teardown s2 s' _ p); try assumption. rewrite Ep2. exact Hl3.
  - (* DiscoveryNotify *)
    split; [|reflexivity]. cbn [fst cref set_accounts]. rewrite gone_ents_eq.
    apply (CInv_entity_teardown s _ (cref m) p); try assumption; [|apply notify_step_addr].
    apply notify_step_lfeats.
  - (* SubCall *)
    split; [|reflexivity]. cbn [fst cref set_accounts].
    destruct (registry_ops_same s (SubCall p ctr ack c) eq_refl) as [Hp Hl].
    apply (CInv_same s); try assumption. apply addr_pres_peers. exact Hp.
  - (* SubDelete *)
    split; [|reflexivity]. cbn [fst cref set_accounts].
    destruct (registry_ops_same s (SubDelete p ctr ack c) eq_refl) as [Hp Hl].
    apply (CInv_same s); try assumption. apply addr_pres_peers. exact Hp.
  - (* BindCall *)
    split; [|reflexivity]. cbn [fst cref set_accounts].
    destruct (registry_ops_same s (BindCall p ctr ack c) eq_refl) as [Hp Hl].
    apply (CInv_same s); try assumption. apply addr_pres_peers. exact Hp.
  - (* BindDelete *)
    split; [|reflexivity]. cbn [fst cref set_accounts].
    destruct (registry_ops_same s (BindDelete p ctr ack c) eq_refl) as [Hp Hl].
    apply (CInv_same s); try assumption. apply addr_pres_peers. exact Hp.
  - (* SetData *)
    split; [|reflexivity]. cbn [fst cref follow set_accounts]. cbn [step] in *.
    destruct (find_lfeat s e (Some f)) as [lf|]; [|apply (CInv_same s); try assumption; [reflexivity | apply addr_pres_refl]].
    destruct (fn_registered (lf_type lf) fn); [|apply (CInv_same s); try assumption; [reflexivity | apply addr_pres_refl]].
    cbn [fst] in *. destruct (set_data_keeps fn v) as [K1 K2].
    apply (CInv_map_same s _ (at_key e f (fun x => set_data x fn v))); try assumption;
      [reflexivity | apply keeps_key_at; exact K1 | apply at_key_same; exact K2 | apply addr_pres_peers; reflexivity].
  - (* Write *)
    split; [|reflexivity].
    match goal with |- context [let '(_, mout) := ?X in _] => destruct X as [sx mout] end.
    cbn [fst cref follow set_accounts]. cbn [step] in *. unfold with_source in *.
    assert (Hs : forall s', lfeats s' = lfeats s -> peers s' = peers s -> addr_ok s' = true -> CInv s' (cref m)).
    { intros s' Hl Hp Ho. apply (CInv_same s); try assumption. apply addr_pres_peers. exact Hp. }
    destruct (find_peer s p) as [pe|]; [|apply Hs; [reflexivity | reflexivity | assumption]].
    destruct (remote_feature pe src) as [[en rf]|]; [|apply Hs; [reflexivity | reflexivity | assumption]].
    destruct (local_feature s dst) as [lf|]; [|apply Hs; [reflexivity | reflexivity | assumption]].
    destruct (assoc_N fn (lf_ops lf)) as [[rd [|]]|]; try solve [apply Hs; [reflexivity | reflexivity | assumption]].
    destruct (negb (has_binding s lf (rf_addr en rf))); [apply Hs; [reflexivity | reflexivity | assumption]|].
    destruct (negb (fn_registered (lf_type lf) fn)); [apply Hs; [reflexivity | reflexivity | assumption]|].
    cbn [fst] in *. destruct (set_data_keeps fn v) as [K1 K2].
    apply (CInv_map_same s _ (at_key (lf_ent lf) (lf_id lf) (fun x => set_data x fn v))); try assumption;
      [reflexivity | apply keeps_key_at; exact K1 | apply at_key_same; exact K2 | apply addr_pres_peers; reflexivity].
  - (* Disconnect *)
    split; [|reflexivity]. cbn [fst cref set_accounts].
    pose proof (disconnect_spec s p Hok) as Hd. cbn [step] in *.
    destruct (disconnect s p) as [s0 evs] eqn:Ed. cbn [fst] in *.
    destruct Hd as [_ [_ [_ [Hother _]]]].
    apply (CInv_disconnect s (cref m) p); try assumption. rewrite Ed. reflexivity.
  - (* ListSubs *) split; [|reflexivity]. apply (CInv_same s); try assumption; [reflexivity | apply addr_pres_refl].
  - (* ListBinds *) split; [|reflexivity]. apply (CInv_same s); try assumption; [reflexivity | apply addr_pres_refl].
  - (* LocalSubscribe *)
    split; [|reflexivity]. cbn [fst cref set_accounts]. cbn [step] in *. unfold local_request in *.
    assert (Hs : CInv s (cref m ++ map (fun q => {| c_ent := e; c_feat := f; c_sub := true; c_ski := q; c_addr := r |}) [])).
    { simpl. rewrite app_nil_r. exact C. }
    destruct (find_lfeat s e (Some f)) as [lf|] eqn:Elf; [|exact Hs].
    destruct (fa_dev r) as [d|] eqn:Edev; [|exact Hs].
    destruct (peer_by_addr s d) as [pe|] eqn:Ea; [|exact Hs].
    destruct (eqb_role (lf_role lf) RServer); [exact Hs|].
    cbn [fst snd calls_to flat_map app map] in *.
    unfold peer_by_addr in Ea. apply find_some in Ea. destruct Ea as [Hin Hadd]. apply eqb_optN_eq in Hadd.
    apply (CInv_add_ref s _ (cref m) e f true r (p_ski pe)); try assumption.
    + reflexivity.
    + rewrite Elf. discriminate.
    + exists pe, d. split; [exact (find_peer_of_In s pe (ci_peers _ _ C) Hin) | auto].
    + apply (ci_owner _ _ C).
  - (* LocalBind *)
    split; [|reflexivity]. cbn [fst cref set_accounts]. cbn [step] in *. unfold local_request in *.
    assert (Hs : CInv s (cref m ++ map (fun q => {| c_ent := e; c_feat := f; c_sub := false; c_ski := q; c_addr := r |}) [])).
    { simpl. rewrite app_nil_r. exact C. }
    destruct (find_lfeat s e (Some f)) as [lf|] eqn:Elf; [|exact Hs].
    destruct (fa_dev r) as [d|] eqn:Edev; [|exact Hs].
    destruct (peer_by_addr s d) as [pe|] eqn:Ea; [|exact Hs].
    destruct (eqb_role (lf_role lf) RServer); [exact Hs|].
    cbn [fst snd calls_to flat_map app map] in *.
    unfold peer_by_addr in Ea. apply find_some in Ea. destruct Ea as [Hin Hadd]. apply eqb_optN_eq in Hadd.
    apply (CInv_add_ref s _ (cref m) e f false r (p_ski pe)); try assumption.
    + reflexivity.
    + rewrite Elf. discriminate.
    + exists pe, d. split; [exact (find_peer_of_In s pe (ci_peers _ _ C) Hin) | auto].
    + apply (ci_owner _ _ C).
  - (* HasLocalSub *)
    assert (Hst : fst (step s (HasLocalSub e f r)) = s) by (cbn [step]; destruct (find_lfeat s e (Some f)); reflexivity).
    rewrite Hst. split; [exact C|].
    cbn [step snd]. destruct (find_lfeat s e (Some f)) as [lf|] eqn:Elf; [|reflexivity]. cbn [snd].
    destruct (ci_refs _ _ C e f lf Elf) as [A _]. rewrite A, has_ref_refs, answers_one. reflexivity.
  - (* HasLocalBind *)
    assert (Hst : fst (step s (HasLocalBind e f r)) = s) by (cbn [step]; destruct (find_lfeat s e (Some f)); reflexivity).
    rewrite Hst. split; [exact C|].
    cbn [step snd]. destruct (find_lfeat s e (Some f)) as [lf|] eqn:Elf; [|reflexivity]. cbn [snd].
    destruct (ci_refs _ _ C e f lf Elf) as [_ B]. rewrite B, has_ref_refs, answers_one. reflexivity.
  - (* ReadData *)
    assert (Hst : fst (step s (ReadData e f fn)) = s)
      by (cbn [step]; destruct (find_lfeat s e (Some f)) as [lf|]; [destruct (assoc_N fn (lf_data lf))|]; reflexivity).
    rewrite Hst. split; [exact C | reflexivity].
  - (* Resolve *) split; [|reflexivity]. apply (CInv_same s); try assumption; [reflexivity | apply addr_pres_refl].
  - (* LocalUnsubscribe *)
    split; [|reflexivity]. cbn [fst cref set_accounts]. cbn [step] in *. unfold local_unrequest in *.
    assert (Hs : CInv s (drop_ref true e f r [] (cref m))) by (rewrite drop_ref_nil; exact C).
    destruct (find_lfeat s e (Some f)) as [lf|] eqn:Elf; [|exact Hs].
    destruct (fa_dev r) as [d|] eqn:Edev; [|exact Hs].
    destruct (peer_by_addr s d) as [pe|] eqn:Ea; [|exact Hs].
    cbn [fst snd calls_to flat_map app map] in *.
    unfold peer_by_addr in Ea. apply find_some in Ea. destruct Ea as [Hin Hadd]. apply eqb_optN_eq in Hadd.
    pose proof (find_peer_of_In s pe (ci_peers _ _ C) Hin) as Ep.
    apply (CInv_del_ref s _ (cref m) e f true r (p_ski pe)); try assumption.
    + reflexivity.
    + intros x Hx Er. apply eqb_faddr_eq in Er.
      pose proof (ref_of_conn s (cref m) (p_ski pe) pe d x C Ep Hadd Hx) as H. rewrite Er, Edev, eqb_optN_refl in H.
      symmetry in H. apply N.eqb_eq in H. exact H.
    + apply (ci_owner _ _ C).
  - (* LocalUnbind *)
    split; [|reflexivity]. cbn [fst cref set_accounts]. cbn [step] in *. unfold local_unrequest in *.
    assert (Hs : CInv s (drop_ref false e f r [] (cref m))) by (rewrite drop_ref_nil; exact C).
    destruct (find_lfeat s e (Some f)) as [lf|] eqn:Elf; [|exact Hs].
    destruct (fa_dev r) as [d|] eqn:Edev; [|exact Hs].
    destruct (peer_by_addr s d) as [pe|] eqn:Ea; [|exact Hs].
    cbn [fst snd calls_to flat_map app map] in *.
    unfold peer_by_addr in Ea. apply find_some in Ea. destruct Ea as [Hin Hadd]. apply eqb_optN_eq in Hadd.
    pose proof (find_peer_of_In s pe (ci_peers _ _ C) Hin) as Ep.
    apply (CInv_del_ref s _ (cref m) e f false r (p_ski pe)); try assumption.
    + reflexivity.
    + intros x Hx Er. apply eqb_faddr_eq in Er.
      pose proof (ref_of_conn s (cref m) (p_ski pe) pe d x C Ep Hadd Hx) as H. rewrite Er, Edev, eqb_optN_refl in H.
      symmetry in H. apply N.eqb_eq in H. exact H.
    + apply (ci_owner _ _ C).
Qed.
