(* C04 — remote writes of the update engine model (Model/Update.v with
   remoteWrite = true) against the write specification Spec/WriteSpec.v: a write
   that is accepted yields exactly [spec_write], it is accepted iff every element it
   addresses is changeable and it names no unknown identifier, and [spec_write]
   keeps protected and unaddressed elements and all flags. *)
From Verif Require Import Base.Prelude Model.Schema Model.Update Model.FunctionStore Spec.UpdateSpec Spec.WriteSpec
  Proofs.UpdateBasics Proofs.UpdateRefine Proofs.UpdateStep Proofs.UpdateRun.
From Coq Require Import Sorting.Sorted Sorting.Permutation.

Lemma fld_set_fld (z : item) i v j :
  fld (set_fld z i v) j = if Nat.eqb i j && Nat.ltb i (length z) then v else fld z j.
Proof.
  revert i j. induction z as [|a z IH]; intros i j.
  - cbn. destruct i; cbn; rewrite ?andb_false_r; reflexivity.
  - destruct i as [|i], j as [|j]; cbn [set_fld]; try reflexivity.
    + rewrite !fld_cons_S. change (Nat.eqb (S i) (S j)) with (Nat.eqb i j).
      change (Nat.ltb (S i) (length (a :: z))) with (Nat.ltb i (length z)). apply IH.
Qed.

Lemma existsb_nat_false w l : existsb (Nat.eqb w) l = false -> ~ In w l.
Proof.
  intros H Hin. assert (E : existsb (Nat.eqb w) l = true) by (apply existsb_exists; exists w; split; [exact Hin | apply Nat.eqb_refl]).
  congruence.
Qed.

Section W.
  Variable sch : schema.
  Hypothesis Hwf : wf_schema sch = true.

  Notation nf := (s_nf sch).
  Notation lwf := (lwf sch).
  Notation kp := (kp sch).
  Notation ch := (changeable sch).
  Notation kf := (keep_flag sch).

  (* ---------------------------------------------------------------- the flag field *)

  Lemma wf_wc : s_wc sch = [] \/
    exists w, s_wc sch = [w] /\ kind_of sch w = KBool /\ ~ In w (s_keys sch) /\ (w < nf)%nat.
  Proof.
    pose proof Hwf as W. unfold wf_schema in W. rewrite !andb_true_iff in W.
    destruct W as [[[[[[[W1 W2] W3] W4] W5] W6] W7] W8].
    destruct (s_wc sch) as [|w [|? ?]]; [left; reflexivity | right | discriminate].
    exists w. rewrite !andb_true_iff in W5. destruct W5 as [[Hlt Hk] Hn]. split; [reflexivity|]. split; [|split].
    - destruct (kind_of sch w); try discriminate; reflexivity.
    - apply existsb_nat_false. apply negb_true_iff. exact Hn.
    - apply Nat.ltb_lt. exact Hlt.
  Qed.

  Lemma wa_ch y : write_allowed sch y = ch y.
  Proof.
    unfold write_allowed, changeable. destruct wf_wc as [E|[w [E [Hk _]]]]; rewrite E; [reflexivity|].
    destruct (fld y w); [|reflexivity]. rewrite Hk. reflexivity.
  Qed.

  Lemma restore_kf y z : restore_wc sch true y z = kf y z.
  Proof. reflexivity. Qed.

  Lemma kf_length y z : length (kf y z) = length z.
  Proof.
    unfold keep_flag. destruct wf_wc as [E|[w [E _]]]; rewrite E; [reflexivity|]. cbn. apply set_fld_length.
  Qed.

  Lemma kf_fld y z i : length z = nf ->
    fld (kf y z) i = if existsb (Nat.eqb i) (s_wc sch) then fld y i else fld z i.
  Proof.
    intros Hz. unfold keep_flag. destruct wf_wc as [E|[w [E [_ [_ Hlt]]]]]; rewrite E; [reflexivity|].
    cbn [fold_left existsb]. rewrite fld_set_fld, Hz. apply Nat.ltb_lt in Hlt. rewrite Hlt, andb_true_r, orb_false_r.
    rewrite Nat.eqb_sym. destruct (Nat.eqb i w) eqn:Ei; [apply Nat.eqb_eq in Ei; subst; reflexivity | reflexivity].
  Qed.

  Lemma kf_key_fld y z i : length z = nf -> In i (s_keys sch) -> fld (kf y z) i = fld z i.
  Proof.
    intros Hz Hi. rewrite kf_fld by exact Hz. destruct wf_wc as [E|[w [E [_ [Hnk _]]]]]; rewrite E; [reflexivity|].
    cbn [existsb]. rewrite orb_false_r. destruct (Nat.eqb i w) eqn:Ei; [|reflexivity]. apply Nat.eqb_eq in Ei. subst. contradiction.
  Qed.

  Lemma ch_kf y z : length z = nf -> ch (kf y z) = ch y.
  Proof.
    intros Hz. unfold changeable. destruct wf_wc as [E|[w [E _]]]; rewrite E; [reflexivity|].
    rewrite kf_fld by exact Hz. rewrite E. cbn [existsb]. rewrite Nat.eqb_refl. reflexivity.
  Qed.

  Lemma eqb_flag_kf y z : length z = nf -> eqb_flag sch y (kf y z) = true.
  Proof.
    intros Hz. unfold eqb_flag. apply forallb_forall. intros w Hw. rewrite kf_fld by exact Hz.
    assert (E : existsb (Nat.eqb w) (s_wc sch) = true) by (apply existsb_exists; exists w; split; [exact Hw | apply Nat.eqb_refl]).
    rewrite E. destruct (fld y w); [apply N.eqb_refl | reflexivity].
  Qed.

  Lemma eqb_flag_refl y : eqb_flag sch y y = true.
  Proof. unfold eqb_flag. apply forallb_forall. intros w _. destruct (fld y w); [apply N.eqb_refl | reflexivity]. Qed.

  Lemma eqb_flag_trans a b c : eqb_flag sch a b = true -> eqb_flag sch b c = true -> eqb_flag sch a c = true.
  Proof.
    unfold eqb_flag. rewrite !forallb_forall. intros H1 H2 w Hw. specialize (H1 w Hw). specialize (H2 w Hw).
    destruct (fld a w), (fld b w), (fld c w); try discriminate; try reflexivity.
    apply N.eqb_eq in H1, H2. subst. apply N.eqb_refl.
  Qed.

  (* kf on top of a key-preserving function is key-preserving *)
  Lemma kp_kf g : kp g -> kp (fun y => kf y (g y)).
  Proof.
    intros Hg y Hy. destruct (Hg y Hy) as [Hl Hk]. split; [rewrite kf_length; exact Hl|].
    intros i Hi. rewrite (kf_key_fld y (g y) i Hl Hi). apply Hk. exact Hi.
  Qed.

  (* updateFields(remoteWrite = true, source = y, &destination = x) *)
  Lemma update_fields_from_remote i y x :
    length y = length x ->
    forall j, fld (update_fields_from sch true i y x) j =
      if negb (is_some (fld x j)) || existsb (Nat.eqb (i + j)) (s_wc sch) then fld y j else fld x j.
  Proof.
    revert i y. induction x as [|d dr IH]; intros i y Hl j.
    - destruct y; [|discriminate]. cbn [update_fields_from]. rewrite !fld_nil. cbn [is_some negb orb]. reflexivity.
    - destruct y as [|s sr]; [discriminate|]. cbn [update_fields_from hd tl]. destruct j as [|j].
      + rewrite Nat.add_0_r. unfold fld. cbn [nth]. reflexivity.
      + rewrite !fld_cons_S. rewrite (IH (S i) sr) by (cbn in Hl; lia). replace (S i + j)%nat with (i + S j)%nat by lia. reflexivity.
  Qed.

  Lemma update_fields_remote y x : length y = nf -> length x = nf ->
    update_fields sch true y x = kf y (overlay x y).
  Proof.
    intros Hy Hx. apply item_ext.
    - unfold update_fields. rewrite update_fields_from_length, kf_length, overlay_length. congruence.
    - intros j. unfold update_fields. rewrite (update_fields_from_remote 0 y x) by congruence. cbn [Nat.add].
      rewrite kf_fld by (rewrite overlay_length; exact Hy). rewrite fld_overlay by congruence.
      destruct (existsb (Nat.eqb j) (s_wc sch)); [rewrite orb_true_r; reflexivity|]. rewrite orb_false_r.
      destruct (fld x j); reflexivity.
  Qed.

  (* ---------------------------------------------------------------- normal forms of the remote engine *)

  Lemma forallb_eq {A} (f g : A -> bool) l : (forall x, In x l -> f x = g x) -> forallb f l = forallb g l.
  Proof.
    induction l as [|x l IH]; intros H; [reflexivity|]. cbn. rewrite (H x (or_introl eq_refl)), IH; [reflexivity|].
    intros y Hy. apply H. right. exact Hy.
  Qed.

  Lemma apply_data_remote x y : apply_data sch true x y = kf y (overlay x y).
  Proof. unfold apply_data. rewrite copy_nonnil_overlay. reflexivity. Qed.

  Lemma copy_to_selected_remote sel x l d ok :
    copy_to_selected sch true sel x l = Ok (d, ok) ->
    ok = forallb (fun y => negb (smatch sch sel y) || ch y) l /\
    d = map (fun y => if smatch sch sel y && ch y then kf y (overlay x y) else y) l.
  Proof.
    revert d ok. induction l as [|y r IH]; intros d ok H.
    - cbn in H. inversion H. split; reflexivity.
    - cbn [copy_to_selected] in H. destruct (selector_match sch sel y) as [b|] eqn:Em; [|discriminate].
      destruct (copy_to_selected sch true sel x r) as [[r' ok']|] eqn:Er; [|discriminate].
      destruct (IH r' ok' eq_refl) as [-> ->]. apply (selector_match_ok sch) in Em. subst b.
      rewrite andb_true_r, wa_ch, apply_data_remote in H. cbn [forallb map].
      destruct (smatch sch sel y); cbn [negb orb andb] in *; [destruct (ch y); cbn [negb] in H|]; inversion H; split; reflexivity.
  Qed.

  Lemma copy_to_all_remote x l :
    copy_to_all sch true x l = (map (fun y => if ch y then kf y (overlay x y) else y) l, forallb ch l).
  Proof.
    induction l as [|y r IH]; [reflexivity|]. cbn [copy_to_all]. rewrite IH, andb_true_r, wa_ch, apply_data_remote. cbn [map forallb].
    destruct (ch y); reflexivity.
  Qed.

  Definition ad (f : flt) (y : item) : bool := match f_sel f with Some sel => smatch sch sel y | None => true end.

  Definition del_rm (f : flt) (l : list item) : list item :=
    match f_sel f, f_elems f with
    | Some sel, Some el => map (fun y => if smatch sch sel y then kf y (remove_elems sch el y) else y) l
    | Some sel, None => filter (fun y => negb (smatch sch sel y)) l
    | None, Some el => map (fun y => kf y (remove_elems sch el y)) l
    | None, None => l
    end.

  Lemma delete_filtered_remote f l d ok :
    delete_filtered sch true f l = Ok (d, ok) ->
    ok = forallb (fun y => negb (ad f y) || ch y) l /\ (ok = true -> d = del_rm f l).
  Proof.
    revert d ok. induction l as [|y r IH]; intros d ok H.
    - cbn in H. inversion H. split; [reflexivity|]. intros _. unfold del_rm. destruct (f_sel f), (f_elems f); reflexivity.
    - cbn [delete_filtered] in H.
      destruct (match f_sel f with Some sel => selector_match sch sel y | None => Ok true end) as [b|] eqn:Em; [|discriminate].
      destruct (delete_filtered sch true f r) as [[r' ok']|] eqn:Er; [|discriminate].
      destruct (IH r' ok' eq_refl) as [Hok Hd].
      assert (Hb : b = ad f y).
      { unfold ad. destruct (f_sel f) as [sel|]; [apply (selector_match_ok sch) in Em; exact Em | inversion Em; reflexivity]. }
      subst b. rewrite andb_true_r, wa_ch in H. cbn [forallb].
      destruct (ad f y && negb (ch y)) eqn:Ea.
      + inversion H. subst. apply andb_true_iff in Ea. destruct Ea as [Ea Ec]. apply negb_true_iff in Ec. rewrite Ea, Ec. cbn.
        split; [reflexivity | discriminate].
      + assert (Hy : negb (ad f y) || ch y = true).
        { destruct (ad f y), (ch y); try reflexivity; discriminate. }
        rewrite Hy. cbn [andb]. unfold del_rm in *. unfold ad in *.
        destruct (f_sel f) as [sel|], (f_elems f) as [el|]; inversion H; subst; (split; [reflexivity|]); intros Ht; rewrite (Hd Ht); cbn [map filter];
          try reflexivity; destruct (smatch sch sel y); reflexivity.
  Qed.

  Lemma merge_remote ex new :
    merge sch true ex new =
      (map (merge_item sch true new) ex,
       forallb (fun y => negb (is_some (find_last_hash sch (hash_key sch y) new)) || ch y) ex &&
       match filter (fun x => negb (mem_key (hash_key sch x) (map (hash_key sch) ex))) new with [] => true | _ => false end).
  Proof.
    unfold merge. f_equal. f_equal. apply forallb_eq. intros y _. rewrite wa_ch, andb_true_r.
    destruct (is_some _), (ch y); reflexivity.
  Qed.

  (* ---------------------------------------------------------------- the specification's item functions *)

  Lemma key_from_same keys a b k :
    key_from keys a = Some k -> key_from keys b = Some k -> forall j, In j keys -> fld a j = fld b j.
  Proof.
    revert a b k. induction keys as [|q r IH]; intros a b k Ha Hb j Hj; [contradiction|]. cbn in Ha, Hb.
    destruct (fld a q) as [va|] eqn:Ea; [|discriminate]. destruct (key_from r a) as [ka|] eqn:Eka; [|discriminate].
    destruct (fld b q) as [vb|] eqn:Eb; [|discriminate]. destruct (key_from r b) as [kb|] eqn:Ekb; [|discriminate].
    inversion Ha. inversion Hb. subst. inversion H1. subst. destruct Hj as [->|Hj]; [congruence|].
    eapply IH; [exact Eka | exact Ekb | exact Hj].
  Qed.

  Definition gm (new : list item) (y : item) : item :=
    match key_of sch y with
    | Some k => match lfind sch k new with Some x => kf y (overlay x y) | None => y end
    | None => y
    end.

  Lemma kp_id : kp (fun y => y).
  Proof. intros y Hy. split; [exact Hy | reflexivity]. Qed.

  Lemma kp_cond (P : item -> bool) (h S : item -> item) :
    kp S -> (forall y, P y = true -> h y = S y) -> kp (fun y => if P y then kf y (h y) else y).
  Proof.
    intros HS Hh y Hy. destruct (P y) eqn:E; [|split; [exact Hy | reflexivity]].
    rewrite (Hh y E). apply (kp_kf S HS y Hy).
  Qed.

  Lemma kp_gm new : lwf new -> kp (gm new).
  Proof.
    intros Hn y Hy. unfold gm. destruct (key_of sch y) as [k|] eqn:Ek; [|split; [exact Hy | reflexivity]].
    destruct (lfind sch k new) as [x|] eqn:Ex; [|split; [exact Hy | reflexivity]].
    pose proof (mgk_props sch new k y Hn Hy Ek) as [Hl Hk]. unfold mgk in Hl, Hk. rewrite Ex in Hl, Hk.
    split; [rewrite kf_length; exact Hl|]. intros i Hi. rewrite (kf_key_fld y _ i Hl Hi).
    apply (key_from_same (s_keys sch) (overlay x y) y k Hk Ek i Hi).
  Qed.

  Lemma map_kp_wf g l : kp g -> lwf l -> ordered sch l = true -> lwf (map g l) /\ ordered sch (map g l) = true.
  Proof.
    intros Hg Hl Ho. split; [apply (lwf_map_kp sch); assumption|].
    rewrite (ordered_map_kp sch g l Hg); [exact Ho | apply Hl].
  Qed.

  Lemma filter_wf p l : lwf l -> ordered sch l = true -> lwf (filter p l) /\ ordered sch (filter p l) = true.
  Proof. intros Hl Ho. split; [apply (lwf_filter sch); exact Hl | apply (ordered_filter sch); exact Ho]. Qed.

  (* what the parts of wf_update give for the filters *)
  Definition wf_fd (fd : option flt) : Prop := forall f, filter_data fd = Some f -> wf_flt sch f = true.

  Lemma elems_ok_of f el : wf_flt sch f = true -> f_elems f = Some el -> elems_ok sch el = true.
  Proof. unfold wf_flt. intros H E. rewrite E in H. apply andb_true_iff in H. apply H. Qed.

  (* the item functions of the delete phase *)
  Definition gdel (f : flt) (y : item) : item :=
    match f_elems f with
    | Some el => if ad f y then kf y (clear el y) else y
    | None => y
    end.

  Lemma kp_gdel f : wf_flt sch f = true -> kp (gdel f).
  Proof.
    intros Hf. unfold gdel. destruct (f_elems f) as [el|] eqn:Ee; [|apply kp_id].
    apply (kp_cond (ad f) (clear el) (clear el)); [apply (kp_clear sch); eapply elems_ok_of; eassumption | reflexivity].
  Qed.

  Lemma spec_del_form fd f l : filter_data fd = Some f ->
    spec_del sch fd l = match f_elems f with
                        | Some _ => map (gdel f) l
                        | None => filter (fun y => negb (ad f y)) l
                        end.
  Proof.
    intros Ef. unfold spec_del, gdel, ad. rewrite Ef.
    assert (Hs : f_sel f = None -> f_elems f <> None).
    { unfold filter_data in Ef. destruct fd as [x|]; [|discriminate]. destruct (f_sel x) eqn:E1, (f_elems x) eqn:E2; inversion Ef; subst; congruence. }
    destruct (f_sel f) as [sel|], (f_elems f) as [el|]; try reflexivity. exfalso. apply Hs; reflexivity.
  Qed.

  Lemma addr_del_ad fd f y : filter_data fd = Some f -> addr_del sch fd y = ad f y.
  Proof. intros Ef. unfold addr_del, ad. rewrite Ef. reflexivity. Qed.

  Lemma spec_del_wf fd l : wf_fd fd -> lwf l -> ordered sch l = true ->
    lwf (spec_del sch fd l) /\ ordered sch (spec_del sch fd l) = true.
  Proof.
    intros Hfd Hl Ho. destruct (filter_data fd) as [f|] eqn:Ef.
    - rewrite (spec_del_form fd f l Ef). destruct (f_elems f); [apply map_kp_wf; [apply kp_gdel; apply Hfd; exact Ef | |]; assumption | apply filter_wf; assumption].
    - unfold spec_del. rewrite Ef. split; assumption.
  Qed.

  (* unaddressed elements stay; every resulting element stems from one with the same identifier and flag *)
  Lemma spec_del_keeps fd l y : In y l -> addr_del sch fd y = false -> In y (spec_del sch fd l).
  Proof.
    intros Hy Ha. destruct (filter_data fd) as [f|] eqn:Ef; [|unfold spec_del; rewrite Ef; exact Hy].
    rewrite (spec_del_form fd f l Ef). rewrite (addr_del_ad fd f y Ef) in Ha. destruct (f_elems f) as [el|] eqn:Ee.
    - apply in_map_iff. exists y. split; [|exact Hy]. unfold gdel. rewrite Ee, Ha. reflexivity.
    - apply filter_In. split; [exact Hy | rewrite Ha; reflexivity].
  Qed.

  Lemma spec_del_origin fd l z : wf_fd fd -> Forall (fun x => length x = nf) l -> In z (spec_del sch fd l) ->
    exists y, In y l /\ key_of sch z = key_of sch y /\ eqb_flag sch y z = true /\ length z = nf /\
              (z = y \/ (addr_del sch fd y = true /\ ch z = ch y)).
  Proof.
    intros Hfd Hlen Hz. rewrite Forall_forall in Hlen. destruct (filter_data fd) as [f|] eqn:Ef.
    2:{ unfold spec_del in Hz. rewrite Ef in Hz. exists z. repeat split; auto using eqb_flag_refl. }
    rewrite (spec_del_form fd f l Ef) in Hz. destruct (f_elems f) as [el|] eqn:Ee.
    - apply in_map_iff in Hz. destruct Hz as [y [<- Hy]]. exists y. pose proof (Hlen y Hy) as Hly.
      destruct (kp_gdel f (Hfd f Ef) y Hly) as [Hl2 Hk2]. split; [exact Hy|]. split; [apply key_of_ext; exact Hk2|].
      unfold gdel in *. rewrite Ee in *. destruct (ad f y) eqn:Ea.
      + assert (Hc : length (clear el y) = nf) by (rewrite clear_length; exact Hly).
        split; [apply eqb_flag_kf; exact Hc|]. split; [exact Hl2|]. right. split; [rewrite (addr_del_ad fd f y Ef); exact Ea | apply ch_kf; exact Hc].
      + split; [apply eqb_flag_refl|]. split; [exact Hly|]. left. reflexivity.
    - apply filter_In in Hz. destruct Hz as [Hz _]. exists z. repeat split; auto using eqb_flag_refl.
  Qed.

  (* the item functions of the data phase *)
  Definition gdat (fp : option flt) (new : list item) (y : item) : item :=
    match filter_data fp with
    | Some f =>
        match f_sel f, new with
        | Some sel, x :: _ => if smatch sch sel y then kf y (overlay x y) else y
        | _, _ => y
        end
    | None =>
        match new with
        | [] => y
        | n0 :: _ => if is_some (key_of sch n0) then gm new y else kf y (overlay n0 y)
        end
    end.

  Lemma spec_dat_form fp new l : spec_dat sch fp new l = map (gdat fp new) l.
  Proof.
    unfold spec_dat, gdat. destruct (filter_data fp) as [f|].
    - destruct (f_sel f) as [sel|]; [destruct new as [|x r]|]; try (symmetry; apply map_id_in; reflexivity); reflexivity.
    - destruct new as [|n0 r]; [symmetry; apply map_id_in; reflexivity|]. destruct (is_some (key_of sch n0)); reflexivity.
  Qed.

  Lemma kp_gdat fp new : wf_data sch fp new = true -> kp (gdat fp new).
  Proof.
    intros Hw. unfold wf_data in Hw. apply andb_true_iff in Hw. destruct Hw as [Hlen Hw]. unfold gdat.
    destruct (filter_data fp) as [f|].
    - destruct (f_sel f) as [sel|]; [|discriminate]. destruct (f_elems f); [discriminate|]. destruct new as [|x [|? ?]]; try discriminate.
      apply andb_true_iff in Hw. destruct Hw as [_ Hp].
      assert (Hx : length x = nf) by (cbn in Hlen; apply andb_true_iff in Hlen; destruct Hlen as [Hx _]; apply Nat.eqb_eq; exact Hx).
      apply (kp_cond (smatch sch sel) (overlay x) (sel_fun sch sel (overlay x))); [apply (kp_sel_overlay sch); assumption|].
      intros y E. unfold sel_fun. rewrite E. reflexivity.
    - destruct new as [|n0 r]; [apply kp_id|]. destruct (wf_items sch (n0 :: r)) eqn:Ewi.
      + pose proof (wf_items_lwf sch _ Ewi) as Hn. pose proof Hn as [_ [Hc _]]. inversion Hc as [|? ? [k Hk] _]. subst. rewrite Hk. cbn [is_some].
        apply kp_gm. exact Hn.
      + cbn [orb] in Hw. destruct r; [|discriminate].
        assert (Hx : length n0 = nf) by (cbn in Hlen; apply andb_true_iff in Hlen; destruct Hlen as [Hx _]; apply Nat.eqb_eq; exact Hx).
        pose proof (has_identifiers_key sch n0) as E. rewrite (keys_nonempty_no_ids sch Hwf n0 Hw) in E.
        destruct (key_of sch n0); [discriminate|]. cbn [is_some].
        apply (kp_kf (overlay n0)). apply (kp_overlay_nokey sch); assumption.
  Qed.

  Lemma spec_dat_wf fp new l : wf_data sch fp new = true -> lwf l -> ordered sch l = true ->
    lwf (spec_dat sch fp new l) /\ ordered sch (spec_dat sch fp new l) = true.
  Proof. intros Hw Hl Ho. rewrite spec_dat_form. apply map_kp_wf; [apply kp_gdat; exact Hw | |]; assumption. Qed.

  Lemma gdat_unaddressed fp new y : lwf new \/ True -> addr_dat sch fp new y = false -> gdat fp new y = y.
  Proof.
    intros _ Ha. unfold addr_dat, gdat in *. destruct (filter_data fp) as [f|].
    - destruct (f_sel f) as [sel|]; [|reflexivity]. destruct new; [reflexivity|]. rewrite Ha. reflexivity.
    - destruct new as [|n0 r]; [reflexivity|]. destruct (is_some (key_of sch n0)); [|discriminate].
      unfold gm. destruct (key_of sch y) as [k|]; [|reflexivity].
      assert (E : lfind sch k (n0 :: r) = None) by (apply lfind_None; apply mem_key_false; exact Ha).
      rewrite E. reflexivity.
  Qed.

  Lemma spec_dat_keeps fp new l y : In y l -> addr_dat sch fp new y = false -> In y (spec_dat sch fp new l).
  Proof.
    intros Hy Ha. rewrite spec_dat_form. apply in_map_iff. exists y. split; [apply gdat_unaddressed; auto | exact Hy].
  Qed.

  Lemma gdat_flag fp new y : wf_data sch fp new = true -> length y = nf -> eqb_flag sch y (gdat fp new y) = true.
  Proof.
    intros Hw Hy. unfold gdat.
    assert (Hov : forall x, length (overlay x y) = nf) by (intros x; rewrite overlay_length; exact Hy).
    destruct (filter_data fp) as [f|].
    - destruct (f_sel f) as [sel|]; [|apply eqb_flag_refl]. destruct new as [|x r]; [apply eqb_flag_refl|].
      destruct (smatch sch sel y); [apply eqb_flag_kf; apply Hov | apply eqb_flag_refl].
    - destruct new as [|n0 r]; [apply eqb_flag_refl|]. destruct (is_some (key_of sch n0)); [|apply eqb_flag_kf; apply Hov].
      unfold gm. destruct (key_of sch y) as [k|]; [|apply eqb_flag_refl].
      destruct (lfind sch k (n0 :: r)); [apply eqb_flag_kf; apply Hov | apply eqb_flag_refl].
  Qed.

  Lemma spec_dat_origin fp new l z : wf_data sch fp new = true -> Forall (fun x => length x = nf) l -> In z (spec_dat sch fp new l) ->
    exists y, In y l /\ key_of sch z = key_of sch y /\ eqb_flag sch y z = true.
  Proof.
    intros Hw Hlen Hz. rewrite spec_dat_form in Hz. apply in_map_iff in Hz. destruct Hz as [y [<- Hy]]. exists y.
    rewrite Forall_forall in Hlen. pose proof (Hlen y Hy) as Hly. split; [exact Hy|].
    split; [apply (kp_key sch (gdat fp new) y (kp_gdat fp new Hw) Hly) | apply gdat_flag; assumption].
  Qed.

  (* ---------------------------------------------------------------- the engine's remote write is the specification's *)

  Definition nu (fp : option flt) (new l : list item) : bool :=
    match filter_data fp with
    | Some _ => false
    | None => existsb (fun x => match key_of sch x with Some k => negb (mem_key k (keys_of sch l)) | None => false end) new
    end.
  Definition okdel (fd : option flt) (l : list item) : bool := forallb (fun y => negb (addr_del sch fd y) || ch y) l.
  Definition okdat (fp : option flt) (new l : list item) : bool := forallb (fun y => negb (addr_dat sch fp new y) || ch y) l.

  Lemma forallb_true {A} (l : list A) : forallb (fun _ => true) l = true.
  Proof. induction l; [reflexivity | exact IHl]. Qed.

  Lemma existsb_eq {A} (f g : A -> bool) l : (forall x, In x l -> f x = g x) -> existsb f l = existsb g l.
  Proof.
    induction l as [|x l IH]; intros H; [reflexivity|]. cbn. rewrite (H x (or_introl eq_refl)), IH; [reflexivity|].
    intros y Hy. apply H. right. exact Hy.
  Qed.

  Lemma filter_nil_existsb {A} (p : A -> bool) l : match filter p l with [] => true | _ => false end = negb (existsb p l).
  Proof. induction l as [|x l IH]; [reflexivity|]. cbn. destruct (p x); [reflexivity | exact IH]. Qed.

  Lemma is_some_lfind k l : is_some (lfind sch k l) = mem_key k (keys_of sch l).
  Proof.
    destruct (lfind sch k l) eqn:E.
    - apply lfind_key in E. destruct E as [Hin Hk]. symmetry. apply mem_key_In. eapply In_keys_of; eassumption.
    - apply lfind_None in E. symmetry. apply mem_key_false. exact E.
  Qed.

  Lemma sort_id l : lwf l -> ordered sch l = true -> sort_data sch l = l.
  Proof.
    intros Hl Ho. rewrite (sort_data_isort sch l (wf_keys_nonempty sch Hwf)). apply isort_sorted_id; [apply (lwf_ids sch); exact Hl | exact Ho].
  Qed.

  Lemma apply_new_remote ex new fp d ok :
    lwf ex -> ordered sch ex = true -> wf_data sch fp new = true ->
    apply_new sch true ex new fp = Ok (d, ok) ->
    ok = okdat fp new ex && negb (nu fp new ex) /\ (ok = true -> d = spec_dat sch fp new ex).
  Proof.
    intros Hex Ho Hw H. pose proof Hw as Hw0. unfold wf_data in Hw. apply andb_true_iff in Hw. destruct Hw as [Hlen Hw].
    unfold okdat, nu. destruct (filter_data fp) as [f|] eqn:Ef.
    - destruct (f_sel f) as [sel|] eqn:Es; [|discriminate]. destruct (f_elems f); [discriminate|].
      destruct new as [|x [|? ?]]; try discriminate.
      unfold apply_new in H. rewrite Ef, Es in H. apply copy_to_selected_remote in H. destruct H as [-> ->].
      cbn [negb]. rewrite andb_true_r. split.
      + apply forallb_eq. intros y _. unfold addr_dat. rewrite Ef, Es. reflexivity.
      + intros Hok. unfold spec_dat. rewrite Ef, Es. apply map_ext_in. intros y Hy.
        rewrite forallb_forall in Hok. specialize (Hok y Hy). destruct (smatch sch sel y), (ch y); try reflexivity; discriminate.
    - unfold apply_new in H. rewrite Ef in H.
      destruct (wf_items sch new) eqn:Ewi.
      + pose proof (wf_items_lwf sch new Ewi) as Hn.
        assert (Hm : (let '(d0, ok0) := merge sch true ex new in Ok (sort_data sch d0, ok0)) = Ok (d, ok)).
        { destruct new as [|n0 r]; [exact H|].
          assert (Hid : has_identifiers sch n0 = true).
          { apply (complete_ids sch). destruct Hn as [_ [Hc _]]. inversion Hc. assumption. }
          rewrite Hid in H. cbn [negb] in H. exact H. }
        clear H. rewrite merge_remote in Hm. inversion Hm as [[Hd Hok]]. clear Hm.
        pose proof Hex as [Hexlen [Hexc _]]. rewrite Forall_forall in Hexlen, Hexc.
        (* the items named by the write *)
        assert (Hnamed : forall y, In y ex ->
                   is_some (find_last_hash sch (hash_key sch y) new) = addr_dat sch fp new y \/ new = []).
        { intros y Hy. destruct new as [|n0 r]; [right; reflexivity|]. left.
          destruct (Hexc y Hy) as [k Hk]. rewrite (wf_hash sch Hwf y k Hk), (find_last_hash_lfind sch Hwf _ k Hn), is_some_lfind.
          unfold addr_dat. rewrite Ef, Hk.
          pose proof Hn as [_ [Hc _]]. inversion Hc as [|? ? [k0 Hk0] _]. subst. rewrite Hk0. reflexivity. }
        assert (Hok1 : forallb (fun y => negb (is_some (find_last_hash sch (hash_key sch y) new)) || ch y) ex =
                       forallb (fun y => negb (addr_dat sch fp new y) || ch y) ex).
        { apply forallb_eq. intros y Hy. destruct (Hnamed y Hy) as [E| ->]; [rewrite E; reflexivity|].
          unfold addr_dat. rewrite Ef. reflexivity. }
        assert (Hok2 : match filter (fun x => negb (mem_key (hash_key sch x) (map (hash_key sch) ex))) new with [] => true | _ => false end =
                       negb (existsb (fun x => match key_of sch x with Some k => negb (mem_key k (keys_of sch ex)) | None => false end) new)).
        { rewrite filter_nil_existsb. f_equal. apply existsb_eq. intros x Hx. rewrite (hashes_keys sch Hwf ex Hex).
          pose proof Hn as [_ [Hc _]]. rewrite Forall_forall in Hc. destruct (Hc x Hx) as [k Hk]. rewrite Hk, (wf_hash sch Hwf x k Hk). reflexivity. }
        rewrite Hok1, Hok2. split; [reflexivity|]. intros Hall. apply andb_true_iff in Hall. destruct Hall as [Hall _].
        rewrite forallb_forall in Hall.
        assert (Hmap : map (merge_item sch true new) ex = spec_dat sch fp new ex).
        { rewrite spec_dat_form. apply map_ext_in. intros y Hy. unfold merge_item, gdat. rewrite Ef.
          destruct (Hexc y Hy) as [k Hk]. rewrite (wf_hash sch Hwf y k Hk), (find_last_hash_lfind sch Hwf _ k Hn).
          destruct new as [|n0 r]; [reflexivity|].
          pose proof Hn as [Hnlen [Hc _]]. inversion Hc as [|? ? [k0 Hk0] _]. subst. rewrite Hk0. cbn [is_some]. unfold gm. rewrite Hk.
          destruct (lfind sch k (n0 :: r)) as [x|] eqn:Ex; [|reflexivity].
          specialize (Hall y Hy). destruct (Hnamed y Hy) as [E|E]; [|discriminate].
          rewrite (wf_hash sch Hwf y k Hk), (find_last_hash_lfind sch Hwf _ k Hn), Ex in E. cbn [is_some] in E. rewrite <- E in Hall.
          cbn [negb orb] in Hall. rewrite wa_ch, Hall. cbn [negb orb].
          apply (lfind_Some sch _ k x Hn) in Ex. destruct Ex as [Hxin _]. rewrite Forall_forall in Hnlen.
          apply update_fields_remote; [apply Hexlen; exact Hy | apply Hnlen; exact Hxin]. }
        rewrite Hmap. destruct (spec_dat_wf fp new ex Hw0 Hex Ho) as [Hl2 Ho2]. apply sort_id; assumption.
      + cbn [orb] in Hw. destruct new as [|x [|? ?]]; try discriminate.
        rewrite (keys_nonempty_no_ids sch Hwf x Hw) in H. cbn [negb] in H. rewrite copy_to_all_remote in H. inversion H. subst d ok. clear H.
        assert (Hk : key_of sch x = None).
        { pose proof (has_identifiers_key sch x) as E. rewrite (keys_nonempty_no_ids sch Hwf x Hw) in E.
          destruct (key_of sch x); [discriminate | reflexivity]. }
        cbn [existsb]. rewrite Hk. cbn [orb negb]. rewrite andb_true_r. split.
        * apply forallb_eq. intros y _. unfold addr_dat. rewrite Ef, Hk. reflexivity.
        * intros Hall. rewrite forallb_forall in Hall. unfold spec_dat. rewrite Ef, Hk. cbn [is_some]. apply map_ext_in. intros y Hy.
          rewrite (Hall y Hy). reflexivity.
  Qed.

  Lemma okdel_none fd l : filter_data fd = None -> okdel fd l = true.
  Proof.
    intros Ef. unfold okdel. rewrite <- (forallb_true l). apply forallb_eq. intros y _. unfold addr_del. rewrite Ef. reflexivity.
  Qed.

  Lemma del_rm_spec fd f l : filter_data fd = Some f -> wf_flt sch f = true -> Forall (fun x => length x = nf) l ->
    del_rm f l = spec_del sch fd l.
  Proof.
    intros Ef Hf Hlen. unfold del_rm, spec_del. rewrite Ef. rewrite Forall_forall in Hlen.
    destruct (f_sel f) as [sel|], (f_elems f) as [el|] eqn:Ee; try reflexivity.
    - apply map_ext_in. intros y Hy. rewrite (remove_elems_is_clear sch Hwf el y); [reflexivity | eapply elems_ok_of; eassumption | auto].
    - apply map_ext_in. intros y Hy. rewrite (remove_elems_is_clear sch Hwf el y); [reflexivity | eapply elems_ok_of; eassumption | auto].
  Qed.

  Theorem remote_write l u d ok :
    lwf l -> ordered sch l = true -> wf_update sch false u = true ->
    update_list sch true l (u_new u) (u_fp u) (u_fd u) = Ok (d, ok) ->
    let l2 := if okdel (u_fd u) l then spec_del sch (u_fd u) l else l in
    ok = okdel (u_fd u) l && (okdat (u_fp u) (u_new u) l2 && negb (nu (u_fp u) (u_new u) l2)) /\
    (ok = true -> d = spec_write sch false u l).
  Proof.
    intros Hl Ho Hu H. destruct (wf_update_parts sch u Hu) as [Hwd Hwfd0].
    assert (Hwfd : wf_fd (u_fd u)) by exact Hwfd0. clear Hwfd0. cbv zeta.
    unfold update_list, after_delete in H. unfold spec_write.
    destruct (filter_data (u_fd u)) as [f|] eqn:Ef.
    - destruct (delete_filtered sch true f l) as [[d0 ok0]|] eqn:Ed; [|discriminate].
      apply delete_filtered_remote in Ed. destruct Ed as [Hok0 Hd0].
      assert (Hokd : ok0 = okdel (u_fd u) l).
      { rewrite Hok0. apply forallb_eq. intros y _. rewrite (addr_del_ad (u_fd u) f y Ef). reflexivity. }
      rewrite <- Hokd. destruct ok0.
      + rewrite (Hd0 eq_refl), (del_rm_spec (u_fd u) f l Ef (Hwfd f Ef) (proj1 Hl)) in H.
        destruct (spec_del_wf (u_fd u) l Hwfd Hl Ho) as [Hl2 Ho2].
        destruct (apply_new sch true (spec_del sch (u_fd u) l) (u_new u) (u_fp u)) as [[d1 ok1]|] eqn:Ea; [|discriminate].
        destruct (apply_new_remote _ _ _ _ _ Hl2 Ho2 Hwd Ea) as [Hok1 Hd1]. inversion H. subst d ok. cbn [andb].
        split; [exact Hok1 | exact Hd1].
      + destruct (apply_new sch true l (u_new u) (u_fp u)) as [[d1 ok1]|] eqn:Ea; [|discriminate].
        inversion H. cbn [andb]. split; [reflexivity | discriminate].
    - rewrite (okdel_none (u_fd u) l Ef).
      assert (Hsd : spec_del sch (u_fd u) l = l) by (unfold spec_del; rewrite Ef; reflexivity). rewrite Hsd.
      destruct (apply_new sch true l (u_new u) (u_fp u)) as [[d1 ok1]|] eqn:Ea; [|discriminate].
      destruct (apply_new_remote _ _ _ _ _ Hl Ho Hwd Ea) as [Hok1 Hd1]. inversion H. subst d ok. cbn [andb].
      split; [exact Hok1 | exact Hd1].
  Qed.

  (* ---------------------------------------------------------------- the Merge path on ANY stored list *)

  Lemma key_from_length keys it k : key_from keys it = Some k -> length k = length keys.
  Proof.
    revert k. induction keys as [|q r IH]; intros k H; cbn in H; [inversion H; reflexivity|].
    destruct (fld it q); [|discriminate]. destruct (key_from r it) as [kr|]; [|discriminate]. inversion H. cbn. rewrite (IH kr eq_refl). reflexivity.
  Qed.

  (* the hash of an element with an incomplete identifier is shorter than an identifier *)
  Lemma hash_from_short keys it :
    forallb (fun i => key_kind_ok (kind_of sch i)) keys = true ->
    forallb (fun i => negb (kind_eqb (kind_of sch i) KStructHelper)) (removelast keys) = true ->
    key_from keys it = None -> (length (hash_from sch keys it) < length keys)%nat.
  Proof.
    induction keys as [|q r IH]; intros Hk Hl H; [discriminate|].
    cbn in H. cbn [hash_from]. destruct (fld it q) as [v|]; [|cbn; lia].
    destruct (key_from r it) as [kr|] eqn:Er; [discriminate|].
    destruct r as [|q2 r2]; [discriminate|].
    cbn [forallb] in Hk. apply andb_true_iff in Hk. destruct Hk as [_ Hk2].
    change (removelast (q :: q2 :: r2)) with (q :: removelast (q2 :: r2)) in Hl. cbn [forallb] in Hl.
    apply andb_true_iff in Hl. destruct Hl as [Hq Hl2].
    specialize (IH Hk2 Hl2 eq_refl). cbn [length] in *.
    destruct (kind_of sch q); cbn [length]; try lia.
  Qed.

  Lemma merge_item_unnamed new y : lwf new ->
    match key_of sch y with Some k => mem_key k (keys_of sch new) | None => false end = false ->
    merge_item sch true new y = y.
  Proof.
    intros Hn Ha. unfold merge_item.
    assert (E : find_last_hash sch (hash_key sch y) new = None); [|rewrite E; reflexivity].
    destruct (key_of sch y) as [k|] eqn:Ek.
    - rewrite (wf_hash sch Hwf y k Ek), (find_last_hash_lfind sch Hwf new k Hn). apply lfind_None. apply mem_key_false. exact Ha.
    - (* no element of new has so short a hash *)
      destruct (wf_parts sch Hwf) as [_ [Hk [Hl _]]].
      assert (Hk' : forallb (fun i => key_kind_ok (kind_of sch i)) (s_keys sch) = true).
      { rewrite forallb_forall in *. intros i Hi. specialize (Hk i Hi). apply andb_true_iff in Hk. tauto. }
      pose proof (hash_from_short (s_keys sch) y Hk' Hl Ek) as Hshort. fold (hash_key sch y) in Hshort.
      clear Ha. induction new as [|x r IH]; [reflexivity|].
      destruct (lwf_cons_inv sch x r Hn) as [_ [[kx Hkx] [Hr _]]]. cbn [find_last_hash]. rewrite (IH Hr).
      rewrite (wf_hash sch Hwf x kx Hkx). destruct (eqb_key kx (hash_key sch y)) eqn:E; [|reflexivity].
      apply eqb_key_eq in E. pose proof (key_from_length _ _ _ Hkx) as Hlen. rewrite E in Hlen. lia.
  Qed.

  Lemma merge_item_protected new y : ch y = false -> merge_item sch true new y = y.
  Proof.
    intros Hc. unfold merge_item. destruct (find_last_hash sch (hash_key sch y) new); [|reflexivity].
    rewrite wa_ch, Hc. reflexivity.
  Qed.

  Lemma In_sort_data l y : In y l -> In y (sort_data sch l).
  Proof.
    intros H. unfold sort_data. destruct l as [|a r]; [exact H|]. destruct (s_keys sch); [exact H|].
    eapply Permutation_in; [apply Permutation_sym; apply isort_perm | exact H].
  Qed.

  (* An accepted remote write that goes through Merge / SortData keeps every element that is
     protected or that it does not address — whatever the stored list looks like (repeated
     identifiers, elements without identifier, any order). *)
  Theorem weak_write l u d :
    weak_shape sch u = true ->
    update_list sch true l (u_new u) (u_fp u) (u_fd u) = Ok (d, true) ->
    forall y, In y l -> (ch y = false \/ addressed sch false u y = false) -> In y d.
  Proof.
    intros Hw H y Hy Hcase. unfold weak_shape in Hw. apply andb_true_iff in Hw. destruct Hw as [Hfp Hnew].
    apply negb_true_iff in Hfp. destruct (filter_data (u_fp u)) eqn:Efp; [discriminate|]. clear Hfp.
    assert (Haddr : addressed sch false u y = false ->
                    addr_del sch (u_fd u) y = false /\ addr_dat sch (u_fp u) (u_new u) y = false).
    { unfold addressed. cbn [orb]. intros E. apply orb_false_iff in E. exact E. }
    unfold update_list, after_delete in H.
    (* the delete phase *)
    assert (Hdel : exists ex2, In y ex2 /\ exists d1 ok1, apply_new sch true ex2 (u_new u) (u_fp u) = Ok (d1, ok1) /\ d = d1 /\ ok1 = true).
    { destruct (filter_data (u_fd u)) as [f|] eqn:Efd.
      - destruct (delete_filtered sch true f l) as [[d0 ok0]|] eqn:Ed; [|discriminate].
        destruct (delete_filtered_remote f l d0 ok0 Ed) as [Hok0 Hd0]. destruct ok0.
        + rewrite (Hd0 eq_refl) in *. exists (del_rm f l). split.
          * assert (Had : ad f y = false).
            { destruct Hcase as [Hc|Ha].
              - symmetry in Hok0. rewrite forallb_forall in Hok0. specialize (Hok0 y Hy). rewrite Hc, orb_false_r in Hok0.
                apply negb_true_iff in Hok0. exact Hok0.
              - rewrite <- (addr_del_ad (u_fd u) f y Efd). apply Haddr. exact Ha. }
            unfold del_rm. unfold ad in Had. destruct (f_sel f) as [sel|], (f_elems f) as [el|]; try discriminate;
              [apply in_map_iff; exists y; rewrite Had; split; [reflexivity | exact Hy]
              |apply filter_In; rewrite Had; split; [exact Hy | reflexivity]].
          * destruct (apply_new sch true (del_rm f l) (u_new u) (u_fp u)) as [[d1 ok1]|]; [|discriminate].
            exists d1, ok1. inversion H. subst. split; [reflexivity|]. split; reflexivity.
        + destruct (apply_new sch true l (u_new u) (u_fp u)) as [[d1 ok1]|]; discriminate.
      - exists l. split; [exact Hy|]. destruct (apply_new sch true l (u_new u) (u_fp u)) as [[d1 ok1]|]; [|discriminate].
        exists d1, ok1. inversion H. subst. split; [reflexivity|]. split; reflexivity. }
    destruct Hdel as [ex2 [Hy2 [d1 [ok1 [Ea [-> ->]]]]]]. clear H.
    (* the data phase: Merge + SortData *)
    unfold apply_new in Ea. rewrite Efp in Ea.
    assert (Hm : (let '(d0, ok0) := merge sch true ex2 (u_new u) in Ok (sort_data sch d0, ok0)) = Ok (d1, true)).
    { destruct (u_new u) as [|n0 r] eqn:En; [exact Ea|].
      assert (Hid : has_identifiers sch n0 = true).
      { apply (complete_ids sch). pose proof (wf_items_lwf sch _ Hnew) as [_ [Hc _]]. inversion Hc. assumption. }
      rewrite Hid in Ea. exact Ea. }
    clear Ea. rewrite merge_remote in Hm. injection Hm as Hd Hok. subst d1. apply In_sort_data. apply in_map_iff. exists y. split; [|exact Hy2].
    destruct Hcase as [Hc|Ha]; [apply merge_item_protected; exact Hc|].
    destruct (Haddr Ha) as [_ Hdat]. unfold addr_dat in Hdat. rewrite Efp in Hdat.
    destruct (u_new u) as [|n0 r] eqn:En.
    - unfold merge_item. reflexivity.
    - pose proof (wf_items_lwf sch _ Hnew) as Hn. apply merge_item_unnamed; [exact Hn|].
      pose proof Hn as [_ [Hc _]]. inversion Hc as [|? ? [k0 Hk0] _]. subst. rewrite Hk0 in Hdat. exact Hdat.
  Qed.
End W.
