(* C12 — lemmas about the keyed lists of Model/Approval.v (pending set, tally, timers,
   verdict goroutines), used by Proofs/ApprovalProofs.v. *)
From Verif Require Import Base.Prelude Model.Approval.

Lemma weqb_eq a b : weqb a b = true <-> a = b.
Proof.
  unfold weqb. rewrite andb_true_iff, !N.eqb_eq. destruct a, b; simpl. split.
  - intros [-> ->]. reflexivity.
  - intros H. inversion H. auto.
Qed.

Lemma veqb_eq a b : veqb a b = true <-> a = b.
Proof.
  unfold veqb. rewrite andb_true_iff, weqb_eq, N.eqb_eq. destruct a, b; simpl. split.
  - intros [-> ->]. reflexivity.
  - intros H. inversion H. auto.
Qed.

Section KeyedLemmas.
  Context {K : Type} (keqb : K -> K -> bool) (keqb_eq : forall a b, keqb a b = true <-> a = b).

  Lemma keqb_refl a : keqb a a = true.
  Proof. apply keqb_eq. reflexivity. Qed.

  Lemma keqb_neq a b : a <> b -> keqb a b = false.
  Proof. intros H. destruct (keqb a b) eqn:E; [apply keqb_eq in E; contradiction | reflexivity]. Qed.

  Lemma keqb_false a b : keqb a b = false -> a <> b.
  Proof. intros H E. subst. rewrite keqb_refl in H. discriminate. Qed.

  Lemma kmem_In k l : kmem keqb k l = true <-> In k l.
  Proof.
    unfold kmem. rewrite existsb_exists. split.
    - intros [x [Hx He]]. apply keqb_eq in He. subst. exact Hx.
    - intros H. exists k. split; [exact H | apply keqb_refl].
  Qed.

  Lemma kmem_app k l x : kmem keqb k (l ++ [x]) = kmem keqb k l || keqb k x.
  Proof. unfold kmem. rewrite existsb_app. simpl. rewrite orb_false_r. reflexivity. Qed.

  Lemma kmem_filter k l f : kmem keqb k (filter f l) = kmem keqb k l && f k.
  Proof.
    unfold kmem. induction l as [|x l IH]; simpl; [reflexivity|].
    destruct (f x) eqn:F; simpl; destruct (keqb k x) eqn:E; simpl.
    - apply keqb_eq in E. subst x. rewrite F. reflexivity.
    - exact IH.
    - apply keqb_eq in E. subst x. rewrite IH, F. apply andb_false_r.
    - exact IH.
  Qed.

  Lemma kmem_kdel_same k l : kmem keqb k (kdel keqb k l) = false.
  Proof. unfold kdel. rewrite kmem_filter, keqb_refl. simpl. apply andb_false_r. Qed.

  Lemma kmem_kdel_other k k' l : k <> k' -> kmem keqb k (kdel keqb k' l) = kmem keqb k l.
  Proof.
    intros H. unfold kdel. rewrite kmem_filter, (keqb_neq k' k) by congruence. simpl. apply andb_true_r.
  Qed.

  Lemma kassoc_In {A} k (l : list (K * A)) : In k (map fst l) -> kassoc keqb k l <> None.
  Proof.
    induction l as [|[k' a] l IH]; simpl; [tauto|].
    intros [H|H].
    - subst. rewrite keqb_refl. discriminate.
    - destruct (keqb k k'); [discriminate | auto].
  Qed.

  Lemma kassoc_app {A} k (l : list (K * A)) x :
    kassoc keqb k (l ++ [x]) =
    match kassoc keqb k l with Some a => Some a | None => if keqb k (fst x) then Some (snd x) else None end.
  Proof.
    induction l as [|[k' a] l IH]; simpl.
    - destruct x as [k' a]; simpl. reflexivity.
    - destruct (keqb k k'); [reflexivity | exact IH].
  Qed.

  Lemma kassoc_filter {A} k (l : list (K * A)) f :
    (forall a, f (k, a) = true) -> kassoc keqb k (filter f l) = kassoc keqb k l.
  Proof.
    intros Hf. induction l as [|[k' a] l IH]; simpl; [reflexivity|].
    destruct (keqb k k') eqn:E.
    - apply keqb_eq in E. subst k'. rewrite Hf. simpl. rewrite keqb_refl. reflexivity.
    - destruct (f (k', a)); simpl; [rewrite E|]; exact IH.
  Qed.

  Lemma kassoc_filter_none {A} k (l : list (K * A)) f :
    (forall a, f (k, a) = false) -> kassoc keqb k (filter f l) = None.
  Proof.
    intros Hf. induction l as [|[k' a] l IH]; simpl; [reflexivity|].
    destruct (f (k', a)) eqn:F; simpl; [|exact IH].
    destruct (keqb k k') eqn:E; [|exact IH].
    apply keqb_eq in E. subst k'. rewrite Hf in F. discriminate.
  Qed.

  Lemma kassoc_kremove_same {A} k (l : list (K * A)) : kassoc keqb k (kremove keqb k l) = None.
  Proof. apply kassoc_filter_none. intros a. simpl. rewrite keqb_refl. reflexivity. Qed.

  Lemma kassoc_kremove_other {A} k k' (l : list (K * A)) :
    k <> k' -> kassoc keqb k (kremove keqb k' l) = kassoc keqb k l.
  Proof. intros H. apply kassoc_filter. intros a. simpl. rewrite (keqb_neq k' k) by congruence. reflexivity. Qed.

  Lemma kassoc_kset_same {A} k (a : A) l : kassoc keqb k (kset keqb k a l) = Some a.
  Proof. unfold kset. simpl. rewrite keqb_refl. reflexivity. Qed.

  Lemma kassoc_kset_other {A} k k' (a : A) l : k <> k' -> kassoc keqb k (kset keqb k' a l) = kassoc keqb k l.
  Proof. intros H. unfold kset. simpl. rewrite (keqb_neq k k') by exact H. apply kassoc_kremove_other. exact H. Qed.

  Lemma kremove_keys_incl {A} k (l : list (K * A)) x : In x (map fst (kremove keqb k l)) -> In x (map fst l).
  Proof.
    unfold kremove. rewrite !in_map_iff. intros [y [Hy Hin]]. apply filter_In in Hin. exists y. tauto.
  Qed.

  Lemma kremove_nodup {A} k (l : list (K * A)) : NoDup (map fst l) -> NoDup (map fst (kremove keqb k l)).
  Proof.
    induction l as [|[k' a] l IH]; simpl; intros H; [constructor|].
    inversion H as [|? ? Hn Hd]; subst.
    destruct (negb (keqb k k')); simpl; [|auto].
    constructor; [|auto]. intros Hin. apply Hn. eapply kremove_keys_incl. exact Hin.
  Qed.
End KeyedLemmas.

(* ---- instances for writes ---- *)
Lemma weqb_refl w : weqb w w = true.
Proof. apply (keqb_refl weqb weqb_eq). Qed.
Lemma weqb_neq a b : a <> b -> weqb a b = false.
Proof. apply (keqb_neq weqb weqb_eq). Qed.
Lemma weqb_sym a b : weqb a b = weqb b a.
Proof.
  destruct (weqb a b) eqn:E.
  - apply weqb_eq in E. subst. symmetry. apply weqb_refl.
  - symmetry. apply weqb_neq. intros H. subst. rewrite weqb_refl in E. discriminate.
Qed.
Lemma wid_dec (a b : wid) : a = b \/ a <> b.
Proof. destruct (weqb a b) eqn:E; [left; apply weqb_eq; exact E | right; intros H; subst; rewrite weqb_refl in E; discriminate]. Qed.

Lemma wmem_app w l x : wmem w (l ++ [x]) = wmem w l || weqb w x.
Proof. apply (kmem_app weqb). Qed.
Lemma wmem_filter w l f : wmem w (filter f l) = wmem w l && f w.
Proof. apply (kmem_filter weqb weqb_eq). Qed.
Lemma wmem_wdel_same w l : wmem w (wdel w l) = false.
Proof. apply (kmem_kdel_same weqb weqb_eq). Qed.
Lemma wmem_wdel_other w w' l : w <> w' -> wmem w (wdel w' l) = wmem w l.
Proof. apply (kmem_kdel_other weqb weqb_eq). Qed.
Lemma wmem_cons w x l : wmem w (x :: l) = weqb w x || wmem w l.
Proof. reflexivity. Qed.

Lemma wassoc_wset_same {A} w (a : A) l : wassoc w (wset w a l) = Some a.
Proof. apply (kassoc_kset_same weqb weqb_eq). Qed.
Lemma wassoc_wset_other {A} w w' (a : A) l : w <> w' -> wassoc w (wset w' a l) = wassoc w l.
Proof. apply (kassoc_kset_other weqb weqb_eq). Qed.
Lemma wassoc_wremove_same {A} w (l : list (wid * A)) : wassoc w (wremove w l) = None.
Proof. apply (kassoc_kremove_same weqb weqb_eq). Qed.
Lemma wassoc_wremove_other {A} w w' (l : list (wid * A)) : w <> w' -> wassoc w (wremove w' l) = wassoc w l.
Proof. apply (kassoc_kremove_other weqb weqb_eq). Qed.
Lemma wassoc_cons {A} w w' (a : A) l : wassoc w ((w', a) :: l) = if weqb w w' then Some a else wassoc w l.
Proof. reflexivity. Qed.

Lemma wassoc_drop_peer {A} p w (l : list (wid * A)) :
  wassoc w (drop_peer p l) = if of_peer p w then None else wassoc w l.
Proof.
  unfold drop_peer. destruct (of_peer p w) eqn:E.
  - apply (kassoc_filter_none weqb weqb_eq). intros a. simpl. rewrite E. reflexivity.
  - apply (kassoc_filter weqb weqb_eq). intros a. simpl. rewrite E. reflexivity.
Qed.

Lemma tally_get_wset_same w k l : tally_get w (wset w k l) = k.
Proof. unfold tally_get. rewrite wassoc_wset_same. reflexivity. Qed.
Lemma tally_get_wset_other w w' k l : w <> w' -> tally_get w (wset w' k l) = tally_get w l.
Proof. intros H. unfold tally_get. rewrite wassoc_wset_other by exact H. reflexivity. Qed.
Lemma tally_get_wremove_other w w' l : w <> w' -> tally_get w (wremove w' l) = tally_get w l.
Proof. intros H. unfold tally_get. rewrite wassoc_wremove_other by exact H. reflexivity. Qed.

Lemma wassoc_stop_pending p pd tm w :
  wassoc w (stop_pending p pd tm) =
  match wassoc w tm with
  | Some TRun => if of_peer p w && wmem w pd then Some TStop else Some TRun
  | x => x
  end.
Proof.
  unfold stop_pending. induction tm as [|[w' t] tm IH]; simpl; [reflexivity|].
  destruct (weqb w w') eqn:E.
  - apply weqb_eq in E. subst w'.
    destruct t; simpl; try (rewrite weqb_refl; reflexivity).
    destruct (of_peer p w && wmem w pd); simpl; rewrite weqb_refl; reflexivity.
  - assert (H : wassoc w
      ((match t with
        | TRun => if of_peer p w' && wmem w' pd then (w', TStop) else (w', t)
        | _ => (w', t)
        end) :: map (fun x : wid * tstate =>
                       match snd x with
                       | TRun => if of_peer p (fst x) && wmem (fst x) pd then (fst x, TStop) else x
                       | _ => x
                       end) tm) =
      wassoc w (map (fun x : wid * tstate =>
                       match snd x with
                       | TRun => if of_peer p (fst x) && wmem (fst x) pd then (fst x, TStop) else x
                       | _ => x
                       end) tm)).
    { destruct t; simpl; try (rewrite E; reflexivity).
      destruct (of_peer p w' && wmem w' pd); simpl; rewrite E; reflexivity. }
    destruct t; simpl in *; rewrite ?H; exact IH.
Qed.

Lemma left_of_zero p pd (tl : list (wid * nat)) :
  left_of p (filter (fun w => negb (of_peer p w)) pd) (drop_peer p tl) = 0%N.
Proof.
  unfold left_of, drop_peer.
  assert (H1 : filter (of_peer p) (filter (fun w => negb (of_peer p w)) pd) = []).
  { induction pd as [|x l IH]; simpl; [reflexivity|].
    destruct (of_peer p x) eqn:E; simpl; [exact IH | rewrite E; exact IH]. }
  assert (H2 : filter (fun x : wid * nat => of_peer p (fst x)) (filter (fun x => negb (of_peer p (fst x))) tl) = []).
  { induction tl as [|x l IH]; simpl; [reflexivity|].
    destruct (of_peer p (fst x)) eqn:E; simpl; [exact IH | rewrite E; exact IH]. }
  rewrite H1, H2. reflexivity.
Qed.

(* ---- instances for verdict calls ---- *)
Lemma veqb_refl v : veqb v v = true.
Proof. apply (keqb_refl veqb veqb_eq). Qed.
Lemma vassoc_app {A} v (l : list (vid * A)) x :
  vassoc v (l ++ [x]) = match vassoc v l with Some a => Some a | None => if veqb v (fst x) then Some (snd x) else None end.
Proof. apply (kassoc_app veqb). Qed.
Lemma vassoc_vremove_same {A} v (l : list (vid * A)) : vassoc v (vremove v l) = None.
Proof. apply (kassoc_kremove_same veqb veqb_eq). Qed.
Lemma vassoc_vremove_other {A} v v' (l : list (vid * A)) : v <> v' -> vassoc v (vremove v' l) = vassoc v l.
Proof. apply (kassoc_kremove_other veqb veqb_eq). Qed.
Lemma vassoc_In {A} v (l : list (vid * A)) : In v (map fst l) -> vassoc v l <> None.
Proof. apply (kassoc_In veqb veqb_eq). Qed.
Lemma vremove_nodup {A} v (l : list (vid * A)) : NoDup (map fst l) -> NoDup (map fst (vremove v l)).
Proof. apply (kremove_nodup veqb). Qed.
Lemma vmem_In v l : vmem v l = true <-> In v l.
Proof. apply (kmem_In veqb veqb_eq). Qed.
Lemma vid_dec (a b : vid) : a = b \/ a <> b.
Proof. destruct (veqb a b) eqn:E; [left; apply veqb_eq; exact E | right; intros H; subst; rewrite veqb_refl in E; discriminate]. Qed.

(* approvals of write w among the verdict goroutines between lookup and commit *)
Definition incall (w : wid) (l : list (vid * bool)) : nat :=
  length (filter (fun x => weqb (fst (fst x)) w && snd x) l).

Lemma incall_app w l v a :
  incall w (l ++ [(v, a)]) = (incall w l + (if weqb (fst v) w && a then 1 else 0))%nat.
Proof.
  unfold incall. rewrite filter_app, app_length. simpl.
  destruct (weqb (fst v) w && a); reflexivity.
Qed.

Lemma incall_vremove_other w v l : fst v <> w -> incall w (vremove v l) = incall w l.
Proof.
  intros H. unfold incall, vremove, kremove. induction l as [|[v' a] l IH]; simpl; [reflexivity|].
  destruct (veqb v v') eqn:E; simpl.
  - apply veqb_eq in E. subst v'. rewrite (weqb_neq _ _ H). simpl. exact IH.
  - destruct (weqb (fst v') w && a); simpl; rewrite IH; reflexivity.
Qed.

Lemma incall_vremove w cb l a :
  NoDup (map fst l) -> vassoc (w, cb) l = Some a ->
  incall w l = (incall w (vremove (w, cb) l) + (if a then 1 else 0))%nat.
Proof.
  unfold incall, vremove, kremove, vassoc. induction l as [|[v' a'] l IH]; simpl; intros Hnd Ha; [discriminate|].
  inversion Hnd as [|? ? Hn Hd]; subst.
  destruct (veqb (w, cb) v') eqn:E; simpl.
  - apply veqb_eq in E. subst v'. inversion Ha; subst a'. simpl. rewrite weqb_refl. simpl.
    (* no other entry with this key *)
    assert (Hrest : filter (fun x : vid * bool => negb (veqb (w, cb) (fst x))) l = l).
    { clear -Hn. induction l as [|[v a0] l IH]; simpl; [reflexivity|].
      destruct (veqb (w, cb) v) eqn:E.
      - apply veqb_eq in E. subst v. exfalso. apply Hn. simpl. left. reflexivity.
      - simpl. rewrite IH; [reflexivity|]. intros H. apply Hn. simpl. right. exact H. }
    rewrite Hrest. destruct a; simpl; lia.
  - specialize (IH Hd Ha). destruct (weqb (fst v') w && a'); simpl; rewrite IH; lia.
Qed.

Lemma incall_pos w cb l : vassoc (w, cb) l = Some true -> (1 <= incall w l)%nat.
Proof.
  unfold incall, vassoc. induction l as [|[v' a'] l IH]; simpl; intros H; [discriminate|].
  destruct (veqb (w, cb) v') eqn:E.
  - apply veqb_eq in E. subst v'. inversion H; subst a'. simpl. rewrite weqb_refl. simpl. lia.
  - specialize (IH H). destruct (weqb (fst v') w && a'); simpl; lia.
Qed.
