(* C02 — one update: for a well-formed schema, every well-formed local update maps a
   store in the invariant [Inv] (Proofs/UpdateRefine.v) to such a store again, the
   abstract store following the rules of Spec/UpdateSpec.v; and re-applying a
   [simple] update leaves the list as it is. *)
From Verif Require Import Base.Prelude Model.Schema Model.Update Model.FunctionStore Spec.UpdateSpec
  Proofs.UpdateBasics Proofs.UpdateRefine.
From Coq Require Import Sorting.Sorted Sorting.Permutation.

Lemma nodup_app {A} (a b : list A) :
  NoDup a -> NoDup b -> (forall x, In x a -> ~ In x b) -> NoDup (a ++ b).
Proof.
  induction a as [|x a IH]; intros Ha Hb Hd; [exact Hb|].
  inversion Ha as [|? ? Hx Ha']. subst. cbn. constructor.
  - intros Hin. apply in_app_or in Hin. destruct Hin as [Hin|Hin]; [contradiction|].
    apply (Hd x (or_introl eq_refl)). exact Hin.
  - apply IH; [exact Ha' | exact Hb | intros y Hy; apply Hd; right; exact Hy].
Qed.

Lemma map_id_in {A} (f : A -> A) l : (forall x, In x l -> f x = x) -> map f l = l.
Proof.
  induction l as [|x l IH]; intros H; [reflexivity|]. cbn. rewrite (H x (or_introl eq_refl)), IH; [reflexivity|].
  intros y Hy. apply H. right. exact Hy.
Qed.

Lemma filter_idem {A} (p : A -> bool) l : filter p (filter p l) = filter p l.
Proof.
  induction l as [|x l IH]; [reflexivity|]. cbn. destruct (p x) eqn:E; [|exact IH]. cbn. rewrite E, IH. reflexivity.
Qed.

Section Step.
  Variable sch : schema.
  Hypothesis Hwf : wf_schema sch = true.

  Notation nf := (s_nf sch).
  Notation lwf := (lwf sch).
  Notation mwf := (mwf sch).
  Notation Inv := (Inv sch).
  Notation kp := (kp sch).

  (* ---------------------------------------------------------------- selectors *)

  Lemma sel_match_from_ok ks sel y b :
    sel_match_from ks sel y = Ok b -> b = smatch_from ks sel y.
  Proof.
    revert sel. induction ks as [|k kr IH]; intros sel H.
    - cbn in H. inversion H. reflexivity.
    - destruct sel as [|s sr]; [cbn in H; inversion H; reflexivity|].
      cbn [sel_match_from] in H. cbn [smatch_from].
      destruct s as [v|]; [|cbn; apply IH; exact H].
      destruct k as [|i|]; [cbn; apply IH; exact H | | discriminate].
      destruct (fld y i) as [w|]; [|inversion H; reflexivity].
      destruct (N.eqb w v); [cbn; apply IH; exact H | inversion H; reflexivity].
  Qed.

  Lemma selector_match_ok sel y b : selector_match sch sel y = Ok b -> b = smatch sch sel y.
  Proof.
    unfold selector_match, smatch. destruct (s_sel sch) as [ks|]; [apply sel_match_from_ok|].
    intros H. inversion H. reflexivity.
  Qed.

  Lemma pinned_by_match ks sel k v y :
    pinned_by ks sel k v = true -> smatch_from ks sel y = true -> fld y k = Some v.
  Proof.
    revert sel. induction ks as [|q kr IH]; intros sel Hp Hm; [destruct sel; discriminate|].
    destruct sel as [|s sr]; [destruct q; discriminate|].
    cbn [smatch_from] in Hm. apply andb_true_iff in Hm. destruct Hm as [Hm1 Hm2].
    destruct q as [|i|]; cbn [pinned_by] in Hp; try (apply (IH sr); assumption).
    destruct s as [w|]; [|apply (IH sr); assumption].
    apply orb_true_iff in Hp. destruct Hp as [Hp|Hp]; [|apply (IH sr); assumption].
    apply andb_true_iff in Hp. destruct Hp as [Hi Hv]. apply Nat.eqb_eq in Hi. apply N.eqb_eq in Hv. subst i w.
    destruct (fld y k) as [w|]; [|discriminate]. apply N.eqb_eq in Hm1. subst. reflexivity.
  Qed.

  (* ---------------------------------------------------------------- normal forms of the local engine *)

  Definition sel_fun (sel : list (option N)) (g : item -> item) (y : item) : item :=
    if smatch sch sel y then g y else y.

  Lemma sel_fun_idem sel g : (forall y, g (g y) = g y) -> forall y, sel_fun sel g (sel_fun sel g y) = sel_fun sel g y.
  Proof.
    intros Hg y. unfold sel_fun. destruct (smatch sch sel y) eqn:E; [|rewrite E; reflexivity].
    destruct (smatch sch sel (g y)); [apply Hg | reflexivity].
  Qed.

  Lemma copy_to_selected_local sel x l d ok :
    copy_to_selected sch false sel x l = Ok (d, ok) ->
    ok = true /\ d = map (sel_fun sel (overlay x)) l.
  Proof.
    revert d ok. induction l as [|y r IH]; intros d ok H.
    - cbn in H. inversion H. split; reflexivity.
    - cbn [copy_to_selected] in H. destruct (selector_match sch sel y) as [b|] eqn:Em; [|discriminate].
      destruct (copy_to_selected sch false sel x r) as [[r' ok']|] eqn:Er; [|discriminate].
      destruct (IH r' ok' eq_refl) as [-> ->]. apply selector_match_ok in Em. subst b.
      rewrite andb_false_r, apply_data_local in H. cbn [map]. unfold sel_fun at 1.
      destruct (smatch sch sel y); inversion H; subst; split; reflexivity.
  Qed.

  Lemma copy_to_all_local x l : copy_to_all sch false x l = (map (overlay x) l, true).
  Proof.
    induction l as [|y r IH]; [reflexivity|]. cbn [copy_to_all]. rewrite IH, andb_false_r, apply_data_local. reflexivity.
  Qed.

  Definition del_nf (f : flt) (l : list item) : list item :=
    match f_sel f, f_elems f with
    | Some sel, Some el => map (sel_fun sel (remove_elems sch el)) l
    | Some sel, None => filter (fun y => negb (smatch sch sel y)) l
    | None, Some el => map (remove_elems sch el) l
    | None, None => l
    end.

  Lemma delete_filtered_local f l d ok :
    delete_filtered sch false f l = Ok (d, ok) -> ok = true /\ d = del_nf f l.
  Proof.
    revert d ok. induction l as [|y r IH]; intros d ok H.
    - cbn in H. inversion H. split; [reflexivity|]. unfold del_nf. destruct (f_sel f), (f_elems f); reflexivity.
    - cbn [delete_filtered] in H.
      destruct (match f_sel f with Some sel => selector_match sch sel y | None => Ok true end) as [b|] eqn:Em; [|discriminate].
      destruct (delete_filtered sch false f r) as [[r' ok']|] eqn:Er; [|discriminate].
      destruct (IH r' ok' eq_refl) as [-> ->]. rewrite andb_false_r in H. unfold del_nf in *.
      destruct (f_sel f) as [sel|], (f_elems f) as [el|]; cbn [restore_wc] in H.
      + apply selector_match_ok in Em. subst b. inversion H. subst. split; [reflexivity|]. cbn [map]. unfold sel_fun at 2.
        destruct (smatch sch sel y); reflexivity.
      + apply selector_match_ok in Em. subst b. inversion H. subst. split; [reflexivity|]. cbn [filter].
        destruct (smatch sch sel y); reflexivity.
      + inversion H. split; reflexivity.
      + inversion H. split; reflexivity.
  Qed.

  (* Merge for a local update *)
  Definition mg (new : list item) (y : item) : item :=
    match find_last_hash sch (hash_key sch y) new with
    | Some x => update_fields sch false y x
    | None => y
    end.

  Lemma merge_local ex new :
    merge sch false ex new =
      (map (mg new) ex ++ filter (fun x => negb (mem_key (hash_key sch x) (map (hash_key sch) ex))) new, true).
  Proof.
    assert (Hok : forallb (fun s1i => negb (is_some (find_last_hash sch (hash_key sch s1i) new) && negb (write_allowed sch s1i) && false)) ex = true).
    { apply forallb_forall. intros y _. rewrite andb_false_r. reflexivity. }
    unfold merge. rewrite Hok. reflexivity.
  Qed.

  (* ---------------------------------------------------------------- key preservation of the item functions *)

  Lemma kp_clear el : elems_ok sch el = true -> kp (clear el).
  Proof.
    intros He y Hy. split; [rewrite clear_length; exact Hy|]. intros i Hi. apply fld_clear.
    unfold elems_ok in He. destruct (s_elems sch); [|discriminate]. apply andb_true_iff in He. destruct He as [_ He].
    rewrite forallb_forall in He. specialize (He i Hi). apply negb_true_iff in He. exact He.
  Qed.

  Lemma kp_sel_fun sel g : kp g -> kp (sel_fun sel g).
  Proof. intros Hg y Hy. unfold sel_fun. destruct (smatch sch sel y); [apply Hg; exact Hy | split; [exact Hy | reflexivity]]. Qed.

  Lemma kp_overlay_nokey x : length x = nf -> no_key_field sch x = true -> kp (overlay x).
  Proof.
    intros Hx Hk y Hy. split; [rewrite overlay_length; exact Hy|]. intros i Hi.
    rewrite fld_overlay by congruence. unfold no_key_field in Hk. rewrite forallb_forall in Hk. specialize (Hk i Hi).
    destruct (fld x i); [discriminate | reflexivity].
  Qed.

  Lemma kp_sel_overlay sel x : length x = nf -> pinned sch sel x = true -> kp (sel_fun sel (overlay x)).
  Proof.
    intros Hx Hp y Hy. unfold sel_fun. destruct (smatch sch sel y) eqn:Em; [|split; [exact Hy | reflexivity]].
    split; [rewrite overlay_length; exact Hy|]. intros i Hi. rewrite fld_overlay by congruence.
    unfold pinned in Hp. rewrite forallb_forall in Hp. specialize (Hp i Hi).
    destruct (fld x i) as [v|]; [|reflexivity]. unfold smatch in Em. destruct (s_sel sch) as [ks|]; [|discriminate].
    symmetry. eapply pinned_by_match; eassumption.
  Qed.

  Lemma remove_elems_is_clear el y : elems_ok sch el = true -> length y = nf -> remove_elems sch el y = clear el y.
  Proof.
    intros He Hy. unfold elems_ok in He. destruct (s_elems sch) as [m|] eqn:Em; [|discriminate].
    apply andb_true_iff in He. destruct He as [He _]. apply Nat.eqb_eq in He.
    eapply (wf_remove_elems sch Hwf); eassumption.
  Qed.

  Lemma del_nf_clear f l : wf_flt sch f = true -> Forall (fun x => length x = nf) l ->
    del_nf f l =
      match f_sel f, f_elems f with
      | Some sel, Some el => map (sel_fun sel (clear el)) l
      | Some sel, None => filter (fun y => negb (smatch sch sel y)) l
      | None, Some el => map (clear el) l
      | None, None => l
      end.
  Proof.
    intros Hf Hl. unfold del_nf, wf_flt in *. apply andb_true_iff in Hf. destruct Hf as [_ He].
    rewrite Forall_forall in Hl.
    destruct (f_sel f) as [sel|], (f_elems f) as [el|]; try reflexivity.
    - apply map_ext_in. intros y Hy. unfold sel_fun. rewrite remove_elems_is_clear by auto. reflexivity.
    - apply map_ext_in. intros y Hy. apply remove_elems_is_clear; auto.
  Qed.

  (* ---------------------------------------------------------------- the delete phase *)

  Lemma Inv_delete f l m : wf_flt sch f = true -> Inv l m -> Inv (del_nf f l) (spec_delete sch f m).
  Proof.
    intros Hf HI. pose proof HI as [[Hlen _] _]. rewrite (del_nf_clear f l Hf Hlen).
    unfold spec_delete. unfold wf_flt in Hf. apply andb_true_iff in Hf. destruct Hf as [_ He].
    destruct (f_sel f) as [sel|], (f_elems f) as [el|].
    - apply (Inv_map sch). apply kp_sel_fun. apply kp_clear. exact He. exact HI.
    - apply (Inv_filter sch Hwf (fun y => negb (smatch sch sel y))). exact HI.
    - apply (Inv_map sch). apply kp_clear. exact He. exact HI.
    - exact HI.
  Qed.

  (* ---------------------------------------------------------------- Merge *)

  Lemma lwf_parts l : lwf l -> Forall (fun x => length x = nf) l /\ Forall (complete sch) l /\ NoDup (keys_of sch l).
  Proof. intros H. exact H. Qed.

  Lemma find_last_hash_lfind new k : lwf new -> find_last_hash sch k new = lfind sch k new.
  Proof.
    induction new as [|x r IH]; intros Hl; [reflexivity|].
    destruct (lwf_cons_inv sch x r Hl) as [_ [[kx Hkx] [Hr Hnot]]]. specialize (IH Hr).
    cbn [find_last_hash lfind]. rewrite IH, Hkx, (wf_hash sch Hwf x kx Hkx).
    destruct (lfind sch k r) as [z|] eqn:Ez.
    - apply lfind_key in Ez. destruct Ez as [Hin Hk]. rewrite eqb_key_sym.
      destruct (eqb_key kx k) eqn:E; [|reflexivity]. apply eqb_key_eq in E. subst k.
      exfalso. apply (Hnot kx Hkx). eapply In_keys_of; eassumption.
    - rewrite eqb_key_sym. reflexivity.
  Qed.

  (* the merged item, for an existing item with identifier ky *)
  Definition mgk (new : list item) (ky : key) (y : item) : item :=
    match lfind sch ky new with Some x => overlay x y | None => y end.

  Lemma mg_mgk new y ky : lwf new -> length y = nf -> key_of sch y = Some ky -> mg new y = mgk new ky y.
  Proof.
    intros Hn Hy Hk. unfold mg, mgk. rewrite (wf_hash sch Hwf y ky Hk), (find_last_hash_lfind new ky Hn).
    destruct (lfind sch ky new) as [x|] eqn:E; [|reflexivity].
    apply (lfind_Some sch new ky x Hn) in E. destruct E as [Hin _]. destruct Hn as [Hlen _]. rewrite Forall_forall in Hlen.
    apply update_fields_local. rewrite Hy. symmetry. apply Hlen. exact Hin.
  Qed.

  Lemma mgk_props new ky y : lwf new -> length y = nf -> key_of sch y = Some ky ->
    length (mgk new ky y) = nf /\ key_of sch (mgk new ky y) = Some ky.
  Proof.
    intros Hn Hy Hk. unfold mgk. destruct (lfind sch ky new) as [x|] eqn:E; [|split; assumption].
    apply (lfind_Some sch new ky x Hn) in E. destruct E as [Hin Hkx]. destruct Hn as [Hlen _]. rewrite Forall_forall in Hlen.
    specialize (Hlen x Hin). split; [rewrite overlay_length; exact Hy|].
    rewrite <- Hk. apply key_of_ext. intros i Hi. rewrite fld_overlay by congruence.
    destruct (key_from_fld (s_keys sch) x ky Hkx i Hi) as [v Hv]. rewrite Hv.
    (* both carry the identifier ky *)
    assert (G : forall keys a b k, key_from keys a = Some k -> key_from keys b = Some k -> forall j, In j keys -> fld a j = fld b j).
    { clear. induction keys as [|q r IH]; intros a b k Ha Hb j Hj; [contradiction|]. cbn in Ha, Hb.
      destruct (fld a q) as [va|] eqn:Ea; [|discriminate]. destruct (key_from r a) as [ka|] eqn:Eka; [|discriminate].
      destruct (fld b q) as [vb|] eqn:Eb; [|discriminate]. destruct (key_from r b) as [kb|] eqn:Ekb; [|discriminate].
      inversion Ha. inversion Hb. subst. inversion H1. subst. destruct Hj as [->|Hj]; [congruence|].
      eapply IH; eassumption. }
    rewrite <- Hv. apply (G (s_keys sch) x y ky Hkx Hk i Hi).
  Qed.

  Definition fresh_of (ex new : list item) : list item :=
    filter (fun x => negb (mem_key (hash_key sch x) (map (hash_key sch) ex))) new.

  Lemma hashes_keys l : lwf l -> map (hash_key sch) l = keys_of sch l.
  Proof.
    induction l as [|x r IH]; intros Hl; [reflexivity|].
    destruct (lwf_cons_inv sch x r Hl) as [_ [[kx Hkx] [Hr _]]]. cbn [map]. rewrite (keys_of_cons sch), Hkx, IH by exact Hr.
    rewrite (wf_hash sch Hwf x kx Hkx). reflexivity.
  Qed.

  (* lookups in a mapped list whose function keeps the identifiers of the list's items *)
  Lemma lfind_map_in g l k :
    (forall y, In y l -> key_of sch (g y) = key_of sch y) -> lfind sch k (map g l) = option_map g (lfind sch k l).
  Proof.
    induction l as [|y r IH]; intros H; [reflexivity|]. cbn [map lfind]. rewrite (H y (or_introl eq_refl)).
    assert (IH' := IH (fun z Hz => H z (or_intror Hz))).
    destruct (key_of sch y) as [ky|]; [|exact IH']. destruct (eqb_key k ky); [reflexivity | exact IH'].
  Qed.

  Lemma keys_of_map_in g l :
    (forall y, In y l -> key_of sch (g y) = key_of sch y) -> keys_of sch (map g l) = keys_of sch l.
  Proof.
    induction l as [|y r IH]; intros H; [reflexivity|]. cbn [map]. rewrite !(keys_of_cons sch), (H y (or_introl eq_refl)).
    rewrite IH by (intros z Hz; apply H; right; exact Hz). reflexivity.
  Qed.

  Lemma lfind_app a b k : lfind sch k (a ++ b) = match lfind sch k a with Some x => Some x | None => lfind sch k b end.
  Proof.
    induction a as [|y r IH]; [reflexivity|]. cbn [app lfind]. destruct (key_of sch y) as [ky|]; [|exact IH].
    destruct (eqb_key k ky); [reflexivity | exact IH].
  Qed.

  Section Merge.
    Variables (ex new : list item) (m : amap).
    Hypothesis HI : Inv ex m.
    Hypothesis Hn : lwf new.

    Let Hex : lwf ex := proj1 HI.

    Definition merged : list item := map (mg new) ex ++ fresh_of ex new.

    Lemma mg_key y : In y ex -> key_of sch (mg new y) = key_of sch y.
    Proof.
      intros Hy. pose proof Hex as [Hlen [Hc _]]. rewrite Forall_forall in Hlen, Hc.
      destruct (Hc y Hy) as [ky Hky]. rewrite (mg_mgk new y ky Hn (Hlen y Hy) Hky), Hky.
      apply mgk_props; auto.
    Qed.

    Lemma fresh_of_spec : fresh_of ex new = filter (fun x => negb (mem_key (match key_of sch x with Some k => k | None => [] end) (keys_of sch ex))) new.
    Proof.
      unfold fresh_of. rewrite (hashes_keys ex Hex). apply filter_ext_in. intros x Hx.
      pose proof Hn as [_ [Hc _]]. rewrite Forall_forall in Hc. destruct (Hc x Hx) as [kx Hkx].
      rewrite Hkx, (wf_hash sch Hwf x kx Hkx). reflexivity.
    Qed.

    Lemma lwf_merged : lwf merged.
    Proof.
      unfold merged. pose proof Hex as [Hlen [Hc Hnd]]. pose proof Hn as [Hnlen [Hnc Hnnd]].
      assert (Hfr : lwf (fresh_of ex new)) by (apply (lwf_filter sch); exact Hn).
      destruct Hfr as [Hflen [Hfc Hfnd]].
      split; [|split].
      - apply Forall_app. split; [|exact Hflen]. rewrite Forall_forall in *. intros z Hz. apply in_map_iff in Hz.
        destruct Hz as [y [<- Hy]]. destruct (Hc y Hy) as [ky Hky]. rewrite (mg_mgk new y ky Hn (Hlen y Hy) Hky).
        apply mgk_props; auto.
      - apply Forall_app. split; [|exact Hfc]. rewrite Forall_forall in *. intros z Hz. apply in_map_iff in Hz.
        destruct Hz as [y [<- Hy]]. destruct (Hc y Hy) as [ky Hky]. exists ky. rewrite (mg_key y Hy). exact Hky.
      - rewrite (keys_of_app sch), (keys_of_map_in (mg new) ex mg_key). apply nodup_app; [exact Hnd | exact Hfnd|].
        intros k Hk Hk2. apply (keys_of_In sch) in Hk2. destruct Hk2 as [x [Hx Hkx]]. rewrite fresh_of_spec in Hx.
        apply filter_In in Hx. destruct Hx as [_ Hx]. rewrite Hkx in Hx. apply negb_true_iff in Hx. apply mem_key_false in Hx.
        contradiction.
    Qed.

    Lemma lfind_merged k :
      lfind sch k merged =
        match lfind sch k new with
        | Some x => Some (match mfind k m with Some y => overlay x y | None => x end)
        | None => mfind k m
        end.
    Proof.
      unfold merged. rewrite lfind_app, (lfind_map_in (mg new) ex k mg_key).
      pose proof HI as [_ [_ [Hfind _]]]. rewrite <- Hfind.
      destruct (lfind sch k ex) as [y|] eqn:Ey.
      - apply (lfind_Some sch ex k y Hex) in Ey. destruct Ey as [Hy Hky]. cbn [option_map].
        pose proof Hex as [Hlen _]. rewrite Forall_forall in Hlen.
        rewrite (mg_mgk new y k Hn (Hlen y Hy) Hky). unfold mgk. destruct (lfind sch k new); reflexivity.
      - cbn [option_map]. apply lfind_None in Ey. rewrite fresh_of_spec.
        rewrite (lfind_filter sch Hwf _ new k Hn). destruct (lfind sch k new) as [x|] eqn:Ex; [|reflexivity].
        apply lfind_key in Ex. destruct Ex as [_ Hkx]. rewrite Hkx.
        destruct (mem_key k (keys_of sch ex)) eqn:Em; [apply mem_key_In in Em; contradiction | reflexivity].
    Qed.
  End Merge.

  (* ---------------------------------------------------------------- the abstract store under upsert *)

  Lemma mfind_upsert k k1 x m :
    mfind k (upsert k1 x m) =
      if eqb_key k k1 then Some (match mfind k1 m with Some y => overlay x y | None => x end) else mfind k m.
  Proof.
    induction m as [|[k' y] r IH].
    - cbn. destruct (eqb_key k k1); reflexivity.
    - cbn [upsert mfind]. destruct (eqb_key k1 k') eqn:E1.
      + apply eqb_key_eq in E1. subst k'. cbn [mfind]. destruct (eqb_key k k1); reflexivity.
      + cbn [mfind]. rewrite IH. destruct (eqb_key k k') eqn:E2; [|reflexivity].
        apply eqb_key_eq in E2. subst k'. destruct (eqb_key k k1) eqn:E3; [|reflexivity].
        apply eqb_key_eq in E3. subst. rewrite eqb_key_refl in E1. discriminate.
  Qed.

  Lemma map_fst_upsert k x m :
    map fst (upsert k x m) = if mem_key k (map fst m) then map fst m else map fst m ++ [k].
  Proof.
    induction m as [|[k' y] r IH]; [reflexivity|]. cbn [upsert map fst mem_key existsb]. fold (mem_key k (map fst r)).
    destruct (eqb_key k k') eqn:E; [reflexivity|]. cbn [map fst orb]. rewrite IH.
    destruct (mem_key k (map fst r)); reflexivity.
  Qed.

  Lemma mwf_upsert k x m : length x = nf -> key_of sch x = Some k -> mwf m -> mwf (upsert k x m).
  Proof.
    intros Hx Hk [Hnd Hf]. split.
    - rewrite map_fst_upsert. destruct (mem_key k (map fst m)) eqn:E; [exact Hnd|].
      apply mem_key_false in E. apply nodup_app; [exact Hnd | constructor; [intros [] | constructor]|].
      intros z Hz [<-|[]]. contradiction.
    - clear Hnd. induction m as [|[k' y] r IH]; [constructor; [split; assumption | constructor]|].
      inversion Hf as [|? ? [Hky Hly] Hf']. subst. cbn [upsert]. cbn [fst snd] in *. destruct (eqb_key k k') eqn:E.
      + apply eqb_key_eq in E. subst k'. constructor; [|exact Hf']. cbn [fst snd]. split; [|rewrite overlay_length; exact Hly].
        rewrite <- Hky. apply key_of_ext. intros i Hi. rewrite fld_overlay by congruence.
        destruct (key_from_fld (s_keys sch) x k Hk i Hi) as [v Hv]. rewrite Hv.
        destruct (key_from_fld (s_keys sch) y k Hky i Hi) as [w Hw]. rewrite Hw.
        (* same identifier *)
        assert (G : forall keys a b kk, key_from keys a = Some kk -> key_from keys b = Some kk -> forall j, In j keys -> fld a j = fld b j).
        { clear. induction keys as [|q r0 IH]; intros a b kk Ha Hb j Hj; [contradiction|]. cbn in Ha, Hb.
          destruct (fld a q) as [va|] eqn:Ea; [|discriminate]. destruct (key_from r0 a) as [ka|] eqn:Eka; [|discriminate].
          destruct (fld b q) as [vb|] eqn:Eb; [|discriminate]. destruct (key_from r0 b) as [kb|] eqn:Ekb; [|discriminate].
          inversion Ha. inversion Hb. subst. inversion H1. subst. destruct Hj as [->|Hj]; [congruence|].
          eapply IH; eassumption. }
        rewrite <- Hv, <- Hw. apply (G (s_keys sch) x y k Hk Hky i Hi).
      + constructor; [split; assumption | apply IH; exact Hf'].
  Qed.

  Definition ups (m : amap) (x : item) : amap := match key_of sch x with Some k => upsert k x m | None => m end.

  Lemma mwf_fold_ups new m : Forall (fun x => length x = nf) new -> mwf m -> mwf (fold_left ups new m).
  Proof.
    revert m. induction new as [|x r IH]; intros m Hl Hm; [exact Hm|]. inversion Hl. subst. cbn [fold_left].
    apply IH; [assumption|]. unfold ups. destruct (key_of sch x) as [k|] eqn:E; [|exact Hm].
    apply mwf_upsert; assumption.
  Qed.

  Lemma mfind_fold_ups new : forall m k, lwf new ->
    mfind k (fold_left ups new m) =
      match lfind sch k new with
      | Some x => Some (match mfind k m with Some y => overlay x y | None => x end)
      | None => mfind k m
      end.
  Proof.
    induction new as [|x r IH]; intros m k Hl; [reflexivity|].
    destruct (lwf_cons_inv sch x r Hl) as [_ [[kx Hkx] [Hr Hnot]]]. cbn [fold_left lfind]. rewrite (IH _ k Hr).
    assert (Hu : mfind k (ups m x) =
      if eqb_key k kx then Some (match mfind kx m with Some y => overlay x y | None => x end) else mfind k m).
    { unfold ups. rewrite Hkx. apply mfind_upsert. }
    rewrite Hu, Hkx. destruct (eqb_key k kx) eqn:E.
    - apply eqb_key_eq in E. subst kx. assert (Hn : lfind sch k r = None) by (apply lfind_None; apply Hnot; exact Hkx).
      rewrite Hn. reflexivity.
    - reflexivity.
  Qed.

  (* ---------------------------------------------------------------- Merge + SortData preserves the invariant *)

  Lemma lwf_ids l : lwf l -> Forall (fun y => has_identifiers sch y = true) l.
  Proof.
    intros [_ [Hc _]]. rewrite Forall_forall in *. intros y Hy. apply (complete_ids sch). apply Hc. exact Hy.
  Qed.

  Lemma Inv_merge ex new m : Inv ex m -> lwf new ->
    Inv (isort sch (merged ex new)) (fold_left ups new m).
  Proof.
    intros HI Hn. pose proof (lwf_merged ex new m HI Hn) as Hm.
    pose proof (Permutation_sym (isort_perm sch (merged ex new))) as P.
    split; [eapply (lwf_perm sch); eassumption|]. split; [apply isort_ordered; apply lwf_ids; exact Hm|]. split.
    - intros k. rewrite (lfind_perm sch _ _ k P Hm), (lfind_merged ex new m HI Hn k), (mfind_fold_ups new m k Hn). reflexivity.
    - apply mwf_fold_ups; [apply Hn | apply HI].
  Qed.
End Step.
