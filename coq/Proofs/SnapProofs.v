(* C11 — proofs about Model/SnapStore.v (the repaired variant, fixed = true): every effect of an
   update is an allocation, a write to an array or outer struct allocated by this very update,
   or the final replacement of the stored pointer; hence everything handed out earlier keeps
   its value, at the end of the operation and at every point inside it. *)
From Verif Require Import Base.Prelude Model.Schema Model.Slices Model.SnapStore Spec.SnapSpec Proofs.SliceLogic.

Section EngineProofs.
  Variables ba bo : nat.
  Variable grow : nat -> nat -> nat.
  Variable sch : schema.
  Variable q : quirks.

  Notation triple := (triple ba bo).
  Notation good := (good ba bo).

  (* a slice this update may write through: empty, or over an array it allocated itself *)
  Definition own (sl : slice) : Prop := (s_len sl = 0 /\ s_cap sl = 0)%nat \/ (ba <= s_arr sl)%nat.

  Lemma own_nil : own nil_slice.
  Proof. left. split; reflexivity. Qed.

  Lemma triple_get_bind {A B} (P : mem -> Prop) (f : mem -> A) (k : A -> prog B) (Q : B -> mem -> Prop) :
    (forall a, triple P (k a) Q) -> triple P (bind (get f) k) Q.
  Proof.
    intros H. eapply triple_bind with (R := fun _ m => P m).
    - apply triple_get. auto.
    - exact H.
  Qed.

  Lemma triple_get_bind_eq {A B} (P : mem -> Prop) (f : mem -> A) (k : A -> prog B) (Q : B -> mem -> Prop) :
    (forall a, triple (fun m => P m /\ a = f m) (k a) Q) -> triple P (bind (get f) k) Q.
  Proof.
    intros H. eapply triple_bind with (R := fun a m => P m /\ a = f m).
    - apply triple_get. auto.
    - exact H.
  Qed.

  Lemma triple_false {A} (p : prog A) (Q : A -> mem -> Prop) : triple (fun _ => False) p Q.
  Proof. intros m _ []. Qed.

  Lemma triple_pure {A} (X : Prop) (P : mem -> Prop) (p : prog A) (Q : A -> mem -> Prop) :
    (X -> triple P p Q) -> triple (fun m => X /\ P m) p Q.
  Proof. intros H m Hg [Hx HP]. apply (H Hx m Hg HP). Qed.

  Lemma triple_write (sl : slice) i c :
    triple (fun _ => (ba <= s_arr sl)%nat) (write sl i c) (fun _ _ => True).
  Proof. apply triple_emit. intros m _ H. simpl. auto. Qed.

  (* write, keeping a stable fact *)
  Lemma triple_write_keep (F : mem -> Prop) (sl : slice) i c :
    stable F ->
    triple (fun m => (ba <= s_arr sl)%nat /\ F m) (write sl i c) (fun _ m => F m).
  Proof.
    intros HF. eapply triple_conseq.
    - apply (triple_frame ba bo _ _ _ F (triple_write sl i c) HF).
    - auto.
    - simpl. intros _ m _ [_ H]. exact H.
  Qed.

  Lemma triple_alloc_arr cs :
    triple (fun _ => True) (alloc_arr cs) (fun sl m => valid m sl /\ own sl).
  Proof.
    intros m Hg _. destruct cs as [|c cs]; simpl.
    - split; auto. split. apply valid_nil. apply Hg. apply own_nil.
    - split; [auto|]. split.
      + unfold valid, narr. simpl. rewrite app_length. simpl. lia.
      + right. simpl. destruct Hg as [_ [H _]]. exact H.
  Qed.

  Lemma triple_alloc_obj sl :
    triple (fun m => valid m sl) (alloc_obj sl)
           (fun p m => (bo <= p)%nat /\ (p < nobj m)%nat /\ obj m p = sl).
  Proof.
    intros m Hg Hv. simpl. split; [auto|].
    destruct Hg as [_ [_ Hbo]]. unfold nobj, obj in *. simpl. rewrite app_length. simpl.
    split; [exact Hbo|]. split; [lia|].
    rewrite app_nth2 by lia. rewrite Nat.sub_diag. reflexivity.
  Qed.

  Lemma triple_append sl c :
    triple (fun m => valid m sl /\ own sl) (append grow sl c) (fun r m => valid m r /\ own r).
  Proof.
    intros m Hg [Hv Ho]. unfold append.
    destruct (Nat.ltb (s_len sl) (s_cap sl)) eqn:E.
    - apply Nat.ltb_lt in E.
      assert (Ha : (ba <= s_arr sl)%nat) by (destruct Ho as [[? ?]|?]; [lia|assumption]).
      simpl. split; [auto|]. split.
      + unfold valid, narr in *. simpl. rewrite upd_nth_length. exact Hv.
      + right. exact Ha.
    - simpl. split; [auto|]. split.
      + unfold valid, narr. simpl. rewrite app_length. simpl. lia.
      + right. simpl. destruct Hg as [_ [H _]]. exact H.
  Qed.

  (* ---- the loops ---- *)

  Lemma triple_true_write (sl : slice) i c :
    (ba <= s_arr sl)%nat -> triple (fun _ => True) (write sl i c) (fun _ _ => True).
  Proof. intros H. eapply triple_conseq; [apply triple_write| |]; simpl; auto. Qed.

  Lemma triple_seq {A B} (P R : mem -> Prop) (p : prog A) (k : prog B) (Q : B -> mem -> Prop) :
    triple P p (fun _ m => R m) -> triple R k Q -> triple P (bind p (fun _ => k)) Q.
  Proof. intros H1 H2. eapply triple_bind; [exact H1|]. intros a. exact H2. Qed.

  Lemma triple_sel_loop remote sel n0 ex : forall idx ok,
    idx = [] \/ (ba <= s_arr ex)%nat ->
    triple (fun _ => True) (sel_loop sch q remote sel n0 ex idx ok) (fun _ _ => True).
  Proof.
    induction idx as [|i r IH]; intros ok H; cbn [sel_loop].
    - apply triple_ret. auto.
    - assert (Ha : (ba <= s_arr ex)%nat) by (destruct H; [discriminate|assumption]).
      apply triple_get_bind. intros it.
      destruct (selector_match sch q sel it) as [[|]|].
      + destruct (negb (write_allowed sch it) && remote).
        * apply IH. auto.
        * eapply triple_seq; [apply triple_true_write; exact Ha|].
          destruct (q_nobreak q); [apply IH; auto | apply triple_ret; auto].
      + apply IH. auto.
      + apply triple_ret. auto.
  Qed.

  Lemma triple_all_loop remote n0 ex : forall idx ok,
    idx = [] \/ (ba <= s_arr ex)%nat ->
    triple (fun _ => True) (all_loop sch q remote n0 ex idx ok) (fun _ _ => True).
  Proof.
    induction idx as [|i r IH]; intros ok H; cbn [all_loop].
    - apply triple_ret. auto.
    - assert (Ha : (ba <= s_arr ex)%nat) by (destruct H; [discriminate|assumption]).
      apply triple_get_bind. intros it.
      destruct (negb (write_allowed sch it) && remote).
      + apply IH. auto.
      + eapply triple_seq; [apply triple_true_write; exact Ha|]. apply IH. auto.
  Qed.

  Lemma triple_pure_r {A} (X : Prop) (P : mem -> Prop) (p : prog A) (Q : A -> mem -> Prop) :
    (X -> triple P p Q) -> triple (fun m => P m /\ X) p Q.
  Proof. intros H m Hg [HP Hx]. apply (H Hx m Hg HP). Qed.

  Lemma triple_write_stable (F : mem -> Prop) (sl : slice) i c :
    stable F -> (ba <= s_arr sl)%nat -> triple F (write sl i c) (fun _ m => F m).
  Proof.
    intros HF Ha. eapply triple_conseq; [apply (triple_write_keep F sl i c HF)| |]; simpl; auto.
  Qed.

  Lemma triple_append_own sl c :
    own sl -> triple (fun m => valid m sl) (append grow sl c) (fun r m => valid m r /\ own r).
  Proof. intros Ho. eapply triple_conseq; [apply (triple_append sl c)| |]; simpl; auto. Qed.

  Lemma triple_del_body remote f ex i it addressed result :
    (ba <= s_arr ex)%nat -> own result ->
    triple (fun m => valid m result) (del_body grow sch q remote f ex i it addressed result)
           (fun r m => valid m r /\ own r).
  Proof.
    intros Ha Ho. unfold del_body.
    assert (Hw : forall c, triple (fun m => valid m result)
                (write ex i c ;;; (it' <- get (fun m => rd m ex i) ;; append grow result it'))
                (fun r m => valid m r /\ own r)).
    { intros c. eapply triple_seq.
      - apply (triple_write_stable (fun m => valid m result)); [apply stable_valid | exact Ha].
      - apply triple_get_bind. intros it'. apply triple_append_own. exact Ho. }
    destruct (f_sel f) as [s|], (f_elems f) as [el|].
    - destruct addressed; [apply Hw | apply triple_append_own; exact Ho].
    - destruct addressed; [apply triple_ret; auto | apply triple_append_own; exact Ho].
    - apply Hw.
    - apply triple_append_own; exact Ho.
  Qed.

  Definition slice_post (r : res (slice * bool)) (m : mem) : Prop :=
    match r with Ok (d, _) => valid m d /\ own d | Panic => True end.

  Lemma triple_del_loop remote f ex : forall idx result ok,
    idx = [] \/ (ba <= s_arr ex)%nat -> own result ->
    triple (fun m => valid m result) (del_loop grow sch q remote f ex idx result ok) slice_post.
  Proof.
    induction idx as [|i r IH]; intros result ok H Ho; cbn [del_loop].
    - apply triple_ret. simpl. auto.
    - assert (Ha : (ba <= s_arr ex)%nat) by (destruct H; [discriminate|assumption]).
      apply triple_get_bind. intros it.
      assert (Hb : forall addressed ok', triple (fun m => valid m result)
                (result' <- del_body grow sch q remote f ex i it addressed result ;; del_loop grow sch q remote f ex r result' ok')
                slice_post).
      { intros addressed ok'. eapply triple_bind.
        - apply triple_del_body; assumption.
        - intros result'. apply triple_pure_r. intros Ho'. apply IH; auto. }
      destruct (q_deladdr q).
      + destruct (match f_sel f with Some s => selector_match sch q s it | None => Ok true end) as [addressed|].
        * destruct (addressed && negb (write_allowed sch it) && remote); [apply IH; auto | apply Hb].
        * apply triple_ret. simpl. auto.
      + destruct (negb (write_allowed sch it) && remote); [apply IH; auto|].
        destruct (match f_sel f with Some s => selector_match sch q s it | None => Ok true end) as [addressed|].
        * apply Hb.
        * apply triple_ret. simpl. auto.
  Qed.

  Lemma triple_merge1 remote l2 : forall l1 result ok,
    own result ->
    triple (fun m => valid m result) (merge1 grow sch q remote l2 l1 result ok)
           (fun r m => valid m (fst r) /\ own (fst r)).
  Proof.
    induction l1 as [|s1i r IH]; intros result ok Ho; cbn [merge1].
    - apply triple_ret. simpl. auto.
    - cbv zeta. eapply triple_bind.
      + apply triple_append_own. exact Ho.
      + intros result'. apply triple_pure_r. intros Ho'. apply IH. exact Ho'.
  Qed.

  Lemma triple_merge2 hashes1 : forall l2 result,
    own result ->
    triple (fun m => valid m result) (merge2 grow sch hashes1 l2 result)
           (fun r m => valid m r /\ own r).
  Proof.
    induction l2 as [|s2i r IH]; intros result Ho; cbn [merge2].
    - apply triple_ret. simpl. auto.
    - destruct (mem_key (hash_key sch s2i) hashes1).
      + apply IH. exact Ho.
      + eapply triple_bind.
        * apply triple_append_own. exact Ho.
        * intros result'. apply triple_pure_r. intros Ho'. apply IH. exact Ho'.
  Qed.

  Lemma triple_merge remote s1 s2 :
    triple (fun _ => True) (merge grow sch q remote s1 s2) (fun r m => valid m (fst r) /\ own (fst r)).
  Proof.
    unfold merge. apply triple_get_bind. intros l1. apply triple_get_bind. intros l2.
    eapply triple_bind.
    - eapply triple_conseq; [apply (triple_merge1 remote l2 l1 nil_slice true own_nil)| |].
      + simpl. intros m Hg _. apply valid_nil. apply Hg.
      + simpl. intros a m _ H. exact H.
    - intros [result ok]. simpl fst. destruct remote.
      + apply triple_ret. simpl. auto.
      + apply triple_pure_r. intros Ho. eapply triple_bind.
        * apply triple_merge2. exact Ho.
        * intros result'. apply triple_ret. simpl. auto.
  Qed.

  Lemma triple_write_back (F : mem -> Prop) sl : stable F -> (ba <= s_arr sl)%nat ->
    forall old new i, triple F (write_back sl i old new) (fun _ m => F m).
  Proof.
    intros HF Ha. induction old as [|o orest IH]; intros new i; cbn [write_back].
    - apply triple_ret. auto.
    - destruct new as [|n nrest].
      + apply triple_ret. auto.
      + eapply triple_seq with (R := F).
        * destruct (eqb_cell o n); [apply triple_ret; auto | apply triple_write_stable; assumption].
        * apply IH.
  Qed.

  Lemma triple_sort_data sl :
    own sl -> triple (fun m => valid m sl) (sort_data sch sl) (fun r m => valid m r /\ own r).
  Proof.
    intros Ho. unfold sort_data.
    destruct (s_len sl) eqn:El.
    - apply triple_ret. auto.
    - destruct (s_keys sch).
      + apply triple_ret. auto.
      + assert (Ha : (ba <= s_arr sl)%nat) by (destruct Ho as [[? ?]|?]; [lia|assumption]).
        apply triple_get_bind. intros l0. eapply triple_seq with (R := fun m => valid m sl).
        * apply (triple_write_back (fun m => valid m sl)); [apply stable_valid | exact Ha].
        * apply triple_ret. auto.
  Qed.

  Lemma own_idx sl : own sl -> seq 0 (s_len sl) = [] \/ (ba <= s_arr sl)%nat.
  Proof. intros [[H _]|H]; [left; rewrite H; reflexivity | right; exact H]. Qed.

  Definition valid_post (r : res (slice * bool)) (m : mem) : Prop :=
    match r with Ok (d, _) => valid m d | Panic => True end.

  Lemma triple_update_list remote ex new fp fd :
    own ex -> triple (fun m => valid m ex) (update_list grow sch q remote ex new fp fd) valid_post.
  Proof.
    intros Ho. unfold update_list.
    eapply triple_bind with (R := slice_post).
    - destruct (filter_data fd) as [f|].
      + eapply triple_bind.
        * eapply triple_conseq; [apply (triple_frame ba bo _ _ _ (fun m => valid m ex)
                                          (triple_del_loop remote f ex (seq 0 (s_len ex)) nil_slice true (own_idx ex Ho) own_nil)
                                          (stable_valid ex))| |].
          -- simpl. intros m Hg Hv. split; [apply valid_nil; apply Hg | exact Hv].
          -- simpl. intros a m _ H. exact H.
        * intros [[upd [|]]|]; apply triple_ret; simpl; intros m _ [H1 H2]; auto.
      + apply triple_ret. simpl. auto.
    - intros [[ex1 ok0]|]; [|apply triple_ret; simpl; auto].
      unfold slice_post. apply triple_pure_r. intros Ho1.
      destruct (filter_data fp) as [f|].
      + destruct (Nat.eqb (s_len new) 0); [destruct (q_emptysel q); apply triple_ret; simpl; auto|].
        apply triple_get_bind. intros n0.
        destruct (f_sel f) as [sel|]; [|apply triple_ret; simpl; auto].
        eapply triple_bind.
        * eapply triple_conseq; [apply (triple_frame ba bo _ _ _ (fun m => valid m ex1)
                                          (triple_sel_loop remote sel n0 ex1 (seq 0 (s_len ex1)) true (own_idx ex1 Ho1))
                                          (stable_valid ex1))| |].
          -- simpl. auto.
          -- simpl. intros a m _ H. exact H.
        * intros [ok|]; apply triple_ret; simpl; intros m _ [_ H]; auto.
      + apply triple_get_bind. intros n0.
        destruct (negb (Nat.eqb (s_len new) 0) && negb (has_identifiers sch n0)).
        * eapply triple_bind.
          -- eapply triple_conseq; [apply (triple_frame ba bo _ _ _ (fun m => valid m ex1)
                                          (triple_all_loop remote n0 ex1 (seq 0 (s_len ex1)) true (own_idx ex1 Ho1))
                                          (stable_valid ex1))| |].
             ++ simpl. auto.
             ++ simpl. intros a m _ H. exact H.
          -- intros ok. apply triple_ret. simpl. intros m _ [_ H]. auto.
        * eapply triple_bind.
          -- eapply triple_conseq; [apply (triple_merge remote ex1 new)| |].
             ++ simpl. auto.
             ++ intros a m _ H. exact H.
          -- intros [d ok]. simpl fst. apply triple_pure_r. intros Hod.
             eapply triple_bind; [apply triple_sort_data; exact Hod|].
             intros d'. apply triple_ret. simpl. intros m _ [H _]. exact H.
  Qed.

  Lemma triple_per_type remote persist recv new fp fd :
    (bo <= recv)%nat ->
    triple (fun m => valid m (obj m recv) /\ own (obj m recv))
           (per_type grow sch q remote persist recv new fp fd) valid_post.
  Proof.
    intros Hr. unfold per_type. apply triple_get_bind_eq. intros ex.
    eapply triple_conseq with (P' := fun m => valid m ex /\ own ex) (Q' := valid_post).
    2: { simpl. intros m _ [[H1 H2] ->]. auto. }
    2: { auto. }
    apply triple_pure_r. intros Ho.
    eapply triple_bind; [apply triple_update_list; exact Ho|].
    intros [[d [|]]|]; try (apply triple_ret; simpl; auto).
    eapply triple_seq with (R := fun m => valid m d).
    - destruct persist.
      + apply triple_emit. intros m Hg Hv. split; [simpl; split; assumption|].
        eapply valid_mono; [apply (apply_mono m (EWriteObj recv d)) | exact Hv].
      + apply triple_ret. simpl. auto.
    - apply triple_ret. simpl. auto.
  Qed.

  Lemma triple_clone_data st :
    triple (fun m => forall p, st = Some p -> (p < nobj m)%nat) (clone_data st)
           (fun w m => (bo <= w)%nat /\ (w < nobj m)%nat /\ valid m (obj m w) /\ own (obj m w)).
  Proof.
    unfold clone_data. destruct st as [p|].
    - apply triple_get_bind. intros cs.
      eapply triple_bind.
      + eapply triple_conseq; [apply (triple_alloc_arr cs)| |].
        * simpl. auto.
        * intros a m _ H. exact H.
      + intros sl. apply triple_pure_r. intros Ho.
        eapply triple_conseq; [apply (triple_alloc_obj sl)| |].
        * simpl. auto.
        * simpl. intros w m Hg [H1 [H2 H3]]. rewrite H3. repeat split; auto.
          rewrite <- H3. apply Hg. exact H2.
    - eapply triple_conseq; [apply (triple_alloc_obj nil_slice)| |].
      + simpl. intros m Hg _. apply valid_nil. apply Hg.
      + simpl. intros w m Hg [H1 [H2 H3]]. rewrite H3. repeat split; auto.
        * apply valid_nil. apply Hg.
        * apply own_nil.
  Qed.
End EngineProofs.

(* ---- one whole update of the repaired code ---- *)

Lemma oks_false_storep ba bo : forall l m, oks ba bo false m l -> storep (replay l m) = storep m.
Proof.
  induction l as [|e r IH]; intros m H; simpl in *; auto.
  destruct H as [He Hr]. rewrite (IH _ Hr).
  destruct e as [ | | | | [p|]]; simpl in *; auto; [destruct He as [He _]|]; discriminate.
Qed.

Lemma exec_get_bind {A B} (f : mem -> A) (k : A -> prog B) m :
  exec (bind (get f) k) m = exec (k (f m)) m.
Proof. reflexivity. Qed.

Section UpdateProofs.
  Variables ba bo : nat.
  Variable grow : nat -> nat -> nat.
  Variable sch : schema.
  Variable q : quirks.

  Lemma exec_update_data_fixed remote persist parg fp fd m r m' l :
    good ba bo m -> (parg < nobj m)%nat ->
    exec (update_data grow sch q true remote persist parg fp fd) m = (r, m', l) ->
    oks ba bo true m l /\
    (forall p, r = UObj p -> p = parg) /\
    (forall d, r = UList d -> valid m' d) /\
    (persist = false \/ succeeded r = false -> oks ba bo false m l).
  Proof.
    intros Hg Hp E. unfold update_data in E.
    destruct (persist && negb (is_some fp) && negb (is_some fd)) eqn:Ec.
    - simpl in E. inversion E; subst. split; [|split; [|split]].
      + simpl. auto.
      + intros p H. inversion H. reflexivity.
      + intros d H. discriminate.
      + intros [H|H]; [|discriminate]. subst persist. discriminate.
    - rewrite exec_get_bind in E. rewrite exec_get_bind in E. cbv iota in E.
      rewrite exec_bind in E.
      destruct (exec (clone_data (storep m)) m) as [[work m1] l1] eqn:E1.
      destruct (triple_post ba bo _ _ _ _ _ _ _ (triple_clone_data ba bo (storep m)) Hg
                  (fun p H => proj1 (proj2 (proj1 Hg)) p H) E1) as [Ho1 [[Hw1 [Hw2 [Hw3 Hw4]]] [Hg1 Hm1]]].
      rewrite exec_bind in E.
      destruct (exec (per_type grow sch q remote persist work (obj m parg) fp fd) m1) as [[r2 m2] l2] eqn:E2.
      destruct (triple_post ba bo _ _ _ _ _ _ _ (triple_per_type ba bo grow sch q remote persist work (obj m parg) fp fd Hw1) Hg1
                  (conj Hw3 Hw4) E2) as [Ho2 [Hv2 [Hg2 Hm2]]].
      pose proof (exec_replay _ _ _ _ _ _ E1) as R1.
      assert (Ho12 : oks ba bo false m (l1 ++ l2)).
      { apply oks_app. split; auto. rewrite <- R1. exact Ho2. }
      destruct r2 as [[d [|]]|].
      + (* success *)
        destruct persist.
        * simpl in E. inversion E; subst. split; [|split; [|split]].
          -- rewrite app_assoc. apply oks_app. split; [apply oks_weaken; exact Ho12|].
             rewrite replay_app. rewrite <- (exec_replay _ _ _ _ _ _ E2).
             simpl. split; auto. split; auto. destruct Hm2. lia.
          -- intros p H. discriminate.
          -- intros d0 H. inversion H; subst. simpl in Hv2.
             eapply valid_mono; [apply (apply_mono m2 (EStore (Some work))) | exact Hv2].
          -- intros [H|H]; discriminate.
        * simpl in E. inversion E; subst. rewrite app_nil_r. split; [|split; [|split]].
          -- apply oks_weaken. exact Ho12.
          -- intros p H. discriminate.
          -- intros d0 H. inversion H; subst. exact Hv2.
          -- intros _. exact Ho12.
      + simpl in E. inversion E; subst. rewrite app_nil_r. split; [|split; [|split]].
        * apply oks_weaken. exact Ho12.
        * intros p H. discriminate.
        * intros d0 H. discriminate.
        * intros _. exact Ho12.
      + simpl in E. inversion E; subst. rewrite app_nil_r. split; [|split; [|split]].
        * apply oks_weaken. exact Ho12.
        * intros p H. discriminate.
        * intros d0 H. discriminate.
        * intros _. exact Ho12.
  Qed.
End UpdateProofs.

(* ---- what the application holds ---- *)

(* an object handed out lives entirely below the bounds (ba arrays, bo outer structs) *)
Definition closed (ba bo : nat) (m : mem) (h : hand) : Prop :=
  match h with
  | HObj p => (p < bo)%nat /\ (s_arr (obj m p) < ba)%nat
  | HList sl => (s_arr sl < ba)%nat
  end.

Lemma closed_mono ba bo ba' bo' m h :
  (ba <= ba')%nat -> (bo <= bo')%nat -> closed ba bo m h -> closed ba' bo' m h.
Proof. destruct h; simpl; intros; intuition lia. Qed.

Lemma frame_val ba bo m m' h :
  closed ba bo m h -> agree ba bo m m' -> val m' h = val m h /\ closed ba bo m' h.
Proof.
  intros Hc [Ha Ho]. destruct h as [p|sl]; simpl in *.
  - destruct Hc as [Hp Hs].
    assert (Eo : obj m' p = obj m p) by (unfold obj; apply Ho; exact Hp).
    unfold val, header, items, arr_of. rewrite Eo. rewrite Ha by exact Hs. auto.
  - unfold val, header, items, arr_of. rewrite Ha by exact Hc. auto.
Qed.

Definition sval (m : mem) : option (list cell) :=
  match storep m with Some p => Some (val m (HObj p)) | None => None end.

Lemma eqb_oN_refl a : eqb_oN a a = true.
Proof. destruct a; simpl; auto using N.eqb_refl. Qed.
Lemma eqb_cell_refl : forall c, eqb_cell c c = true.
Proof. induction c; simpl; auto. rewrite eqb_oN_refl. auto. Qed.
Lemma eqb_cells_refl : forall l, eqb_cells l l = true.
Proof. induction l; simpl; auto. rewrite eqb_cell_refl. auto. Qed.
Lemma eqb_store_refl a : eqb_store a a = true.
Proof. destruct a; simpl; auto using eqb_cells_refl. Qed.

Lemma check_changed_same m : forall hs k,
  Forall (fun hv => val m (fst hv) = snd hv) hs -> check_changed m hs k = (hs, []).
Proof.
  induction hs as [|[h v] r IH]; intros k H; simpl; auto.
  inversion H; subst. simpl in *. rewrite (IH (S k) H3). subst v. rewrite eqb_cells_refl. reflexivity.
Qed.

Definition news_entries (m : mem) (news : list (N * hand)) : list (hand * list cell) :=
  map (fun kh => (snd kh, val m (snd kh))) news.

Lemma hand_outs_spec m : forall news hs,
  fst (hand_outs m news hs) = hs ++ news_entries m news /\
  res_of (snd (hand_outs m news hs)) = [] /\
  changed_of (snd (hand_outs m news hs)) = [] /\
  outs_of (snd (hand_outs m news hs)) = length news /\
  store_of (snd (hand_outs m news hs)) =
    flat_map (fun kh => if N.eqb (fst kh) 0 then [Some (val m (snd kh))] else []) news.
Proof.
  induction news as [|[kind h] r IH]; intros hs; simpl.
  - rewrite app_nil_r. auto.
  - unfold hand_out.
    destruct (hand_outs m r (hs ++ [(h, val m h)])) as [hs2 os] eqn:E.
    specialize (IH (hs ++ [(h, val m h)])). rewrite E in IH. simpl in IH.
    destruct IH as [I1 [I2 [I3 [I4 I5]]]]. simpl.
    split; [rewrite I1, <- app_assoc; reflexivity|].
    split; [exact I2|]. split; [exact I3|].
    split; [unfold outs_of in *; simpl; rewrite I4; reflexivity|].
    rewrite I5. destruct (N.eqb kind 0); reflexivity.
Qed.

Lemma res_of_app a b : res_of (a ++ b) = res_of a ++ res_of b.
Proof. unfold res_of. apply flat_map_app. Qed.
Lemma store_of_app a b : store_of (a ++ b) = store_of a ++ store_of b.
Proof. unfold store_of. apply flat_map_app. Qed.
Lemma changed_of_app a b : changed_of (a ++ b) = changed_of a ++ changed_of b.
Proof. unfold changed_of. apply flat_map_app. Qed.
Lemma outs_of_app a b : outs_of (a ++ b) = (outs_of a + outs_of b)%nat.
Proof. unfold outs_of. rewrite filter_app, app_length. reflexivity. Qed.

Lemma exec_data_copy m :
  exec data_copy m =
  match storep m with
  | None => (None, m, [])
  | Some p => (Some (nobj m), apply_eff m (EAllocObj (obj m p)), [EAllocObj (obj m p)])
  end.
Proof. unfold data_copy. rewrite exec_get_bind. destruct (storep m); reflexivity. Qed.

Lemma obj_alloc_new m sl : obj (apply_eff m (EAllocObj sl)) (nobj m) = sl.
Proof. unfold obj, nobj. simpl. rewrite app_nth2 by lia. rewrite Nat.sub_diag. reflexivity. Qed.

Lemma obj_alloc_old m sl p : (p < nobj m)%nat -> obj (apply_eff m (EAllocObj sl)) p = obj m p.
Proof. unfold obj, nobj. simpl. intros. apply app_nth1. assumption. Qed.

Lemma val_alloc_obj m sl h : val (apply_eff m (EAllocObj sl)) h = items m (header (apply_eff m (EAllocObj sl)) h).
Proof. reflexivity. Qed.

(* DataCopy hands out the value of the stored data and changes nothing *)
Lemma data_copy_facts ba bo m c m' l :
  good ba bo m -> exec data_copy m = (c, m', l) ->
  oks ba bo false m l /\ storep m' = storep m /\
  match c with
  | Some c' => (c' < nobj m')%nat /\ Some (val m' (HObj c')) = sval m'
  | None => sval m' = None
  end.
Proof.
  intros Hg E. rewrite exec_data_copy in E. unfold sval.
  destruct (storep m) as [p|] eqn:Es; inversion E; subst.
  - assert (Hp : (p < nobj m)%nat) by (apply Hg; exact Es).
    split. { simpl. split; auto. apply Hg. exact Hp. }
    split. { simpl. exact Es. }
    change (storep (apply_eff m (EAllocObj (obj m p)))) with (storep m). rewrite Es.
    split. { unfold nobj. simpl. rewrite app_length. simpl. lia. }
    simpl. unfold val, header, obj, nobj in *. simpl.
    rewrite app_nth2 by lia. rewrite Nat.sub_diag. simpl.
    rewrite (app_nth1 _ _ _ Hp). reflexivity.
  - split; [simpl; auto|]. split; [congruence|]. rewrite Es. reflexivity.
Qed.

Lemma read_back_facts ba bo rb m c m' l :
  good ba bo m -> exec (read_back rb) m = (c, m', l) ->
  oks ba bo false m l /\ storep m' = storep m /\
  (if rb then
     match c with
     | Some c' => (c' < nobj m')%nat /\ Some (val m' (HObj c')) = sval m'
     | None => sval m' = None
     end
   else c = None).
Proof.
  intros Hg E. destruct rb; simpl in E.
  - exact (data_copy_facts ba bo m c m' l Hg E).
  - inversion E; subst. simpl. auto.
Qed.

Section StepProofs.
  Variable grow : nat -> nat -> nat.

  Lemma good_self m : wf m -> good (narr m) (nobj m) m.
  Proof. intros H. split; auto. Qed.

  (* one whole update of the repaired code *)
  Lemma exec_update_prog sch q remote persist rb new fp fd m r parg c m' l :
    wf m ->
    exec (update_prog grow sch q true remote persist rb new fp fd) m = (r, parg, c, m', l) ->
    oks (narr m) (nobj m) true m l /\ wf m' /\ mono m m' /\
    (parg < nobj m')%nat /\
    (forall d, r = UList d -> valid m' d) /\ (forall p, r = UObj p -> p = parg) /\
    (if rb then
       match c with
       | Some c' => (c' < nobj m')%nat /\ Some (val m' (HObj c')) = sval m'
       | None => sval m' = None
       end
     else c = None) /\
    (persist = false \/ succeeded r = false -> oks (narr m) (nobj m) false m l).
  Proof.
    intros Hwf E. set (ba := narr m) in *. set (bo := nobj m) in *.
    assert (Hg : good ba bo m) by (apply good_self; exact Hwf).
    unfold update_prog in E.
    rewrite exec_bind in E.
    destruct (exec (alloc_arr new) m) as [[sl m1] l1] eqn:E1.
    destruct (triple_post ba bo _ _ _ _ _ _ _ (triple_alloc_arr ba bo new) Hg I E1) as [Ho1 [[Hv1 _] [Hg1 Hm1]]].
    rewrite exec_bind in E.
    destruct (exec (alloc_obj sl) m1) as [[pa m2] l2] eqn:E2.
    destruct (triple_post ba bo _ _ _ _ _ _ _ (triple_alloc_obj ba bo sl) Hg1 Hv1 E2) as [Ho2 [[_ [Hpa _]] [Hg2 Hm2]]].
    rewrite exec_bind in E.
    destruct (exec (update_data grow sch q true remote persist pa fp fd) m2) as [[r3 m3] l3] eqn:E3.
    destruct (exec_update_data_fixed ba bo grow sch q remote persist pa fp fd m2 r3 m3 l3 Hg2 Hpa E3)
      as [Ho3 [Hobj3 [Hlist3 Hns3]]].
    pose proof (exec_replay _ _ _ _ _ _ E1) as R1.
    pose proof (exec_replay _ _ _ _ _ _ E2) as R2.
    pose proof (exec_replay _ _ _ _ _ _ E3) as R3.
    assert (Hg3 : good ba bo m3) by (rewrite R3; eapply oks_good; eauto).
    assert (Hm3 : mono m2 m3) by (rewrite R3; apply replay_mono).
    rewrite exec_bind in E.
    destruct (exec (read_back rb) m3) as [[c4 m4] l4] eqn:E4.
    destruct (read_back_facts ba bo rb m3 c4 m4 l4 Hg3 E4) as [Ho4 [Hs4 Hc4]].
    pose proof (exec_replay _ _ _ _ _ _ E4) as R4.
    assert (Hg4 : good ba bo m4) by (rewrite R4; eapply oks_good; eauto).
    assert (Hm4 : mono m3 m4) by (rewrite R4; apply replay_mono).
    simpl in E. inversion E; subst r parg c m' l. clear E.
    rewrite app_nil_r.
    assert (Hall : forall so, (so = true \/ oks ba bo false m2 l3) -> oks ba bo so m (l1 ++ l2 ++ l3 ++ l4)).
    { intros so Hso.
      assert (W : forall mm ll, oks ba bo false mm ll -> oks ba bo so mm ll).
      { intros mm ll H. destruct so; [apply oks_weaken|]; exact H. }
      apply oks_app. split; [apply W; exact Ho1|]. rewrite <- R1.
      apply oks_app. split; [apply W; exact Ho2|]. rewrite <- R2.
      apply oks_app. split.
      - destruct Hso as [-> | H]; [exact Ho3 | apply W; exact H].
      - rewrite <- R3. apply W. exact Ho4. }
    split; [apply Hall; left; reflexivity|].
    split; [apply Hg4|].
    split; [eapply mono_trans; [exact Hm1|]; eapply mono_trans; [exact Hm2|]; eapply mono_trans; eassumption|].
    split; [destruct Hm3, Hm4; lia|].
    split; [intros d Hd; eapply valid_mono; [exact Hm4 | apply Hlist3; exact Hd]|].
    split; [exact Hobj3|].
    split; [exact Hc4|].
    intros Hns. apply Hall. right. apply Hns3. exact Hns.
  Qed.

  (* the invariant of the repaired store: the memory is well formed, and everything handed out
     lives in memory that exists now and still has the value recorded at hand-out *)
  Definition Inv (s : st) : Prop :=
    wf (cur s) /\
    Forall (fun hv => closed (narr (cur s)) (nobj (cur s)) (cur s) (fst hv) /\ val (cur s) (fst hv) = snd hv)
           (handed s).

  Lemma Inv_init : Inv init.
  Proof. split; [apply wf_mem0 | constructor]. Qed.

  Lemma closed_now_obj m p : wf m -> (p < nobj m)%nat -> closed (narr m) (nobj m) m (HObj p).
  Proof. intros [H _] Hp. simpl. split; auto. apply H. exact Hp. Qed.

  (* effects that are ok from memory m on leave every object handed out before as it was *)
  Lemma handed_frame m l (hs : list (hand * list cell)) so :
    wf m -> oks (narr m) (nobj m) so m l ->
    Forall (fun hv => closed (narr m) (nobj m) m (fst hv) /\ val m (fst hv) = snd hv) hs ->
    Forall (fun hv => closed (narr (replay l m)) (nobj (replay l m)) (replay l m) (fst hv) /\
                      val (replay l m) (fst hv) = snd hv) hs.
  Proof.
    intros Hwf Ho H.
    pose proof (oks_agree _ _ so l m (good_self m Hwf) Ho) as Ha.
    pose proof (replay_mono l m) as [Hm1 Hm2].
    eapply Forall_impl; [|exact H]. intros [h v] [Hc Hv]. simpl in *.
    destruct (frame_val _ _ _ _ _ Hc Ha) as [F1 F2].
    split; [eapply closed_mono; eauto | congruence].
  Qed.

  Definition news_ok (m : mem) (news : list (N * hand)) : Prop :=
    Forall (fun kh => closed (narr m) (nobj m) m (snd kh)) news.

  Lemma news_entries_ok m news :
    news_ok m news ->
    Forall (fun hv => closed (narr m) (nobj m) m (fst hv) /\ val m (fst hv) = snd hv) (news_entries m news).
  Proof.
    unfold news_ok, news_entries. intros H. apply Forall_map. eapply Forall_impl; [|exact H].
    intros [k h] Hc. simpl in *. auto.
  Qed.

  (* what one update of the repaired code does to the store and to the application's objects *)
  Lemma step_update s remote persist rb wire u :
    Inv s -> fixed s = true ->
    let '(s', out) := step grow s (Update remote persist rb wire u) in
    Inv s' /\ fixed s' = true /\
    (exists c, res_of out = [c] /\ (persist = false \/ c = 1%N -> sval (cur s') = sval (cur s))) /\
    store_of out = (if rb then [sval (cur s')] else []) /\ changed_of out = [] /\
    (length (handed s') = length (handed s) + outs_of out)%nat /\
    cur s' = replay (step_effects grow s (Update remote persist rb wire u)) (cur s) /\
    oks (narr (cur s)) (nobj (cur s)) true (cur s) (step_effects grow s (Update remote persist rb wire u)).
  Proof.
    intros [Hwf Hh] Hfx. unfold step, step_effects. rewrite Hfx.
    destruct (exec (update_prog grow (sch s) (qk s) true remote persist rb (u_new u) (u_fp u) (u_fd u)) (cur s))
      as [[[[r parg] c] m'] l] eqn:E.
    destruct (exec_update_prog _ _ _ _ _ _ _ _ _ _ _ _ _ _ Hwf E)
      as [Ho [Hwf' [Hm [Hparg [Hlist [Hobj [Hc Hns]]]]]]].
    set (sn := if rb then snap_nil c else []).
    assert (Hsn : res_of sn = [] /\ changed_of sn = [] /\ outs_of sn = 0%nat) by (unfold sn; destruct rb, c; auto).
    destruct Hsn as [Hsn1 [Hsn2 Hsn3]].
    pose proof (exec_replay _ _ _ _ _ _ E) as R.
    pose proof (handed_frame _ _ _ _ Hwf Ho Hh) as Hh'. rewrite <- R in Hh'.
    rewrite (check_changed_same m' (handed s) 0) by (eapply Forall_impl; [|exact Hh']; intros hv [_ H]; exact H).
    set (news := ret_news (returns_obj (fam s) wire) (returns_list (fam s) wire) r ++
                 (if negb (N.eqb wire 0) && succeeded r then [(2%N, HObj parg)] else []) ++ snap_news c).
    destruct (hand_outs m' news (handed s)) as [hs1 outs] eqn:Eh.
    destruct (hand_outs_spec m' news (handed s)) as [S1 [S2 [S3 [S4 S5]]]]. rewrite Eh in *. simpl in *.
    assert (Hnews : news_ok m' news).
    { unfold news_ok, news. apply Forall_app. split; [|apply Forall_app; split].
      - unfold ret_news. destruct r as [ | | p | d].
        + constructor.
        + constructor.
        + destruct (returns_obj (fam s) wire); [|constructor].
          apply Forall_cons; [|apply Forall_nil]. simpl snd.
          rewrite (Hobj p eq_refl). apply (closed_now_obj m' parg Hwf' Hparg).
        + destruct (returns_list (fam s) wire); [|constructor].
          apply Forall_cons; [|apply Forall_nil]. simpl. apply Hlist. reflexivity.
      - destruct (negb (N.eqb wire 0) && succeeded r); [|apply Forall_nil].
        apply Forall_cons; [|apply Forall_nil].
        apply (closed_now_obj m' parg Hwf' Hparg).
      - destruct c as [c'|]; simpl; [|apply Forall_nil].
        apply Forall_cons; [|apply Forall_nil].
        apply (closed_now_obj m' c' Hwf'). destruct rb; [apply Hc | discriminate]. }
    assert (Hstore : store_of outs ++ store_of sn = if rb then [sval m'] else []).
    { rewrite S5. unfold news. rewrite !flat_map_app.
      assert (Z1 : flat_map (fun kh : N * hand => if N.eqb (fst kh) 0 then [Some (val m' (snd kh))] else [])
                     (ret_news (returns_obj (fam s) wire) (returns_list (fam s) wire) r) = []).
      { unfold ret_news. destruct r; try reflexivity;
          [destruct (returns_obj (fam s) wire) | destruct (returns_list (fam s) wire)]; reflexivity. }
      assert (Z2 : flat_map (fun kh : N * hand => if N.eqb (fst kh) 0 then [Some (val m' (snd kh))] else [])
                     (if negb (N.eqb wire 0) && succeeded r then [(2%N, HObj parg)] else []) = []).
      { destruct (negb (N.eqb wire 0) && succeeded r); reflexivity. }
      rewrite Z1, Z2. unfold sn. destruct rb.
      - destruct c as [c'|]; simpl.
        + destruct Hc as [_ Hc]. rewrite Hc. reflexivity.
        + rewrite Hc. reflexivity.
      - rewrite Hc. reflexivity. }
    fold sn.
    split; [|split; [reflexivity|split; [|split; [|split; [|split; [|split]]]]]].
    - (* Inv *)
      split; [exact Hwf'|]. simpl. rewrite S1. apply Forall_app. split; [exact Hh'|].
      apply news_entries_ok. exact Hnews.
    - exists (code_of r). split.
      + simpl. rewrite !res_of_app. rewrite S2, Hsn1. reflexivity.
      + simpl. intros Hcase.
        assert (Hf : oks (narr (cur s)) (nobj (cur s)) false (cur s) l).
        { apply Hns. destruct Hcase as [H|H]; [left; exact H|right].
          destruct r; simpl in H; try discriminate; reflexivity. }
        pose proof (oks_false_storep _ _ _ _ Hf) as Hsp. rewrite <- R in Hsp.
        unfold sval. rewrite Hsp. destruct (storep (cur s)) as [p|] eqn:Es; [|reflexivity].
        assert (Hcl : closed (narr (cur s)) (nobj (cur s)) (cur s) (HObj p)).
        { apply closed_now_obj; [exact Hwf|]. apply Hwf. exact Es. }
        pose proof (oks_agree _ _ false l (cur s) (good_self _ Hwf) Hf) as Ha. rewrite <- R in Ha.
        destruct (frame_val _ _ _ _ _ Hcl Ha) as [F _]. rewrite F. reflexivity.
    - simpl. rewrite !store_of_app. simpl. rewrite app_nil_r. exact Hstore.
    - simpl. rewrite !changed_of_app. rewrite S3, Hsn2. reflexivity.
    - simpl. rewrite S1, app_length. unfold news_entries. rewrite map_length.
      change (Res (code_of r) :: outs ++ sn ++ []) with ([Res (code_of r)] ++ outs ++ sn ++ []).
      rewrite !outs_of_app. rewrite S4, Hsn3. unfold outs_of. simpl. lia.
    - simpl. exact R.
    - exact Ho.
  Qed.
End StepProofs.

Section RunProofs.
  Variable grow : nat -> nat -> nat.

  Lemma step_snapshot s :
    Inv s ->
    let '(s', out) := step grow s Snapshot in
    Inv s' /\ fixed s' = fixed s /\ res_of out = [] /\
    store_of out = [sval (cur s')] /\ changed_of out = [] /\
    (length (handed s') = length (handed s) + outs_of out)%nat /\
    sval (cur s') = sval (cur s) /\
    cur s' = replay (step_effects grow s Snapshot) (cur s) /\
    oks (narr (cur s)) (nobj (cur s)) false (cur s) (step_effects grow s Snapshot).
  Proof.
    intros [Hwf Hh]. unfold step, step_effects.
    destruct (exec data_copy (cur s)) as [[c m'] l] eqn:E.
    destruct (data_copy_facts _ _ _ _ _ _ (good_self _ Hwf) E) as [Ho [Hs Hc]].
    pose proof (exec_replay _ _ _ _ _ _ E) as R.
    assert (Hwf' : wf m') by (rewrite R; eapply (oks_good _ _ false); [apply good_self; exact Hwf | exact Ho]).
    pose proof (handed_frame _ _ _ _ Hwf Ho Hh) as Hh'. rewrite <- R in Hh'.
    rewrite (check_changed_same m' (handed s) 0) by (eapply Forall_impl; [|exact Hh']; intros hv [_ H]; exact H).
    destruct (hand_outs m' (snap_news c) (handed s)) as [hs1 outs] eqn:Eh.
    destruct (hand_outs_spec m' (snap_news c) (handed s)) as [S1 [S2 [S3 [S4 S5]]]]. rewrite Eh in *. simpl in *.
    assert (Hsv : sval m' = sval (cur s)).
    { pose proof (oks_agree _ _ false l (cur s) (good_self _ Hwf) Ho) as Ha. rewrite <- R in Ha.
      unfold sval. rewrite Hs. destruct (storep (cur s)) as [p|] eqn:Es; [|reflexivity].
      assert (Hcl : closed (narr (cur s)) (nobj (cur s)) (cur s) (HObj p)).
      { apply closed_now_obj; [exact Hwf|]. apply Hwf. exact Es. }
      destruct (frame_val _ _ _ _ _ Hcl Ha) as [F _]. rewrite F. reflexivity. }
    split; [|split; [reflexivity|split; [|split; [|split; [|split; [|split; [|split]]]]]]].
    - split; [exact Hwf'|]. simpl. rewrite S1. apply Forall_app. split; [exact Hh'|].
      apply news_entries_ok. unfold news_ok. destruct c as [c'|]; simpl; [|apply Forall_nil].
      apply Forall_cons; [|apply Forall_nil]. apply (closed_now_obj m' c' Hwf'). apply Hc.
    - rewrite !res_of_app. rewrite S2. destruct c; reflexivity.
    - rewrite !store_of_app. rewrite S5. destruct c as [c'|]; simpl.
      + destruct Hc as [_ Hc]. rewrite Hc. reflexivity.
      + rewrite Hc. reflexivity.
    - rewrite !changed_of_app. rewrite S3. destruct c; reflexivity.
    - simpl. rewrite S1, app_length. unfold news_entries. rewrite map_length.
      rewrite !outs_of_app. rewrite S4. destruct c; unfold outs_of; simpl; lia.
    - exact Hsv.
    - exact R.
    - exact Ho.
  Qed.

  Lemma Inv_keep s :
    Inv s ->
    Inv {| sch := sch s; fam := fam s; fixed := fixed s; qk := qk s; cur := cur s;
           handed := handed s ++ [(HList nil_slice, [])] |}.
  Proof.
    intros [Hwf Hh]. split; [exact Hwf|]. simpl. apply Forall_app. split; [exact Hh|].
    apply Forall_cons; [|apply Forall_nil]. simpl. split; [apply Hwf | reflexivity].
  Qed.

  (* the monitor's memory agrees with the store *)
  Definition MI (s : st) (mm : mst) : Prop :=
    m_n mm = length (handed s) /\ (m_known mm = true -> m_store mm = sval (cur s)).

  Lemma run_accepted_gen : forall ops s mm,
    Inv s -> fixed s = true -> MI s mm -> repaired ops = true ->
    strictly_accepted (judge mm sinit (snd (run grow s ops))) = true.
  Proof.
    induction ops as [|o r IH]; intros s mm HI Hfx [Hn Hst] Hrep; [reflexivity|].
    simpl in Hrep. apply andb_true_iff in Hrep. destruct Hrep as [Ho Hrep].
    cbn [run]. destruct (step grow s o) as [s1 out] eqn:Es.
    destruct (run grow s1 r) as [s2 tr] eqn:Er. cbn [snd judge].
    destruct o as [ty fm fx qq | remote persist rb wire u | | | z].
    - (* Init *)
      simpl in Es. inversion Es; subst s1 out. subst fx. simpl.
      match type of Er with run grow ?s0 r = _ =>
        assert (HI0 : Inv s0) by (split; [apply wf_mem0 | apply Forall_nil]);
        specialize (IH s0 minit HI0 eq_refl (conj eq_refl (fun _ => eq_refl)) Hrep) end.
      rewrite Er in IH. exact IH.
    - (* Update *)
      pose proof (step_update grow s remote persist rb wire u HI Hfx) as H. rewrite Es in H.
      destruct H as [HI1 [Hfx1 [[c [Hres Hkeep]] [Hstore [Hchg [Hlen _]]]]]].
      cbn [mon]. rewrite Hres, Hstore.
      unfold snap_verdict. rewrite Hchg. cbn [forallb app].
      destruct rb.
      + (* read back *)
        assert (Hbad : m_known mm && (negb persist || N.eqb c 1) && negb (eqb_store (sval (cur s1)) (m_store mm)) = false).
        { destruct (m_known mm) eqn:Ek; [|reflexivity]. rewrite (Hst eq_refl).
          destruct persist.
          - simpl. destruct (N.eqb c 1) eqn:Ec; [|reflexivity].
            apply N.eqb_eq in Ec. rewrite (Hkeep (or_intror Ec)). rewrite eqb_store_refl. reflexivity.
          - rewrite (Hkeep (or_introl eq_refl)). rewrite eqb_store_refl. simpl. reflexivity. }
        rewrite Hbad. cbn [andb app strictly_accepted forallb fst].
        specialize (IH s1 {| m_n := m_n mm + outs_of out; m_store := sval (cur s1); m_known := true; m_np := false; m_fl := false |} HI1 Hfx1).
        rewrite Er in IH. apply IH; [|exact Hrep]. split; simpl; [lia|reflexivity].
      + (* not read back *)
        cbn [strictly_accepted forallb fst app].
        destruct (negb persist || N.eqb c 1) eqn:Enc.
        * match goal with |- context [judge ?m1 _ tr] => specialize (IH s1 m1 HI1 Hfx1) end.
          rewrite Er in IH. apply IH; [|exact Hrep]. split; simpl; [lia|].
          intros Hk. rewrite (Hst Hk). symmetry. apply Hkeep.
          apply orb_true_iff in Enc. destruct Enc as [E|E];
            [left; destruct persist; [discriminate|reflexivity] | right; apply N.eqb_eq; exact E].
        * match goal with |- context [judge ?m1 _ tr] => specialize (IH s1 m1 HI1 Hfx1) end.
          rewrite Er in IH. apply IH; [|exact Hrep]. split; simpl; [lia|discriminate].
    - (* Snapshot *)
      pose proof (step_snapshot s HI) as H. rewrite Es in H.
      destruct H as [HI1 [Hfx1 [Hres [Hstore [Hchg [Hlen [Hsv _]]]]]]].
      cbn [mon]. rewrite Hres, Hstore. unfold snap_verdict. rewrite Hchg. cbn [forallb app].
      assert (Hbad : m_known mm && negb (eqb_store (sval (cur s1)) (m_store mm)) = false).
      { destruct (m_known mm) eqn:Ek; [|reflexivity]. rewrite (Hst eq_refl), Hsv, eqb_store_refl. reflexivity. }
      rewrite Hbad. cbn [andb app strictly_accepted forallb fst].
      specialize (IH s1 {| m_n := m_n mm + outs_of out; m_store := sval (cur s1); m_known := true; m_np := false; m_fl := false |} HI1).
      rewrite Er in IH. apply IH; [congruence| |exact Hrep]. split; simpl; [lia|reflexivity].
    - (* Keep *)
      simpl in Es. inversion Es; subst s1 out. cbn [mon]. cbn.
      match type of Er with run grow ?s0 r = _ =>
        specialize (IH s0 {| m_n := S (m_n mm); m_store := m_store mm; m_known := m_known mm; m_np := m_np mm; m_fl := m_fl mm |} (Inv_keep s HI) Hfx) end.
      rewrite Er in IH. apply IH; [|exact Hrep]. split; simpl; [rewrite app_length; simpl; lia | exact Hst].
    - (* Ext *)
      simpl in Es. inversion Es; subst s1 out. cbn [mon]. cbn.
      specialize (IH s mm HI Hfx (conj Hn Hst) Hrep). rewrite Er in IH. exact IH.
  Qed.

  Lemma strictly_accepted_accepted j : strictly_accepted j = true -> accepted j = true.
  Proof.
    unfold strictly_accepted, accepted. intros H. rewrite forallb_forall in *. intros ve Hin.
    specialize (H ve Hin). destruct (fst ve); [reflexivity|discriminate].
  Qed.

  Theorem run_accepted : forall ops, repaired ops = true ->
    accepted (judge minit sinit (snd (run grow init ops))) = true.
  Proof.
    intros ops H. apply strictly_accepted_accepted.
    apply run_accepted_gen; auto using Inv_init. split; [reflexivity | intros _; reflexivity].
  Qed.

  (* ---- the explicit statements ---- *)

  Lemma run_inv : forall ops s, Inv s -> fixed s = true -> repaired ops = true ->
    Inv (fst (run grow s ops)) /\ fixed (fst (run grow s ops)) = true.
  Proof.
    induction ops as [|o r IH]; intros s HI Hfx Hrep; [simpl; auto|].
    simpl in Hrep. apply andb_true_iff in Hrep. destruct Hrep as [Ho Hrep].
    cbn [run]. destruct (step grow s o) as [s1 out] eqn:Es.
    destruct (run grow s1 r) as [s2 tr] eqn:Er. cbn [fst].
    assert (H1 : Inv s1 /\ fixed s1 = true).
    { destruct o as [ty fm fx qq | remote persist rb wire u | | | z].
      - simpl in Es. inversion Es; subst s1 out. split; [split; [apply wf_mem0|apply Forall_nil]|exact Ho].
      - pose proof (step_update grow s remote persist rb wire u HI Hfx) as H. rewrite Es in H. tauto.
      - pose proof (step_snapshot s HI) as H. rewrite Es in H. destruct H as [? [? _]]. split; congruence.
      - simpl in Es. inversion Es; subst s1 out. split; [apply Inv_keep; exact HI | exact Hfx].
      - simpl in Es. inversion Es; subst s1 out. split; assumption. }
    destruct H1 as [HI1 Hfx1]. specialize (IH s1 HI1 Hfx1 Hrep). rewrite Er in IH. exact IH.
  Qed.

  (* every object handed out so far has, in the current memory, the value it had at hand-out *)
  Theorem handed_stable : forall ops, repaired ops = true ->
    Forall (fun hv => val (cur (fst (run grow init ops))) (fst hv) = snd hv) (handed (fst (run grow init ops))).
  Proof.
    intros ops H. destruct (run_inv ops init Inv_init eq_refl H) as [[_ HF] _].
    eapply Forall_impl; [|exact HF]. intros hv [_ Hv]. exact Hv.
  Qed.

  (* the record of an object is made at hand-out and never touched again: the list of handed-out
     objects only grows by appending *)
  Lemma step_handed_prefix s o : Inv s -> fixed s = true -> (match o with Init _ _ _ _ => False | _ => True end) ->
    exists more, handed (fst (step grow s o)) = handed s ++ more.
  Proof.
    intros [Hwf Hh] Hfx Hno. destruct o as [ | remote persist rb wire u | | | z]; [destruct Hno| | | |].
    - unfold step. rewrite Hfx.
      destruct (exec (update_prog grow (sch s) (qk s) true remote persist rb (u_new u) (u_fp u) (u_fd u)) (cur s))
        as [[[[r parg] c] m'] l] eqn:E.
      destruct (exec_update_prog _ _ _ _ _ _ _ _ _ _ _ _ _ _ _ Hwf E) as [Ho _].
      pose proof (exec_replay _ _ _ _ _ _ E) as R.
      pose proof (handed_frame _ _ _ _ Hwf Ho Hh) as Hh'. rewrite <- R in Hh'.
      rewrite (check_changed_same m' (handed s) 0) by (eapply Forall_impl; [|exact Hh']; intros hv [_ H]; exact H).
      match goal with |- context [hand_outs m' ?n (handed s)] =>
        destruct (hand_outs_spec m' n (handed s)) as [S1 _]; destruct (hand_outs m' n (handed s)) as [hs1 outs] end.
      simpl in *. eexists. exact S1.
    - unfold step.
      destruct (exec data_copy (cur s)) as [[c m'] l] eqn:E.
      destruct (data_copy_facts _ _ _ _ _ _ (good_self _ Hwf) E) as [Ho _].
      pose proof (exec_replay _ _ _ _ _ _ E) as R.
      pose proof (handed_frame _ _ _ _ Hwf Ho Hh) as Hh'. rewrite <- R in Hh'.
      rewrite (check_changed_same m' (handed s) 0) by (eapply Forall_impl; [|exact Hh']; intros hv [_ H]; exact H).
      destruct (hand_outs_spec m' (snap_news c) (handed s)) as [S1 _].
      destruct (hand_outs m' (snap_news c) (handed s)) as [hs1 outs]. simpl in *. eexists. exact S1.
    - simpl. eexists. reflexivity.
    - simpl. exists []. rewrite app_nil_r. reflexivity.
  Qed.

  Definition no_init (ops : list op) : bool :=
    forallb (fun o => match o with Init _ _ _ _ => false | _ => true end) ops.

  Lemma run_app : forall a b s,
    fst (run grow s (a ++ b)) = fst (run grow (fst (run grow s a)) b).
  Proof.
    induction a as [|o r IH]; intros b s; [reflexivity|].
    cbn [app run]. destruct (step grow s o) as [s1 out].
    specialize (IH b s1). destruct (run grow s1 (r ++ b)) as [s2 tr]. destruct (run grow s1 r) as [s3 tr3].
    simpl in *. destruct (run grow s3 b). exact IH.
  Qed.

  Lemma run_handed_prefix : forall ops s, Inv s -> fixed s = true -> no_init ops = true ->
    exists more, handed (fst (run grow s ops)) = handed s ++ more.
  Proof.
    induction ops as [|o r IH]; intros s HI Hfx Hn; [exists []; rewrite app_nil_r; reflexivity|].
    simpl in Hn. apply andb_true_iff in Hn. destruct Hn as [Ho Hn].
    destruct (step_handed_prefix s o HI Hfx) as [m1 H1]; [destruct o; [discriminate|exact I|exact I|exact I|exact I]|].
    assert (Hrep : repaired [o] = true) by (destruct o; [discriminate|reflexivity|reflexivity|reflexivity|reflexivity]).
    destruct (run_inv [o] s HI Hfx Hrep) as [HI1 Hfx1].
    cbn [run] in *. destruct (step grow s o) as [s1 out]. simpl in *.
    destruct (IH s1 HI1 Hfx1 Hn) as [m2 H2].
    destruct (run grow s1 r) as [s2 tr]. simpl in *.
    exists (m1 ++ m2). rewrite H2, H1, app_assoc. reflexivity.
  Qed.

  (* the design's statement: whatever was handed out by a prefix of the history has, after the
     whole history, the value it had when the prefix ended *)
  Theorem handed_stable_later : forall ops1 ops2,
    repaired (ops1 ++ ops2) = true -> no_init ops2 = true ->
    forall hv, In hv (handed (fst (run grow init ops1))) ->
    In hv (handed (fst (run grow init (ops1 ++ ops2)))) /\
    val (cur (fst (run grow init (ops1 ++ ops2)))) (fst hv) = snd hv.
  Proof.
    intros ops1 ops2 Hrep Hn hv Hin.
    assert (Hr1 : repaired ops1 = true /\ repaired ops2 = true).
    { unfold repaired in *. rewrite forallb_app in Hrep. apply andb_true_iff in Hrep. exact Hrep. }
    destruct Hr1 as [Hr1 Hr2].
    destruct (run_inv ops1 init Inv_init eq_refl Hr1) as [HI1 Hfx1].
    destruct (run_handed_prefix ops2 _ HI1 Hfx1 Hn) as [more Hm].
    pose proof (handed_stable (ops1 ++ ops2) Hrep) as Hs.
    rewrite run_app in *. rewrite Hm in *.
    rewrite Forall_forall in Hs. split; [apply in_or_app; left; exact Hin|].
    apply Hs. apply in_or_app. left. exact Hin.
  Qed.

  (* an update without persistence, or reported as failed, leaves the stored data as it was *)
  Theorem update_keeps_store s remote persist rb wire u :
    Inv s -> fixed s = true ->
    forall c, In (Res c) (snd (step grow s (Update remote persist rb wire u))) ->
    persist = false \/ c = 1%N ->
    sval (cur (fst (step grow s (Update remote persist rb wire u)))) = sval (cur s).
  Proof.
    intros HI Hfx c Hin Hcase.
    pose proof (step_update grow s remote persist rb wire u HI Hfx) as H.
    destruct (step grow s (Update remote persist rb wire u)) as [s1 out]. simpl in *.
    destruct H as [_ [_ [[c' [Hres Hkeep]] _]]].
    assert (c = c').
    { assert (Hi : In c (res_of out)) by (unfold res_of; apply in_flat_map; exists (Res c); simpl; auto).
      rewrite Hres in Hi. destruct Hi as [Hi|[]]. congruence. }
    subst c'. apply Hkeep. exact Hcase.
  Qed.

  (* a reader that runs concurrently with an operation, i.e. reads at any point of its effect
     sequence, sees every object handed out before with the value it had at hand-out *)
  Theorem concurrent_reader s o :
    Inv s -> fixed s = true ->
    forall k, Forall (fun hv => val (replay (firstn k (step_effects grow s o)) (cur s)) (fst hv) = snd hv) (handed s).
  Proof.
    intros HI Hfx k. pose proof HI as [Hwf Hh].
    assert (Hok : oks (narr (cur s)) (nobj (cur s)) true (cur s) (step_effects grow s o)).
    { destruct o as [ | remote persist rb wire u | | | z].
      - simpl. exact I.
      - pose proof (step_update grow s remote persist rb wire u HI Hfx) as H.
        destruct (step grow s (Update remote persist rb wire u)) as [s1 out]. apply H.
      - pose proof (step_snapshot s HI) as H.
        destruct (step grow s Snapshot) as [s1 out]. apply oks_weaken. apply H.
      - simpl. exact I.
      - simpl. exact I. }
    rewrite <- (firstn_skipn k (step_effects grow s o)) in Hok.
    apply oks_app in Hok. destruct Hok as [Hok _].
    pose proof (handed_frame _ _ _ _ Hwf Hok Hh) as Hh'.
    eapply Forall_impl; [|exact Hh']. intros hv [_ H]. exact H.
  Qed.

  (* ... and no effect of the operation writes memory that such an object occupies *)
  Definition touches (m : mem) (e : eff) (h : hand) : Prop :=
    match e with
    | EWriteCell a _ _ => a = s_arr (header m h)
    | EWriteObj p _ => h = HObj p
    | _ => False
    end.

  Lemma oks_no_touch ba bo so m h : closed ba bo m h ->
    forall l m0, oks ba bo so m0 l -> forall e, In e l -> ~ touches m e h.
  Proof.
    intros Hc. induction l as [|e0 r IH]; intros m0 Hok e He; [destruct He|].
    destruct Hok as [H0 Hr]. destruct He as [->|He]; [|eapply IH; eauto].
    intros Ht. destruct e as [ | a i c | | p sl | ]; simpl in Ht; try exact Ht.
    - simpl in H0. subst a. destruct h as [p|sl]; simpl in *; [destruct Hc|]; lia.
    - simpl in H0. subst h. simpl in Hc. destruct H0, Hc. lia.
  Qed.

  Theorem no_write_reaches_handed s o :
    Inv s -> fixed s = true ->
    forall e hv, In e (step_effects grow s o) -> In hv (handed s) -> ~ touches (cur s) e (fst hv).
  Proof.
    intros HI Hfx e hv He Hhv. pose proof HI as [Hwf Hh].
    assert (Hok : oks (narr (cur s)) (nobj (cur s)) true (cur s) (step_effects grow s o)).
    { destruct o as [ | remote persist rb wire u | | | z].
      - simpl. exact I.
      - pose proof (step_update grow s remote persist rb wire u HI Hfx) as H.
        destruct (step grow s (Update remote persist rb wire u)) as [s1 out]. apply H.
      - pose proof (step_snapshot s HI) as H.
        destruct (step grow s Snapshot) as [s1 out]. apply oks_weaken. apply H.
      - simpl. exact I.
      - simpl. exact I. }
    rewrite Forall_forall in Hh. destruct (Hh hv Hhv) as [Hc _].
    eapply oks_no_touch; eauto.
  Qed.
End RunProofs.
