(* C19 — real-number analysis of Model/Scaled.v (Flocq binary64).
   Part 1: the value computed by each primitive of the model.
   Part 2: the decimal-digit count [decimals].
   Part 3: the two conversion theorems. *)
From Coq Require Import ZArith Reals List Bool Lia Lra Psatz.
From Flocq Require Import Core BinarySingleNaN Relative.
From Verif Require Import Base.Prelude Model.Scaled.
Open Scope R_scope.

Notation fexp64 := (FLT_exp (-1074) 53).
Notation rnd := (round radix2 fexp64 ZnearestE).

Lemma fexp_eq : SpecFloat.fexp prec emax = fexp64.
Proof. reflexivity. Qed.

Definition u : R := bpow radix2 (-53).

Lemma u_val : u = / IZR (2 ^ 53).
Proof. reflexivity. Qed.

Lemma u_pos : 0 < u.
Proof. apply bpow_gt_0. Qed.

Lemma u_le : u <= 112 / IZR (10 ^ 18).
Proof.
  rewrite u_val.
  apply Rmult_le_reg_l with (IZR (2 ^ 53)). { apply IZR_lt. reflexivity. }
  rewrite Rinv_r by (apply not_0_IZR; discriminate).
  unfold Rdiv. rewrite <- Rmult_assoc.
  apply Rmult_le_reg_r with (IZR (10 ^ 18)). { apply IZR_lt. reflexivity. }
  rewrite Rmult_assoc, Rinv_l by (apply not_0_IZR; discriminate).
  rewrite Rmult_1_l, Rmult_1_r, <- mult_IZR. apply IZR_le. vm_compute. discriminate.
Qed.

Lemma half_bpow : / 2 * bpow radix2 (- 53 + 1) = u.
Proof.
  unfold u. change (/ 2) with (bpow radix2 (-1)). rewrite <- bpow_plus. reflexivity.
Qed.

(* ---- relative error of rounding ---- *)

Lemma rnd_rel_normal : forall x, bpow radix2 (-1022) <= Rabs x -> Rabs (rnd x - x) <= u * Rabs x.
Proof.
  intros x Hx. rewrite <- half_bpow.
  exact (relative_error_N_FLT radix2 (-1074) 53 eq_refl (fun x => negb (Z.even x)) x Hx).
Qed.

(* a multiple of 2^-1074 never underflows *)
Lemma rnd_rel_emin : forall m, let x := F2R (Float radix2 m (-1074)) in Rabs (rnd x - x) <= u * Rabs x.
Proof.
  intros m x. rewrite <- half_bpow.
  exact (relative_error_N_FLT_F2R_emin radix2 (-1074) 53 eq_refl (fun x => negb (Z.even x)) m).
Qed.

Lemma B2R_times_int : forall (f : b64) (z : Z), exists m, B2R f * IZR z = F2R (Float radix2 m (-1074)).
Proof.
  intros f z. destruct (FLT_format_B2R prec emax Hprec f) as [[mf ef] H1 _ H3]. simpl in H3.
  exists (mf * z * 2 ^ (ef - (-1074)))%Z.
  rewrite H1.
  rewrite (F2R_change_exp radix2 (-1074) mf ef) by exact H3.
  unfold F2R. simpl. rewrite !mult_IZR. ring.
Qed.

Lemma rnd_rel_times_int : forall (f : b64) (z : Z),
  Rabs (rnd (B2R f * IZR z) - B2R f * IZR z) <= u * Rabs (B2R f * IZR z).
Proof.
  intros f z. destruct (B2R_times_int f z) as [m ->]. apply rnd_rel_emin.
Qed.

(* ---- no overflow below 2^1023 ---- *)
Lemma rnd_no_overflow : forall x, Rabs x <= bpow radix2 1023 ->
  Rlt_bool (Rabs (rnd x)) (bpow radix2 1024) = true.
Proof.
  intros x Hx. apply Rlt_bool_true.
  apply Rle_lt_trans with (bpow radix2 1023).
  - apply abs_round_le_generic; auto with typeclass_instances.
    apply generic_format_bpow. unfold FLT_exp. lia.
  - apply bpow_lt. lia.
Qed.

Lemma big_bound : forall x, Rabs x <= IZR (10 ^ 30) -> Rabs x <= bpow radix2 1023.
Proof.
  intros x Hx. apply Rle_trans with (1 := Hx).
  change (bpow radix2 1023) with (IZR (2 ^ 1023)). apply IZR_le. vm_compute. discriminate.
Qed.

(* ---- integers ---- *)
Lemma format_small_int : forall z, (Z.abs z <= 2 ^ 53)%Z -> generic_format radix2 fexp64 (IZR z).
Proof.
  intros z Hz.
  destruct (Z.eq_dec (Z.abs z) (2 ^ 53)) as [E|E].
  - assert (Hz' : z = (2 ^ 53)%Z \/ z = (- 2 ^ 53)%Z) by lia.
    destruct Hz' as [-> | ->].
    + change (IZR (2 ^ 53)) with (bpow radix2 53). apply generic_format_bpow. unfold FLT_exp. lia.
    + rewrite opp_IZR. apply generic_format_opp.
      change (IZR (2 ^ 53)) with (bpow radix2 53). apply generic_format_bpow. unfold FLT_exp. lia.
  - apply generic_format_FLT. apply (FLT_spec radix2 (-1074) 53 (IZR z) (Float radix2 z 0)).
    + unfold F2R. simpl. ring.
    + simpl. lia.
    + simpl. lia.
Qed.

Lemma Z2B_real : forall z, (Z.abs z <= 10 ^ 30)%Z ->
  B2R (Z2B z) = rnd (IZR z) /\ is_finite (Z2B z) = true.
Proof.
  intros z Hz. unfold Z2B.
  generalize (binary_normalize_correct prec emax Hprec Hmax mode_NE z 0 false).
  cbv zeta. replace (F2R (Float radix2 z 0)) with (IZR z) by (unfold F2R; simpl; ring).
  rewrite fexp_eq. change (round_mode mode_NE) with ZnearestE.
  rewrite rnd_no_overflow.
  - intros [H1 [H2 _]]. split; assumption.
  - apply big_bound. rewrite <- abs_IZR. apply IZR_le. exact Hz.
Qed.

Lemma Z2B_exact : forall z, (Z.abs z <= 2 ^ 53)%Z -> B2R (Z2B z) = IZR z /\ is_finite (Z2B z) = true.
Proof.
  intros z Hz. destruct (Z2B_real z) as [H1 H2].
  - apply Z.le_trans with (1 := Hz). vm_compute. discriminate.
  - split; [|exact H2]. rewrite H1. apply round_generic; auto with typeclass_instances.
    apply format_small_int. exact Hz.
Qed.

(* ---- the correctly rounded quotient ---- *)
Lemma RNdiv_real : forall a b, Rabs (IZR a / IZR (Zpos b)) <= IZR (10 ^ 30) ->
  B2R (RNdiv a b) = rnd (IZR a / IZR (Zpos b)) /\ is_finite (RNdiv a b) = true.
Proof.
  intros a b Hb.
  assert (Hov := rnd_no_overflow _ (big_bound _ Hb)).
  destruct a as [|p|p]; unfold RNdiv.
  - unfold Rdiv. rewrite Rmult_0_l, round_0; auto with typeclass_instances.
  - pose proof (Bdiv_correct_aux prec emax Hprec Hmax mode_NE false p 0 false b 0) as [Hv Hr].
    cbv zeta in Hr. rewrite fexp_eq in Hr. change (round_mode mode_NE) with ZnearestE in Hr.
    replace (F2R (Float radix2 (cond_Zopp false (Zpos p)) 0)) with (IZR (Zpos p)) in Hr by (unfold F2R; simpl; ring).
    replace (F2R (Float radix2 (cond_Zopp false (Zpos b)) 0)) with (IZR (Zpos b)) in Hr by (unfold F2R; simpl; ring).
    change (bpow radix2 emax) with (bpow radix2 1024) in Hr. rewrite Hov in Hr. destruct Hr as [H1 [H2 _]].
    rewrite B2R_SF2B, is_finite_SF2B. split; assumption.
  - pose proof (Bdiv_correct_aux prec emax Hprec Hmax mode_NE true p 0 false b 0) as [Hv Hr].
    cbv zeta in Hr. rewrite fexp_eq in Hr. change (round_mode mode_NE) with ZnearestE in Hr.
    replace (F2R (Float radix2 (cond_Zopp true (Zpos p)) 0)) with (IZR (Zneg p)) in Hr by (unfold F2R; simpl; ring).
    replace (F2R (Float radix2 (cond_Zopp false (Zpos b)) 0)) with (IZR (Zpos b)) in Hr by (unfold F2R; simpl; ring).
    change (bpow radix2 emax) with (bpow radix2 1024) in Hr. rewrite Hov in Hr. destruct Hr as [H1 [H2 _]].
    rewrite B2R_SF2B, is_finite_SF2B. split; assumption.
Qed.

(* ---- multiplication ---- *)
Lemma Bmult_real : forall x y : b64, is_finite x = true -> is_finite y = true ->
  Rabs (B2R x * B2R y) <= IZR (10 ^ 30) ->
  B2R (Bmult mode_NE x y) = rnd (B2R x * B2R y) /\ is_finite (Bmult mode_NE x y) = true.
Proof.
  intros x y Fx Fy Hb.
  generalize (Bmult_correct prec emax Hprec Hmax mode_NE x y).
  rewrite fexp_eq. change (round_mode mode_NE) with ZnearestE.
  change (bpow radix2 emax) with (bpow radix2 1024).
  rewrite (rnd_no_overflow _ (big_bound _ Hb)).
  intros [H1 [H2 _]]. split; [exact H1|]. rewrite H2, Fx, Fy. reflexivity.
Qed.

(* ---- math.Round ---- *)
Lemma round_away_real : forall x : b64, is_finite x = true -> Rabs (B2R x) <= IZR (2 ^ 62) ->
  round_away x = ZnearestA (B2R x).
Proof.
  intros x Fx Hx. unfold round_away.
  destruct (Bnearbyint_correct prec emax Hmax mode_NA x) as [H1 [H2 _]].
  change (round_mode mode_NA) with ZnearestA in H1. rewrite round_FIX_IZR in H1.
  pose proof (Btrunc_correct prec emax Hmax (Bnearbyint mode_NA x)) as H3.
  rewrite H1, round_FIX_IZR, Ztrunc_IZR in H3. apply eq_IZR in H3. rewrite H3.
  set (N := ZnearestA (B2R x)).
  assert (HN : (Z.abs N < 2 ^ 63)%Z).
  { apply lt_IZR. rewrite abs_IZR.
    pose proof (Znearest_half (Z.leb 0) (B2R x)) as Hh. fold ZnearestA in Hh. fold N in Hh.
    replace (IZR N) with (B2R x - (B2R x - IZR N)) by ring.
    eapply Rle_lt_trans. apply Rabs_triang. rewrite Rabs_Ropp.
    apply Rle_lt_trans with (IZR (2 ^ 62) + / 2). lra.
    replace (2 ^ 63)%Z with (2 ^ 62 + 2 ^ 62)%Z by reflexivity. rewrite plus_IZR.
    apply Rplus_lt_compat_l. apply Rlt_trans with 1. lra. apply IZR_lt. reflexivity. }
  unfold to_int64. rewrite Fx. unfold MIN_INT64.
  replace (- 2 ^ 63 <=? N)%Z with true by (symmetry; apply Z.leb_le; lia).
  replace (N <? 2 ^ 63)%Z with true by (symmetry; apply Z.ltb_lt; lia).
  reflexivity.
Qed.

(* ---- powers of ten ---- *)
Lemma pos10_val : forall d, (0 <= d)%Z -> Zpos (pos10 d) = (10 ^ d)%Z.
Proof.
  intros d Hd. unfold pos10. apply Z2Pos.id. apply Z.pow_pos_nonneg; lia.
Qed.

Lemma small_d : forall d, (0 <= d <= 4)%Z -> d = 0%Z \/ d = 1%Z \/ d = 2%Z \/ d = 3%Z \/ d = 4%Z.
Proof. intros; lia. Qed.

Lemma pow10_pos : forall d, (0 <= d)%Z -> 0 < IZR (10 ^ d).
Proof. intros d Hd. apply IZR_lt. apply Z.pow_pos_nonneg; lia. Qed.

Lemma pow10_ge1 : forall d, (0 <= d)%Z -> 1 <= IZR (10 ^ d).
Proof. intros d Hd. apply IZR_le. assert (0 < 10 ^ d)%Z by (apply Z.pow_pos_nonneg; lia). lia. Qed.

Lemma pow10_le : forall d, (0 <= d <= 4)%Z -> IZR (10 ^ d) <= 10000.
Proof. intros d Hd. apply IZR_le. destruct (small_d d Hd) as [->|[->|[->|[->| ->]]]]; vm_compute; discriminate. Qed.

(* the factor used by GetValue: q d = RN(1/10^d) *)
Definition q10 (d : Z) : R := rnd (/ IZR (10 ^ d)).

Lemma q10_bound : forall d, (0 <= d <= 4)%Z ->
  Rabs (q10 d - / IZR (10 ^ d)) <= u * / IZR (10 ^ d) /\ 0 <= q10 d <= 1.
Proof.
  intros d Hd. pose proof (pow10_pos d (proj1 Hd)) as Hp. pose proof (pow10_ge1 d (proj1 Hd)) as H1.
  pose proof (pow10_le d Hd) as Hle.
  assert (Hi : 0 < / IZR (10 ^ d)) by (apply Rinv_0_lt_compat; exact Hp).
  assert (Hi1 : / IZR (10 ^ d) <= 1).
  { rewrite <- Rinv_1. apply Rinv_le_contravar; lra. }
  split.
  - unfold q10. rewrite <- (Rabs_pos_eq (/ IZR (10 ^ d))) at 3 by lra.
    apply rnd_rel_normal. rewrite Rabs_pos_eq by lra.
    apply Rle_trans with (/ 10000).
    + change (bpow radix2 (-1022)) with (/ IZR (2 ^ 1022)).
      apply Rinv_le_contravar. lra. apply IZR_le. vm_compute. discriminate.
    + apply Rinv_le_contravar; lra.
  - unfold q10. split.
    + apply round_ge_generic; auto with typeclass_instances. apply generic_format_0. lra.
    + apply round_le_generic; auto with typeclass_instances.
      change 1 with (bpow radix2 0). apply generic_format_bpow. unfold FLT_exp. lia.
Qed.

Lemma pow10_real : forall d, (0 <= d <= 4)%Z ->
  B2R (pow10 (- d)) = q10 d /\ is_finite (pow10 (- d)) = true.
Proof.
  intros d Hd. unfold pow10, q10.
  destruct (Z.eq_dec d 0) as [->|Hd0].
  - change (- 0 <? 0)%Z with false. cbv iota. change (10 ^ - 0)%Z with 1%Z.
    destruct (Z2B_exact 1) as [H1 H2]. { vm_compute. discriminate. }
    rewrite H1. split; [|exact H2]. change (10 ^ 0)%Z with 1%Z. rewrite Rinv_1.
    symmetry. apply round_generic; auto with typeclass_instances.
    change 1 with (bpow radix2 0). apply generic_format_bpow. unfold FLT_exp. lia.
  - replace (- d <? 0)%Z with true by (symmetry; apply Z.ltb_lt; lia).
    rewrite Z.opp_involutive.
    destruct (RNdiv_real 1 (pos10 d)) as [H1 H2].
    + rewrite pos10_val by lia. unfold Rdiv. rewrite Rmult_1_l.
      pose proof (pow10_ge1 d (proj1 Hd)). rewrite Rabs_pos_eq.
      * apply Rle_trans with 1. rewrite <- Rinv_1. apply Rinv_le_contravar; lra. apply IZR_le. vm_compute. discriminate.
      * left. apply Rinv_0_lt_compat. lra.
    + rewrite pos10_val in H1 by lia. unfold Rdiv in H1. rewrite Rmult_1_l in H1. split; assumption.
Qed.

(* ---- GetValue on what NewScaledNumberType produces ---- *)
Lemma get_value_real : forall n d, (0 <= d <= 4)%Z -> (Z.abs n <= 2 ^ 53)%Z ->
  let s := if (n =? 0)%Z then 0%Z else (- d)%Z in
  B2R (get_value n s) = rnd (IZR n * q10 d) /\ is_finite (get_value n s) = true.
Proof.
  intros n d Hd Hn s. unfold s.
  destruct (Z.eqb_spec n 0) as [->|Hn0].
  - split; [|reflexivity]. rewrite Rmult_0_l, round_0 by auto with typeclass_instances. reflexivity.
  - unfold get_value.
    destruct (Z2B_exact n Hn) as [N1 N2]. destruct (pow10_real d Hd) as [Q1 Q2].
    destruct (q10_bound d Hd) as [_ [Q3 Q4]].
    destruct (Bmult_real (Z2B n) (pow10 (- d)) N2 Q2) as [M1 M2].
    + rewrite N1, Q1, Rabs_mult. rewrite (Rabs_pos_eq (q10 d)) by exact Q3.
      apply Rle_trans with (Rabs (IZR n) * 1).
      * apply Rmult_le_compat_l. apply Rabs_pos. exact Q4.
      * rewrite Rmult_1_r, <- abs_IZR. apply IZR_le. apply Z.le_trans with (1 := Hn). vm_compute. discriminate.
    + rewrite M1, N1, Q1. split; [reflexivity | exact M2].
Qed.

(* ================= Part 2: the decimal-digit count ================= *)

Definition mag (m : positive) (e : Z) : R := F2R (Float radix2 (Zpos m) e).

Lemma mag_pos : forall m e, 0 < mag m e.
Proof. intros. apply F2R_gt_0. reflexivity. Qed.

Lemma B2R_finite_abs : forall s m e H, Rabs (B2R (B754_finite s m e H : b64)) = mag m e.
Proof.
  intros. simpl B2R. destruct s; simpl cond_Zopp.
  - change (Z.neg m) with (- Z.pos m)%Z. rewrite F2R_Zopp, Rabs_Ropp. apply Rabs_pos_eq. left. apply mag_pos.
  - apply Rabs_pos_eq. left. apply mag_pos.
Qed.

(* the two candidates tried by has_dec *)
Definition cand_lo (m : positive) (e d : Z) : Z :=
  let num := (Zpos m * 10 ^ d)%Z in if (0 <=? e)%Z then (num * 2 ^ e)%Z else (num / 2 ^ (- e))%Z.
Definition cand_hi (m : positive) (e d : Z) : Z :=
  let num := (Zpos m * 10 ^ d)%Z in
  let exact := if (0 <=? e)%Z then true else (num mod 2 ^ (- e) =? 0)%Z in
  if exact then cand_lo m e d else (cand_lo m e d + 1)%Z.

Lemma has_dec_unfold : forall s m e H d,
  has_dec (B754_finite s m e H) d =
  same_mag (RNdiv (cand_lo m e d) (pos10 d)) m e || same_mag (RNdiv (cand_hi m e d) (pos10 d)) m e.
Proof. reflexivity. Qed.

(* |v| * 10^d as a fraction *)
Lemma pow2_pos : forall e, (0 <= e)%Z -> (0 < 2 ^ e)%Z.
Proof. intros. apply Z.pow_pos_nonneg; lia. Qed.

Lemma mag_scaled : forall m e d,
  mag m e * IZR (10 ^ d) =
  if (0 <=? e)%Z then IZR (Zpos m * 10 ^ d * 2 ^ e) else IZR (Zpos m * 10 ^ d) / IZR (2 ^ (- e)).
Proof.
  intros m e d. unfold mag, F2R. simpl Fnum. simpl Fexp.
  destruct (Z.leb_spec 0 e) as [He|He].
  - rewrite <- (IZR_Zpower radix2 e He). change (Zpower radix2 e) with (2 ^ e)%Z.
    rewrite !mult_IZR. ring.
  - replace e with (- (- e))%Z at 1 by lia. rewrite bpow_opp.
    rewrite <- (IZR_Zpower radix2 (- e)) by lia. change (Zpower radix2 (- e)) with (2 ^ (- e))%Z.
    rewrite mult_IZR. unfold Rdiv. ring.
Qed.

(* both candidates are non-negative integers within 1 of |v|*10^d *)
Lemma cand_close : forall m e d M, (0 <= d)%Z -> M = cand_lo m e d \/ M = cand_hi m e d ->
  (0 <= M)%Z /\ Rabs (IZR M - mag m e * IZR (10 ^ d)) < 1.
Proof.
  intros m e d M Hd HM. rewrite mag_scaled.
  assert (Hnum : (0 < Zpos m * 10 ^ d)%Z) by (apply Z.mul_pos_pos; [reflexivity | apply Z.pow_pos_nonneg; lia]).
  unfold cand_hi, cand_lo in HM. cbv zeta in HM.
  destruct (Z.leb_spec 0 e) as [He|He].
  - assert (M = (Zpos m * 10 ^ d * 2 ^ e)%Z) by (destruct HM; assumption). subst M. split.
    + pose proof (pow2_pos e He). nia.
    + unfold Rminus. rewrite Rplus_opp_r, Rabs_R0. lra.
  - set (num := (Zpos m * 10 ^ d)%Z) in *. set (D := (2 ^ (- e))%Z) in *.
    assert (HD : (0 < D)%Z) by (apply pow2_pos; lia).
    pose proof (Z.div_mod num D ltac:(lia)) as Hdm. pose proof (Z.mod_pos_bound num D HD) as Hmb.
    assert (HDR : 0 < IZR D) by (apply IZR_lt; exact HD).
    assert (Hq : (0 <= num / D)%Z) by (apply Z.div_pos; lia).
    assert (Hy : IZR num / IZR D = IZR (num / D) + IZR (num mod D) / IZR D).
    { rewrite Hdm at 1. rewrite plus_IZR, mult_IZR. field. lra. }
    assert (Hf : 0 <= IZR (num mod D) / IZR D < 1).
    { split. apply Rmult_le_pos. apply IZR_le. lia. left. apply Rinv_0_lt_compat. exact HDR.
      apply Rmult_lt_reg_r with (IZR D). exact HDR. unfold Rdiv. rewrite Rmult_assoc, Rinv_l, Rmult_1_r, Rmult_1_l by lra.
      apply IZR_lt. lia. }
    rewrite Hy.
    destruct HM as [-> | ->].
    + split. exact Hq. replace (IZR (num / D) - (IZR (num / D) + IZR (num mod D) / IZR D)) with (- (IZR (num mod D) / IZR D)) by ring.
      rewrite Rabs_Ropp, Rabs_pos_eq; lra.
    + destruct (Z.eqb_spec (num mod D) 0) as [E|E].
      * split. exact Hq. rewrite E. unfold Rdiv. rewrite Rmult_0_l, Rplus_0_r. unfold Rminus. rewrite Rplus_opp_r, Rabs_R0. lra.
      * split. lia. rewrite plus_IZR.
        replace (IZR (num / D) + 1 - (IZR (num / D) + IZR (num mod D) / IZR D)) with (1 - IZR (num mod D) / IZR D) by ring.
        assert (0 < IZR (num mod D) / IZR D).
        { apply Rmult_lt_0_compat. apply IZR_lt. lia. apply Rinv_0_lt_compat. exact HDR. }
        rewrite Rabs_pos_eq; lra.
Qed.

(* conversely an integer within 1 of |v|*10^d is one of the candidates *)
Lemma cand_complete : forall m e d K, (0 <= d)%Z ->
  Rabs (IZR K - mag m e * IZR (10 ^ d)) < 1 -> K = cand_lo m e d \/ K = cand_hi m e d.
Proof.
  intros m e d K Hd HK. rewrite mag_scaled in HK.
  unfold cand_hi, cand_lo. cbv zeta.
  destruct (Z.leb_spec 0 e) as [He|He].
  - left. rewrite <- minus_IZR, <- abs_IZR in HK. apply lt_IZR in HK. lia.
  - set (num := (Zpos m * 10 ^ d)%Z) in *. set (D := (2 ^ (- e))%Z) in *.
    assert (HD : (0 < D)%Z) by (apply pow2_pos; lia).
    assert (HDR : 0 < IZR D) by (apply IZR_lt; exact HD).
    assert (HZ : (Z.abs (K * D - num) < D)%Z).
    { apply lt_IZR. rewrite abs_IZR, minus_IZR, mult_IZR.
      replace (IZR K * IZR D - IZR num) with ((IZR K - IZR num / IZR D) * IZR D) by (field; lra).
      rewrite Rabs_mult, (Rabs_pos_eq (IZR D)) by lra.
      apply Rlt_le_trans with (1 * IZR D); [apply Rmult_lt_compat_r; assumption | lra]. }
    pose proof (Z.div_mod num D ltac:(lia)) as Hdm. pose proof (Z.mod_pos_bound num D HD) as Hmb.
    destruct (Z.eqb_spec (num mod D) 0) as [E|E].
    + left. nia.
    + assert (K = (num / D)%Z \/ K = (num / D + 1)%Z) by nia. tauto.
Qed.

Lemma same_mag_sound : forall M p m e, (0 <= M)%Z -> IZR M / IZR (Zpos p) <= IZR (10 ^ 30) ->
  same_mag (RNdiv M p) m e = true -> rnd (IZR M / IZR (Zpos p)) = mag m e.
Proof.
  intros M p m e HM Hb Hs.
  assert (Hq : 0 <= IZR M / IZR (Zpos p)).
  { apply Rmult_le_pos. apply IZR_le. exact HM. left. apply Rinv_0_lt_compat. apply IZR_lt. reflexivity. }
  destruct (RNdiv_real M p) as [H1 _]. { rewrite Rabs_pos_eq; assumption. }
  assert (Hr : 0 <= rnd (IZR M / IZR (Zpos p))).
  { apply round_ge_generic; auto with typeclass_instances. apply generic_format_0. }
  rewrite <- H1 in *. clear H1.
  destruct (RNdiv M p) as [s'|s'| |s' m' e' H']; try discriminate.
  simpl in Hs. apply andb_prop in Hs. destruct Hs as [Hm He].
  apply Pos.eqb_eq in Hm. apply Z.eqb_eq in He. subst m' e'.
  simpl B2R in *. destruct s'; simpl cond_Zopp in *.
  - exfalso. change (Z.neg m) with (- Z.pos m)%Z in Hr. rewrite F2R_Zopp in Hr.
    pose proof (mag_pos m e). unfold mag in H. lra.
  - reflexivity.
Qed.

Lemma same_mag_complete : forall M p m e (H : SpecFloat.bounded prec emax m e = true),
  Rabs (IZR M / IZR (Zpos p)) <= IZR (10 ^ 30) ->
  rnd (IZR M / IZR (Zpos p)) = mag m e -> same_mag (RNdiv M p) m e = true.
Proof.
  intros M p m e H Hb Hr.
  destruct (RNdiv_real M p Hb) as [H1 H2].
  assert (E : RNdiv M p = B754_finite false m e H).
  { apply B2R_inj.
    - apply is_finite_strict_B2R. rewrite H1, Hr. apply Rgt_not_eq. apply mag_pos.
    - reflexivity.
    - rewrite H1, Hr. reflexivity. }
  rewrite E. simpl. rewrite Pos.eqb_refl, Z.eqb_refl. reflexivity.
Qed.

(* soundness: a successful test at d gives an integer whose quotient rounds to |v| *)
Lemma has_dec_sound : forall s m e H d, (0 <= d <= 4)%Z -> mag m e <= IZR (10 ^ 16) ->
  has_dec (B754_finite s m e H) d = true ->
  exists M, (0 <= M)%Z /\ Rabs (IZR M - mag m e * IZR (10 ^ d)) < 1 /\ rnd (IZR M / IZR (10 ^ d)) = mag m e.
Proof.
  intros s m e H d Hd Hv Hh. rewrite has_dec_unfold in Hh.
  assert (Hc : forall M, M = cand_lo m e d \/ M = cand_hi m e d -> same_mag (RNdiv M (pos10 d)) m e = true ->
     exists M, (0 <= M)%Z /\ Rabs (IZR M - mag m e * IZR (10 ^ d)) < 1 /\ rnd (IZR M / IZR (10 ^ d)) = mag m e).
  { intros M HM Hs. destruct (cand_close m e d M (proj1 Hd) HM) as [M0 M1].
    exists M. split; [exact M0|]. split; [exact M1|].
    rewrite <- (pos10_val d (proj1 Hd)). apply same_mag_sound; try assumption.
    rewrite pos10_val by lia.
    pose proof (pow10_ge1 d (proj1 Hd)) as Hp1. pose proof (pow10_le d Hd) as Hp2.
    pose proof (mag_pos m e) as Hmp.
    apply Rabs_def2 in M1. destruct M1 as [M1 M2].
    assert (IZR M <= IZR (10 ^ 16) * 10000 + 1).
    { apply Rle_trans with (mag m e * IZR (10 ^ d) + 1). lra.
      apply Rplus_le_compat_r. apply Rmult_le_compat; lra. }
    apply Rle_trans with (IZR M).
    - apply Rmult_le_reg_r with (IZR (10 ^ d)). lra. unfold Rdiv. rewrite Rmult_assoc, Rinv_l, Rmult_1_r by lra.
      rewrite <- (Rmult_1_r (IZR M)) at 1. apply Rmult_le_compat_l. apply IZR_le. exact M0. exact Hp1.
    - apply Rle_trans with (1 := H0). rewrite <- mult_IZR, <- plus_IZR. apply IZR_le. vm_compute. discriminate. }
  apply orb_prop in Hh. destruct Hh as [Hh|Hh]; [apply (Hc (cand_lo m e d)) | apply (Hc (cand_hi m e d))]; auto.
Qed.

Lemma has_dec_complete : forall s m e H d K, (0 <= d <= 4)%Z -> mag m e <= IZR (10 ^ 16) ->
  Rabs (IZR K - mag m e * IZR (10 ^ d)) < 1 -> rnd (IZR K / IZR (10 ^ d)) = mag m e ->
  has_dec (B754_finite s m e H) d = true.
Proof.
  intros s m e H d K Hd Hv HK Hr. rewrite has_dec_unfold.
  assert (Hs : same_mag (RNdiv K (pos10 d)) m e = true).
  { apply (same_mag_complete K (pos10 d) m e H); rewrite pos10_val by lia; [|exact Hr].
    pose proof (pow10_ge1 d (proj1 Hd)) as Hp1. pose proof (pow10_le d Hd) as Hp2.
    pose proof (mag_pos m e) as Hmp.
    apply Rabs_def2 in HK. destruct HK as [K1 K2].
    unfold Rdiv. rewrite Rabs_mult. rewrite (Rabs_pos_eq (/ IZR (10 ^ d))) by (left; apply Rinv_0_lt_compat; lra).
    assert (Rabs (IZR K) <= IZR (10 ^ 16) * 10000 + 1).
    { apply Rabs_le. split.
      - apply Rle_trans with (mag m e * IZR (10 ^ d) - 1). 2: lra.
        assert (0 <= mag m e * IZR (10 ^ d)) by (apply Rmult_le_pos; lra).
        assert (0 <= IZR (10 ^ 16) * 10000) by (apply Rmult_le_pos; [apply IZR_le; vm_compute; discriminate | lra]). lra.
      - apply Rle_trans with (mag m e * IZR (10 ^ d) + 1). lra.
        apply Rplus_le_compat_r. apply Rmult_le_compat; lra. }
    apply Rle_trans with (Rabs (IZR K) * 1).
    - apply Rmult_le_compat_l. apply Rabs_pos. rewrite <- Rinv_1. apply Rinv_le_contravar; lra.
    - rewrite Rmult_1_r. apply Rle_trans with (1 := H0). rewrite <- mult_IZR, <- plus_IZR. apply IZR_le. vm_compute. discriminate. }
  destruct (cand_complete m e d K (proj1 Hd) HK) as [<- | <-]; rewrite Hs; [reflexivity | apply orb_true_r].
Qed.

(* the digit count *)
Lemma decimals_range : forall v, (0 <= decimals v <= 4)%Z.
Proof.
  intros v. unfold decimals, decimal_cap.
  destruct (has_dec v 0); [lia|]. destruct (has_dec v 1); [lia|].
  destruct (has_dec v 2); [lia|]. destruct (has_dec v 3); lia.
Qed.

Lemma decimals_sound : forall v, (decimals v < 4)%Z -> has_dec v (decimals v) = true.
Proof.
  intros v. unfold decimals, decimal_cap.
  destruct (has_dec v 0) eqn:E0; [intros; exact E0|]. destruct (has_dec v 1) eqn:E1; [intros; exact E1|].
  destruct (has_dec v 2) eqn:E2; [intros; exact E2|]. destruct (has_dec v 3) eqn:E3; [intros; exact E3|]. lia.
Qed.

Lemma decimals_le : forall v d, (0 <= d <= 4)%Z -> has_dec v d = true -> (decimals v <= d)%Z.
Proof.
  intros v d Hd Hh. unfold decimals, decimal_cap.
  destruct (has_dec v 0) eqn:E0; [lia|]. destruct (has_dec v 1) eqn:E1; [destruct (small_d d Hd) as [->|?]; [congruence|lia]|].
  destruct (has_dec v 2) eqn:E2. { destruct (small_d d Hd) as [->|[->|?]]; try congruence; lia. }
  destruct (has_dec v 3) eqn:E3. { destruct (small_d d Hd) as [->|[->|[->|?]]]; try congruence; lia. }
  destruct (small_d d Hd) as [->|[->|[->|[->|?]]]]; try congruence; lia.
Qed.

(* ================= Part 3: error analysis ================= *)

Lemma abs_mul_le : forall a b A B, Rabs a <= A -> Rabs b <= B -> Rabs (a * b) <= A * B.
Proof.
  intros a b A B Ha Hb. rewrite Rabs_mult. apply Rmult_le_compat; try apply Rabs_pos; assumption.
Qed.

Lemma abs_tri3 : forall a b c d, Rabs (a - d) <= Rabs (a - b) + Rabs (b - c) + Rabs (c - d).
Proof.
  intros. replace (a - d) with ((a - b) + (b - c) + (c - d)) by ring.
  eapply Rle_trans. apply Rabs_triang. apply Rplus_le_compat_r. apply Rabs_triang.
Qed.

Lemma abs_le_add : forall a b e, Rabs (a - b) <= e -> Rabs a <= Rabs b + e.
Proof.
  intros a b e H. replace a with (b + (a - b)) at 1 by ring.
  eapply Rle_trans. apply Rabs_triang. lra.
Qed.

Definition uc : R := 112 / IZR (10 ^ 18).

(* u * x <= uc * X for |x| <= X *)
Lemma u_times : forall x X, 0 <= x <= X -> u * x <= uc * X.
Proof.
  intros x X [H0 H1]. pose proof u_le. pose proof u_pos. fold uc in H.
  apply Rmult_le_compat; lra.
Qed.

(* the capped case (four decimals kept, nothing known about v): three roundings and a
   rounding to an integer *)
Lemma near_cap : forall V X n q r : R,
  Rabs V <= IZR (10 ^ 11) ->
  Rabs (X - V * 10000) <= u * Rabs (V * 10000) ->
  Rabs (X - n) <= / 2 ->
  Rabs (q - / 10000) <= u * / 10000 ->
  Rabs (r - n * q) <= u * Rabs (n * q) ->
  Rabs (r - V) <= / 10000.
Proof.
  intros V X n q r HV HX Hn Hq Hr.
  change (IZR (10 ^ 11)) with 100000000000 in HV.
  assert (A1 : Rabs (V * 10000) <= 1000000000000000).
  { replace 1000000000000000 with (100000000000 * 10000) by lra. apply abs_mul_le. exact HV. rewrite Rabs_pos_eq; lra. }
  assert (S1 : Rabs (X - V * 10000) <= uc * 1000000000000000).
  { eapply Rle_trans. exact HX. apply u_times. split. apply Rabs_pos. exact A1. }
  assert (S2 : Rabs (n - V * 10000) <= uc * 1000000000000000 + / 2).
  { replace (n - V * 10000) with ((X - V * 10000) - (X - n)) by ring.
    eapply Rle_trans. apply Rabs_triang. rewrite Rabs_Ropp. lra. }
  assert (A2 : Rabs n <= 1000000000000000 + (uc * 1000000000000000 + / 2)).
  { eapply Rle_trans. apply (abs_le_add _ _ _ S2). lra. }
  unfold uc in *. change (IZR (10 ^ 18)) with 1000000000000000000 in *.
  assert (A2' : Rabs n <= 1000000000000001) by lra.
  assert (S3 : Rabs (q - / 10000) <= 112 / 1000000000000000000 * / 10000).
  { eapply Rle_trans. exact Hq. apply (u_times (/ 10000) (/ 10000)). lra. }
  assert (S4 : Rabs (n * q - n * / 10000) <= 1000000000000001 * (112 / 1000000000000000000 * / 10000)).
  { replace (n * q - n * / 10000) with (n * (q - / 10000)) by ring. apply abs_mul_le; assumption. }
  assert (A3 : Rabs (n * / 10000) <= 1000000000000001 * / 10000).
  { apply abs_mul_le. exact A2'. rewrite Rabs_pos_eq; lra. }
  assert (A4 : Rabs (n * q) <= 100000000001).
  { eapply Rle_trans. apply (abs_le_add _ _ _ S4). lra. }
  assert (S5 : Rabs (r - n * q) <= 112 / 1000000000000000000 * 100000000001).
  { eapply Rle_trans. exact Hr. apply u_times. split. apply Rabs_pos. exact A4. }
  assert (S6 : Rabs (n * / 10000 - V) <= (112 / 1000000000000000000 * 1000000000000000 + / 2) * / 10000).
  { replace (n * / 10000 - V) with ((n - V * 10000) * / 10000) by field.
    apply abs_mul_le. exact S2. rewrite Rabs_pos_eq; lra. }
  eapply Rle_trans. apply (abs_tri3 r (n * q) (n * / 10000) V). lra.
Qed.

(* fewer than four decimals: v = RN(w) for the decimal w = m / p *)
Lemma near_exact : forall V w q r m ip : R,
  Rabs V <= IZR (10 ^ 11) ->
  0 < ip <= 1 -> w = m * ip ->
  Rabs (V - w) <= u * Rabs w ->
  Rabs (q - ip) <= u * ip ->
  Rabs (r - m * q) <= u * Rabs (m * q) ->
  Rabs (r - V) <= / 10000.
Proof.
  intros V w q r m ip HV Hip Hw HVw Hq Hr.
  change (IZR (10 ^ 11)) with 100000000000 in HV.
  pose proof u_le as Hu. pose proof u_pos as Hu0. fold uc in Hu. unfold uc in Hu.
  change (IZR (10 ^ 18)) with 1000000000000000000 in Hu.
  assert (W0 : Rabs w <= 100000000001).
  { pose proof (abs_le_add w V (u * Rabs w)) as H. rewrite Rabs_minus_sym in H. specialize (H HVw).
    pose proof (Rabs_pos w).
    assert (u * Rabs w <= 112 / 1000000000000000000 * Rabs w) by (apply Rmult_le_compat_r; lra). lra. }
  assert (S1 : Rabs (V - w) <= uc * 100000000001).
  { eapply Rle_trans. exact HVw. apply u_times. split. apply Rabs_pos. exact W0. }
  assert (S2 : Rabs (m * q - w) <= uc * 100000000001).
  { subst w. replace (m * q - m * ip) with (m * (q - ip)) by ring. rewrite Rabs_mult.
    eapply Rle_trans. apply Rmult_le_compat_l. apply Rabs_pos. exact Hq.
    replace (Rabs m * (u * ip)) with (u * Rabs (m * ip)).
    apply u_times. split. apply Rabs_pos. exact W0.
    rewrite Rabs_mult, (Rabs_pos_eq ip) by lra. ring. }
  unfold uc in *. change (IZR (10 ^ 18)) with 1000000000000000000 in *.
  assert (A1 : Rabs (m * q) <= 100000000002).
  { eapply Rle_trans. apply (abs_le_add _ _ _ S2). lra. }
  assert (S3 : Rabs (r - m * q) <= 112 / 1000000000000000000 * 100000000002).
  { eapply Rle_trans. exact Hr. apply u_times. split. apply Rabs_pos. exact A1. }
  eapply Rle_trans. apply (abs_tri3 r (m * q) w V). rewrite (Rabs_minus_sym w V). lra.
Qed.

(* ... and the product v * p rounds to the integer m *)
Lemma near_exact_int : forall V w X m p : R,
  Rabs V <= IZR (10 ^ 15) -> 1 <= p <= 10000 -> w = m * / p ->
  Rabs m <= IZR (10 ^ 15) + 1 ->
  Rabs (V - w) <= u * Rabs w ->
  Rabs (X - V * p) <= u * Rabs (V * p) ->
  Rabs (V * p) <= IZR (10 ^ 15) + 1 ->
  Rabs (X - m) <= 3 / 10.
Proof.
  intros V w X m p HV Hp Hw Hm HVw HX HVp.
  change (IZR (10 ^ 15)) with 1000000000000000 in *.
  assert (Hm' : m = w * p) by (subst w; field; lra).
  assert (S1 : Rabs (V * p - m) <= uc * (1000000000000000 + 1)).
  { rewrite Hm'. replace (V * p - w * p) with ((V - w) * p) by ring. rewrite Rabs_mult, (Rabs_pos_eq p) by lra.
    eapply Rle_trans. apply Rmult_le_compat_r. lra. exact HVw.
    replace (u * Rabs w * p) with (u * Rabs m).
    apply u_times. split. apply Rabs_pos. exact Hm.
    rewrite Hm', Rabs_mult, (Rabs_pos_eq p) by lra. ring. }
  assert (S2 : Rabs (X - V * p) <= uc * (1000000000000000 + 1)).
  { eapply Rle_trans. exact HX. apply u_times. split. apply Rabs_pos. exact HVp. }
  unfold uc in *. change (IZR (10 ^ 18)) with 1000000000000000000 in *.
  replace (X - m) with ((X - V * p) + (V * p - m)) by ring.
  eapply Rle_trans. apply Rabs_triang. lra.
Qed.

(* ---- NewScaledNumberType in real terms ---- *)
Lemma new_scaled_real : forall v : b64, is_finite v = true ->
  Rabs (B2R v * IZR (10 ^ decimals v)) <= IZR (10 ^ 18) ->
  let d := decimals v in
  let X := rnd (B2R v * IZR (10 ^ d)) in
  let n := ZnearestA X in
  new_scaled v = (n, if (n =? 0)%Z then 0%Z else (- d)%Z) /\
  Rabs (X - B2R v * IZR (10 ^ d)) <= u * Rabs (B2R v * IZR (10 ^ d)).
Proof.
  intros v Fv Hb d X n. fold d in Hb.
  pose proof (decimals_range v) as Hd. fold d in Hd.
  destruct (Z2B_exact (10 ^ d)) as [P1 P2].
  { apply Z.le_trans with (10 ^ 4)%Z. 2: (vm_compute; discriminate).
    rewrite Z.abs_eq by (apply Z.pow_nonneg; lia). apply Z.pow_le_mono_r; lia. }
  destruct (Bmult_real v (Z2B (10 ^ d)) Fv P2) as [M1 M2].
  { rewrite P1. apply Rle_trans with (1 := Hb). apply IZR_le. vm_compute. discriminate. }
  rewrite P1 in M1. fold X in M1.
  split.
  - unfold new_scaled, new_scaled_with. fold d.
    rewrite (round_away_real _ M2).
    + rewrite M1. fold n. reflexivity.
    + rewrite M1. unfold X.
      apply abs_round_le_generic; auto with typeclass_instances.
      * change (IZR (2 ^ 62)) with (bpow radix2 62). apply generic_format_bpow. unfold FLT_exp. lia.
      * apply Rle_trans with (1 := Hb). apply IZR_le. vm_compute. discriminate.
  - unfold X. apply rnd_rel_times_int.
Qed.

Lemma new_scaled_zero : forall s, new_scaled (B754_zero s) = (0%Z, 0%Z) /\ B2R (get_value 0 0) = 0 /\ is_finite (get_value 0 0) = true.
Proof. intros s. destruct s; vm_compute; auto. Qed.

(* Any finite float64 of magnitude at most 10^11 converts to within 0.0001 of itself. *)
Theorem scaled_near : forall v : b64, is_finite v = true -> Rabs (B2R v) <= IZR (10 ^ 11) ->
  let '(n, s) := new_scaled v in
  is_finite (get_value n s) = true /\ Rabs (B2R (get_value n s) - B2R v) <= / 10000.
Proof.
  intros v Fv HV.
  destruct v as [sv|sv| |sv mv ev Hv]; try discriminate.
  { destruct (new_scaled_zero sv) as [-> [E1 E2]]. split. exact E2. rewrite E1. simpl B2R.
    unfold Rminus. rewrite Ropp_0, Rplus_0_r, Rabs_R0. lra. }
  set (v := B754_finite sv mv ev Hv : b64) in *.
  pose proof (decimals_range v) as Hd.
  set (d := decimals v) in *.
  pose proof (pow10_ge1 d (proj1 Hd)) as Hp1. pose proof (pow10_le d Hd) as Hp2.
  assert (Hb : Rabs (B2R v * IZR (10 ^ d)) <= IZR (10 ^ 18)).
  { replace (IZR (10 ^ 18)) with (IZR (10 ^ 11) * 10000000).
    apply abs_mul_le. exact HV. rewrite Rabs_pos_eq; lra.
    rewrite <- mult_IZR. reflexivity. }
  destruct (new_scaled_real v Fv Hb) as [E HX]. fold d in E, HX. rewrite E. clear E.
  set (X := rnd (B2R v * IZR (10 ^ d))) in *. set (n := ZnearestA X).
  pose proof (Znearest_half (Z.leb 0) X) as Hn. fold ZnearestA in Hn. fold n in Hn.
  assert (HVp : Rabs (B2R v * IZR (10 ^ d)) <= IZR (10 ^ 15)).
  { replace (IZR (10 ^ 15)) with (IZR (10 ^ 11) * 10000).
    apply abs_mul_le. exact HV. rewrite Rabs_pos_eq; lra. rewrite <- mult_IZR. reflexivity. }
  assert (HX' : Rabs (X - B2R v * IZR (10 ^ d)) <= 1 / 2).
  { eapply Rle_trans. exact HX. eapply Rle_trans. apply u_times. split. apply Rabs_pos. exact HVp.
    unfold uc. change (IZR (10 ^ 18)) with 1000000000000000000. change (IZR (10 ^ 15)) with 1000000000000000. lra. }
  assert (Hnb : (Z.abs n <= 2 ^ 53)%Z).
  { apply le_IZR. rewrite abs_IZR.
    replace (IZR n) with (B2R v * IZR (10 ^ d) + (X - B2R v * IZR (10 ^ d)) - (X - IZR n)) by ring.
    eapply Rle_trans. apply Rabs_triang. eapply Rle_trans. apply Rplus_le_compat_r. apply Rabs_triang.
    rewrite Rabs_Ropp. change (IZR (2 ^ 53)) with 9007199254740992. change (IZR (10 ^ 15)) with 1000000000000000 in HVp. lra. }
  destruct (get_value_real n d Hd Hnb) as [G1 G2]. cbv zeta in G1, G2.
  split. exact G2. rewrite G1.
  destruct (q10_bound d Hd) as [Q1 _].
  assert (Hr : Rabs (rnd (IZR n * q10 d) - IZR n * q10 d) <= u * Rabs (IZR n * q10 d)).
  { destruct (pow10_real d Hd) as [<- _]. rewrite (Rmult_comm (IZR n)). apply rnd_rel_times_int. }
  destruct (Z.eq_dec d 4) as [D4|D4].
  - (* four decimals kept *)
    rewrite D4 in *. change (IZR (10 ^ 4)) with 10000 in *.
    apply (near_cap (B2R v) X (IZR n) (q10 4) _ HV HX Hn Q1 Hr).
  - (* the shortest decimal of v has d < 4 digits: v = RN(M / 10^d) *)
    assert (Hmag : mag mv ev <= IZR (10 ^ 16)).
    { rewrite <- (B2R_finite_abs sv mv ev Hv). apply Rle_trans with (1 := HV). apply IZR_le. vm_compute. discriminate. }
    destruct (has_dec_sound sv mv ev Hv d Hd Hmag) as [M [M0 [M1 M2]]].
    { apply decimals_sound. fold v. fold d. lia. }
    (* signed version *)
    set (m := if sv then (- M)%Z else M).
    assert (Hw : rnd (IZR m / IZR (10 ^ d)) = B2R v).
    { unfold m, v. simpl B2R. destruct sv; simpl cond_Zopp.
      - rewrite opp_IZR. unfold Rdiv. rewrite <- Ropp_mult_distr_l. fold (IZR M / IZR (10 ^ d)).
        rewrite round_NE_opp, M2. change (Z.neg mv) with (- Z.pos mv)%Z. rewrite F2R_Zopp. reflexivity.
      - exact M2. }
    assert (HM1 : (1 <= M)%Z).
    { destruct (Z.eq_dec M 0) as [->|]; [|lia]. exfalso. unfold Rdiv in M2. rewrite Rmult_0_l, round_0 in M2 by auto with typeclass_instances.
      pose proof (mag_pos mv ev). lra. }
    set (w := IZR m / IZR (10 ^ d)) in *.
    assert (Habsm : Rabs (IZR m) = IZR M).
    { unfold m. destruct sv; [rewrite opp_IZR, Rabs_Ropp|]; apply Rabs_pos_eq; apply IZR_le; lia. }
    assert (Hwn : bpow radix2 (-1022) <= Rabs w).
    { unfold w, Rdiv. rewrite Rabs_mult, Habsm, (Rabs_pos_eq (/ IZR (10 ^ d))) by (left; apply Rinv_0_lt_compat; lra).
      apply Rle_trans with (1 * / 10000).
      - rewrite Rmult_1_l. change (bpow radix2 (-1022)) with (/ IZR (2 ^ 1022)).
        apply Rinv_le_contravar. lra. apply IZR_le. vm_compute. discriminate.
      - apply Rmult_le_compat. lra. left. apply Rinv_0_lt_compat. lra. apply IZR_le. exact HM1.
        apply Rinv_le_contravar; lra. }
    pose proof (rnd_rel_normal w Hwn) as HVw. rewrite Hw in HVw.
    (* the product rounds to m *)
    assert (Hxm : Rabs (X - IZR m) <= 3 / 10).
    { apply (near_exact_int (B2R v) w X (IZR m) (IZR (10 ^ d))).
      - apply Rle_trans with (1 := HV). apply IZR_le. vm_compute. discriminate.
      - lra.
      - reflexivity.
      - rewrite Habsm. apply Rabs_def2 in M1. destruct M1 as [M1 _].
        rewrite <- (B2R_finite_abs sv mv ev Hv) in M1. fold v in M1.
        rewrite <- (Rabs_pos_eq (IZR (10 ^ d))) in M1 by lra. rewrite <- Rabs_mult in M1. lra.
      - exact HVw.
      - exact HX.
      - lra. }
    assert (En : n = m).
    { unfold n. apply Znearest_imp. lra. }
    rewrite En in *.
    apply (near_exact (B2R v) w (q10 d) _ (IZR m) (/ IZR (10 ^ d))); try assumption.
    + split. apply Rinv_0_lt_compat. lra. rewrite <- Rinv_1. apply Rinv_le_contravar; lra.
    + reflexivity.
Qed.

(* ---- decimals k * 10^-d ---- *)

(* two decimals that round to the same float64 below 10^15 are equal (the spacing
   argument: 2^-52 * 10^15 < 1) *)
Lemma same_rounding_same_decimal : forall A K W p : R,
  1 <= p -> 0 <= A -> 0 <= K <= IZR (10 ^ 15) -> A <= K + K * uc + 10001 ->
  Rabs (W - A / p) <= u * (A / p) -> Rabs (W - K / p) <= u * (K / p) ->
  Rabs (A - K) < 1.
Proof.
  intros A K W p Hp HA HK HAK H1 H2.
  change (IZR (10 ^ 15)) with 1000000000000000 in HK. unfold uc in HAK. change (IZR (10 ^ 18)) with 1000000000000000000 in HAK.
  assert (Hip : 0 < / p) by (apply Rinv_0_lt_compat; lra).
  assert (E : Rabs (A / p - K / p) <= u * (A / p) + u * (K / p)).
  { replace (A / p - K / p) with ((W - K / p) - (W - A / p)) by ring.
    eapply Rle_trans. apply Rabs_triang. rewrite Rabs_Ropp. lra. }
  replace (A / p - K / p) with ((A - K) * / p) in E by (unfold Rdiv; ring).
  rewrite Rabs_mult, (Rabs_pos_eq (/ p)) in E by lra.
  assert (E2 : Rabs (A - K) <= u * A + u * K).
  { apply Rmult_le_reg_r with (/ p). exact Hip. unfold Rdiv in E. lra. }
  assert (u * A <= uc * (K + K * (112 / 1000000000000000000) + 10001)) by (apply u_times; lra).
  assert (u * K <= uc * 1000000000000000) by (apply u_times; lra).
  unfold uc in *. change (IZR (10 ^ 18)) with 1000000000000000000 in *.
  nra.
Qed.

Theorem decimal_roundtrip : forall k d, (0 <= d <= 4)%Z -> (Z.abs k < 10 ^ 15)%Z ->
  let '(n, s) := new_scaled (dec k d) in
  ((s <= 0)%Z /\ (n * 10 ^ d = k * 10 ^ (- s))%Z) /\
  is_finite (get_value n s) = true /\
  Rabs (B2R (get_value n s) - IZR k / IZR (10 ^ d)) < / 2 * / IZR (10 ^ d).
Proof.
  intros k d Hd Hk.
  pose proof (pow10_ge1 d (proj1 Hd)) as Hp1. pose proof (pow10_le d Hd) as Hp2.
  assert (Hip : 0 < / IZR (10 ^ d)) by (apply Rinv_0_lt_compat; lra).
  destruct (Z.eq_dec k 0) as [->|Hk0].
  { change (dec 0 d) with (B754_zero false : b64).
    destruct (new_scaled_zero false) as [-> [E1 E2]]. split; [split; [lia | reflexivity]|].
    split. exact E2. rewrite E1. unfold Rdiv. rewrite Rmult_0_l. unfold Rminus. rewrite Ropp_0, Rplus_0_r, Rabs_R0.
    apply Rmult_lt_0_compat; lra. }
  set (K := Z.abs k).
  assert (HK1 : (1 <= K < 10 ^ 15)%Z) by (unfold K; lia).
  set (w := IZR k / IZR (10 ^ d)).
  assert (HabsK : Rabs (IZR k) = IZR K) by (unfold K; rewrite abs_IZR; reflexivity).
  assert (Habsw : Rabs w = IZR K / IZR (10 ^ d)).
  { unfold w, Rdiv. rewrite Rabs_mult, HabsK, (Rabs_pos_eq (/ IZR (10 ^ d))) by lra. reflexivity. }
  assert (HKR : 1 <= IZR K <= IZR (10 ^ 15)).
  { split; apply IZR_le; lia. }
  assert (Hwle : Rabs w <= IZR (10 ^ 15)).
  { rewrite Habsw. apply Rle_trans with (IZR K * 1). 2: lra.
    unfold Rdiv. apply Rmult_le_compat_l. lra. rewrite <- Rinv_1. apply Rinv_le_contravar; lra. }
  (* v = RN(w) *)
  destruct (RNdiv_real k (pos10 d)) as [V1 V2].
  { rewrite pos10_val by lia. fold w. apply Rle_trans with (1 := Hwle). apply IZR_le. vm_compute. discriminate. }
  rewrite pos10_val in V1 by lia. fold w in V1. fold (dec k d) in V1, V2.
  assert (Hwn : bpow radix2 (-1022) <= Rabs w).
  { rewrite Habsw. apply Rle_trans with (1 * / 10000).
    - rewrite Rmult_1_l. change (bpow radix2 (-1022)) with (/ IZR (2 ^ 1022)).
      apply Rinv_le_contravar. lra. apply IZR_le. vm_compute. discriminate.
    - unfold Rdiv. apply Rmult_le_compat; try lra. apply Rinv_le_contravar; lra. }
  pose proof (rnd_rel_normal w Hwn) as HVw. rewrite <- V1 in HVw.
  assert (HVle : Rabs (B2R (dec k d)) <= IZR (10 ^ 15)).
  { rewrite V1. apply abs_round_le_generic; auto with typeclass_instances.
    apply format_small_int. vm_compute. discriminate. }
  assert (HVne : B2R (dec k d) <> 0).
  { intros E. rewrite E in HVw. unfold Rminus in HVw. rewrite Rplus_0_l, Rabs_Ropp in HVw.
    pose proof u_le. pose proof u_pos. unfold uc in *. change (IZR (10 ^ 18)) with 1000000000000000000 in *.
    assert (0 < Rabs w). { rewrite Habsw. apply Rmult_lt_0_compat; lra. }
    assert (u * Rabs w <= 112 / 1000000000000000000 * Rabs w) by (apply Rmult_le_compat_r; lra). lra. }
  remember (dec k d) as v eqn:Ev.
  destruct v as [sv|sv| |sv mv ev Hv]; try discriminate; [exfalso; apply HVne; reflexivity|].
  set (v := B754_finite sv mv ev Hv : b64) in *.
  (* |v| = RN(K / 10^d), and |v| * 10^d is within 1 of K *)
  assert (Hmag : mag mv ev = rnd (IZR K / IZR (10 ^ d))).
  { rewrite <- (B2R_finite_abs sv mv ev Hv). fold v. rewrite V1, <- round_NE_abs, Habsw by auto with typeclass_instances. reflexivity. }
  assert (HmagV : mag mv ev = Rabs (B2R v)) by (symmetry; apply B2R_finite_abs).
  assert (HmagK : Rabs (mag mv ev - IZR K / IZR (10 ^ d)) <= u * (IZR K / IZR (10 ^ d))).
  { rewrite Hmag. rewrite <- Habsw. rewrite <- (Rabs_pos_eq (Rabs w)) at 3 by apply Rabs_pos.
    apply rnd_rel_normal. rewrite Rabs_pos_eq by apply Rabs_pos. exact Hwn. }
  assert (Hmag16 : mag mv ev <= IZR (10 ^ 16)).
  { rewrite HmagV. apply Rle_trans with (1 := HVle). apply IZR_le. vm_compute. discriminate. }
  assert (HuK : u * IZR K <= uc * IZR (10 ^ 15)) by (apply u_times; lra).
  assert (HKclose : Rabs (IZR K - mag mv ev * IZR (10 ^ d)) <= u * IZR K).
  { replace (IZR K - mag mv ev * IZR (10 ^ d)) with (- ((mag mv ev - IZR K / IZR (10 ^ d)) * IZR (10 ^ d))) by (field; lra).
    rewrite Rabs_Ropp, Rabs_mult, (Rabs_pos_eq (IZR (10 ^ d))) by lra.
    replace (u * IZR K) with (u * (IZR K / IZR (10 ^ d)) * IZR (10 ^ d)) by (field; lra).
    apply Rmult_le_compat_r; lra. }
  assert (HKclose1 : Rabs (IZR K - mag mv ev * IZR (10 ^ d)) < 1).
  { eapply Rle_lt_trans. exact HKclose. unfold uc in HuK. change (IZR (10 ^ 18)) with 1000000000000000000 in HuK.
    change (IZR (10 ^ 15)) with 1000000000000000 in HuK. lra. }
  assert (Hhas : has_dec v d = true).
  { apply (has_dec_complete sv mv ev Hv d K Hd Hmag16 HKclose1). symmetry. exact Hmag. }
  pose proof (decimals_le v d Hd Hhas) as Hd'le. pose proof (decimals_range v) as Hd'.
  set (d' := decimals v) in *.
  pose proof (pow10_ge1 d' (proj1 Hd')) as Hq1. pose proof (pow10_le d' Hd') as Hq2.
  (* an integer M' with RN(M' / 10^d') = |v| *)
  assert (HM : exists M, (0 <= M)%Z /\ Rabs (IZR M - mag mv ev * IZR (10 ^ d')) < 1 /\ rnd (IZR M / IZR (10 ^ d')) = mag mv ev).
  { destruct (Z.eq_dec d' 4) as [E4|E4].
    - assert (d = 4%Z) by lia. exists K. rewrite E4. subst d. split. lia. split. exact HKclose1. symmetry. exact Hmag.
    - apply (has_dec_sound sv mv ev Hv d'); try assumption. apply decimals_sound. fold v. fold d'. lia. }
  destruct HM as [M [M0 [M1 M2]]].
  assert (HM1 : (1 <= M)%Z).
  { destruct (Z.eq_dec M 0) as [->|]; [|lia]. exfalso. unfold Rdiv in M2. rewrite Rmult_0_l, round_0 in M2 by auto with typeclass_instances.
    pose proof (mag_pos mv ev). lra. }
  (* A = M * 10^(d-d') = K *)
  set (A := (M * 10 ^ (d - d'))%Z).
  assert (Hsplit : (10 ^ d = 10 ^ (d - d') * 10 ^ d')%Z).
  { rewrite <- Z.pow_add_r by lia. f_equal. lia. }
  assert (Hpd : (1 <= 10 ^ (d - d'))%Z) by (assert (0 < 10 ^ (d - d'))%Z by (apply Z.pow_pos_nonneg; lia); lia).
  assert (HpdR : 1 <= IZR (10 ^ (d - d')) <= 10000).
  { split. apply IZR_le. lia. apply Rle_trans with (IZR (10 ^ d)). 2: lra. apply IZR_le. rewrite Hsplit.
    assert (1 <= 10 ^ d')%Z by (apply le_IZR; exact Hq1). nia. }
  assert (HAp : IZR M / IZR (10 ^ d') = IZR A / IZR (10 ^ d)).
  { unfold A. rewrite Hsplit, !mult_IZR. field. split; lra. }
  assert (HMn : bpow radix2 (-1022) <= Rabs (IZR M / IZR (10 ^ d'))).
  { rewrite Rabs_pos_eq. 2: (apply Rmult_le_pos; [apply IZR_le; lia | left; apply Rinv_0_lt_compat; lra]).
    apply Rle_trans with (1 * / 10000).
    - rewrite Rmult_1_l. change (bpow radix2 (-1022)) with (/ IZR (2 ^ 1022)).
      apply Rinv_le_contravar. lra. apply IZR_le. vm_compute. discriminate.
    - unfold Rdiv. apply Rmult_le_compat; try lra. apply IZR_le. exact HM1. apply Rinv_le_contravar; lra. }
  assert (HmagA : Rabs (mag mv ev - IZR A / IZR (10 ^ d)) <= u * (IZR A / IZR (10 ^ d))).
  { rewrite <- HAp. rewrite <- M2 at 1.
    rewrite <- (Rabs_pos_eq (IZR M / IZR (10 ^ d'))) at 3.
    apply rnd_rel_normal. exact HMn.
    apply Rmult_le_pos; [apply IZR_le; lia | left; apply Rinv_0_lt_compat; lra]. }
  assert (HA0 : 0 <= IZR A) by (apply IZR_le; unfold A; nia).
  assert (HAK : Rabs (IZR A - IZR K) < 1).
  { apply (same_rounding_same_decimal (IZR A) (IZR K) (mag mv ev) (IZR (10 ^ d))); try assumption; try lra.
    (* A <= K + K*uc + 10001 *)
    apply Rabs_def2 in M1. destruct M1 as [M1 _].
    apply Rabs_le_inv in HKclose. destruct HKclose as [HKc _].
    assert (IZR A < mag mv ev * IZR (10 ^ d) + IZR (10 ^ (d - d'))).
    { unfold A. rewrite mult_IZR. rewrite Hsplit at 1. rewrite mult_IZR.
      replace (mag mv ev * (IZR (10 ^ (d - d')) * IZR (10 ^ d')) + IZR (10 ^ (d - d'))) with ((mag mv ev * IZR (10 ^ d') + 1) * IZR (10 ^ (d - d'))) by ring.
      apply Rmult_lt_compat_r; lra. }
    assert (u * IZR K <= uc * IZR K) by (pose proof u_le; fold uc in H0; apply Rmult_le_compat_r; lra).
    lra. }
  assert (EAK : A = K).
  { rewrite <- minus_IZR, <- abs_IZR in HAK. apply lt_IZR in HAK. lia. }
  (* signed *)
  set (m := if (k <? 0)%Z then (- M)%Z else M).
  assert (Hmk : (m * 10 ^ (d - d') = k)%Z).
  { unfold m. unfold A in EAK. destruct (Z.ltb_spec k 0); unfold K in EAK; lia. }
  assert (Hw : w = IZR m / IZR (10 ^ d')).
  { unfold w. rewrite <- Hmk, Hsplit, !mult_IZR. field. split; lra. }
  assert (Habsm : Rabs (IZR m) = IZR M).
  { unfold m. destruct (k <? 0)%Z; [rewrite opp_IZR, Rabs_Ropp|]; apply Rabs_pos_eq; apply IZR_le; lia. }
  assert (HMK : (M <= K)%Z) by (unfold A in EAK; nia).
  (* the product v * 10^d' *)
  assert (HVp : Rabs (B2R v * IZR (10 ^ d')) <= IZR (10 ^ 15) + 1).
  { rewrite Rabs_mult, <- HmagV, (Rabs_pos_eq (IZR (10 ^ d'))) by lra.
    apply Rabs_def2 in M1. destruct M1 as [_ M1]. assert (IZR M <= IZR K) by (apply IZR_le; exact HMK). lra. }
  destruct (new_scaled_real v) as [E HX].
  { reflexivity. }
  { fold d'. apply Rle_trans with (1 := HVp). rewrite <- plus_IZR. apply IZR_le. vm_compute. discriminate. }
  fold d' in E, HX. rewrite E. clear E.
  set (X := rnd (B2R v * IZR (10 ^ d'))) in *.
  assert (Hxm : Rabs (X - IZR m) <= 3 / 10).
  { apply (near_exact_int (B2R v) w X (IZR m) (IZR (10 ^ d'))).
    - exact HVle.
    - lra.
    - exact Hw.
    - rewrite Habsm. assert (IZR M <= IZR K) by (apply IZR_le; exact HMK). lra.
    - exact HVw.
    - exact HX.
    - exact HVp. }
  assert (En : ZnearestA X = m).
  { apply Znearest_imp. lra. }
  rewrite En.
  assert (Hm0 : m <> 0%Z) by (unfold m; destruct (k <? 0)%Z; lia).
  replace (m =? 0)%Z with false by (symmetry; apply Z.eqb_neq; exact Hm0).
  split.
  { split. lia. rewrite Z.opp_involutive. rewrite <- Hmk. rewrite Hsplit. ring. }
  assert (Hmb : (Z.abs m <= 2 ^ 53)%Z).
  { apply le_IZR. rewrite abs_IZR, Habsm. apply Rle_trans with (IZR K). apply IZR_le. exact HMK.
    apply IZR_le. apply Z.le_trans with (10 ^ 15)%Z. lia. vm_compute. discriminate. }
  destruct (get_value_real m d' Hd' Hmb) as [G1 G2]. cbv zeta in G1, G2.
  replace (m =? 0)%Z with false in G1, G2 by (symmetry; apply Z.eqb_neq; exact Hm0).
  split. exact G2. rewrite G1. fold w.
  destruct (q10_bound d' Hd') as [Q1 _].
  assert (Hr : Rabs (rnd (IZR m * q10 d') - IZR m * q10 d') <= u * Rabs (IZR m * q10 d')).
  { destruct (pow10_real d' Hd') as [<- _]. rewrite (Rmult_comm (IZR m)). apply rnd_rel_times_int. }
  (* |r - w| <= |r - m q| + |m q - w| *)
  assert (S2 : Rabs (IZR m * q10 d' - w) <= u * Rabs w).
  { rewrite Hw. replace (IZR m * q10 d' - IZR m / IZR (10 ^ d')) with (IZR m * (q10 d' - / IZR (10 ^ d'))) by (unfold Rdiv; ring).
    rewrite Rabs_mult. unfold Rdiv. rewrite (Rabs_mult (IZR m)), (Rabs_pos_eq (/ IZR (10 ^ d'))) by (left; apply Rinv_0_lt_compat; lra).
    replace (u * (Rabs (IZR m) * / IZR (10 ^ d'))) with (Rabs (IZR m) * (u * / IZR (10 ^ d'))) by ring.
    apply Rmult_le_compat_l. apply Rabs_pos. exact Q1. }
  assert (HwK : Rabs w * IZR (10 ^ d) = IZR K) by (rewrite Habsw; field; lra).
  assert (Hu1 : u * Rabs w * IZR (10 ^ d) <= uc * IZR (10 ^ 15)).
  { replace (u * Rabs w * IZR (10 ^ d)) with (u * IZR K) by (rewrite <- HwK; ring). exact HuK. }
  assert (A1 : Rabs (IZR m * q10 d') <= Rabs w + u * Rabs w) by (apply abs_le_add; exact S2).
  assert (S3 : Rabs (rnd (IZR m * q10 d') - IZR m * q10 d') * IZR (10 ^ d) <= uc * (IZR (10 ^ 15) + 1)).
  { eapply Rle_trans. apply Rmult_le_compat_r. lra. exact Hr.
    rewrite Rmult_assoc. apply u_times. split. apply Rmult_le_pos. apply Rabs_pos. lra.
    apply Rle_trans with ((Rabs w + u * Rabs w) * IZR (10 ^ d)). apply Rmult_le_compat_r; lra.
    unfold uc in Hu1. change (IZR (10 ^ 18)) with 1000000000000000000 in Hu1. change (IZR (10 ^ 15)) with 1000000000000000 in *. lra. }
  apply Rmult_lt_reg_r with (IZR (10 ^ d)). lra.
  replace (/ 2 * / IZR (10 ^ d) * IZR (10 ^ d)) with (/ 2) by (field; lra).
  eapply Rle_lt_trans. apply Rmult_le_compat_r. lra.
  replace (rnd (IZR m * q10 d') - w) with ((rnd (IZR m * q10 d') - IZR m * q10 d') + (IZR m * q10 d' - w)) by ring.
  apply Rabs_triang.
  rewrite Rmult_plus_distr_r.
  assert (Rabs (IZR m * q10 d' - w) * IZR (10 ^ d) <= uc * IZR (10 ^ 15)).
  { eapply Rle_trans. apply Rmult_le_compat_r. lra. exact S2. exact Hu1. }
  unfold uc in *. change (IZR (10 ^ 18)) with 1000000000000000000 in *. change (IZR (10 ^ 15)) with 1000000000000000 in *. lra.
Qed.
